import AmaranthVerif.Proofs.MemoryCtor
import AmaranthVerif.Proofs.MemoryRename
import AmaranthVerif.Proofs.MemQueue
import AmaranthVerif.Proofs.MemQueueComm

/-!
# C11 — memories behave as arrays of rows under any port configuration

`Mem.step` (Model/Memory.lean: the write queue, the committed-row read, the transparency patch-up, the
combinational read process, the testbench row access of the Python simulator) against `MemRows.step`
(Spec/MemoryRows.lean: an array of rows of bits). Every theorem is for **all** configurations `c : Cfg` that
the constructors can produce (`WF c`: any row shape and width, any depth incl. 0, 1 and non-powers of two, any
number of read and write ports in any domains, any granularity, any transparency list *the constructor accepts*),
all states, all input valuations and all events (any set of clocks changing at once, any reset levels), and the
run theorem for all finite sequences of them (induction, no bound).

Theorems of this file: `ctor_covers`, `ctor_wf`, `ctor_transparency`, `inv_init`, `inv_step`, `write_granules`,
`write_data_bit`, `oob_write_noop`, `collision_last_wins` (+ `oneDomain_of_single_edge`), `async_read`,
`async_read_beyond_depth`, `sync_read_old_data`,
`transparent_read`, `read_beyond_depth`, `read_hold_when_disabled`, `old_reset_clears_read_port`,
`old_differs_only_under_reset`, `row_access_same_storage`, `row_access_out_of_range`, `model_refines_rows`,
`values_in_shape`, `observed_values_are_rows`, `model_refines_rows_values`, `model_refines_rows_run`,
`rename_moves_ports`, `rename_keeps_wf`.
(`exCfg_ctor`, `exWF`, `exInv`, `exInputsOk`, `exOneDomain`, `exNoCollision`, `exReadsInRange`, `exRunOk` are the
non-vacuity instances on the example configuration, not property theorems.)

Vocabulary. `ibit v i` is bit `i` of the Python integer `v`; a row of the Spec is `toBits width v`.
`activeWrite c clk inp e k = some w` says that write port `k` has an active edge of its clock at event `e`
(its clock *changes to* its active level) and `w` is its address / granularity / enable / data; `w.hits a i`
says that it addresses row `a` and the enable bit of the granule containing bit `i` is set.

Hypotheses, all explicit:
* `WF c`        — what the constructors guarantee (`ctor_wf` proves it for everything `mkCfg` returns):
                  the enable bits of every write port cover the row (`enw * gran ≥ width`), and every entry of a
                  read port's transparency list is a write port of this memory **and of the read port's domain**.
                  The model can be *given* a configuration that violates this (a transparency list naming a port of
                  another domain); the real constructor raises `ValueError` for it (`readPortCheck`, compared with
                  the code by the check's constructor stream), so no theorem speaks about such a configuration;
* `Inv c s`     — the state has `depth` rows and one register per read port (`inv_init`, `inv_step`);
* `InputsOk`    — address signals hold `ceil_log2(depth)`-bit values;
* `NoCollision` — no two different write ports hit the same bit of the same row at one event. This is **not** an
                  exclusion the property text makes (it only leaves reads beyond the depth open). It is needed
                  because "replaces the enabled granules with the new data" has no single reading when two ports
                  write different data to one granule at one edge: there is no "the new data". The Spec leaves
                  that case open (its `newBit` deliberately takes the other port than the simulator, so nothing can
                  be proved about it by accident), the refinement theorems assume it away, and
                  `collision_last_wins` says what the simulator does there for ports of one domain;
* `OneDomain`   — (only `collision_last_wins`) all write ports with an active edge at the event are of one domain.
                  Colliding writes of ports of *different* domains at coincident edges are unspecified: the real
                  result depends on the order in which the simulator runs the two domain processes (C08), the
                  library documents it as undefined, the model fixes one order (port index), and the check does
                  not compare those rows;
* `ReadsInRange`— every capturing synchronous read port addresses an existing row (the property leaves reads
                  beyond the depth unspecified; `read_beyond_depth` says what the simulator gives).

Reset. The repaired simulator (`step`) never consults a reset signal; that is true by construction of the model
(`Mem.step_ignores_reset`, a lemma, not a property theorem) and is tied to the code by the check's walks with
reset pulses. `stepOld` is the simulator as found (finding F22), refuted against the Spec by
`old_reset_clears_read_port`; `old_differs_only_under_reset` says that it differs from `step` nowhere else.

Testbench row access. `mem[i]` exists for `0 ≤ i < depth` only (`MemoryData.__getitem__` raises `IndexError`
otherwise — also for negative `i`); `tbGet` / `tbSet` include that lookup.

`DomainRenamer` around a memory (`Model/MemoryRename.lean`, `Spec/MemoryRename.lean`). `Cfg.rename c m` is what
`map_memory_ports` leaves: one lookup of every port's domain in the map. `rename_moves_ports`: every port sits in the
target the map names *for its declared domain* — all entries acting at once, so swaps, chains listed source-first and
rotations move every port exactly once — and nothing else of the memory changes; `rename_keeps_wf`: the renamed memory
is again a configuration all theorems of this file speak about. The check's walks wrap memories in renamers with such
maps and evaluate `Mem.step` / `MemRows.step` on `Cfg.rename` of the declared configuration.

The clause "the simulator and the emitted RTLIL agree wherever the RTLIL is defined" is decided by C04's check.
-/

namespace Amaranth.C11
open Amaranth.Mem
open Amaranth.MemRows (Write newBit newRow toBits toInt activeEdge activeWrite writeOf edgeOf absState asyncRead rowWrite)

/-! ## A concrete configuration for the non-vacuity examples

4-bit unsigned rows, depth 3 (not a power of two), one positive-edge domain with a synchronous reset;
write port 0 with granularity 2 (two enable bits), write port 1 writing whole rows;
read port 0 synchronous and transparent for write port 0, read port 1 asynchronous, read port 2 synchronous. -/

def exCfg : Cfg :=
  { shape := ⟨4, false⟩, depth := 3, init := [5, 6, 7], doms := [⟨true, .sync⟩],
    rds := [⟨some 0, [0]⟩, ⟨none, []⟩, ⟨some 0, []⟩], wrs := [⟨0, 2, 2⟩, ⟨0, 4, 1⟩], rdInit := [0, 0, 0] }

/-- port 0 writes the upper granule of row 1 with `0b1010`, port 1 is disabled; all three read ports address row 1 -/
def exInp : Inputs := ⟨[⟨1, 10, 2⟩, ⟨2, 15, 0⟩], [⟨1, true⟩, ⟨1, true⟩, ⟨1, true⟩]⟩
/-- a rising clock edge -/
def exEv : Event := ⟨[true], [false]⟩

example : (step exCfg (init exCfg) exInp exEv).rows = [5, 10, 7] := by decide
-- read port 0 (transparent) sees the new upper granule, read port 2 the old row
example : (step exCfg (init exCfg) exInp exEv).rdata = [10, 0, 6] := by decide

/-- the example configuration is what the constructor calls return -/
theorem exCfg_ctor :
    mkCfg (.plain ⟨4, false⟩) 3 [5, 6, 7] [⟨true, .sync⟩] [⟨some 0, .int 2⟩, ⟨some 0, .none⟩]
      [⟨some 0, [0]⟩, ⟨none, []⟩, ⟨some 0, []⟩] = .ok exCfg := rfl
theorem exInputsOk : InputsOk exCfg exInp := inputsOk_of_check _ _ (by decide +kernel)

/-! ## Which configurations exist; invariant -/

/-- the constructors of `lib.memory` / `hdl._mem` only produce write ports whose enable bits cover the row:
`len(en) * _granularity ≥ width` whenever `WritePort.Signature` accepts the granularity -/
theorem ctor_covers (k : RowKind) (g : GranArg) (n : Nat) (h : enWidth k g = .ok n) :
    k.width ≤ n * granBits k.width n :=
  enWidth_covers k g n h

example : enWidth (.plain ⟨12, false⟩) (.int 3) = .ok 4 := rfl
example : granBits 12 4 = 3 := by decide
example : enWidth (.array 3 6) (.int 2) = .ok 3 := rfl
example : granBits 18 3 = 6 := by decide

/-- **ctor_wf.** Whatever `Memory(shape, depth, init)`, `write_port(domain, granularity)` … and
`read_port(domain, transparent_for)` … return without raising is a well-formed configuration: the enable bits of
every write port cover the row, and every transparency list names write ports of this memory and of the read
port's own domain only (`mkCfg` runs `initCheck`, `enWidth`, `writePortCheck`'s rule and `readPortCheck`). -/
theorem ctor_wf (kd : RowKind) (depth : Nat) (initRows : List Int) (doms : List DomCfg) (wrArgs : List WrArg)
    (rdArgs : List RdCfg) (c : Cfg) (h : mkCfg kd depth initRows doms wrArgs rdArgs = .ok c) : WF c :=
  mkCfg_wf kd depth initRows doms wrArgs rdArgs c h

/-- the transparency rule by itself: `ReadPort.__init__` accepts the read ports `rds` over the write ports `wrs`
iff every entry of every transparency list is an existing write port of the read port's own domain (so: none
for an asynchronous port) -/
theorem ctor_transparency (wrs : List WrCfg) (rds : List RdCfg) :
    readPortsCheck wrs rds = .ok () ↔
      ∀ k < rds.length, ∀ j ∈ (rds.getD k default).transp,
        j < wrs.length ∧ (rds.getD k default).dom = some (wrs.getD j default).dom :=
  readPortsCheck_ok wrs rds

theorem exWF : WF exCfg := ctor_wf _ _ _ _ _ _ _ exCfg_ctor

-- a read port of domain 1 asking to be transparent for a write port of domain 0 is rejected (as is an asynchronous
-- port with a transparency list, an index that is not a write port of this memory, an asynchronous write port)
example : mkCfg (.plain ⟨4, false⟩) 3 [] [⟨true, .sync⟩, ⟨true, .sync⟩] [⟨some 0, .none⟩] [⟨some 1, [0]⟩]
    = .error "ValueError" := rfl
example : mkCfg (.plain ⟨4, false⟩) 3 [] [⟨true, .sync⟩] [⟨some 0, .none⟩] [⟨none, [0]⟩] = .error "ValueError" := rfl
example : mkCfg (.plain ⟨4, false⟩) 3 [] [⟨true, .sync⟩] [⟨some 0, .none⟩] [⟨some 0, [1]⟩] = .error "ValueError" := rfl
example : mkCfg (.plain ⟨4, false⟩) 3 [] [⟨true, .sync⟩] [⟨none, .none⟩] [] = .error "ValueError" := rfl
example : mkCfg (.plain ⟨4, false⟩) 3 [1, 2, 3, 4] [] [] [] = .error "ValueError" := rfl

/-- **inv_init.** The initial state of every configuration the constructors return has `depth` rows (the declared
ones, padded with zeros) and one register per read port. -/
theorem inv_init (kd : RowKind) (depth : Nat) (initRows : List Int) (doms : List DomCfg) (wrArgs : List WrArg)
    (rdArgs : List RdCfg) (c : Cfg) (h : mkCfg kd depth initRows doms wrArgs rdArgs = .ok c) : Inv c (init c) :=
  mkCfg_inv kd depth initRows doms wrArgs rdArgs c h

theorem inv_step (c : Cfg) (s : Mem.State) (inp : Inputs) (e : Event) (h : Inv c s) : Inv c (step c s inp e) :=
  Mem.inv_step c s inp e h

theorem exInv : Inv exCfg (init exCfg) := inv_init _ _ _ _ _ _ _ exCfg_ctor

-- partial initialisation: two declared rows of a depth-5 memory, one read port
example : (mkCfg (.plain ⟨3, true⟩) 5 [7, 2] [⟨true, .none⟩] [] [⟨some 0, []⟩]).map (fun c => (init c).rows)
    = .ok [-1, 2, 0, 0, 0] := rfl

/-! ## Writes -/

/-- **write_granules.** At an event, for every existing row `a` and bit `i`:
(1) if a write port with an active clock edge hits the bit (it addresses row `a` and the enable bit of the bit's
granule is set), the bit becomes that port's data bit;
(2) if no write port with an active edge hits it, the bit keeps its value (no hypothesis about other ports).
So an enabled write replaces exactly the enabled granules of the addressed row. -/
theorem write_granules (c : Cfg) (s : Mem.State) (inp : Inputs) (e : Event) (hwf : WF c) (hin : InputsOk c inp)
    (a i : Nat) (ha : a < s.rows.length) (hi : i < c.shape.width) :
    (NoCollision c s.clk inp e → ∀ k w, activeWrite c s.clk inp e k = some w → w.hits a i = true →
        ibit ((step c s inp e).rows.getD a 0) i = w.data.getD i false) ∧
    ((∀ k w, activeWrite c s.clk inp e k = some w → w.hits a i = false) →
        ibit ((step c s inp e).rows.getD a 0) i = ibit (s.rows.getD a 0) i) := by
  constructor
  · intro hnc k w hk hh
    have hkn : k < c.wrs.length := by
      unfold activeWrite at hk
      by_cases h : k < c.wrs.length
      · exact h
      · rw [if_neg (fun h' => h h'.1)] at hk; cases hk
    have hcompat := compat_of_noCollision c s.clk inp e hnc a i hi (List.range c.wrs.length)
    rw [step_rows_bits_spec c s inp e hwf hin a i ha hi, seqBitI_eq_newBitI _ _ _ _ hcompat,
      newBitI_hit _ _ _ _ k (List.mem_range.2 hkn) (by unfold sHits; rw [hk]; exact hh) hcompat]
    unfold sData; rw [hk]
  · intro hno
    rw [step_rows_bits_spec c s inp e hwf hin a i ha hi]
    apply seqBitI_nohit
    intro j _
    unfold sHits
    rcases hw : activeWrite c s.clk inp e j with _ | w
    · rfl
    · exact hno j w hw

-- non-vacuity: in the example port 0 hits bits 2,3 of row 1 and nothing else is hit
example : activeWrite exCfg (init exCfg).clk exInp exEv 0 = some ⟨1, 2, 2, [false, true, false, true]⟩ := by decide
example : (⟨1, 2, 2, [false, true, false, true]⟩ : Write).hits 1 3 = true := by decide
example : ibit ((step exCfg (init exCfg) exInp exEv).rows.getD 1 0) 3 = true := by decide

/-- the data bit in `write_granules` is the bit of the port's `data` signal -/
theorem write_data_bit (c : Cfg) (clk : List Bool) (inp : Inputs) (e : Event) (k i : Nat) (w : Write)
    (hk : activeWrite c clk inp e k = some w) (hi : i < c.shape.width) :
    w.data.getD i false = ibit (inp.wr.getD k default).data i := by
  unfold activeWrite at hk
  split at hk
  · cases hk; simp only [writeOf]; exact toBits_getD _ _ _ hi
  · cases hk

/-- **oob_write_noop.** If every write port with an active clock edge addresses a row beyond the depth, no row
changes (exactly, as integers). With `write_granules (2)`: a write beyond the depth never hits an existing row. -/
theorem oob_write_noop (c : Cfg) (s : Mem.State) (inp : Inputs) (e : Event) (hin : InputsOk c inp)
    (h : ∀ k < c.wrs.length, activeEdge c s.clk e (c.wrs.getD k default).dom = true →
      s.rows.length ≤ (inp.wr.getD k default).addr) :
    (step c s inp e).rows = s.rows := by
  have hq : ∀ (ks : List Nat) (q : Queue), (∀ k ∈ ks, k < c.wrs.length) →
      enqueue c.shape s.rows q (ks.map (wvalOf c s inp e)) = q := by
    intro ks
    induction ks with
    | nil => intro q _; rfl
    | cons k r ih =>
      intro q hks
      rw [List.map_cons]
      have hk := hks k (List.mem_cons_self ..)
      have ih' := fun q => ih q (fun j hj => hks j (List.mem_cons_of_mem _ hj))
      unfold wvalOf
      simp only
      by_cases hact : runs c s e (c.wrs.getD k default).dom = true
      · rw [if_pos hact]
        simp only [enqueue]
        have := h k hk hact
        unfold qwrite wval
        simp only [Nat.mod_eq_of_lt (hin.wr k)]
        rw [if_neg (by omega)]
        exact ih' q
      · rw [if_neg hact]; simp only [enqueue]; exact ih' q
  unfold step stepG
  simp only
  unfold wvals
  rw [hq _ _ (fun k hk => List.mem_range.1 hk)]
  apply List.ext_getElem
  · exact length_commit _ _
  · intro a h1 h2
    rw [commit_getElem _ _ _ h2, pending_empty, List.getD_eq_getElem?_getD, List.getElem?_eq_getElem h2]
    rfl

-- non-vacuity: address 3 of a depth-3 memory (the address signal is 2 bits wide)
example : (step exCfg (init exCfg) ⟨[⟨3, 10, 3⟩, ⟨3, 15, 1⟩], [⟨1, true⟩, ⟨1, true⟩, ⟨1, true⟩]⟩ exEv).rows = [5, 6, 7] := by
  decide

/-- **collision_last_wins** (what happens outside `NoCollision`, for ports of one domain). At an event at which all
write ports with an active clock edge belong to one clock domain (`OneDomain`: in particular whenever only one
domain's clock has an active edge), bit `i` of row `a` afterwards is the Spec's rule applied to the write ports in
*descending* index order: of all ports hitting the bit, the one with the highest index decides (`MemRows.newBit`
takes the first of its list). This is the order of the `write` calls in the domain's process.

Colliding writes by ports of **different** domains at coincident edges are unspecified: the outcome of the code
depends on the order in which the simulator runs the two domain processes, the library documents it as undefined,
and the check does not compare such rows. (The model function orders them by port index as well; no theorem is
claimed about that.) -/
theorem collision_last_wins (c : Cfg) (s : Mem.State) (inp : Inputs) (e : Event) (hwf : WF c) (hin : InputsOk c inp)
    (_hone : OneDomain c s.clk inp e)
    (a i : Nat) (ha : a < s.rows.length) (hi : i < c.shape.width) :
    ibit ((step c s inp e).rows.getD a 0) i =
      newBit ((List.range c.wrs.length).reverse.filterMap (activeWrite c s.clk inp e)) a i (ibit (s.rows.getD a 0) i) := by
  rw [step_rows_bits_spec c s inp e hwf hin a i ha hi, seqBitI_eq_newBitI_reverse, newBit_filterMap]

/-- `OneDomain` holds in particular when at most one domain's clock has an active edge -/
theorem oneDomain_of_single_edge (c : Cfg) (clk : List Bool) (inp : Inputs) (e : Event) (d : Nat)
    (h : ∀ d', activeEdge c clk e d' = true → d' = d) : OneDomain c clk inp e := by
  intro k1 k2 w1 w2 h1 h2
  have key : ∀ k w, activeWrite c clk inp e k = some w → (c.wrs.getD k default).dom = d := by
    intro k w hk
    unfold activeWrite at hk
    split at hk
    · next hc => exact h _ hc.2
    · cases hk
  rw [key k1 w1 h1, key k2 w2 h2]

-- the example configuration has one domain
theorem exOneDomain (clk : List Bool) (inp : Inputs) (e : Event) : OneDomain exCfg clk inp e := by
  intro k1 k2 w1 w2 h1 h2
  have h1' := activeWrite_lt _ _ _ _ _ _ h1
  have h2' := activeWrite_lt _ _ _ _ _ _ h2
  have : ∀ k, k < 2 → (exCfg.wrs.getD k default).dom = 0 := by decide
  rw [this k1 h1', this k2 h2']

-- both ports write all of row 1: port 1 (data 15) wins over port 0 (data 10); the Spec's own order would give 10
example : (step exCfg (init exCfg) ⟨[⟨1, 10, 3⟩, ⟨1, 15, 1⟩], [⟨1, false⟩, ⟨1, true⟩, ⟨1, false⟩]⟩ exEv).rows = [5, 15, 7] := by
  decide
example : (MemRows.step (absState exCfg (init exCfg))
    (edgeOf exCfg (init exCfg).clk ⟨[⟨1, 10, 3⟩, ⟨1, 15, 1⟩], [⟨1, false⟩, ⟨1, true⟩, ⟨1, false⟩]⟩ exEv)).mem.map (toInt false)
    = [5, 10, 7] := by decide

/-! ## Reads -/

/-- **async_read.** An asynchronous read port shows, in every state and for every address in range, the addressed
row of the array (it is a function of the current state and the current address: "continuously"). -/
theorem async_read (c : Cfg) (s : Mem.State) (inp : Inputs) (k : Nat) (hk : k < c.rds.length)
    (hdom : (c.rds.getD k default).dom = none) (hin : InputsOk c inp)
    (ha : (inp.rd.getD k default).addr < s.rows.length) :
    toBits c.shape.width ((readData c s inp).getD k 0) = asyncRead (absState c s) (inp.rd.getD k default).addr := by
  have hr : c.rds.getD k default = c.rds[k] := by
    rw [List.getD_eq_getElem?_getD, List.getElem?_eq_getElem hk]; rfl
  unfold readData
  rw [List.getD_eq_getElem?_getD, List.getElem?_mapIdx, List.getElem?_eq_getElem hk, ← hr]
  simp only [Option.map_some, Option.getD_some, hdom]
  unfold asyncRead absState
  simp only
  rw [getD_map_toBits _ _ _ ha, toBits_eq_iff]
  intro i hi
  unfold combRead memRead
  rw [ibit_norm _ _ _ hi, Nat.mod_eq_of_lt (hin.rd k), if_pos ha]

/-- beyond the depth an asynchronous read port shows 0 (the property leaves this unspecified) -/
theorem async_read_beyond_depth (c : Cfg) (s : Mem.State) (ri : RdIn) (hin : ri.addr < 2 ^ c.abits)
    (ha : s.rows.length ≤ ri.addr) : combRead c s ri = 0 := by
  unfold combRead memRead
  rw [Nat.mod_eq_of_lt hin, if_neg (by omega)]
  have hpos : (0 : Int) < 2 ^ (c.shape.width - 1) := Int.pow_pos (by decide)
  have hm : mask c.shape.width 0 = 0 := Int.zero_emod _
  unfold norm
  simp only [hm]
  by_cases hs : c.shape.signed = true
  · rw [if_pos hs, if_neg (by omega)]
  · rw [if_neg hs]

example : (readData exCfg (step exCfg (init exCfg) exInp exEv) exInp).getD 1 0 = 10 := by decide

/-- **sync_read_old_data.** A synchronous read port that is enabled at an active edge of its clock and addresses an
existing row captures, in every bit that no port *of its transparency list* hits at this event, the bit of the row
as it was **before** the event — whatever the other write ports do at this event (no collision hypothesis; the
committed row is read, so the order of the domain processes does not matter either). `WF c` supplies the
constructor's rule that the transparency list names write ports of the read port's own domain: only those are in
the `write_vals` of the process that runs the read port. -/
theorem sync_read_old_data (c : Cfg) (s : Mem.State) (inp : Inputs) (e : Event) (hwf : WF c) (hin : InputsOk c inp)
    (k d : Nat) (hk : k < c.rds.length) (hdom : (c.rds.getD k default).dom = some d)
    (hedge : activeEdge c s.clk e d = true) (hen : (inp.rd.getD k default).en = true)
    (ha : (inp.rd.getD k default).addr < s.rows.length) (i : Nat) (hi : i < c.shape.width)
    (hno : ∀ j ∈ (c.rds.getD k default).transp, ∀ w, activeWrite c s.clk inp e j = some w →
      w.hits (inp.rd.getD k default).addr i = false) :
    ibit ((step c s inp e).rdata.getD k 0) i = ibit (s.rows.getD (inp.rd.getD k default).addr 0) i := by
  rw [step_rdata_getD c s inp e k hk, hdom]
  simp only
  have hedge' : runs c s e d = true := hedge
  rw [if_pos ⟨hedge', hen⟩, capture_bits_spec c s inp e hwf hin _ _ d i (hwf.transp_dom k d hk hdom) hi (hin.rd k) ha]
  apply seqBitI_const
  intro j hj hh
  exfalso
  unfold sHits at hh
  rcases hw : activeWrite c s.clk inp e j with _ | w
  · rw [hw] at hh; cases hh
  · rw [hw] at hh; simp only at hh; rw [hno j hj w hw] at hh; cases hh

-- read port 2 (no transparency) captures the old row 1 = 6 although port 0 writes row 1 at the same edge
example : (step exCfg (init exCfg) exInp exEv).rdata.getD 2 0 = 6 := by decide

/-- **transparent_read.** … and in every bit that a port of its transparency list hits at this event it captures
the data bit being written by that port. Together with `sync_read_old_data`: exactly the granules written at
this edge *by a port of the transparency set* show new data. -/
theorem transparent_read (c : Cfg) (s : Mem.State) (inp : Inputs) (e : Event) (hwf : WF c) (hin : InputsOk c inp)
    (hnc : NoCollision c s.clk inp e)
    (k d : Nat) (hk : k < c.rds.length) (hdom : (c.rds.getD k default).dom = some d)
    (hedge : activeEdge c s.clk e d = true) (hen : (inp.rd.getD k default).en = true)
    (ha : (inp.rd.getD k default).addr < s.rows.length) (i : Nat) (hi : i < c.shape.width)
    (j : Nat) (hj : j ∈ (c.rds.getD k default).transp) (w : Write) (hw : activeWrite c s.clk inp e j = some w)
    (hh : w.hits (inp.rd.getD k default).addr i = true) :
    ibit ((step c s inp e).rdata.getD k 0) i = w.data.getD i false := by
  rw [step_rdata_getD c s inp e k hk, hdom]
  simp only
  have hcompat := compat_of_noCollision c s.clk inp e hnc (inp.rd.getD k default).addr i hi
    (c.rds.getD k default).transp
  have hedge' : runs c s e d = true := hedge
  rw [if_pos ⟨hedge', hen⟩,
    capture_bits_spec c s inp e hwf hin _ _ d i (hwf.transp_dom k d hk hdom) hi (hin.rd k) ha,
    seqBitI_eq_newBitI _ _ _ _ hcompat,
    newBitI_hit _ _ _ _ j hj (by unfold sHits; rw [hw]; exact hh) hcompat]
  unfold sData; rw [hw]

-- read port 0 is transparent for write port 0: bits 2,3 new (0b10), bits 0,1 old (0b10 of 6) → 0b1010
example : (step exCfg (init exCfg) exInp exEv).rdata.getD 0 0 = 10 := by decide

/-- what the simulator gives for a capturing read beyond the depth (unspecified by the property): zero, patched
with the ports of the transparency list whose (equally out-of-range) address is the same -/
theorem read_beyond_depth (c : Cfg) (s : Mem.State) (wvs : List (Option WVal)) (r : RdCfg) (ri : RdIn)
    (hin : ri.addr < 2 ^ c.abits) (ha : s.rows.length ≤ ri.addr) :
    capture c s.rows wvs r ri = norm c.shape (patchAll wvs ri.addr 0 r.transp) := by
  unfold capture memRead
  simp only [Nat.mod_eq_of_lt hin]
  rw [if_neg (by omega)]

/-- **read_hold_when_disabled.** A synchronous read port whose clock has no active edge at the event, or which is
not enabled, keeps its output — at every event, whatever the reset signals do. -/
theorem read_hold_when_disabled (c : Cfg) (s : Mem.State) (inp : Inputs) (e : Event)
    (k d : Nat) (hk : k < c.rds.length) (hdom : (c.rds.getD k default).dom = some d)
    (h : ¬ (activeEdge c s.clk e d = true ∧ (inp.rd.getD k default).en = true)) :
    (step c s inp e).rdata.getD k 0 = s.rdata.getD k 0 := by
  rw [step_rdata_getD c s inp e k hk, hdom]
  simp only
  have h' : ¬ (runs c s e d = true ∧ (inp.rd.getD k default).en = true) := h
  rw [if_neg h']

-- disabled at a rising edge with the reset asserted: the output stays
example : (step exCfg ⟨[5, 6, 7], [9, 0, 3], [false], [false]⟩
    ⟨[⟨1, 10, 2⟩, ⟨2, 15, 0⟩], [⟨1, false⟩, ⟨1, true⟩, ⟨1, false⟩]⟩ ⟨[true], [true]⟩).rdata = [9, 0, 3] := by decide

/-- **old_differs_only_under_reset** (the extent of F22). The simulator as found and the repaired one agree at
every event — for every configuration, state and input — at which no domain that has a reset signal has it high
and no asynchronous reset rises. So every theorem of this file holds for the code as found away from resets. -/
theorem old_differs_only_under_reset (c : Cfg) (s : Mem.State) (inp : Inputs) (e : Event)
    (h : ∀ d, rstHigh c e d = false ∧ asyncRise c s e d = false) : stepOld c s inp e = step c s inp e :=
  stepOld_eq_step c s inp e h

-- non-vacuity: an event of the example with all resets low
example : ∀ d, rstHigh exCfg exEv d = false ∧ asyncRise exCfg (init exCfg) exEv d = false := by
  intro d
  have h : exEv.rst.getD d false = false := by
    rcases d with _ | d
    · rfl
    · simp [exEv]
  unfold rstHigh asyncRise
  rw [h]
  simp

/-- the simulator as found (F22): with the domain's reset asserted, a *disabled* read port loses its output at a
clock edge — the Spec (and the netlist, whose read ports have no reset) keeps it -/
theorem old_reset_clears_read_port :
    let s : Mem.State := ⟨[5, 6, 7], [9, 0, 3], [false], [false]⟩
    let inp : Inputs := ⟨[⟨1, 10, 0⟩, ⟨2, 15, 0⟩], [⟨1, false⟩, ⟨1, true⟩, ⟨1, false⟩]⟩
    let e : Event := ⟨[true], [true]⟩
    absState exCfg (stepOld exCfg s inp e) ≠ MemRows.step (absState exCfg s) (edgeOf exCfg s.clk inp e) ∧
    absState exCfg (step exCfg s inp e) = MemRows.step (absState exCfg s) (edgeOf exCfg s.clk inp e) := by
  decide

/-! ## Testbench row access -/

/-- **row_access_same_storage.** For an existing row (`mem[index]` with `0 ≤ index < depth`): `ctx.get(mem[index])`
returns row `index` of the storage the ports work on — the row an asynchronous read port addressed to it shows;
`ctx.set(mem[index][start:stop], v)` replaces bits `[start, stop)` of that row of that storage (and nothing else),
so every later port read sees it. -/
theorem row_access_same_storage (c : Cfg) (s : Mem.State) (hinv : Inv c s) (index : Int) (i : Nat)
    (hi : rowIndex c.depth index = .ok i) :
    i < c.depth ∧ index = (i : Int) ∧
    tbGet c s index = .ok (s.rows.getD i 0) ∧
    toBits c.shape.width (s.rows.getD i 0) = asyncRead (absState c s) i ∧
    (∀ start stop v, start ≤ stop →
        (tbSet c s index start stop v).map (absState c) =
          .ok (rowWrite (absState c s) i start stop (toBits (stop - start) v))) := by
  have hlt := ((rowIndex_ok c.depth index i).1 hi)
  have hrow : i < s.rows.length := by rw [hinv.rows]; exact hlt.2
  have hget : tbRead s i = s.rows.getD i 0 := by unfold tbRead memRead; rw [if_pos hrow]
  refine ⟨hlt.2, hlt.1, ?_, ?_, ?_⟩
  · unfold tbGet; rw [hi]; simp only; rw [hget]
  · unfold asyncRead absState
    simp only
    rw [getD_map_toBits _ _ _ hrow]
  · intro start stop v hss
    unfold tbSet; rw [hi]
    simp only [Except.map]
    rw [refine_tbWrite c s i start stop v hss]

/-- **row_access_out_of_range.** A row that does not exist cannot be accessed: for an index below 0 or at or
beyond the depth, `mem[index]` raises `IndexError` (there is no negative indexing and no wrap-around), so neither
`ctx.get` nor `ctx.set` happens and the state is untouched. -/
theorem row_access_out_of_range (c : Cfg) (s : Mem.State) (index : Int) (h : index < 0 ∨ (c.depth : Int) ≤ index) :
    tbGet c s index = .error "IndexError" ∧ ∀ start stop v, tbSet c s index start stop v = .error "IndexError" := by
  have hr := rowIndex_error c.depth index (by omega)
  constructor
  · unfold tbGet; rw [hr]
  · intro start stop v
    unfold tbSet; rw [hr]

example : tbSet exCfg (init exCfg) 1 1 3 (-1) = .ok ⟨[5, 6, 7], [0, 0, 0], [false], [false]⟩ := rfl
example : (tbSet exCfg (init exCfg) 2 1 3 0).map (·.rows) = .ok [5, 6, 1] := rfl
example : tbGet exCfg (init exCfg) 2 = .ok 7 := rfl
example : combRead exCfg (tbWrite exCfg (init exCfg) 2 1 3 0) ⟨2, true⟩ = 1 := by decide
-- depth 3: rows 3 and -1 do not exist
example : tbGet exCfg (init exCfg) 3 = .error "IndexError" := rfl
example : tbSet exCfg (init exCfg) (-1) 0 4 9 = .error "IndexError" := rfl
example : rowIndex exCfg.depth 2 = .ok 2 := rfl

/-! ## Refinement -/

/-- **model_refines_rows** (one event). Where the array of rows has one reading — no two ports writing the same
bit of one row at one event (`NoCollision`; not an exclusion of the property text, see the file header), capturing
reads in range (`ReadsInRange`; the property's exclusion) — an event of the simulator is exactly one step of the
array of rows: the rows after the event and what every synchronous read port shows. -/
theorem model_refines_rows (c : Cfg) (s : Mem.State) (inp : Inputs) (e : Event) (hwf : WF c) (hinv : Inv c s)
    (hin : InputsOk c inp) (hnc : NoCollision c s.clk inp e) (hrr : ReadsInRange c s.clk inp e) :
    absState c (step c s inp e) = MemRows.step (absState c s) (edgeOf c s.clk inp e) :=
  refine_step c s inp e hwf hinv hin hnc hrr

/-! ## The integers a testbench sees -/

/-- **values_in_shape.** Every row and every read-port output is a value of the row shape (signed rows are kept
sign-extended, unsigned rows masked): true initially when the declared rows are, and preserved by every event and
every testbench row write — this is what the re-signing in `_PyMemoryState.write` is for. -/
theorem values_in_shape (c : Cfg) (hwf : c.shape.WF) (s : Mem.State) (hinv : Inv c s) (h : Vals c s) :
    (∀ inp e, Vals c (step c s inp e)) ∧
    (∀ i start stop v, start ≤ stop → stop ≤ c.shape.width → Vals c (tbWrite c s i start stop v)) :=
  ⟨fun inp e => vals_step c hwf s inp e hinv h, fun i start stop v h1 h2 => vals_tbWrite c hwf s i start stop v h1 h2 h⟩

/-- … and then the integers the simulator holds (what `ctx.get` returns) are exactly the Spec's rows read as
integers of the row shape, so `model_refines_rows` speaks about the observed values. -/
theorem observed_values_are_rows (c : Cfg) (hwf : c.shape.WF) (s : Mem.State) (h : Vals c s) :
    (absState c s).mem.map (toInt c.shape.signed) = s.rows ∧
    (absState c s).rdata.map (toInt c.shape.signed) = s.rdata :=
  values_are_rows c hwf s h

/-- `model_refines_rows` in integers: the rows and read-port outputs after an event are the integer reading of
the array of rows after its step -/
theorem model_refines_rows_values (c : Cfg) (s : Mem.State) (inp : Inputs) (e : Event) (hwf : WF c)
    (hsh : c.shape.WF) (hinv : Inv c s) (hv : Vals c s)
    (hin : InputsOk c inp) (hnc : NoCollision c s.clk inp e) (hrr : ReadsInRange c s.clk inp e) :
    (step c s inp e).rows = (MemRows.step (absState c s) (edgeOf c s.clk inp e)).mem.map (toInt c.shape.signed) ∧
    (step c s inp e).rdata = (MemRows.step (absState c s) (edgeOf c s.clk inp e)).rdata.map (toInt c.shape.signed) := by
  have h := values_are_rows c hsh _ (vals_step c hsh s inp e hinv hv)
  rw [refine_step c s inp e hwf hinv hin hnc hrr] at h
  exact ⟨h.1.symm, h.2.symm⟩

-- signed rows: a 3-bit signed memory; writing 0b101 stores -3, and the Spec row [1,0,1] reads as -3
def exSigned : Cfg :=
  { shape := ⟨3, true⟩, depth := 2, init := [-4, 3], doms := [⟨false, .async⟩],
    rds := [⟨some 0, [0]⟩], wrs := [⟨0, 3, 1⟩], rdInit := [0] }
example : (step exSigned ⟨[-4, 3], [0], [true], [false]⟩ ⟨[⟨1, 5, 1⟩], [⟨1, true⟩]⟩ ⟨[false], [true]⟩).rows = [-4, -3] := by
  decide
example : (step exSigned ⟨[-4, 3], [0], [true], [false]⟩ ⟨[⟨1, 5, 1⟩], [⟨1, true⟩]⟩ ⟨[false], [true]⟩).rdata = [-3] := by
  decide
example : toInt true (toBits 3 (-3)) = -3 ∧ toBits 3 (-3) = [true, false, true] := by decide
example : Vals exSigned ⟨[-4, 3], [0], [true], [false]⟩ := by
  constructor
  · intro a ha
    have : a = 0 ∨ a = 1 := by simp at ha; omega
    rcases this with rfl | rfl <;> decide
  · intro a ha
    have : a = 0 := by simp at ha; omega
    subst this; decide

/-- the array of rows driven by the same stimulus (it has to remember the clock levels to know the active edges) -/
def specRun (c : Cfg) : MemRows.State → List Bool → List (Inputs × Event) → MemRows.State
  | sp, _, [] => sp
  | sp, clk, (inp, e) :: rest => specRun c (MemRows.step sp (edgeOf c clk inp e)) e.clk rest

/-- **model_refines_rows** for every finite sequence of events, from every state satisfying the invariant -/
theorem model_refines_rows_run (c : Cfg) (hwf : WF c) (evs : List (Inputs × Event)) (s : Mem.State) (hinv : Inv c s)
    (hok : RunOk c s evs) :
    absState c (run c s evs) = specRun c (absState c s) s.clk evs := by
  induction evs generalizing s with
  | nil => rfl
  | cons x rest ih =>
    obtain ⟨inp, e⟩ := x
    obtain ⟨hin, hnc, hrr, hrest⟩ := hok
    simp only [run, specRun]
    rw [ih (step c s inp e) (Mem.inv_step c s inp e hinv) hrest, refine_step c s inp e hwf hinv hin hnc hrr]
    rfl

/-! ## Non-vacuity of the refinement hypotheses (tests on literals, through the Boolean checkers of
Proofs/MemoryCtor.lean) -/

theorem exNoCollision : NoCollision exCfg (init exCfg).clk exInp exEv := noCollision_of_check _ _ _ _ (by decide +kernel)
theorem exReadsInRange : ReadsInRange exCfg (init exCfg).clk exInp exEv := readsInRange_of_check _ _ _ _ (by decide +kernel)

example : absState exCfg (step exCfg (init exCfg) exInp exEv) =
    MemRows.step (absState exCfg (init exCfg)) (edgeOf exCfg (init exCfg).clk exInp exEv) :=
  model_refines_rows exCfg (init exCfg) exInp exEv exWF exInv exInputsOk exNoCollision exReadsInRange

/-- a run of five events (rising and falling edges, reset levels changing, both write ports writing at one edge,
transparent and non-transparent captures, a disabled read port) -/
def exRun : List (Inputs × Event) :=
  [ (exInp, exEv),
    (exInp, ⟨[false], [false]⟩),
    -- both ports write at this edge, to different rows (0 and 2): no collision
    (⟨[⟨0, 3, 1⟩, ⟨2, 12, 1⟩], [⟨0, true⟩, ⟨2, true⟩, ⟨2, true⟩]⟩, ⟨[true], [false]⟩),
    (exInp, ⟨[false], [true]⟩),
    -- both ports write row 1 at this edge, port 0 its lower granule only … and port 1 is disabled: no collision
    (⟨[⟨1, 1, 1⟩, ⟨1, 15, 0⟩], [⟨1, true⟩, ⟨3, true⟩, ⟨0, false⟩]⟩, ⟨[true], [true]⟩) ]

theorem exRunOk : RunOk exCfg (init exCfg) exRun := runOk_of_check _ _ _ (by decide +kernel)

-- NoCollision at a later event of the run (the third: two active ports), in the state the run has reached
example : NoCollision exCfg (run exCfg (init exCfg) (exRun.take 2)).clk
    ⟨[⟨0, 3, 1⟩, ⟨2, 12, 1⟩], [⟨0, true⟩, ⟨2, true⟩, ⟨2, true⟩]⟩ ⟨[true], [false]⟩ :=
  noCollision_of_check _ _ _ _ (by decide +kernel)

example : absState exCfg (run exCfg (init exCfg) exRun) = specRun exCfg (absState exCfg (init exCfg)) (init exCfg).clk exRun :=
  model_refines_rows_run exCfg exWF exRun (init exCfg) exInv exRunOk

example : (run exCfg (init exCfg) exRun).rows = [7, 9, 12] ∧ (run exCfg (init exCfg) exRun).rdata = [9, 0, 7] := by
  decide +kernel

-- and a collision is really excluded: both ports writing bit 0 of row 1 fails the check
example : noCollisionB exCfg (init exCfg).clk ⟨[⟨1, 10, 3⟩, ⟨1, 15, 1⟩], [⟨1, false⟩, ⟨1, true⟩, ⟨1, false⟩]⟩ exEv = false := by
  decide +kernel

/-! ## A memory under `DomainRenamer` -/

/-- **rename_moves_ports.** Under `DomainRenamer(m)` — any map: one entry, several, a swap, a chain, a rotation — every
write port and every synchronous read port of the memory is a port of the domain the map names for the domain it was
declared in (`MemRows.target m d`: the entry whose source is `d`, all entries read at once; `d` itself if no entry
names it), asynchronous ports stay asynchronous, and row shape, depth, initial rows, granularities, enable widths and
transparency lists are unchanged. -/
theorem rename_moves_ports (c : Cfg) (m : List (Nat × Nat)) : MemRows.Renamed m c (c.rename m) :=
  rename_renamed c m

/-- the renamed memory is a well-formed configuration again (transparency lists still name write ports of the read
port's own domain): every theorem above applies to it -/
theorem rename_keeps_wf (c : Cfg) (m : List (Nat × Nat)) (h : WF c) : WF (c.rename m) :=
  rename_wf c m h

-- non-vacuity: the example memory (write port in domain 0 …) under a swap, a chain listed source-first, a rotation
example : ((exCfg.rename [(0, 1), (1, 0)]).wrs.map (·.dom), (exCfg.rename [(0, 1), (1, 0)]).rds.map (·.dom)) =
    (exCfg.wrs.map (fun w => MemRows.target [(0, 1), (1, 0)] w.dom),
     exCfg.rds.map (fun r => r.dom.map (MemRows.target [(0, 1), (1, 0)]))) := by decide
example : [0, 1, 2].map (MemRows.target [(0, 1), (1, 0)]) = [1, 0, 2] := by decide
example : [0, 1, 2].map (MemRows.target [(0, 1), (1, 2)]) = [1, 2, 2] := by decide
example : [0, 1, 2].map (MemRows.target [(0, 1), (1, 2), (2, 0)]) = [1, 2, 0] := by decide
example : [0, 1, 2].map (renameDom [(0, 1), (1, 2), (2, 0)]) = [1, 2, 0] := by decide
example : WF (exCfg.rename [(0, 1), (1, 0)]) := rename_keeps_wf _ _ exWF

/-! ## The write queue of the simulator's memory state (`_PyMemoryState.write` / `commit`)

`Model/MemQueue.lean`; tied to the real class at unit level by the `mq` request of the driver (scripts of
`write(addr, value, mask)` calls followed by one `commit()`, rows and returned flag compared). -/

/-- What becomes pending for the written row: the masked bits of the value over what was pending for it (the
committed row at the first write of a delta, the queued row afterwards), sign-fixed; every other row is left
alone; `commit()` stores exactly what is pending. -/
theorem queued_row (sh : Shape) (rows : List Int) (q : Queue) (a : Nat) (v m : Int) (ha : a < rows.length)
    (hq : q.length = rows.length) :
    pending rows (qwrite sh rows q a v m) a = resign sh (pyMerge v m (pending rows q a)) ∧
    (∀ b, b ≠ a → pending rows (qwrite sh rows q a v m) b = pending rows q b) ∧
    (∀ b, b < rows.length → (commit rows (qwrite sh rows q a v m)).getD b 0 = pending rows (qwrite sh rows q a v m) b) :=
  ⟨pending_qwrite_same sh rows q a v m ha hq, fun b hb => pending_qwrite_other sh rows q a b v m hb hq,
   fun b hb => commit_getD rows _ b hb⟩

/-- Writes to different rows in one delta commute, whatever their masks: the committed array does not depend on the
order in which the writing processes ran. -/
theorem writes_to_distinct_rows_commute (sh : Shape) (rows : List Int) (q : Queue) (a b : Nat) (v1 m1 v2 m2 : Int)
    (hab : a ≠ b) (hq : q.length = rows.length) :
    qwrite sh rows (qwrite sh rows q a v1 m1) b v2 m2 = qwrite sh rows (qwrite sh rows q b v2 m2) a v1 m1 :=
  qwrite_comm_rows sh rows q a b v1 m1 v2 m2 hab hq

/-- Two writes to *one* row in one delta whose masks share no bit commute as well (whatever the row shape: the sign
fix-up of signed rows included): with the previous theorem, the rows committed at the end of a delta do not depend on
the order in which processes with bit-disjoint writes ran — the hypothesis C08's order-independence theorems take for
user processes sharing a memory. -/
theorem writes_to_one_row_commute (sh : Shape) (rows : List Int) (q : Queue) (a : Nat) (v1 m1 v2 m2 : Int)
    (hd : pyAnd m1 m2 = 0) (hq : q.length = rows.length) :
    qwrite sh rows (qwrite sh rows q a v1 m1) a v2 m2 = qwrite sh rows (qwrite sh rows q a v2 m2) a v1 m1 :=
  qwrite_comm_same_row sh rows q a v1 m1 v2 m2 hd hq

/-- the hypothesis is needed: overlapping masks, different data — the last writer wins -/
example : qwrite ⟨4, false⟩ [0] (qwrite ⟨4, false⟩ [0] [none] 0 1 3) 0 2 3 ≠
    qwrite ⟨4, false⟩ [0] (qwrite ⟨4, false⟩ [0] [none] 0 2 3) 0 1 3 := by decide
example : pyAnd 0x0f 0xf0 = 0 := by decide

/-- `commit()` returns `True` (and so wakes the processes waiting on the memory) exactly when some row changed —
not only when the row queued last did. -/
theorem commit_reports_change (rows : List Int) (q : Queue) :
    commitChanged rows q = true ↔ commit rows q ≠ rows :=
  commitChanged_iff rows q

/-- two rows queued, the one queued last unchanged: the flag is still `True` (seeded change C08-r2-2) -/
example : runOps ⟨4, false⟩ [1, 2, 3] [⟨0, 5, none⟩, ⟨2, 3, none⟩] = ([5, 2, 3], true) := by decide
/-- two masked writes to one signed row in one delta: the second merges with the first (seeded change C05-r5-1) -/
example : runOps ⟨8, true⟩ [0, 0] [⟨1, 0x0f, some 0x0f⟩, ⟨1, 0xf0, some 0xf0⟩] = ([0, -1], true) := by decide
example : runOps ⟨8, true⟩ [7] [⟨0, 7, none⟩, ⟨3, 1, none⟩] = ([7], false) := by decide

end Amaranth.C11
