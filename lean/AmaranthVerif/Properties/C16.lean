import AmaranthVerif.Proofs.CrcResidue
import AmaranthVerif.Generated.CrcCatalog

/-!
# C16 — CRC software and hardware agree with the Williams model for all parameters

Model: `Amaranth.Crc` (`Model/Crc.lean`, follows `amaranth/lib/crc/__init__.py`);
Spec: `Amaranth.Williams` (`Spec/Williams.lean`, bit-serial Rocksoft model).
All theorems are for every valid parameter set, every data width (also wider than the CRC), every
word list and every sequence of `(start, valid, data)` cycles; `catalog_checks`/`catalog_residues`
are `decide +kernel` over the table regenerated from the source.  `example`s are non-vacuity tests.
-/

namespace Amaranth.C16
open Amaranth.Williams Amaranth.Crc

/-- the one-bit shift-and-reduce step `S` (a zero message bit) is linear over GF(2) -/
theorem S_linear (w poly a b : Nat) :
    stepBit w poly (a ^^^ b) false = stepBit w poly a false ^^^ stepBit w poly b false :=
  S0_xor w poly a b

/-- … and jointly linear in register and message bit -/
theorem step_linear (w poly a b : Nat) (x y : Bool) :
    stepBit w poly (a ^^^ b) (x ^^ y) = stepBit w poly a x ^^^ stepBit w poly b y :=
  stepBit_xor w poly a b x y

example : stepBit 8 0x07 (0xA5 ^^^ 0x3C) (true ^^ false) = stepBit 8 0x07 0xA5 true ^^^ stepBit 8 0x07 0x3C false := by
  decide

/-- **batch**: serial processing of a `d`-bit word is: xor the word in at the top of a
    `(w+d)`-bit register that holds the old value `d` places up, then `d` steps of that wide
    register with the polynomial `d` places up — for every `d`, also `d > w`. -/
theorem batch {w poly : Nat} (hw : 0 < w) (d r x : Nat) (hx : x < 2 ^ d) :
    iter (fun c => stepBit (w + d) (poly <<< d) c false) d ((r <<< d) ^^^ (x <<< w))
      = ((msbFirst d x).foldl (stepBit w poly) r) <<< d := by
  have := wide_feed (w := w) (poly := poly) (D := d) hw d r x (Nat.le_refl _) hx
  have h0 : w + d - d = w := by omega
  rw [h0] at this
  exact this

example : iter (fun c => stepBit (3 + 5) (0x3 <<< 5) c false) 5 ((0x5 <<< 5) ^^^ (0x16 <<< 3))
    = ((msbFirst 5 0x16).foldl (stepBit 3 0x3) 0x5) <<< 5 := by decide

/-- `Parameters.compute` returns the CRC of the Williams model: all parameters, all data widths,
    all word lists (words in range, as `compute` itself demands) -/
theorem compute_eq_williams {p : Params} (hv : p.Valid) (dw : Nat) (data : List Nat)
    (hd : ∀ x ∈ data, x < 2 ^ dw) : compute p dw data = Williams.crc p dw data := by
  rw [compute, computeReg_eq_register hv dw data hd]; rfl

/-- CRC-16/ARC over 13-bit words, wider than nothing, narrower than nothing in particular -/
example : (⟨16, 0x8005, 0, true, true, 0⟩ : Params).Valid ∧ (∀ x ∈ [0x1abc, 0x0123, 0x1fff], x < 2 ^ 13)
    ∧ compute ⟨16, 0x8005, 0, true, true, 0⟩ 13 [0x1abc, 0x0123, 0x1fff]
      = Williams.crc ⟨16, 0x8005, 0, true, true, 0⟩ 13 [0x1abc, 0x0123, 0x1fff] := by decide +kernel

/-- the hardware register, after any sequence of cycles (idle cycles, restarts through `start`,
    `start` together with `valid`), shows on `crc` the Williams CRC of the words since the last start -/
theorem hw_eq_williams {p : Params} (hv : p.Valid) (dw : Nat) (cycles : List Cycle) :
    hwCrc (Processor.create p dw) (hwRun (Processor.create p dw) cycles)
      = Williams.crc p dw (wordsSince cycles) := by
  rw [hwRun_eq_register hv dw cycles]
  unfold hwCrc Williams.crc
  by_cases h : p.refout = true
  · simp [Processor.create, h, rev_eq_reflect]
  · simp [Processor.create, h]

/-- … which is what `compute` returns for those words.  Every prefix of a cycle list is a cycle
    list, so this is the value on `crc` one cycle after each valid word. -/
theorem hw_eq_compute {p : Params} (hv : p.Valid) (dw : Nat) (cycles : List Cycle)
    (hd : ∀ c ∈ cycles, c.data < 2 ^ dw) :
    hwCrc (Processor.create p dw) (hwRun (Processor.create p dw) cycles)
      = compute p dw (wordsSince cycles) := by
  rw [hw_eq_williams hv, compute_eq_williams hv]
  intro x hx
  obtain ⟨c, hc, _, rfl⟩ := wordsSince_mem cycles x hx
  exact hd c hc

example : let p : Params := ⟨8, 0x07, 0xff, false, true, 0x55⟩
    let cycles : List Cycle := [⟨false, true, 5⟩, ⟨false, false, 9⟩, ⟨true, true, 3⟩, ⟨false, true, 14⟩, ⟨false, false, 0⟩]
    p.Valid ∧ (∀ c ∈ cycles, c.data < 2 ^ 4) ∧ wordsSince cycles = [3, 14] ∧
    hwCrc (Processor.create p 4) (hwRun (Processor.create p 4) cycles) = compute p 4 [3, 14] := by
  decide +kernel

/-- `match_detected` is asserted after a message followed by its own CRC in transmission order
    (when the CRC width is a whole number of data words) -/
theorem residue_match {p : Params} (hv : p.Valid) {dw : Nat} (hdiv : p.width % dw = 0)
    (cycles : List Cycle) (msg : List Nat)
    (hc : wordsSince cycles = msg ++ trailer p dw (Williams.crc p dw msg)) :
    hwMatch (Processor.create p dw) (hwRun (Processor.create p dw) cycles) = true := by
  have hdiv' : p.width / dw * dw = p.width := Nat.div_mul_cancel (Nat.dvd_of_mod_eq_zero hdiv)
  rw [hwRun_eq_register hv dw cycles, hc, register_codeword hv hdiv' msg]
  unfold hwMatch
  simp only [Processor.create, residue_eq hv, rev_eq_reflect]
  simp

/-- … and, for an odd polynomial, not after the same message followed by any other trailer -/
theorem residue_only {p : Params} (hv : p.Valid) (hodd : p.poly % 2 = 1) {dw : Nat} (hdiv : p.width % dw = 0)
    (cycles : List Cycle) (msg t : List Nat) (hc : wordsSince cycles = msg ++ t)
    (hlen : t.length = p.width / dw) (ht : ∀ x ∈ t, x < 2 ^ dw)
    (hne : t ≠ trailer p dw (Williams.crc p dw msg)) :
    hwMatch (Processor.create p dw) (hwRun (Processor.create p dw) cycles) = false := by
  have hdiv' : p.width / dw * dw = p.width := Nat.div_mul_cancel (Nat.dvd_of_mod_eq_zero hdiv)
  have hodd' : p.poly.testBit 0 = true := by simp [Nat.testBit_zero, hodd]
  cases hm : hwMatch (Processor.create p dw) (hwRun (Processor.create p dw) cycles)
  · rfl
  · exfalso
    apply hne
    apply register_residue_only hv hodd' hdiv' msg t hlen ht
    rw [hwRun_eq_register hv dw cycles, hc] at hm
    unfold hwMatch at hm
    simp only [Processor.create, residue_eq hv, rev_eq_reflect, beq_iff_eq] at hm
    by_cases h : p.refout = true
    · simp only [h, if_true] at hm
      exact reflect_inj (register_lt hv dw _) (residueReg_lt hv) hm
    · simpa [h] using hm

/-- CRC-8 (poly 0x07, odd) over nibbles: the true trailer of `[3, 14]` matches, another does not -/
example : let p : Params := ⟨8, 0x07, 0xff, false, false, 0x55⟩
    let h := Processor.create p 4
    let good := [3, 14] ++ trailer p 4 (Williams.crc p 4 [3, 14])
    let bad := [3, 14] ++ [1, 2]
    p.Valid ∧ p.poly % 2 = 1 ∧ p.width % 4 = 0 ∧ [1, 2] ≠ trailer p 4 (Williams.crc p 4 [3, 14]) ∧
    hwMatch h (hwRun h (good.map fun x => ⟨false, true, x⟩)) = true ∧
    hwMatch h (hwRun h (bad.map fun x => ⟨false, true, x⟩)) = false := by
  decide +kernel

/-- **Recorded finding (class "C16-even-poly").**  The `Algorithm` constructor accepts even
    polynomials; for every one of them, and every message, there is a trailer different from the
    message's CRC after which `match_detected` is asserted as well: so `residue_only` cannot be
    stated without `hodd`. -/
theorem even_poly_false_match {p : Params} (hv : p.Valid) (heven : p.poly % 2 = 0) {dw : Nat}
    (hdiv : p.width % dw = 0) (cycles : List Cycle) (msg : List Nat) :
    ∃ t, t.length = p.width / dw ∧ (∀ x ∈ t, x < 2 ^ dw) ∧ t ≠ trailer p dw (Williams.crc p dw msg) ∧
      (wordsSince cycles = msg ++ t →
        hwMatch (Processor.create p dw) (hwRun (Processor.create p dw) cycles) = true) := by
  have hdiv' : p.width / dw * dw = p.width := Nat.div_mul_cancel (Nat.dvd_of_mod_eq_zero hdiv)
  have heven' : p.poly.testBit 0 = false := by simp [Nat.testBit_zero, heven]
  have := register_even_false_match hv heven' hdiv' msg
  simp only [] at this
  refine ⟨_, length_trailer p dw _, trailer_lt p dw _, this.1, ?_⟩
  intro hc
  rw [hwRun_eq_register hv dw cycles, hc, this.2]
  unfold hwMatch
  simp only [Processor.create, residue_eq hv, rev_eq_reflect]
  simp

/-- the even-polynomial counterexample on literals: width 4, polynomial 0x6 (accepted by the
    constructor), bit-serial; message `[1]`, true trailer `[1,1,1,0]`; the trailer `[0,1,0,1]` differs
    from it and `match_detected` is asserted after both -/
example : let p : Params := ⟨4, 0x6, 0xf, false, false, 0x0⟩
    let h := Processor.create p 1
    p.Valid ∧ p.poly % 2 = 0 ∧
    trailer p 1 (Williams.crc p 1 [1]) = [1, 1, 1, 0] ∧
    hwMatch h (hwRun h (([1] ++ [1, 1, 1, 0]).map fun x => ⟨false, true, x⟩)) = true ∧
    hwMatch h (hwRun h (([1] ++ [0, 1, 0, 1]).map fun x => ⟨false, true, x⟩)) = true := by
  decide

/-- … and with polynomial 0 (also accepted) already a single corrupted trailer bit goes unnoticed -/
example : let p : Params := ⟨3, 0x0, 0x7, false, false, 0x0⟩
    let h := Processor.create p 1
    p.Valid ∧ trailer p 1 (Williams.crc p 1 [1]) = [1, 1, 0] ∧
    hwMatch h (hwRun h (([1] ++ [1, 1, 1]).map fun x => ⟨false, true, x⟩)) = true := by
  decide

/-! ## the catalogue (table regenerated from `catalog.py` and the published check values) -/

open CrcCatalog (checkString)

example : checkString = "123456789".toList.map Char.toNat := by decide

/-- every catalogue entry is a valid parameter set -/
theorem catalog_valid : ∀ e ∈ CrcCatalog.entries, e.params.Valid :=
  fun e he => (CrcCatalog.entries_ok e he).1

/-- every catalogue entry reproduces its published check value in the Williams model
    (`decide +kernel` per chunk of the regenerated table, assembled in `entries_ok`) -/
theorem catalog_checks : ∀ e ∈ CrcCatalog.entries, Williams.crc e.params 8 checkString = e.check :=
  fun e he => (CrcCatalog.entries_ok e he).2.1

/-- hence so does `Parameters.compute` -/
theorem catalog_compute_checks : ∀ e ∈ CrcCatalog.entries, compute e.params 8 checkString = e.check := by
  intro e he
  rw [compute_eq_williams (catalog_valid e he) 8 checkString (by decide)]
  exact catalog_checks e he

/-- `Parameters.residue` of every catalogue entry is the published residue -/
theorem catalog_residues : ∀ e ∈ CrcCatalog.entries, residue e.params = e.residue :=
  fun e he => (CrcCatalog.entries_ok e he).2.2

example : CrcCatalog.entries.length > 100 := by decide +kernel

end Amaranth.C16
