import AmaranthVerif.Proofs.Lowering

/-!
# C02 — assignments and control flow: last active assignment wins, per bit

Proved here, for every program of any nesting and every state (`EnvOk`):

* `lowering_sound`: running the `Switch` statements that `Module._pop_ctrl` produces, the way the
  compiled simulator runs them, performs exactly the *active* assignments of the program as written
  — an assignment is active iff every enclosing block is selected; in an If/Elif/Else the first
  branch whose condition is non-zero is selected (Else if none); in a Switch the first case one of
  whose patterns matches (Default matches everything) — in program order, each with the exact value
  of its right-hand side. In each construct at most one block is selected (`Prog.writes` picks one).
* `if_pattern_selects`: the `i`-th If pattern `("1" + "-"*i).rjust(n, "-")` tests exactly bit `i` of
  the concatenated tests, so first-match priority is a priority chain (all `n`, all `i < n`).
* `int_pattern_normalised`: an integer Case pattern, normalised to `to_binary(k & mask, width)` (or
  dropped when the test's shape cannot represent it), matches iff the test's value equals it.

Stated but not yet proved for all inputs (the correspondence check compares them on every run,
`impl = model = spec`): `assign_bits` — one compiled assignment writes exactly the addressed,
in-range bits (`assignRtlG = applyBits ∘ lbits`, needs `NoAlias`: false with aliasing, finding F9) —
and `process_spec` — the per-signal commit masks make a comb/sync process equal `progStep`.
-/

namespace Amaranth.C02
open Amaranth

/-- The lowered statements perform exactly the active assignments, in program order. -/
theorem lowering_sound (ctx : Ctx) (cur : Env) (hok : EnvOk ctx cur) (prog : List Prog)
    (h : Prog.listOk ctx prog = true) (nxt : Env) :
    execRtl ctx cur (lowerList ctx prog) nxt = applyWritesRtl ctx cur (Prog.listWrites ctx cur prog) nxt :=
  lower_sound_list ctx cur hok prog h nxt

/-- If/Elif/Else: pattern `i` of `n` selects on bit `i` of `Cat(tests)` alone. -/
theorem if_pattern_selects (n i : Nat) (h : i < n) (v : Int) :
    (ifPattern n i).matchesSpec v = ibit v i :=
  matchesSpec_ifPattern n i h v

/-- The default case / Else matches every value. -/
theorem default_matches (n : Nat) (v : Int) : (Pat.dontCare n).matchesSpec v = true :=
  matchesSpec_dontCare n v

/-- Integer Case patterns: normalisation preserves "the test equals the integer"; an integer that the
test's shape cannot represent is dropped and never matches. -/
theorem int_pattern_normalised (s : Shape) (hs : s.WF) (v : Int) (hv : s.contains v) (k : Int) :
    (match normUPat s (.int k) with | some q => q.matchesSpec v | none => false) =
      (decide (s.contains k) && decide (v = k)) :=
  normUPat_matches s hs v hv (.int k) rfl

/-- The compiled `value == (mask & test)` comparison is the bitwise reading of a pattern string. -/
theorem pattern_compare (p : Pat) (w : Nat) (hp : p.length = w) (t v : Int) (ht : t % 2 ^ w = v % 2 ^ w) :
    ((p.valueNat : Int) == pyAnd (p.maskNat : Int) (t % 2 ^ w)) = p.matchesSpec v :=
  pattern_match_iff p w hp t v ht

/-! ### Non-vacuity: a nested program with an Elif chain, a Switch with an unrepresentable integer
pattern, and a Default followed by an unreachable Case. -/

def exCtx : Ctx := [⟨2, false⟩, ⟨3, true⟩, ⟨4, false⟩, ⟨4, false⟩]
def exEnv : Env := [2, -3, 0, 7]
def exProg : List Prog :=
  [ .assign (.sig 2) (.const 1 ⟨1, false⟩),
    .ifs [(.op2 .eq (.sig 0) (.const 1 ⟨1, false⟩), [.assign (.sig 2) (.const 2 ⟨2, false⟩)]),
          (.sig 1, [.switch (.sig 0)
                      [(some [.int 7, .bits [.one, .any]], [.assign (.slice (.sig 2) 1 3) (.sig 0)]),
                       (none, [.assign (.sig 3) (.const 0 ⟨1, false⟩)]),
                       (some [.int 2], [.assign (.sig 3) (.const 5 ⟨3, false⟩)])]])]
         [.assign (.sig 2) (.const 9 ⟨4, false⟩)] ]

example : Prog.listOk exCtx exProg = true := by decide
example : (Prog.listWrites exCtx exEnv exProg).map (·.2) = [1, 2] := by decide
example : execRtl exCtx exEnv (lowerList exCtx exProg) exEnv = [2, -3, 5, 7] := by decide

end Amaranth.C02
