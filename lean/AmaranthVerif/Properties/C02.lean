import AmaranthVerif.Proofs.Lowering
import AmaranthVerif.Proofs.AssignBits5
import AmaranthVerif.Proofs.ProcessSpec
import AmaranthVerif.Proofs.ProcessModelSpec

/-!
# C02 — assignments and control flow: last active assignment wins, per bit

Proved here, for every program of any nesting and every state (`EnvOk`):

* `lowering_sound`: running the `Switch` statements that `Module._pop_ctrl` produces, the way the
  compiled simulator runs them, performs exactly the *active* assignments of the program as written
  — an assignment is active iff every enclosing block is selected; in an If/Elif/Else the first
  branch whose condition is non-zero is selected (Else if none); in a Switch the first case one of
  whose patterns matches (Default matches everything) — in program order, each with the exact value
  of its right-hand side. In each construct at most one block is selected (`Prog.writes` picks one).
* `if_pattern_selects`: the `i`-th If pattern `("1" + "-"*i).rjust(n, "-")` tests exactly bit `i` of
  the concatenated tests, so first-match priority is a priority chain (all `n`, all `i < n`).
* `int_pattern_normalised`: an integer Case pattern, normalised to `to_binary(k & mask, width)` (or
  dropped when the test's shape cannot represent it), matches iff the test's value equals it.

* `assign_bits`: one compiled assignment (the read-modify-write code of `_LHSValueCompiler`, any
  nesting of slices, part-selects with signal offsets — also beyond the target —, concatenations,
  array elements, sign reinterpretations) stores bit `k` of the assigned value in the location that
  position `k` of the target addresses, drops positions that address nothing, and leaves every other
  bit of every signal untouched — i.e. it *is* the Spec's `applyBits ∘ lbits`. Hypothesis `noAlias`:
  no signal bit is addressed twice by the operand of a slice or part-select; `f9_witness` shows the
  hypothesis is necessary (recorded finding F9).
* `statements_spec`: executing the lowered statements of a whole program equals applying the Spec's
  writes (last active write wins, per bit) — `lowering_sound` composed with `assign_bits`.

* `process_commit`: a compiled process runs its statements on private copies and commits them through the
  static bit masks of `LHSMaskCollector`. The masks cover every location an assignment in the process can
  address in any state (`lhsMask_covers`), so after the commit every bit an active assignment wrote holds the
  last value written to it, every other masked bit holds what the process started from, and every unmasked bit
  of every signal is as the other processes left it. `sync_process_writes`: hence a synchronous process (which
  starts from the current values) changes the shared state by exactly its active writes; `comb_process`: a
  combinational process leaves a driven bit that no active assignment writes at its initial value.

Not proved for all inputs (compared on every run): that the masked bits are *only* the statically driven ones
(the Spec's `progDrives`; the masks over-approximate below part-selects by construction).
-/

namespace Amaranth.C02
open Amaranth

/-- The lowered statements perform exactly the active assignments, in program order. -/
theorem lowering_sound (ctx : Ctx) (cur : Env) (hok : EnvOk ctx cur) (prog : List Prog)
    (h : Prog.listOk ctx prog = true) (nxt : Env) :
    execRtl ctx cur (lowerList ctx prog) nxt = applyWritesRtl ctx cur (Prog.listWrites ctx cur prog) nxt :=
  lower_sound_list ctx cur hok prog h nxt

/-- If/Elif/Else: pattern `i` of `n` selects on bit `i` of `Cat(tests)` alone. -/
theorem if_pattern_selects (n i : Nat) (h : i < n) (v : Int) :
    (ifPattern n i).matchesSpec v = ibit v i :=
  matchesSpec_ifPattern n i h v

/-- The default case / Else matches every value. -/
theorem default_matches (n : Nat) (v : Int) : (Pat.dontCare n).matchesSpec v = true :=
  matchesSpec_dontCare n v

/-- Integer Case patterns: normalisation preserves "the test equals the integer"; an integer that the
test's shape cannot represent is dropped and never matches. -/
theorem int_pattern_normalised (s : Shape) (hs : s.WF) (v : Int) (hv : s.contains v) (k : Int) :
    (match normUPat s (.int k) with | some q => q.matchesSpec v | none => false) =
      (decide (s.contains k) && decide (v = k)) :=
  normUPat_matches s hs v hv (.int k) rfl

/-- The compiled `value == (mask & test)` comparison is the bitwise reading of a pattern string. -/
theorem pattern_compare (p : Pat) (w : Nat) (hp : p.length = w) (t v : Int) (ht : t % 2 ^ w = v % 2 ^ w) :
    ((p.valueNat : Int) == pyAnd (p.maskNat : Int) (t % 2 ^ w)) = p.matchesSpec v :=
  pattern_match_iff p w hp t v ht

/-- One compiled assignment writes exactly the addressed, in-range bits: it is the Spec's assignment. -/
theorem assign_bits (ctx : Ctx) (cur : Env) (hok : EnvOk ctx cur) (target : Expr)
    (ht : target.twf ctx = true) (hn : target.noAlias ctx cur) (v : Int) (nxt : Env) (hE : EnvN ctx nxt) :
    assignRtlG ctx cur target v nxt = applyBits ctx (lbits ctx cur target) 0 v nxt :=
  assign_rtl_eq_applyBits ctx cur hok target ht hn v nxt hE

/-- Executing the lowered program equals the Spec: initial/previous values overridden by the active
assignments in program order, the last one winning per bit. -/
theorem statements_spec (ctx : Ctx) (cur : Env) (hok : EnvOk ctx cur) (prog : List Prog)
    (h : Prog.listOk ctx prog = true)
    (ht : ∀ w ∈ Prog.listWrites ctx cur prog, w.1.twf ctx = true ∧ w.1.noAlias ctx cur)
    (nxt : Env) (hE : EnvN ctx nxt) :
    execRtl ctx cur (lowerList ctx prog) nxt = applyWrites ctx cur (Prog.listWrites ctx cur prog) nxt := by
  rw [lowering_sound ctx cur hok prog h nxt]
  exact (applyWritesRtl_eq_spec ctx cur hok _ ht nxt hE).1

/-- What a compiled process does to the shared state (any statements, any starting copy `start`, any state `acc`
left by the other processes): written bits hold the last value written, other masked bits their value in `start`,
unmasked bits their value in `acc`. -/
theorem process_commit (ctx : Ctx) (cur : Env) (hok : EnvOk ctx cur) (body : Stmt) (start acc : Env)
    (hS : EnvN ctx start) (hA : EnvN ctx acc)
    (htg : ∀ e ∈ stmtTargets body, e.twf ctx = true ∧ e.noAlias ctx cur) :
    EnvN ctx (commitInto ctx body (execRtl ctx cur body start) acc) ∧
    ∀ i b, i < ctx.length → b < (ctx.shape i).width →
      bitAt (commitInto ctx body (execRtl ctx cur body start) acc) i b =
        match wbit ctx cur (stmtWrites ctx cur body) i b with
        | some x => x
        | none =>
          if ibit ((stmtMask ctx body (List.replicate ctx.length 0)).get i) b then bitAt start i b else bitAt acc i b :=
  process_bits ctx cur hok body start acc hS hA htg

/-- A synchronous process changes the shared state by exactly its active writes (last one wins per bit), provided
no other process has touched the bits it drives (one driver per bit: C06). -/
theorem sync_process_writes (ctx : Ctx) (cur : Env) (hok : EnvOk ctx cur) (body : Stmt) (acc : Env)
    (hC : EnvN ctx cur) (hA : EnvN ctx acc)
    (htg : ∀ e ∈ stmtTargets body, e.twf ctx = true ∧ e.noAlias ctx cur)
    (hown : ∀ i b, i < ctx.length → b < (ctx.shape i).width →
      ibit ((stmtMask ctx body (List.replicate ctx.length 0)).get i) b = true → bitAt acc i b = bitAt cur i b) :
    commitInto ctx body (execRtl ctx cur body cur) acc = applyWrites ctx cur (stmtWrites ctx cur body) acc :=
  sync_process_effect ctx cur hok body acc hC hA htg hown

/-- … in terms of the program as written: the synchronous process of a DSL program changes the shared state by
exactly the program's active assignments (first selected branch / first matching case, program order, last write
wins per bit). -/
theorem sync_process_program (ctx : Ctx) (cur : Env) (hok : EnvOk ctx cur) (prog : List Prog)
    (h : Prog.listOk ctx prog = true) (acc : Env) (hC : EnvN ctx cur) (hA : EnvN ctx acc)
    (htg : ∀ e ∈ stmtTargets (lowerList ctx prog), e.twf ctx = true ∧ e.noAlias ctx cur)
    (ht : ∀ w ∈ Prog.listWrites ctx cur prog, w.1.twf ctx = true ∧ w.1.noAlias ctx cur)
    (hown : ∀ i b, i < ctx.length → b < (ctx.shape i).width →
      ibit ((stmtMask ctx (lowerList ctx prog) (List.replicate ctx.length 0)).get i) b = true →
      bitAt acc i b = bitAt cur i b) :
    commitInto ctx (lowerList ctx prog) (execRtl ctx cur (lowerList ctx prog) cur) acc =
      applyWrites ctx cur (Prog.listWrites ctx cur prog) acc := by
  rw [sync_process_writes ctx cur hok (lowerList ctx prog) acc hC hA htg hown]
  have hws : ∀ w ∈ stmtWrites ctx cur (lowerList ctx prog), w.1.twf ctx = true ∧ w.1.noAlias ctx cur :=
    fun w hw => htg _ (stmtWrites_targets ctx cur _ w hw)
  rw [← (applyWritesRtl_eq_spec ctx cur hok _ hws acc hA).1, ← execRtl_eq_writes,
      statements_spec ctx cur hok prog h ht acc hA]

/-- A combinational process: a driven bit holds the last value an active assignment wrote to it in this state, or its
initial value when no assignment is active for it; other bits are as the other processes left them. -/
theorem comb_process (ctx : Ctx) (cur : Env) (hok : EnvOk ctx cur) (inits : Env) (hI : EnvN ctx inits) (body : Stmt)
    (acc : Env) (hC : EnvN ctx cur) (hA : EnvN ctx acc)
    (htg : ∀ e ∈ stmtTargets body, e.twf ctx = true ∧ e.noAlias ctx cur)
    (i b : Nat) (hi : i < ctx.length) (hb : b < (ctx.shape i).width) :
    bitAt (commitInto ctx body (combNext ctx inits body cur) acc) i b =
      match wbit ctx cur (stmtWrites ctx cur body) i b with
      | some x => x
      | none =>
        if ibit ((stmtMask ctx body (List.replicate ctx.length 0)).get i) b then bitAt inits i b else bitAt acc i b :=
  comb_process_bits ctx cur hok inits hI body acc hC hA htg i b hi hb

/-- **Model = Spec for one synchronous step.** What the driver evaluates as the model of a synchronous process at an
active edge without reset (`syncProcess`: the lowered statements run on copies, committed through the masks) is what it
evaluates as the Spec (`progStep`: the program's active writes on the current values), for every program and state. The
correspondence check compares both with the simulator; this theorem says they cannot differ from each other. -/
theorem model_eq_spec_sync (ctx : Ctx) (cur : Env) (hok : EnvOk ctx cur) (hC : EnvN ctx cur) (inits : Env)
    (rl : List Bool) (prog : List Prog) (h : Prog.listOk ctx prog = true)
    (htg : ∀ e ∈ stmtTargets (lowerList ctx prog), e.twf ctx = true ∧ e.noAlias ctx cur)
    (ht : ∀ w ∈ Prog.listWrites ctx cur prog, w.1.twf ctx = true ∧ w.1.noAlias ctx cur) :
    syncProcess ctx inits rl none (lowerList ctx prog) cur = progStep ctx prog cur cur :=
  sync_step_model_eq_spec ctx cur hok hC inits rl prog h htg ht

/-- the processes the driver runs are the commit of the pending values the theorems speak about (by definition) -/
theorem driver_processes (ctx : Ctx) (inits : Env) (rl : List Bool) (rst : Option Int) (body : Stmt) (cur : Env) :
    syncProcess ctx inits rl rst body cur = commitInto ctx body (syncNext ctx inits rl rst body cur) cur ∧
    combProcess ctx inits body cur = commitInto ctx body (combNext ctx inits body cur) cur := ⟨rfl, rfl⟩

/-! ### F9: without `noAlias` the compiled assignment is not the Spec's

`Cat(t, t).bit_select(o, 1).eq(1)` with `t = 0`, `o = 0`: the Spec (and the testbench, and the netlist)
set `t[0]`; the compiled circuit leaves `t` unchanged. -/

def f9Ctx : Ctx := [⟨2, false⟩, ⟨1, false⟩]
def f9Target : Expr := .part (.cat (.sig 0) (.cat (.sig 0) Expr.nil)) (.sig 1) 1 1

theorem f9_witness :
    f9Target.twf f9Ctx = true ∧
    assignRtl f9Ctx [0, 0] f9Target 1 = [0, 0] ∧ assignSpec f9Ctx [0, 0] f9Target 1 = [1, 0] := by decide

/-! ### Non-vacuity: a nested program with an Elif chain, a Switch with an unrepresentable integer
pattern, and a Default followed by an unreachable Case. -/

def exCtx : Ctx := [⟨2, false⟩, ⟨3, true⟩, ⟨4, false⟩, ⟨4, false⟩]
def exEnv : Env := [2, -3, 0, 7]
def exProg : List Prog :=
  [ .assign (.sig 2) (.const 1 ⟨1, false⟩),
    .ifs [(.op2 .eq (.sig 0) (.const 1 ⟨1, false⟩), [.assign (.sig 2) (.const 2 ⟨2, false⟩)]),
          (.sig 1, [.switch (.sig 0)
                      [(some [.int 7, .bits [.one, .any]], [.assign (.slice (.sig 2) 1 3) (.sig 0)]),
                       (none, [.assign (.sig 3) (.const 0 ⟨1, false⟩)]),
                       (some [.int 2], [.assign (.sig 3) (.const 5 ⟨3, false⟩)])]])]
         [.assign (.sig 2) (.const 9 ⟨4, false⟩)] ]

example : Prog.listOk exCtx exProg = true := by decide
example : (Prog.listWrites exCtx exEnv exProg).map (·.2) = [1, 2] := by decide
example : execRtl exCtx exEnv (lowerList exCtx exProg) exEnv = [2, -3, 5, 7] := by decide
example : ∀ w ∈ Prog.listWrites exCtx exEnv exProg, w.1.twf exCtx = true := by decide
/-- the process of that program: commit into the state it started from -/
example : commitInto exCtx (lowerList exCtx exProg) (execRtl exCtx exEnv (lowerList exCtx exProg) exEnv) exEnv
    = [2, -3, 5, 7] := by decide
example : (stmtMask exCtx (lowerList exCtx exProg) [0, 0, 0, 0]) = [0, 0, 15, 15] := by decide
example : syncProcess exCtx [0, 0, 0, 0] [] none (lowerList exCtx exProg) exEnv = progStep exCtx exProg exEnv exEnv := by decide
example : ∀ e ∈ stmtTargets (lowerList exCtx exProg), e.twf exCtx = true := by decide

end Amaranth.C02
