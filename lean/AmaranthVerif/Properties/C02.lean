import AmaranthVerif.Proofs.Lowering
import AmaranthVerif.Proofs.AssignBits5
import AmaranthVerif.Proofs.ProcessSpec
import AmaranthVerif.Proofs.ProcessModelSpec
import AmaranthVerif.Proofs.FsmRefine
import AmaranthVerif.Proofs.FsmPrune

/-!
# C02 — assignments and control flow: last active assignment wins, per bit

Proved here, for every program of any nesting and every state (`EnvOk`):

* `lowering_sound`: running the `Switch` statements that `Module._pop_ctrl` produces, the way the
  compiled simulator runs them, performs exactly the *active* assignments of the program as written
  — an assignment is active iff every enclosing block is selected; in an If/Elif/Else the first
  branch whose condition is non-zero is selected (Else if none); in a Switch the first case one of
  whose patterns matches (Default matches everything) — in program order, each with the exact value
  of its right-hand side. In each construct at most one block is selected (`Prog.writes` picks one).
* `if_pattern_selects`: the `i`-th If pattern `("1" + "-"*i).rjust(n, "-")` tests exactly bit `i` of
  the concatenated tests, so first-match priority is a priority chain (all `n`, all `i < n`).
* `int_pattern_normalised`: an integer Case pattern, normalised to `to_binary(k & mask, width)` (or
  dropped when the test's shape cannot represent it), matches iff the test's value equals it.

* `assign_bits`: one compiled assignment (the read-modify-write code of `_LHSValueCompiler`, any
  nesting of slices, part-selects with signal offsets — also beyond the target —, concatenations,
  array elements, sign reinterpretations) stores bit `k` of the assigned value in the location that
  position `k` of the target addresses, drops positions that address nothing, and leaves every other
  bit of every signal untouched — i.e. it *is* the Spec's `applyBits ∘ lbits`. Hypothesis `noAlias`:
  no signal bit is addressed twice by the operand of a slice or part-select; `f9_witness` shows the
  hypothesis is necessary (recorded finding F9).
* `statements_spec`: executing the lowered statements of a whole program equals applying the Spec's
  writes (last active write wins, per bit) — `lowering_sound` composed with `assign_bits`.

* `process_commit`: a compiled process runs its statements on private copies and commits them through the
  static bit masks of `LHSMaskCollector`. The masks cover every location an assignment in the process can
  address in any state (`lhsMask_covers`), so after the commit every bit an active assignment wrote holds the
  last value written to it, every other masked bit holds what the process started from, and every unmasked bit
  of every signal is as the other processes left it. `sync_process_writes`: hence a synchronous process (which
  starts from the current values) changes the shared state by exactly its active writes; `comb_process`: a
  combinational process leaves a driven bit that no active assignment writes at its initial value.

* FSMs (`Model/Fsm.lean` follows `Module.FSM/State/next`/`_pop_ctrl`, `Spec/FsmSpec.lean` reads the property: an FSM is
  in a state *by name*, a State block is selected iff it is the current state, the last active `m.next` decides the
  next state, `ongoing(S)` is 1 iff the current state is `S`, the FSM starts and restarts in `init=` or the first state
  defined): `fsm_encoding_injective`, `fsm_step_refines` (+ `fsm_register_moves`), `fsm_ongoing`, `fsm_initial`,
  `fsm_reset_initial`, `fsm_unused_code`, `lowering_prune` — see the section "FSMs" below.

Not proved for all inputs (compared on every run): that the masked bits are *only* the statically driven ones
(the Spec's `progDrives`; the masks over-approximate below part-selects by construction).
-/

namespace Amaranth.C02
open Amaranth

/-- The lowered statements perform exactly the active assignments, in program order. -/
theorem lowering_sound (ctx : Ctx) (cur : Env) (hok : EnvOk ctx cur) (prog : List Prog)
    (h : Prog.listOk ctx prog = true) (nxt : Env) :
    execRtl ctx cur (lowerList ctx prog) nxt = applyWritesRtl ctx cur (Prog.listWrites ctx cur prog) nxt :=
  lower_sound_list ctx cur hok prog h nxt

/-- If/Elif/Else: pattern `i` of `n` selects on bit `i` of `Cat(tests)` alone. -/
theorem if_pattern_selects (n i : Nat) (h : i < n) (v : Int) :
    (ifPattern n i).matchesSpec v = ibit v i :=
  matchesSpec_ifPattern n i h v

/-- The default case / Else matches every value. -/
theorem default_matches (n : Nat) (v : Int) : (Pat.dontCare n).matchesSpec v = true :=
  matchesSpec_dontCare n v

/-- Integer Case patterns: normalisation preserves "the test equals the integer"; an integer that the
test's shape cannot represent is dropped and never matches. -/
theorem int_pattern_normalised (s : Shape) (hs : s.WF) (v : Int) (hv : s.contains v) (k : Int) :
    (match normUPat s (.int k) with | some q => q.matchesSpec v | none => false) =
      (decide (s.contains k) && decide (v = k)) :=
  normUPat_matches s hs v hv (.int k) rfl

/-- The compiled `value == (mask & test)` comparison is the bitwise reading of a pattern string. -/
theorem pattern_compare (p : Pat) (w : Nat) (hp : p.length = w) (t v : Int) (ht : t % 2 ^ w = v % 2 ^ w) :
    ((p.valueNat : Int) == pyAnd (p.maskNat : Int) (t % 2 ^ w)) = p.matchesSpec v :=
  pattern_match_iff p w hp t v ht

/-- One compiled assignment writes exactly the addressed, in-range bits: it is the Spec's assignment. -/
theorem assign_bits (ctx : Ctx) (cur : Env) (hok : EnvOk ctx cur) (target : Expr)
    (ht : target.twf ctx = true) (hn : target.noAlias ctx cur) (v : Int) (nxt : Env) (hE : EnvN ctx nxt) :
    assignRtlG ctx cur target v nxt = applyBits ctx (lbits ctx cur target) 0 v nxt :=
  assign_rtl_eq_applyBits ctx cur hok target ht hn v nxt hE

/-- Executing the lowered program equals the Spec: initial/previous values overridden by the active
assignments in program order, the last one winning per bit. -/
theorem statements_spec (ctx : Ctx) (cur : Env) (hok : EnvOk ctx cur) (prog : List Prog)
    (h : Prog.listOk ctx prog = true)
    (ht : ∀ w ∈ Prog.listWrites ctx cur prog, w.1.twf ctx = true ∧ w.1.noAlias ctx cur)
    (nxt : Env) (hE : EnvN ctx nxt) :
    execRtl ctx cur (lowerList ctx prog) nxt = applyWrites ctx cur (Prog.listWrites ctx cur prog) nxt := by
  rw [lowering_sound ctx cur hok prog h nxt]
  exact (applyWritesRtl_eq_spec ctx cur hok _ ht nxt hE).1

/-- What a compiled process does to the shared state (any statements, any starting copy `start`, any state `acc`
left by the other processes): written bits hold the last value written, other masked bits their value in `start`,
unmasked bits their value in `acc`. -/
theorem process_commit (ctx : Ctx) (cur : Env) (hok : EnvOk ctx cur) (body : Stmt) (start acc : Env)
    (hS : EnvN ctx start) (hA : EnvN ctx acc)
    (htg : ∀ e ∈ stmtTargets body, e.twf ctx = true ∧ e.noAlias ctx cur) :
    EnvN ctx (commitInto ctx body (execRtl ctx cur body start) acc) ∧
    ∀ i b, i < ctx.length → b < (ctx.shape i).width →
      bitAt (commitInto ctx body (execRtl ctx cur body start) acc) i b =
        match wbit ctx cur (stmtWrites ctx cur body) i b with
        | some x => x
        | none =>
          if ibit ((stmtMask ctx body (List.replicate ctx.length 0)).get i) b then bitAt start i b else bitAt acc i b :=
  process_bits ctx cur hok body start acc hS hA htg

/-- A synchronous process changes the shared state by exactly its active writes (last one wins per bit), provided
no other process has touched the bits it drives (one driver per bit: C06). -/
theorem sync_process_writes (ctx : Ctx) (cur : Env) (hok : EnvOk ctx cur) (body : Stmt) (acc : Env)
    (hC : EnvN ctx cur) (hA : EnvN ctx acc)
    (htg : ∀ e ∈ stmtTargets body, e.twf ctx = true ∧ e.noAlias ctx cur)
    (hown : ∀ i b, i < ctx.length → b < (ctx.shape i).width →
      ibit ((stmtMask ctx body (List.replicate ctx.length 0)).get i) b = true → bitAt acc i b = bitAt cur i b) :
    commitInto ctx body (execRtl ctx cur body cur) acc = applyWrites ctx cur (stmtWrites ctx cur body) acc :=
  sync_process_effect ctx cur hok body acc hC hA htg hown

/-- … in terms of the program as written: the synchronous process of a DSL program changes the shared state by
exactly the program's active assignments (first selected branch / first matching case, program order, last write
wins per bit). -/
theorem sync_process_program (ctx : Ctx) (cur : Env) (hok : EnvOk ctx cur) (prog : List Prog)
    (h : Prog.listOk ctx prog = true) (acc : Env) (hC : EnvN ctx cur) (hA : EnvN ctx acc)
    (htg : ∀ e ∈ stmtTargets (lowerList ctx prog), e.twf ctx = true ∧ e.noAlias ctx cur)
    (ht : ∀ w ∈ Prog.listWrites ctx cur prog, w.1.twf ctx = true ∧ w.1.noAlias ctx cur)
    (hown : ∀ i b, i < ctx.length → b < (ctx.shape i).width →
      ibit ((stmtMask ctx (lowerList ctx prog) (List.replicate ctx.length 0)).get i) b = true →
      bitAt acc i b = bitAt cur i b) :
    commitInto ctx (lowerList ctx prog) (execRtl ctx cur (lowerList ctx prog) cur) acc =
      applyWrites ctx cur (Prog.listWrites ctx cur prog) acc := by
  rw [sync_process_writes ctx cur hok (lowerList ctx prog) acc hC hA htg hown]
  have hws : ∀ w ∈ stmtWrites ctx cur (lowerList ctx prog), w.1.twf ctx = true ∧ w.1.noAlias ctx cur :=
    fun w hw => htg _ (stmtWrites_targets ctx cur _ w hw)
  rw [← (applyWritesRtl_eq_spec ctx cur hok _ hws acc hA).1, ← execRtl_eq_writes,
      statements_spec ctx cur hok prog h ht acc hA]

/-- A combinational process: a driven bit holds the last value an active assignment wrote to it in this state, or its
initial value when no assignment is active for it; other bits are as the other processes left them. -/
theorem comb_process (ctx : Ctx) (cur : Env) (hok : EnvOk ctx cur) (inits : Env) (hI : EnvN ctx inits) (body : Stmt)
    (acc : Env) (hC : EnvN ctx cur) (hA : EnvN ctx acc)
    (htg : ∀ e ∈ stmtTargets body, e.twf ctx = true ∧ e.noAlias ctx cur)
    (i b : Nat) (hi : i < ctx.length) (hb : b < (ctx.shape i).width) :
    bitAt (commitInto ctx body (combNext ctx inits body cur) acc) i b =
      match wbit ctx cur (stmtWrites ctx cur body) i b with
      | some x => x
      | none =>
        if ibit ((stmtMask ctx body (List.replicate ctx.length 0)).get i) b then bitAt inits i b else bitAt acc i b :=
  comb_process_bits ctx cur hok inits hI body acc hC hA htg i b hi hb

/-- **Model = Spec for one synchronous step.** What the driver evaluates as the model of a synchronous process at an
active edge without reset (`syncProcess`: the lowered statements run on copies, committed through the masks) is what it
evaluates as the Spec (`progStep`: the program's active writes on the current values), for every program and state. The
correspondence check compares both with the simulator; this theorem says they cannot differ from each other. -/
theorem model_eq_spec_sync (ctx : Ctx) (cur : Env) (hok : EnvOk ctx cur) (hC : EnvN ctx cur) (inits : Env)
    (rl : List Bool) (prog : List Prog) (h : Prog.listOk ctx prog = true)
    (htg : ∀ e ∈ stmtTargets (lowerList ctx prog), e.twf ctx = true ∧ e.noAlias ctx cur)
    (ht : ∀ w ∈ Prog.listWrites ctx cur prog, w.1.twf ctx = true ∧ w.1.noAlias ctx cur) :
    syncProcess ctx inits rl none (lowerList ctx prog) cur = progStep ctx prog cur cur :=
  sync_step_model_eq_spec ctx cur hok hC inits rl prog h htg ht

/-- the processes the driver runs are the commit of the pending values the theorems speak about (by definition) -/
theorem driver_processes (ctx : Ctx) (inits : Env) (rl : List Bool) (rst : Option Int) (body : Stmt) (cur : Env) :
    syncProcess ctx inits rl rst body cur = commitInto ctx body (syncNext ctx inits rl rst body cur) cur ∧
    combProcess ctx inits body cur = commitInto ctx body (combNext ctx inits body cur) cur := ⟨rfl, rfl⟩


/-! ## FSMs

`FProg` is the DSL with domains and FSMs as written; `FProg.lowerListD d` is what `Module` builds for domain `d`
(the `Switch` over the state register, `m.next` as a register load; codes in order of first mention), a `List Prog`
to which everything above applies; `fsmSpecStep` is the Spec (states by name). `Agrees cur σ fs`: the configuration
`σ` names, for every FSM of `fs`, the state its register holds in `cur` (`none`: no state's code). -/

/-- **(a) Distinct state names get distinct codes, all within the register's width.** Every state that is defined (and
every state first mentioned by `m.next` / `ongoing()`) has a code; a code belongs to one name only (also against names
never mentioned); it fits the `fsmWidth`-bit unsigned register; and decoding it gives the name back. -/
theorem fsm_encoding_injective (entries : FsmEntries) :
    (∀ s ∈ definedStates entries, s ∈ encOrder entries) ∧
    (∀ s ∈ encOrder entries, ∀ t, code (encOrder entries) s = code (encOrder entries) t → s = t) ∧
    (∀ s ∈ encOrder entries,
      (Shape.mk (fsmWidth (encOrder entries).length) false).contains (code (encOrder entries) s : Int)) ∧
    (∀ s ∈ encOrder entries, decode (encOrder entries) (code (encOrder entries) s : Int) = some s) :=
  ⟨fun s hs => defined_mem_encOrder entries s hs, fun _ hs _ h => code_inj hs h, fun _ hs => code_contained hs,
   fun _ hs => decode_code hs⟩

/-- **(b) One active edge of a synchronous domain refines the Spec's step.** For every program with FSMs the DSL
accepts (`FProg.listOk`), whose FSMs have pairwise distinct state registers that no assignment addresses, in every
state `cur` whose registers hold what the configuration `σ` says:

1. the active assignments of the lowered program are exactly the Spec's events in program order — the assignments of
   the bodies of the *current* states (with every enclosing If/Switch selected), each with the value of its right-hand
   side, and for every active `m.next = S` the load of `S`'s code into that FSM's register — nothing else;
2. after the edge (the compiled process on the lowered statements: `syncProcess`) the registers hold what the Spec's
   next configuration says (last active `m.next` wins, none = stay);
3. every other signal bit is as in the Spec's next state. -/
theorem fsm_step_refines (ctx : Ctx) (cur : Env) (hok : EnvOk ctx cur) (hC : EnvN ctx cur) (inits : Env) (rl : List Bool)
    (d : String) (hd : d ≠ "comb") (items : List FProg) (hwf : FProg.listOk ctx none items = true)
    (hdist : ((FProg.listFsms items).map (·.1.reg)).Nodup)
    (σ : Conf) (hσ : Agrees cur σ (FProg.listFsms items))
    (ht : ∀ w ∈ Ev.writes (FProg.listEvents ctx cur σ d none items),
      w.1.twf ctx = true ∧ w.1.noAlias ctx cur ∧ ∀ f ∈ FProg.listFsms items, ∀ b, some (f.1.reg, b) ∉ lbits ctx cur w.1)
    (htg : ∀ e ∈ stmtTargets (lowerList ctx (FProg.lowerListD d none items)), e.twf ctx = true ∧ e.noAlias ctx cur) :
    Prog.listWrites ctx cur (FProg.lowerListD d none items) =
      (FProg.listEvents ctx cur σ d none items).map Ev.toWrite ∧
    Agrees (syncProcess ctx inits rl none (lowerList ctx (FProg.lowerListD d none items)) cur)
      (fsmSpecStep ctx items d cur cur σ).2 (FProg.listFsms items) ∧
    ∀ i b, i < ctx.length → b < (ctx.shape i).width → (∀ f ∈ FProg.listFsms items, f.1.reg ≠ i) →
      bitAt (syncProcess ctx inits rl none (lowerList ctx (FProg.lowerListD d none items)) cur) i b =
        bitAt (fsmSpecStep ctx items d cur cur σ).1 i b := by
  have hregs := listOk_regs ctx items none hwf
  have hw := lowerListD_writes ctx cur σ d items none hσ hregs
  have hPok := lowerListD_ok ctx d items none hwf (fun _ _ e => by cases e)
  have hgoto := fun h es s hm => top_events_goto ctx cur σ d items h es s hm
  have htw : ∀ w ∈ Prog.listWrites ctx cur (FProg.lowerListD d none items), w.1.twf ctx = true ∧ w.1.noAlias ctx cur := by
    rw [hw]
    intro w hm
    simp only [List.mem_map] at hm
    obtain ⟨e, he, rfl⟩ := hm
    cases e with
    | write l v =>
      have hin := write_mem_writes _ l v he
      exact ⟨(ht _ hin).1, (ht _ hin).2.1⟩
    | goto h es s =>
      refine ⟨?_, trivial⟩
      simp only [Ev.toWrite, Expr.twf, decide_eq_true_eq]
      exact (hregs _ (hgoto h es s he).1).1
  have hstep := model_eq_spec_sync ctx cur hok hC inits rl _ hPok htg htw
  rw [hstep, progStep_base_self ctx _ cur hC, hw]
  obtain ⟨h1, h2⟩ := step_agrees ctx cur hC d items hregs hdist σ hσ (fun w hw' => ⟨(ht w hw').1, (ht w hw').2.2⟩)
  have hspec : fsmSpecStep ctx items d cur cur σ =
      (applyWrites ctx cur (Ev.writes (FProg.listEvents ctx cur σ d none items)) cur,
       σ.after (FProg.listEvents ctx cur σ d none items)) := by
    unfold fsmSpecStep
    simp only [hd, if_false, List.map_nil, List.append_nil]
    rw [stepWith_self ctx cur _ _ hC]
  rw [hspec]
  exact ⟨rfl, h1, h2⟩

/-- … in other words: after the edge the register of an FSM holds the code of `s'` exactly when the Spec's next
configuration puts the FSM in `s'` (same hypotheses; for every FSM of the program and every state `s'` of its encoding);
and before the edge it holds the code of `s` exactly when the configuration says `s`. -/
theorem fsm_register_moves (ctx : Ctx) (cur : Env) (hok : EnvOk ctx cur) (hC : EnvN ctx cur) (inits : Env) (rl : List Bool)
    (d : String) (hd : d ≠ "comb") (items : List FProg) (hwf : FProg.listOk ctx none items = true)
    (hdist : ((FProg.listFsms items).map (·.1.reg)).Nodup)
    (σ : Conf) (hσ : Agrees cur σ (FProg.listFsms items))
    (ht : ∀ w ∈ Ev.writes (FProg.listEvents ctx cur σ d none items),
      w.1.twf ctx = true ∧ w.1.noAlias ctx cur ∧ ∀ f ∈ FProg.listFsms items, ∀ b, some (f.1.reg, b) ∉ lbits ctx cur w.1)
    (htg : ∀ e ∈ stmtTargets (lowerList ctx (FProg.lowerListD d none items)), e.twf ctx = true ∧ e.noAlias ctx cur)
    (f : FsmHdr × FsmEntries) (hf : f ∈ FProg.listFsms items) (s s' : String)
    (hs : s ∈ encOrder f.2) (hs' : s' ∈ encOrder f.2) :
    (cur.val f.1.reg = (code (encOrder f.2) s : Int) ↔ σ f.1.reg = some s) ∧
    ((syncProcess ctx inits rl none (lowerList ctx (FProg.lowerListD d none items)) cur).val f.1.reg =
        (code (encOrder f.2) s' : Int) ↔ (fsmSpecStep ctx items d cur cur σ).2 f.1.reg = some s') := by
  have h2 := (fsm_step_refines ctx cur hok hC inits rl d hd items hwf hdist σ hσ ht htg).2.1 f hf
  constructor
  · rw [hσ f hf]; exact (decode_eq_some_iff (encOrder_nodup f.2) hs).symm
  · rw [h2]; exact (decode_eq_some_iff (encOrder_nodup f.2) hs').symm

/-- The first part of `fsm_step_refines` holds in every domain, `comb` included: the active assignments of the lowered
program are the Spec's events (a State body's `comb` assignments are active exactly while the FSM is in that state). -/
theorem fsm_active_writes (ctx : Ctx) (cur : Env) (d : String) (items : List FProg)
    (hwf : FProg.listOk ctx none items = true) (σ : Conf) (hσ : Agrees cur σ (FProg.listFsms items)) :
    Prog.listWrites ctx cur (FProg.lowerListD d none items) =
      (FProg.listEvents ctx cur σ d none items).map Ev.toWrite :=
  lowerListD_writes ctx cur σ d items none hσ (listOk_regs ctx items none hwf)

/-- **(c) `ongoing(S)` equals `state == code S`, combinationally.** The top-level combinational statements an FSM
contributes assign, to the signal of every encoded state `S`, the Spec's `ongoing(S)` (1 iff the FSM is in `S`), in
every state; and after they ran (on any pending values `X`) the signal `fsm.ongoing(S)` holds exactly that value —
provided the `ongoing` signals are distinct one-bit unsigned signals of the design. -/
theorem fsm_ongoing (ctx : Ctx) (cur : Env) (σ : Conf) (h : FsmHdr) (entries : FsmEntries)
    (hag : σ h.reg = decode (encOrder entries) (cur.val h.reg)) :
    (∀ s ∈ encOrder entries,
      denote ctx cur (.op2 .eq (.sig h.reg) (constOf (code (encOrder entries) s))) = ongoingSpec σ h.reg s) ∧
    Prog.listWrites ctx cur (fsmOngoing h (encOrder entries) (encOrder entries)) =
      (encOrder entries).map (fun s => (Expr.sig ((h.og.lookup s).getD 0), ongoingSpec σ h.reg s)) ∧
    ((∀ s ∈ encOrder entries,
        (h.og.lookup s).getD 0 < ctx.length ∧ ctx.shape ((h.og.lookup s).getD 0) = ⟨1, false⟩) →
     (∀ a ∈ encOrder entries, ∀ c ∈ encOrder entries, (h.og.lookup a).getD 0 = (h.og.lookup c).getD 0 → a = c) →
     ∀ (X : Env), EnvN ctx X → ∀ s ∈ encOrder entries,
      (applyWrites ctx cur (Prog.listWrites ctx cur (fsmOngoing h (encOrder entries) (encOrder entries))) X).val
          ((h.og.lookup s).getD 0) = ongoingSpec σ h.reg s) :=
  ⟨fun s hs => ongoing_value ctx cur σ h _ hag (encOrder_nodup entries) s hs,
   ongoing_writes ctx cur σ h _ hag (encOrder_nodup entries) _ (fun _ hx => hx),
   fun hog hinj X hX s hs => ongoing_signal ctx cur σ h _ hag (encOrder_nodup entries) hog hinj X hX s hs⟩

/-- **(d) The initial state.** The register's initial value (`fsmInitCode`: the code of `init=`, else of the first state
*defined*) decodes to the Spec's initial state, whatever the order in which the states got their codes. -/
theorem fsm_initial (h : FsmHdr) (entries : FsmEntries)
    (hinit : ∀ s, h.init = some s → s ∈ definedStates entries)
    (hall : ∀ s ∈ encOrder entries, s ∈ definedStates entries) :
    decode (encOrder entries) (fsmInitCode h entries : Int) = specInit h entries :=
  init_decodes h entries hinit hall

/-- **(d) … and after a reset edge.** At an active edge with the domain's reset asserted, the register of an FSM with an
`m.next` in the domain's statements (`.sig reg` is a target; it is not reset-less) holds its initial value again,
whatever state it was in and whatever `m.next` was active — i.e. the FSM is back in its initial state. -/
theorem fsm_reset_initial (ctx : Ctx) (cur : Env) (hC : EnvN ctx cur) (inits : Env) (hI : EnvN ctx inits)
    (rl : List Bool) (r : Int) (hr : (pyAnd 1 r != 0) = true) (body : Stmt)
    (htw : ∀ e ∈ stmtTargets body, e.twf ctx = true)
    (h : FsmHdr) (entries : FsmEntries) (hreg : h.reg < ctx.length)
    (hdrv : Expr.sig h.reg ∈ stmtTargets body) (hrl : rl.getD h.reg false = false)
    (hinit : inits.val h.reg = (fsmInitCode h entries : Int))
    (hi : ∀ s, h.init = some s → s ∈ definedStates entries)
    (hall : ∀ s ∈ encOrder entries, s ∈ definedStates entries) :
    (syncProcess ctx inits rl (some r) body cur).val h.reg = (fsmInitCode h entries : Int) ∧
    decode (encOrder entries) ((syncProcess ctx inits rl (some r) body cur).val h.reg) = specInit h entries := by
  have := reset_loads_init ctx cur hC inits hI rl r hr body htw h.reg hreg hdrv hrl
  rw [this, hinit]
  exact ⟨rfl, init_decodes h entries hi hall⟩

/-- **(e) A register value that is no state's code** (negative, or `≥` the number of encoded states — possible whenever
that number is not a power of two, and for a single state): the FSM block executes nothing — no State body, no
`m.next` — in any domain, so a program consisting of that FSM leaves every signal, the register included, unchanged at
the edge. (This is what the code does: the `Switch` has no case for such a value and no default.) -/
theorem fsm_unused_code (ctx : Ctx) (cur : Env) (hC : EnvN ctx cur) (d : String) (cx : Option (FsmHdr × FsmEntries))
    (h : FsmHdr) (entries : FsmEntries)
    (hv : cur.val h.reg < 0 ∨ ((encOrder entries).length : Int) ≤ cur.val h.reg) :
    decode (encOrder entries) (cur.val h.reg) = none ∧
    Prog.listWrites ctx cur (FProg.lowerD d cx (.fsm h entries)) = [] ∧
    progStep ctx (FProg.lowerD d cx (.fsm h entries)) cur cur = cur := by
  have hdec := decode_none_of_unused (encOrder entries) (cur.val h.reg) hv
  have hnw := fsm_no_state_no_writes ctx cur d cx h entries hdec
  refine ⟨hdec, hnw, ?_⟩
  rw [progStep_base_self ctx _ cur hC, hnw]; rfl

/-- The structural comparison of the model's statements with the ones amaranth built is made after `Stmt.prune`;
pruning does not change what a process does. -/
theorem lowering_prune (ctx : Ctx) (inits : Env) (rl : List Bool) (rst : Option Int) (s : Stmt) (cur : Env) :
    combProcess ctx inits s.prune cur = combProcess ctx inits s cur ∧
    syncProcess ctx inits rl rst s.prune cur = syncProcess ctx inits rl rst s cur :=
  prune_process ctx inits rl rst s cur

/-! ### F9: without `noAlias` the compiled assignment is not the Spec's

`Cat(t, t).bit_select(o, 1).eq(1)` with `t = 0`, `o = 0`: the Spec (and the testbench, and the netlist)
set `t[0]`; the compiled circuit leaves `t` unchanged. -/

def f9Ctx : Ctx := [⟨2, false⟩, ⟨1, false⟩]
def f9Target : Expr := .part (.cat (.sig 0) (.cat (.sig 0) Expr.nil)) (.sig 1) 1 1

theorem f9_witness :
    f9Target.twf f9Ctx = true ∧
    assignRtl f9Ctx [0, 0] f9Target 1 = [0, 0] ∧ assignSpec f9Ctx [0, 0] f9Target 1 = [1, 0] := by decide

/-! ### Non-vacuity: a nested program with an Elif chain, a Switch with an unrepresentable integer
pattern, and a Default followed by an unreachable Case. -/

def exCtx : Ctx := [⟨2, false⟩, ⟨3, true⟩, ⟨4, false⟩, ⟨4, false⟩]
def exEnv : Env := [2, -3, 0, 7]
def exProg : List Prog :=
  [ .assign (.sig 2) (.const 1 ⟨1, false⟩),
    .ifs [(.op2 .eq (.sig 0) (.const 1 ⟨1, false⟩), [.assign (.sig 2) (.const 2 ⟨2, false⟩)]),
          (.sig 1, [.switch (.sig 0)
                      [(some [.int 7, .bits [.one, .any]], [.assign (.slice (.sig 2) 1 3) (.sig 0)]),
                       (none, [.assign (.sig 3) (.const 0 ⟨1, false⟩)]),
                       (some [.int 2], [.assign (.sig 3) (.const 5 ⟨3, false⟩)])]])]
         [.assign (.sig 2) (.const 9 ⟨4, false⟩)] ]

example : Prog.listOk exCtx exProg = true := by decide
example : (Prog.listWrites exCtx exEnv exProg).map (·.2) = [1, 2] := by decide
example : execRtl exCtx exEnv (lowerList exCtx exProg) exEnv = [2, -3, 5, 7] := by decide
example : ∀ w ∈ Prog.listWrites exCtx exEnv exProg, w.1.twf exCtx = true := by decide
/-- the process of that program: commit into the state it started from -/
example : commitInto exCtx (lowerList exCtx exProg) (execRtl exCtx exEnv (lowerList exCtx exProg) exEnv) exEnv
    = [2, -3, 5, 7] := by decide
example : (stmtMask exCtx (lowerList exCtx exProg) [0, 0, 0, 0]) = [0, 0, 15, 15] := by decide
example : syncProcess exCtx [0, 0, 0, 0] [] none (lowerList exCtx exProg) exEnv = progStep exCtx exProg exEnv exEnv := by decide
example : ∀ e ∈ stmtTargets (lowerList exCtx exProg), e.twf exCtx = true := by decide

/-! ### Non-vacuity for the FSM theorems: three states, one `m.next` under an If, codes not in definition order -/

/-- signals: 0 `go` (1 bit), 1 `cnt` (4 bits), 2 the state register (2 bits), 3..5 `ongoing(A)`, `ongoing(C)`, `ongoing(B)` -/
def fsmCtx : Ctx := [⟨1, false⟩, ⟨4, false⟩, ⟨2, false⟩, ⟨1, false⟩, ⟨1, false⟩, ⟨1, false⟩]
def fsmHdr : FsmHdr := ⟨2, "sync", none, [("A", 3), ("C", 4), ("B", 5)]⟩
/-- `A: If go: next = C` · `B: cnt += 1; next = A` · `C: next = B`. `C` is first mentioned by `m.next`, so the codes are
A=0, C=1, B=2 (definition order: A, B, C); the register is 2 bits wide and code 3 is unused. -/
def fsmEntries : FsmEntries :=
  [("A", some [.ifs [(.sig 0, [.next "C"])] []]),
   ("B", some [.assign "sync" (.sig 1) (.op2 .add (.sig 1) (.const 1 ⟨1, false⟩)), .next "A"]),
   ("C", some [.next "B"])]
def fsmProg : List FProg := [.fsm fsmHdr fsmEntries]
def fsmConf (s : Option String) : Conf := fun r => if r = 2 then s else none
def fsmInits : Env := [0, 0, 0, 0, 0, 0]
/-- in state `B` with `go = 1`, `cnt = 5` -/
def fsmEnvB : Env := [1, 5, 2, 0, 0, 1]

example : encOrder fsmEntries = ["A", "C", "B"] ∧ definedStates fsmEntries = ["A", "B", "C"] := by decide
example : fsmWidth 3 = 2 ∧ fsmInitCode fsmHdr fsmEntries = 0 ∧ specInit fsmHdr fsmEntries = some "A" := by decide
example : FProg.listOk fsmCtx none fsmProg = true := by decide

theorem fsmEnvB_ok : EnvOk fsmCtx fsmEnvB := by
  intro i
  match i with
  | 0 => decide
  | 1 => decide
  | 2 => decide
  | 3 => decide
  | 4 => decide
  | 5 => decide
  | n + 6 => simp [Ctx.shape, Env.val, fsmCtx, fsmEnvB, Shape.WF, Shape.contains, Shape.lo, Shape.hi, Shape.u]

theorem envN_of_ok (ctx : Ctx) (E : Env) (hl : E.length = ctx.length) (h : EnvOk ctx E) : EnvN ctx E :=
  ⟨hl, fun i _ => h i⟩

theorem fsmWritesB : Ev.writes (FProg.listEvents fsmCtx fsmEnvB (fsmConf (some "B")) "sync" none fsmProg) = [(.sig 1, 6)] := by
  rfl

theorem fsmTargets : stmtTargets (lowerList fsmCtx (FProg.lowerListD "sync" none fsmProg)) = [.sig 2, .sig 1, .sig 2, .sig 2] := by
  rfl

example : Agrees fsmEnvB (fsmConf (some "B")) (FProg.listFsms fsmProg) := by unfold Agrees; decide
example : ((FProg.listFsms fsmProg).map (·.1.reg)).Nodup := by decide

theorem fsmFsms : FProg.listFsms fsmProg = [(fsmHdr, fsmEntries)] := rfl

theorem fsmEx_ht : ∀ w ∈ Ev.writes (FProg.listEvents fsmCtx fsmEnvB (fsmConf (some "B")) "sync" none fsmProg),
    w.1.twf fsmCtx = true ∧ w.1.noAlias fsmCtx fsmEnvB ∧
      ∀ f ∈ FProg.listFsms fsmProg, ∀ b, some (f.1.reg, b) ∉ lbits fsmCtx fsmEnvB w.1 := by
  rw [fsmWritesB, fsmFsms]
  intro w hw
  simp only [List.mem_singleton] at hw
  subst hw
  refine ⟨by decide, trivial, ?_⟩
  intro f hf b
  simp only [List.mem_singleton] at hf
  subst hf
  simp [lbits, fsmHdr]

theorem fsmEx_htg : ∀ e ∈ stmtTargets (lowerList fsmCtx (FProg.lowerListD "sync" none fsmProg)),
    e.twf fsmCtx = true ∧ e.noAlias fsmCtx fsmEnvB := by
  rw [fsmTargets]
  intro e he
  simp only [List.mem_cons, List.not_mem_nil, or_false] at he
  rcases he with he | he | he | he <;> subst he <;> exact ⟨by decide, trivial⟩

/-- `fsm_step_refines` applies to the FSM in state `B` (all hypotheses hold) … -/
theorem fsm_step_example :
    Agrees (syncProcess fsmCtx fsmInits [] none (lowerList fsmCtx (FProg.lowerListD "sync" none fsmProg)) fsmEnvB)
      (fsmSpecStep fsmCtx fsmProg "sync" fsmEnvB fsmEnvB (fsmConf (some "B"))).2 (FProg.listFsms fsmProg) :=
  (fsm_step_refines fsmCtx fsmEnvB fsmEnvB_ok (envN_of_ok _ _ rfl fsmEnvB_ok) fsmInits [] "sync" (by decide) fsmProg
    (by decide) (by decide) (fsmConf (some "B")) (by unfold Agrees; decide) fsmEx_ht fsmEx_htg).2.1

/-- `fsm_register_moves` there: the register holds A's code after the edge iff the Spec goes to `A` (both true) -/
example : (syncProcess fsmCtx fsmInits [] none (lowerList fsmCtx (FProg.lowerListD "sync" none fsmProg)) fsmEnvB).val 2 =
      (code (encOrder fsmEntries) "A" : Int) ↔
    (fsmSpecStep fsmCtx fsmProg "sync" fsmEnvB fsmEnvB (fsmConf (some "B"))).2 2 = some "A" :=
  (fsm_register_moves fsmCtx fsmEnvB fsmEnvB_ok (envN_of_ok _ _ rfl fsmEnvB_ok) fsmInits [] "sync" (by decide) fsmProg
    (by decide) (by decide) (fsmConf (some "B")) (by unfold Agrees; decide) fsmEx_ht fsmEx_htg (fsmHdr, fsmEntries)
    (by rw [fsmFsms]; exact List.mem_singleton.2 rfl) "B" "A" (by decide) (by decide)).2

/-- … and what it says there: `cnt` becomes 6, the register goes from B's code 2 to A's code 0, the Spec goes from `B` to `A` -/
example : syncProcess fsmCtx fsmInits [] none (lowerList fsmCtx (FProg.lowerListD "sync" none fsmProg)) fsmEnvB
    = [1, 6, 0, 0, 0, 1] := by decide
example : (fsmSpecStep fsmCtx fsmProg "sync" fsmEnvB fsmEnvB (fsmConf (some "B"))).2 2 = some "A" := by decide
example : (fsmSpecStep fsmCtx fsmProg "sync" fsmEnvB fsmEnvB (fsmConf (some "B"))).1 = [1, 6, 2, 0, 0, 1] := by decide
/-- the `m.next` under the If: from `A` with `go = 1` to `C` (code 1), with `go = 0` stay -/
example : syncProcess fsmCtx fsmInits [] none (lowerList fsmCtx (FProg.lowerListD "sync" none fsmProg)) [1, 5, 0, 1, 0, 0]
    = [1, 5, 1, 1, 0, 0] := by decide
example : (fsmSpecStep fsmCtx fsmProg "sync" [1, 5, 0, 1, 0, 0] [1, 5, 0, 1, 0, 0] (fsmConf (some "A"))).2 2 = some "C" := by decide
example : (fsmSpecStep fsmCtx fsmProg "sync" [0, 5, 0, 1, 0, 0] [0, 5, 0, 1, 0, 0] (fsmConf (some "A"))).2 2 = some "A" := by decide
example : Prog.listWrites fsmCtx fsmEnvB (FProg.lowerListD "comb" none fsmProg) = [] :=
  (fsm_active_writes fsmCtx fsmEnvB "comb" fsmProg (by decide) (fsmConf (some "B")) (by unfold Agrees; decide)).trans rfl

/-- `fsm_ongoing`: the hypotheses hold for the example (distinct one-bit signals 3, 4, 5) -/
example : (applyWrites fsmCtx fsmEnvB
      (Prog.listWrites fsmCtx fsmEnvB (fsmOngoing fsmHdr (encOrder fsmEntries) (encOrder fsmEntries))) fsmEnvB).val 5 = 1 :=
  (fsm_ongoing fsmCtx fsmEnvB (fsmConf (some "B")) fsmHdr fsmEntries (by decide)).2.2 (by decide) (by decide)
    fsmEnvB (envN_of_ok _ _ rfl fsmEnvB_ok) "B" (by decide)
example : (Prog.listWrites fsmCtx fsmEnvB (FProg.listOngoing fsmProg)).map (·.2) = [0, 0, 1] := by decide

/-- `fsm_initial` / `fsm_reset_initial`: from state `B`, with an active `m.next = A` … the reset edge gives code 0 = `A` -/
example : decode (encOrder fsmEntries) (fsmInitCode fsmHdr fsmEntries : Int) = some "A" :=
  fsm_initial fsmHdr fsmEntries (by decide) (by decide)
example : (syncProcess fsmCtx fsmInits [] (some 1) (lowerList fsmCtx (FProg.lowerListD "sync" none fsmProg)) [1, 5, 1, 0, 1, 0]).val 2 = 0 :=
  (fsm_reset_initial fsmCtx [1, 5, 1, 0, 1, 0] (envN_of_ok _ _ rfl (by
      intro i
      match i with
      | 0 => decide
      | 1 => decide
      | 2 => decide
      | 3 => decide
      | 4 => decide
      | 5 => decide
      | n + 6 => simp [Ctx.shape, Env.val, fsmCtx, Shape.WF, Shape.contains, Shape.lo, Shape.hi, Shape.u]))
    fsmInits (envN_of_ok _ _ rfl (by
      intro i
      match i with
      | 0 => decide
      | 1 => decide
      | 2 => decide
      | 3 => decide
      | 4 => decide
      | 5 => decide
      | n + 6 => simp [Ctx.shape, Env.val, fsmCtx, fsmInits, Shape.WF, Shape.contains, Shape.lo, Shape.hi, Shape.u]))
    [] 1 (by decide) _ (by rw [fsmTargets]; decide) fsmHdr fsmEntries (by decide) (by rw [fsmTargets]; simp [fsmHdr])
    (by decide) (by decide) (by decide) (by decide)).1
/-- an FSM with an explicit `init=` that is neither the first state defined nor code 0 -/
example : fsmInitCode ⟨2, "sync", some "B", []⟩ fsmEntries = 2 ∧ specInit ⟨2, "sync", some "B", []⟩ fsmEntries = some "B" := by decide

/-- `fsm_unused_code`: register = 3 (no state's code): nothing happens, although `go = 1` -/
example : progStep fsmCtx (FProg.lowerD "sync" none (.fsm fsmHdr fsmEntries)) [1, 5, 3, 0, 0, 0] [1, 5, 3, 0, 0, 0] = [1, 5, 3, 0, 0, 0] :=
  (fsm_unused_code fsmCtx [1, 5, 3, 0, 0, 0] (envN_of_ok _ _ rfl (by
      intro i
      match i with
      | 0 => decide
      | 1 => decide
      | 2 => decide
      | 3 => decide
      | 4 => decide
      | 5 => decide
      | n + 6 => simp [Ctx.shape, Env.val, fsmCtx, Shape.WF, Shape.contains, Shape.lo, Shape.hi, Shape.u]))
    "sync" none fsmHdr fsmEntries (Or.inr (by decide))).2.2
example : syncProcess fsmCtx fsmInits [] none (lowerList fsmCtx (FProg.lowerListD "sync" none fsmProg)) [1, 5, 3, 0, 0, 0]
    = [1, 5, 3, 0, 0, 0] := by decide

/-- a nested FSM whose `m.next` names a state both FSMs have: it moves the inner FSM only -/
def nestedProg : List FProg :=
  [.fsm ⟨0, "sync", none, []⟩
    [("A", some [.fsm ⟨1, "sync", none, []⟩ [("B", some [.next "A"]), ("A", some [])], .next "B"]),
     ("B", some [])]]
example : ((FProg.listEvents [⟨1, false⟩, ⟨1, false⟩] [0, 0] (fun _ => some "A") "sync" none nestedProg).map
    Ev.toWrite).map (·.2) = [1] := by decide
example : (FProg.listEvents [⟨1, false⟩, ⟨1, false⟩] [0, 0] (fun r => if r = 0 then some "A" else some "B") "sync" none
    nestedProg).map Ev.toWrite = [(.sig 1, 1), (.sig 0, 1)] := rfl


end Amaranth.C02
