import AmaranthVerif.Proofs.DomainQuiet
import AmaranthVerif.Spec.DomainSpec
import AmaranthVerif.Proofs.ProcessSpec
import AmaranthVerif.Proofs.ResetSpec
import AmaranthVerif.Proofs.DomainRefineComb
import AmaranthVerif.Proofs.DomainRenameMap

/-!
# C03 — clock domains, resets and control inserters behave as specified

Model: `Model/Domain.lean` (one process per fragment and domain; `eventStep` = one `step_design()`
after a set of simultaneous changes; the wrappers as transformations of process bodies).
Spec: `Spec/DomainSpec.lean` (the property's sentences; compared with the implementation and the
model on every run by the correspondence check).

Proved here for all designs, states and events:
* `only_own_edge` — a synchronously driven signal changes only when its own domain's clock has its
  active edge, or its domain's asynchronous reset rises; edges and resets of other domains, input
  changes and control changes never touch it (in the synchronous phase of the event);
* `quiet_event` — an event with no active edge and no reset rise in any domain leaves every register as it is;
* `enable_inserter_exec` / `enable_inserters_and` — an inserted enable runs the wrapped statements
  exactly when its control is 1, and is the identity on the pending state otherwise; nested enables combine by AND;
* `reset_inserter_exec` / `reset_inserter_bits` / `reset_inserters_or` — an inserted reset runs the wrapped statements
  and then, exactly when its control is 1, the reset assignments, which load the initial value into exactly the driven
  bits of the non-reset-less signals the wrapped statements drive (`resetStmts_bits`: the chunks of
  `LHSMaskCollector` cover exactly the mask); two inserted resets act when either control is 1;
* `async_reset_loads_init` — a rising asynchronous reset loads the initial value into exactly those bits;
* `enable_freezes_inner_reset` — a reset inserted inside an enable is frozen with it;
* `sync_reset_loads_init` — with the domain reset asserted at the active edge every resettable driven
  signal gets its initial value as its pending value; reset-less signals keep the assigned one;
* `async_reset_only_resettable` — a rising asynchronous reset never touches reset-less signals or
  signals the domain does not drive;
* `renamer_moves_only_domain` — `DomainRenamer` changes the domain key and nothing else;
* `rename_map_is_simultaneous` / `rename_map_model_eq` — a `DomainRenamer` whose map has several entries (swaps, chains,
  rotations: some target is also a source) moves every domain to the target named *for it*, all entries acting at once
  (`simulRename`); the Spec writes such a map as a stack of one-entry renamings through private names
  (`renameMapWrappers`, Spec/DomainRenameMap.lean) and that stack, anywhere in a wrapper stack, acts as the
  simultaneous renaming; the Model's single dictionary lookup (`domainRenamerMap`, Model/DomainRename.lean — what
  `map_statements` / `map_memory_ports` do) is the same process. Every `*_model_eq_spec` theorem below therefore
  covers wrapper stacks with renaming maps.

* `edge_writes` — at an active edge of its domain with the reset (if any) not asserted, a synchronous process
  changes the state by exactly its active assignments, the last one winning per bit; every other bit of every
  signal — also the undriven bits of a partially driven signal, and signals of other domains — keeps its value.

* `sync_phase_writes` — for a whole event (any number of coinciding clock edges) in a design with one driver per bit:
  the synchronous phase changes the state by exactly the active assignments of the processes whose clock has its
  active edge, all read in the same pre-commit state;
* `edge_reset` — at an active edge with the domain's reset asserted, every driven bit of every resettable signal
  the process drives takes its initial value, bit for bit; reset-less signals take the assigned values as without
  reset; undriven bits keep theirs.

**Model = Spec (refinement), for all designs, states and events.** The theorems above are about the Model — the
statement rewriting `_xfrm.py` performs, then one run of the compiled process and its commit. The Spec
(`Spec/DomainSpec.lean`, `specEvent`) reads the property's sentences directly: wrappers act semantically, inside out,
per driven bit. `SpecDesign.model` is the Model's reading of a Spec design (per leaf: lower the program, apply
`resetInserter` / `enableInserter` / `domainRenamer` in stack order — what the driver evaluates as `model=`):
* `leaf_final_domain` — the Model's process of a leaf sits in the domain the Spec computes (`Leaf.finalDom`);
* `leaf_edge_model_eq_spec` — active clock edge, any wrapper stack, any domain-reset value: running the rewritten
  statements and committing through the static masks is `mergeDriven … (Leaf.edgeValue D l cur') …` followed by the
  domain-reset merge, on every signal;
* `leaf_arst_model_eq_spec` — a rising asynchronous reset without an active edge;
* `leaf_event_model_eq_spec` — one leaf at any event (edge, reset rise, both, neither);
* `sync_phase_model_eq_spec` — the whole synchronous phase of `specEvent`, any number of coinciding edges (no
  one-driver-per-bit hypothesis: both sides merge a leaf's driven bits into what the leaves before it left);
* `comb_leaf_model_eq_spec`, `event_model_eq_spec` — combinational leaves, settling, and the whole event:
  `eventStep D.model cur changes = specEvent D cur changes`.
Hypotheses (`LeafOk`, `Proofs/DomainRefine.lean`): the program is what the DSL accepts (`Prog.listOk`); targets are
assignable (`twf`) and no slice / part-select operand addresses a signal bit twice (`noAlias`, forced by finding F9 as
in C02); inserter controls are well-formed expressions (no width-1 requirement: `Switch(ctl){1: …}` selects iff the
value is the integer 1, `ctl_is_one`); states within shapes (`EnvN`). The proof found one genuine difference between
the code and the first, purely positional reading of "driven bit": `LHSMaskCollector` marks the whole operand of a
`Part` even when an enclosing slice/concatenation window can never reach it. The Spec's `drivenP` (Spec/Prog.lean) has
that clause since; `part_under_window_witness` is the design on which the positional reading differed from the real
simulator (kept as a regression example; `masks_are_driven_bits` is the exact characterisation of the masks).

`sync_no_reset`, `sync_reset_loads_init`, `async_reset_only_resettable`, `renamer_moves_only_domain` and
`inserter_other_domain` only unfold the Model's definitions: they record its shape, the content is in the `*_bits`,
`edge_*`, `only_own_edge`, inserter and `*_model_eq_spec` theorems.
-/

namespace Amaranth.C03
open Amaranth

/-- A signal is left alone by the synchronous phase of an event unless a process that drives it
belongs to a domain whose clock has its active edge, or whose asynchronous reset rises, in this event. -/
theorem only_own_edge (D : Design) (cur cur' : Env) (j : Nat) (hj : j < D.ctx.length)
    (h : ∀ p ∈ D.procs, j ∈ stmtSigs p.body → ∀ d, p.dom = some d →
      (D.doms.getD d default).clkFired cur cur' = false ∧ (D.doms.getD d default).rstFired cur cur' = false) :
    (syncPhase D cur cur').val j = cur'.val j :=
  foldl_procs_val D cur cur' j hj D.procs cur' h

/-- No active edge and no asynchronous reset rise anywhere: no register changes. -/
theorem quiet_event (D : Design) (cur cur' : Env)
    (h : ∀ p ∈ D.procs, ∀ d, p.dom = some d →
      (D.doms.getD d default).clkFired cur cur' = false ∧ (D.doms.getD d default).rstFired cur cur' = false) :
    syncPhase D cur cur' = cur' := by
  unfold syncPhase
  have : ∀ (procs : List Proc) (acc : Env), (∀ p ∈ procs, p ∈ D.procs) →
      procs.foldl (fun acc p => procAtEvent D cur cur' p acc) acc = acc := by
    intro procs
    induction procs with
    | nil => intro acc _; rfl
    | cons p ps ih =>
      intro acc hin
      simp only [List.foldl_cons]
      rw [procAtEvent_quiet D cur cur' p acc (h p (hin p (List.mem_cons_self ..)))]
      exact ih acc (fun q hq => hin q (List.mem_cons_of_mem _ hq))
  exact this D.procs cur' (fun _ hp => hp)

/-- the control of an inserter "is 1" -/
def ctlOn (ctx : Ctx) (cur : Env) (ctl : Expr) : Bool :=
  decide ((shapeOf ctx ctl).contains 1) && decide (denote ctx cur ctl = 1)

/-- `EnableInserter`: the wrapped statements run iff the control is 1. -/
theorem enable_inserter_exec (D : Design) (cur : Env) (hok : EnvOk D.ctx cur) (dom : Nat) (ctl : Expr)
    (hc : ctl.wf D.ctx = true) (p : Proc) (hp : p.dom = some dom) (nxt : Env) :
    execRtl D.ctx cur (enableInserter D dom ctl p).body nxt =
      if ctlOn D.ctx cur ctl then execRtl D.ctx cur p.body nxt else nxt := by
  unfold enableInserter
  simp only [hp, beq_self_eq_true, if_true, execRtl]
  rw [onePattern_matches D.ctx cur hok ctl hc]; rfl

/-- processes of other domains are not touched by an inserter -/
theorem inserter_other_domain (D : Design) (dom : Nat) (ctl : Expr) (p : Proc) (hp : p.dom ≠ some dom) :
    enableInserter D dom ctl p = p ∧ resetInserter D dom ctl p = p := by
  unfold enableInserter resetInserter
  have : (p.dom == some dom) = false := by simpa using hp
  simp [this]

/-- Several enable inserters combine by AND. -/
theorem enable_inserters_and (D : Design) (cur : Env) (hok : EnvOk D.ctx cur) (dom : Nat) (a b : Expr)
    (ha : a.wf D.ctx = true) (hb : b.wf D.ctx = true) (p : Proc) (hp : p.dom = some dom) (nxt : Env) :
    execRtl D.ctx cur (enableInserter D dom a (enableInserter D dom b p)).body nxt =
      if ctlOn D.ctx cur a && ctlOn D.ctx cur b then execRtl D.ctx cur p.body nxt else nxt := by
  have hp' : (enableInserter D dom b p).dom = some dom := by
    unfold enableInserter; simp [hp]
  rw [enable_inserter_exec D cur hok dom a ha _ hp', enable_inserter_exec D cur hok dom b hb p hp]
  cases ctlOn D.ctx cur a <;> cases ctlOn D.ctx cur b <;> rfl

/-- `ResetInserter`: the wrapped statements run, then — iff the control is 1 — the reset assignments
(one per driven chunk of every non-reset-less signal the statements drive). -/
theorem reset_inserter_exec (D : Design) (cur : Env) (hok : EnvOk D.ctx cur) (dom : Nat) (ctl : Expr)
    (hc : ctl.wf D.ctx = true) (p : Proc) (hp : p.dom = some dom) (nxt : Env) :
    execRtl D.ctx cur (resetInserter D dom ctl p).body nxt =
      let n1 := execRtl D.ctx cur p.body nxt
      if ctlOn D.ctx cur ctl then execRtl D.ctx cur (resetStmts D.ctx D.inits D.resetLess p.body) n1 else n1 := by
  unfold resetInserter
  simp only [hp, beq_self_eq_true, if_true, execRtl]
  rw [onePattern_matches D.ctx cur hok ctl hc]; rfl

/-- An enable wrapped around a reset inserter freezes the inserted reset too. -/
theorem enable_freezes_inner_reset (D : Design) (cur : Env) (hok : EnvOk D.ctx cur) (dom : Nat) (en rst : Expr)
    (he : en.wf D.ctx = true) (p : Proc) (hp : p.dom = some dom) (nxt : Env)
    (hoff : ctlOn D.ctx cur en = false) :
    execRtl D.ctx cur (enableInserter D dom en (resetInserter D dom rst p)).body nxt = nxt := by
  have hp' : (resetInserter D dom rst p).dom = some dom := by
    unfold resetInserter; simp [hp]
  rw [enable_inserter_exec D cur hok dom en he _ hp', hoff]; rfl

/-- With the domain's reset asserted at the active edge, the pending value of every resettable
signal the process drives is its initial value; reset-less and undriven signals keep what the
statements computed. -/
theorem sync_reset_loads_init (ctx : Ctx) (inits : Env) (rl : List Bool) (r : Int) (hr : (pyAnd 1 r != 0) = true)
    (body : Stmt) (cur : Env) (i : Nat) (hi : i < ctx.length) :
    (syncNext ctx inits rl (some r) body cur).val i =
      if (stmtSigs body).contains i && !(rl.getD i false) then inits.val i
      else (execRtl ctx cur body cur).val i := by
  unfold syncNext
  simp only [hr, if_true]
  exact val_map_range _ _ _ hi

/-- without an asserted reset the pending values are what the statements computed -/
theorem sync_no_reset (ctx : Ctx) (inits : Env) (rl : List Bool) (body : Stmt) (cur : Env) :
    syncNext ctx inits rl none body cur = execRtl ctx cur body cur := rfl

/-- the bits an inserted (or the domain's) reset loads: driven bits of resettable signals the body drives -/
def resetBit (D : Design) (body : Stmt) (i b : Nat) : Bool :=
  (stmtSigs body).contains i && !(D.resetLess.getD i false) &&
    ibit ((stmtMask D.ctx body (List.replicate D.ctx.length 0)).get i) b

/-- `ResetInserter`, bit by bit: after the wrapped statements, exactly when the control is 1, every driven bit of
every non-reset-less signal the wrapped statements drive takes its initial value; no other bit changes. -/
theorem reset_inserter_bits (D : Design) (cur : Env) (hok : EnvOk D.ctx cur) (hI : EnvN D.ctx D.inits) (dom : Nat)
    (ctl : Expr) (hc : ctl.wf D.ctx = true) (p : Proc) (hp : p.dom = some dom)
    (htw : ∀ e ∈ stmtTargets p.body, e.twf D.ctx = true) (nxt : Env)
    (hE : EnvN D.ctx (execRtl D.ctx cur p.body nxt)) (i b : Nat) (hi : i < D.ctx.length)
    (hb : b < (D.ctx.shape i).width) :
    bitAt (execRtl D.ctx cur (resetInserter D dom ctl p).body nxt) i b =
      if ctlOn D.ctx cur ctl && resetBit D p.body i b then bitAt D.inits i b
      else bitAt (execRtl D.ctx cur p.body nxt) i b := by
  rw [reset_inserter_exec D cur hok dom ctl hc p hp nxt]
  simp only
  cases hon : ctlOn D.ctx cur ctl with
  | false => simp
  | true =>
    simp only [if_true, Bool.true_and]
    exact (resetStmts_bits D.ctx cur hok D.inits hI D.resetLess p.body htw _ hE).2 i b hi hb

/-- **Several reset inserters combine by OR**: two nested `ResetInserter`s of one domain load the initial values
exactly when either control is 1 — into the same bits a single one would (the inserted reset assignments do not
change what the body drives: `reset_wrap_keeps_drive`). -/
theorem reset_inserters_or (D : Design) (cur : Env) (hok : EnvOk D.ctx cur) (hI : EnvN D.ctx D.inits) (dom : Nat)
    (a b' : Expr) (ha : a.wf D.ctx = true) (hb' : b'.wf D.ctx = true) (p : Proc) (hp : p.dom = some dom)
    (htw : ∀ e ∈ stmtTargets p.body, e.twf D.ctx = true) (nxt : Env)
    (hE : EnvN D.ctx (execRtl D.ctx cur p.body nxt)) (i b : Nat) (hi : i < D.ctx.length)
    (hb : b < (D.ctx.shape i).width) :
    bitAt (execRtl D.ctx cur (resetInserter D dom a (resetInserter D dom b' p)).body nxt) i b =
      if (ctlOn D.ctx cur a || ctlOn D.ctx cur b') && resetBit D p.body i b then bitAt D.inits i b
      else bitAt (execRtl D.ctx cur p.body nxt) i b := by
  have hp' : (resetInserter D dom b' p).dom = some dom := by unfold resetInserter; simp [hp]
  have hbody : (resetInserter D dom b' p).body =
      Stmt.seq p.body (.ite b' (onePattern D.ctx b') (resetStmts D.ctx D.inits D.resetLess p.body) .skip) := by
    unfold resetInserter; simp [hp]
  obtain ⟨k1, k2, k3⟩ := reset_wrap_keeps_drive D.ctx D.inits D.resetLess b' (onePattern D.ctx b') p.body htw
  have hrb : resetBit D (resetInserter D dom b' p).body i b = resetBit D p.body i b := by
    unfold resetBit; rw [hbody, k1, k2 i]
  -- the inner inserter leaves a state of the design's shapes
  have hE2 : EnvN D.ctx (execRtl D.ctx cur (resetInserter D dom b' p).body nxt) := by
    rw [reset_inserter_exec D cur hok dom b' hb' p hp nxt]
    simp only
    split
    · exact (resetStmts_bits D.ctx cur hok D.inits hI D.resetLess p.body htw _ hE).1
    · exact hE
  rw [reset_inserter_bits D cur hok hI dom a ha _ hp' (by rw [hbody]; exact k3) nxt hE2 i b hi hb, hrb,
      reset_inserter_bits D cur hok hI dom b' hb' p hp htw nxt hE i b hi hb]
  cases ctlOn D.ctx cur a <;> cases ctlOn D.ctx cur b' <;> cases resetBit D p.body i b <;> simp

/-- A rising asynchronous reset loads the initial value into every driven bit of every resettable signal the
domain's process drives (the positive half of `async_reset_only_resettable`), bit for bit. -/
theorem async_reset_loads_init (ctx : Ctx) (inits : Env) (hI : EnvN ctx inits) (rl : List Bool) (body : Stmt)
    (acc : Env) (hA : EnvN ctx acc) (i b : Nat) (hi : i < ctx.length) (hb : b < (ctx.shape i).width)
    (h : (stmtSigs body).contains i = true ∧ rl.getD i false = false) :
    bitAt (resetOnlyInto ctx inits rl body acc) i b =
      if ibit ((stmtMask ctx body (List.replicate ctx.length 0)).get i) b then bitAt inits i b else bitAt acc i b := by
  have hz : MaskOk ctx (List.replicate ctx.length 0) := by
    intro j; rw [replicate_get, Shape.contains_u]; exact ⟨Int.le_refl _, two_pow_pos' _⟩
  have htab := stmtMask_ok ctx body _ hz
  unfold resetOnlyInto bitAt
  simp only
  rw [val_map_range _ _ _ hi]
  simp only [h.1, h.2, Bool.not_false, Bool.and_self, if_true]
  exact (commitMask_bits (ctx.shape i) (hA.ok i hi).1 _ _ _ (hA.ok i hi).2 (hI.ok i hi).2 (htab i)).2 b hb

/-- At an active clock edge without reset, one synchronous process turns the state `acc` (what the processes before it
left; equal to the current values on the bits this process drives — one driver per bit, C06) into `acc` with its
active assignments applied, last one winning per bit. -/
theorem edge_writes (D : Design) (cur cur' : Env) (hok : EnvOk D.ctx cur') (p : Proc) (d : Nat) (hd : p.dom = some d)
    (hclk : (D.doms.getD d default).clkFired cur cur' = true) (hrf : (D.doms.getD d default).rstFired cur cur' = false)
    (hnr : ∀ r, (D.doms.getD d default).rst = some r → (pyAnd 1 (cur'.val r) != 0) = false)
    (acc : Env) (hC : EnvN D.ctx cur') (hA : EnvN D.ctx acc)
    (htg : ∀ e ∈ stmtTargets p.body, e.twf D.ctx = true ∧ e.noAlias D.ctx cur')
    (hown : ∀ i b, i < D.ctx.length → b < (D.ctx.shape i).width →
      ibit ((stmtMask D.ctx p.body (List.replicate D.ctx.length 0)).get i) b = true → bitAt acc i b = bitAt cur' i b) :
    procAtEvent D cur cur' p acc = applyWrites D.ctx cur' (stmtWrites D.ctx cur' p.body) acc := by
  unfold procAtEvent
  simp only [hd, hclk, hrf, if_true, Bool.false_eq_true, if_false]
  have hs : syncNext D.ctx D.inits D.resetLess (Option.map (fun r => cur'.val r) (D.doms.getD d default).rst) p.body cur' =
      execRtl D.ctx cur' p.body cur' := by
    unfold syncNext
    cases hr : (D.doms.getD d default).rst with
    | none => rfl
    | some r => simp only [Option.map_some, hnr r hr, Bool.false_eq_true, if_false]
  rw [hs]
  exact sync_process_effect D.ctx cur' hok p.body acc hC hA htg hown

/-- does this process run its statements at the event (active edge of its domain's clock)? -/
def fires (D : Design) (cur cur' : Env) (p : Proc) : Bool :=
  match p.dom with
  | some d => (D.doms.getD d default).clkFired cur cur'
  | none => false

/-- bit `b` of signal `i` is a bit this process commits -/
def drivesBit (D : Design) (p : Proc) (i b : Nat) : Bool :=
  ibit ((stmtMask D.ctx p.body (List.replicate D.ctx.length 0)).get i) b

/-- **The synchronous phase of a whole event.** In a design where no two processes commit the same bit (one driver per
bit: C06), at an event in which no reset is asserted or rises, the synchronous phase changes the state by exactly the
active assignments of the processes whose clock has its active edge — each read in the same pre-commit state `cur'` —
whatever the number of domains whose edges coincide; every other bit keeps its value. -/
theorem sync_phase_writes (D : Design) (cur cur' : Env) (hok : EnvOk D.ctx cur') (hC : EnvN D.ctx cur')
    (htg : ∀ p ∈ D.procs, ∀ e ∈ stmtTargets p.body, e.twf D.ctx = true ∧ e.noAlias D.ctx cur')
    (hdis : D.procs.Pairwise fun p q => ∀ i b, ¬ (drivesBit D p i b = true ∧ drivesBit D q i b = true))
    (hnr : ∀ p ∈ D.procs, ∀ d, p.dom = some d →
      (D.doms.getD d default).rstFired cur cur' = false ∧
      ∀ r, (D.doms.getD d default).rst = some r → (pyAnd 1 (cur'.val r) != 0) = false) :
    syncPhase D cur cur' =
      D.procs.foldl (fun acc p =>
        if fires D cur cur' p then applyWrites D.ctx cur' (stmtWrites D.ctx cur' p.body) acc else acc) cur' := by
  unfold syncPhase
  -- generalised over the processes still to run and the state reached so far
  suffices h : ∀ (ps : List Proc) (acc : Env), (∀ p ∈ ps, p ∈ D.procs) →
      (ps.Pairwise fun p q => ∀ i b, ¬ (drivesBit D p i b = true ∧ drivesBit D q i b = true)) →
      EnvN D.ctx acc →
      (∀ p ∈ ps, ∀ i b, i < D.ctx.length → b < (D.ctx.shape i).width → drivesBit D p i b = true →
        bitAt acc i b = bitAt cur' i b) →
      ps.foldl (fun acc p => procAtEvent D cur cur' p acc) acc =
        ps.foldl (fun acc p =>
          if fires D cur cur' p then applyWrites D.ctx cur' (stmtWrites D.ctx cur' p.body) acc else acc) acc by
    exact h D.procs cur' (fun _ hp => hp) hdis hC (fun _ _ _ _ _ _ _ => rfl)
  intro ps
  induction ps with
  | nil => intro acc _ _ _ _; rfl
  | cons p ps ih =>
    intro acc hin hpw hA hinv
    simp only [List.foldl_cons]
    have hp := hin p (List.mem_cons_self ..)
    have hrest : ∀ q ∈ ps, q ∈ D.procs := fun q hq => hin q (List.mem_cons_of_mem _ hq)
    rw [List.pairwise_cons] at hpw
    cases hd : p.dom with
    | none =>
      have e1 : procAtEvent D cur cur' p acc = acc := by unfold procAtEvent; simp [hd]
      have e2 : fires D cur cur' p = false := by unfold fires; simp [hd]
      rw [e1, e2]
      simp only [Bool.false_eq_true, if_false]
      exact ih acc hrest hpw.2 hA (fun q hq => hinv q (List.mem_cons_of_mem _ hq))
    | some d =>
      obtain ⟨hrf, hnr'⟩ := hnr p hp d hd
      cases hclk : (D.doms.getD d default).clkFired cur cur' with
      | false =>
        have e1 : procAtEvent D cur cur' p acc = acc := by
          unfold procAtEvent; simp only [hd, hclk, hrf, Bool.false_eq_true, if_false]
        have e2 : fires D cur cur' p = false := by unfold fires; simp only [hd, hclk]
        rw [e1, e2]
        simp only [Bool.false_eq_true, if_false]
        exact ih acc hrest hpw.2 hA (fun q hq => hinv q (List.mem_cons_of_mem _ hq))
      | true =>
        have e2 : fires D cur cur' p = true := by unfold fires; simp only [hd, hclk]
        have hown := hinv p (List.mem_cons_self ..)
        have e1 := edge_writes D cur cur' hok p d hd hclk hrf hnr' acc hC hA (htg p hp) hown
        rw [e1, e2]
        simp only [if_true]
        -- the new state: of the design's shapes, and unchanged outside this process's bits
        obtain ⟨hN, hbits⟩ := process_bits D.ctx cur' hok p.body cur' acc hC hA (htg p hp)
        have hs : syncNext D.ctx D.inits D.resetLess none p.body cur' = execRtl D.ctx cur' p.body cur' := rfl
        rw [sync_process_effect D.ctx cur' hok p.body acc hC hA (htg p hp) hown] at hN hbits
        apply ih _ hrest hpw.2 hN
        intro q hq i b hi hb hqb
        rw [hbits i b hi hb]
        have hnot : drivesBit D p i b = false := by
          cases hpb : drivesBit D p i b with
          | false => rfl
          | true => exact absurd ⟨hpb, hqb⟩ (hpw.1 q hq i b)
        have hwn : wbit D.ctx cur' (stmtWrites D.ctx cur' p.body) i b = none := by
          cases hw : wbit D.ctx cur' (stmtWrites D.ctx cur' p.body) i b with
          | none => rfl
          | some x =>
            have := wbit_masked D.ctx cur' p.body (fun e he => (htg p hp e he).1) (List.replicate D.ctx.length 0)
              (by simp) i b _ (stmtWrites_targets D.ctx cur' p.body) x hw
            unfold drivesBit at hnot
            rw [this] at hnot; cases hnot
        rw [hwn]
        unfold drivesBit at hnot
        simp only [hnot, Bool.false_eq_true, if_false]
        exact hinv q (List.mem_cons_of_mem _ hq) i b hi hb hqb

/-- At an active edge with the domain's reset asserted: the driven (masked) bits of a resettable signal the process
drives take the initial value; anything else is as at an edge without reset. -/
theorem edge_reset (ctx : Ctx) (cur : Env) (hok : EnvOk ctx cur) (inits : Env) (hI : EnvN ctx inits) (rl : List Bool)
    (r : Int) (hr : (pyAnd 1 r != 0) = true) (body : Stmt) (acc : Env) (hC : EnvN ctx cur) (hA : EnvN ctx acc)
    (htg : ∀ e ∈ stmtTargets body, e.twf ctx = true ∧ e.noAlias ctx cur)
    (i b : Nat) (hi : i < ctx.length) (hb : b < (ctx.shape i).width) :
    bitAt (commitInto ctx body (syncNext ctx inits rl (some r) body cur) acc) i b =
      if (stmtSigs body).contains i && !(rl.getD i false) then
        (if ibit ((stmtMask ctx body (List.replicate ctx.length 0)).get i) b then bitAt inits i b else bitAt acc i b)
      else bitAt (commitInto ctx body (execRtl ctx cur body cur) acc) i b :=
  sync_reset_bits ctx cur hok inits hI rl r hr body acc hC hA htg i b hi hb

/-- A rising asynchronous reset never touches reset-less signals, nor signals the domain does not drive. -/
theorem async_reset_only_resettable (ctx : Ctx) (inits : Env) (rl : List Bool) (body : Stmt) (acc : Env) (i : Nat)
    (hi : i < ctx.length) (h : (stmtSigs body).contains i = false ∨ rl.getD i false = true) :
    (resetOnlyInto ctx inits rl body acc).val i = acc.val i := by
  unfold resetOnlyInto
  simp only
  rw [val_map_range _ _ _ hi]
  rcases h with h | h
  · rw [h]; rfl
  · rw [h]; simp only [Bool.not_true, Bool.and_false]; rfl

/-- `DomainRenamer` moves the logic to the target domain and changes nothing else. -/
theorem renamer_moves_only_domain (src dst : Nat) (p : Proc) :
    (domainRenamer src dst p).body = p.body ∧
    (domainRenamer src dst p).dom = (if p.dom = some src then some dst else p.dom) := by
  unfold domainRenamer
  by_cases h : p.dom = some src <;> simp [h]

/-- **Renaming several domains at once.** A renaming map `m` (any entries: swaps, chains, rotations) written into a
wrapper stack as `renameMapWrappers fresh m`, after any wrappers `l.wrappers` and before any wrappers `post`, moves the
logic from the domain it had reached to `simulRename m` of that domain — the target named for exactly that domain, all
entries acting at once — and the later wrappers act from there. `fresh`: a bound above every domain of the design. -/
theorem rename_map_is_simultaneous (fresh : Nat) (m : List (Nat × Nat)) (hm : ∀ p ∈ m, p.1 < fresh ∧ p.2 < fresh)
    (l : Leaf) (hd : ∀ d, l.finalDom = some d → d < fresh) (post : List Wrapper) :
    ({ l with wrappers := l.wrappers ++ renameMapWrappers fresh m ++ post } : Leaf).finalDom =
      ({ dom := l.finalDom.map (simulRename m), prog := l.prog, wrappers := post } : Leaf).finalDom := by
  simp only [finalDom_eq_fold, List.foldl_append]
  rw [finalDom_eq_fold] at hd
  cases h : l.wrappers.foldl renStep l.dom with
  | none => rw [renStep_none]; rfl
  | some d => rw [expansion_fold fresh m fresh (Nat.le_refl _) hm d (hd d h)]; rfl

/-- The Model's `DomainRenamer(map)` — one dictionary lookup of the process' domain key, as `map_statements` and
`map_memory_ports` do it — is what the Model's one-entry renamers do along the Spec's stack for that map. -/
theorem rename_map_model_eq (B : Design) (fresh : Nat) (m : List (Nat × Nat)) (hm : ∀ p ∈ m, p.1 < fresh ∧ p.2 < fresh)
    (p : Proc) (hd : ∀ d, p.dom = some d → d < fresh) :
    (renameMapWrappers fresh m).foldl (applyWrapper B) p = domainRenamerMap m p := by
  rw [rename_fold_model]
  unfold domainRenamerMap
  cases h : p.dom with
  | none => simp only [renStep_none]; cases p; simp_all
  | some d =>
    simp only
    rw [expansion_fold fresh m fresh (Nat.le_refl _) hm d (hd d h), dictGet_eq_simulRename]

/-! ### Non-vacuity -/

-- a swap, a chain listed source-first and a rotation: every domain goes to the target named for it
example : (List.range 3).map (simulRename [(0, 1), (1, 0)]) = [1, 0, 2] := by decide
example : (List.range 3).map (simulRename [(0, 1), (1, 2)]) = [1, 2, 2] := by decide
example : (List.range 3).map (simulRename [(0, 1), (1, 2), (2, 0)]) = [1, 2, 0] := by decide
-- the one-entry renamings of the map applied one after the other *without* private names would not do that:
example : [Wrapper.rename 0 1, Wrapper.rename 1 0].foldl renStep (some 0) = some 0 := by decide
example : (renameMapWrappers 3 [(0, 1), (1, 0)]).foldl renStep (some 0) = some 1 := by decide
example : (domainRenamerMap [(0, 1), (1, 2)] { dom := some 0, body := .skip }).dom = some 1 := by decide

def exBase : Design :=
  { ctx := [⟨1, false⟩, ⟨1, false⟩, ⟨3, false⟩, ⟨1, false⟩],     -- clk, en, counter, other clk
    inits := [0, 0, 5, 0], resetLess := [false, false, false, false],
    doms := [{ clk := 0 }, { clk := 3 }], procs := [] }
def exD : Design :=
  { exBase with procs := [enableInserter exBase 0 (.sig 1)
      { dom := some 0, body := .assign (.sig 2) (.op2 .add (.sig 2) (.const 1 ⟨1, false⟩)) }] }

-- the other domain's clock rises: the counter is untouched; its own clock rises with enable = 1: it counts
example : (syncPhase exD [0, 1, 5, 0] [0, 1, 5, 1]) = [0, 1, 5, 1] := by decide
example : (syncPhase exD [0, 1, 5, 0] [1, 1, 5, 0]) = [1, 1, 6, 0] := by decide
example : (syncPhase exD [0, 0, 5, 0] [1, 0, 5, 0]) = [1, 0, 5, 0] := by decide

/-- a process that drives only bits 0..1 of the 3-bit counter: the hypotheses of `reset_inserter_bits`,
`reset_inserters_or`, `edge_writes` and `edge_reset` hold for it, and two nested inserted resets load exactly those
two bits when either control is 1 -/
def exPart : Proc := { dom := some 0, body := .assign (.slice (.sig 2) 0 2) (.const 3 ⟨2, false⟩) }
example : (∀ e ∈ stmtTargets exPart.body, e.twf exBase.ctx = true) := by decide
example : resetBit exBase exPart.body 2 0 = true ∧ resetBit exBase exPart.body 2 1 = true ∧
    resetBit exBase exPart.body 2 2 = false := by decide
example : ctlOn exBase.ctx [0, 1, 7, 0] (.sig 1) = true ∧ ctlOn exBase.ctx [0, 1, 7, 0] (.sig 3) = false := by decide
example : execRtl exBase.ctx [0, 1, 7, 0] (resetInserter exBase 0 (.sig 3) (resetInserter exBase 0 (.sig 1) exPart)).body
    [0, 1, 7, 0] = [0, 1, 5, 0] := by decide     -- bits 0..1 from init 5 = 0b101, bit 2 untouched (was 1)
example : execRtl exBase.ctx [0, 0, 6, 0] (resetInserter exBase 0 (.sig 3) (resetInserter exBase 0 (.sig 1) exPart)).body
    [0, 0, 6, 0] = [0, 0, 7, 0] := by decide     -- neither control is 1: the assignment only
example : resetOnlyInto exBase.ctx exBase.inits exBase.resetLess exPart.body [0, 0, 2, 0] = [0, 0, 1, 0] := by decide

/-- two processes of two domains driving different signals; both clocks rise in one event: `sync_phase_writes` applies
(one driver per bit by `decide`) and the phase is the two counters' assignments -/
def exTwo : Design :=
  { ctx := [⟨1, false⟩, ⟨1, false⟩, ⟨3, false⟩, ⟨2, false⟩], inits := [0, 0, 5, 1], resetLess := [false, false, false, false],
    doms := [{ clk := 0 }, { clk := 1 }],
    procs := [{ dom := some 0, body := .assign (.sig 2) (.op2 .add (.sig 2) (.const 1 ⟨1, false⟩)) },
              { dom := some 1, body := .assign (.sig 3) (.sig 2) }] }
example : (List.range 4).all (fun i => (List.range 3).all fun b =>
    !(drivesBit exTwo (exTwo.procs.getD 0 default) i b && drivesBit exTwo (exTwo.procs.getD 1 default) i b)) = true := by decide
example : syncPhase exTwo [0, 0, 5, 1] [1, 1, 5, 1] = [1, 1, 6, 1] := by decide   -- s3 := s2 reads the pre-commit 5 → 5 % 4 = 1
example : exTwo.procs.foldl (fun acc p => if fires exTwo [0, 0, 5, 1] [1, 1, 5, 1] p then
    applyWrites exTwo.ctx [1, 1, 5, 1] (stmtWrites exTwo.ctx [1, 1, 5, 1] p.body) acc else acc) [1, 1, 5, 1] = [1, 1, 6, 1] := by decide

/-! ### Refinement: the Model (statement rewriting, one process run, commit through masks) is the Spec (wrappers read
semantically, inside out, per driven bit) -/

/-- `specEvent` is: apply the changes, `specSyncPhase` (the fold of `specLeafSync` over the leaves), then the
combinational leaves settle — the names used below are the pieces of `specEvent` itself. -/
theorem spec_event_pieces (D : SpecDesign) (cur : Env) (changes : List (Nat × Int)) :
    specEvent D cur changes =
      specEvent.settle (specCombOnce D) (D.leaves.length + 2)
        (specCombOnce D (specSyncPhase D cur (applyChanges cur changes))) :=
  specEvent_eq D cur changes

/-- The Model's process of a leaf ends up in the domain the Spec computes from the renames of the wrapper stack. -/
theorem leaf_final_domain (D : SpecDesign) (l : Leaf) (cur' : Env) (hC : EnvN D.ctx cur') (hI : EnvN D.ctx D.inits)
    (hl : LeafOk D cur' l) : (leafProc D l).dom = l.finalDom :=
  (leaf_inv D l cur' hC.toOk hC hI hl).1

/-- **One leaf at an active clock edge: Model = Spec.** For every leaf — a program in a synchronous domain under any
stack of reset inserters, enable inserters (on any domains, with any control expressions) and renames — the Model's
treatment (lower the program, apply the inserter rewritings of `_xfrm.py` in stack order, run the resulting process on
the committed values `cur'` with the domain's reset value `rst`, commit into `acc` through the static masks) produces on
every signal exactly the Spec's value: `Leaf.edgeValue` (the assigned values, then every wrapper inside out, per driven
bit), then the domain's own reset, merged into `acc` on the driven bits. -/
theorem leaf_edge_model_eq_spec (D : SpecDesign) (l : Leaf) (cur' acc : Env) (rst : Option Int)
    (hC : EnvN D.ctx cur') (hI : EnvN D.ctx D.inits) (hA : EnvN D.ctx acc)
    (hprog : Prog.listOk D.ctx l.prog = true)
    (htg : ∀ e ∈ Prog.listTargets l.prog, e.twf D.ctx = true ∧ e.noAlias D.ctx cur')
    (hctl : ∀ w ∈ l.wrappers, w.ctlWf D.ctx = true) :
    commitInto D.ctx (leafProc D l).body (syncNext D.ctx D.inits D.resetLess rst (leafProc D l).body cur') acc =
      mergeDriven D.ctx l.prog (fun _ => true)
        (if rst.getD 0 % 2 = 1 then
          mergeDriven D.ctx l.prog (fun i => !(D.resetLess.getD i false)) D.inits (l.edgeValue D cur')
         else l.edgeValue D cur') acc :=
  leaf_edge_refines D l cur' hC.toOk hC hI ⟨hprog, htg, hctl⟩ rst acc hA

/-- **One leaf when an asynchronous reset rises without an active edge: Model = Spec.** The reset-only process of the
rewritten statements loads the initial values into exactly the bits the Spec names: the driven bits of the
non-reset-less signals (the inserted statements do not change what the leaf drives). -/
theorem leaf_arst_model_eq_spec (D : SpecDesign) (l : Leaf) (cur' acc : Env)
    (hC : EnvN D.ctx cur') (hI : EnvN D.ctx D.inits) (hA : EnvN D.ctx acc)
    (hprog : Prog.listOk D.ctx l.prog = true)
    (htg : ∀ e ∈ Prog.listTargets l.prog, e.twf D.ctx = true ∧ e.noAlias D.ctx cur')
    (hctl : ∀ w ∈ l.wrappers, w.ctlWf D.ctx = true) :
    resetOnlyInto D.ctx D.inits D.resetLess (leafProc D l).body acc =
      mergeDriven D.ctx l.prog (fun i => !(D.resetLess.getD i false)) D.inits acc :=
  leaf_arst_refines D l cur' hC.toOk hC hI ⟨hprog, htg, hctl⟩ acc hA

/-- **One leaf at any event** (active edge, rising asynchronous reset, both at once, or neither): what the Model's
process does to `acc` is what the leaf contributes to the synchronous phase of `specEvent`. -/
theorem leaf_event_model_eq_spec (D : SpecDesign) (l : Leaf) (cur cur' acc : Env)
    (hC : EnvN D.ctx cur') (hI : EnvN D.ctx D.inits) (hA : EnvN D.ctx acc) (hl : LeafOk D cur' l) :
    procAtEvent D.model cur cur' (leafProc D l) acc = specLeafSync D cur cur' acc l :=
  (leaf_event_refines D l cur' hC.toOk hC hI hl cur acc hA).1

/-- **The synchronous phase of a whole event: Model = Spec**, for every design with well-formed leaves, every state and
every set of simultaneous changes (any number of coinciding clock edges and reset rises, several leaves driving
different bits of one signal from different domains included). -/
theorem sync_phase_model_eq_spec (D : SpecDesign) (cur cur' : Env) (hC : EnvN D.ctx cur') (hI : EnvN D.ctx D.inits)
    (hl : ∀ l ∈ D.leaves, LeafOk D cur' l) :
    syncPhase D.model cur cur' = specSyncPhase D cur cur' :=
  sync_phase_refines D cur cur' hC.toOk hC hI hl

/-- **A combinational leaf: Model = Spec** (wrappers never touch combinational logic). -/
theorem comb_leaf_model_eq_spec (D : SpecDesign) (l : Leaf) (snap acc : Env) (hC : EnvN D.ctx snap)
    (hI : EnvN D.ctx D.inits) (hA : EnvN D.ctx acc) (hl : LeafOk D snap l) (hfd : l.finalDom = none) :
    commitInto D.ctx (leafProc D l).body (combNext D.ctx D.inits (leafProc D l).body snap) acc =
      mergeDriven D.ctx l.prog (fun _ => true) (progStep D.ctx l.prog snap D.inits) acc :=
  leaf_comb_refines D l snap hC hI hl hfd acc hA

/-- **A whole event: Model = Spec.** `eventStep` of the Model's reading of the design — commit the changes, every woken
synchronous process once, reset-only processes, then the combinational processes until nothing changes — is
`specEvent`. The leaves must be well-formed in every state of the design's shapes (settling passes through states the
theorem does not name). -/
theorem event_model_eq_spec (D : SpecDesign) (cur : Env) (changes : List (Nat × Int))
    (hC : EnvN D.ctx (applyChanges cur changes)) (hI : EnvN D.ctx D.inits)
    (hl : ∀ e, EnvN D.ctx e → ∀ l ∈ D.leaves, LeafOk D e l) :
    eventStep D.model cur changes = specEvent D cur changes :=
  event_refines D cur changes hC hI hl

/-- The static commit masks of a lowered program are the bits the program drives in the code's sense (`progDrivesP`,
`Spec/DrivenPart.lean`): some position of a target can be the bit, or the bit lies in the operand of a part-select that
occurs in a target. -/
theorem masks_are_driven_bits (ctx : Ctx) (prog : List Prog) (htw : ∀ e ∈ Prog.listTargets prog, e.twf ctx = true)
    (i b : Nat) : ibit ((progMask ctx prog).get i) b = progDrivesP ctx prog i b :=
  progMask_iff ctx prog htw i b

/-! #### The design on which a purely positional reading of "driven" and the code differ -/

/-- signals: clk, rst, `a` (2 bits, init 1), `x`, `off`; `sync += Cat(a.bit_select(off, 2), x)[2:3].eq(1)` -/
def cexLeaf : Leaf :=
  { dom := some 0, wrappers := [],
    prog := [.assign (.slice (.cat (.part (.sig 2) (.sig 4) 2 1) (.cat (.sig 3) Expr.nil)) 2 3) (.const 1 ⟨1, false⟩)] }
def cexD : SpecDesign :=
  { ctx := [⟨1, false⟩, ⟨1, false⟩, ⟨2, false⟩, ⟨1, false⟩, ⟨1, false⟩], inits := [0, 0, 1, 0, 0],
    resetLess := [false, false, false, false, false], doms := [{ clk := 0, rst := some 1 }], leaves := [cexLeaf] }

/-- Only `x` can be written, but `LHSMaskCollector` marks all of `a` as driven by the domain, so the domain's reset loads
`a`'s initial value — in the Model, in the real simulator (`a = 1` after the edge) and in the Spec. -/
theorem part_under_window_witness :
    eventStep cexD.model [0, 1, 2, 0, 0] [(0, 1)] = [1, 1, 1, 0, 0] ∧
    specEvent cexD [0, 1, 2, 0, 0] [(0, 1)] = [1, 1, 1, 0, 0] := by
  decide

/-! #### Non-vacuity: a reset inserter inside an enable inserter -/

/-- signals: clk, en, rc, `cnt` (3 bits, init 5), `flag`; `sync += [cnt.eq(cnt + 1), flag.eq(1)]` under
`EnableInserter(en)(ResetInserter(rc)(…))` -/
def exRLeaf : Leaf :=
  { dom := some 0, wrappers := [.reset 0 (.sig 2), .enable 0 (.sig 1)],
    prog := [.assign (.sig 3) (.op2 .add (.sig 3) (.const 1 ⟨1, false⟩)), .assign (.sig 4) (.const 1 ⟨1, false⟩)] }
def exR : SpecDesign :=
  { ctx := [⟨1, false⟩, ⟨1, false⟩, ⟨1, false⟩, ⟨3, false⟩, ⟨1, false⟩], inits := [0, 0, 0, 5, 0],
    resetLess := [false, false, false, false, false], doms := [{ clk := 0 }], leaves := [exRLeaf] }

/-- the leaf meets the hypotheses in every state (its targets are whole signals) -/
theorem exR_ok (e : Env) : LeafOk exR e exRLeaf :=
  ⟨by decide,
   by
    intro t ht
    have : t = .sig 3 ∨ t = .sig 4 := by simpa [exRLeaf, Prog.listTargets, Prog.targets] using ht
    rcases this with rfl | rfl <;> exact ⟨by decide, trivial⟩,
   by decide⟩

example : EnvN exR.ctx [1, 1, 1, 6, 0] := ⟨rfl, by decide⟩
example : EnvN exR.ctx exR.inits := ⟨rfl, by decide⟩
-- the rewritten statements: the assignments, the inserted reset, all inside the enable's switch
example : (leafProc exR exRLeaf).body =
    .ite (.sig 1) (onePattern exR.ctx (.sig 1))
      (.seq (lowerList exR.ctx exRLeaf.prog)
        (.ite (.sig 2) (onePattern exR.ctx (.sig 2))
          (resetStmts exR.ctx exR.inits exR.resetLess (lowerList exR.ctx exRLeaf.prog)) .skip)) .skip := rfl
-- both sides of `leaf_edge_model_eq_spec`, enable and inserted reset on: the initial values
example : commitInto exR.ctx (leafProc exR exRLeaf).body
    (syncNext exR.ctx exR.inits exR.resetLess none (leafProc exR exRLeaf).body [1, 1, 1, 6, 0]) [1, 1, 1, 6, 0] =
    [1, 1, 1, 5, 0] := by decide
example : mergeDriven exR.ctx exRLeaf.prog (fun _ => true) (exRLeaf.edgeValue exR [1, 1, 1, 6, 0]) [1, 1, 1, 6, 0] =
    [1, 1, 1, 5, 0] := by decide
-- enable on, inserted reset off: the assigned values; enable off: frozen, the inserted reset too
example : eventStep exR.model [0, 1, 0, 6, 0] [(0, 1)] = [1, 1, 0, 7, 1] ∧
    specEvent exR [0, 1, 0, 6, 0] [(0, 1)] = [1, 1, 0, 7, 1] := by decide
example : eventStep exR.model [0, 0, 1, 6, 0] [(0, 1)] = [1, 0, 1, 6, 0] ∧
    specEvent exR [0, 0, 1, 6, 0] [(0, 1)] = [1, 0, 1, 6, 0] := by decide

-- the hypotheses of `event_model_eq_spec` hold for this design in every state: the theorem applies
example : eventStep exR.model [0, 1, 1, 6, 0] [(0, 1)] = specEvent exR [0, 1, 1, 6, 0] [(0, 1)] :=
  event_model_eq_spec exR _ _ ⟨rfl, by decide⟩ ⟨rfl, by decide⟩
    (fun e _ l hl => by
      have : l = exRLeaf := by simpa [exR] using hl
      subst this; exact exR_ok e)

end Amaranth.C03
