import AmaranthVerif.Proofs.FormatStr
import AmaranthVerif.Proofs.FormatAccept
import AmaranthVerif.Proofs.FormatComplete
import AmaranthVerif.Proofs.FormatNum
import AmaranthVerif.Proofs.FormatGroup
import AmaranthVerif.Proofs.FormatGroupLen
import AmaranthVerif.Proofs.FormatRender
import AmaranthVerif.Proofs.FormatProc
import AmaranthVerif.Proofs.FormatDsl
import AmaranthVerif.Proofs.PrintJoin

/-!
# C20 — Print, Assert and Format match Python formatting at the right instants

Model: `Model/Format.lean` (`parseSpecL`/`Spec.reject` = `Format._parse_format_spec`; `pyFormatInt`,
`pyFormatStr` = CPython's `format`; `emitFormat`/`render` = `_StatementCompiler.emit_format` after the
F20 repair; `evalFormatTb` = `eval_format`; `collect`/`runLeaves`/`wakes`/`simulate` = the compiled
synchronous process after the F4 repair). Spec: `Spec/Format.lean`.

All theorems are for every specification string, shape, value, message, statement tree of any
nesting, and event sequence of any length. A Python `str` is its list of code points.

* grammar: `accepts_sound`, `accepts_complete` (together `accepts_iff`), `accepts_python_ok`, `parse_sound`;
* Python's integer formatting: `width_respected`, `width_respected_natural`, `width_respected_nozero`, `width_respected_grouped`,
  `sign_correct`,
  `digits_roundtrip`, `digits_roundtrip_grouped`;
* the glue of `emit_format`: `escape_roundtrip`, `s_rewrite`, `value_in_shape`, `emitted_text`, `tb_text`;
* `Print(*args, sep=, end=)` (`Model/PrintJoin.lean` = `Print.__init__` + `Format._clean_chunks`): `print_join_text`,
  `print_join_error`, `clean_keeps_text`, `clean_form`, `clean_idempotent`;
* instants: `print_when_active`, `print_when_active_dsl`, `assert_first_failure`, `assertion_is_first_failing`;
* the two repaired defects as refuting witnesses of the code as found: `f20_witness`, `f4_witness`.

`width_respected` holds for every specification with the digit part as it is; the "natural length"
forms are `width_respected_natural` (no grouping), `width_respected_nozero` (no zero fill) and, for
zero-filled grouped digits, `width_respected_grouped` (at most `width + 1`: Python never lets the text
start with a separator, so `format(1, "04_d")` is `0_001`).
-/

namespace Amaranth.C20
open Amaranth Amaranth.Fmt

/-! ## literal text -/

/-- `str.format` turns an escaped literal back into the literal, for every string. -/
theorem escape_roundtrip (lit : PyStr) : pyFormatString (escape lit) = .ok lit := by
  have := strFormatGo_escape [] lit []
  simp only [List.append_nil] at this
  unfold pyFormatString strFormat
  rw [this]
  simp [strFormatGo, prependE]

example : escape "a{b}}".toList = "a{{b}}}}".toList := by decide
example : pyFormatString "a{{b}}}}".toList = .ok "a{b}}".toList := escape_roundtrip "a{b}}".toList

/-! ## the grammar -/

/-- Every specification `Format` accepts for a shape is in the documented grammar (with the
restrictions of `c` and `s` for that shape). -/
theorem accepts_sound (spec : String) (sh : Shape) (h : accepts spec sh = true) :
    Documented spec.toList sh :=
  acceptsL_documented spec.toList sh h

/-- Conversely, every string of the documented grammar for a shape is accepted for that shape. -/
theorem accepts_complete (spec : String) (sh : Shape) (h : Documented spec.toList sh) :
    accepts spec sh = true :=
  documented_accepts spec.toList sh h

/-- `Format` accepts exactly the documented grammar. -/
theorem accepts_iff (spec : String) (sh : Shape) : accepts spec sh = true ↔ Documented spec.toList sh :=
  ⟨accepts_sound spec sh, accepts_complete spec sh⟩

/-- the documented grammar is inhabited: `*<12_x` for a signed 7-bit value -/
example : Documented "*<12_x".toList ⟨7, true⟩ :=
  ⟨{ fill := some '*', align := some '<', width := ['1', '2'], group := true, ty := some 'x' },
   ⟨by simp, by simp, by simp, by simp, Or.inr ⟨'1', ['2'], rfl, by decide, by decide⟩, by simp⟩,
   ⟨by simp, by simp, by simp⟩, by decide⟩

/-- … and Python never raises `ValueError` for it, whatever the value. -/
theorem accepts_python_ok (spec : String) (sh : Shape) (h : accepts spec sh = true) (v : Int) :
    pythonText v spec.toList ≠ .error .valueError :=
  accepted_no_valueError spec.toList sh h v

example : accepts "é>+#012_x" ⟨33, true⟩ = true := by decide
example : accepts "*<5s" ⟨16, false⟩ = true := by decide
example : accepts "=5c" ⟨8, false⟩ = false := by decide
example : accepts "5s" ⟨7, false⟩ = false := by decide
example : rejectL "\n<5".toList ⟨8, false⟩ = some .invalid := by decide

/-- A parsed specification is the string: nothing of the input is ignored by the recogniser. -/
theorem parse_sound (spec : String) (sp : Spec) (h : parseSpec spec = some sp) :
    ∃ wd, spec.toList = specText' sp wd ∧ WidthStr wd ∧
      sp.width = (if wd = [] then none else some (digitsVal wd)) := by
  obtain ⟨wd, h1, h2, _, _, h5⟩ := parseSpecL_sound spec.toList sp h
  exact ⟨wd, h1, h2, h5⟩

/-! ## Python's integer formatting -/

/-- for the integer presentation types without `,`, `format` is the total function `pyFormat` -/
theorem pyFormatInt_eq (sp : Spec) (v : Int) (hc : sp.ty ≠ some .c) (hs : sp.ty ≠ some .s)
    (hg : sp.group ≠ some .comma) : pyFormatInt sp v = .ok (pyFormat sp v) := by
  unfold pyFormatInt pyFormat
  split
  · rename_i h; exact absurd h hs
  · rename_i h; exact absurd h hc
  · rw [if_neg (fun h => hg h.1)]

/-- The text is never shorter than the width, and its length is exactly
`max width (sign + prefix + digits)`. -/
theorem width_respected (sp : Spec) (v : Int) :
    sp.widthN ≤ (pyFormat sp v).length ∧
    (pyFormat sp v).length =
      max sp.widthN ((sp.signStr (v < 0)).length + sp.pfx.length + (sp.body v).length) := by
  unfold pyFormat
  rw [padNumber_length]
  exact ⟨Nat.le_max_left _ _, rfl⟩

/-- Without grouping the length is `max width (natural length)`, the natural length being that of
sign, prefix and the digits of `|v|`: zero filling never makes the text longer than the width. -/
theorem width_respected_natural (sp : Spec) (v : Int) (hg : sp.group = none) :
    (pyFormat sp v).length =
      max sp.widthN ((sp.signStr (v < 0)).length + sp.pfx.length + (sp.digitStr v).length) := by
  rw [(width_respected sp v).2]
  unfold Spec.body
  simp only [hg, zeroPad_length, Spec.minDigits]
  split <;> omega

/-- Whenever the digits are not zero-filled (fill `0` with alignment `=`, which the `0` flag implies),
with or without grouping, the length is `max width (length of the text without a width)`. -/
theorem width_respected_nozero (sp : Spec) (v : Int) (hz : ¬ (sp.fillChar = '0' ∧ sp.alignNum = .eq)) :
    (pyFormat sp v).length = max sp.widthN (pyFormat { sp with width := none } v).length := by
  have hb : Spec.body { sp with width := none } v = sp.body v := by
    unfold Spec.body Spec.minDigits
    have h1 : Spec.fillChar { sp with width := none } = sp.fillChar := rfl
    have h2 : Spec.alignNum { sp with width := none } = sp.alignNum := rfl
    simp only [h1, h2, hz, if_false]
    rfl
  rw [(width_respected sp v).2, (width_respected { sp with width := none } v).2, hb]
  have h3 : Spec.widthN { sp with width := none } = 0 := rfl
  have h4 : Spec.signStr { sp with width := none } (v < 0) = sp.signStr (v < 0) := rfl
  have h5 : Spec.pfx { sp with width := none } = sp.pfx := rfl
  rw [h3, h4, h5]
  omega

/-- With grouping the text is at most one character longer than the width, unless its natural
length (sign, prefix, the digits with a separator every `groupSize` digits) is longer still: zero
fill never begins with a separator, so `format(1, "04_d")` is `0_001`. -/
theorem width_respected_grouped (sp : Spec) (v : Int) (g : Grp) (hg : sp.group = some g) :
    (pyFormat sp v).length ≤
      max (sp.widthN + 1)
        ((sp.signStr (v < 0)).length + sp.pfx.length + max 1 (natLen sp.groupSize (sp.digitStr v).length)) := by
  rw [(width_respected sp v).2]
  have hb : (sp.body v).length ≤
      max (natLen sp.groupSize (sp.digitStr v).length) (sp.minDigits (sp.signStr (v < 0)) sp.pfx + 1) := by
    unfold Spec.body
    simp only [hg]
    exact groupDigits_length sp.groupSize sp.groupSize_pos g.char _ _
  have hm : sp.minDigits (sp.signStr (v < 0)) sp.pfx ≤ sp.widthN - ((sp.signStr (v < 0)).length + sp.pfx.length) := by
    unfold Spec.minDigits
    split <;> omega
  omega

example : (pyFormat { zero := true, width := some 8, alt := true, ty := some .x } (-255)).length = 8 := by decide
example : pyFormat { zero := true, width := some 8, alt := true, ty := some .x } (-255) = "-0x000ff".toList := by decide
example : pyFormat { width := some 4, group := some .under, zero := true } 1 = "0_001".toList := by decide

/-- The text is fill characters, the sign, the base prefix, fill characters, the digits, fill
characters; the sign is `-` exactly for negative values, and `+`/space only when asked for. -/
theorem sign_correct (sp : Spec) (v : Int) :
    (∃ a b c, pyFormat sp v =
      List.replicate a sp.fillChar ++ sp.signStr (v < 0) ++ sp.pfx ++ List.replicate b sp.fillChar ++
        sp.body v ++ List.replicate c sp.fillChar) ∧
    (v < 0 → sp.signStr (v < 0) = ['-']) ∧
    (0 ≤ v → sp.signStr (v < 0) =
      match sp.sign with
      | some .plus => ['+'] | some .space => [' '] | _ => []) := by
  refine ⟨?_, ?_, ?_⟩
  · obtain ⟨a, b, c, _, h⟩ := padNumber_shape sp.fillChar sp.alignNum sp.widthN (sp.signStr (v < 0)) sp.pfx (sp.body v)
    exact ⟨a, b, c, h⟩
  · intro h; simp [Spec.signStr, h]
  · intro h
    have : ¬ v < 0 := by omega
    simp only [Spec.signStr, this, decide_false, Bool.false_eq_true, if_false]
    cases sp.sign with
    | none => rfl
    | some s => cases s <;> rfl

example : pyFormat { sign := some .plus, width := some 6, fill := some '*', align := some .eq } 42 = "+***42".toList := by decide

/-- The digits lose nothing: without grouping, for `b o d x X` (and no type), the digit part is
zeros followed by the digits of `|v|`, and reading it back in the base gives `|v|`; with the sign,
`v` itself. -/
theorem digits_roundtrip (sp : Spec) (v : Int) (hg : sp.group = none) :
    (∃ z, sp.body v = List.replicate z '0' ++ sp.digitStr v) ∧
    ofDigits sp.base (sp.body v) = v.natAbs ∧
    (if v < 0 then -(ofDigits sp.base (sp.body v) : Int) else ofDigits sp.base (sp.body v)) = v := by
  have hb : sp.body v = List.replicate (sp.minDigits (sp.signStr (v < 0)) sp.pfx - (sp.digitStr v).length) '0' ++ sp.digitStr v := by
    unfold Spec.body
    simp only [hg, zeroPad]
  have hv : ofDigits sp.base (sp.body v) = v.natAbs := by
    rw [hb, ofDigits_zeros, digitStr_value]
  refine ⟨⟨_, hb⟩, hv, ?_⟩
  rw [hv]
  split <;> omega

example : ofDigits 16 (Spec.body { ty := some .X, zero := true, width := some 9 } (-48879)) = 48879 := by decide

/-- With grouping (`_`): once the separators are dropped, the digit part — zero fill included — reads
back as `|v|`. -/
theorem digits_roundtrip_grouped (sp : Spec) (v : Int) (g : Grp) (hg : sp.group = some g) :
    ofDigits sp.base ((sp.body v).filter (fun c => c != g.char)) = v.natAbs :=
  body_grouped_value sp v g hg

example : Spec.body { ty := some .b, zero := true, width := some 10, group := some .under } 21 = "0_0001_0101".toList := by decide
example : ofDigits 2 ((Spec.body { ty := some .b, zero := true, width := some 10, group := some .under } 21).filter (· != '_')) = 21 := by decide

/-! ## the glue of `emit_format` -/

/-- `endswith("s")` is exactly "the presentation type is `s`", and `format_desc[:-1]` is the same
specification without a type. -/
theorem s_rewrite (spec : List Char) (sp : Spec) (h : parseSpecL spec = some sp) :
    (endsWithS spec = true ↔ sp.ty = some .s) ∧
    (sp.ty = some .s → parseSpecL spec.dropLast = some { sp with ty := none }) :=
  s_rewrite_ok spec sp h

/-- The argument handed to `format` is the value of the expression interpreted in its own shape:
the exact integer `denote e`, which the shape contains (from C01). -/
theorem value_in_shape (ctx : Ctx) (env : Env) (hok : EnvOk ctx env) (e : Expr) (hwf : e.wf ctx = true)
    (toStr : Bool) :
    evalArg ctx env ⟨e, toStr, none⟩ =
      (if toStr then Arg.str <$> valueToString (denote ctx env e) else .ok (.int (denote ctx env e))) ∧
    (shapeOf ctx e).contains (denote ctx env e) := by
  have hv : rtlValue ctx env e = denote ctx env e := (sound ctx env hok e hwf).sgn
  refine ⟨?_, (sound ctx env hok e hwf).rng⟩
  unfold evalArg
  simp only [hv]
  cases toStr
  · rfl
  · simp only [if_true]
    cases valueToString (denote ctx env e) <;> rfl

/-- The text a compiled Print writes, or a failing Assert carries, is the literal text and Python's
text of every value interpreted in its own shape. -/
theorem emitted_text (ctx : Ctx) (env : Env) (hok : EnvOk ctx env) (msg : List Chunk)
    (h : chunksOk ctx msg = true) : render true ctx env msg = specText ctx env msg :=
  render_eq_spec ctx env hok msg h

/-- … and so is what `eval_format` computes. -/
theorem tb_text (ctx : Ctx) (env : Env) (hok : EnvOk ctx env) (msg : List Chunk)
    (h : chunksOk ctx msg = true) : evalFormatTb ctx env msg = specText ctx env msg :=
  evalFormatTb_eq_spec ctx env hok msg h

def exCtx : Ctx := [⟨8, false⟩, ⟨4, true⟩]
def exEnv : Env := [200, -3]
/-- `Format("{{a}} {:#x} {:+d}|{:>3s}", x, x + y, x[0:8])` -/
def exMsg : List Chunk :=
  [.lit "{a} ".toList, .val (.sig 0) "#x".toList, .lit " ".toList,
   .val (.op2 .add (.sig 0) (.sig 1)) "+d".toList, .lit "|".toList, .val (.const 65 ⟨8, false⟩) ">3s".toList]

example : chunksOk exCtx exMsg = true := by decide
example : (emitFormat false exMsg).1 = "{{a}} {:#x} {:+d}|{:>3}".toList := by decide
example : EnvOk exCtx exEnv := by
  intro i
  match i with
  | 0 => decide
  | 1 => decide
  | n + 2 => simp [Ctx.shape, Env.val, exCtx, exEnv, Shape.WF, Shape.contains, Shape.lo, Shape.hi, Shape.u]
example : render true exCtx exEnv exMsg = .ok "{a} 0xc8 +197|  A".toList := by decide
example : specText exCtx exEnv exMsg = .ok "{a} 0xc8 +197|  A".toList := by decide

/-! ## `Print(*args, sep=, end=)`: how the arguments are joined

`printChunks` is the loop of `Print.__init__` followed by `Format._clean_chunks`; an argument is given by
the chunks of `Format("{}", arg)`. The driver compares `printChunks` *structurally* with the chunks of the
`Print` object the implementation built on every generated case (`pjoin`). -/

/-- `_clean_chunks` (dropping empty literals, merging adjacent ones) never changes the text. -/
theorem clean_keeps_text (ctx : Ctx) (env : Env) (cs : List Chunk) :
    specText ctx env (cleanChunks cs) = specText ctx env cs :=
  specText_cleanChunks ctx env cs

/-- What `_clean_chunks` returns has no empty literal and no two adjacent literals … -/
theorem clean_form (cs : List Chunk) : cleanForm (cleanChunks cs) = true :=
  cleanChunks_cleanForm cs

/-- … and such a list is a fixed point: cleaning twice is cleaning once. -/
theorem clean_idempotent (cs : List Chunk) : cleanChunks (cleanChunks cs) = cleanChunks cs :=
  cleanChunks_of_cleanForm _ (cleanChunks_cleanForm cs)

/-- The message of `Print(*args, sep=sep, end=end_)` reads as Python's `print` writes: when every
argument alone has the text `tᵢ`, the message has the text `sep.join(t) + end` — for any number of
arguments, empty texts at any position, empty or non-empty `sep` and `end`. -/
theorem print_join_text (ctx : Ctx) (env : Env) (args : List (List Chunk)) (ts : List PyStr)
    (sep end_ : PyStr) (h : TextsOf ctx env args ts) :
    specText ctx env (printChunks args sep end_) = .ok (List.intercalate sep ts ++ end_) := by
  unfold printChunks
  rw [specText_cleanChunks, specText_append, specText_printRaw_true ctx env sep args ts h,
    joinTexts_eq_intercalate]
  by_cases he : end_ = [] <;> simp [he, specText, appE, prependE]

/-- When an argument cannot be formatted (and those before it can), the whole message fails with that
argument's error. -/
theorem print_join_error (ctx : Ctx) (env : Env) (pre : List (List Chunk)) (ts : List PyStr)
    (bad : List Chunk) (post : List (List Chunk)) (e : PyErr) (sep end_ : PyStr)
    (h : TextsOf ctx env pre ts) (hb : specText ctx env bad = .error e) :
    specText ctx env (printChunks (pre ++ bad :: post) sep end_) = .error e := by
  unfold printChunks
  rw [specText_cleanChunks, specText_append, specText_printRaw_error ctx env sep true pre ts bad post e h hb]
  rfl

/-- `Print("", x, Format(""), "}x", sep="+", end="")` -/
def exJoinArgs : List (List Chunk) := [[], [.val (.sig 0) []], [], [.lit "}x".toList]]
example : printChunks exJoinArgs "+".toList [] =
    [.lit "+".toList, .val (.sig 0) [], .lit "++}x".toList] := by rfl
example : TextsOf exCtx exEnv exJoinArgs [[], "200".toList, [], "}x".toList] :=
  .cons (by decide) (.cons (by decide) (.cons (by decide) (.cons (by decide) .nil)))
example : specText exCtx exEnv (printChunks exJoinArgs "+".toList []) = .ok "+200++}x".toList := by decide
/-- an argument that cannot be formatted (`-3` under `c`): the premise of `print_join_error` is met -/
example : specText exCtx exEnv [.val (.sig 1) "c".toList] = .error .overflow := by decide
example : specText exCtx exEnv (printChunks [[.lit "a".toList], [.val (.sig 1) "c".toList]] " ".toList "z".toList)
    = .error .overflow := by decide

/-! ### F20: the compiler as found splices the spec into the format string

`Format("{:{}<5}", x, "{")` is accepted (fill `{`) and Python formats 5 as `5{{{{`; the string the old
compiler builds, `{:{<5}`, is not a valid `str.format` string. -/
theorem f20_witness :
    acceptsL "{<5".toList ⟨8, false⟩ = true ∧
    (specText [⟨8, false⟩] [5] [.val (.sig 0) "{<5".toList]).toOption = some "5{{{{".toList ∧
    (render true [⟨8, false⟩] [5] [.val (.sig 0) "{<5".toList]).toOption = some "5{{{{".toList ∧
    (emitFormat false [.val (.sig 0) "{<5".toList]).1 = "{:{<5}".toList ∧
    (render false [⟨8, false⟩] [5] [.val (.sig 0) "{<5".toList]).toOption = none := by decide

/-! ## instants -/

/-- A synchronous Print / Assert / Assume is executed at an event exactly when the event is an active
edge of its domain and every enclosing case is selected; the executed statements are the active ones
in program order. -/
theorem print_when_active (d : Domain) (ctx : Ctx) (body : PStmt) (hb : body.ok ctx = true)
    (ev : Event) (hok : EnvOk ctx ev.env) :
    (∀ l, l ∈ firedAt d ctx body ev ↔
      activeEdge d ev = true ∧ ∃ path, (path, l) ∈ occurrences body ∧ selected ctx ev.env path = true) ∧
    firedAt d ctx body ev = (if activeEdge d ev then activeLeaves ctx ev.env body else []) := by
  have h2 : firedAt d ctx body ev = (if activeEdge d ev then activeLeaves ctx ev.env body else []) := by
    unfold firedAt
    rw [wakes_eq_activeEdge, collect_eq_active ctx ev.env hok body hb]
  refine ⟨?_, h2⟩
  intro l
  rw [h2]
  by_cases ha : activeEdge d ev = true
  · simp only [ha, if_true, true_and]
    exact mem_activeLeaves ctx ev.env body l
  · simp [ha]

/-- The same for the program as written: the statements amaranth's DSL lowering produces execute, at
an active edge, exactly the statements under the first true `If`/`Elif` test (else `Else`) and the
first matching `Case` of every enclosing block. -/
theorem print_when_active_dsl (d : Domain) (ctx : Ctx) (prog : List PProg) (hp : PProg.listOk ctx prog = true)
    (ev : Event) (hok : EnvOk ctx ev.env) :
    firedAt d ctx (lowerListP ctx prog) ev =
      (if activeEdge d ev then PProg.listActive ctx ev.env prog else []) := by
  unfold firedAt
  rw [wakes_eq_activeEdge, lowerP_sound_list ctx ev.env hok prog hp]

/-- The whole trace: the compiled simulation writes, event by event, what the Spec says, and stops
where and with what the Spec says. -/
theorem trace_eq_spec (d : Domain) (ctx : Ctx) (body : PStmt) (hb : body.ok ctx = true)
    (evs : List Event) (hok : ∀ ev ∈ evs, EnvOk ctx ev.env) :
    simulate true d ctx body evs 0 = specSimulate d ctx body evs 0 :=
  simulate_eq_spec d ctx body hb evs hok 0

/-- The simulation stops exactly at the first event that is an active edge at which the run of the
active statements is stopped (an active Assert / Assume whose condition is zero), with what stopped
it there; no later event is processed; and it never stops if there is no such event. -/
theorem assert_first_failure (d : Domain) (ctx : Ctx) (body : PStmt) (hb : body.ok ctx = true)
    (evs : List Event) (hok : ∀ ev ∈ evs, EnvOk ctx ev.env) :
    match (simulate true d ctx body evs 0).stop with
    | none =>
      (∀ ev ∈ evs, failsAt d ctx body ev = false) ∧ (simulate true d ctx body evs 0).outs.length = evs.length
    | some (k, st) =>
      ∃ hk : k < evs.length,
        failsAt d ctx body evs[k] = true ∧
        (∀ j (hj : j < k), failsAt d ctx body (evs[j]'(Nat.lt_trans hj hk)) = false) ∧
        (specRun ctx evs[k].env (activeLeaves ctx evs[k].env body)).stop = some st ∧
        (simulate true d ctx body evs 0).outs.length = k + 1 := by
  rw [trace_eq_spec d ctx body hb evs hok]
  have h := specSimulate_stop d ctx (fun env => activeLeaves ctx env body) evs 0
  unfold specSimulate
  revert h
  cases (specSimulateWith d ctx (fun env => activeLeaves ctx env body) evs 0).stop with
  | none => intro h; exact h
  | some ks =>
    obtain ⟨k, st⟩ := ks
    intro h
    simp only at h ⊢
    obtain ⟨j, hk, hj, h1, h2, h3, h4⟩ := h
    have : k = j := by omega
    subst this
    exact ⟨hj, h1, h2, h3, h4⟩

/-- What stops a run: an `AssertionError` comes from an active Property whose condition is zero, all
active Properties before it hold, and it carries `Assertion violated` / `Assumption violated`, a
colon, and the Property's message as Python formats it; a run that is not stopped has no active
Property whose condition is zero. -/
theorem assertion_is_first_failing (ctx : Ctx) (env : Env) (ls : List Leaf) :
    (∀ id text, (specRun ctx env ls).stop = some (.assertion id text) →
      ∃ pre k t m post, ls = pre ++ Leaf.prop id k t m :: post ∧ denote ctx env t = 0 ∧
        (∀ id' k' t' m', Leaf.prop id' k' t' m' ∈ pre → denote ctx env t' ≠ 0) ∧
        (match m with
         | none => text = k.text
         | some msg => ∃ tx, specText ctx env msg = .ok tx ∧ text = k.text ++ [':', ' '] ++ tx)) ∧
    ((specRun ctx env ls).stop = none → ∀ id k t m, Leaf.prop id k t m ∈ ls → denote ctx env t ≠ 0) :=
  ⟨fun id text h => specRun_assertion ctx env ls id text h, specRun_no_stop ctx env ls⟩

/-! ### Non-vacuity: a nested program, three events, the Assert trips at the second active edge -/

def pCtx : Ctx := [⟨1, false⟩, ⟨8, false⟩]
/-- `with m.If(en): Print("v=", v)` / `with m.Else(): Assert(v < 100, Format("big {:d}", v))` -/
def pProg : List PProg :=
  [ .ifs [(.sig 0, [.fx (.print 0 [.lit "v=".toList, .val (.sig 1) [], .lit "\n".toList])])]
         [.fx (.prop 1 .assert (.op2 .lt (.sig 1) (.const 100 ⟨7, false⟩))
                (some [.lit "big ".toList, .val (.sig 1) "d".toList]))] ]
def pDom : Domain := ⟨true, true, true⟩
def pEvents : List Event :=
  [ ⟨false, true, false, false, [1, 7]⟩,      -- rising clock edge, If taken: prints
    ⟨true, false, false, false, [0, 200]⟩,    -- falling edge: nothing, although the Assert would fail
    ⟨false, false, false, true, [0, 200]⟩,    -- reset rises alone: nothing (F4 repaired)
    ⟨false, true, true, true, [0, 200]⟩,      -- rising clock edge, Else taken, 200 ≥ 100: stops here
    ⟨true, false, true, true, [1, 7]⟩ ]

example : PProg.listOk pCtx pProg = true := by decide
example : (lowerListP pCtx pProg).ok pCtx = true := by decide
example : ((simulate true pDom pCtx (lowerListP pCtx pProg) pEvents 0).outs.map String.ofList) =
    ["v=7\n", "", "", ""] := by decide
example : (simulate true pDom pCtx (lowerListP pCtx pProg) pEvents 0).stop =
    some (3, .assertion 1 "Assertion violated: big 200".toList) := by decide

/-! ### F4: the wake-up condition as found also ran the statements on a rising asynchronous reset -/
theorem f4_witness :
    wakesAsFound pDom ⟨false, false, false, true, [0, 200]⟩ = true ∧
    activeEdge pDom ⟨false, false, false, true, [0, 200]⟩ = false ∧
    wakes pDom ⟨false, false, false, true, [0, 200]⟩ = false := by decide

end Amaranth.C20
