import AmaranthVerif.Proofs.RtlilCells2
import AmaranthVerif.Proofs.RtlilEmit
import AmaranthVerif.Proofs.EmitTop

/-!
# C04 — emitted RTLIL is behaviourally equivalent to the simulated design

**The per-design equivalence is translation validation, not a theorem**: `harness/checks/c04.py`
evaluates the emitted text of every generated design with `Model/Rtlil/Eval` (whose cell semantics,
`Model/Rtlil/Cells`, are a transcription of the Yosys manual and part of the trusted base) and
compares every named signal after every event with the real simulator.

What is proved here, for all widths, are the places where a wrong flag or extension rule of the
emitter would hide:

* `cell_arith_exact`, `cell_unary_exact`, `cell_compare_exact`: a cell with the signedness flags and
  the extension rule of the manual computes the exact integer operation modulo `2^Y_WIDTH`;
* `divmod_guard`: the `$mux`/`$reduce_bool` guard around `$divfloor`/`$modfloor` is Python's `//`, `%`
  with 0 for a zero divisor, whatever the undefined result of the unguarded cell is;
* `part_shift_partial`, `part_sshr`: `$shift` is the part-select for unsigned operands, and for signed
  operands only while the window stays inside the extended operand (finding F27 beyond); `$sshr` is
  the part-select of a signed operand for every offset;
* `shorten_sound`: stripping redundant sign/zero extension and choosing one signedness for both
  operands preserves the result of `+ − * == !=`;
* `sigspec_chunks` (shared with C07); `dff_init`: the power-on value of a flip-flop bit is the
  corresponding bit of the `init` attribute of the wire connected to `Q`.

**For right-hand-side expressions the emitter itself is proved** (`emit_expr_correct_partial`,
`emit_expr_sound_partial`): `Model/Rtlil/EmitExpr.lean` follows `NetlistEmitter.emit_rhs` (`hdl/_ir.py`) and
`ModuleEmitter.emit_operator / shorten_operand / emit_part / emit_assignment_list / sigspec` (`back/rtlil.py`) and is
compared with the real `rtlil.convert` output, cell by cell up to generated names, by the `emit` stream of
`harness/checks/c04.py`; for every well-formed expression — every constructor of `Expr`: constants, signals, all
unary and binary operators, slices, part-selects, concatenations, `SwitchValue` in its `Mux` form and in its general
`Match`/`AssignmentList` form — running the emitted cells and processes in emission order in the very evaluator the
check runs on parsed RTLIL (`Model/Rtlil/Eval.lean`) leaves on the returned sigspec exactly the value the simulator
model computes (`evalRtl`, equal to the exact integer `denote` by C01), as the bit pattern of the expression's shape.
The one side condition, `Expr.partsInside`, excludes what finding F27 is about (`emit_expr_signed_part_witness`).
-/

namespace Amaranth.C04
open Amaranth.Rtlil

/-- **`$add`, `$sub`, `$mul` are exact modulo `2^Y_WIDTH`** for every combination of widths and
signedness flags (operands are `A_WIDTH`/`B_WIDTH`-bit vectors). -/
theorem cell_arith_exact (sa sb : Bool) (aw bw yw a b : Nat) (hb : b < 2 ^ bw) :
    cellAdd sa sb aw bw yw a b = ofInt yw (toInt sa aw a + toInt sb bw b) ∧
    cellSub sa sb aw bw yw a b = ofInt yw (toInt sa aw a - toInt sb bw b) ∧
    cellMul sa sb aw bw yw a b = ofInt yw (toInt sa aw a * toInt sb bw b) :=
  ⟨cellAdd_exact sa sb aw bw yw a b, cellSub_exact sa sb aw bw yw a b hb, cellMul_exact sa sb aw bw yw a b⟩

/-- test: 3-bit signed −3 plus 2-bit unsigned 3 in 5 bits is 0 -/
example : cellAdd true false 3 2 5 5 3 = 0 ∧ ofInt 5 (toInt true 3 5 + toInt false 2 3) = 0 := by decide

/-- **`$neg`, `$not` are exact**: `-a` and `~a = -a - 1` of the number the operand denotes. -/
theorem cell_unary_exact (sa : Bool) (aw yw a : Nat) (ha : a < 2 ^ aw) :
    cellNeg sa aw yw a = ofInt yw (-(toInt sa aw a)) ∧ cellNot sa aw yw a = ofInt yw (-(toInt sa aw a) - 1) :=
  ⟨cellNeg_exact sa aw yw a ha, cellNot_exact sa aw yw a ha⟩

example : cellNeg true 3 5 5 = 3 ∧ cellNot false 2 4 1 = 14 := by decide

/-- **Comparisons are exact** when both operands carry the same signedness flag (the only way the
emitter prints them): the result bit is the comparison of the numbers the operands denote. -/
theorem cell_compare_exact (s : Bool) (aw bw yw a b : Nat) (ha : a < 2 ^ aw) (hb : b < 2 ^ bw) :
    cellEq s s aw bw yw a b = b2n (decide (toInt s aw a = toInt s bw b)) % 2 ^ yw ∧
    cellNe s s aw bw yw a b = b2n (decide (toInt s aw a ≠ toInt s bw b)) % 2 ^ yw ∧
    cellLt s s aw bw yw a b = b2n (decide (toInt s aw a < toInt s bw b)) % 2 ^ yw ∧
    cellLe s s aw bw yw a b = b2n (decide (toInt s aw a ≤ toInt s bw b)) % 2 ^ yw ∧
    cellGt s s aw bw yw a b = b2n (decide (toInt s bw b < toInt s aw a)) % 2 ^ yw ∧
    cellGe s s aw bw yw a b = b2n (decide (toInt s bw b ≤ toInt s aw a)) % 2 ^ yw :=
  ⟨cellEq_exact s aw bw yw a b ha hb, cellNe_exact s aw bw yw a b ha hb, cellLt_exact s aw bw yw a b ha hb,
   cellLe_exact s aw bw yw a b ha hb, cellGt_exact s aw bw yw a b ha hb, cellGe_exact s aw bw yw a b ha hb⟩

/-- test: signed 2-bit −1 < signed 4-bit 3, but unsigned 3 ≥ 3 -/
example : cellLt true true 2 4 1 3 3 = 1 ∧ cellLt false false 2 4 1 3 3 = 0 := by decide

/-- **The division guard**: `$mux(S = $reduce_bool(B), A = 0, B = $divfloor(A, B))` is floor division with 0
for a zero divisor, and likewise `$modfloor` — independently of what the unguarded cell yields for a
zero divisor (`undef`). -/
theorem divmod_guard (sa sb : Bool) (aw bw yw a b undef : Nat) (hb : b < 2 ^ bw) :
    cellMux yw 0 (cellDivFloor sa sb aw bw yw a b undef) (cellReduceOr bw 1 b)
      = ofInt yw (if toInt sb bw b = 0 then 0 else Int.fdiv (toInt sa aw a) (toInt sb bw b)) ∧
    cellMux yw 0 (cellModFloor sa sb aw bw yw a b undef) (cellReduceOr bw 1 b)
      = ofInt yw (if toInt sb bw b = 0 then 0 else Int.fmod (toInt sa aw a) (toInt sb bw b)) :=
  ⟨divfloor_guard sa sb aw bw yw a b undef hb, modfloor_guard sa sb aw bw yw a b undef hb⟩

/-- test: −7 // 2 = −4 (4 bit: 12), 7 // 0 = 0 whatever the cell yields; with `$mux` A and B swapped
the zero divisor would let the undefined value through -/
example : cellMux 4 0 (cellDivFloor true true 4 3 4 9 2 15) (cellReduceOr 3 1 2) = 12 ∧
    cellMux 4 0 (cellDivFloor true true 4 3 4 7 0 15) (cellReduceOr 3 1 0) = 0 ∧
    cellMux 4 (cellDivFloor true true 4 3 4 7 0 15) 0 (cellReduceOr 3 1 0) = 15 := by decide

/-!
The full statement one would like for part-selects:

    theorem part_shift (s : Bool) (aw yw a off stride : Nat) (ha : a < 2 ^ aw) :
        cellShift s aw yw a (off * stride) = partOf (toInt s aw a) (off * stride) yw

(`$shift` with `A_SIGNED` = signedness of the value and `B = offset·stride` reads what `Part`
reads, sign bits included) is **false** for signed operands: `$shift` extends `A` to
`max A_WIDTH Y_WIDTH` bits and then shifts logically.  Refuting witness below (finding F27).
-/

/-- **`$shift` as part-select, partial**: exact for unsigned operands at every offset; for signed
operands exact while the window `[off·stride, off·stride + Y_WIDTH)` lies within the extended operand.
Missing (and false, see the witness): signed operands beyond that window. -/
theorem part_shift_partial (aw yw a off stride : Nat) (ha : a < 2 ^ aw) :
    cellShift false aw yw a ((off * stride : Nat) : Int) = partOf (a : Int) (off * stride) yw ∧
    (off * stride + yw ≤ max aw yw →
      cellShift true aw yw a ((off * stride : Nat) : Int) = partOf (toInt true aw a) (off * stride) yw) :=
  ⟨shift_unsigned aw yw a (off * stride) ha, fun h => shift_signed_within aw yw a (off * stride) ha h⟩

/-- refuting witness of the full statement (F27): 4-bit signed −1, offset 2, width 4: `Part` reads `1111`,
`$shift` yields `0011` -/
example : cellShift true 4 4 15 2 = 3 ∧ partOf (toInt true 4 15) 2 4 = 15 := by decide
/-- the hypothesis of the signed half is satisfiable: offset 1, width 2 of a 4-bit value -/
example : cellShift true 4 2 13 1 = partOf (toInt true 4 13) 1 2 := by decide

/-- **`$sshr` is the part-select of a signed operand at every offset** (the repair proposed for F27). -/
theorem part_sshr (aw yw a off stride : Nat) :
    cellSshr true aw yw a (off * stride) = partOf (toInt true aw a) (off * stride) yw :=
  sshr_signed aw yw a (off * stride)

example : cellSshr true 4 4 15 2 = 15 := by decide

/-- **Operand shortening is sound** for `+ − * == !=`: the netlist operands `a`, `b` are `yw`-bit vectors
(most significant net first); the emitted cell gets the operands shortened under one signedness
`signed` and that flag for both inputs; it computes the netlist operator's result for every valuation
of the nets. -/
theorem shorten_sound (signed : Bool) (ν : Nat → Bool) (a b : List SNet) (yw : Nat)
    (ha : a.length = yw) (hb : b.length = yw) :
    cellAdd signed signed (shortenR signed a).length (shortenR signed b).length yw
        (valR ν (shortenR signed a)) (valR ν (shortenR signed b)) = (valR ν a + valR ν b) % 2 ^ yw ∧
    cellSub signed signed (shortenR signed a).length (shortenR signed b).length yw
        (valR ν (shortenR signed a)) (valR ν (shortenR signed b)) = ofInt yw ((valR ν a : Int) - valR ν b) ∧
    cellMul signed signed (shortenR signed a).length (shortenR signed b).length yw
        (valR ν (shortenR signed a)) (valR ν (shortenR signed b)) = (valR ν a * valR ν b) % 2 ^ yw ∧
    cellEq signed signed (shortenR signed a).length (shortenR signed b).length 1
        (valR ν (shortenR signed a)) (valR ν (shortenR signed b)) = b2n (decide (valR ν a = valR ν b)) ∧
    cellNe signed signed (shortenR signed a).length (shortenR signed b).length 1
        (valR ν (shortenR signed a)) (valR ν (shortenR signed b)) = b2n (decide (valR ν a ≠ valR ν b)) := by
  have la := valR_lt ν (shortenR signed a)
  have lb := valR_lt ν (shortenR signed b)
  have hA := valR_lt ν a
  have hB := valR_lt ν b
  rw [ha] at hA
  rw [hb] at hB
  have ea := shorten_val signed ν a
  have eb := shorten_val signed ν b
  rw [ha] at ea
  rw [hb] at eb
  have mA := toInt_modEq signed yw (valR ν a)
  have mB := toInt_modEq signed yw (valR ν b)
  have inj : toInt signed yw (valR ν a) = toInt signed yw (valR ν b) ↔ valR ν a = valR ν b := by
    constructor
    · intro h
      have hc : ((valR ν a : Nat) : Int) ≡ (valR ν b : Int) [ZMOD 2 ^ yw] := by
        have := mA.symm.trans (h ▸ mB)
        exact this
      have e1 := eq_ofInt hA hc
      have e2 := eq_ofInt hB (Int.ModEq.refl _)
      rw [e1, ← e2]
    · intro h; rw [h]
  refine ⟨?_, ?_, ?_, ?_, ?_⟩
  · rw [cellAdd_exact, ea, eb]
    symm
    apply eq_ofInt (Nat.mod_lt _ (Nat.two_pow_pos yw))
    refine (natCast_mod_pow _ _).trans ?_
    push_cast
    exact (mA.add mB).symm
  · rw [cellSub_exact _ _ _ _ _ _ _ lb, ea, eb]
    have h1 : toInt signed yw (valR ν a) - toInt signed yw (valR ν b) ≡ (valR ν a : Int) - valR ν b [ZMOD 2 ^ yw] :=
      mA.sub mB
    unfold ofInt
    rw [h1]
  · rw [cellMul_exact, ea, eb]
    symm
    apply eq_ofInt (Nat.mod_lt _ (Nat.two_pow_pos yw))
    refine (natCast_mod_pow _ _).trans ?_
    push_cast
    exact (mA.mul mB).symm
  · rw [cellEq_exact _ _ _ _ _ _ la lb, ea, eb]
    by_cases h : valR ν a = valR ν b
    · simp [h, b2n]
    · have : ¬ toInt signed yw (valR ν a) = toInt signed yw (valR ν b) := fun e => h (inj.mp e)
      simp [h, this, b2n]
  · rw [cellNe_exact _ _ _ _ _ _ la lb, ea, eb]
    by_cases h : valR ν a = valR ν b
    · simp [h, b2n]
    · have : ¬ toInt signed yw (valR ν a) = toInt signed yw (valR ν b) := fun e => h (inj.mp e)
      simp [h, this, b2n]

/-- test: the 4-net operand `s s s x` (sign-extended 2-bit value) is shortened to `s x` under the signed
reading and kept under the unsigned one -/
example : shortenR true [.var 0, .var 0, .var 0, .var 1] = [.var 0, .var 1] ∧
    shortenR false [.var 0, .var 0, .var 0, .var 1] = [.var 0, .var 0, .var 0, .var 1] ∧
    shortenR false [.c0, .c0, .var 0, .var 1] = [.var 0, .var 1] := by decide

/-- **Sigspec chunking** (shared with C07): the chunks printed for a value denote it bit for bit, most
significant chunk first, and their widths add up. -/
theorem sigspec_chunks (v : List Net) :
    (emitSpec v).bitRefs = v.map Net.ref ∧ (emitSpec v).width = v.length :=
  ⟨emitSpec_bits v, emitSpec_width v⟩

example : (emitSpec [.const true, .wire "\\a" 3, .wire "\\a" 4]).bitRefs = [.const .b1, .wire "\\a" 3, .wire "\\a" 4] := by
  decide +kernel

/-- **Flip-flop power-on value**: the evaluator starts the bits of a `Q` connection `n [hi:lo]` with the
slice `[hi:lo]` of the `init` attribute of wire `n`, and bit `i` of that attribute (counted from the
least significant end) is its `i`-th character from the right — so a flip-flop of a chunk starting at
bit `lo` must carry the initial value shifted by `lo`. -/
theorem dff_init (c : Rtlil.Ctx) (wires : Std.HashMap String (Option (List Bit))) (n : String) (hi lo : Nat) (bs : List Bit)
    (h : wires.getD n none = some bs) :
    initBits c wires (.slice n hi lo) = (bitsVal c.xres bs / 2 ^ lo) % 2 ^ (hi + 1 - lo) ∧
    ∀ i (hi' : i < bs.length), (bitsVal c.xres bs / 2 ^ i) % 2 = bitNat c.xres (bs.reverse[i]'(by simpa using hi')) := by
  refine ⟨?_, fun i hi' => bitsVal_bit c.xres bs.length bs rfl i hi'⟩
  simp [initBits, h]

/-- test: `init = 5'11101` (29): a `Q` connected to bits `[4:2]` starts at `111` -/
example : (bitsVal false [.b1, .b1, .b1, .b0, .b1] / 2 ^ 2) % 2 ^ (4 + 1 - 2) = 7 := by decide


/-! ## The emitter on expressions -/

/-!
The full statement:

    theorem emit_expr_correct (ctx : Amaranth.Ctx) (e : Expr) (hwf : e.wf ctx = true) (hch : e.chainsOk = true)
        (env : Amaranth.Env) (hok : EnvOk ctx env) (xres : Bool) :
        ∃ renv', evalNodes (emitCtx (emitExpr ctx e (EmitState.init ctx)).2.wires xres) {}
            (emitExpr ctx e (EmitState.init ctx)).2.nodes (sigEnv ctx env) = .ok renv' ∧
          (specVal (emitCtx (emitExpr ctx e (EmitState.init ctx)).2.wires xres) renv'
              (emitExpr ctx e (EmitState.init ctx)).1 : Int) = denote ctx env e % 2 ^ widthOf ctx e

is **false**: a part-select (`bit_select`/`word_select` with a signal offset) of a *signed* value is emitted as
`$shift`, which shifts zeros in above `max(A_WIDTH, Y_WIDTH)` where the simulator (and `denote`) read the sign — finding
F27, refuted by `emit_expr_signed_part_witness` below.  What is proved is the statement under the decidable side
condition `e.partsInside ctx` (every part-select of a signed value stays inside the extended operand for every offset).
`e.chainsOk` is not a restriction of the code: it says that the cases `Expr` chains into one `SwitchValue` share their
test expression, which is what a `SwitchValue` is.
-/

/-- **The emitter is correct on expressions, general form**: from any emitter state, in any evaluator context that
gives the declared wires their widths (and reads `$shift` as the cell library defines it), from any environment in which
the signals' wires hold the signals' values: the cells and processes emitted for `e`, run in emission order, succeed,
leave the signals' wires alone, and the returned sigspec then reads `denote ctx env e` modulo `2^width` (which is also
what the simulator model `evalRtl` computes, masked). -/
theorem emit_expr_sound_partial (c : Rtlil.Ctx) (hsa : c.shiftArith = false) (mems : Mems) (ctx : Amaranth.Ctx) (e : Expr)
    (hwf : e.wf ctx = true) (hch : e.chainsOk = true) (hpi : e.partsInside ctx = true)
    (env : Amaranth.Env) (hok : EnvOk ctx env) (st : EmitState) (renv : Rtlil.Env) (hse : SigEnv ctx env renv)
    (hw : WidthsOk c (emitExpr ctx e st).2.wires) :
    ∃ new renv', (emitExpr ctx e st).2.nodes = st.nodes ++ new ∧ evalNodes c mems new renv = .ok renv' ∧
      SigEnv ctx env renv' ∧
      (specVal c renv' (emitExpr ctx e st).1 : Int) = denote ctx env e % 2 ^ widthOf ctx e ∧
      (specVal c renv' (emitExpr ctx e st).1 : Int) = mask (widthOf ctx e) (evalRtl ctx env e) := by
  have hw' : WidthsOk c (st.wires ++ (emitE ctx e st.next).wires) := hw
  obtain ⟨renv', hrun, hfr, hv⟩ := ((emitE_sound c mems ctx env hok hsa e hwf hch hpi).1 st.next renv hse hw'.right).run
  have hsp : (specVal c renv' (emitExpr ctx e st).1 : Int) = mask (widthOf ctx e) (evalRtl ctx env e) := by
    show ((specVal c renv' (emitSpec (emitE ctx e st.next).val) : Nat) : Int) = _
    rw [specVal_emitSpec]; exact hv
  refine ⟨(emitE ctx e st.next).nodes, renv', rfl, hrun, hse.frame hfr, ?_, hsp⟩
  rw [hsp]
  exact (sound ctx env hok e hwf).cong

/-- **The emitter is correct on expressions**: the module body emitted for `out.eq(e)` from the initial state (the
signals' wires declared, nothing emitted), evaluated in the context the evaluator builds from the declared wires,
starting with the signals' values on their wires: every emitted cell and process evaluates, and the sigspec connected to
`out` reads `denote ctx env e` modulo `2^width` — for either resolution `xres` of undefined values (the division guard
makes the result independent of it). -/
theorem emit_expr_correct_partial (ctx : Amaranth.Ctx) (e : Expr) (hwf : e.wf ctx = true) (hch : e.chainsOk = true)
    (hpi : e.partsInside ctx = true) (env : Amaranth.Env) (hok : EnvOk ctx env) (xres : Bool) :
    ∃ renv', evalNodes (emitCtx (emitExpr ctx e (EmitState.init ctx)).2.wires xres) {}
        (emitExpr ctx e (EmitState.init ctx)).2.nodes (sigEnv ctx env) = .ok renv' ∧
      (specVal (emitCtx (emitExpr ctx e (EmitState.init ctx)).2.wires xres) renv'
          (emitExpr ctx e (EmitState.init ctx)).1 : Int) = denote ctx env e % 2 ^ widthOf ctx e ∧
      (specVal (emitCtx (emitExpr ctx e (EmitState.init ctx)).2.wires xres) renv'
          (emitExpr ctx e (EmitState.init ctx)).1 : Int) = mask (widthOf ctx e) (evalRtl ctx env e) := by
  obtain ⟨new, renv', hn, hrun, _, h1, h2⟩ := emit_expr_sound_partial _ (emitCtx_shiftArith _ xres) {} ctx e hwf hch hpi env hok
    (EmitState.init ctx) (sigEnv ctx env) (sigEnv_ok ctx env) (widthsOk_emitCtx ctx e xres)
  have : (emitExpr ctx e (EmitState.init ctx)).2.nodes = new := by rw [hn]; rfl
  rw [this]
  exact ⟨renv', hrun, h1, h2⟩

/-- non-vacuity: `Mux(i2 == 0 …)`-like choice, guarded division, multiplication-scaled part-select and an addition over
`i0 : unsigned(4)`, `i1 : signed(3)`, `i2 : unsigned(2)` — `(sw i2 ("00" → i0) (default → i0 // i1)) + i0.word_select(i2, 3)` —
satisfies every hypothesis; the emitted cells (`$divfloor $reduce_bool $mux $reduce_bool $mux $mul $shift $add`) leave
`denote` on the result -/
example :
    let ctx : Amaranth.Ctx := [⟨4, false⟩, ⟨3, true⟩, ⟨2, false⟩]
    let e : Expr := .op2 .add
      (.ite (.sig 2) [[.zero, .zero]] (.sig 0) (.ite (.sig 2) [[.any, .any]] (.op2 .fdiv (.sig 0) (.sig 1)) Expr.nil))
      (.part (.sig 0) (.sig 2) 3 3)
    let env : Amaranth.Env := [5, -2, 1]
    (e.wf ctx = true ∧ e.chainsOk = true ∧ e.partsInside ctx = true ∧ denote ctx env e % 2 ^ widthOf ctx e = 61) ∧
    ∃ renv', evalNodes (emitCtx (emitExpr ctx e (EmitState.init ctx)).2.wires false) {}
        (emitExpr ctx e (EmitState.init ctx)).2.nodes (sigEnv ctx env) = .ok renv' ∧
      (specVal (emitCtx (emitExpr ctx e (EmitState.init ctx)).2.wires false) renv'
          (emitExpr ctx e (EmitState.init ctx)).1 : Int) = 61 := by
  intro ctx e env
  have hwf : e.wf ctx = true := by decide
  have hch : e.chainsOk = true := by decide
  have hpi : e.partsInside ctx = true := by decide
  have hd : denote ctx env e % 2 ^ widthOf ctx e = 61 := by decide +kernel
  have hok : EnvOk ctx env := by
    intro i
    match i with
    | 0 => decide
    | 1 => decide
    | 2 => decide
    | n + 3 => simp [ctx, env, Ctx.shape, Env.val, Shape.WF, Shape.contains, Shape.lo, Shape.hi, Shape.u]
  obtain ⟨renv', hr, hv, _⟩ := emit_expr_correct_partial ctx e hwf hch hpi env hok false
  exact ⟨⟨hwf, hch, hpi, hd⟩, renv', hr, hv.trans hd⟩

/-- **refuting witness of the full statement (finding F27)**: `a : signed(4) = -1`, `off : unsigned(2) = 2`,
`a.bit_select(off, 4)`: the expression is well formed, the emitted `$shift` cell evaluates, and the result sigspec reads
`0011` where `denote` (and the simulator) give `1111`. -/
theorem emit_expr_signed_part_witness :
    let ctx : Amaranth.Ctx := [⟨4, true⟩, ⟨2, false⟩]
    let e : Expr := .part (.sig 0) (.sig 1) 4 1
    let env : Amaranth.Env := [-1, 2]
    e.wf ctx = true ∧ e.chainsOk = true ∧ e.partsInside ctx = false ∧ EnvOk ctx env ∧
    denote ctx env e % 2 ^ widthOf ctx e = 15 ∧
    ∀ xres renv', evalNodes (emitCtx (emitExpr ctx e (EmitState.init ctx)).2.wires xres) {}
        (emitExpr ctx e (EmitState.init ctx)).2.nodes (sigEnv ctx env) = .ok renv' →
      specVal (emitCtx (emitExpr ctx e (EmitState.init ctx)).2.wires xres) renv' (emitExpr ctx e (EmitState.init ctx)).1 = 3 := by
  intro ctx e env
  have hok : EnvOk ctx env := by
    intro i
    match i with
    | 0 => decide
    | 1 => decide
    | n + 2 => simp [ctx, env, Ctx.shape, Env.val, Shape.WF, Shape.contains, Shape.lo, Shape.hi, Shape.u]
  refine ⟨by decide, by decide, by decide, hok, by decide +kernel, ?_⟩
  intro xres renv' hrun
  have hw := widthsOk_emitCtx ctx e xres
  have hse := sigEnv_ok ctx env
  have hE : (emitExpr ctx e (EmitState.init ctx)).2.nodes
      = (emitPart (wireBits (sigName 0) 0 4) true (wireBits (sigName 1) 0 2) 4 1 1).nodes := rfl
  have hV : (emitExpr ctx e (EmitState.init ctx)).1
      = emitSpec (emitPart (wireBits (sigName 0) 0 4) true (wireBits (sigName 1) 0 2) 4 1 1).val :=
    congrArg emitSpec (rfl : (emitE ctx e 1).val = (emitPart (wireBits (sigName 0) 0 4) true (wireBits (sigName 1) 0 2) 4 1 1).val)
  have hW : WidthsOk (emitCtx (emitExpr ctx e (EmitState.init ctx)).2.wires xres)
      (emitPart (wireBits (sigName 0) 0 4) true (wireBits (sigName 1) 0 2) 4 1 1).wires :=
    WidthsOk.right (a := (EmitState.init ctx).wires) hw
  obtain ⟨env', hr, _, hv⟩ := (emitPart_sound _ {} (wireBits (sigName 0) 0 4) true (wireBits (sigName 1) 0 2) 4 1 1
    (sigEnv ctx env) (emitCtx_shiftArith _ xres) (by norm_num) (old_wireBits (oldName_sig 0 1) _ _) hW).run
  rw [hE] at hrun
  rw [hr] at hrun
  cases hrun
  rw [hV, specVal_emitSpec, hv, valOf_wireBits, valOf_wireBits, Nat.pow_zero, Nat.div_one, Nat.div_one]
  have h0 := hse 0 (by decide)
  have h1 := hse 1 (by decide)
  have e0 : (sigEnv ctx env).getD (sigName 0) 0 % 2 ^ 4 = 15 := by
    have : (((sigEnv ctx env).getD (sigName 0) 0 % 2 ^ 4 : Nat) : Int) = 15 := h0
    exact_mod_cast this
  have e1 : (sigEnv ctx env).getD (sigName 1) 0 % 2 ^ 2 = 2 := by
    have : (((sigEnv ctx env).getD (sigName 1) 0 % 2 ^ 2 : Nat) : Int) = 2 := h1
    exact_mod_cast this
  rw [e0, e1]
  decide

end Amaranth.C04
