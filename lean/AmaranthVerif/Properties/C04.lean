import AmaranthVerif.Proofs.RtlilCells2
import AmaranthVerif.Proofs.RtlilEmit

/-!
# C04 — emitted RTLIL is behaviourally equivalent to the simulated design

**The per-design equivalence is translation validation, not a theorem**: `harness/checks/c04.py`
evaluates the emitted text of every generated design with `Model/Rtlil/Eval` (whose cell semantics,
`Model/Rtlil/Cells`, are a transcription of the Yosys manual and part of the trusted base) and
compares every named signal after every event with the real simulator.

What is proved here, for all widths, are the places where a wrong flag or extension rule of the
emitter would hide:

* `cell_arith_exact`, `cell_unary_exact`, `cell_compare_exact`: a cell with the signedness flags and
  the extension rule of the manual computes the exact integer operation modulo `2^Y_WIDTH`;
* `divmod_guard`: the `$mux`/`$reduce_bool` guard around `$divfloor`/`$modfloor` is Python's `//`, `%`
  with 0 for a zero divisor, whatever the undefined result of the unguarded cell is;
* `part_shift_partial`, `part_sshr`: `$shift` is the part-select for unsigned operands, and for signed
  operands only while the window stays inside the extended operand (finding F27 beyond); `$sshr` is
  the part-select of a signed operand for every offset;
* `shorten_sound`: stripping redundant sign/zero extension and choosing one signedness for both
  operands preserves the result of `+ − * == !=`;
* `sigspec_chunks` (shared with C07); `dff_init`: the power-on value of a flip-flop bit is the
  corresponding bit of the `init` attribute of the wire connected to `Q`.
-/

namespace Amaranth.C04
open Amaranth.Rtlil

/-- **`$add`, `$sub`, `$mul` are exact modulo `2^Y_WIDTH`** for every combination of widths and
signedness flags (operands are `A_WIDTH`/`B_WIDTH`-bit vectors). -/
theorem cell_arith_exact (sa sb : Bool) (aw bw yw a b : Nat) (hb : b < 2 ^ bw) :
    cellAdd sa sb aw bw yw a b = ofInt yw (toInt sa aw a + toInt sb bw b) ∧
    cellSub sa sb aw bw yw a b = ofInt yw (toInt sa aw a - toInt sb bw b) ∧
    cellMul sa sb aw bw yw a b = ofInt yw (toInt sa aw a * toInt sb bw b) :=
  ⟨cellAdd_exact sa sb aw bw yw a b, cellSub_exact sa sb aw bw yw a b hb, cellMul_exact sa sb aw bw yw a b⟩

/-- test: 3-bit signed −3 plus 2-bit unsigned 3 in 5 bits is 0 -/
example : cellAdd true false 3 2 5 5 3 = 0 ∧ ofInt 5 (toInt true 3 5 + toInt false 2 3) = 0 := by decide

/-- **`$neg`, `$not` are exact**: `-a` and `~a = -a - 1` of the number the operand denotes. -/
theorem cell_unary_exact (sa : Bool) (aw yw a : Nat) (ha : a < 2 ^ aw) :
    cellNeg sa aw yw a = ofInt yw (-(toInt sa aw a)) ∧ cellNot sa aw yw a = ofInt yw (-(toInt sa aw a) - 1) :=
  ⟨cellNeg_exact sa aw yw a ha, cellNot_exact sa aw yw a ha⟩

example : cellNeg true 3 5 5 = 3 ∧ cellNot false 2 4 1 = 14 := by decide

/-- **Comparisons are exact** when both operands carry the same signedness flag (the only way the
emitter prints them): the result bit is the comparison of the numbers the operands denote. -/
theorem cell_compare_exact (s : Bool) (aw bw yw a b : Nat) (ha : a < 2 ^ aw) (hb : b < 2 ^ bw) :
    cellEq s s aw bw yw a b = b2n (decide (toInt s aw a = toInt s bw b)) % 2 ^ yw ∧
    cellNe s s aw bw yw a b = b2n (decide (toInt s aw a ≠ toInt s bw b)) % 2 ^ yw ∧
    cellLt s s aw bw yw a b = b2n (decide (toInt s aw a < toInt s bw b)) % 2 ^ yw ∧
    cellLe s s aw bw yw a b = b2n (decide (toInt s aw a ≤ toInt s bw b)) % 2 ^ yw ∧
    cellGt s s aw bw yw a b = b2n (decide (toInt s bw b < toInt s aw a)) % 2 ^ yw ∧
    cellGe s s aw bw yw a b = b2n (decide (toInt s bw b ≤ toInt s aw a)) % 2 ^ yw :=
  ⟨cellEq_exact s aw bw yw a b ha hb, cellNe_exact s aw bw yw a b ha hb, cellLt_exact s aw bw yw a b ha hb,
   cellLe_exact s aw bw yw a b ha hb, cellGt_exact s aw bw yw a b ha hb, cellGe_exact s aw bw yw a b ha hb⟩

/-- test: signed 2-bit −1 < signed 4-bit 3, but unsigned 3 ≥ 3 -/
example : cellLt true true 2 4 1 3 3 = 1 ∧ cellLt false false 2 4 1 3 3 = 0 := by decide

/-- **The division guard**: `$mux(S = $reduce_bool(B), A = 0, B = $divfloor(A, B))` is floor division with 0
for a zero divisor, and likewise `$modfloor` — independently of what the unguarded cell yields for a
zero divisor (`undef`). -/
theorem divmod_guard (sa sb : Bool) (aw bw yw a b undef : Nat) (hb : b < 2 ^ bw) :
    cellMux yw 0 (cellDivFloor sa sb aw bw yw a b undef) (cellReduceOr bw 1 b)
      = ofInt yw (if toInt sb bw b = 0 then 0 else Int.fdiv (toInt sa aw a) (toInt sb bw b)) ∧
    cellMux yw 0 (cellModFloor sa sb aw bw yw a b undef) (cellReduceOr bw 1 b)
      = ofInt yw (if toInt sb bw b = 0 then 0 else Int.fmod (toInt sa aw a) (toInt sb bw b)) :=
  ⟨divfloor_guard sa sb aw bw yw a b undef hb, modfloor_guard sa sb aw bw yw a b undef hb⟩

/-- test: −7 // 2 = −4 (4 bit: 12), 7 // 0 = 0 whatever the cell yields; with `$mux` A and B swapped
the zero divisor would let the undefined value through -/
example : cellMux 4 0 (cellDivFloor true true 4 3 4 9 2 15) (cellReduceOr 3 1 2) = 12 ∧
    cellMux 4 0 (cellDivFloor true true 4 3 4 7 0 15) (cellReduceOr 3 1 0) = 0 ∧
    cellMux 4 (cellDivFloor true true 4 3 4 7 0 15) 0 (cellReduceOr 3 1 0) = 15 := by decide

/-!
The full statement one would like for part-selects:

    theorem part_shift (s : Bool) (aw yw a off stride : Nat) (ha : a < 2 ^ aw) :
        cellShift s aw yw a (off * stride) = partOf (toInt s aw a) (off * stride) yw

(`$shift` with `A_SIGNED` = signedness of the value and `B = offset·stride` reads what `Part`
reads, sign bits included) is **false** for signed operands: `$shift` extends `A` to
`max A_WIDTH Y_WIDTH` bits and then shifts logically.  Refuting witness below (finding F27).
-/

/-- **`$shift` as part-select, partial**: exact for unsigned operands at every offset; for signed
operands exact while the window `[off·stride, off·stride + Y_WIDTH)` lies within the extended operand.
Missing (and false, see the witness): signed operands beyond that window. -/
theorem part_shift_partial (aw yw a off stride : Nat) (ha : a < 2 ^ aw) :
    cellShift false aw yw a ((off * stride : Nat) : Int) = partOf (a : Int) (off * stride) yw ∧
    (off * stride + yw ≤ max aw yw →
      cellShift true aw yw a ((off * stride : Nat) : Int) = partOf (toInt true aw a) (off * stride) yw) :=
  ⟨shift_unsigned aw yw a (off * stride) ha, fun h => shift_signed_within aw yw a (off * stride) ha h⟩

/-- refuting witness of the full statement (F27): 4-bit signed −1, offset 2, width 4: `Part` reads `1111`,
`$shift` yields `0011` -/
example : cellShift true 4 4 15 2 = 3 ∧ partOf (toInt true 4 15) 2 4 = 15 := by decide
/-- the hypothesis of the signed half is satisfiable: offset 1, width 2 of a 4-bit value -/
example : cellShift true 4 2 13 1 = partOf (toInt true 4 13) 1 2 := by decide

/-- **`$sshr` is the part-select of a signed operand at every offset** (the repair proposed for F27). -/
theorem part_sshr (aw yw a off stride : Nat) :
    cellSshr true aw yw a (off * stride) = partOf (toInt true aw a) (off * stride) yw :=
  sshr_signed aw yw a (off * stride)

example : cellSshr true 4 4 15 2 = 15 := by decide

/-- **Operand shortening is sound** for `+ − * == !=`: the netlist operands `a`, `b` are `yw`-bit vectors
(most significant net first); the emitted cell gets the operands shortened under one signedness
`signed` and that flag for both inputs; it computes the netlist operator's result for every valuation
of the nets. -/
theorem shorten_sound (signed : Bool) (ν : Nat → Bool) (a b : List SNet) (yw : Nat)
    (ha : a.length = yw) (hb : b.length = yw) :
    cellAdd signed signed (shortenR signed a).length (shortenR signed b).length yw
        (valR ν (shortenR signed a)) (valR ν (shortenR signed b)) = (valR ν a + valR ν b) % 2 ^ yw ∧
    cellSub signed signed (shortenR signed a).length (shortenR signed b).length yw
        (valR ν (shortenR signed a)) (valR ν (shortenR signed b)) = ofInt yw ((valR ν a : Int) - valR ν b) ∧
    cellMul signed signed (shortenR signed a).length (shortenR signed b).length yw
        (valR ν (shortenR signed a)) (valR ν (shortenR signed b)) = (valR ν a * valR ν b) % 2 ^ yw ∧
    cellEq signed signed (shortenR signed a).length (shortenR signed b).length 1
        (valR ν (shortenR signed a)) (valR ν (shortenR signed b)) = b2n (decide (valR ν a = valR ν b)) ∧
    cellNe signed signed (shortenR signed a).length (shortenR signed b).length 1
        (valR ν (shortenR signed a)) (valR ν (shortenR signed b)) = b2n (decide (valR ν a ≠ valR ν b)) := by
  have la := valR_lt ν (shortenR signed a)
  have lb := valR_lt ν (shortenR signed b)
  have hA := valR_lt ν a
  have hB := valR_lt ν b
  rw [ha] at hA
  rw [hb] at hB
  have ea := shorten_val signed ν a
  have eb := shorten_val signed ν b
  rw [ha] at ea
  rw [hb] at eb
  have mA := toInt_modEq signed yw (valR ν a)
  have mB := toInt_modEq signed yw (valR ν b)
  have inj : toInt signed yw (valR ν a) = toInt signed yw (valR ν b) ↔ valR ν a = valR ν b := by
    constructor
    · intro h
      have hc : ((valR ν a : Nat) : Int) ≡ (valR ν b : Int) [ZMOD 2 ^ yw] := by
        have := mA.symm.trans (h ▸ mB)
        exact this
      have e1 := eq_ofInt hA hc
      have e2 := eq_ofInt hB (Int.ModEq.refl _)
      rw [e1, ← e2]
    · intro h; rw [h]
  refine ⟨?_, ?_, ?_, ?_, ?_⟩
  · rw [cellAdd_exact, ea, eb]
    symm
    apply eq_ofInt (Nat.mod_lt _ (Nat.two_pow_pos yw))
    refine (natCast_mod_pow _ _).trans ?_
    push_cast
    exact (mA.add mB).symm
  · rw [cellSub_exact _ _ _ _ _ _ _ lb, ea, eb]
    have h1 : toInt signed yw (valR ν a) - toInt signed yw (valR ν b) ≡ (valR ν a : Int) - valR ν b [ZMOD 2 ^ yw] :=
      mA.sub mB
    unfold ofInt
    rw [h1]
  · rw [cellMul_exact, ea, eb]
    symm
    apply eq_ofInt (Nat.mod_lt _ (Nat.two_pow_pos yw))
    refine (natCast_mod_pow _ _).trans ?_
    push_cast
    exact (mA.mul mB).symm
  · rw [cellEq_exact _ _ _ _ _ _ la lb, ea, eb]
    by_cases h : valR ν a = valR ν b
    · simp [h, b2n]
    · have : ¬ toInt signed yw (valR ν a) = toInt signed yw (valR ν b) := fun e => h (inj.mp e)
      simp [h, this, b2n]
  · rw [cellNe_exact _ _ _ _ _ _ la lb, ea, eb]
    by_cases h : valR ν a = valR ν b
    · simp [h, b2n]
    · have : ¬ toInt signed yw (valR ν a) = toInt signed yw (valR ν b) := fun e => h (inj.mp e)
      simp [h, this, b2n]

/-- test: the 4-net operand `s s s x` (sign-extended 2-bit value) is shortened to `s x` under the signed
reading and kept under the unsigned one -/
example : shortenR true [.var 0, .var 0, .var 0, .var 1] = [.var 0, .var 1] ∧
    shortenR false [.var 0, .var 0, .var 0, .var 1] = [.var 0, .var 0, .var 0, .var 1] ∧
    shortenR false [.c0, .c0, .var 0, .var 1] = [.var 0, .var 1] := by decide

/-- **Sigspec chunking** (shared with C07): the chunks printed for a value denote it bit for bit, most
significant chunk first, and their widths add up. -/
theorem sigspec_chunks (v : List Net) :
    (emitSpec v).bitRefs = v.map Net.ref ∧ (emitSpec v).width = v.length :=
  ⟨emitSpec_bits v, emitSpec_width v⟩

example : (emitSpec [.const true, .wire "\\a" 3, .wire "\\a" 4]).bitRefs = [.const .b1, .wire "\\a" 3, .wire "\\a" 4] := by
  decide +kernel

/-- **Flip-flop power-on value**: the evaluator starts the bits of a `Q` connection `n [hi:lo]` with the
slice `[hi:lo]` of the `init` attribute of wire `n`, and bit `i` of that attribute (counted from the
least significant end) is its `i`-th character from the right — so a flip-flop of a chunk starting at
bit `lo` must carry the initial value shifted by `lo`. -/
theorem dff_init (c : Ctx) (wires : Std.HashMap String (Option (List Bit))) (n : String) (hi lo : Nat) (bs : List Bit)
    (h : wires.getD n none = some bs) :
    initBits c wires (.slice n hi lo) = (bitsVal c.xres bs / 2 ^ lo) % 2 ^ (hi + 1 - lo) ∧
    ∀ i (hi' : i < bs.length), (bitsVal c.xres bs / 2 ^ i) % 2 = bitNat c.xres (bs.reverse[i]'(by simpa using hi')) := by
  refine ⟨?_, fun i hi' => bitsVal_bit c.xres bs.length bs rfl i hi'⟩
  simp [initBits, h]

/-- test: `init = 5'11101` (29): a `Q` connected to bits `[4:2]` starts at `111` -/
example : (bitsVal false [.b1, .b1, .b1, .b0, .b1] / 2 ^ 2) % 2 ^ (4 + 1 - 2) = 7 := by decide

end Amaranth.C04
