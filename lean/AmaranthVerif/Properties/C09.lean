import AmaranthVerif.Proofs.Repro

/-!
# C09 — elaboration and simulation are reproducible

**What is proved and what is explored.**  The property's headline claim — the RTLIL text is byte-identical
across interpreters started with different `PYTHONHASHSEED`s — is a claim about CPython's `set` iteration and
about the whole of `rtlil.convert`; it is *explored* by the subprocess differential in
`harness/checks/c09.py`, not proved.  The theorems below are about the model `Amaranth.Repro`
(`Model/Repro.lean`) of the places where the code could depend on an iteration order or on left-over state,
for **every** fragment, **every** callback, **every** enumeration order, **every** engine state and **every**
script:

* the functions that consume an unordered collection (`_create_missing_domains`, hence the ports that
  `prepare` appends; `BuildPlan.digest` / `archive`) give the same result for every enumeration of it;
* `Simulator.reset()` maps every state to the initial state of the same design, component by component, so
  whatever is run afterwards is observed exactly as on a fresh simulator; committing the `pending` set gives
  the same state in every iteration order;
* extracting a plan creates exactly its files.

`createMissingDomains` and `EngineState.reset` follow the *repaired* code (findings F3 and F21); the
behaviour of the code as it stands is `createMissingDomainsOld` / `EngineState.resetOld`, refuted below.
-/

namespace Amaranth.C09
open Amaranth.Repro

/-! ## Test data for the non-vacuity examples -/

/-- the `p03` witness, cut down: a module with statements in two undeclared domains -/
def twoDomains : Frag := .mk none [] [] ["alpha", "beta"] []

/-- a hierarchy: the top declares `sync`; an anonymous child uses `sync` (inherited), `pix` and `ClockSignal("aux")`;
a memory-like grandchild has a port in `pix` -/
def hier : Frag :=
  .mk none [⟨"sync", true⟩] [] ["comb", "sync"]
    [.mk none [] [] ["sync", "pix", "comb", "aux"] [.mk (some "mem") [] ["pix"] [] []],
     .mk (some "cd_local") [⟨"loc", false⟩] [] ["loc", "pix"] []]

/-- a callback with all three kinds of answers -/
def mixedMissing (name : String) : Missing :=
  if name == "aux" then .fragment (.mk none [⟨"aux", false⟩, ⟨"aux2", true⟩] [] ["comb"] [])
  else if name == "nope" then .none
  else .domain ⟨name, name != "pix"⟩

/-! ## Implicitly created clock domains do not depend on the iteration order of the set -/

/-- `_create_missing_domains` (repaired) gives the same fragment, the same new domains and the same error for
every order in which `used_domains - defined_domains` is enumerated -/
theorem missing_domains_order_free (missing : String → Missing) (f : Frag) :
    Spec.OrderFree (fun order => createMissingDomains missing order f) := by
  intro o₁ o₂ h
  simp only [createMissingDomains, sortNames_congr h]

/-- so does the whole of `_propagate_domains` -/
theorem propagate_domains_order_free (missing : String → Missing) (f : Frag) :
    Spec.OrderFree (fun order => propagateDomains missing order f) := by
  intro o₁ o₂ h
  simp only [propagateDomains, createMissingDomains, sortNames_congr h]

/-- the port list of the prepared design (the user's ports, then clock and reset of every created domain)
does not depend on the enumeration order -/
theorem ports_order_free (user : List (String × PortKind)) (missing : String → Missing) (f : Frag) :
    Spec.OrderFree (fun order => preparePorts user missing order f) := by
  intro o₁ o₂ h
  simp only [preparePorts, propagateDomains, createMissingDomains, sortNames_congr h]

-- non-vacuity: both enumerations of a two-element set, a hierarchy with scoping, all callback answers
example : ["aux", "pix"].Perm ["pix", "aux"] := List.Perm.swap _ _ _
example : usedSet (propagateDown hier) = ["pix", "aux"] := by decide
example : preparePorts [("sync", .clk)] mixedMissing ["pix", "aux"] hier
    = .ok [("sync", .clk), ("pix", .clk)] := by decide
example : (propagateDomains mixedMissing ["aux", "pix"] hier).map (fun r => (r.1.domainNames, r.1.subs.map Frag.name))
    = .ok (["sync", "aux", "aux2", "pix"], [none, some "cd_local", some "cd_aux"]) := by decide
example : errorOf (createMissingDomains mixedMissing ["pix", "nope", "aux"] hier) = some (.undefined "nope") := by decide

/-- **F3, refuted for the code as it stands**: iterating the set in two orders gives two port lists -/
example : preparePortsOld [] defaultMissing ["alpha", "beta"] twoDomains
    ≠ preparePortsOld [] defaultMissing ["beta", "alpha"] twoDomains := by decide

/-- and two different errors when more than one domain cannot be created -/
example : errorOf (createMissingDomainsOld (fun _ => .none) ["alpha", "beta"] twoDomains)
    ≠ errorOf (createMissingDomainsOld (fun _ => .none) ["beta", "alpha"] twoDomains) := by decide

/-- the repair changes nothing for the hash seeds under which the set happened to be enumerated in
ascending order -/
theorem missing_domains_sorted_agree (missing : String → Missing) (order : List String) (f : Frag)
    (h : order.Pairwise (· ≤ ·)) :
    createMissingDomains missing order f = createMissingDomainsOld missing order f := by
  simp only [createMissingDomains, sortNames_of_sorted h]

example : (["alpha", "beta"] : List String).Pairwise (· ≤ ·) := by decide

/-! ## Reset restores the initial state -/

/-- for **every** state of the engine — reachable or not — `reset()` produces the state of a freshly
constructed simulator of the same design: timeline, every slot's `curr`/`next`, every memory's `data` and
`write_queue`, `pending`, every process and testbench (`runnable`, `critical`, `initial`, `waits_on`,
coroutine position, `first_await`), `_active_triggers`, `_delta_cycles`, `_running` -/
theorem reset_is_init : Spec.RestoresInitial EngineState.design initial EngineState.reset := by
  intro s
  simp only [EngineState.reset, EngineState.resetOld, initial, EngineState.design, Timeline.reset,
    List.map_map]
  congr 1 <;> apply List.map_congr_left <;> intro x _ <;>
    first | exact slot_reset_fresh x | exact proc_reset_fresh x

/-- hence a script run after `reset()` is observed exactly as on a fresh simulator -/
theorem rerun_same :
    Spec.SameRerun EngineState.design initial EngineState.reset (fun s script => trace (run s script)) := by
  intro s script
  simp only [reset_is_init s]

theorem reset_idempotent (s : EngineState) : s.reset.reset = s.reset := by
  rw [reset_is_init s.reset, reset_is_init s, design_initial]

/-- after **any** history of a simulation of design `d`, `reset()` gives the initial state of `d` -/
theorem reset_after_run (d : Design) (script : List Op) : (run (initial d) script).1.reset = initial d := by
  rw [reset_is_init, run_design, design_initial]

/-- run, reset, run again: the second trace is the trace of a fresh simulator, whatever the first run did -/
theorem run_reset_run (d : Design) (first script : List Op) :
    trace (run (run (initial d) first).1.reset script) = trace (run (initial d) script) := by
  rw [reset_after_run]

/-- a clock, a register and a memory; one combinational process, the clock process, one critical testbench -/
def smallDesign : Design :=
  ⟨[.signal 0, .signal 5, .memory [1, 2, 3]], [.rtl true, .rtl false, .clock 0 0 10], [.coro true false]⟩

/-- a history that dirties every component: signal and memory writes (one committed, one left pending), a
clock edge, a delay, the testbench suspended on a trigger that has fired -/
def dirty : List Op :=
  [.setRunning, .runRtl 0, .runClock 2 100, .advance, .wakeProc 2, .runClock 2 101, .update 1 9, .memWrite 2 1 7,
   .commit, .coroAwait true 0 1, .setWaker 7 25, .advance, .activate 1, .memWrite 2 0 4, .update 1 3,
   .setCritical true 0 true]

-- non-vacuity: the dirty state differs from the initial one in every component, the reset restores it,
-- and the observations of a rerun are those of a fresh simulator
example : let s := (run (initial smallDesign) dirty).1
    s.timeline ≠ (initial smallDesign).timeline ∧ s.slots ≠ (initial smallDesign).slots
    ∧ s.pending ≠ [] ∧ s.procs ≠ (initial smallDesign).procs ∧ s.tbs ≠ (initial smallDesign).tbs
    ∧ s.activeTriggers ≠ [] ∧ s.deltaCycles ≠ 0 ∧ s.running = true := by decide
example : (run (initial smallDesign) dirty).1.reset = initial smallDesign := by decide
example : trace (run (initial smallDesign) (dirty ++ [.get 0, .get 1, .read 2 1, .now]))
    = [.value 1, .value 9, .value 7, .time 5] := by decide

/-- **F21, refuted for the code as it stands**: `reset()` leaves the fired trigger queued and the delta
counter running, so the state is not that of a fresh simulator -/
example : (run (initial smallDesign) dirty).1.resetOld ≠ initial smallDesign := by decide
example : (run (initial smallDesign) dirty).1.resetOld.activeTriggers = [1] := by decide

/-- `_PyEngineState.commit` iterates the `pending` *set*: every iteration order gives the same state -/
theorem commit_order_free (s : EngineState) :
    Spec.OrderFree (fun pending => opCommit { s with pending := pending }) :=
  fun _ _ h => opCommit_perm s h

example : opCommit { (run (initial smallDesign) dirty).1 with pending := [1, 2] }
    = opCommit { (run (initial smallDesign) dirty).1 with pending := [2, 1] } := by decide
example : (opCommit (run (initial smallDesign) dirty).1).slots
    = [.signal 0 1 1, .signal 5 3 3, .memory [1, 2, 3] [4, 7, 3] []] := by decide

/-! ## The created ports are those the specification lists -/

/-- with a callback that creates a domain of the requested name (the default), for every enumeration `order`
of a set of pairwise distinct undefined names: the prepared design has the user's ports followed by clock
and reset of every created domain in ascending name order -/
theorem ports_ascending (r : String → Bool) (missing : String → Missing)
    (hm : ∀ n, missing n = .domain ⟨n, r n⟩) (user : List (String × PortKind)) (order : List String) (f : Frag)
    (hnd : order.Nodup) (hc : "comb" ∉ order) (hd : ∀ n ∈ order, n ∉ f.domainNames) :
    (preparePorts user missing order f).map (List.map toSpecPort)
      = .ok (user.map toSpecPort ++ Spec.expectedPorts order r) := by
  have hp := sortNames_perm order
  have h := createLoop_domains r missing hm (sortNames order) (propagateDown f) []
    (hp.nodup_iff.mpr hnd) (fun h => hc (hp.mem_iff.mp h))
    (fun n hn => by
      simp only [Frag.domainNames, propagateDown_domains]
      exact hd n (hp.mem_iff.mp hn))
  simp only [preparePorts, propagateDomains, createMissingDomains, createMissingDomainsOld, h, List.nil_append]
  simp only [bind, Except.bind, pure, Except.pure, Except.map, List.map_append, portsOf_spec,
    Spec.expectedPorts, sortNames_eq_ascending]

example : preparePorts [("sync", .clk)] defaultMissing ["pix", "aux"] hier
    = .ok [("sync", .clk), ("aux", .clk), ("aux", .rst), ("pix", .clk), ("pix", .rst)] := by decide
example : (["pix", "aux"] : List String).Nodup ∧ "comb" ∉ ["pix", "aux"] ∧ ∀ n ∈ ["pix", "aux"], n ∉ hier.domainNames := by
  decide

/-! ## Build plans -/

/-- any order of `add_file` calls with the same files gives the same digest (whatever the hash function) -/
theorem digest_order_free {δ : Type} (hash : Bytes → δ) (script : String) (calls₁ calls₂ : List (String × Bytes))
    (p₁ p₂ : Plan) (h₁ : Plan.ofCalls script calls₁ = .ok p₁) (h₂ : Plan.ofCalls script calls₂ = .ok p₂)
    (hperm : calls₁.Perm calls₂) : p₁.digest hash = p₂.digest hash := by
  obtain ⟨e₁, hn⟩ := ofCalls_ok h₁
  obtain ⟨e₂, _⟩ := ofCalls_ok h₂
  subst e₁ e₂
  simp only [Plan.digest]
  rw [digestInput_congr (p₁ := ⟨script, calls₁⟩) (p₂ := ⟨script, calls₂⟩) rfl hperm hn]

/-- as a statement about the plan's files: the digest input depends only on the finite map -/
theorem digest_files_only (script : String) :
    Spec.FilesOnly (fun files => (Plan.mk script files).digestInput) :=
  fun _ _ hp hn => digestInput_congr rfl hp hn

/-- the digest input is what the specification says identifies a plan -/
theorem digest_is_identity (p : Plan) : p.digestInput = Spec.identity utf8 p.script p.files := by
  simp only [Plan.digestInput, Spec.identity, Spec.ascendingFiles, List.flatMap_map, sortNames_eq_ascending,
    Plan.names, content_eq_contentOf]

/-- the archive members are the plan's files in ascending name order … -/
theorem archive_sorted (p : Plan) :
    Spec.IsAscendingEnumOf (p.archive.map (·.name)) p.names
      ∧ ∀ m ∈ p.archive, m.dateTime = (1980, 1, 1, 0, 0, 0) ∧ m.data = p.content m.name := by
  refine ⟨?_, ?_⟩
  · rw [archive_names]
    exact ⟨sortNames_perm _, sortNames_sorted _⟩
  · intro m hm
    simp only [Plan.archive, List.mem_map] at hm
    obtain ⟨n, _, rfl⟩ := hm
    exact ⟨rfl, rfl⟩

/-- … and depend only on the set of files: any two plans with the same files (in any insertion order) give
the same member list, hence the same archive -/
theorem archive_deterministic (script₁ script₂ : String) :
    Spec.FilesOnly (fun files => (Plan.mk script₁ files).archive) ∧
    ∀ files, (Plan.mk script₁ files).archive = (Plan.mk script₂ files).archive :=
  ⟨fun _ _ hp hn => archive_congr hp hn, fun _ => rfl⟩

def plan₁ : Plan := ⟨"build_top", [("top.il", [1, 2]), ("build_top.sh", [3]), ("sub/a.v", [])]⟩
def plan₂ : Plan := ⟨"build_top", [("sub/a.v", []), ("top.il", [1, 2]), ("build_top.sh", [3])]⟩

example : Plan.ofCalls "build_top" plan₁.files = .ok plan₁ ∧ Plan.ofCalls "build_top" plan₂.files = .ok plan₂ := by
  decide
example : plan₁.files.Perm plan₂.files := by decide
example : plan₁.archive.map (·.name) = ["build_top.sh", "sub/a.v", "top.il"] := by decide
example : plan₁.archive = plan₂.archive := by decide
example : plan₁.digestInput = plan₂.digestInput := digestInput_congr rfl (by decide) (by decide)
example : errorOf (Plan.ofCalls "s" [("a", []), ("a", [1])]) = some (.duplicate "a")
    ∧ errorOf (Plan.ofCalls "s" [("/etc/x", [])]) = some (.absolute "/etc/x") := by decide

/-- extracting a plan into an empty build root succeeds and creates exactly the plan's files with the
plan's contents (and only the directories that lead to them) -/
theorem extract_exact (p : Plan) (h : Extractable p) :
    ∃ t, p.extract Tree.empty = .ok t
      ∧ t.files = p.files.map (fun f => (pathParts f.1, f.2))
      ∧ ∀ d ∈ t.dirs, ∃ f ∈ p.files, d ∈ properPrefixes (pathParts f.1) := by
  have hmem : ∀ f ∈ p.files, pathParts f.1 ∈ planPaths p := fun f hf => List.mem_map_of_mem hf
  obtain ⟨t, ht, inv⟩ := extract_fold p.files
    (fun f hf => h.noParent _ (hmem f hf)) (fun f hf => h.nonempty _ (hmem f hf))
    (fun f hf g hg => h.prefixFree _ (hmem f hf) _ (hmem g hg)) h.nodup
    p.files [] Tree.empty (by simp) ⟨rfl, by simp [Tree.empty]⟩
  exact ⟨t, ht, inv.1, inv.2⟩

instance (p : Plan) : Decidable (Extractable p) :=
  decidable_of_iff ((planPaths p).Nodup ∧ (∀ q ∈ planPaths p, ".." ∉ q) ∧ (∀ q ∈ planPaths p, q ≠ [])
      ∧ ∀ a ∈ planPaths p, ∀ b ∈ planPaths p, a ∉ properPrefixes b)
    ⟨fun ⟨a, b, c, d⟩ => ⟨a, b, c, d⟩, fun ⟨a, b, c, d⟩ => ⟨a, b, c, d⟩⟩

example : Extractable plan₁ := by decide
example : plan₁.extract Tree.empty
    = .ok ⟨[["sub"]], [(["top.il"], [1, 2]), (["build_top.sh"], [3]), (["sub", "a.v"], [])]⟩ := by decide
-- the hypotheses are needed: two names that `pathlib` normalises to the same path overwrite each other, and
-- a file cannot also be a directory
example : (Plan.mk "s" [("a/b", [1]), ("a//b", [2])]).extract Tree.empty = .ok ⟨[["a"]], [(["a", "b"], [2])]⟩ := by
  decide
example : (Plan.mk "s" [("a", [1]), ("a/b", [2])]).extract Tree.empty = .error (.notDirectory "a/b") := by decide

end Amaranth.C09
