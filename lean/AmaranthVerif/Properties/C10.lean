import AmaranthVerif.Proofs.ShapeCast

/-!
# C10 — shape casting and constant normalisation are exact and minimal

Every theorem is about the executable model of `Model/ShapeCast.lean` (and `ceilLog2`/`bitsFor` of
`Model/Shape.lean`) and quantifies over all integers, ranges, enumerations, shapes and constant
trees. `Spec.rangeElems` is the loop reading of a Python `range`; `Spec.Narrowest s xs` says that
`s` is constructible, holds every element of `xs`, is signed exactly when some element is negative,
and that no constructible shape of the same signedness holding all of `xs` is narrower.
-/

namespace Amaranth.C10

open Amaranth Amaranth.Spec

/-! ## bit-count helpers -/

/-- `ceil_log2(n)` is the least `k` with `n ≤ 2^k`. -/
theorem ceil_log2_spec (n : Nat) :
    n ≤ 2 ^ ceilLog2 n ∧ ∀ k, n ≤ 2 ^ k → ceilLog2 n ≤ k :=
  ⟨(ceilLog2_le_iff n _).1 (Nat.le_refl _), fun k h => (ceilLog2_le_iff n k).2 h⟩

example : ceilLog2 1024 = 10 ∧ ceilLog2 1025 = 11 ∧ ceilLog2 1 = 0 ∧ ceilLog2 0 = 0 := by decide

/-- `bits_for(n, require_sign_bit)` for `n ≠ 0` is the least width `w` at which the shape
`Shape(w, signed = n < 0 or require_sign_bit)` is constructible and holds `n`;
`bits_for(0, ·) = 1` (the code forces a sign bit for `n ≤ 0`, so 0 takes one bit although
`unsigned(0)` holds it). -/
theorem bits_for_spec (n : Int) (rs : Bool) :
    (n ≠ 0 →
      let sg := decide (n < 0) || rs
      ((Shape.mk (bitsFor n rs) sg).WF ∧ (Shape.mk (bitsFor n rs) sg).contains n) ∧
      ∀ w, (Shape.mk w sg).WF → (Shape.mk w sg).contains n → bitsFor n rs ≤ w) ∧
    (n = 0 → bitsFor n rs = 1) := by
  refine ⟨fun h0 => ⟨(bitsFor_le_iff h0 rs _).1 (Nat.le_refl _), fun w h1 h2 => (bitsFor_le_iff h0 rs w).2 ⟨h1, h2⟩⟩, ?_⟩
  rintro rfl; exact bitsFor_zero rs

example : bitsFor 255 false = 8 ∧ bitsFor 256 false = 9 ∧ bitsFor 256 true = 10 ∧
    bitsFor (-256) false = 9 ∧ bitsFor (-257) false = 10 ∧ bitsFor (-1) false = 1 := by decide

/-! ## ranges -/

/-- the loop reading of `range(a, b, k)` is the set `{a + i·k | i ∈ ℕ, before b}` -/
theorem range_elems_spec (a b k x : Int) :
    x ∈ rangeElems a b k ↔
      ∃ i : Nat, x = a + (i : Int) * k ∧ ((0 < k ∧ x < b) ∨ (k < 0 ∧ b < x)) :=
  mem_rangeElems_iff

/-- `len(range)` and `range[i]` as modelled enumerate exactly the loop reading. -/
theorem range_len_items (a b k : Int) :
    rangeElems a b k = (List.range (rangeLen a b k)).map (rangeItem a k) :=
  rangeElems_eq a b k

example : rangeElems 7 (-6) (-4) = [7, 3, -1, -5] ∧ rangeLen 7 (-6) (-4) = 4 := by decide

/-- the shape a range casts to is constructible -/
theorem range_wf (a b k : Int) : (castRange a b k).WF := castRange_WF a b k

/-- every element of the range is representable in the shape the range casts to -/
theorem range_contains (a b k : Int) : ∀ x ∈ rangeElems a b k, (castRange a b k).contains x :=
  castRange_holds a b k

/-- any constructible shape of the same signedness holding every element is at least as wide -/
theorem range_minimal (a b k : Int) (s : Shape) (hwf : s.WF)
    (hall : ∀ x ∈ rangeElems a b k, s.contains x) (hsg : s.signed = (castRange a b k).signed) :
    (castRange a b k).width ≤ s.width :=
  castRange_least a b k s hwf hsg hall

example : castRange (-3) 9 1 = ⟨5, true⟩ ∧ castRange (-3) 8 1 = ⟨4, true⟩ ∧
    (∀ x ∈ rangeElems (-3) 9 1, (Shape.mk 5 true).contains x) := by
  decide

/-- signed exactly when some element is negative -/
theorem range_signed (a b k : Int) :
    (castRange a b k).signed = true ↔ ∃ x ∈ rangeElems a b k, x < 0 :=
  castRange_signed_iff a b k

example : (castRange 7 (-6) (-4)).signed = true ∧ (-5 : Int) ∈ rangeElems 7 (-6) (-4) ∧
    (castRange 7 0 (-4)).signed = false := by decide

/-- the hypotheses of `range_minimal` are satisfiable by a wider shape -/
example : (Shape.mk 6 true).WF ∧ (∀ x ∈ rangeElems (-3) 9 1, (Shape.mk 6 true).contains x) ∧
    (Shape.mk 6 true).signed = (castRange (-3) 9 1).signed := by decide

/-- empty ranges and the range containing only 0 give `unsigned(0)` -/
theorem range_empty_zero (a b k : Int)
    (h : rangeElems a b k = [] ∨ rangeElems a b k = [0]) : castRange a b k = ⟨0, false⟩ :=
  castRange_empty_or_zero h

example : rangeElems 5 5 1 = [] ∧ rangeElems 0 3 7 = [0] ∧ castRange 0 3 7 = ⟨0, false⟩ := by decide

/-- all of the above in one statement, and the shape is determined by it: the cast of a range is
*the* narrowest shape of its elements — in particular it equals the Spec's brute-force search. -/
theorem range_narrowest (a b k : Int) :
    Narrowest (castRange a b k) (rangeElems a b k) ∧
    (∀ s, Narrowest s (rangeElems a b k) → s = castRange a b k) ∧
    castRange a b k = narrowest (rangeElems a b k) :=
  ⟨castRange_narrowest a b k, fun _ hs => hs.unique (castRange_narrowest a b k),
   (castRange_narrowest a b k).unique (narrowest_spec _)⟩

/-- F15: the code as found asks `len(range)` and therefore fails on ranges with 2^63 or more
elements, whose narrowest shape exists like any other's. -/
example : castRangeOld 0 (2 ^ 64) 1 = none ∧ castRange 0 (2 ^ 64) 1 = ⟨64, false⟩ := by decide

/-! ## enumerations -/

/-- `Shape._cast_plain_enum` is the fold of `Shape._unify` over the members' constant shapes
(`Const(v).shape()`, so 0 is one unsigned bit); the result is constructible, holds every member
(and 1 when 0 is a member — the documented footprint of the constant 0), is signed exactly when a
member is negative, and is the narrowest such shape. -/
theorem enum_spec (vs : List Int) :
    castEnum vs = (vs.map constShape).foldl Shape.unify ⟨0, false⟩ ∧
    (∀ v ∈ vs, (castEnum vs).contains v) ∧
    ((castEnum vs).signed = true ↔ ∃ v ∈ vs, v < 0) ∧
    Narrowest (castEnum vs) (enumFootprint vs) ∧
    castEnum vs = narrowest (enumFootprint vs) := by
  have h := castEnum_narrowest vs
  refine ⟨castEnum_eq vs, ?_, castEnum_signed_iff vs, h, h.unique (narrowest_spec _)⟩
  intro v hv
  exact h.holds v (List.mem_append_left _ hv)

/-- the constant shape of a member is itself the narrowest shape of the member's footprint -/
theorem enum_member_shape (v : Int) : Narrowest (constShape v) (enumFootprint [v]) := by
  have := castEnum_narrowest [v]
  have e : castEnum [v] = constShape v := by
    rw [castEnum_eq]
    rcases h : constShape v with ⟨w, sg⟩
    have hwf : (Shape.mk w sg).WF := h ▸ constShape_WF v
    simp only [List.map_cons, List.map_nil, List.foldl_cons, List.foldl_nil, h]
    cases sg
    · simp [Shape.unify]
    · have : 0 < w := hwf rfl
      simp [Shape.unify]; omega
  rwa [e] at this

example : castEnum [0, -1] = ⟨2, true⟩ ∧ castEnum [3, -4] = ⟨3, true⟩ ∧ castEnum [] = ⟨0, false⟩ ∧
    castEnum [0] = ⟨1, false⟩ := by decide

/-! ## constants -/

/-- a constant built with a constructible shape holds the unique value of the shape's range that
is congruent to the given integer modulo `2^width` -/
theorem const_norm (v : Int) (s : Shape) (h : s.WF) :
    s.contains (constNorm v s) ∧ (constNorm v s - v) % (2 ^ s.width : Int) = 0 ∧
    (∀ r, s.contains r → (r - v) % (2 ^ s.width : Int) = 0 → r = constNorm v s) ∧
    constNorm v s = constOf s v := by
  have hc := constNorm_isConstOf h v
  exact ⟨hc.1, hc.2, fun r h1 h2 => isConstOf_unique h ⟨h1, h2⟩ hc,
    isConstOf_unique h hc (constOf_spec h v)⟩

example : constNorm 200 ⟨8, true⟩ = -56 ∧ constNorm (-1) ⟨4, false⟩ = 15 ∧ constNorm 8 ⟨4, true⟩ = -8 ∧
    constNorm 5 ⟨0, false⟩ = 0 := by decide

/-- `Const(v)` keeps `v` and takes the narrowest shape of `v`'s footprint -/
theorem const_auto (v : Int) : constAuto v = (v, constShape v) := constAuto_eq v

/-- a value taken from a range is unchanged by a constant of the range's shape -/
theorem const_range_exact (v a b k : Int) (h : v ∈ rangeElems a b k) :
    (constRange v a b k).1 = v :=
  constNorm_of_contains (castRange_WF a b k) (castRange_holds a b k v h)

example : (6 : Int) ∈ rangeElems 0 10 2 ∧ (constRange 6 0 10 2).1 = 6 ∧ (constRange 7 0 10 2).1 = 7 ∧
    (constRange 17 0 10 2).1 = 1 := by decide

/-- constant-casting a tree of `Const`, `Cat` and slices yields the integer the tree denotes (and
the tree's shape), for every such tree -/
theorem const_cast_eval (e : Expr) (h : e.isConstTree = true) :
    constCast e = some (denote [] [] e, shapeOf [] e) :=
  const_cast_eval_aux e h

/-- and nothing else is constant-castable -/
theorem const_cast_none (e : Expr) (h : e.isConstTree = false) : constCast e = none := by
  induction e with
  | const v s => simp [Expr.isConstTree] at h
  | cat lo hi ihl ihh =>
    simp only [Expr.isConstTree, Bool.and_eq_false_iff] at h
    rcases h with h | h
    · simp [constCast, ihl h]
    · simp only [constCast, ihh h]
      split <;> simp_all
  | slice a _ _ ih =>
    simp only [Expr.isConstTree] at h
    simp [constCast, ih h]
  | _ => rfl

example : Expr.isConstTree (.op1 .inv (.const 1 ⟨1, false⟩)) = false ∧
    constCast (.cat (.op1 .inv (.const 1 ⟨1, false⟩)) Expr.nil) = none := by decide

example : constCast (.slice (.cat (.const (-3) ⟨4, true⟩) (.cat (.const 2 ⟨2, false⟩) Expr.nil)) 2 6)
    = some (11, ⟨4, false⟩) := by decide

/-! ## initial values of signals and memory rows -/

/-- `Signal(shape, init=v)` / a memory row of a plain constructible shape holds the constant of
that shape built from `v` (same wrap as `Const`); no initial value means 0; a constant tree is
evaluated first. -/
theorem init_wrap (s : Shape) (h : s.WF) :
    (∀ v : Int, ∃ w, initValue (.int v) (.shape s) = .ok (constNorm v s) w ∧ IsConstOf s v (constNorm v s)) ∧
    initValue .none (.shape s) = .ok 0 .none ∧
    (∀ e : Expr, e.isConstTree = true →
      ∃ w, initValue (.expr e) (.shape s) = .ok (constNorm (denote [] [] e) s) w) ∧
    (∀ e : Expr, e.isConstTree = false → initValue (.expr e) (.shape s) = .typeError) := by
  refine ⟨fun v => ⟨initWarn (.int v) (constShape v) s, ?_, constNorm_isConstOf h v⟩, ?_, ?_, ?_⟩
  · rw [initValue_int]; simp [initOutOfRange, ShapeArg.cast]
  · simp [initValue, initConst, constAuto_eq, initWarn, initWarnApplies, initOutOfRange, ShapeArg.cast,
      constNorm_of_contains h (contains_zero s)]
  · intro e he
    refine ⟨initWarn (.expr e) (shapeOf [] e) s, ?_⟩
    simp [initValue, initConst, const_cast_eval e he, initOutOfRange, ShapeArg.cast]
  · intro e he
    simp [initValue, initConst, const_cast_none e he]

/-- a range-shaped signal (or memory) accepts exactly the integers of its range, keeps them
unchanged and without warning, and rejects every other integer; without an initial value it
starts at 0 whether or not 0 is in the range. -/
theorem init_range (a b k : Int) :
    (∀ v ∈ rangeElems a b k, initValue (.int v) (.range a b k) = .ok v .none) ∧
    (∀ v, v ∉ rangeElems a b k → initValue (.int v) (.range a b k) = .syntaxError) ∧
    initValue .none (.range a b k) = .ok 0 .none := by
  have hwf := castRange_WF a b k
  refine ⟨?_, ?_, ?_⟩
  · intro v hv
    have hc := castRange_holds a b k v hv
    have hin : rangeContains a b k v = true := rangeContains_iff.2 hv
    rw [initValue_int]
    simp only [initOutOfRange, hin, Bool.not_true, Bool.false_eq_true, if_false, ShapeArg.cast,
      constNorm_of_contains hwf hc]
    congr 1
    by_cases h0 : v = 0
    · subst h0; simp [initWarn, initWarnApplies]
    · by_cases h1 : v = -1
      · subst h1; simp [initWarn, initWarnApplies]
      · exact (initWarn_none_iff h0 h1 hwf).2 hc
  · intro v hv
    have hin : rangeContains a b k v = false := by
      cases h : rangeContains a b k v
      · rfl
      · exact absurd (rangeContains_iff.1 h) hv
    rw [initValue_int]
    simp [initOutOfRange, hin]
  · simp [initValue, initConst, constAuto_eq, initWarn, initWarnApplies, initOutOfRange, ShapeArg.cast,
      constNorm_of_contains hwf (contains_zero _)]

/-- … and the same for an initial value given as a constant expression (a `Const`, a concatenation or slice of
constants, an enumeration member): it is accepted exactly when its *value* is an element of the range, and then kept
unchanged (after the F35 repair; the code as found compared the object itself with the range's elements). -/
theorem init_range_expr (a b k : Int) (e : Expr) (he : e.isConstTree = true) :
    (denote [] [] e ∈ rangeElems a b k →
      ∃ w, initValue (.expr e) (.range a b k) = .ok (denote [] [] e) w) ∧
    (denote [] [] e ∉ rangeElems a b k → initValue (.expr e) (.range a b k) = .syntaxError) := by
  have hwf := castRange_WF a b k
  constructor
  · intro hv
    have hin : rangeContains a b k (denote [] [] e) = true := rangeContains_iff.2 hv
    refine ⟨initWarn (.expr e) (shapeOf [] e) (castRange a b k), ?_⟩
    simp [initValue, initConst, const_cast_eval e he, initOutOfRange, hin, ShapeArg.cast,
      constNorm_of_contains hwf (castRange_holds a b k _ hv)]
  · intro hv
    have hin : rangeContains a b k (denote [] [] e) = false := by
      cases h : rangeContains a b k (denote [] [] e)
      · rfl
      · exact absurd (rangeContains_iff.1 h) hv
    simp [initValue, initConst, const_cast_eval e he, initOutOfRange, hin]

example : initValue (.expr (.const 3 ⟨4, false⟩)) (.range 0 10 1) = .ok 3 .none ∧
    initValue (.expr (.const 10 ⟨4, false⟩)) (.range 0 10 1) = .syntaxError ∧
    initValue (.expr (.cat (.const 1 ⟨1, false⟩) (.cat (.const 1 ⟨2, false⟩) Expr.nil))) (.range 0 4 1) = .ok 3 .truncated := by
  decide

example : initValue (.int 10) (.range 0 10 1) = .syntaxError ∧ initValue (.int 3) (.range 0 10 2) = .syntaxError ∧
    initValue (.int 4) (.range 0 10 2) = .ok 4 .none ∧ initValue (.int (-3)) (.shape ⟨4, false⟩) = .ok 13 .signedToUnsigned ∧
    initValue (.int 8) (.shape ⟨4, true⟩) = .ok (-8) .truncated := by decide

/-- the two warnings are exact: for an integer other than 0 and -1 (which are exempted in the
code), no warning is issued exactly when the initial value is stored unchanged. -/
theorem init_warning_exact (v : Int) (h0 : v ≠ 0) (h1 : v ≠ -1) (s : Shape) (h : s.WF) :
    ∃ r w, initValue (.int v) (.shape s) = .ok r w ∧ (w = .none ↔ r = v) := by
  refine ⟨constNorm v s, initWarn (.int v) (constShape v) s, ?_, ?_⟩
  · rw [initValue_int]; simp [initOutOfRange, ShapeArg.cast]
  · rw [initWarn_none_iff h0 h1 h]
    constructor
    · intro hc; exact constNorm_of_contains h hc
    · intro e; rw [← e]; exact (constNorm_isConstOf h v).1

example : (5 : Int) ≠ 0 ∧ (5 : Int) ≠ -1 ∧ (Shape.mk 4 false).WF ∧ (Shape.mk 4 true).WF ∧
    initValue (.int 5) (.shape ⟨4, false⟩) = .ok 5 .none ∧
    initValue (.int 21) (.shape ⟨4, false⟩) = .ok 5 .truncated := by decide

/-- memory initial contents: too many values are refused; otherwise there are exactly `depth` rows,
row `i` is the initial value of the `i`-th given element and the remaining rows are 0. -/
theorem init_memory (elems : List InitArg) (sh : ShapeArg) (depth : Nat) :
    (depth < elems.length → memInit elems sh depth = none) ∧
    (elems.length ≤ depth → ∃ rows, memInit elems sh depth = some rows ∧ rows.length = depth ∧
      (∀ i (h : i < elems.length), rows[i]? = some (initValue elems[i] sh)) ∧
      (∀ i, elems.length ≤ i → i < depth → rows[i]? = some (.ok 0 .none))) :=
  memInit_spec elems sh depth

example : memInit [.int 1, .int (-2), .int 17] (.shape ⟨4, false⟩) 4 =
    some [.ok 1 .none, .ok 14 .signedToUnsigned, .ok 1 .truncated, .ok 0 .none] := by decide

end Amaranth.C10
