import AmaranthVerif.Spec.Denote
namespace Amaranth.C01
theorem placeholder : True := trivial
end Amaranth.C01
