import AmaranthVerif.Proofs.Exact
import AmaranthVerif.Proofs.IntBits
import AmaranthVerif.Proofs.DerivedSpec

/-!
# C01 — operators compute exact integer results in shapes that never overflow

`denote` (Spec/Denote.lean) is the exact Python-integer meaning of an expression with the three
documented deviations; `shapeOf` follows `Operator.shape` & co.; `evalRtl` follows the compiled
simulator (`_RHSValueCompiler`, after the F1 repair). All theorems quantify over every context,
every environment whose signals hold values of their shapes, and every well-formed expression of
any depth and any widths.
-/

namespace Amaranth.C01
open Amaranth

/-- The reported shape is constructible and always able to represent the exact result:
no operator overflows, wraps or loses a sign. -/
theorem shape_sound (ctx : Ctx) (env : Env) (hok : EnvOk ctx env) (e : Expr) (hwf : e.wf ctx = true) :
    (shapeOf ctx e).WF ∧ (shapeOf ctx e).contains (denote ctx env e) :=
  ⟨(sound ctx env hok e hwf).swf, (sound ctx env hok e hwf).rng⟩

/-- A simulated circuit computing the expression yields exactly the exact result: the compiled
code's value, normalised to the expression's shape as every assignment does, is `denote`. -/
theorem rtl_exact (ctx : Ctx) (env : Env) (hok : EnvOk ctx env) (e : Expr) (hwf : e.wf ctx = true) :
    rtlValue ctx env e = denote ctx env e :=
  (sound ctx env hok e hwf).sgn

/-- What a consumer that only masks (bit-vector contexts: `Cat`, reductions, switch tests) sees. -/
theorem rtl_operand_mask (ctx : Ctx) (env : Env) (hok : EnvOk ctx env) (e : Expr) (hwf : e.wf ctx = true) :
    mask (widthOf ctx e) (evalRtl ctx env e) = denote ctx env e % 2 ^ widthOf ctx e :=
  (sound ctx env hok e hwf).msk

/-- The value a circuit computes stays inside the reported shape (corollary). -/
theorem rtl_in_shape (ctx : Ctx) (env : Env) (hok : EnvOk ctx env) (e : Expr) (hwf : e.wf ctx = true) :
    (shapeOf ctx e).contains (rtlValue ctx env e) := by
  rw [rtl_exact ctx env hok e hwf]; exact (shape_sound ctx env hok e hwf).2

/-! ### The functions the Spec shares with the Model, characterised independently -/

/-- `&`, `|`, `^` on unbounded Python integers are bitwise on the infinite two's-complement representations, and shifts
move bits (so the Spec's use of `pyAnd`/`pyOr`/`pyXor` stands for "the mathematical bitwise operation"). -/
theorem spec_bitwise (x y : Int) (k n : Nat) :
    ibit (pyAnd x y) k = (ibit x k && ibit y k) ∧ ibit (pyOr x y) k = (ibit x k || ibit y k) ∧
    ibit (pyXor x y) k = (ibit x k ^^ ibit y k) ∧ ibit (pyNot x) k = !ibit x k ∧
    ibit (pyShr x n) k = ibit x (k + n) ∧ ibit (pyShl x n) k = (decide (n ≤ k) && ibit x (k - n)) :=
  ⟨ibit_pyAnd x y k, ibit_pyOr x y k, ibit_pyXor x y k, ibit_pyNot x k, ibit_pyShr x n k, ibit_pyShl x n k⟩

/-- `norm s v` is the value of shape `s` congruent to `v` modulo `2^width`, and the only one. -/
theorem spec_norm (s : Shape) (h : s.WF) (v : Int) :
    s.contains (norm s v) ∧ norm s v % 2 ^ s.width = v % 2 ^ s.width ∧
    ∀ r, s.contains r → r % 2 ^ s.width = v % 2 ^ s.width → r = norm s v := by
  refine ⟨norm_contains s h v, norm_emod s v, fun r hr hc => ?_⟩
  exact (norm_eq_of_congr s h hr hc.symm).symm

/-- integers with the same bits inside a shape are the same value of that shape -/
theorem spec_bits_determine (s : Shape) (h : s.WF) (a b : Int) (ha : s.contains a) (hb : s.contains b)
    (hbits : ∀ k, k < s.width → ibit a k = ibit b k) : a = b := eq_of_ibits s h ha hb hbits

/-! ### Non-vacuity: a depth-3 mixed-sign expression meets the hypotheses -/

def exCtx : Ctx := [⟨4, false⟩, ⟨3, true⟩]
def exEnv : Env := [13, -4]
/-- `(a * b - ~a).bit_select(b.as_unsigned(), 3)` -/
def exExpr : Expr :=
  .part (.op2 .sub (.op2 .mul (.sig 0) (.sig 1)) (.op1 .inv (.sig 0))) (.op1 .u (.sig 1)) 3 1

example : exExpr.wf exCtx = true := by decide
example : EnvOk exCtx exEnv := by
  intro i
  match i with
  | 0 => decide
  | 1 => decide
  | n + 2 => simp [Ctx.shape, Env.val, exCtx, exEnv, Shape.WF, Shape.contains, Shape.lo, Shape.hi, Shape.u]
example : denote exCtx exEnv exExpr = 4 := by decide
example : rtlValue exCtx exEnv exExpr = 4 := by decide

/-! ### Derived operators

`abs`, `shift_left`, `shift_right`, `rotate_left`, `rotate_right`, `replicate`, `matches`, `Mux`, integer and
stepped subscripts and `Array` indexing are not AST nodes:
the methods rewrite them into primitive nodes when called. `mkDerived` is that rewrite (compared structurally
with what the Python methods return on every run); `Spec.derived` is the Python-integer / bit-sequence meaning. -/

/-- The nodes built for a derived operator are well formed, have the documented shape, and denote the
documented exact result — for every operand expression, integer amount and environment. -/
theorem derived_exact (ctx : Ctx) (env : Env) (hok : EnvOk ctx env) (op : DOp) (hop : op ≠ .arrayIndex)
    (args : List Expr) (e : Expr) (h : mkDerived ctx op args = some e) (hwf : ∀ a ∈ args, a.wf ctx = true) :
    e.wf ctx = true ∧
    derived op (args.map fun a => (shapeOf ctx a, denote ctx env a)) = some (shapeOf ctx e, denote ctx env e) :=
  derived_build_spec ctx env hok op hop args e h hwf

/-- `Array(elems)[index]` (`ArrayProxy.as_value`) for an index value inside the part of the array an index of that
width can reach: the selected element's exact value, in the unification of the reachable elements' shapes. For an
index outside the array the Spec (and the property) say nothing. -/
theorem array_exact (ctx : Ctx) (env : Env) (hok : EnvOk ctx env) (idx : Expr) (elems : List Expr)
    (hidx : idx.wf ctx = true) (hel : ∀ e ∈ elems, e.wf ctx = true) (h0 : 0 ≤ denote ctx env idx)
    (hin : (denote ctx env idx).toNat < (elems.take (2 ^ widthOf ctx idx)).length) :
    (mkArray ctx idx elems).wf ctx = true ∧
    derived .arrayIndex ((idx :: elems).map fun a => (shapeOf ctx a, denote ctx env a)) =
      some (shapeOf ctx (mkArray ctx idx elems), denote ctx env (mkArray ctx idx elems)) :=
  array_spec ctx env hok idx elems hidx hel h0 hin

/-- … and a simulated circuit computes exactly that. -/
theorem derived_rtl_exact (ctx : Ctx) (env : Env) (hok : EnvOk ctx env) (op : DOp) (hop : op ≠ .arrayIndex)
    (args : List Expr) (e : Expr) (h : mkDerived ctx op args = some e) (hwf : ∀ a ∈ args, a.wf ctx = true) :
    derived op (args.map fun a => (shapeOf ctx a, denote ctx env a)) = some (shapeOf ctx e, rtlValue ctx env e) := by
  obtain ⟨h1, h2⟩ := derived_exact ctx env hok op hop args e h hwf
  rw [rtl_exact ctx env hok e h1]; exact h2

/-- non-vacuity: `(b - 1).rotate_left(-5)` on a signed 3-bit `b = -4`: the 4-bit pattern 1011 rotated left by 3 -/
example : (mkDerived exCtx (.rotateLeft (-5)) [.op2 .sub (.sig 1) (.const 1 ⟨1, false⟩)]).map
    (fun e => (e.wf exCtx, shapeOf exCtx e, denote exCtx exEnv e)) = some (true, ⟨4, false⟩, 13) := by decide
/-- `a[3:-1:-2]` written with normalised indices (3, -1, -2): bits 3 and 1 of `a = 13 = 0b1101` -/
example : (mkDerived exCtx (.sliceStep 3 (-1) (-2)) [.sig 0]).map
    (fun e => (e.wf exCtx, shapeOf exCtx e, denote exCtx exEnv e)) = some (true, ⟨2, false⟩, 1) := by decide
/-- `Array([a, b, a + b])[b[0:2]]` with `b = -4`: index 0 -/
example : (shapeOf exCtx (mkArray exCtx (.slice (.sig 1) 0 2) [.sig 0, .sig 1, .op2 .add (.sig 0) (.sig 1)]),
    denote exCtx exEnv (mkArray exCtx (.slice (.sig 1) 0 2) [.sig 0, .sig 1, .op2 .add (.sig 0) (.sig 1)])) = (⟨6, true⟩, 13) := by
  decide
example : (mkDerived exCtx .abs [.sig 1]).map (fun e => (shapeOf exCtx e, denote exCtx exEnv e)) = some (⟨3, false⟩, 4) := by
  decide

/-! ### F1: the compiler as found reads raw bits above the MSB in a part-select

`(~a).bit_select(off, 4)` with `a = 0` (4 bits) and `off = 2`: exact result 3, old compiler 15. -/

def f1Ctx : Ctx := [⟨4, false⟩, ⟨2, false⟩]
def f1Env : Env := [0, 2]
def f1Expr : Expr := .part (.op1 .inv (.sig 0)) (.sig 1) 4 1

theorem f1_witness :
    f1Expr.wf f1Ctx = true ∧ denote f1Ctx f1Env f1Expr = 3 ∧
    norm (shapeOf f1Ctx f1Expr) (evalRtlUnfixed f1Ctx f1Env f1Expr) = 15 ∧
    rtlValue f1Ctx f1Env f1Expr = 3 := by decide

end Amaranth.C01
