import AmaranthVerif.Proofs.EngineExamples
import AmaranthVerif.Spec.Engine

/-!
# C08 — simulation results do not depend on process scheduling order

Model: `Model/Engine.lean` (the delta-cycle engine of `sim/pysim.py`: slots with `curr`/`next`,
masked updates, owners with wakers, `delta` with explicit iteration orders for `_processes` and
`pending`, `settle` = `step_design()`, the timeline, the clock process, the two documented process
forms, testbench scripts). Spec: `Spec/Engine.lean`.

Proved here, for all values, masks, process sets, orders, scripts and run lengths:

* `update_comm`, `update_comm_compat` — two masked updates of one slot commute when their masks are
  disjoint (more generally: when they write equal bits where the masks overlap), on unbounded
  two's-complement integers, negative values and sign-extended masks included;
* `process_action_comm` — the whole update lists of two processes commute;
* `delta_perm` — one delta cycle gives the same state for every order of the ready processes and
  every order of the pending slots;
* `commit_order_free` — the pending set may be committed in any order;
* `settle_perm`, `advance_perm` — `step_design()` and whole runs (`advance`ⁿ, `run`, `run_until`,
  hence every observation and every final value) are the same under any two schedules that use
  permutations of the same lists at every delta;
* `timeline_nearest` — the loop of `_PyTimeline.advance` finds the minimum deadline and exactly the
  wakers registered for it; `advanceTime` jumps there, wakes those and removes them;
* `clock_times` — toggle number `k` of an added clock is performed by an `advance()` that runs at
  `now = phase + k * (period / 2)`; no `advance()` performs two toggles; the invariant holds after
  any number of `advance()` calls (induction on the run);
* `delay_exact` — an awaited delay of `n` registers the deadline `now + n`; the waker is called by
  exactly the timeline step that sets `now` to it;
* `tb_order` — in a pass, testbench `n` takes its turn in the state left by testbenches `0…n-1` in
  insertion order; `set_returns_settled`: when `step_design()` returns, the state is a fixpoint of
  `delta` (for every order);
* `tick_sampling` — the values returned by a tick are sampled from `curr` as the commit of the
  clock edge left it (every non-pending signal still has its pre-edge value), before any process
  woken by the edge has run; processes never write `curr`; a delta never runs a testbench.

Where the hypotheses come from:

* `disjoint_writes_of_static`, `design_disjoint_writes` — `DisjointWrites` (a statement about *every*
  state) follows from a static, decidable condition on the design: the commit masks of different
  processes are pairwise disjoint bit sets per signal (one driver per bit — C06), and the clocks and
  user processes write signals no circuit process masks (`StaticDisjoint`, `DesignOK`). A compiled
  process' updates only carry its static masks, so this holds in all states.
* The reset-only process and the synchronous process of an `async_reset` domain share their masks;
  `CompatWrites` is *false* for such a design (refuting witness below). `arst_invariant`: in every
  state reachable from `initState` a reset-only process is runnable only while its reset is `1`; there
  the pair writes equal bits. `settle_perm_reachable`, `advance_perm_reachable`,
  `advance_perm_design` restate the run-level theorems over the states satisfying that invariant,
  from the static condition `DesignOK` alone.
* `tick_sampling_settle`, `tick_sampling_end_to_end`, `tick_returns_pre_edge_values` — the tick wait
  followed from the delta that commits the clock edge to the observation recorded by `advance()`: the
  sampled values are those of `curr` right after that commit, i.e. the pre-edge values of everything
  that is not pending at that commit.
* `tb_sees_earlier_set` — in a pass, a `get` of testbench `n + 1` is evaluated on the settled state left
  by the `set` of testbench `n`.

For user processes added with `add_process` the footprint (`kindMasks`) is the signal (bit range) the
process form sets; for memory write ports of different domains hitting one row at a coincident edge
disjointness does not hold (last writer wins in the real engine) — memories are not part of this model.

* `process_equiv_comb`, `process_equiv_sync_partial` — a compiled assignment `out := e` (combinational, or
  a register of a domain without asynchronous reset) replaced, at the same position of the process list, by
  the documented process form over the signals `e` reads: the two simulations agree on `curr`, `next`,
  `now` and every observation after every `advance()`, `run()`, `run_until()`, for every schedule.

* `reindex_sameobs` — re-indexing the owners (moving a process, dropping an inert one) with the schedules
  re-indexed accordingly gives the same runs; `process_equiv_comb_appended`, `process_equiv_sync` — the
  compiled process(es) removed and the user process appended, under any two corresponding schedules, for
  combinational assignments and for registers of every kind of domain (asynchronous reset included).

Not proved: that the model's trace equals the Spec's trace (`Spec/Engine.lean`) for all scripts; the
two are compared on every run of the check.
-/

namespace Amaranth.C08
open Amaranth Amaranth.Engine

/-! ## Masked updates -/

/-- updates with disjoint masks commute -/
theorem update_comm (u₁ u₂ : Update) (x : Int) (h : pyAnd u₁.mask u₂.mask = 0) :
    applyUpdate u₁ (applyUpdate u₂ x) = applyUpdate u₂ (applyUpdate u₁ x) := by
  -- the slots play no role here: read both as updates of slot 0
  have hd : Engine.Disjoint ⟨0, u₁.value, u₁.mask⟩ ⟨0, u₂.value, u₂.mask⟩ := Or.inr h
  rcases hd.compat with h' | h'
  · exact absurd rfl h'
  · exact applyUpdate_comm_of_bits ⟨0, u₁.value, u₁.mask⟩ ⟨0, u₂.value, u₂.mask⟩ x h'

/-- test on literals: a negative value, a negative old value and a sign-extended mask -/
example : pyAnd (-16) 3 = 0 ∧
    applyUpdate ⟨0, -3, -16⟩ (applyUpdate ⟨0, 5, 3⟩ 6) = applyUpdate ⟨0, 5, 3⟩ (applyUpdate ⟨0, -3, -16⟩ 6) ∧
    applyUpdate ⟨0, -3, -16⟩ (applyUpdate ⟨0, 5, 3⟩ 6) = -11 ∧
    applyUpdate ⟨0, 2, -1⟩ (applyUpdate ⟨0, 5, 3⟩ 6) ≠ applyUpdate ⟨0, 5, 3⟩ (applyUpdate ⟨0, 2, -1⟩ 6) := by decide

/-- updates that write equal bits wherever both masks have a one commute (a domain's process and its
reset-only process at a coincident clock edge and reset) -/
theorem update_comm_compat (u₁ u₂ : Update) (x : Int)
    (h : ∀ i, Mem.ibit u₁.mask i = true → Mem.ibit u₂.mask i = true → Mem.ibit u₁.value i = Mem.ibit u₂.value i) :
    applyUpdate u₁ (applyUpdate u₂ x) = applyUpdate u₂ (applyUpdate u₁ x) :=
  applyUpdate_comm_of_bits u₁ u₂ x h

/-- the update lists of two processes commute when they are pairwise disjoint -/
theorem process_action_comm (us vs : List Update) (next : Env)
    (h : ∀ u ∈ us, ∀ v ∈ vs, Engine.Disjoint u v) :
    applyAll (applyAll next vs) us = applyAll (applyAll next us) vs :=
  applyAll_comm us vs next (fun u hu v hv => (h u hu v hv).compat)

example : Engine.Disjoint ⟨0, 5, 3⟩ ⟨0, -1, 12⟩ ∧ Engine.Disjoint ⟨0, 5, 3⟩ ⟨1, 7, -1⟩ :=
  ⟨Or.inr (by decide), Or.inl (by decide)⟩

/-! ## One delta -/

/-- `delta` does not depend on the iteration order of the ready processes nor on that of the pending
slots. (`DisjointWritesAt` only speaks about the processes that are runnable in this delta.) -/
theorem delta_perm (ps : List ProcDef) (hw : WakeComm ps) (s : EState) (o₁ o₂ : Orders)
    (hd : DisjointWritesAt ps (trigPhase ps s)) (hn : o₁.procs.Nodup)
    (hp : o₁.procs.Perm o₂.procs) (hs : o₁.slots.Perm o₂.slots) :
    delta ps o₁ s = delta ps o₂ s :=
  delta_perm_at ps hw s o₁ o₂ hd.compatAt hn ⟨hp, hs⟩

/-- the same under the weaker hypothesis that overlapping writes agree -/
theorem delta_perm_compat (ps : List ProcDef) (hw : WakeComm ps) (s : EState) (o₁ o₂ : Orders)
    (hc : CompatAt ps (trigPhase ps s)) (hn : o₁.procs.Nodup)
    (hp : o₁.procs.Perm o₂.procs) (hs : o₁.slots.Perm o₂.slots) :
    delta ps o₁ s = delta ps o₂ s :=
  delta_perm_at ps hw s o₁ o₂ hc hn ⟨hp, hs⟩

/-- the pending set may be committed in any order -/
theorem commit_order_free (ps : List ProcDef) (hw : WakeComm ps) (s : EState) (o₁ o₂ : List Nat) (hp : o₁.Perm o₂) :
    commit ps o₁ s = commit ps o₂ s ∧ anyChange o₁ s = anyChange o₂ s :=
  ⟨commit_perm ps hw s o₁ o₂ hp, anyChange_perm s o₁ o₂ hp⟩

/-- the wakers of every owner a simulation can contain commute: `WakeComm` is not a hypothesis for
simulations built from compiled processes, clocks, the documented process forms and testbench scripts -/
theorem wakers_commute (D : Design) (kinds : List ProcKind) (scripts : List (List TbOp)) :
    WakeComm (simDefs D kinds scripts) := simDefs_wakeComm D kinds scripts

/-! ## `step_design()` and whole runs -/

theorem settle_perm (ps : List ProcDef) (hw : WakeComm ps) (hd : DisjointWrites ps) (a b : Sched)
    (hn : SchedNodup a) (he : SchedEquiv a b) (fuel : Nat) (s : EState) :
    settle ps a fuel s = settle ps b fuel s :=
  settle_sched_perm ps hw hd.compat a b hn he fuel s

/-- every run of a simulation — any number of `advance()` calls, `run()`, `run_until()` — and with it
every observation of every testbench and the final value of every signal, is the same under any two
schedules that iterate permutations of the same process list and slot list at every delta -/
theorem advance_perm (D : Design) (kinds : List ProcKind) (scripts : List (List TbOp)) (a b : Sched) (fuel : Nat)
    (hd : DisjointWrites (simDefs D kinds scripts)) (hn : SchedNodup a) (he : SchedEquiv a b) (n : Nat) (s : EState) :
    advanceN (mkSim D kinds scripts a fuel) n s = advanceN (mkSim D kinds scripts b fuel) n s ∧
    run (mkSim D kinds scripts a fuel) n s = run (mkSim D kinds scripts b fuel) n s ∧
    (∀ deadline, runUntil (mkSim D kinds scripts a fuel) deadline n s =
                 runUntil (mkSim D kinds scripts b fuel) deadline n s) := by
  rw [mkSim_sched_perm D kinds scripts a b fuel hd.compat hn he]
  exact ⟨rfl, rfl, fun _ => rfl⟩

/-- the same for processes whose overlapping writes agree in *every* state (`CompatWrites`). Note that
this hypothesis is too strong for a domain's process and its reset-only process: they agree only in
reachable states (see the refuting witness and `advance_perm_reachable` / `advance_perm_design` below,
which are the theorems to use for designs with an `async_reset` domain) -/
theorem advance_perm_compat (D : Design) (kinds : List ProcKind) (scripts : List (List TbOp)) (a b : Sched) (fuel : Nat)
    (hc : CompatWrites (simDefs D kinds scripts)) (hn : SchedNodup a) (he : SchedEquiv a b) (n : Nat) (s : EState) :
    advanceN (mkSim D kinds scripts a fuel) n s = advanceN (mkSim D kinds scripts b fuel) n s ∧
    run (mkSim D kinds scripts a fuel) n s = run (mkSim D kinds scripts b fuel) n s ∧
    (∀ deadline, runUntil (mkSim D kinds scripts a fuel) deadline n s =
                 runUntil (mkSim D kinds scripts b fuel) deadline n s) := by
  rw [mkSim_sched_perm D kinds scripts a b fuel hc hn he]
  exact ⟨rfl, rfl, fun _ => rfl⟩

/-! ### non-vacuity: two clocks on different signals write disjointly in every state -/

/-- `twoClocks` is the owner list `mkSim` builds for a design with two added clocks -/
example (D : Design) : simDefs D [.clock 0 4 7, .clock 1 0 10] [] = twoClocks := rfl

/-- the hypotheses of `settle_perm` / `advance_perm` hold for the two clocks and a schedule and its reverse -/
example : DisjointWrites twoClocks ∧ SchedNodup (identitySched 2 2) ∧ SchedEquiv (identitySched 2 2) (reverseSched 2 2) :=
  ⟨twoClocks_disjoint, fun _ => (by decide : (List.range 2).Nodup),
   fun _ => ⟨(List.reverse_perm (List.range 2)).symm, (List.reverse_perm (List.range 2)).symm⟩⟩

/-! ## Where `DisjointWrites` comes from: a static condition on the design -/

/-- **One driver per bit gives `DisjointWrites`.** If the static write footprints of the processes
(`kindMasks`: the `LHSMaskCollector` masks of a compiled process, sign-extended as `update` receives
them; the signal a clock toggles; the signal or bit range a documented process form sets) are pairwise
disjoint, then in *every* state no two runnable processes write the same bit of the same signal. -/
theorem disjoint_writes_of_static (D : Design) (kinds : List ProcKind) (scripts : List (List TbOp))
    (h : StaticDisjoint D kinds) : DisjointWrites (simDefs D kinds scripts) :=
  static_disjoint_writes D kinds scripts h

/-- the same from the condition on the design, when it has no `async_reset` domain: the masks of the
design's processes are pairwise disjoint, and the added clocks / user processes write signals no
circuit process masks -/
theorem design_disjoint_writes (D : Design) (extra : List ProcKind) (scripts : List (List TbOp))
    (hok : DesignOK D extra) (hno : noArst (circuitKinds D ++ extra) = true) :
    DisjointWrites (simDefs D (circuitKinds D ++ extra) scripts) :=
  static_disjoint_writes D _ scripts (staticDisjoint_of_pairOK D _ (designOK_pairOK D extra hok) hno)

/-- `advance_perm` with its hypothesis discharged from the static condition -/
theorem advance_perm_static (D : Design) (kinds : List ProcKind) (scripts : List (List TbOp)) (a b : Sched) (fuel : Nat)
    (hd : StaticDisjoint D kinds) (hn : SchedNodup a) (he : SchedEquiv a b) (n : Nat) (s : EState) :
    advanceN (mkSim D kinds scripts a fuel) n s = advanceN (mkSim D kinds scripts b fuel) n s ∧
    run (mkSim D kinds scripts a fuel) n s = run (mkSim D kinds scripts b fuel) n s ∧
    (∀ deadline, runUntil (mkSim D kinds scripts a fuel) deadline n s =
                 runUntil (mkSim D kinds scripts b fuel) deadline n s) :=
  advance_perm D kinds scripts a b fuel (static_disjoint_writes D kinds scripts hd) hn he n s

/-! ### non-vacuity: a counter (one `sync` process, one `comb` process) and an added clock -/

/-- the static condition is decided, for the design and for the process list `mkSim` receives -/
example : DesignOK Ex.counterD Ex.counterExtra ∧ noArst Ex.counterKinds = true ∧
    StaticDisjoint Ex.counterD Ex.counterKinds := by decide

/-- `settle_perm` applies to the counter: its `DisjointWrites` hypothesis holds -/
example (fuel : Nat) (s : EState) :
    settle (simDefs Ex.counterD Ex.counterKinds Ex.counterScripts) (identitySched 3 3) fuel s =
    settle (simDefs Ex.counterD Ex.counterKinds Ex.counterScripts) (reverseSched 3 3) fuel s :=
  settle_perm _ (wakers_commute _ _ _) (disjoint_writes_of_static _ _ _ (by decide)) _ _
    (identitySched_nodup 3 3) (identity_reverse_equiv 3 3) fuel s

/-- `advance_perm` applies to the counter: the run under the reversed schedule is the run under the identity schedule -/
example :
    run (mkSim Ex.counterD Ex.counterKinds Ex.counterScripts (identitySched 3 3) 50) 20 (initState Ex.counterD Ex.counterKinds Ex.counterScripts) =
    run (mkSim Ex.counterD Ex.counterKinds Ex.counterScripts (reverseSched 3 3) 50) 20 (initState Ex.counterD Ex.counterKinds Ex.counterScripts) :=
  (advance_perm_static Ex.counterD Ex.counterKinds Ex.counterScripts _ _ 50 (by decide)
    (identitySched_nodup 3 3) (identity_reverse_equiv 3 3) 20 _).2.1

/-- test: the two runs evaluated (tick samples `count = 5`, `out = 5 ^ 3 = 6` from before the edge) -/
example :
    (run (mkSim Ex.counterD Ex.counterKinds Ex.counterScripts (identitySched 3 3) 50) 20
      (initState Ex.counterD Ex.counterKinds Ex.counterScripts)).obs.reverse
      = [(0, 2, [1, 0, 5, 6]), (0, 2, [5]), (0, 6, [1, 0, 6]), (0, 6, [7])] ∧
    (run (mkSim Ex.counterD Ex.counterKinds Ex.counterScripts (reverseSched 3 3) 50) 20
      (initState Ex.counterD Ex.counterKinds Ex.counterScripts)).obs.reverse
      = [(0, 2, [1, 0, 5, 6]), (0, 2, [5]), (0, 6, [1, 0, 6]), (0, 6, [7])] := by decide +kernel

/-! ## Asynchronous resets: schedule independence over reachable states -/

/-- `CompatWrites` — over *all* states — is false for a design with an `async_reset` domain: in the
(unreachable) state where the reset-only process and the synchronous process are both runnable while
the reset is `0`, one writes the initial value and the other the incremented value through the same mask -/
example : ¬ CompatWrites (simDefs Ex.arstD (circuitKinds Ex.arstD) []) := by
  intro h
  have := h Ex.arstBadState 0 1 (by decide) ⟨2, 5, 15⟩ (by decide +kernel) ⟨2, 6, 15⟩ (by decide +kernel)
  rcases this with h | h
  · exact h rfl
  · have := h 0 (by decide +kernel) (by decide +kernel)
    revert this; decide +kernel

/-- **The invariant of reachable states.** In every state a simulation reaches from `initState` by
`advance()` calls (under a schedule that lists every process in every delta, as the engine's iteration
over `_processes` does), a reset-only process is runnable only if the current value of its reset is `1`.
Needs only that the resets are signals of the design (`arstWf`, decidable). -/
theorem arst_invariant (D : Design) (kinds : List ProcKind) (scripts : List (List TbOp)) (a : Sched) (fuel : Nat)
    (hwf : arstWf D kinds = true) (hl : SchedLists a kinds.length) (n : Nat) :
    ArstInv D kinds (advanceN (mkSim D kinds scripts a fuel) n (initState D kinds scripts)) :=
  (advanceN_agree (mkSim D kinds scripts a fuel) (mkSim D kinds scripts a fuel).step (ArstInv D kinds)
    (mkSim_stepInv D kinds scripts a fuel hl) (fun _ _ => rfl) n _ (initState_arstInv D kinds scripts hwf)).2

/-- the invariant is preserved by every step of the engine: one delta (any order listing the processes),
`step_design()`, the timeline step, `advance()` -/
theorem arst_invariant_steps (D : Design) (kinds : List ProcKind) (scripts : List (List TbOp)) (a : Sched) (fuel : Nat)
    (hl : SchedLists a kinds.length) (s : EState) (h : ArstInv D kinds s) :
    (∀ o : Orders, (∀ p, p < kinds.length → p ∈ o.procs) → ArstInv D kinds (delta (simDefs D kinds scripts) o s).1) ∧
    ArstInv D kinds (settle (simDefs D kinds scripts) a fuel s).1 ∧
    ArstInv D kinds (advanceTime (simDefs D kinds scripts) s).1 ∧
    ArstInv D kinds (advance (mkSim D kinds scripts a fuel) s).1 :=
  ⟨fun o ho => delta_arstInv D kinds scripts o ho s h,
   (mkSim_stepInv D kinds scripts a fuel hl).step s h,
   advanceTime_arstInv D kinds scripts s h,
   (advance_agree (mkSim D kinds scripts a fuel) (mkSim D kinds scripts a fuel).step (ArstInv D kinds)
     (mkSim_stepInv D kinds scripts a fuel hl) (fun _ _ => rfl) s h).2⟩

/-- under the invariant, the processes that are runnable in a delta write compatible updates: disjoint
masks, or — the reset-only and the synchronous process of one body — equal values (the synchronous
process sees reset `= 1` and computes the initial values too) -/
theorem compat_on_reachable (D : Design) (kinds : List ProcKind) (scripts : List (List TbOp))
    (hs : kinds.Pairwise (PairOK D)) (s : EState) (h : ArstInv D kinds s) :
    CompatAt (simDefs D kinds scripts) (trigPhase (simDefs D kinds scripts) s) :=
  compatAt_of_arstInv D kinds scripts hs _ (trigPhase_arstInv D kinds scripts s h)

/-- `settle_perm` over the states satisfying the invariant -/
theorem settle_perm_reachable (D : Design) (kinds : List ProcKind) (scripts : List (List TbOp)) (a b : Sched)
    (hs : kinds.Pairwise (PairOK D)) (hl : SchedLists a kinds.length) (hn : SchedNodup a) (he : SchedEquiv a b)
    (fuel : Nat) (s : EState) (h : ArstInv D kinds s) :
    settle (simDefs D kinds scripts) a fuel s = settle (simDefs D kinds scripts) b fuel s :=
  (mkSim_step_on D kinds scripts a b fuel hs hl hn he s h).1

/-- `advance_perm` over the states satisfying the invariant: every run from such a state — any number
of `advance()` calls, `run()`, `run_until()` — is the same under any two schedules that iterate
permutations of the same lists at every delta, and ends in a state satisfying the invariant -/
theorem advance_perm_reachable (D : Design) (kinds : List ProcKind) (scripts : List (List TbOp)) (a b : Sched) (fuel : Nat)
    (hs : kinds.Pairwise (PairOK D)) (hl : SchedLists a kinds.length) (hn : SchedNodup a) (he : SchedEquiv a b)
    (n : Nat) (s : EState) (h : ArstInv D kinds s) :
    advanceN (mkSim D kinds scripts a fuel) n s = advanceN (mkSim D kinds scripts b fuel) n s ∧
    run (mkSim D kinds scripts a fuel) n s = run (mkSim D kinds scripts b fuel) n s ∧
    (∀ deadline, runUntil (mkSim D kinds scripts a fuel) deadline n s =
                 runUntil (mkSim D kinds scripts b fuel) deadline n s) ∧
    ArstInv D kinds (advanceN (mkSim D kinds scripts a fuel) n s) := by
  obtain ⟨h1, h2, h3⟩ := mkSim_runs_on D kinds scripts a b fuel hs hl hn he n s h
  exact ⟨h1.1.symm, h2.1.symm, fun d => (h3 d).1.symm, h1.2⟩

/-- **Schedule independence of a design, from the static condition alone.** Let the commit masks of
the design's processes be pairwise disjoint, the added clocks and user processes write signals no
circuit process masks, and the resets be signals of the design (`DesignOK`, decidable; `async_reset`
domains allowed). Then every run of the simulation from its initial state is the same under any two
schedules that iterate permutations of the same lists at every delta. -/
theorem advance_perm_design (D : Design) (extra : List ProcKind) (scripts : List (List TbOp)) (a b : Sched) (fuel : Nat)
    (hok : DesignOK D extra) (hl : SchedLists a (circuitKinds D ++ extra).length)
    (hn : SchedNodup a) (he : SchedEquiv a b) (n : Nat) :
    advanceN (mkSim D (circuitKinds D ++ extra) scripts a fuel) n (initState D (circuitKinds D ++ extra) scripts) =
      advanceN (mkSim D (circuitKinds D ++ extra) scripts b fuel) n (initState D (circuitKinds D ++ extra) scripts) ∧
    run (mkSim D (circuitKinds D ++ extra) scripts a fuel) n (initState D (circuitKinds D ++ extra) scripts) =
      run (mkSim D (circuitKinds D ++ extra) scripts b fuel) n (initState D (circuitKinds D ++ extra) scripts) ∧
    (∀ deadline,
      runUntil (mkSim D (circuitKinds D ++ extra) scripts a fuel) deadline n (initState D (circuitKinds D ++ extra) scripts) =
      runUntil (mkSim D (circuitKinds D ++ extra) scripts b fuel) deadline n (initState D (circuitKinds D ++ extra) scripts)) := by
  obtain ⟨h1, h2, h3, _⟩ := advance_perm_reachable D (circuitKinds D ++ extra) scripts a b fuel
    (designOK_pairOK D extra hok) hl hn he n _ (initState_arstInv D _ scripts hok.2.2.2)
  exact ⟨h1, h2, h3⟩

/-! ### non-vacuity: a counter in an `async_reset` domain; clock edge and rising reset coincide -/

/-- the static condition is decided for the design with the asynchronous reset -/
example : DesignOK Ex.arstD [] := by decide

/-- `advance_perm_design` applies: the run under the reversed schedule is the run under the identity schedule -/
example :
    run (mkSim Ex.arstD Ex.arstKinds Ex.arstScripts (identitySched 3 4) 50) 20 (initState Ex.arstD Ex.arstKinds Ex.arstScripts) =
    run (mkSim Ex.arstD Ex.arstKinds Ex.arstScripts (reverseSched 3 4) 50) 20 (initState Ex.arstD Ex.arstKinds Ex.arstScripts) :=
  (advance_perm_design Ex.arstD [] Ex.arstScripts _ _ 50 (by decide) (identitySched_lists 3 4)
    (identitySched_nodup 3 4) (identity_reverse_equiv 3 4) 20).2.1

/-- test: the two runs evaluated. `set(Cat(clk, rst), 3)` wakes the reset-only and the synchronous
process in the same delta; the counter is reset to 5 under both orders -/
example :
    (run (mkSim Ex.arstD Ex.arstKinds Ex.arstScripts (identitySched 3 4) 50) 20
      (initState Ex.arstD Ex.arstKinds Ex.arstScripts)).obs.reverse
      = [(0, 0, [6]), (0, 0, [5]), (0, 0, [6]), (0, 0, [6]), (0, 0, [5])] ∧
    (run (mkSim Ex.arstD Ex.arstKinds Ex.arstScripts (reverseSched 3 4) 50) 20
      (initState Ex.arstD Ex.arstKinds Ex.arstScripts)).obs.reverse
      = [(0, 0, [6]), (0, 0, [5]), (0, 0, [6]), (0, 0, [6]), (0, 0, [5])] := by decide +kernel

/-- `advance_perm_design` also covers the counter with its added clock (no asynchronous reset) -/
example :
    run (mkSim Ex.counterD Ex.counterKinds Ex.counterScripts (identitySched 3 3) 50) 20 (initState Ex.counterD Ex.counterKinds Ex.counterScripts) =
    run (mkSim Ex.counterD Ex.counterKinds Ex.counterScripts (reverseSched 3 3) 50) 20 (initState Ex.counterD Ex.counterKinds Ex.counterScripts) :=
  (advance_perm_design Ex.counterD Ex.counterExtra Ex.counterScripts _ _ 50 (by decide) (identitySched_lists 3 3)
    (identitySched_nodup 3 3) (identity_reverse_equiv 3 3) 20).2.1

/-! ## The timeline -/

/-- the loop of `_PyTimeline.advance`: the deadline found is somebody's, it is the minimum, and the
wakers found are exactly the owners registered for it (none when the timeline is empty) -/
theorem timeline_nearest (ts : List (Option Nat)) :
    match scanNearest (entriesFrom 0 ts) with
    | (none, ws) => (∀ (i d : Nat), ts[i]? ≠ some (some d)) ∧ ws = []
    | (some d, ws) => (∃ i : Nat, ts[i]? = some (some d)) ∧ (∀ (i d' : Nat), ts[i]? = some (some d') → d ≤ d') ∧
        ∀ i : Nat, i ∈ ws ↔ ts[i]? = some (some d) :=
  nearest_spec ts

/-- `advanceTime`: nothing happens on an empty timeline; otherwise `now` becomes the minimum deadline,
the timeline wakers registered for it — and only those — are called and removed, and nothing else changes -/
theorem timeline_advance (ps : List ProcDef) (s : EState) :
    (advanceTime ps s = (s, false) ∧ ∀ (i d : Nat), s.timers[i]? ≠ some (some d)) ∨
    ∃ d : Nat, (∃ i : Nat, s.timers[i]? = some (some d)) ∧
      (∀ (i d' : Nat), s.timers[i]? = some (some d') → d ≤ d') ∧
      (advanceTime ps s).2 = true ∧ (advanceTime ps s).1.now = d ∧
      (∀ i : Nat, (advanceTime ps s).1.timers[i]? =
        if s.timers[i]? = some (some d) then some none else s.timers[i]?) ∧
      (∀ i : Nat, (advanceTime ps s).1.locals[i]? =
        if s.timers[i]? = some (some d) then s.locals[i]?.map (ps.getD i default).fire else s.locals[i]?) ∧
      (advanceTime ps s).1.curr = s.curr ∧ (advanceTime ps s).1.next = s.next ∧
      (advanceTime ps s).1.obs = s.obs ∧ (advanceTime ps s).1.deltas = s.deltas :=
  advanceTime_spec ps s

/-- test: three wakers, two of them nearest -/
example : scanNearest (entriesFrom 0 [some 5, none, some 3, some 3]) = (some 3, [2, 3]) := by decide

/-! ## Clock -/

/-- After any number of `advance()` calls the clock is in one of the three states of its cycle, and the
`advance()` that performs toggle number `k` (counting from 0) runs at exactly
`now = phase + k * (period / 2)` femtoseconds — the Spec's `toggleTime`. Induction on the run. -/
theorem clock_times (S : Sim) (K : ClockCfg) {sched : Sched} {fuel : Nat} (hS : ClockedSim S K sched fuel)
    (s₀ : EState) (h₀ : Fresh K s₀) (n : Nat) :
    ClockInv K (advanceN S n s₀) ∧
    (toggles K (advanceN S (n + 1) s₀) = toggles K (advanceN S n s₀) ∨
     (toggles K (advanceN S (n + 1) s₀) = toggles K (advanceN S n s₀) + 1 ∧
      (advanceN S n s₀).now = EngineSpec.toggleTime K.phase K.period (toggles K (advanceN S n s₀)))) := by
  have hinv := clockInv_advanceN S K hS s₀ h₀ n
  exact ⟨hinv, toggle_instant S K hS _ hinv⟩

/-- the first wake-up is at `phase`: the sleeping clock's timeline entry after the first `advance()` -/
theorem clock_first_deadline (S : Sim) (K : ClockCfg) {sched : Sched} {fuel : Nat} (hS : ClockedSim S K sched fuel)
    (s₀ : EState) (h₀ : Fresh K s₀) :
    Sleep K 0 (advance S s₀).1 ∨ Due K 0 (advance S s₀).1 :=
  (advance_clock S K hS s₀).1 h₀

/-- non-vacuity: a simulation with one clock (phase 4 fs, period 7 fs) built by `mkSim` -/
example :
    let D : Design := { ctx := [Shape.u 1], inits := [0], resetLess := [false], doms := [], procs := [] }
    let kinds := [ProcKind.clock 0 4 7]
    let K : ClockCfg := ⟨0, 0, 4, 7⟩
    ClockedSim (mkSim D kinds [] (identitySched 1 1) 9) K (identitySched 1 1) 8 ∧ Fresh K (initState D kinds []) := by
  refine ⟨⟨rfl, by decide, fun _ => (by decide : 0 ∈ List.range 1), fun _ => rfl⟩, ⟨_, rfl, rfl, rfl, rfl, rfl, rfl⟩⟩

/-! ## Delays -/

/-- `await ctx.delay(n)` (possibly combined with samples): the deadline registered is the Spec's
`delayResume now n = now + n`, and the waker of a deadline `T` is called by exactly the timeline step
that makes `now = T`; before that it stays registered and `now < T` -/
theorem delay_exact (S : Sim) (t : Nat) (script : List TbOp) (fuel : Nat) (s : EState) (tr : Trigger) (n : Nat)
    (hop : script[(getLoc s (S.nproc + t)).pc]? = some (.wait tr))
    (hrep : (getLoc s (S.nproc + t)).report = false) (hd : tr.delay? = some n) :
    (tbExec S t script (fuel + 1) s).timers = s.timers.set (S.nproc + t) (some (EngineSpec.delayResume s.now n)) ∧
    (tbExec S t script (fuel + 1) s).now = s.now ∧
    ∀ (ps : List ProcDef) (z : EState) (o T : Nat) (l : Local),
      z.timers[o]? = some (some T) → z.locals[o]? = some l →
      ((advanceTime ps z).1.now = T ∧ (advanceTime ps z).1.locals[o]? = some ((ps.getD o default).fire l) ∧
        (advanceTime ps z).1.timers[o]? = some none) ∨
      ((advanceTime ps z).1.now < T ∧ (advanceTime ps z).1.locals[o]? = some l ∧
        (advanceTime ps z).1.timers[o]? = some (some T)) := by
  obtain ⟨h1, h2, _⟩ := tbExec_wait_delay S t script fuel s tr n hop hrep hd
  exact ⟨h1, h2, fun ps z o T l ht hl => waker_fires_at_deadline ps z o T l ht hl⟩

example : Trigger.delay? [.delay 5, .sample (.sig 0)] = some 5 := rfl

/-- non-vacuity: the hypotheses of `delay_exact` hold in the initial state of a `mkSim` simulation whose
testbench starts with `await ctx.delay(5).sample(sig)`; the run resumes it at 5 fs -/
example :
    Ex.delayScripts[0]![(getLoc (initState Ex.delayD [] Ex.delayScripts) (Ex.delaySim.nproc + 0)).pc]? =
      some (.wait [.delay 5, .sample (.sig 0)]) ∧
    (getLoc (initState Ex.delayD [] Ex.delayScripts) (Ex.delaySim.nproc + 0)).report = false ∧
    Trigger.delay? [.delay 5, .sample (.sig 0)] = some 5 ∧
    (tbExec Ex.delaySim 0 Ex.delayScripts[0]! 1 (initState Ex.delayD [] Ex.delayScripts)).timers = [some 5] ∧
    (run Ex.delaySim 10 (initState Ex.delayD [] Ex.delayScripts)).obs.reverse = [(0, 5, [1, 0]), (0, 5, [0])] :=
  ⟨rfl, rfl, rfl, (delay_exact Ex.delaySim 0 Ex.delayScripts[0]! 0 _ _ 5 rfl rfl rfl).1, by decide +kernel⟩

/-! ## Testbenches -/

/-- testbenches take their turns in insertion order: a pass over `n + 1` testbenches is the pass over
the first `n` followed by the turn of testbench `n`. This holds by construction of `tbPass` (a left fold
over `List.range`): it restates the definition and is kept as the reading of "in the order in which they
were added". What the order *means* for an observer is `tb_sees_earlier_set` below. -/
theorem tb_order (S : Sim) (s : EState) (n : Nat) :
    tbPass S s = (List.range S.scripts.length).foldl (tbTurn S) (s, false) ∧
    (List.range (n + 1)).foldl (tbTurn S) (s, false) = tbTurn S ((List.range n).foldl (tbTurn S) (s, false)) n :=
  ⟨tbPass_eq S s, tbTurns_succ S (s, false) n⟩

/-- **A later testbench sees an earlier testbench's write, settled.** In a pass, let testbench `n` be
runnable with `ctx.set(tgt, v)` as the last operation of its script, and let `s₂` be the state
`step_design()` returns after that write. If testbench `n + 1` is then runnable with `ctx.get(e)` as
its next operation, its turn — the very next one in the pass — records the value of `e` in `s₂`, at `s₂`'s time. -/
theorem tb_sees_earlier_set (S : Sim) (hobs : ∀ z, (S.step z).obs = z.obs)
    (acc : EState × Bool) (n : Nat) (tgt : Expr) (v : Int) (e : Expr)
    (l : Local) (hl : acc.1.locals[S.nproc + n]? = some l) (hrun : l.runnable = true) (hrep : l.report = false)
    (hop : (S.scripts.getD n [])[l.pc]? = some (.set tgt v)) (hend : (S.scripts.getD n [])[l.pc + 1]? = none)
    (s₂ : EState)
    (hs₂ : s₂ = S.step { setLoc acc.1 (S.nproc + n) { l with runnable := false } with
                          next := assignTbG true S.ctx acc.1.curr tgt 0 v (widthOf S.ctx tgt) acc.1.next })
    (hlen₂ : S.nproc + n < s₂.locals.length)
    (l' : Local) (hl' : s₂.locals[S.nproc + (n + 1)]? = some l') (hrun' : l'.runnable = true) (hrep' : l'.report = false)
    (hop' : (S.scripts.getD (n + 1) [])[l'.pc]? = some (.get e)) :
    (n + 1, s₂.now, [evalTb S.ctx s₂.curr e]) ∈ (tbTurn S (tbTurn S acc n) (n + 1)).1.obs :=
  Engine.tb_sees_earlier_set S hobs acc n tgt v e l hl hrun hrep hop hend s₂ hs₂ hlen₂ l' hl' hrun' hrep' hop'

/-- `step_design()` of a `mkSim` simulation records no observation: not a hypothesis for such simulations -/
theorem step_keeps_obs (D : Design) (kinds : List ProcKind) (scripts : List (List TbOp)) (sched : Sched) (fuel : Nat)
    (z : EState) : ((mkSim D kinds scripts sched fuel).step z).obs = z.obs := settle_obs _ _ _ z

/-- non-vacuity and test: `out := in ^ 3`; testbench 0 does `set(in, 7)`, testbench 1 does `get(out)` in the
same pass and records `7 ^ 3 = 4` — the settled consequence of testbench 0's write -/
example :
    (1, 0, [4]) ∈ (tbTurn Ex.orderSim (tbTurn Ex.orderSim (Ex.orderS0, false) 0) 1).1.obs ∧
    (advance Ex.orderSim (initState Ex.orderD (circuitKinds Ex.orderD) Ex.orderScripts)).1.obs = [(1, 0, [4])] := by
  refine ⟨?_, by decide +kernel⟩
  have h := tb_sees_earlier_set Ex.orderSim (step_keeps_obs _ _ _ _ _) (Ex.orderS0, false) 0 (.sig 0) 7 (.sig 1)
    (getLoc Ex.orderS0 1) (by decide +kernel) (by decide +kernel) (by decide +kernel) rfl rfl _ rfl
    (by decide +kernel) (getLoc Ex.orderS0 2) (by decide +kernel) (by decide +kernel) (by decide +kernel) rfl
  have e : ((0 : Nat) + 1, (Ex.orderSim.step { setLoc (Ex.orderS0, false).1 (Ex.orderSim.nproc + 0) { getLoc Ex.orderS0 1 with runnable := false } with
        next := assignTbG true Ex.orderSim.ctx (Ex.orderS0, false).1.curr (.sig 0) 0 7 (widthOf Ex.orderSim.ctx (.sig 0)) (Ex.orderS0, false).1.next }).now,
      [evalTb Ex.orderSim.ctx (Ex.orderSim.step { setLoc (Ex.orderS0, false).1 (Ex.orderSim.nproc + 0) { getLoc Ex.orderS0 1 with runnable := false } with
        next := assignTbG true Ex.orderSim.ctx (Ex.orderS0, false).1.curr (.sig 0) 0 7 (widthOf Ex.orderSim.ctx (.sig 0)) (Ex.orderS0, false).1.next }).curr (.sig 1)])
      = ((1, 0, [4]) : Obs) := by decide +kernel
  rw [e] at h
  exact h

/-- `ctx.set` ends with `step_design()`; when that returns (the loop converged), the state is settled:
`curr = next` everywhere, no process runnable, no trigger active — a fixpoint of `delta` for every order -/
theorem set_returns_settled (ps : List ProcDef) (hwb : WellBehaved ps) (sched : Sched) (fuel : Nat) (s : EState)
    (hlen : ps.length = s.locals.length) (hconv : (settle ps sched fuel s).2 = true) :
    ∃ k, Quiet (sched k) (settle ps sched fuel s).1 ∧
      ∀ o, (sched k).Equiv o →
        delta ps o (settle ps sched fuel s).1 =
          ({ (settle ps sched fuel s).1 with deltas := (settle ps sched fuel s).1.deltas + 1 }, true) := by
  obtain ⟨k, hq, hl⟩ := settle_settled ps hwb sched fuel s hlen hconv
  exact ⟨k, hq, fun o he => delta_of_quiet ps o _ hl (hq.of_equiv he)⟩

/-- every owner a simulation can contain is well behaved: not a hypothesis for `mkSim` simulations -/
theorem owners_well_behaved (D : Design) (kinds : List ProcKind) (scripts : List (List TbOp)) :
    WellBehaved (simDefs D kinds scripts) := simDefs_wellBehaved D kinds scripts

/-- non-vacuity: `step_design()` of the counter simulation converges from its initial state, and the
owner list matches the state: the hypotheses of `set_returns_settled` hold for a `mkSim` simulation -/
example :
    (settle (simDefs Ex.counterD Ex.counterKinds Ex.counterScripts) (identitySched 3 3) 50
      (initState Ex.counterD Ex.counterKinds Ex.counterScripts)).2 = true ∧
    (simDefs Ex.counterD Ex.counterKinds Ex.counterScripts).length =
      (initState Ex.counterD Ex.counterKinds Ex.counterScripts).locals.length := by decide +kernel

/-- … and so does its conclusion: the settled state is a fixpoint of `delta` for the reversed order too -/
example : ∃ k, ∀ o, (identitySched 3 3 k).Equiv o →
    delta (simDefs Ex.counterD Ex.counterKinds Ex.counterScripts) o
      (settle (simDefs Ex.counterD Ex.counterKinds Ex.counterScripts) (identitySched 3 3) 50
        (initState Ex.counterD Ex.counterKinds Ex.counterScripts)).1 =
      ({ (settle (simDefs Ex.counterD Ex.counterKinds Ex.counterScripts) (identitySched 3 3) 50
          (initState Ex.counterD Ex.counterKinds Ex.counterScripts)).1 with
         deltas := (settle (simDefs Ex.counterD Ex.counterKinds Ex.counterScripts) (identitySched 3 3) 50
          (initState Ex.counterD Ex.counterKinds Ex.counterScripts)).1.deltas + 1 }, true) := by
  obtain ⟨k, _, h⟩ := set_returns_settled _ (owners_well_behaved Ex.counterD Ex.counterKinds Ex.counterScripts)
    (identitySched 3 3) 50 (initState Ex.counterD Ex.counterKinds Ex.counterScripts)
    (by decide +kernel) (by decide +kernel)
  exact ⟨k, h⟩

/-- Tick sampling. Let `s` be the state in which the clock edge is committed (`commit ps order s`).
(1) Every signal that is not pending in `s` keeps its value through that commit: registers and
combinational outputs still hold their pre-edge values afterwards. (2) The commit activates the
testbench that waits for the tick. (3) In the next delta the testbench's result is computed in phase
1a from `curr` exactly as that commit left it, and (4) the processes of that delta — among them the
synchronous processes woken by the edge — do not change `curr`; their register updates reach `curr`
only in the commit that ends the delta. (5) No delta runs a testbench: it resumes after
`step_design()` has converged, on the settled post-edge state (`set_returns_settled`).
These are the five local facts; they are chained into one statement about `step_design()` and
`advance()` by `tick_sampling_settle` and `tick_sampling_end_to_end` at the end of this file. -/
theorem tick_sampling (ps : List ProcDef) (ctx : Ctx) (doms : List DomCfg) (script : List TbOp) (o : Nat)
    (hdef : ps[o]? = some (tbDef ctx doms script)) :
    (∀ (order : List Nat) (s : EState) (i : Nat), s.next.val i = s.curr.val i →
        (commit ps order s).curr.val i = s.curr.val i) ∧
    (∀ (cfg : DomCfg) (es : List Expr) (l : Local) (old new : Int), l.waiting = true →
        (bitOf old 0 != bitOf new 0 && bitOf new 0 == cfg.posedge) = true →
        (trigWake (tickTrigger cfg es) l cfg.clk old new).active = true) ∧
    (∀ (s : EState) (l : Local), s.locals[o]? = some l → l.active = true →
        (trigPhase ps s).locals[o]? = some (trigRun ctx (tbTrigger doms script l) l s.curr) ∧
        (trigRun ctx (tbTrigger doms script l) l s.curr).result =
          trigResult ctx (tbTrigger doms script l) l.hits s.curr) ∧
    (∀ (order : List Nat) (s : EState), (runProcs ps order s).curr = s.curr) ∧
    (∀ (ord : Orders) (s : EState), (delta ps ord s).1.obs = s.obs) :=
  ⟨fun order s i h => commit_curr_of_eq ps order s i h,
   fun cfg es l old new hw he => tick_activated cfg es l old new hw he,
   fun s l hl ha => ⟨trigPhase_tb ps ctx doms script o hdef s l hl ha, rfl⟩,
   fun order s => runProcs_curr ps order s,
   fun ord s => delta_obs ps ord s⟩

/-- test: a counter, sampled by a tick: the tick returns the pre-edge value 5, `get` sees 6 -/
example :
    let ctx : Ctx := [Shape.u 1, Shape.u 4]
    let D : Design := { ctx, inits := [0, 5], resetLess := [false, false], doms := [{ clk := 0 }],
                        procs := [{ dom := some 0, body := .assign (.sig 1) (.op2 .add (.sig 1) (.const 1 (Shape.u 1))) }] }
    let kinds := circuitKinds D ++ [ProcKind.clock 0 2 4]
    let scripts := [[TbOp.tick 0 [.sig 1], TbOp.get (.sig 1)]]
    (run (mkSim D kinds scripts (identitySched 2 2) 50) 20 (initState D kinds scripts)).obs.reverse
      = [(0, 2, [1, 0, 5]), (0, 2, [6])] := by decide +kernel

/-- **Tick sampling on `step_design()`.** Let `s` be the state at the start of the delta whose commit
performs the active clock edge of domain `d` (after the process phase of that delta the clock is
pending with an edge of the domain's polarity, and is among the slots committed), and let testbench
`o` be suspended on `tick(d).sample(*es)`. Let `c₁` be `curr` right after that commit. Then when
`step_design()` returns (fuel ≥ 2; the schedule does not list the testbench among the processes),
the testbench is runnable, still has to report, and its wait returns `(1, rst, *es evaluated in c₁)`.
Every signal that is not pending at that commit has in `c₁` the value it had before the edge: the
registers of the domain — whose processes are only woken by this commit — are sampled with their
pre-edge values, whatever the order of processes and slots. -/
theorem tick_sampling_settle (ps : List ProcDef) (ctx : Ctx) (doms : List DomCfg) (script : List TbOp) (o : Nat)
    (hdef : ps[o]? = some (tbDef ctx doms script)) (d : Nat) (es : List Expr) (s : EState) (l : Local)
    (hl : s.locals[o]? = some l) (hop : script[l.pc]? = some (.tick d es)) (hw : l.waiting = true)
    (ha : l.active = false) (hlen : l.hits.length = (tickTrigger (doms.getD d default) es).length)
    (sched : Sched) (hno : ∀ k, o ∉ (sched k).procs) (hclk : (doms.getD d default).clk ∈ (sched s.deltas).slots)
    (hedge : (bitOf (s.curr.val (doms.getD d default).clk) 0 !=
                bitOf ((runProcs ps (sched s.deltas).procs (trigPhase ps s)).next.val (doms.getD d default).clk) 0 &&
              bitOf ((runProcs ps (sched s.deltas).procs (trigPhase ps s)).next.val (doms.getD d default).clk) 0 ==
                (doms.getD d default).posedge) = true)
    (fuel : Nat) :
    let c₁ := (delta ps (sched s.deltas) s).1.curr
    (∃ l' rst, (settle ps sched (fuel + 2) s).1.locals[o]? = some l' ∧
      l'.runnable = true ∧ l'.waiting = false ∧ l'.active = false ∧ l'.report = l.report ∧ l'.pc = l.pc ∧
      TbOp.shown l'.result (.tick d es) = 1 :: rst :: es.map (evalTb ctx c₁)) ∧
    (∀ i, (runProcs ps (sched s.deltas).procs (trigPhase ps s)).next.val i = s.curr.val i → c₁.val i = s.curr.val i) :=
  settle_tick ps ctx doms script o hdef d es s l hl hop hw ha hlen sched hno hclk hedge fuel

/-- **Tick sampling, end to end on `advance()`.** Let `s` be a state in which testbench `t` of a
simulation is suspended on `await ctx.tick(d).sample(*es)` (it has to report when it resumes), and let
the first delta of this `advance()` commit the active clock edge of domain `d` (a clock process is due,
or a testbench has just written the clock). Then this `advance()` records, for testbench `t` and at the
current time, the observation `(1, rst, *es evaluated in c₁)` where `c₁` is `curr` right after the
commit of the edge's delta; and every signal that is not pending at that commit — the registers
clocked by the edge — has in `c₁` the value it had before the edge. For every schedule that lists only
processes, every fuel ≥ 2. -/
theorem tick_sampling_end_to_end (D : Design) (kinds : List ProcKind) (scripts : List (List TbOp)) (sched : Sched) (f : Nat)
    (t : Nat) (script : List TbOp) (hsc : scripts[t]? = some script)
    (d : Nat) (es : List Expr) (s : EState) (l : Local)
    (hl : s.locals[kinds.length + t]? = some l) (hop : script[l.pc]? = some (.tick d es)) (hw : l.waiting = true)
    (ha : l.active = false) (hrep : l.report = true)
    (hlen : l.hits.length = (tickTrigger (D.doms.getD d default) es).length)
    (hno : ∀ k, ∀ p ∈ (sched k).procs, p < kinds.length)
    (hclk : (D.doms.getD d default).clk ∈ (sched s.deltas).slots)
    (hedge : (bitOf (s.curr.val (D.doms.getD d default).clk) 0 !=
                bitOf ((runProcs (simDefs D kinds scripts) (sched s.deltas).procs
                  (trigPhase (simDefs D kinds scripts) s)).next.val (D.doms.getD d default).clk) 0 &&
              bitOf ((runProcs (simDefs D kinds scripts) (sched s.deltas).procs
                  (trigPhase (simDefs D kinds scripts) s)).next.val (D.doms.getD d default).clk) 0 ==
                (D.doms.getD d default).posedge) = true) :
    let c₁ := (delta (simDefs D kinds scripts) (sched s.deltas) s).1.curr
    (∃ rst, (t, s.now, 1 :: rst :: es.map (evalTb D.ctx c₁)) ∈ (advance (mkSim D kinds scripts sched (f + 2)) s).1.obs) ∧
    (∀ i, (runProcs (simDefs D kinds scripts) (sched s.deltas).procs
        (trigPhase (simDefs D kinds scripts) s)).next.val i = s.curr.val i → c₁.val i = s.curr.val i) :=
  advance_tick D kinds scripts sched f t script hsc d es s l hl hop hw ha hrep hlen hno hclk hedge

/-- **… and the values are the pre-edge values.** If no signal mentioned by the sampled expressions is
pending at the commit of the edge (the registers of the domain and what is computed from them: their
processes have not run yet — they are woken by this very commit), the observation recorded by this
`advance()` is `(1, rst, *es evaluated in s.curr)`: the values from just before the edge. -/
theorem tick_returns_pre_edge_values (D : Design) (kinds : List ProcKind) (scripts : List (List TbOp)) (sched : Sched) (f : Nat)
    (t : Nat) (script : List TbOp) (hsc : scripts[t]? = some script)
    (d : Nat) (es : List Expr) (s : EState) (l : Local)
    (hl : s.locals[kinds.length + t]? = some l) (hop : script[l.pc]? = some (.tick d es)) (hw : l.waiting = true)
    (ha : l.active = false) (hrep : l.report = true)
    (hlen : l.hits.length = (tickTrigger (D.doms.getD d default) es).length)
    (hno : ∀ k, ∀ p ∈ (sched k).procs, p < kinds.length)
    (hclk : (D.doms.getD d default).clk ∈ (sched s.deltas).slots)
    (hedge : (bitOf (s.curr.val (D.doms.getD d default).clk) 0 !=
                bitOf ((runProcs (simDefs D kinds scripts) (sched s.deltas).procs
                  (trigPhase (simDefs D kinds scripts) s)).next.val (D.doms.getD d default).clk) 0 &&
              bitOf ((runProcs (simDefs D kinds scripts) (sched s.deltas).procs
                  (trigPhase (simDefs D kinds scripts) s)).next.val (D.doms.getD d default).clk) 0 ==
                (D.doms.getD d default).posedge) = true)
    (hquiet : ∀ e ∈ es, ∀ i ∈ exprSigs e, (runProcs (simDefs D kinds scripts) (sched s.deltas).procs
        (trigPhase (simDefs D kinds scripts) s)).next.val i = s.curr.val i) :
    ∃ rst, (t, s.now, 1 :: rst :: es.map (evalTb D.ctx s.curr)) ∈ (advance (mkSim D kinds scripts sched (f + 2)) s).1.obs :=
  advance_tick_pre_edge D kinds scripts sched f t script hsc d es s l hl hop hw ha hrep hlen hno hclk hedge hquiet

/-- non-vacuity and test: the counter after its first `advance()` (clock due at 2 fs, testbench suspended
on `tick().sample(count, out)`): all hypotheses of `tick_sampling_end_to_end` hold, and the observation it
promises is `(1, rst, 5, 6)` at 2 fs — `count` and `out = count ^ 3` from before the edge -/
example : ∃ rst, (0, 2, 1 :: rst :: [5, 6]) ∈ (advance Ex.counterSim Ex.counterS1).1.obs := by
  have h := tick_sampling_end_to_end Ex.counterD Ex.counterKinds Ex.counterScripts (identitySched 3 3) 48 0
    [.tick 0 [.sig 1, .sig 2], .get (.sig 2), .tick 0 [.sig 1], .get (.sig 1)] rfl 0 [.sig 1, .sig 2]
    Ex.counterS1 (getLoc Ex.counterS1 3)
    (by decide +kernel) rfl (by decide +kernel) (by decide +kernel) (by decide +kernel) (by decide +kernel)
    (fun _ p hp => List.mem_range.mp hp) (by decide +kernel) (by decide +kernel)
  obtain ⟨⟨rst, h1⟩, _⟩ := h
  refine ⟨rst, ?_⟩
  have e : List.map (evalTb Ex.counterD.ctx (delta (simDefs Ex.counterD Ex.counterKinds Ex.counterScripts)
      (identitySched 3 3 Ex.counterS1.deltas) Ex.counterS1).1.curr) [Expr.sig 1, Expr.sig 2] = [5, 6] := by decide +kernel
  have e2 : Ex.counterS1.now = 2 := by decide +kernel
  rw [e, e2] at h1
  exact h1

/-- non-vacuity: the extra hypothesis of `tick_returns_pre_edge_values` holds there too (neither `count`
nor `out` is pending when the clock edge is committed), and the pre-edge values are `count = 5`, `out = 6` -/
example :
    (∀ e ∈ [Expr.sig 1, Expr.sig 2], ∀ i ∈ exprSigs e,
      (runProcs (simDefs Ex.counterD Ex.counterKinds Ex.counterScripts) (identitySched 3 3 Ex.counterS1.deltas).procs
        (trigPhase (simDefs Ex.counterD Ex.counterKinds Ex.counterScripts) Ex.counterS1)).next.val i = Ex.counterS1.curr.val i) ∧
    [Expr.sig 1, Expr.sig 2].map (evalTb Ex.counterD.ctx Ex.counterS1.curr) = [5, 6] := by decide +kernel

/-! ## A circuit replaced by an equivalent process -/

/-- **`m.d.comb += out.eq(e)` replaced by the documented process form**
`async for values in ctx.changed(*ins): ctx.set(out, e(values))`, `ins` = the signals `e` reads.

`combKindsA pre post out e = pre ++ comb (out := e) :: post` and
`combKindsB pre post out e = pre ++ userComb (exprSigs e) out e :: post`: the process takes the place of the
compiled assignment in the process list (the engine's collection is unordered; the position only fixes the
index schedules refer to). Hypotheses: `out` is a signal of the design that no other process writes and the
other processes keep every signal inside its shape (`ReplHyp`; decidable form `replOk`); `e` is well formed;
the initial values lie in the shapes; testbenches write only through well-formed targets that do not mention
`out` (`writeOk`); the schedule lists every process once per delta. `e` may read `out` itself.

Then, from the initial states (at time 0 both owners are runnable; the process gets its `initial` wake-up),
the two simulations agree after every number of `advance()` calls, after `run()` and after `run_until()` on
`curr`, `next`, `now` and on every testbench observation — for every schedule and fuel. In this model the
user process is resumed in the same delta as the compiled process runs (phase 1a makes it runnable, phase 1b
runs it), so the relation needs no lag; the compiled process is additionally woken by changes of `out`
itself, in which case it rewrites the value that is already pending (`CombQ`, third case). -/
theorem process_equiv_comb (D : Design) (pre post : List ProcKind) (scripts : List (List TbOp)) (out : Nat) (e : Expr)
    (sched : Sched) (fuel : Nat) (H : ReplHyp D pre post out) (hwf : e.wf D.ctx = true) (hinit : EnvN D.ctx D.inits)
    (hsc : ∀ sc ∈ scripts, ScriptWrites (writeOk D.ctx out) sc)
    (hnd : SchedNodup sched) (hl : ∀ k, pre.length ∈ (sched k).procs) (n : Nat) :
    SameObs (advanceN (mkSim D (combKindsA pre post out e) scripts sched fuel) n (initState D (combKindsA pre post out e) scripts))
      (advanceN (mkSim D (combKindsB pre post out e) scripts sched fuel) n (initState D (combKindsB pre post out e) scripts)) ∧
    SameObs (run (mkSim D (combKindsA pre post out e) scripts sched fuel) n (initState D (combKindsA pre post out e) scripts))
      (run (mkSim D (combKindsB pre post out e) scripts sched fuel) n (initState D (combKindsB pre post out e) scripts)) ∧
    ∀ deadline,
      SameObs (runUntil (mkSim D (combKindsA pre post out e) scripts sched fuel) deadline n (initState D (combKindsA pre post out e) scripts))
        (runUntil (mkSim D (combKindsB pre post out e) scripts sched fuel) deadline n (initState D (combKindsB pre post out e) scripts)) :=
  comb_equiv_runs D pre post scripts out e sched fuel H hwf hinit hsc hnd hl n

/-- the same per `step_design()`, from any pair of corresponding states (`CombRel`: everything equal except
the replaced owner's local state, which is in one of the three situations of `CombQ`), and per delta -/
theorem process_equiv_comb_settle (D : Design) (pre post : List ProcKind) (scripts : List (List TbOp)) (out : Nat) (e : Expr)
    (H : ReplHyp D pre post out) (hwf : e.wf D.ctx = true) (sched : Sched)
    (hnd : SchedNodup sched) (hl : ∀ k, pre.length ∈ (sched k).procs) (fuel : Nat) (a b : EState)
    (hr : CombRel D pre out e a b) :
    CombRel D pre out e (settle (simDefs D (combKindsA pre post out e) scripts) sched fuel a).1
      (settle (simDefs D (combKindsB pre post out e) scripts) sched fuel b).1 ∧
    SameObs (settle (simDefs D (combKindsA pre post out e) scripts) sched fuel a).1
      (settle (simDefs D (combKindsB pre post out e) scripts) sched fuel b).1 ∧
    ∀ (o : Orders), o.procs.Nodup → pre.length ∈ o.procs →
      CombRel D pre out e (delta (simDefs D (combKindsA pre post out e) scripts) o a).1
        (delta (simDefs D (combKindsB pre post out e) scripts) o b).1 ∧
      (delta (simDefs D (combKindsB pre post out e) scripts) o b).2 =
        (delta (simDefs D (combKindsA pre post out e) scripts) o a).2 :=
  ⟨comb_settle H hwf sched hnd hl fuel a b hr, (comb_settle H hwf sched hnd hl fuel a b hr).1.sameObs,
   fun o h1 h2 => comb_delta H hwf o h1 h2 a b hr⟩

/-- the hypotheses in decidable form -/
theorem process_equiv_comb_checked (D : Design) (pre post : List ProcKind) (scripts : List (List TbOp)) (out : Nat) (e : Expr)
    (sched : Sched) (fuel : Nat) (h1 : envNb D.ctx D.inits = true) (h2 : replOk D pre post out = true)
    (h3 : e.wf D.ctx = true) (h4 : scriptsWriteOk D.ctx out scripts = true)
    (hnd : SchedNodup sched) (hl : ∀ k, pre.length ∈ (sched k).procs) (n : Nat) :
    SameObs (run (mkSim D (combKindsA pre post out e) scripts sched fuel) n (initState D (combKindsA pre post out e) scripts))
      (run (mkSim D (combKindsB pre post out e) scripts sched fuel) n (initState D (combKindsB pre post out e) scripts)) :=
  (comb_equiv_runs D pre post scripts out e sched fuel (replOk_sound (envNb_sound h1) h2) h3 (envNb_sound h1)
    (scriptsWriteOk_sound h4) hnd hl n).2.1

/-- non-vacuity: `out := in ^ 3` behind a clock process (the replaced owner has index 1), a testbench that
writes `in`, waits and copies `out` back to `in`. All hypotheses are decided; the theorem applies under the
identity and under the reversed schedule; both simulations evaluated. -/
example :
    SameObs (run (mkSim Ex.replCombD (combKindsA Ex.replCombPre [] 1 Ex.replCombE) Ex.replCombScripts (identitySched 2 3) 20) 20
        (initState Ex.replCombD (combKindsA Ex.replCombPre [] 1 Ex.replCombE) Ex.replCombScripts))
      (run (mkSim Ex.replCombD (combKindsB Ex.replCombPre [] 1 Ex.replCombE) Ex.replCombScripts (identitySched 2 3) 20) 20
        (initState Ex.replCombD (combKindsB Ex.replCombPre [] 1 Ex.replCombE) Ex.replCombScripts)) :=
  process_equiv_comb_checked Ex.replCombD Ex.replCombPre [] Ex.replCombScripts 1 Ex.replCombE (identitySched 2 3) 20
    (by decide) (by decide) (by decide) (by decide)
    (identitySched_nodup 2 3) (fun _ => (by decide : Ex.replCombPre.length ∈ List.range 2)) 20

example :
    (run (mkSim Ex.replCombD (combKindsA Ex.replCombPre [] 1 Ex.replCombE) Ex.replCombScripts (identitySched 2 3) 20) 20
        (initState Ex.replCombD (combKindsA Ex.replCombPre [] 1 Ex.replCombE) Ex.replCombScripts)).obs.reverse
      = [(0, 0, [3]), (0, 0, [4]), (0, 3, [1, 1]), (0, 3, [7])] ∧
    (run (mkSim Ex.replCombD (combKindsB Ex.replCombPre [] 1 Ex.replCombE) Ex.replCombScripts (identitySched 2 3) 20) 20
        (initState Ex.replCombD (combKindsB Ex.replCombPre [] 1 Ex.replCombE) Ex.replCombScripts)).obs.reverse
      = [(0, 0, [3]), (0, 0, [4]), (0, 3, [1, 1]), (0, 3, [7])] ∧
    (run (mkSim Ex.replCombD (combKindsB Ex.replCombPre [] 1 Ex.replCombE) Ex.replCombScripts (reverseSched 2 3) 20) 20
        (initState Ex.replCombD (combKindsB Ex.replCombPre [] 1 Ex.replCombE) Ex.replCombScripts)).curr = [4, 7, 1] := by
  decide +kernel

/-
Full statement for registers (proved further down as `process_equiv_sync`, in the form in which the compiled
processes are removed and the user process appended; what follows is the same-position special case):

  process_equiv_sync: for every domain `d` — with or without reset, synchronous or asynchronous —
  `sync d (out := e)` (together with its reset-only companion `arst d (out := e)` when the domain has an
  asynchronous reset) replaced by `userSync d (exprSigs e) out e` yields `SameObs` after every `advance()`,
  `run()`, `run_until()`, from the initial states, for every schedule.

`process_equiv_sync_partial` below: the domains for which the compiler creates no reset-only companion, i.e.
`¬ (async ∧ rst.isSome)`, with the process at the *same position* as the compiled one. For an asynchronous
reset the compiled side has two owners (`arst`, `sync`) for the one user process; that case is proved against an
inert placeholder at the reset-only process' position (`async_equiv_runs`), the placeholder is then dropped and
the process moved to the end by `reindex_sameobs` (`process_equiv_sync`).
-/

/-- **`m.d.<domain> += out.eq(e)` replaced by the documented process form**
`async for clk_edge, rst, *values in ctx.tick(d).sample(*ins): if rst: ctx.set(out, init) elif clk_edge: ctx.set(out, e(values))`,
for a domain without asynchronous reset (`SyncHyp`, decidable form `syncOk`: 1-bit unsigned clock and reset that
are signals of the design, `out` resettable when the domain has a reset).

The compiled process is woken by the commit that makes the clock equal to the active level, the user
process' trigger by an edge of bit 0 of the clock with the domain's polarity: for a 1-bit clock whose values
lie in its shape these are the same commits. In the next delta phase 1a samples `ins` and the reset from
`curr` (as `tick_sampling_*` describe) and phase 1b runs both owners on that same `curr`; both write `init`
under reset and `e` on the current values otherwise. Hypotheses otherwise as in `process_equiv_comb`, except
that testbenches may write any well-formed target (also `out`). -/
theorem process_equiv_sync_partial (D : Design) (pre post : List ProcKind) (scripts : List (List TbOp)) (d out : Nat) (e : Expr)
    (sched : Sched) (fuel : Nat) (H : ReplHyp D pre post out) (HS : SyncHyp D d out) (hwf : e.wf D.ctx = true)
    (hsc : ∀ sc ∈ scripts, ScriptWrites (fun tgt => tgt.twf D.ctx = true) sc)
    (hnd : SchedNodup sched) (hl : ∀ k, pre.length ∈ (sched k).procs) (n : Nat) :
    SameObs (advanceN (mkSim D (syncKindsA pre post d out e) scripts sched fuel) n (initState D (syncKindsA pre post d out e) scripts))
      (advanceN (mkSim D (syncKindsB pre post d out e) scripts sched fuel) n (initState D (syncKindsB pre post d out e) scripts)) ∧
    SameObs (run (mkSim D (syncKindsA pre post d out e) scripts sched fuel) n (initState D (syncKindsA pre post d out e) scripts))
      (run (mkSim D (syncKindsB pre post d out e) scripts sched fuel) n (initState D (syncKindsB pre post d out e) scripts)) ∧
    ∀ deadline,
      SameObs (runUntil (mkSim D (syncKindsA pre post d out e) scripts sched fuel) deadline n (initState D (syncKindsA pre post d out e) scripts))
        (runUntil (mkSim D (syncKindsB pre post d out e) scripts sched fuel) deadline n (initState D (syncKindsB pre post d out e) scripts)) :=
  sync_equiv_runs D pre post scripts d out e sched fuel H HS hwf hsc hnd hl n

/-- the same per `step_design()` and per delta, from any pair of corresponding states (`SyncRel`) -/
theorem process_equiv_sync_settle_partial (D : Design) (pre post : List ProcKind) (scripts : List (List TbOp)) (d out : Nat)
    (e : Expr) (H : ReplHyp D pre post out) (HS : SyncHyp D d out) (hwf : e.wf D.ctx = true) (sched : Sched)
    (hnd : SchedNodup sched) (hl : ∀ k, pre.length ∈ (sched k).procs) (fuel : Nat) (a b : EState)
    (hr : SyncRel D pre d out e a b) :
    SyncRel D pre d out e (settle (simDefs D (syncKindsA pre post d out e) scripts) sched fuel a).1
      (settle (simDefs D (syncKindsB pre post d out e) scripts) sched fuel b).1 ∧
    ∀ (o : Orders), o.procs.Nodup → pre.length ∈ o.procs →
      SyncRel D pre d out e (delta (simDefs D (syncKindsA pre post d out e) scripts) o a).1
        (delta (simDefs D (syncKindsB pre post d out e) scripts) o b).1 ∧
      (delta (simDefs D (syncKindsB pre post d out e) scripts) o b).2 =
        (delta (simDefs D (syncKindsA pre post d out e) scripts) o a).2 :=
  ⟨sync_settle H HS hwf sched hnd hl fuel a b hr, fun o h1 h2 => sync_delta H HS hwf o h1 h2 a b hr⟩

/-- the hypotheses in decidable form -/
theorem process_equiv_sync_checked_partial (D : Design) (pre post : List ProcKind) (scripts : List (List TbOp)) (d out : Nat)
    (e : Expr) (sched : Sched) (fuel : Nat) (h1 : envNb D.ctx D.inits = true) (h2 : replOk D pre post out = true)
    (h3 : syncOk D d out = true) (h4 : e.wf D.ctx = true) (h5 : scriptsTwf D.ctx scripts = true)
    (hnd : SchedNodup sched) (hl : ∀ k, pre.length ∈ (sched k).procs) (n : Nat) :
    SameObs (run (mkSim D (syncKindsA pre post d out e) scripts sched fuel) n (initState D (syncKindsA pre post d out e) scripts))
      (run (mkSim D (syncKindsB pre post d out e) scripts sched fuel) n (initState D (syncKindsB pre post d out e) scripts)) :=
  (sync_equiv_runs D pre post scripts d out e sched fuel (replOk_sound (envNb_sound h1) h2)
    (syncOk_sound (envNb_sound h1) h3) h4 (scriptsTwf_sound h5) hnd hl n).2.1

/-- non-vacuity: the register `count := count + 1` of a domain with a synchronous reset, followed by a compiled
`out := count ^ 3` and the clock process; the testbench ticks, raises the reset, ticks, lowers it, ticks. All
hypotheses are decided; both simulations evaluated (tick 1 samples `count = 5`, `out = 6`; under reset the
register returns to 5). -/
example :
    SameObs (run (mkSim Ex.replSyncD (syncKindsA [] Ex.replSyncPost 0 2 Ex.replSyncE) Ex.replSyncScripts (identitySched 3 4) 20) 30
        (initState Ex.replSyncD (syncKindsA [] Ex.replSyncPost 0 2 Ex.replSyncE) Ex.replSyncScripts))
      (run (mkSim Ex.replSyncD (syncKindsB [] Ex.replSyncPost 0 2 Ex.replSyncE) Ex.replSyncScripts (identitySched 3 4) 20) 30
        (initState Ex.replSyncD (syncKindsB [] Ex.replSyncPost 0 2 Ex.replSyncE) Ex.replSyncScripts)) :=
  process_equiv_sync_checked_partial Ex.replSyncD [] Ex.replSyncPost Ex.replSyncScripts 0 2 Ex.replSyncE (identitySched 3 4) 20
    (by decide) (by decide) (by decide) (by decide) (by decide)
    (identitySched_nodup 3 4) (fun _ => (by decide : ([] : List ProcKind).length ∈ List.range 3)) 30

example :
    (run (mkSim Ex.replSyncD (syncKindsA [] Ex.replSyncPost 0 2 Ex.replSyncE) Ex.replSyncScripts (identitySched 3 4) 20) 30
        (initState Ex.replSyncD (syncKindsA [] Ex.replSyncPost 0 2 Ex.replSyncE) Ex.replSyncScripts)).obs.reverse
      = [(0, 2, [1, 0, 5, 6]), (0, 2, [6]), (0, 6, [1, 1, 6]), (0, 6, [5]), (0, 10, [1, 0]), (0, 10, [5])] ∧
    (run (mkSim Ex.replSyncD (syncKindsB [] Ex.replSyncPost 0 2 Ex.replSyncE) Ex.replSyncScripts (identitySched 3 4) 20) 30
        (initState Ex.replSyncD (syncKindsB [] Ex.replSyncPost 0 2 Ex.replSyncE) Ex.replSyncScripts)).obs.reverse
      = [(0, 2, [1, 0, 5, 6]), (0, 2, [6]), (0, 6, [1, 1, 6]), (0, 6, [5]), (0, 10, [1, 0]), (0, 10, [5])] := by
  decide +kernel

/-! ## Re-indexing the owners; the compiled process removed and the user process appended -/

/-- **Re-indexing the owners gives the same runs.** `σ` injects the owner indices of `B` into those of `A`
(`τ` its partial inverse), process `σ q` of `A` is process `q` of `B`, testbench `t` is testbench `t`, and
the processes of `A` outside the image are inert (`KindsEmbed`; instances: `move_kinds` — one process moved
to the end of the list, a bijection — and `drop_kinds` — one inert process removed). Then `A` under any
schedule and `B` under the schedule that lists the corresponding owners in the same order (`mapSched τ`)
agree on `curr`, `next`, `now` and all observations after every `advance()`, `run()`, `run_until()`. -/
theorem reindex_sameobs (D : Design) (σ : Nat → Nat) (τ : Nat → Option Nat) (kindsA kindsB : List ProcKind)
    (K : KindsEmbed D σ τ kindsA kindsB) (scripts : List (List TbOp)) (sched : Sched) (fuel n : Nat) :
    SameObs (advanceN (mkSim D kindsA scripts sched fuel) n (initState D kindsA scripts))
      (advanceN (mkSim D kindsB scripts (mapSched τ sched) fuel) n (initState D kindsB scripts)) ∧
    SameObs (run (mkSim D kindsA scripts sched fuel) n (initState D kindsA scripts))
      (run (mkSim D kindsB scripts (mapSched τ sched) fuel) n (initState D kindsB scripts)) ∧
    ∀ deadline, SameObs (runUntil (mkSim D kindsA scripts sched fuel) deadline n (initState D kindsA scripts))
      (runUntil (mkSim D kindsB scripts (mapSched τ sched) fuel) deadline n (initState D kindsB scripts)) :=
  Engine.reindex_sameobs D σ τ kindsA kindsB K scripts sched fuel n

/-- `process_equiv_comb` as `add_process` really does it: the compiled assignment is *removed* and the process
*appended* at the end of the process list. `a` is any schedule of the original simulation (no duplicates, lists
every process), `b'` any schedule of the new one that iterates, at every delta, a permutation of the
corresponding owners (`moveSched`) and of the same slots. Uses the same-position equivalence, `reindex_sameobs`
and schedule independence of the new simulation (`hpair`, `harst`: its static one-driver-per-bit condition). -/
theorem process_equiv_comb_appended (D : Design) (pre post : List ProcKind) (scripts : List (List TbOp)) (out : Nat)
    (e : Expr) (a b' : Sched) (fuel : Nat)
    (H : ReplHyp D pre post out) (hwf : e.wf D.ctx = true) (hinit : EnvN D.ctx D.inits)
    (hsc : ∀ sc ∈ scripts, ScriptWrites (writeOk D.ctx out) sc)
    (hnd : SchedNodup a) (hl : SchedLists a (pre.length + 1 + post.length))
    (hpair : (pre ++ post ++ [ProcKind.userComb (exprSigs e) out e]).Pairwise (PairOK D))
    (harst : arstWf D (pre ++ post ++ [ProcKind.userComb (exprSigs e) out e]) = true)
    (he : SchedEquiv (moveSched pre.length (pre.length + 1 + post.length) a) b') (n : Nat) :
    SameObs (advanceN (mkSim D (combKindsA pre post out e) scripts a fuel) n (initState D (combKindsA pre post out e) scripts))
      (advanceN (mkSim D (pre ++ post ++ [ProcKind.userComb (exprSigs e) out e]) scripts b' fuel) n
        (initState D (pre ++ post ++ [ProcKind.userComb (exprSigs e) out e]) scripts)) ∧
    SameObs (run (mkSim D (combKindsA pre post out e) scripts a fuel) n (initState D (combKindsA pre post out e) scripts))
      (run (mkSim D (pre ++ post ++ [ProcKind.userComb (exprSigs e) out e]) scripts b' fuel) n
        (initState D (pre ++ post ++ [ProcKind.userComb (exprSigs e) out e]) scripts)) ∧
    ∀ dl, SameObs (runUntil (mkSim D (combKindsA pre post out e) scripts a fuel) dl n (initState D (combKindsA pre post out e) scripts))
      (runUntil (mkSim D (pre ++ post ++ [ProcKind.userComb (exprSigs e) out e]) scripts b' fuel) dl n
        (initState D (pre ++ post ++ [ProcKind.userComb (exprSigs e) out e]) scripts)) :=
  comb_equiv_appended D pre post scripts out e a b' fuel H hwf hinit hsc hnd hl hpair harst he n

/-- the same for a register of a domain without asynchronous reset -/
theorem process_equiv_sync_appended_partial (D : Design) (pre post : List ProcKind) (scripts : List (List TbOp)) (d out : Nat)
    (e : Expr) (a b' : Sched) (fuel : Nat)
    (H : ReplHyp D pre post out) (HS : SyncHyp D d out) (hwf : e.wf D.ctx = true)
    (hsc : ∀ sc ∈ scripts, ScriptWrites (fun tgt => tgt.twf D.ctx = true) sc)
    (hnd : SchedNodup a) (hl : SchedLists a (pre.length + 1 + post.length))
    (hpair : (pre ++ post ++ [ProcKind.userSync d (exprSigs e) out e]).Pairwise (PairOK D))
    (harst : arstWf D (pre ++ post ++ [ProcKind.userSync d (exprSigs e) out e]) = true)
    (he : SchedEquiv (moveSched pre.length (pre.length + 1 + post.length) a) b') (n : Nat) :
    SameObs (run (mkSim D (syncKindsA pre post d out e) scripts a fuel) n (initState D (syncKindsA pre post d out e) scripts))
      (run (mkSim D (pre ++ post ++ [ProcKind.userSync d (exprSigs e) out e]) scripts b' fuel) n
        (initState D (pre ++ post ++ [ProcKind.userSync d (exprSigs e) out e]) scripts)) :=
  (sync_equiv_appended D pre post scripts out e d a b' fuel H HS hwf hsc hnd hl hpair harst he n).2.1

/-- **`process_equiv_sync`, in full.** `m.d.<domain> += out.eq(e)` replaced by the documented process form
`async for clk_edge, rst, *values in ctx.tick(d).sample(*ins): …`, for every kind of domain: no reset, a
synchronous reset (`SyncHyp`), or an asynchronous reset (`AsyncHyp`). `regKinds D d out e` is what the compiler
creates for the register — `[sync]`, or `[arst, sync]` for an `async_reset` domain — and all of it is removed;
the process is appended at the end of the list. `a`: any duplicate-free schedule of the original simulation
listing every process; `b'`: any schedule of the new one iterating, at every delta, a permutation of the
corresponding owners (`regSched`: the reset-only process' index dropped, the others renumbered) and of the
same slots.

For the asynchronous reset the relation (`AsyncRel`) keeps: the user process' trigger is activated exactly when
one of the two compiled processes is runnable, the recorded edges tell which, and the reset-only process is
runnable only while the reset is 1 — then the synchronous process, if it runs in the same delta, computes the
initial value too, and the user process sees `rst` and writes the initial value. -/
theorem process_equiv_sync (D : Design) (pre post : List ProcKind) (scripts : List (List TbOp)) (d out : Nat) (e : Expr)
    (a b' : Sched) (fuel : Nat) (H : ReplHyp D pre post out)
    (HD : SyncHyp D d out ∨ ∃ r, AsyncHyp D d out r) (hwf : e.wf D.ctx = true)
    (hsc : ∀ sc ∈ scripts, ScriptWrites (fun tgt => tgt.twf D.ctx = true) sc)
    (hnd : SchedNodup a) (hl : SchedLists a (pre ++ regKinds D d out e ++ post).length)
    (hpair : (pre ++ post ++ [ProcKind.userSync d (exprSigs e) out e]).Pairwise (PairOK D))
    (harst : arstWf D (pre ++ post ++ [ProcKind.userSync d (exprSigs e) out e]) = true)
    (he : SchedEquiv (regSched D d pre.length (pre.length + 1 + post.length) a) b') (n : Nat) :
    SameObs (advanceN (mkSim D (pre ++ regKinds D d out e ++ post) scripts a fuel) n
        (initState D (pre ++ regKinds D d out e ++ post) scripts))
      (advanceN (mkSim D (pre ++ post ++ [ProcKind.userSync d (exprSigs e) out e]) scripts b' fuel) n
        (initState D (pre ++ post ++ [ProcKind.userSync d (exprSigs e) out e]) scripts)) ∧
    SameObs (run (mkSim D (pre ++ regKinds D d out e ++ post) scripts a fuel) n
        (initState D (pre ++ regKinds D d out e ++ post) scripts))
      (run (mkSim D (pre ++ post ++ [ProcKind.userSync d (exprSigs e) out e]) scripts b' fuel) n
        (initState D (pre ++ post ++ [ProcKind.userSync d (exprSigs e) out e]) scripts)) ∧
    ∀ dl, SameObs (runUntil (mkSim D (pre ++ regKinds D d out e ++ post) scripts a fuel) dl n
        (initState D (pre ++ regKinds D d out e ++ post) scripts))
      (runUntil (mkSim D (pre ++ post ++ [ProcKind.userSync d (exprSigs e) out e]) scripts b' fuel) dl n
        (initState D (pre ++ post ++ [ProcKind.userSync d (exprSigs e) out e]) scripts)) :=
  reg_equiv_appended D pre post scripts d out e a b' fuel H HD hwf hsc hnd hl hpair harst he n

/-- non-vacuity for `process_equiv_comb_appended`: `[comb (out := in ^ 3), clock]` against `[clock, userComb]`,
the first under the identity schedule, the second under its own identity schedule (the corresponding owners
in the other order); hypotheses decided, theorem applied, both runs evaluated -/
example :
    SameObs (run (mkSim Ex.replCombD (combKindsA [] Ex.replCombPost 1 Ex.replCombE) Ex.replCombScripts (identitySched 2 3) 20) 20
        (initState Ex.replCombD (combKindsA [] Ex.replCombPost 1 Ex.replCombE) Ex.replCombScripts))
      (run (mkSim Ex.replCombD ([] ++ Ex.replCombPost ++ [ProcKind.userComb (exprSigs Ex.replCombE) 1 Ex.replCombE])
          Ex.replCombScripts (identitySched 2 3) 20) 20
        (initState Ex.replCombD ([] ++ Ex.replCombPost ++ [ProcKind.userComb (exprSigs Ex.replCombE) 1 Ex.replCombE])
          Ex.replCombScripts)) :=
  (process_equiv_comb_appended Ex.replCombD [] Ex.replCombPost Ex.replCombScripts 1 Ex.replCombE
    (identitySched 2 3) (identitySched 2 3) 20
    (replOk_sound (envNb_sound (by decide)) (by decide)) (by decide) (envNb_sound (by decide))
    (scriptsWriteOk_sound (by decide)) (identitySched_nodup 2 3) (identitySched_lists 2 3)
    (pairOK_of_staticDisjoint (by decide)) (by decide)
    (fun _ => ⟨(by decide : [1, 0].Perm [0, 1]), List.Perm.refl _⟩) 20).2.1

example :
    (run (mkSim Ex.replCombD ([] ++ Ex.replCombPost ++ [ProcKind.userComb (exprSigs Ex.replCombE) 1 Ex.replCombE])
          Ex.replCombScripts (identitySched 2 3) 20) 20
        (initState Ex.replCombD ([] ++ Ex.replCombPost ++ [ProcKind.userComb (exprSigs Ex.replCombE) 1 Ex.replCombE])
          Ex.replCombScripts)).obs.reverse
      = [(0, 0, [3]), (0, 0, [4]), (0, 3, [1, 1]), (0, 3, [7])] := by decide +kernel

/-- non-vacuity for `process_equiv_sync` with an asynchronous reset: the design `Ex.arstD` — the compiler's
`[arst, sync]` pair for `count := count + 1` and a compiled `out := count ^ 3` — against `[comb, userSync]`.
The testbench drives the clock by hand; `set(Cat(clk, rst), 3)` makes the clock edge and the rising reset
coincide. All hypotheses are decided; the theorem applies; the new simulation evaluates to the observations of
the original one (see the example after `advance_perm_design`). -/
example :
    SameObs (run (mkSim Ex.arstD ([] ++ regKinds Ex.arstD 0 2 Ex.replAsyncE ++ Ex.replAsyncPost) Ex.arstScripts (identitySched 3 4) 50) 20
        (initState Ex.arstD ([] ++ regKinds Ex.arstD 0 2 Ex.replAsyncE ++ Ex.replAsyncPost) Ex.arstScripts))
      (run (mkSim Ex.arstD Ex.replAsyncB Ex.arstScripts (identitySched 2 4) 50) 20
        (initState Ex.arstD Ex.replAsyncB Ex.arstScripts)) :=
  (process_equiv_sync Ex.arstD [] Ex.replAsyncPost Ex.arstScripts 0 2 Ex.replAsyncE (identitySched 3 4) (identitySched 2 4) 50
    (replOk_sound (envNb_sound (by decide)) (by decide))
    (Or.inr ⟨1, asyncOk_sound (envNb_sound (by decide)) (by decide)⟩) (by decide)
    (scriptsTwf_sound (by decide)) (identitySched_nodup 3 4) (identitySched_lists 3 4)
    (pairOK_of_staticDisjoint (by decide)) (by decide)
    (fun _ => ⟨(by decide : [1, 0].Perm [0, 1]), List.Perm.refl _⟩) 20).2.1

example :
    [] ++ regKinds Ex.arstD 0 2 Ex.replAsyncE ++ Ex.replAsyncPost = Ex.arstKinds ∧
    (run (mkSim Ex.arstD Ex.replAsyncB Ex.arstScripts (identitySched 2 4) 50) 20
        (initState Ex.arstD Ex.replAsyncB Ex.arstScripts)).obs.reverse
      = [(0, 0, [6]), (0, 0, [5]), (0, 0, [6]), (0, 0, [6]), (0, 0, [5])] ∧
    (run (mkSim Ex.arstD Ex.replAsyncB Ex.arstScripts (reverseSched 2 4) 50) 20
        (initState Ex.arstD Ex.replAsyncB Ex.arstScripts)).obs.reverse
      = [(0, 0, [6]), (0, 0, [5]), (0, 0, [6]), (0, 0, [6]), (0, 0, [5])] := ⟨rfl, by decide +kernel, by decide +kernel⟩

end Amaranth.C08
