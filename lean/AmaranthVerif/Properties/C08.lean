import AmaranthVerif.Proofs.EngineTb
import AmaranthVerif.Spec.Engine

/-!
# C08 — simulation results do not depend on process scheduling order

Model: `Model/Engine.lean` (the delta-cycle engine of `sim/pysim.py`: slots with `curr`/`next`,
masked updates, owners with wakers, `delta` with explicit iteration orders for `_processes` and
`pending`, `settle` = `step_design()`, the timeline, the clock process, the two documented process
forms, testbench scripts). Spec: `Spec/Engine.lean`.

Proved here, for all values, masks, process sets, orders, scripts and run lengths:

* `update_comm`, `update_comm_compat` — two masked updates of one slot commute when their masks are
  disjoint (more generally: when they write equal bits where the masks overlap), on unbounded
  two's-complement integers, negative values and sign-extended masks included;
* `process_action_comm` — the whole update lists of two processes commute;
* `delta_perm` — one delta cycle gives the same state for every order of the ready processes and
  every order of the pending slots;
* `commit_order_free` — the pending set may be committed in any order;
* `settle_perm`, `advance_perm` — `step_design()` and whole runs (`advance`ⁿ, `run`, `run_until`,
  hence every observation and every final value) are the same under any two schedules that use
  permutations of the same lists at every delta;
* `timeline_nearest` — the loop of `_PyTimeline.advance` finds the minimum deadline and exactly the
  wakers registered for it; `advanceTime` jumps there, wakes those and removes them;
* `clock_times` — toggle number `k` of an added clock is performed by an `advance()` that runs at
  `now = phase + k * (period / 2)`; no `advance()` performs two toggles; the invariant holds after
  any number of `advance()` calls (induction on the run);
* `delay_exact` — an awaited delay of `n` registers the deadline `now + n`; the waker is called by
  exactly the timeline step that sets `now` to it;
* `tb_order` — in a pass, testbench `n` takes its turn in the state left by testbenches `0…n-1` in
  insertion order; `set_returns_settled`: when `step_design()` returns, the state is a fixpoint of
  `delta` (for every order);
* `tick_sampling` — the values returned by a tick are sampled from `curr` as the commit of the
  clock edge left it (every non-pending signal still has its pre-edge value), before any process
  woken by the edge has run; processes never write `curr`; a delta never runs a testbench.

`DisjointWrites` is what C06 guarantees for compiled processes (one driver per bit); for user
processes added with `add_process` it is a hypothesis on the user's code, and for memory write ports
of different domains hitting one row at a coincident edge it does not hold (last writer wins in the
real engine) — memories are not part of this model.

Not proved: that the model's trace equals the Spec's trace (`Spec/Engine.lean`) for all scripts; the
two are compared on every run of the check.
-/

namespace Amaranth.C08
open Amaranth Amaranth.Engine

/-! ## Masked updates -/

/-- updates with disjoint masks commute -/
theorem update_comm (u₁ u₂ : Update) (x : Int) (h : pyAnd u₁.mask u₂.mask = 0) :
    applyUpdate u₁ (applyUpdate u₂ x) = applyUpdate u₂ (applyUpdate u₁ x) := by
  -- the slots play no role here: read both as updates of slot 0
  have hd : Engine.Disjoint ⟨0, u₁.value, u₁.mask⟩ ⟨0, u₂.value, u₂.mask⟩ := Or.inr h
  rcases hd.compat with h' | h'
  · exact absurd rfl h'
  · exact applyUpdate_comm_of_bits ⟨0, u₁.value, u₁.mask⟩ ⟨0, u₂.value, u₂.mask⟩ x h'

/-- test on literals: a negative value, a negative old value and a sign-extended mask -/
example : pyAnd (-16) 3 = 0 ∧
    applyUpdate ⟨0, -3, -16⟩ (applyUpdate ⟨0, 5, 3⟩ 6) = applyUpdate ⟨0, 5, 3⟩ (applyUpdate ⟨0, -3, -16⟩ 6) ∧
    applyUpdate ⟨0, -3, -16⟩ (applyUpdate ⟨0, 5, 3⟩ 6) = -11 ∧
    applyUpdate ⟨0, 2, -1⟩ (applyUpdate ⟨0, 5, 3⟩ 6) ≠ applyUpdate ⟨0, 5, 3⟩ (applyUpdate ⟨0, 2, -1⟩ 6) := by decide

/-- updates that write equal bits wherever both masks have a one commute (a domain's process and its
reset-only process at a coincident clock edge and reset) -/
theorem update_comm_compat (u₁ u₂ : Update) (x : Int)
    (h : ∀ i, Mem.ibit u₁.mask i = true → Mem.ibit u₂.mask i = true → Mem.ibit u₁.value i = Mem.ibit u₂.value i) :
    applyUpdate u₁ (applyUpdate u₂ x) = applyUpdate u₂ (applyUpdate u₁ x) :=
  applyUpdate_comm_of_bits u₁ u₂ x h

/-- the update lists of two processes commute when they are pairwise disjoint -/
theorem process_action_comm (us vs : List Update) (next : Env)
    (h : ∀ u ∈ us, ∀ v ∈ vs, Engine.Disjoint u v) :
    applyAll (applyAll next vs) us = applyAll (applyAll next us) vs :=
  applyAll_comm us vs next (fun u hu v hv => (h u hu v hv).compat)

example : Engine.Disjoint ⟨0, 5, 3⟩ ⟨0, -1, 12⟩ ∧ Engine.Disjoint ⟨0, 5, 3⟩ ⟨1, 7, -1⟩ :=
  ⟨Or.inr (by decide), Or.inl (by decide)⟩

/-! ## One delta -/

/-- `delta` does not depend on the iteration order of the ready processes nor on that of the pending
slots. (`DisjointWritesAt` only speaks about the processes that are runnable in this delta.) -/
theorem delta_perm (ps : List ProcDef) (hw : WakeComm ps) (s : EState) (o₁ o₂ : Orders)
    (hd : DisjointWritesAt ps (trigPhase ps s)) (hn : o₁.procs.Nodup)
    (hp : o₁.procs.Perm o₂.procs) (hs : o₁.slots.Perm o₂.slots) :
    delta ps o₁ s = delta ps o₂ s :=
  delta_perm_at ps hw s o₁ o₂ hd.compatAt hn ⟨hp, hs⟩

/-- the same under the weaker hypothesis that overlapping writes agree -/
theorem delta_perm_compat (ps : List ProcDef) (hw : WakeComm ps) (s : EState) (o₁ o₂ : Orders)
    (hc : CompatAt ps (trigPhase ps s)) (hn : o₁.procs.Nodup)
    (hp : o₁.procs.Perm o₂.procs) (hs : o₁.slots.Perm o₂.slots) :
    delta ps o₁ s = delta ps o₂ s :=
  delta_perm_at ps hw s o₁ o₂ hc hn ⟨hp, hs⟩

/-- the pending set may be committed in any order -/
theorem commit_order_free (ps : List ProcDef) (hw : WakeComm ps) (s : EState) (o₁ o₂ : List Nat) (hp : o₁.Perm o₂) :
    commit ps o₁ s = commit ps o₂ s ∧ anyChange o₁ s = anyChange o₂ s :=
  ⟨commit_perm ps hw s o₁ o₂ hp, anyChange_perm s o₁ o₂ hp⟩

/-- the wakers of every owner a simulation can contain commute: `WakeComm` is not a hypothesis for
simulations built from compiled processes, clocks, the documented process forms and testbench scripts -/
theorem wakers_commute (D : Design) (kinds : List ProcKind) (scripts : List (List TbOp)) :
    WakeComm (simDefs D kinds scripts) := simDefs_wakeComm D kinds scripts

/-! ## `step_design()` and whole runs -/

theorem settle_perm (ps : List ProcDef) (hw : WakeComm ps) (hd : DisjointWrites ps) (a b : Sched)
    (hn : SchedNodup a) (he : SchedEquiv a b) (fuel : Nat) (s : EState) :
    settle ps a fuel s = settle ps b fuel s :=
  settle_sched_perm ps hw hd.compat a b hn he fuel s

/-- every run of a simulation — any number of `advance()` calls, `run()`, `run_until()` — and with it
every observation of every testbench and the final value of every signal, is the same under any two
schedules that iterate permutations of the same process list and slot list at every delta -/
theorem advance_perm (D : Design) (kinds : List ProcKind) (scripts : List (List TbOp)) (a b : Sched) (fuel : Nat)
    (hd : DisjointWrites (simDefs D kinds scripts)) (hn : SchedNodup a) (he : SchedEquiv a b) (n : Nat) (s : EState) :
    advanceN (mkSim D kinds scripts a fuel) n s = advanceN (mkSim D kinds scripts b fuel) n s ∧
    run (mkSim D kinds scripts a fuel) n s = run (mkSim D kinds scripts b fuel) n s ∧
    (∀ deadline, runUntil (mkSim D kinds scripts a fuel) deadline n s =
                 runUntil (mkSim D kinds scripts b fuel) deadline n s) := by
  rw [mkSim_sched_perm D kinds scripts a b fuel hd.compat hn he]
  exact ⟨rfl, rfl, fun _ => rfl⟩

/-- the same for processes whose overlapping writes agree (`CompatWrites`): what holds for a domain's
process and its reset-only process -/
theorem advance_perm_compat (D : Design) (kinds : List ProcKind) (scripts : List (List TbOp)) (a b : Sched) (fuel : Nat)
    (hc : CompatWrites (simDefs D kinds scripts)) (hn : SchedNodup a) (he : SchedEquiv a b) (n : Nat) (s : EState) :
    advanceN (mkSim D kinds scripts a fuel) n s = advanceN (mkSim D kinds scripts b fuel) n s ∧
    run (mkSim D kinds scripts a fuel) n s = run (mkSim D kinds scripts b fuel) n s ∧
    (∀ deadline, runUntil (mkSim D kinds scripts a fuel) deadline n s =
                 runUntil (mkSim D kinds scripts b fuel) deadline n s) := by
  rw [mkSim_sched_perm D kinds scripts a b fuel hc hn he]
  exact ⟨rfl, rfl, fun _ => rfl⟩

/-! ### non-vacuity: two clocks on different signals write disjointly in every state -/

/-- `twoClocks` is the owner list `mkSim` builds for a design with two added clocks -/
example (D : Design) : simDefs D [.clock 0 4 7, .clock 1 0 10] [] = twoClocks := rfl

/-- the hypotheses of `settle_perm` / `advance_perm` hold for the two clocks and a schedule and its reverse -/
example : DisjointWrites twoClocks ∧ SchedNodup (identitySched 2 2) ∧ SchedEquiv (identitySched 2 2) (reverseSched 2 2) :=
  ⟨twoClocks_disjoint, fun _ => (by decide : (List.range 2).Nodup),
   fun _ => ⟨(List.reverse_perm (List.range 2)).symm, (List.reverse_perm (List.range 2)).symm⟩⟩

/-! ## The timeline -/

/-- the loop of `_PyTimeline.advance`: the deadline found is somebody's, it is the minimum, and the
wakers found are exactly the owners registered for it (none when the timeline is empty) -/
theorem timeline_nearest (ts : List (Option Nat)) :
    match scanNearest (entriesFrom 0 ts) with
    | (none, ws) => (∀ (i d : Nat), ts[i]? ≠ some (some d)) ∧ ws = []
    | (some d, ws) => (∃ i : Nat, ts[i]? = some (some d)) ∧ (∀ (i d' : Nat), ts[i]? = some (some d') → d ≤ d') ∧
        ∀ i : Nat, i ∈ ws ↔ ts[i]? = some (some d) :=
  nearest_spec ts

/-- `advanceTime`: nothing happens on an empty timeline; otherwise `now` becomes the minimum deadline,
the timeline wakers registered for it — and only those — are called and removed, and nothing else changes -/
theorem timeline_advance (ps : List ProcDef) (s : EState) :
    (advanceTime ps s = (s, false) ∧ ∀ (i d : Nat), s.timers[i]? ≠ some (some d)) ∨
    ∃ d : Nat, (∃ i : Nat, s.timers[i]? = some (some d)) ∧
      (∀ (i d' : Nat), s.timers[i]? = some (some d') → d ≤ d') ∧
      (advanceTime ps s).2 = true ∧ (advanceTime ps s).1.now = d ∧
      (∀ i : Nat, (advanceTime ps s).1.timers[i]? =
        if s.timers[i]? = some (some d) then some none else s.timers[i]?) ∧
      (∀ i : Nat, (advanceTime ps s).1.locals[i]? =
        if s.timers[i]? = some (some d) then s.locals[i]?.map (ps.getD i default).fire else s.locals[i]?) ∧
      (advanceTime ps s).1.curr = s.curr ∧ (advanceTime ps s).1.next = s.next ∧
      (advanceTime ps s).1.obs = s.obs ∧ (advanceTime ps s).1.deltas = s.deltas :=
  advanceTime_spec ps s

/-- test: three wakers, two of them nearest -/
example : scanNearest (entriesFrom 0 [some 5, none, some 3, some 3]) = (some 3, [2, 3]) := by decide

/-! ## Clock -/

/-- After any number of `advance()` calls the clock is in one of the three states of its cycle, and the
`advance()` that performs toggle number `k` (counting from 0) runs at exactly
`now = phase + k * (period / 2)` femtoseconds — the Spec's `toggleTime`. Induction on the run. -/
theorem clock_times (S : Sim) (K : ClockCfg) {sched : Sched} {fuel : Nat} (hS : ClockedSim S K sched fuel)
    (s₀ : EState) (h₀ : Fresh K s₀) (n : Nat) :
    ClockInv K (advanceN S n s₀) ∧
    (toggles K (advanceN S (n + 1) s₀) = toggles K (advanceN S n s₀) ∨
     (toggles K (advanceN S (n + 1) s₀) = toggles K (advanceN S n s₀) + 1 ∧
      (advanceN S n s₀).now = EngineSpec.toggleTime K.phase K.period (toggles K (advanceN S n s₀)))) := by
  have hinv := clockInv_advanceN S K hS s₀ h₀ n
  exact ⟨hinv, toggle_instant S K hS _ hinv⟩

/-- the first wake-up is at `phase`: the sleeping clock's timeline entry after the first `advance()` -/
theorem clock_first_deadline (S : Sim) (K : ClockCfg) {sched : Sched} {fuel : Nat} (hS : ClockedSim S K sched fuel)
    (s₀ : EState) (h₀ : Fresh K s₀) :
    Sleep K 0 (advance S s₀).1 ∨ Due K 0 (advance S s₀).1 :=
  (advance_clock S K hS s₀).1 h₀

/-- non-vacuity: a simulation with one clock (phase 4 fs, period 7 fs) built by `mkSim` -/
example :
    let D : Design := { ctx := [Shape.u 1], inits := [0], resetLess := [false], doms := [], procs := [] }
    let kinds := [ProcKind.clock 0 4 7]
    let K : ClockCfg := ⟨0, 0, 4, 7⟩
    ClockedSim (mkSim D kinds [] (identitySched 1 1) 9) K (identitySched 1 1) 8 ∧ Fresh K (initState D kinds []) := by
  refine ⟨⟨rfl, by decide, fun _ => (by decide : 0 ∈ List.range 1), fun _ => rfl⟩, ⟨_, rfl, rfl, rfl, rfl, rfl, rfl⟩⟩

/-! ## Delays -/

/-- `await ctx.delay(n)` (possibly combined with samples): the deadline registered is the Spec's
`delayResume now n = now + n`, and the waker of a deadline `T` is called by exactly the timeline step
that makes `now = T`; before that it stays registered and `now < T` -/
theorem delay_exact (S : Sim) (t : Nat) (script : List TbOp) (fuel : Nat) (s : EState) (tr : Trigger) (n : Nat)
    (hop : script[(getLoc s (S.nproc + t)).pc]? = some (.wait tr))
    (hrep : (getLoc s (S.nproc + t)).report = false) (hd : tr.delay? = some n) :
    (tbExec S t script (fuel + 1) s).timers = s.timers.set (S.nproc + t) (some (EngineSpec.delayResume s.now n)) ∧
    (tbExec S t script (fuel + 1) s).now = s.now ∧
    ∀ (ps : List ProcDef) (z : EState) (o T : Nat) (l : Local),
      z.timers[o]? = some (some T) → z.locals[o]? = some l →
      ((advanceTime ps z).1.now = T ∧ (advanceTime ps z).1.locals[o]? = some ((ps.getD o default).fire l) ∧
        (advanceTime ps z).1.timers[o]? = some none) ∨
      ((advanceTime ps z).1.now < T ∧ (advanceTime ps z).1.locals[o]? = some l ∧
        (advanceTime ps z).1.timers[o]? = some (some T)) := by
  obtain ⟨h1, h2, _⟩ := tbExec_wait_delay S t script fuel s tr n hop hrep hd
  exact ⟨h1, h2, fun ps z o T l ht hl => waker_fires_at_deadline ps z o T l ht hl⟩

example : Trigger.delay? [.delay 5, .sample (.sig 0)] = some 5 := rfl

/-! ## Testbenches -/

/-- testbenches take their turns in insertion order: a pass over `n + 1` testbenches is the pass over
the first `n` followed by the turn of testbench `n`, which therefore sees everything the earlier ones wrote -/
theorem tb_order (S : Sim) (s : EState) (n : Nat) :
    tbPass S s = (List.range S.scripts.length).foldl (tbTurn S) (s, false) ∧
    (List.range (n + 1)).foldl (tbTurn S) (s, false) = tbTurn S ((List.range n).foldl (tbTurn S) (s, false)) n :=
  ⟨tbPass_eq S s, tbTurns_succ S (s, false) n⟩

/-- `ctx.set` ends with `step_design()`; when that returns (the loop converged), the state is settled:
`curr = next` everywhere, no process runnable, no trigger active — a fixpoint of `delta` for every order -/
theorem set_returns_settled (ps : List ProcDef) (hwb : WellBehaved ps) (sched : Sched) (fuel : Nat) (s : EState)
    (hlen : ps.length = s.locals.length) (hconv : (settle ps sched fuel s).2 = true) :
    ∃ k, Quiet (sched k) (settle ps sched fuel s).1 ∧
      ∀ o, (sched k).Equiv o →
        delta ps o (settle ps sched fuel s).1 =
          ({ (settle ps sched fuel s).1 with deltas := (settle ps sched fuel s).1.deltas + 1 }, true) := by
  obtain ⟨k, hq, hl⟩ := settle_settled ps hwb sched fuel s hlen hconv
  exact ⟨k, hq, fun o he => delta_of_quiet ps o _ hl (hq.of_equiv he)⟩

/-- every owner a simulation can contain is well behaved: not a hypothesis for `mkSim` simulations -/
theorem owners_well_behaved (D : Design) (kinds : List ProcKind) (scripts : List (List TbOp)) :
    WellBehaved (simDefs D kinds scripts) := simDefs_wellBehaved D kinds scripts

/-- Tick sampling. Let `s` be the state in which the clock edge is committed (`commit ps order s`).
(1) Every signal that is not pending in `s` keeps its value through that commit: registers and
combinational outputs still hold their pre-edge values afterwards. (2) The commit activates the
testbench that waits for the tick. (3) In the next delta the testbench's result is computed in phase
1a from `curr` exactly as that commit left it, and (4) the processes of that delta — among them the
synchronous processes woken by the edge — do not change `curr`; their register updates reach `curr`
only in the commit that ends the delta. (5) No delta runs a testbench: it resumes after
`step_design()` has converged, on the settled post-edge state (`set_returns_settled`). -/
theorem tick_sampling (ps : List ProcDef) (ctx : Ctx) (doms : List DomCfg) (script : List TbOp) (o : Nat)
    (hdef : ps[o]? = some (tbDef ctx doms script)) :
    (∀ (order : List Nat) (s : EState) (i : Nat), s.next.val i = s.curr.val i →
        (commit ps order s).curr.val i = s.curr.val i) ∧
    (∀ (cfg : DomCfg) (es : List Expr) (l : Local) (old new : Int), l.waiting = true →
        (bitOf old 0 != bitOf new 0 && bitOf new 0 == cfg.posedge) = true →
        (trigWake (tickTrigger cfg es) l cfg.clk old new).active = true) ∧
    (∀ (s : EState) (l : Local), s.locals[o]? = some l → l.active = true →
        (trigPhase ps s).locals[o]? = some (trigRun ctx (tbTrigger doms script l) l s.curr) ∧
        (trigRun ctx (tbTrigger doms script l) l s.curr).result =
          trigResult ctx (tbTrigger doms script l) l.hits s.curr) ∧
    (∀ (order : List Nat) (s : EState), (runProcs ps order s).curr = s.curr) ∧
    (∀ (ord : Orders) (s : EState), (delta ps ord s).1.obs = s.obs) :=
  ⟨fun order s i h => commit_curr_of_eq ps order s i h,
   fun cfg es l old new hw he => tick_activated cfg es l old new hw he,
   fun s l hl ha => ⟨trigPhase_tb ps ctx doms script o hdef s l hl ha, rfl⟩,
   fun order s => runProcs_curr ps order s,
   fun ord s => delta_obs ps ord s⟩

/-- test: a counter, sampled by a tick: the tick returns the pre-edge value 5, `get` sees 6 -/
example :
    let ctx : Ctx := [Shape.u 1, Shape.u 4]
    let D : Design := { ctx, inits := [0, 5], resetLess := [false, false], doms := [{ clk := 0 }],
                        procs := [{ dom := some 0, body := .assign (.sig 1) (.op2 .add (.sig 1) (.const 1 (Shape.u 1))) }] }
    let kinds := circuitKinds D ++ [ProcKind.clock 0 2 4]
    let scripts := [[TbOp.tick 0 [.sig 1], TbOp.get (.sig 1)]]
    (run (mkSim D kinds scripts (identitySched 2 2) 50) 20 (initState D kinds scripts)).obs.reverse
      = [(0, 2, [1, 0, 5]), (0, 2, [6])] := by decide +kernel

end Amaranth.C08
