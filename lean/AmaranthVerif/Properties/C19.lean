import AmaranthVerif.Proofs.Res
import AmaranthVerif.Proofs.ResNames
import AmaranthVerif.Proofs.ResPorts
import AmaranthVerif.Proofs.ResLeaky

/-!
# C19 — resource requests map pins one-to-one and constraints name the right pin

All theorems are about the model `Amaranth.Res` (`Model/Res.lean`) for **every** table, **every** state
reachable or not (under the stated invariant) and **every** request sequence.  `request` is the repaired
behaviour (finding F7); the behaviour of the current code is `requestLeaky`, refuted below.

Vocabulary: `Inv s` — no key and no physical pin occurs twice in the tables of `s`; `Free owned pins` —
`pins` are pairwise distinct and none is in `owned`; `wanted t r` — the pins request `r` asks for when it is
acceptable on its own; `Granted …` — the record of facts about a granted request (`Proofs/Res.lean`).
-/

namespace Amaranth.C19
open Amaranth.Res

/-! ## Test data for the non-vacuity examples -/

/-- `a` owns P1; `b.x` = P2 (with a clock), `b.y` = pmod_0:1 → hdr_0:2 → P1 (two connector hops);
`c` = P2 inverted; `d` = a differential pair -/
def tbl : Table :=
  ⟨[⟨0, .leaf "a" [] (.single ⟨["P1"], none⟩) .i false none⟩,
    ⟨0, .group "b" [("IO", some "LVCMOS")]
          [.leaf "x" [] (.single ⟨["P2"], none⟩) .io false (some 10000000),
           .leaf "y" [] (.single ⟨["1"], some ("pmod", "0")⟩) .i false none]⟩,
    ⟨1, .leaf "c" [] (.single ⟨["P2", "P3"], none⟩) .oe true none⟩,
    ⟨0, .leaf "d" [] (.diff ⟨["P4"], none⟩ ⟨["P5"], none⟩) .o false none⟩],
   [⟨"pmod", "0", .seq ["2", "-"], some ("hdr", "0")⟩,
    ⟨"hdr", "0", .dict [("2", "P1"), ("3", "P3")], none⟩]⟩

def dash (name : String) (n : Int) : Req := ⟨(name, n), .val .dash, .none⟩

/-! ## A resource can be requested at most once -/

/-- a second request for a resource that was granted is refused with ResourceError, whatever its options -/
theorem rerequest_refused (t : Table) (s : State) (r : Req) (h : r.key ∈ s.requested) :
    request t s r = .error .resource := by
  unfold request requestLeaky
  cases t.lookup r.key with
  | none => rfl
  | some res => simp [h]

/-- in every history, every resource is granted at most once -/
theorem at_most_once (t : Table) (rs : List Req) :
    (grantedKeys rs (run t State.init rs).2).Nodup := by
  have h := run_inv t rs State.init Inv_init
  have := h.1.1
  rw [h.2.2] at this
  simpa [State.init] using this

example : (run tbl State.init [dash "a" 0, dash "a" 0, dash "c" 1]).2.map verdictOf
    = [.granted ["P1"], .refused, .granted ["P2", "P3"]] := by decide

/-! ## No two granted requests share a physical pin -/

/-- a granted request owns pairwise distinct pins, none of which was granted before; they are added to the
allocation and the allocation stays one-to-one -/
theorem pins_disjoint (t : Table) (s s' : State) (r : Req) (gs : List LeafGrant)
    (hi : Inv s) (h : request t s r = .ok (s', gs)) :
    (grantPins gs).Nodup ∧ (∀ x ∈ grantPins gs, x ∉ s.physPins) ∧
    s'.physPins = s.physPins ++ grantPins gs ∧ Inv s' := by
  have g := request_ok t s r s' gs h
  exact ⟨g.free.1, g.free.2, g.phys, g.inv hi⟩

/-- in every history: the pins of all granted requests, concatenated, contain no pin twice, and they are
exactly the allocation table at the end -/
theorem pins_disjoint_history (t : Table) (rs : List Req) :
    (outcomePins (run t State.init rs).2).Nodup ∧
    (run t State.init rs).1.physPins = outcomePins (run t State.init rs).2 ∧
    Inv (run t State.init rs).1 := by
  have h := run_inv t rs State.init Inv_init
  have hp : (run t State.init rs).1.physPins = outcomePins (run t State.init rs).2 := by
    rw [h.2.1]; simp [State.init, State.physPins]
  exact ⟨hp ▸ h.1.2, hp, h.1⟩

/-- the later one fails with ResourceError: an acceptable request whose pins are not all distinct and free
(or whose resource was granted before) is refused with ResourceError -/
theorem conflict_refused (t : Table) (s : State) (r : Req) (want : List String)
    (hw : wanted t r = some want) (hc : ¬ (r.key ∉ s.requested ∧ Free s.physPins want)) :
    request t s r = .error .resource :=
  request_refused t s r want hw hc

/-- …and otherwise it is granted, with exactly the pins it asked for -/
theorem free_granted (t : Table) (s : State) (r : Req) (want : List String)
    (hw : wanted t r = some want) (hk : r.key ∉ s.requested) (hf : Free s.physPins want) :
    ∃ s' gs, request t s r = .ok (s', gs) ∧ grantPins gs = want := by
  obtain ⟨s', gs, h, hg, _⟩ := request_granted t s r want hw hk hf
  exact ⟨s', gs, h, hg⟩

-- `b.y` resolves to P1, which `a` owns: refused; `c` (P2, P3) is then granted although `b.x` = P2 was visited
example : (run tbl State.init [dash "a" 0, dash "b" 0, dash "c" 1]).2.map verdictOf
    = [.granted ["P1"], .refused, .granted ["P2", "P3"]] := by decide
example : Inv (run tbl State.init [dash "a" 0]).1 := by decide
example : wanted tbl (dash "b" 0) = some ["P2", "P1"] := by decide

/-! ## A refused request leaves the allocation unchanged -/

/-- (repaired model) a refused request changes nothing -/
theorem refusal_keeps_state (t : Table) (s : State) (r : Req) (e : Err)
    (h : request t s r = .error e) : step t s r = (s, .refused e) := by
  simp [step, h]

/-- …so a refused request is invisible to the rest of the history -/
theorem refusal_invisible (t : Table) (s : State) (r : Req) (e : Err) (rs : List Req)
    (h : request t s r = .error e) :
    run t s (r :: rs) = ((run t s rs).1, .refused e :: (run t s rs).2) := by
  simp [run, step, h]

/-- the repaired model and the code's behaviour agree on the outcome of every single request; they differ
only in the state a refusal leaves behind -/
theorem leaky_same_outcome (t : Table) (s : State) (r : Req) :
    (stepLeaky t s r).2 = (step t s r).2 := by
  unfold step stepLeaky request
  rcases requestLeaky t s r with ⟨s', o⟩
  cases o <;> rfl

/-- **F7, refuting witness**: the code's incremental recording (`requestLeaky`) does *not* keep the state —
after the refused request for `b`, pin P2 stays allocated and the clock of `b.x` stays recorded … -/
example : (requestLeaky tbl (run tbl State.init [dash "a" 0]).1 (dash "b" 0)).2 = .error .resource ∧
    (requestLeaky tbl (run tbl State.init [dash "a" 0]).1 (dash "b" 0)).1 ≠ (run tbl State.init [dash "a" 0]).1 := by
  decide
/-- … and the legitimate request for `c` that follows is refused -/
example : (runLeaky tbl State.init [dash "a" 0, dash "b" 0, dash "c" 1]).2.map verdictOf
    ≠ (run tbl State.init [dash "a" 0, dash "b" 0, dash "c" 1]).2.map verdictOf := by decide

/-- what F7 does *not* break: even with the code's incremental recording, no two granted requests of a
history ever share a physical pin — the leak only causes spurious refusals -/
theorem leaky_pins_disjoint_history (t : Table) (rs : List Req) :
    (outcomePins (runLeaky t State.init rs).2).Nodup :=
  (runLeaky_disjoint t rs State.init List.nodup_nil).1

/-- **F14, refuting witness**: the attribute loop of the code fails on a `None` value that is not the last
key; the repaired loop drops it -/
example : attrsResolveOld [] [("A", none), ("B", some "1")] = .error .runtime ∧
    attrsResolve [] [("A", none), ("B", some "1")] = [("B", "1")] := by decide

/-! ## The model refines the allocation specification -/

/-- one request: the specification's step on the abstract allocation (granted keys, owned pins) is what the
model does — same verdict, same pins, same allocation afterwards -/
theorem request_refines_spec (t : Table) (s : State) (r : Req) :
    Spec.step (absState s) r.key (wanted t r) = (absState (step t s r).1, verdictOf (step t s r).2) :=
  step_refines t s r

/-- every history -/
theorem history_refines_spec (t : Table) (rs : List Req) (s : State) :
    Spec.run (absState s) (rs.map fun r => (r.key, wanted t r)) =
      (absState (run t s rs).1, (run t s rs).2.map verdictOf) :=
  run_refines t rs s

/-- the specification's allocation stays one-to-one along every history (injective pin map) -/
theorem spec_one_to_one (t : Table) (rs : List Req) :
    (absState (run t State.init rs).1).OneToOne :=
  (run_inv t rs State.init Inv_init).1

/-! ## The granted port: one bit per declared pin, in declared order -/

/-- for a granted request, the returned ports are, leaf by leaf in declared (depth-first) order, as declared:
path, inversion, direction (`oe` ↦ output), the `IOPort` names, the inherited attributes, and **one bit per
declared pin name, in declared order, each the resolution of that name through the connector chain** -/
theorem port_bits (t : Table) (s s' : State) (r : Req) (gs : List LeafGrant)
    (h : request t s r = .ok (s', gs)) :
    ∃ res, t.lookup r.key = some res ∧ PortsAsDeclared t.mapping res.leaves gs := by
  have g := request_ok t s r s' gs h
  obtain ⟨res, pls, hl, hp, hg, _⟩ := g.plan
  refine ⟨res, hl, ?_⟩
  have := expectedGrants_asDeclared t.mapping t.fuel pls gs hg
  rwa [plan_leaves res.body res.rootPath [] r.dir r.xdr pls hp] at this

/-- widths agree: a granted `IOPort` has exactly as many bits as pin names were declared -/
theorem port_width (m : List (String × String)) (l : LeafDecl) (sfx : String) (p : PinsDecl) (io : IOPortM)
    (h : IOAsDeclared m l sfx p io) : io.pins.length = p.full.length :=
  (bitsInOrder_length _ _ h.2.2).symm

example : ((run tbl State.init [dash "b" 0]).2.map fun o => match o with
      | .granted gs => (grantPorts gs).map fun io => (io.name, io.pins, io.attrs)
      | .refused _ => [])
    = [[("b_0__x__io", ["P2"], [("IO", "LVCMOS")]), ("b_0__y__io", ["P1"], [("IO", "LVCMOS")])]] := by decide

/-! ## Connector chains -/

/-- the model's name resolution computes the specification's relation: a result is a resolution, a NameError
means the chain is dangling, and every resolution is found with enough fuel -/
theorem map_names_correct (m : List (String × String)) (f : Nat) (x : String) :
    (∀ y, mapName m f x = .ok y → ResolvesIn m x y) ∧
    (mapName m f x = .error .name → ∀ y, ¬ ResolvesIn m x y) ∧
    (∀ y, ResolvesIn m x y → ∃ f₀, ∀ f', f₀ ≤ f' → mapName m f' x = .ok y) ∧
    (∀ y z, ResolvesIn m x y → ResolvesIn m x z → y = z) :=
  ⟨mapName_sound m f x, mapName_dangling m f x, fun _ h => mapName_complete m h,
   fun _ _ h1 h2 => resolves_functional m h1 h2⟩

/-- on an acyclic connector table, `number of connectors + 1` units of fuel are never exhausted: the
resolution loop terminates (with a pin or with NameError) -/
theorem map_names_terminates (cs : List Connector) (h : Acyclic cs) (fuel : Nat)
    (hf : cs.length + 1 ≤ fuel) (xs : List String) :
    mapNames (connPins cs) fuel xs ≠ .error .fuel ∧ ∀ x, mapName (connPins cs) fuel x ≠ .error .fuel :=
  ⟨mapNames_terminates cs h fuel hf xs, mapName_terminates cs h fuel hf⟩

-- the hypothesis is satisfiable (certificate: rank pmod_0 above hdr_0) and the fuel of the table suffices
example : Acyclic tbl.connectors := acyclic_of_cert _ (fun i => 1 - i) (by decide)
example : mapName tbl.mapping tbl.fuel "pmod_0:1" = .ok "P1" := by decide
-- the excluded point: a cyclic chain exhausts any fuel the table provides (the real code does not return)
example : mapName (connPins [⟨"p", "0", .dict [("1", "1")], some ("q", "0")⟩,
                             ⟨"q", "0", .dict [("1", "1")], some ("p", "0")⟩]) 3 "p_0:1" = .error .fuel := by decide

/-! ## Constraint lines -/

/-- the constraint iteration yields, for any list of top-level ports, exactly the specification's lines — bit
`i` of a port under the name `port[i]` (or `port` for a one-bit port) with the `i`-th pin of that port — and
nothing else -/
theorem constraints_lines (ios : List IOPortM) :
    constraintBits ios = ios.flatMap (fun io => Spec.linesFor io.name io.pins) ∧
    (constraintBits ios).map (·.2) = ios.flatMap (·.pins) := by
  refine ⟨?_, map_snd_constraintBits ios⟩
  unfold constraintBits
  congr 1
  funext io
  exact constraintBitsOf_eq io

/-- for every history, the constraint lines of the ports of all granted requests name every granted pin
exactly once (and, by `port_bits`, it is the declared pin of that bit) -/
theorem constraints_exact (t : Table) (rs : List Req) :
    let outs := (run t State.init rs).2
    let ports := outs.flatMap fun o => match o with
      | .granted gs => grantPorts gs
      | .refused _ => []
    (constraintBits ports).map (·.2) = outcomePins outs ∧
    Spec.ExactlyOnce (constraintBits ports) (outcomePins outs) := by
  intro outs ports
  have hp : (constraintBits ports).map (·.2) = outcomePins outs := by
    rw [map_snd_constraintBits]
    show (List.flatMap _ outs).flatMap _ = _
    unfold outcomePins
    induction outs with
    | nil => rfl
    | cons o os ih =>
      simp only [List.flatMap_cons, List.flatMap_append, ih]
      cases o with
      | granted gs => simp [Outcome.pins, grantPorts_pins]
      | refused e => simp [Outcome.pins]
  exact ⟨hp, exactlyOnce_of_nodup _ _ hp (pins_disjoint_history t rs).1⟩

/-- each declared clock of a granted request is recorded exactly once, on that leaf's port, with the declared
period; nothing else is recorded -/
theorem clocks_exact (t : Table) (s s' : State) (r : Req) (gs : List LeafGrant)
    (h : request t s r = .ok (s', gs)) :
    ∃ res, t.lookup r.key = some res ∧ s'.ioClocks = s.ioClocks ++ declaredClocks res.leaves gs := by
  have g := request_ok t s r s' gs h
  obtain ⟨res, pls, hl, hp, hg, hc⟩ := g.plan
  refine ⟨res, hl, ?_⟩
  rw [hc, planClocks_eq t.mapping t.fuel pls gs hg,
      plan_leaves res.body res.rootPath [] r.dir r.xdr pls hp]
  rfl

example : constraintBits (grantPorts (match (run tbl State.init [dash "c" 1, dash "d" 0]).2 with
      | [.granted a, .granted b] => a ++ b
      | _ => []))
    = [("c_1__io[0]", "P2"), ("c_1__io[1]", "P3"), ("d_0__p", "P4"), ("d_0__n", "P5")] := by decide
example : (run tbl State.init [dash "a" 0, dash "b" 0, ⟨("b", 0), .none, .none⟩]).1.ioClocks = [] := by decide
example : (run tbl State.init [dash "b" 0]).1.ioClocks = [("b_0__x__io", 10000000)] := by decide

end Amaranth.C19
