import AmaranthVerif.Proofs.SyncFifo

/-!
# C12 — synchronous FIFOs refine a bounded queue for every strobe sequence

`SyncFifo.step / outputs` (model of `SyncFIFO`) and `SyncFifo.bstep / boutputs` (model of
`SyncFIFOBuffered`) against `Queue.step` and the monitor `Queue.accepts` of `Spec/Queue.lean`.
Every theorem is for all `p : Params` (every width and every depth, including 0, 1 and non-powers of
two), all data values and all input lists (= every finite prefix of every infinite strobe sequence).

* `abs` / `babs`: the list of entries held (oldest first); `Inv` / `BInv`: the invariant.
* A transfer is `w_rdy ∧ w_en` (`doWrite`, `bdoWrite`) resp. `r_rdy ∧ r_en` (`doRead`, `bdoRead`).
-/

namespace Amaranth.C12
open Amaranth.SyncFifo

/-! ## SyncFIFO -/

/-- the reset state satisfies the invariant -/
theorem sync_inv_init (p : Params) : Inv p (init p) := Ring.inv_init _

example : init ⟨4, 3⟩ = ⟨⟨0, 0, 0, [0, 0, 0]⟩⟩ := by decide

/-- every clock edge preserves the invariant -/
theorem sync_inv_step (p : Params) (s : State) (i : Input) (h : Inv p s) : Inv p (step p s i) := by
  unfold step
  split
  · exact h
  · exact Ring.inv_step _ _ _ h (fun hw => doWrite_lt h hw) (fun hr => doRead_pos hr)

-- non-vacuity: a wrapped-around, full depth-3 state satisfies `Inv`, and a simultaneous read+write is refused/accepted
example : Inv ⟨4, 3⟩ ⟨⟨1, 1, 3, [7, 9, 5]⟩⟩ := by decide
example : step ⟨4, 3⟩ ⟨⟨1, 1, 3, [7, 9, 5]⟩⟩ ⟨true, 2, true⟩ = ⟨⟨1, 2, 2, [7, 9, 5]⟩⟩ := by decide

/-- refinement: one clock edge is one step of the abstract queue — the oldest entry leaves iff
`r_rdy ∧ r_en`, `w_data` joins at the back iff `w_rdy ∧ w_en` -/
theorem sync_refines (p : Params) (s : State) (i : Input) (h : Inv p s) :
    abs p (step p s i) =
      Queue.step (abs p s) (if doWrite p s i then some i.w_data else none) (doRead p s i) := by
  unfold step
  split
  · next h0 => simp [doWrite, doRead, outputs, h0, Queue.step]
  · exact Ring.contents_step _ _ _ h (fun hw => doWrite_lt h hw) (fun hr => doRead_pos hr)

example : abs ⟨4, 3⟩ ⟨⟨1, 2, 2, [7, 9, 5]⟩⟩ = [5, 7] := by decide
example : abs ⟨4, 3⟩ (step ⟨4, 3⟩ ⟨⟨1, 2, 2, [7, 9, 5]⟩⟩ ⟨true, 2, true⟩) = [7, 2] := by decide

/-- what the ports show: `r_rdy` iff an entry is held, and then `r_data` is the oldest;
`w_rdy` iff fewer than `depth` entries are held; all three level outputs equal the number held -/
theorem sync_outputs (p : Params) (s : State) (h : Inv p s) :
    ((outputs p s).r_rdy = true ↔ abs p s ≠ []) ∧
    ((outputs p s).r_rdy = true → (abs p s).head? = some (outputs p s).r_data) ∧
    ((outputs p s).w_rdy = true ↔ (abs p s).length < p.depth) ∧
    (outputs p s).level = (abs p s).length ∧
    (outputs p s).r_level = (abs p s).length ∧
    (outputs p s).w_level = (abs p s).length := by
  have hlen : (abs p s).length = s.ring.level := Ring.length_contents _ _
  have hne : abs p s ≠ [] ↔ 0 < s.ring.level := by rw [← hlen, List.length_pos_iff]
  rw [hne, hlen]
  have hle : s.ring.level ≤ p.depth := h.2.1
  unfold outputs
  split
  · next h0 => simp; omega
  · next h0 =>
    simp only [bne_iff_ne, ne_eq, and_true]
    refine ⟨by omega, ?_, by omega⟩
    intro hl
    exact Ring.head_contents h (by omega)

example : outputs ⟨4, 3⟩ ⟨⟨1, 2, 2, [7, 9, 5]⟩⟩ = ⟨true, 2, true, 5, 2, 2⟩ := by decide

/-- liveness of the write side: one free slot suffices -/
theorem sync_live_w (p : Params) (s : State) (h : Inv p s) (hfree : (abs p s).length + 1 ≤ p.depth) :
    (outputs p s).w_rdy = true :=
  (sync_outputs p s h).2.2.1.mpr (by omega)

/-- liveness of the read side: a held entry is readable at once (so: within two cycles) -/
theorem sync_live_r (p : Params) (s : State) (h : Inv p s) (hne : abs p s ≠ []) :
    (outputs p s).r_rdy = true :=
  (sync_outputs p s h).1.mpr hne

/-- the invariant holds in every reachable state -/
theorem sync_reachable (p : Params) (is : List Input) : Inv p (run p (init p) is) := by
  suffices ∀ s, Inv p s → Inv p (run p s is) from this _ (sync_inv_init p)
  induction is with
  | nil => intro s h; exact h
  | cons i is ih => intro s h; exact ih _ (sync_inv_step p s i h)

/-- simulation between the Spec monitor and the model from any state satisfying the invariant -/
theorem sync_monitor_sim (p : Params) (is : List Input) :
    ∀ (s : State) (m : Queue.Mon), Inv p s → m.q = abs p s →
      Queue.accepts p.depth 1 m (trace p s is) = true ∧
      (m.run (trace p s is)).q = abs p (run p s is) := by
  induction is with
  | nil => intro s m _ hq; simp [trace, Queue.accepts, Queue.Mon.run, run, hq]
  | cons i is ih =>
    intro s m h hq
    obtain ⟨h1, h2, h3, h4, h5, h6⟩ := sync_outputs p s h
    have hstep : (m.step (mkObs i (outputs p s))).q = abs p (step p s i) := by
      rw [sync_refines p s i h, ← hq]
      simp [Queue.Mon.step, Queue.Obs.push, Queue.Obs.pop, mkObs, doWrite, doRead]
    obtain ⟨a, b⟩ := ih (step p s i) _ (sync_inv_step p s i h) hstep
    refine ⟨?_, ?_⟩
    · simp only [trace, Queue.accepts, Bool.and_eq_true]
      refine ⟨?_, a⟩
      rw [Queue.ok_iff, hq]
      simp only [mkObs]
      refine ⟨h1.mp, h2, h3.mp, h4, h5, h6, fun hf => h3.mpr (by omega), ?_⟩
      by_cases hr : (outputs p s).r_rdy = true
      · exact Or.inl hr
      · exact Or.inr (Or.inl (by
          false_or_by_contra
          rename_i hn
          exact hr (h1.mpr hn)))
    · simp only [trace, Queue.Mon.run, run]
      exact b

/-- every clause of the property holds in every cycle of every run from reset: the Spec monitor
accepts the trace of port signals (capacity `depth`, `w_rdy` live with one free slot) -/
theorem sync_trace_accepted (p : Params) (is : List Input) :
    Queue.accepts p.depth 1 Queue.Mon.init (trace p (init p) is) = true :=
  (sync_monitor_sim p is _ _ (sync_inv_init p) (by simp [Queue.Mon.init, abs, init, Ring.contents_init])).1

example : (trace ⟨4, 2⟩ (init ⟨4, 2⟩) [⟨true, 5, true⟩, ⟨true, 6, false⟩, ⟨true, 7, true⟩, ⟨false, 0, true⟩]).map
    (fun o => (o.w_rdy, o.r_rdy, o.r_data, o.level)) =
    [(true, false, 0, 0), (true, true, 5, 1), (false, true, 5, 2), (true, true, 6, 1)] := by decide

/-- first-in first-out, nothing lost, nothing duplicated: the entries written are exactly the
entries taken (as seen on `r_data`) followed by the entries still held, in this order -/
theorem sync_fifo_order (p : Params) (is : List Input) :
    Queue.pushedOf (trace p (init p) is) =
      Queue.poppedOf (trace p (init p) is) ++ abs p (run p (init p) is) := by
  obtain ⟨a, b⟩ := sync_monitor_sim p is _ Queue.Mon.init (sync_inv_init p)
    (by simp [Queue.Mon.init, abs, init, Ring.contents_init])
  have := Queue.accepts_fifo_order _ _ _ _ a
  rw [b] at this
  simpa [Queue.Mon.init] using this

/-- corollary: the sequence taken is a prefix of the sequence written -/
theorem sync_popped_prefix (p : Params) (is : List Input) :
    Queue.poppedOf (trace p (init p) is) <+: Queue.pushedOf (trace p (init p) is) := by
  rw [sync_fifo_order]; exact List.prefix_append _ _

/-- corollary: written = taken + `level`, at any time -/
theorem sync_count (p : Params) (is : List Input) :
    (Queue.pushedOf (trace p (init p) is)).length =
      (Queue.poppedOf (trace p (init p) is)).length + (outputs p (run p (init p) is)).level := by
  rw [sync_fifo_order, List.length_append, (sync_outputs p _ (sync_reachable p is)).2.2.2.1]

example : Queue.pushedOf (trace ⟨4, 2⟩ (init ⟨4, 2⟩) [⟨true, 5, true⟩, ⟨true, 6, false⟩, ⟨true, 7, true⟩, ⟨false, 0, true⟩])
    = [5, 6] := by decide
example : Queue.poppedOf (trace ⟨4, 2⟩ (init ⟨4, 2⟩) [⟨true, 5, true⟩, ⟨true, 6, false⟩, ⟨true, 7, true⟩, ⟨false, 0, true⟩])
    = [5, 6] := by decide

/-! ## SyncFIFOBuffered -/

/-- the reset state satisfies the invariant -/
theorem buffered_inv_init (p : Params) : BInv p (binit p) := by
  unfold BInv binit
  split
  · simp
  · exact Ring.inv_init _

example : binit ⟨4, 3⟩ = ⟨⟨0, 0, 0, [0, 0]⟩, false, 0, 0⟩ := by decide

/-- every clock edge preserves the invariant -/
theorem buffered_inv_step (p : Params) (s : BState) (i : Input) (h : BInv p s) : BInv p (bstep p s i) := by
  unfold BInv at h ⊢
  unfold bstep
  by_cases h0 : p.depth = 0
  · simp [h0] at h ⊢; exact h
  · by_cases h1 : p.depth = 1
    · simp [h1] at h ⊢
      split
      · omega
      · split <;> omega
    · rw [if_neg (by omega)] at h ⊢
      rw [if_neg h0, if_neg h1]
      have hle := h.2.1
      exact Ring.inv_step _ _ _ h (fun hw => by have := bdoWrite_lt (by omega) hw; omega)
        (fun hr => doInnerRead_pos hr)

-- non-vacuity: output register valid, inner queue full and wrapped (depth 4 = 3 inner rows + register)
example : BInv ⟨4, 4⟩ ⟨⟨2, 2, 3, [7, 9, 5]⟩, true, 3, 0⟩ := by decide
example : BInv ⟨4, 1⟩ ⟨⟨0, 0, 0, []⟩, false, 6, 1⟩ := by decide

/-- refinement: one clock edge is one step of the abstract queue (output register ++ inner queue) -/
theorem buffered_refines (p : Params) (s : BState) (i : Input) (h : BInv p s) :
    babs p (bstep p s i) =
      Queue.step (babs p s) (if bdoWrite p s i then some i.w_data else none) (bdoRead p s i) := by
  unfold BInv at h
  unfold babs bstep
  by_cases h0 : p.depth = 0
  · simp [h0, bdoWrite, bdoRead, boutputs, Queue.step]
  · by_cases h1 : p.depth = 1
    · simp [h1] at h
      simp only [h1, bdoWrite, bdoRead, boutputs, Queue.step]
      have : s.level = 0 ∨ s.level = 1 := by omega
      rcases this with hl | hl <;> cases i.w_en <;> cases i.r_en <;> simp [hl]
    · rw [if_neg (by omega)] at h
      simp only [if_neg h0, if_neg h1]
      have hle := h.2.1
      rw [Ring.contents_step _ _ _ h (fun hw => by have := bdoWrite_lt (by omega) hw; omega)
        (fun hr => doInnerRead_pos hr)]
      have hlen := Ring.length_contents (p.depth - 1) s.ring
      have hhead := @Ring.head_contents (p.depth - 1) s.ring h
      have hrd : bdoRead p s i = (s.r_rdy && i.r_en) := by
        simp [bdoRead, boutputs, h0, h1]
      rw [hrd]
      generalize (if bdoWrite p s i = true then some i.w_data else none) = push
      simp only [doInnerRead]
      cases hq : s.ring.contents (p.depth - 1) with
      | nil =>
        rw [hq] at hlen
        have : s.ring.level = 0 := by simpa using hlen.symm
        by_cases hr : s.r_rdy = true <;> by_cases he : i.r_en = true <;> simp [this, Queue.step, hr, he]
      | cons x xs =>
        rw [hq] at hlen hhead
        have hpos : 0 < s.ring.level := by simp at hlen; omega
        have := hhead hpos
        simp at this
        have hne : s.ring.level ≠ 0 := by omega
        by_cases hr : s.r_rdy = true <;> by_cases he : i.r_en = true <;> simp [hne, Queue.step, this, hr, he]

example : babs ⟨4, 4⟩ ⟨⟨2, 2, 3, [7, 9, 5]⟩, true, 3, 0⟩ = [3, 5, 7, 9] := by decide
example : babs ⟨4, 4⟩ (bstep ⟨4, 4⟩ ⟨⟨2, 2, 3, [7, 9, 5]⟩, true, 3, 0⟩ ⟨true, 1, true⟩) = [5, 7, 9] := by decide
example : babs ⟨4, 4⟩ (bstep ⟨4, 4⟩ ⟨⟨2, 0, 2, [7, 9, 5]⟩, true, 3, 0⟩ ⟨true, 1, true⟩) = [7, 9, 1] := by decide

/-- what the ports show: `r_rdy` only if an entry is held, and then `r_data` is the oldest; `w_rdy` only
if fewer than `depth` entries are held, and certainly if two slots are free; all three level outputs
equal the number held -/
theorem buffered_outputs (p : Params) (s : BState) (h : BInv p s) :
    ((boutputs p s).r_rdy = true → babs p s ≠ []) ∧
    ((boutputs p s).r_rdy = true → (babs p s).head? = some (boutputs p s).r_data) ∧
    ((boutputs p s).w_rdy = true → (babs p s).length < p.depth) ∧
    ((babs p s).length + 2 ≤ p.depth → (boutputs p s).w_rdy = true) ∧
    (boutputs p s).level = (babs p s).length ∧
    (boutputs p s).r_level = (babs p s).length ∧
    (boutputs p s).w_level = (babs p s).length := by
  unfold BInv at h
  unfold boutputs babs
  by_cases h0 : p.depth = 0
  · simp [h0]
  · by_cases h1 : p.depth = 1
    · simp [h1] at h
      have : s.level = 0 ∨ s.level = 1 := by omega
      rcases this with hl | hl <;> simp [h1, hl]
    · rw [if_neg (by omega)] at h
      simp only [if_neg h0, if_neg h1]
      have hle := h.2.1
      have hlen := Ring.length_contents (p.depth - 1) s.ring
      rw [blevel_eq (by omega) hle]
      by_cases hr : s.r_rdy = true
      · simp [hr, hlen, Bool.toNat]; omega
      · simp [hr, hlen, Bool.toNat]; omega

example : boutputs ⟨4, 4⟩ ⟨⟨2, 2, 3, [7, 9, 5]⟩, true, 3, 0⟩ = ⟨false, 4, true, 3, 4, 4⟩ := by decide
example : boutputs ⟨4, 4⟩ ⟨⟨2, 0, 2, [7, 9, 5]⟩, false, 3, 0⟩ = ⟨true, 2, false, 3, 2, 2⟩ := by decide

/-- for `depth ≥ 2`, `w_rdy` says exactly that the inner queue (everything but the output register) has room -/
theorem buffered_w_rdy_iff (p : Params) (s : BState) (hd : 2 ≤ p.depth) (h : BInv p s) :
    (boutputs p s).w_rdy = true ↔ (s.ring.contents (p.depth - 1)).length < p.depth - 1 := by
  unfold BInv at h
  rw [if_neg (by omega)] at h
  have hle := h.2.1
  rw [Ring.length_contents]
  unfold boutputs
  rw [if_neg (by omega), if_neg (by omega)]
  simp; omega

/-- liveness of the write side: two free slots suffice -/
theorem buffered_live_w (p : Params) (s : BState) (h : BInv p s) (hfree : (babs p s).length + 2 ≤ p.depth) :
    (boutputs p s).w_rdy = true :=
  (buffered_outputs p s h).2.2.2.1 hfree

/-- liveness of the read side: the oldest entry is readable now or — whatever the inputs — in the next
cycle, and it is still the oldest then (readable within two cycles of becoming the oldest) -/
theorem buffered_live_r (p : Params) (s : BState) (i : Input) (h : BInv p s) (hne : babs p s ≠ []) :
    (boutputs p s).r_rdy = true ∨
    ((boutputs p (bstep p s i)).r_rdy = true ∧ (babs p (bstep p s i)).head? = (babs p s).head?) := by
  by_cases hr : (boutputs p s).r_rdy = true
  · exact Or.inl hr
  · refine Or.inr ⟨?_, ?_⟩
    · unfold BInv at h
      unfold boutputs bstep at *
      unfold babs at hne
      by_cases h0 : p.depth = 0
      · simp [h0] at hne
      · by_cases h1 : p.depth = 1
        · simp [h1] at hne hr
          exact absurd hne hr
        · simp only [if_neg h0, if_neg h1] at hne hr ⊢
          have hlen := Ring.length_contents (p.depth - 1) s.ring
          have : s.ring.level ≠ 0 := by
            intro hz
            rw [hz] at hlen
            simp [hr, List.length_eq_zero_iff.mp hlen] at hne
          simp [doInnerRead, this, hr]
    · rw [buffered_refines p s i h]
      have : bdoRead p s i = false := by simp [bdoRead, hr]
      rw [this]
      cases hq : babs p s with
      | nil => exact absurd hq hne
      | cons x xs => simp [Queue.step]

example : babs ⟨4, 3⟩ ⟨⟨1, 0, 1, [6, 0]⟩, false, 0, 0⟩ = [6] ∧ (boutputs ⟨4, 3⟩ ⟨⟨1, 0, 1, [6, 0]⟩, false, 0, 0⟩).r_rdy = false ∧
    boutputs ⟨4, 3⟩ (bstep ⟨4, 3⟩ ⟨⟨1, 0, 1, [6, 0]⟩, false, 0, 0⟩ ⟨false, 0, true⟩) = ⟨true, 1, true, 6, 1, 1⟩ := by decide

/-- the invariant holds in every reachable state -/
theorem buffered_reachable (p : Params) (is : List Input) : BInv p (brun p (binit p) is) := by
  suffices ∀ s, BInv p s → BInv p (brun p s is) from this _ (buffered_inv_init p)
  induction is with
  | nil => intro s h; exact h
  | cons i is ih => intro s h; exact ih _ (buffered_inv_step p s i h)

/-- simulation between the Spec monitor and the model from any state satisfying the invariant -/
theorem buffered_monitor_sim (p : Params) (is : List Input) :
    ∀ (s : BState) (m : Queue.Mon), BInv p s → m.q = babs p s →
      (m.stall = 0 ∨ (boutputs p s).r_rdy = true) →
      Queue.accepts p.depth 2 m (btrace p s is) = true ∧
      (m.run (btrace p s is)).q = babs p (brun p s is) := by
  induction is with
  | nil => intro s m _ hq _; simp [btrace, Queue.accepts, Queue.Mon.run, brun, hq]
  | cons i is ih =>
    intro s m h hq hst
    obtain ⟨h1, h2, h3, h4, h5, h6, h7⟩ := buffered_outputs p s h
    have hstep : (m.step (mkObs i (boutputs p s))).q = babs p (bstep p s i) := by
      rw [buffered_refines p s i h, ← hq]
      simp [Queue.Mon.step, Queue.Obs.push, Queue.Obs.pop, mkObs, bdoWrite, bdoRead]
    have hst' : (m.step (mkObs i (boutputs p s))).stall = 0 ∨ (boutputs p (bstep p s i)).r_rdy = true := by
      simp only [Queue.Mon.step, mkObs]
      by_cases hc : (!m.q.isEmpty && !(boutputs p s).r_rdy) = true
      · simp at hc
        rw [hq] at hc
        rcases buffered_live_r p s i h hc.1 with hr | hr
        · simp [hr] at hc
        · exact Or.inr hr.1
      · simp [hc]
    obtain ⟨a, b⟩ := ih (bstep p s i) _ (buffered_inv_step p s i h) hstep hst'
    refine ⟨?_, ?_⟩
    · simp only [btrace, Queue.accepts, Bool.and_eq_true]
      refine ⟨?_, a⟩
      rw [Queue.ok_iff, hq]
      simp only [mkObs]
      refine ⟨h1, h2, h3, h5, h6, h7, h4, ?_⟩
      rcases hst with hs | hs
      · exact Or.inr (Or.inr hs)
      · exact Or.inl hs
    · simp only [btrace, Queue.Mon.run, brun]
      exact b

/-- every clause of the property holds in every cycle of every run from reset: the Spec monitor
accepts the trace of port signals (capacity `depth`, `w_rdy` live with two free slots, never two
cycles in a row non-empty but unreadable) -/
theorem buffered_trace_accepted (p : Params) (is : List Input) :
    Queue.accepts p.depth 2 Queue.Mon.init (btrace p (binit p) is) = true :=
  (buffered_monitor_sim p is _ _ (buffered_inv_init p) (by
    unfold babs binit; simp [Queue.Mon.init, Ring.contents_init]) (Or.inl rfl)).1

example : (btrace ⟨4, 2⟩ (binit ⟨4, 2⟩) [⟨true, 5, true⟩, ⟨true, 6, false⟩, ⟨true, 7, true⟩, ⟨false, 0, true⟩, ⟨false, 0, true⟩]).map
    (fun o => (o.w_rdy, o.r_rdy, o.r_data, o.level)) =
    [(true, false, 0, 0), (false, false, 0, 1), (true, true, 5, 1), (false, false, 5, 1), (true, true, 7, 1)] := by decide

/-- first-in first-out, nothing lost, nothing duplicated -/
theorem buffered_fifo_order (p : Params) (is : List Input) :
    Queue.pushedOf (btrace p (binit p) is) =
      Queue.poppedOf (btrace p (binit p) is) ++ babs p (brun p (binit p) is) := by
  obtain ⟨a, b⟩ := buffered_monitor_sim p is _ Queue.Mon.init (buffered_inv_init p)
    (by unfold babs binit; simp [Queue.Mon.init, Ring.contents_init]) (Or.inl rfl)
  have := Queue.accepts_fifo_order _ _ _ _ a
  rw [b] at this
  simpa [Queue.Mon.init] using this

/-- corollary: the sequence taken is a prefix of the sequence written -/
theorem buffered_popped_prefix (p : Params) (is : List Input) :
    Queue.poppedOf (btrace p (binit p) is) <+: Queue.pushedOf (btrace p (binit p) is) := by
  rw [buffered_fifo_order]; exact List.prefix_append _ _

/-- corollary: written = taken + `level`, at any time -/
theorem buffered_count (p : Params) (is : List Input) :
    (Queue.pushedOf (btrace p (binit p) is)).length =
      (Queue.poppedOf (btrace p (binit p) is)).length + (boutputs p (brun p (binit p) is)).level := by
  rw [buffered_fifo_order, List.length_append, (buffered_outputs p _ (buffered_reachable p is)).2.2.2.2.1]

example : Queue.pushedOf (btrace ⟨4, 2⟩ (binit ⟨4, 2⟩) [⟨true, 5, true⟩, ⟨true, 6, false⟩, ⟨true, 7, true⟩, ⟨false, 0, true⟩, ⟨false, 0, true⟩])
    = [5, 7] := by decide
example : Queue.poppedOf (btrace ⟨4, 2⟩ (binit ⟨4, 2⟩) [⟨true, 5, true⟩, ⟨true, 6, false⟩, ⟨true, 7, true⟩, ⟨false, 0, true⟩, ⟨false, 0, true⟩])
    = [5, 7] := by decide

/-! ## Data width -/

/-- data: if every `w_data` is below `2^width`, so is `r_data` in every cycle (SyncFIFO) -/
theorem sync_data_bounded (p : Params) (is : List Input) (hin : ∀ i ∈ is, i.w_data < 2 ^ p.width) :
    ∀ o ∈ trace p (init p) is, o.r_data < 2 ^ p.width := by
  suffices ∀ s, Bounded p.width s.ring.storage → ∀ o ∈ trace p s is, o.r_data < 2 ^ p.width from
    this _ (Ring.init_bounded _ _)
  induction is with
  | nil => intro s _ o ho; simp [trace] at ho
  | cons i is ih =>
    intro s hb o ho
    simp only [trace, List.mem_cons] at ho
    rcases ho with ho | ho
    · subst ho
      simp only [mkObs, outputs]
      split
      · exact Nat.two_pow_pos _
      · exact memRead_bounded hb _
    · refine ih (fun j hj => hin j (List.mem_cons_of_mem _ hj)) (step p s i) ?_ o ho
      unfold step
      split
      · exact hb
      · exact Ring.step_bounded _ _ _ hb (hin i List.mem_cons_self)

/-- data: if every `w_data` is below `2^width`, so is `r_data` in every cycle (SyncFIFOBuffered) -/
theorem buffered_data_bounded (p : Params) (is : List Input) (hin : ∀ i ∈ is, i.w_data < 2 ^ p.width) :
    ∀ o ∈ btrace p (binit p) is, o.r_data < 2 ^ p.width := by
  suffices ∀ s : BState, Bounded p.width s.ring.storage → s.r_data < 2 ^ p.width →
      ∀ o ∈ btrace p s is, o.r_data < 2 ^ p.width from
    this _ (Ring.init_bounded _ _) (Nat.two_pow_pos _)
  induction is with
  | nil => intro s _ _ o ho; simp [btrace] at ho
  | cons i is ih =>
    intro s hb hr o ho
    simp only [btrace, List.mem_cons] at ho
    rcases ho with ho | ho
    · subst ho
      simp only [mkObs, boutputs]
      split
      · exact Nat.two_pow_pos _
      · split <;> exact hr
    · have hi := hin i List.mem_cons_self
      refine ih (fun j hj => hin j (List.mem_cons_of_mem _ hj)) (bstep p s i) ?_ ?_ o ho
      · unfold bstep
        split
        · exact hb
        · split
          · exact hb
          · exact Ring.step_bounded _ _ _ hb hi
      · unfold bstep
        split
        · exact hr
        · split
          · simp only; split
            · exact hi
            · exact hr
          · simp only; split
            · exact memRead_bounded hb _
            · exact hr

-- non-vacuity of the input hypothesis
example : ∀ i ∈ [(⟨true, 5, true⟩ : Input), ⟨true, 15, false⟩], i.w_data < 2 ^ 4 := by decide
end Amaranth.C12
