import AmaranthVerif.Proofs.CombCycle
import AmaranthVerif.Proofs.Drivers

/-!
# C06 — multiply-driven bits and combinational loops are rejected; legal designs are not

Driver conflicts: `Drivers.check` (the `driven_bits` / `connections` tables of the netlist emitter)
raises exactly on the designs the Spec calls conflicting; the early refusal of `Module` is issued
exactly for "one module, two domains" and only for conflicting designs.

Combinational cycles: `CombCycle.detect` (the DFS of `check_comb_cycles`, with the repair of finding
F5) reports a cycle exactly when the bit-dependency graph has one, what it reports is a cycle, it
never ends in the bare `AssertionError`, and it never runs out of fuel. All graphs, no size bound.
`detectUnfixed` (the DFS as it stands) ends in `AssertionError` on the F5 witness.
-/

namespace Amaranth.C06
open Amaranth.Drivers Amaranth.CombCycle

/-! ## driver conflicts -/

/-- The whole-design check raises `DriverConflict` iff some bit is driven by two drives that differ
in module or domain, or by logic and an instance/memory/buffer/port output (or two such outputs). -/
theorem conflict_iff (ds : List Drive) : check ds = .conflict ↔ Conflict ds := by
  rw [conflict_iff_not_pairwise, ← check_ok_iff]
  cases check ds <;> simp

/-- bit-disjoint drives, and several assignments from one (module, domain), are accepted -/
theorem no_false_conflict (ds : List Drive) : ¬ Conflict ds → check ds = .ok := by
  intro h
  cases hc : check ds with
  | ok => rfl
  | conflict => exact absurd ((conflict_iff ds).mp hc) h

/-- `Module._add_statement` raises its early `SyntaxError` iff one module drives a bit from two domains -/
theorem early_iff (ds : List Drive) : early ds = true ↔ SameModuleConflict ds :=
  Drivers.early_iff ds

/-- the early refusal is only issued for designs that do have a driver conflict -/
theorem early_sound (ds : List Drive) : early ds = true → Conflict ds :=
  fun h => sameModule_conflict ((Drivers.early_iff ds).mp h)

/-- the brute-force procedures the driver prints as `spec=` decide the Spec -/
theorem conflictB_iff (ds : List Drive) : conflictB ds = true ↔ Conflict ds := by
  rw [conflictB_not_pairwise, conflict_iff_not_pairwise]

theorem sameModuleB_iff (ds : List Drive) : sameModuleB ds = true ↔ SameModuleConflict ds := by
  rw [sameModuleB_not_pairwise, sameModule_iff_not_pairwise]

/-- non-vacuity: a conflict between modules in one domain; logic against an instance output;
legal: two assignments of one always-block, and bit-disjoint drives from two modules -/
example : Conflict [⟨0, 0, 4, .logic 0 0⟩, ⟨0, 3, 5, .logic 1 0⟩] :=
  ⟨0, 1, _, _, 0, 3, by decide, rfl, rfl, ⟨rfl, by decide, by decide⟩, ⟨rfl, by decide, by decide⟩, Or.inl (by decide)⟩
example : check [⟨0, 0, 4, .logic 0 0⟩, ⟨0, 3, 5, .logic 1 0⟩] = .conflict := by decide
example : check [⟨0, 0, 2, .logic 0 1⟩, ⟨0, 1, 3, .inst⟩] = .conflict := by decide
example : check [⟨0, 0, 4, .logic 2 1⟩, ⟨0, 1, 3, .logic 2 1⟩, ⟨0, 4, 6, .logic 3 0⟩, ⟨1, 0, 6, .mem⟩] = .ok := by decide
example : early [⟨0, 0, 4, .logic 2 1⟩, ⟨0, 1, 3, .logic 2 0⟩] = true := by decide
example : early [⟨0, 0, 4, .logic 2 1⟩, ⟨0, 1, 3, .logic 3 0⟩] = false := by decide

/-! ## combinational cycles -/

/-- what the repaired detector reports is a cycle of the graph: a walk from the
first net of the path back to it, or to another output bit of the same word-level cell -/
theorem cycle_sound (g : Graph) (p : List Net) : detect g = .cycle p → IsCycle g p := by
  intro h
  obtain ⟨n, rest, s, hp, hw, hs⟩ := run_sound g.succ g.extra true g.fuel g.roots [] [] p h
  refine ⟨n, rest, s, hp, (walk_iff g p n s).mpr hw, ?_⟩
  rcases hs with hs | ⟨_, hs⟩
  · exact Or.inl hs
  · exact Or.inr (extra_sameWord g n s hs)

/-- a reported cycle path witnesses a bit that depends on itself -/
theorem isCycle_hasCycle (g : Graph) (p : List Net) : IsCycle g p → HasCycle g := by
  rintro ⟨n, rest, s, hp, hw, hs⟩
  have hs' : s = n ∨ s ∈ g.extra n := by
    rcases hs with hs | ⟨c, hc, hf, h1, h2, h3⟩
    · exact Or.inl hs
    · by_cases hb : s.2 = n.2
      · exact Or.inl (Prod.ext h1 hb)
      · exact Or.inr ((mem_extra_iff g n s).mpr ⟨c, by rw [← h1]; exact hc, hf, h3, h1, h2, hb⟩)
  obtain ⟨t, ht⟩ := cycle_areach g.succ g.extra (sibOK g) ⟨n, rest, s, hp, (walk_iff g p n s).mp hw, hs'⟩
  exact ⟨t, (reach_iff g t t).mpr ht⟩

theorem unfixed_sound (g : Graph) (p : List Net) : detectUnfixed g = .cycle p → IsCycle g p := by
  intro h
  obtain ⟨n, rest, s, hp, hw, hs⟩ := run_sound g.succ g.extra false g.fuel g.roots [] [] p h
  refine ⟨n, rest, s, hp, (walk_iff g p n s).mpr hw, ?_⟩
  rcases hs with hs | ⟨hf, _⟩
  · exact Or.inl hs
  · cases hf

/-- how the repaired detector can end: it raises, or it finishes with every root in a finishing
order of the graph (in particular: never `assertFail`, never `outOfFuel`) -/
theorem detect_cases (g : Graph) :
    (∃ p, detect g = .cycle p) ∨
    (detect g = .ok ∧ ∃ c, Topo g.succ c ∧ ∀ r ∈ g.roots, r ∈ c) := by
  have hroots : ∀ r ∈ g.roots, r ∈ g.universe := fun r hr =>
    List.mem_append_left _ (List.mem_append_right _ hr)
  rcases run_post g.succ g.extra (sibOK g) g.universe (universe_succ g) (universe_extra g) g.fuel
      (Nat.le_refl _) g.roots [] hroots (inv_init g.succ g.extra g.universe) with h | ⟨h, c, ht, _, hr⟩
  · exact Or.inl h
  · exact Or.inr ⟨h, c, ht, hr⟩

/-- a graph with a cycle is never accepted, and never ends in the bare `AssertionError`
(`Covers`: the final loops visit every cell output, as the code does) -/
theorem cycle_complete (g : Graph) (hc : g.Covers) : HasCycle g → ∃ p, detect g = .cycle p := by
  rintro ⟨n, hn⟩
  rcases detect_cases g with h | ⟨_, c, ht, hr⟩
  · exact h
  · exact absurd ((reach_iff g n n).mp hn) (topo_acyclic g.succ ht n (hr n (hc n (reach_mem_nets g hn) (reach_succ_ne g hn))))

/-- a graph without a cycle is accepted — in particular bits of one signal may feed other bits of
the same signal, also through word-level cells, as long as no bit reaches itself -/
theorem no_false_cycle (g : Graph) : ¬ HasCycle g → detect g = .ok := by
  intro h
  rcases detect_cases g with ⟨p, hp⟩ | ⟨hok, _⟩
  · exact absurd (isCycle_hasCycle g p (cycle_sound g p hp)) h
  · exact hok

/-- the two together -/
theorem detect_iff (g : Graph) (hc : g.Covers) : (∃ p, detect g = .cycle p) ↔ HasCycle g :=
  ⟨fun ⟨p, hp⟩ => isCycle_hasCycle g p (cycle_sound g p hp), cycle_complete g hc⟩

/-- the repaired detector never fails its own assertions -/
theorem never_assert (g : Graph) : detect g ≠ .assertFail := by
  rcases detect_cases g with ⟨p, hp⟩ | ⟨hok, _⟩ <;> simp_all

/-- `|universe| + 1` levels of recursion are enough (the nets in `busy` are pairwise different and
all lie in the universe), and any larger bound gives the same answer -/
theorem fuel_enough (g : Graph) (fuel : Nat) (h : g.fuel ≤ fuel) :
    detectWith true fuel g = detect g ∧ detect g ≠ .outOfFuel := by
  have hne : detect g ≠ .outOfFuel := by
    rcases detect_cases g with ⟨p, hp⟩ | ⟨hok, _⟩ <;> simp_all
  refine ⟨?_, hne⟩
  obtain ⟨k, rfl⟩ := Nat.exists_eq_add_of_le h
  exact run_mono_add g.succ g.extra true g.fuel g.roots [] [] hne k

/-- an accepted cycle certificate shows the graph cyclic -/
theorem cycle_cert_sound (g : Graph) (p : List Net) : cycleCertB g p = true → HasCycle g := by
  intro h
  cases p with
  | nil => simp [cycleCertB] at h
  | cons n rest =>
    simp only [cycleCertB, List.any_eq_true] at h
    obtain ⟨s, hs, hw⟩ := h
    have hs' : s = n ∨ s ∈ g.extra n := List.mem_cons.mp hs
    obtain ⟨t, ht⟩ := cycle_areach g.succ g.extra (sibOK g)
      ⟨n, rest, s, rfl, (walkB_iff g _ n s).mp hw, hs'⟩
    exact ⟨t, (reach_iff g t t).mpr ht⟩

/-- an accepted topological-order certificate shows the graph acyclic -/
theorem topo_cert_sound (g : Graph) (order : List Net) : topoCertB g order = true → ¬ HasCycle g := by
  intro h
  simp only [topoCertB, Bool.and_eq_true, List.all_eq_true, List.contains_iff_mem] at h
  rintro ⟨n, hn⟩
  exact topo_acyclic g.succ (topoB_iff g order h.1) n (h.2 n (reach_mem_nets g hn)) ((reach_iff g n n).mp hn)

/-! ### non-vacuity and finding F5 -/

/-- finding F5: on the reduced `a.eq(a[1:3] + 1)` the detector as it stands fails its final
`assert` although the graph has a cycle; the repaired one reports the cycle -/
example : detectUnfixed f5Witness = .assertFail := by decide
example : detect f5Witness = .cycle [(0, 0), (1, 1)] := by decide
example : f5Witness.Covers := by decide
example : HasCycle f5Witness :=
  isCycle_hasCycle _ _ (cycle_sound f5Witness [(0, 0), (1, 1)] (by decide))

/-- an acyclic graph in which bits of one signal feed other bits of the same signal through a
word-level cell (`a[0:2].eq(a[2:4] + 1)`): accepted -/
def legalWitness : Graph :=
  { cells := [ { fused := true,  width := 2, ins := [(1, 2), (1, 3)], bitIns := [] },
               { fused := false, width := 4, ins := [], bitIns := [[(0, 0)], [(0, 1)], [], []] } ],
    roots := [(0, 0), (0, 1), (1, 0), (1, 1), (1, 2), (1, 3)] }
example : detect legalWitness = .ok := by decide
example : legalWitness.Covers := by decide
example : topoCertB legalWitness [(1, 0), (1, 1), (0, 0), (0, 1), (1, 2), (1, 3)] = true := by decide
example : cycleCertB f5Witness [(0, 1), (1, 1)] = true := by decide

end Amaranth.C06
