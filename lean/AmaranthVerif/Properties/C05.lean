import AmaranthVerif.Proofs.TbExact

/-!
# C05 — testbench reads and writes agree with what a circuit would compute
-/

namespace Amaranth.C05
open Amaranth

/-- `ctx.get(expr)` returns the exact integer the expression denotes (all depths, widths, values). -/
theorem tb_exact (ctx : Ctx) (env : Env) (hok : EnvOk ctx env) (e : Expr) (hwf : e.wf ctx = true) :
    evalTb ctx env e = denote ctx env e :=
  tb_exact_aux ctx env hok e hwf

/-- Reading an expression in a testbench returns the value a combinational signal assigned that
expression holds: both equal `denote`. -/
theorem tb_eq_circuit (ctx : Ctx) (env : Env) (hok : EnvOk ctx env) (e : Expr) (hwf : e.wf ctx = true) :
    evalTb ctx env e = rtlValue ctx env e := by
  rw [tb_exact ctx env hok e hwf]; exact (sound ctx env hok e hwf).sgn.symm

/-- what is read stays inside the expression's shape -/
theorem tb_in_shape (ctx : Ctx) (env : Env) (hok : EnvOk ctx env) (e : Expr) (hwf : e.wf ctx = true) :
    (shapeOf ctx e).contains (evalTb ctx env e) := by
  rw [tb_exact ctx env hok e hwf]; exact (sound ctx env hok e hwf).rng

/-! Non-vacuity: a signed test value under a don't-care pattern (the `_eval_matches` path). -/
def exCtx : Ctx := [⟨3, true⟩, ⟨4, false⟩]
def exEnv : Env := [-3, 9]
def exExpr : Expr := .ite (.sig 0) [[.one, .any, .one]] (.op1 .inv (.sig 1)) (.ite (.sig 0) [Pat.dontCare 3] (.op1 .s (.sig 1)) Expr.nil)
example : exExpr.wf exCtx = true := by decide
example : evalTb exCtx exEnv exExpr = 6 := by decide

end Amaranth.C05
