import AmaranthVerif.Proofs.TbExact
import AmaranthVerif.Proofs.AssignBits5
import AmaranthVerif.Proofs.TbWrite

/-!
# C05 — testbench reads and writes agree with what a circuit would compute
-/

namespace Amaranth.C05
open Amaranth

/-- `ctx.get(expr)` returns the exact integer the expression denotes (all depths, widths, values). -/
theorem tb_exact (ctx : Ctx) (env : Env) (hok : EnvOk ctx env) (e : Expr) (hwf : e.wf ctx = true) :
    evalTb ctx env e = denote ctx env e :=
  tb_exact_aux ctx env hok e hwf

/-- Reading an expression in a testbench returns the value a combinational signal assigned that
expression holds: both equal `denote`. -/
theorem tb_eq_circuit (ctx : Ctx) (env : Env) (hok : EnvOk ctx env) (e : Expr) (hwf : e.wf ctx = true) :
    evalTb ctx env e = rtlValue ctx env e := by
  rw [tb_exact ctx env hok e hwf]; exact (sound ctx env hok e hwf).sgn.symm

/-- what is read stays inside the expression's shape -/
theorem tb_in_shape (ctx : Ctx) (env : Env) (hok : EnvOk ctx env) (e : Expr) (hwf : e.wf ctx = true) :
    (shapeOf ctx e).contains (evalTb ctx env e) := by
  rw [tb_exact ctx env hok e hwf]; exact (sound ctx env hok e hwf).rng

/-- The assignment statement in a circuit changes exactly the bits the Spec says (position `k` of the
target ↦ bit `k` of the value; positions outside the addressed object dropped; everything else
untouched) — for targets without aliasing under a slice or part-select (finding F9). -/
theorem circuit_write_spec (ctx : Ctx) (cur : Env) (hok : EnvOk ctx cur) (hE : EnvN ctx cur) (target : Expr)
    (ht : target.twf ctx = true) (hn : target.noAlias ctx cur) (v : Int) :
    assignRtl ctx cur target v = assignSpec ctx cur target v :=
  assign_rtl_eq_spec ctx cur hok target ht hn v hE

/-- `ctx.set(target, v)` changes exactly the bits the Spec says, for every well-formed target — slices,
part-selects with any offset, concatenations, array elements, sign reinterpretations, nested in any way, a
signal occurring several times included (the testbench path writes piece by piece; no `noAlias` hypothesis) —
every value `v` (bits beyond the target are dropped) and every state. `assignTb` is `_eval_assign_inner`
after the F2 repair. -/
theorem tb_write_spec (ctx : Ctx) (cur : Env) (hok : EnvOk ctx cur) (hE : EnvN ctx cur) (target : Expr)
    (ht : target.twf ctx = true) (v : Int) :
    assignTb ctx cur target v = assignSpec ctx cur target v :=
  assignTb_eq_spec ctx cur hok target ht v hE

/-- A testbench write and the same assignment made by a circuit leave the same state (where the circuit side
is defined at all: without the aliasing of F9). -/
theorem tb_write_eq_circuit (ctx : Ctx) (cur : Env) (hok : EnvOk ctx cur) (hE : EnvN ctx cur) (target : Expr)
    (ht : target.twf ctx = true) (hn : target.noAlias ctx cur) (v : Int) :
    assignTb ctx cur target v = assignRtl ctx cur target v := by
  rw [tb_write_spec ctx cur hok hE target ht v, circuit_write_spec ctx cur hok hE target ht hn v]

/-- bits the Spec does not address keep their value (signals the target does not mention included) -/
theorem write_untouched (ctx : Ctx) (env : Env) (target : Expr) (v : Int) (hE : EnvN ctx env)
    (ht : target.twf ctx = true) (i b : Nat) (hi : i < ctx.length) (hb : b < (ctx.shape i).width)
    (hnot : some (i, b) ∉ lbits ctx env target) :
    bitAt (assignSpec ctx env target v) i b = bitAt env i b := by
  have h := (assignSpec_bits ctx env target v hE (lbits_ok ctx env target ht)).2 i b hi hb
  rw [(lastWrite_none_iff _ 0 i b).mpr hnot] at h
  exact h

/-! Non-vacuity: a signed test value under a don't-care pattern (the `_eval_matches` path). -/
def exCtx : Ctx := [⟨3, true⟩, ⟨4, false⟩]
def exEnv : Env := [-3, 9]
def exExpr : Expr := .ite (.sig 0) [[.one, .any, .one]] (.op1 .inv (.sig 1)) (.ite (.sig 0) [Pat.dontCare 3] (.op1 .s (.sig 1)) Expr.nil)
example : exExpr.wf exCtx = true := by decide
example : evalTb exCtx exEnv exExpr = 6 := by decide

/-! Non-vacuity of the write theorems: `Cat(a[1:3], b).bit_select(a.as_unsigned()[0:2], 3)` written with 2 (clears the sign bit of `a`), and the
code as found (F2) writing outside the addressed window on `b[0:2].bit_select(1, 3)`. -/
def wTarget : Expr := .part (.cat (.slice (.sig 0) 1 3) (.cat (.sig 1) Expr.nil)) (.slice (.op1 .u (.sig 0)) 0 2) 3 1
example : wTarget.twf exCtx = true := by decide
example : assignTb exCtx exEnv wTarget 2 = [1, 9] := by decide
example : assignSpec exCtx exEnv wTarget 2 = [1, 9] := by decide
def f2Target : Expr := .part (.slice (.sig 1) 0 2) (.const 1 ⟨1, false⟩) 3 1
theorem f2_witness : f2Target.twf exCtx = true ∧ assignSpec exCtx exEnv f2Target 7 = [-3, 11] ∧
    assignTb exCtx exEnv f2Target 7 = [-3, 11] ∧ assignTbUnfixed exCtx exEnv f2Target 7 = [-3, 15] := by decide

end Amaranth.C05
