import AmaranthVerif.Proofs.AssignBits5
import AmaranthVerif.Proofs.DomainQuiet
import AmaranthVerif.Proofs.TbWrite

/-!
# What a compiled process does to the shared state

A compiled process (`_FragmentCompiler`) runs the statements on private copies of the signals it drives, then
commits them through the bit masks `LHSMaskCollector` computed statically. `process_bits`: after the commit,
every bit some active assignment wrote holds the last value written to it (the masks cover every location an
assignment can address — `lhsMask_covers`), every other masked bit holds what the process started from, and
every unmasked bit of every signal is as the other processes left it. For a synchronous process (which starts
from the current values) this is `sync_process_effect`: the process changes the shared state by exactly its
active writes.
-/

namespace Amaranth

/-- every left-hand side in the statements, active or not -/
def stmtTargets : Stmt → List Expr
  | .skip => []
  | .seq a b => stmtTargets a ++ stmtTargets b
  | .assign lhs _ => [lhs]
  | .ite _ _ thn els => stmtTargets thn ++ stmtTargets els

/-- the assignments that execute in state `cur`, in order, with the values assigned -/
def stmtWrites (ctx : Ctx) (cur : Env) : Stmt → List (Expr × Int)
  | .skip => []
  | .seq a b => stmtWrites ctx cur a ++ stmtWrites ctx cur b
  | .assign lhs rhs => [(lhs, rtlValue ctx cur rhs)]
  | .ite test pats thn els =>
    if matchesAny pats (mask (widthOf ctx test) (evalRtl ctx cur test)) then stmtWrites ctx cur thn
    else stmtWrites ctx cur els

theorem execRtl_eq_writes (ctx : Ctx) (cur : Env) : ∀ (s : Stmt) (nxt : Env),
    execRtl ctx cur s nxt = applyWritesRtl ctx cur (stmtWrites ctx cur s) nxt := by
  intro s
  induction s with
  | skip => intro nxt; rfl
  | seq a b iha ihb => intro nxt; simp only [execRtl, stmtWrites, applyWritesRtl_append, iha, ihb]
  | assign l r => intro nxt; rfl
  | ite t p thn els ih1 ih2 =>
    intro nxt
    simp only [execRtl, stmtWrites]
    split
    · exact ih1 nxt
    · exact ih2 nxt

theorem stmtWrites_targets (ctx : Ctx) (cur : Env) : ∀ (s : Stmt) (w : Expr × Int),
    w ∈ stmtWrites ctx cur s → w.1 ∈ stmtTargets s := by
  intro s
  induction s with
  | skip => intro w h; simp [stmtWrites] at h
  | seq a b iha ihb =>
    intro w h
    simp only [stmtWrites, List.mem_append] at h
    simp only [stmtTargets, List.mem_append]
    exact h.imp (iha w) (ihb w)
  | assign l r => intro w h; simp only [stmtWrites, List.mem_singleton] at h; subst h; simp [stmtTargets]
  | ite t p thn els ih1 ih2 =>
    intro w h
    simp only [stmtWrites] at h
    simp only [stmtTargets, List.mem_append]
    split at h
    · exact Or.inl (ih1 w h)
    · exact Or.inr (ih2 w h)

/-- the value of the last active write to bit `b` of signal `i`, if any -/
def wbit (ctx : Ctx) (env : Env) : List (Expr × Int) → Nat → Nat → Option Bool
  | [], _, _ => none
  | (lhs, v) :: ws, i, b =>
    match wbit ctx env ws i b with
    | some x => some x
    | none => (lastWrite (lbits ctx env lhs) 0 i b).map (ibit v)

/-- `applyWrites`, bit by bit: the last write to a bit wins, unwritten bits keep the starting value -/
theorem applyWrites_bits (ctx : Ctx) (env : Env) : ∀ (ws : List (Expr × Int)) (X : Env), EnvN ctx X →
    (∀ w ∈ ws, w.1.twf ctx = true) →
    EnvN ctx (applyWrites ctx env ws X) ∧
    ∀ i b, i < ctx.length → b < (ctx.shape i).width →
      bitAt (applyWrites ctx env ws X) i b = (wbit ctx env ws i b).getD (bitAt X i b) := by
  intro ws
  induction ws with
  | nil => intro X hX _; exact ⟨hX, fun i b _ _ => rfl⟩
  | cons w ws ih =>
    intro X hX hws
    obtain ⟨l, v⟩ := w
    have hl := hws (l, v) (List.mem_cons_self ..)
    obtain ⟨h1, h2⟩ := applyBits_spec ctx v (lbits ctx env l) 0 X hX (lbits_ok ctx env l hl)
    obtain ⟨h3, h4⟩ := ih _ h1 (fun w hw => hws w (List.mem_cons_of_mem _ hw))
    simp only [applyWrites]
    refine ⟨h3, fun i b hi hb => ?_⟩
    rw [h4 i b hi hb, h2 i b hi hb]
    simp only [wbit]
    cases wbit ctx env ws i b with
    | some x => rfl
    | none =>
      simp only [Option.getD_none]
      cases lastWrite (lbits ctx env l) 0 i b <;> rfl

/-! ## The masks cover every location an assignment can address -/

theorem lhsMask_length (ctx : Ctx) : ∀ (e : Expr) (m : Int) (t : MaskTab), (lhsMask ctx e m t).length = t.length := by
  intro e
  induction e with
  | const v s => intro m t; rfl
  | sig i => intro m t; simp [lhsMask]
  | op1 o a ih => intro m t; cases o <;> first | rfl | (simp only [lhsMask]; exact ih m t)
  | op2 o a b _ _ => intro m t; rfl
  | slice a s e ih => intro m t; simp only [lhsMask]; exact ih _ t
  | part a off w st ih _ => intro m t; simp only [lhsMask]; exact ih _ t
  | cat lo hi ihlo ihhi => intro m t; simp only [lhsMask]; rw [ihhi, ihlo]
  | ite test pats thn els _ ihthn ihels => intro m t; simp only [lhsMask]; rw [ihels, ihthn]

theorem get_set_self (t : MaskTab) (i : Nat) (v : Int) (h : i < t.length) : MaskTab.get (t.set i v) i = v := by
  simp [MaskTab.get, List.getD_eq_getElem?_getD, h]

theorem get_set_other (t : MaskTab) (i j : Nat) (v : Int) (h : j ≠ i) : MaskTab.get (t.set i v) j = t.get j :=
  getD_set_ne t i j v h

/-- masks only grow -/
theorem lhsMask_mono (ctx : Ctx) (i b : Nat) : ∀ (e : Expr) (m : Int) (t : MaskTab),
    ibit (t.get i) b = true → ibit ((lhsMask ctx e m t).get i) b = true := by
  intro e
  induction e with
  | const v s => intro m t h; exact h
  | sig j =>
    intro m t h
    simp only [lhsMask]
    by_cases hij : i = j
    · subst hij
      by_cases hl : i < t.length
      · rw [get_set_self t i _ hl, ibit_pyOr, h]; rfl
      · have : t.set i (pyOr (t.get i) (pyAnd m (pyShl 1 (ctx.shape i).width - 1))) = t := by
          apply List.set_eq_of_length_le; omega
        rw [this]; exact h
    · rw [get_set_other t j i _ hij]; exact h
  | op1 o a ih => intro m t h; cases o <;> first | exact h | (simp only [lhsMask]; exact ih m t h)
  | op2 o a b _ _ => intro m t h; exact h
  | slice a s e ih => intro m t h; simp only [lhsMask]; exact ih _ t h
  | part a off w st ih _ => intro m t h; simp only [lhsMask]; exact ih _ t h
  | cat lo hi ihlo ihhi => intro m t h; simp only [lhsMask]; exact ihhi _ _ (ihlo _ _ h)
  | ite test pats thn els _ ihthn ihels => intro m t h; simp only [lhsMask]; exact ihels _ _ (ihthn _ _ h)

theorem padTo_getD_some {n : Nat} {l : List Loc} {k : Nat} {x : Nat × Nat}
    (h : (padTo n l).getD k none = some x) : l.getD k none = some x ∧ k < n := by
  by_cases hk : k < l.length
  · by_cases hn : k < n
    · rw [padTo_getD_lt n l k hk hn] at h; exact ⟨h, hn⟩
    · exfalso
      have : (padTo n l).length ≤ k := by rw [padTo_length]; omega
      rw [List.getD_eq_getElem?_getD, List.getElem?_eq_none_iff.mpr this] at h
      cases h
  · rw [padTo_getD_ge n l k (by omega)] at h; cases h

section
variable (ctx : Ctx) (cur : Env)

/-- position `k` of the target addresses bit `b` of signal `i`, and bit `k` of the mask passed down is set:
then `LHSMaskCollector` marks bit `b` of signal `i` -/
theorem lhsMask_covers (i b : Nat) : ∀ (e : Expr), e.twf ctx = true → ∀ (m : Int) (t : MaskTab) (k : Nat),
    t.length = ctx.length → (lbits ctx cur e).getD k none = some (i, b) → ibit m k = true →
    ibit ((lhsMask ctx e m t).get i) b = true := by
  intro e
  induction e with
  | const v s => intro _ m t k _ h; simp [lbits] at h
  | sig j =>
    intro htw m t k hlen h hm
    simp only [Expr.twf, decide_eq_true_eq] at htw
    simp only [lbits, List.getD_eq_getElem?_getD, List.getElem?_map, List.getElem?_range] at h
    by_cases hk : k < (ctx.shape j).width
    · simp only [List.getElem?_range hk, Option.map_some, Option.getD_some, Option.some.injEq, Prod.mk.injEq] at h
      obtain ⟨rfl, rfl⟩ := h
      simp only [lhsMask]
      rw [get_set_self t j _ (by omega), ibit_pyOr, ibit_pyAnd, ibit_ones, hm]
      simp [hk]
    · have : (List.range (ctx.shape j).width)[k]? = none := by
        rw [List.getElem?_eq_none_iff]; simp; omega
      simp [this] at h
  | op1 o a ih =>
    intro htw m t k hlen h hm
    cases o <;> simp only [Expr.twf, Bool.false_eq_true] at htw <;>
      (simp only [lbits] at h; simp only [lhsMask]; exact ih htw m t k hlen h hm)
  | op2 o a b _ _ => intro htw; simp [Expr.twf] at htw
  | slice a s e ih =>
    intro htw m t k hlen h hm
    simp only [Expr.twf, Bool.and_eq_true, decide_eq_true_eq] at htw
    simp only [lbits, List.getD_eq_getElem?_getD, List.getElem?_take, List.getElem?_drop] at h
    by_cases hk : k < e - s
    · simp only [hk, if_true] at h
      simp only [lhsMask]
      apply ih htw.1.1 _ t (s + k) hlen (by rw [List.getD_eq_getElem?_getD]; exact h)
      rw [ibit_pyAnd, ibit_pyShl, ibit_window_mask _ _ _ htw.1.2]
      have : s + k - s = k := by omega
      simp only [this, hm, Nat.le_add_right, decide_true, Bool.true_and]
      simp; omega
    · simp [hk] at h
  | part a off w st iha _ =>
    intro htw m t k hlen h hm
    simp only [Expr.twf, Bool.and_eq_true, decide_eq_true_eq, Bool.not_eq_true'] at htw
    simp only [lbits] at h
    obtain ⟨h1, _⟩ := padTo_getD_some h
    simp only [List.getD_eq_getElem?_getD, List.getElem?_drop] at h1
    simp only [lhsMask]
    exact iha htw.1.1.1 (-1) t _ hlen (by rw [List.getD_eq_getElem?_getD]; exact h1) (ibit_neg_one _)
  | cat lo hi ihlo ihhi =>
    intro htw m t k hlen h hm
    simp only [Expr.twf, Bool.and_eq_true] at htw
    have hllo := lbits_length ctx cur lo htw.1
    simp only [lbits, List.getD_eq_getElem?_getD] at h
    simp only [lhsMask]
    by_cases hk : k < widthOf ctx lo
    · rw [List.getElem?_append_left (by rw [hllo]; exact hk)] at h
      apply lhsMask_mono
      exact ihlo htw.1 m t k hlen (by rw [List.getD_eq_getElem?_getD]; exact h) hm
    · rw [List.getElem?_append_right (by rw [hllo]; omega), hllo] at h
      apply ihhi htw.2 _ _ (k - widthOf ctx lo) (by rw [lhsMask_length]; exact hlen)
        (by rw [List.getD_eq_getElem?_getD]; exact h)
      rw [ibit_pyShr]
      have : k - widthOf ctx lo + widthOf ctx lo = k := by omega
      rw [this]; exact hm
  | ite test pats thn els _ ihthn ihels =>
    intro htw m t k hlen h hm
    simp only [Expr.twf, Bool.and_eq_true] at htw
    simp only [lbits] at h
    obtain ⟨h1, _⟩ := padTo_getD_some h
    simp only [lhsMask]
    split at h1
    · apply lhsMask_mono
      exact ihthn htw.1.1.2 m t k hlen h1 hm
    · exact ihels htw.1.2 m _ k (by rw [lhsMask_length]; exact hlen) h1 hm

end

/-! ## Values of a shape, seen from their high bits -/

theorem testBit_high_false (n b : Nat) (h : n ≤ b) : n.testBit b = false :=
  Nat.testBit_lt_two_pow (Nat.lt_of_lt_of_le Nat.lt_two_pow_self (Nat.pow_le_pow_right (by decide) h))

/-- all bits from `w - 1` upwards equal: the value fits `signed(w)` -/
theorem contains_s_of_bits (w : Nat) (hw : 0 < w) (x : Int) (h : ∀ b, w - 1 ≤ b → ibit x b = ibit x (w - 1)) :
    (Shape.mk w true).contains x := by
  cases x with
  | ofNat n =>
    rw [Shape.contains_s_ofNat]
    have h0 : n.testBit (w - 1) = false := by
      have := h (max n (w - 1)) (Nat.le_max_right ..)
      rw [ibit_ofNat', ibit_ofNat', testBit_high_false n _ (Nat.le_max_left ..)] at this
      exact this.symm
    apply Nat.lt_pow_two_of_testBit
    intro b hb
    have := h b (by omega)
    rw [ibit_ofNat', ibit_ofNat', h0] at this; exact this
  | negSucc n =>
    rw [Shape.contains_s_negSucc]
    have h0 : n.testBit (w - 1) = false := by
      have := h (max n (w - 1)) (Nat.le_max_right ..)
      rw [ibit_negSucc, ibit_negSucc, testBit_high_false n _ (Nat.le_max_left ..)] at this
      cases hb : n.testBit (w - 1) <;> simp_all
    apply Nat.lt_pow_two_of_testBit
    intro b hb
    have := h b (by omega)
    rw [ibit_negSucc, ibit_negSucc, h0] at this
    cases hb' : n.testBit b <;> simp_all

/-- no bit from `w` upwards: the value fits `unsigned(w)` -/
theorem contains_u_of_bits (w : Nat) (x : Int) (h : ∀ b, w ≤ b → ibit x b = false) : (Shape.mk w false).contains x := by
  cases x with
  | ofNat n =>
    rw [Shape.contains_u_ofNat]
    apply Nat.lt_pow_two_of_testBit
    intro b hb
    have := h b hb
    rw [ibit_ofNat'] at this; exact this
  | negSucc n =>
    exfalso
    have := h (max n w) (Nat.le_max_right ..)
    rw [ibit_negSucc, testBit_high_false n _ (Nat.le_max_left ..)] at this
    cases this

/-- … and conversely -/
theorem high_bits_s (w : Nat) (x : Int) (h : (Shape.mk w true).contains x) (b : Nat) (hb : w - 1 ≤ b) :
    ibit x b = ibit x (w - 1) := by
  cases x with
  | ofNat n =>
    rw [Shape.contains_s_ofNat] at h
    rw [ibit_ofNat', ibit_ofNat', Nat.testBit_lt_two_pow h,
        Nat.testBit_lt_two_pow (Nat.lt_of_lt_of_le h (Nat.pow_le_pow_right (by decide) hb))]
  | negSucc n =>
    rw [Shape.contains_s_negSucc] at h
    rw [ibit_negSucc, ibit_negSucc, Nat.testBit_lt_two_pow h,
        Nat.testBit_lt_two_pow (Nat.lt_of_lt_of_le h (Nat.pow_le_pow_right (by decide) hb))]

theorem high_bits_u (w : Nat) (x : Int) (h : (Shape.mk w false).contains x) (b : Nat) (hb : w ≤ b) :
    ibit x b = false := by
  cases x with
  | ofNat n =>
    rw [Shape.contains_u_ofNat] at h
    rw [ibit_ofNat', Nat.testBit_lt_two_pow (Nat.lt_of_lt_of_le h (Nat.pow_le_pow_right (by decide) hb))]
  | negSucc n => exact absurd h Shape.contains_u_negSucc

/-! ## `slots[i].update(next_i, mask)` -/

/-- the commit of one signal: masked bits from the process's pending value, the others as they were; the result
is again a value of the signal's shape. `m` is a mask as `LHSMaskCollector` builds them: bits below the width. -/
theorem commitMask_bits (s : Shape) (hs : s.WF) (old new m : Int) (ho : s.contains old) (hn : s.contains new)
    (hm : (Shape.mk s.width false).contains m) :
    s.contains (commitMask s old new m) ∧
    ∀ b, b < s.width → ibit (commitMask s old new m) b = if ibit m b then ibit new b else ibit old b := by
  obtain ⟨w, sg⟩ := s
  have hmhi := high_bits_u w m hm
  -- all bits of the result
  have hall : ∀ b, ibit (commitMask ⟨w, sg⟩ old new m) b =
      if (ibit m b || (sg && ibit m (w - 1) && decide (w ≤ b))) then ibit new b else ibit old b := by
    intro b
    unfold commitMask
    simp only
    have hsign : (pyAnd m (pyShl 1 (w - 1)) != 0) = ibit m (w - 1) := by
      have e : pyShl 1 (w - 1) = (2 : Int) ^ (w - 1) := by simp [pyShl]
      rw [e]
      by_cases hb : ibit m (w - 1) = true
      · rw [hb]
        simp only [bne_iff_ne, ne_eq]
        intro h0
        have := congrArg (fun z => ibit z (w - 1)) h0
        simp only [ibit_pyAnd, hb, ibit_two_pow, decide_true, Bool.and_self, ibit_zero'] at this
        cases this
      · have hb' : ibit m (w - 1) = false := by simpa using hb
        rw [hb']
        simp only [bne_eq_false_iff_eq]
        apply eq_of_ibits ⟨w + 1, false⟩ (by intro h; cases h)
        · apply contains_u_of_bits
          intro c hc
          rw [ibit_pyAnd, ibit_two_pow]
          have : ¬ (w - 1 = c) := by omega
          simp [this]
        · rw [Shape.contains_u]; exact ⟨Int.le_refl _, two_pow_pos' _⟩
        · intro c _
          rw [ibit_pyAnd, ibit_two_pow, ibit_zero']
          by_cases hc : w - 1 = c
          · subst hc; simp [hb']
          · simp [hc]
    rw [hsign]
    cases sg with
    | false =>
      simp only [Bool.false_and, Bool.or_false, Bool.false_eq_true, if_false]
      rw [ibit_pyOr, ibit_pyAnd, ibit_pyNot, ibit_pyAnd]
      cases ibit m b <;> simp
    | true =>
      simp only [Bool.true_and]
      by_cases hb : ibit m (w - 1) = true
      · simp only [hb, if_true, Bool.true_and]
        rw [ibit_pyOr, ibit_pyAnd, ibit_pyNot, ibit_pyAnd, ibit_pyOr, ibit_pyShl, ibit_neg_one]
        cases ibit m b <;> cases decide (w ≤ b) <;> simp
      · have hb' : ibit m (w - 1) = false := by simpa using hb
        simp only [hb', Bool.false_eq_true, if_false, Bool.false_and, Bool.or_false]
        rw [ibit_pyOr, ibit_pyAnd, ibit_pyNot, ibit_pyAnd]
        cases ibit m b <;> simp
  refine ⟨?_, ?_⟩
  · cases sg with
    | false =>
      apply contains_u_of_bits
      intro b hb
      rw [hall b, hmhi b hb, high_bits_u w old ho b hb]; simp
    | true =>
      have hw : 0 < w := hs rfl
      apply contains_s_of_bits w hw
      intro b hb
      rw [hall b, hall (w - 1)]
      have e1 := high_bits_s w old ho b hb
      have e2 := high_bits_s w new hn b hb
      by_cases hbw : w ≤ b
      · rw [hmhi b hbw]
        have : ¬ w ≤ w - 1 := by omega
        simp only [Bool.true_and, Bool.false_or, hbw, decide_true, Bool.and_true, this, decide_false, Bool.and_false,
          Bool.or_false, e1, e2]
      · have : b = w - 1 := by omega
        subst this; rfl
  · intro b hb
    rw [hall b]
    have : ¬ w ≤ b := by simp only at hb; omega
    simp [this]

/-! ## The masks of a whole process -/

/-- every entry of the table is a mask below its signal's width -/
def MaskOk (ctx : Ctx) (t : MaskTab) : Prop := ∀ i, (Shape.mk (ctx.shape i).width false).contains (t.get i)

theorem lhsMask_ok (ctx : Ctx) : ∀ (e : Expr) (m : Int) (t : MaskTab), MaskOk ctx t → MaskOk ctx (lhsMask ctx e m t) := by
  intro e
  induction e with
  | const v s => intro m t h; exact h
  | sig j =>
    intro m t h i
    simp only [lhsMask]
    by_cases hij : i = j
    · subst hij
      by_cases hl : i < t.length
      · rw [get_set_self t i _ hl]
        apply contains_u_of_bits
        intro b hb
        rw [ibit_pyOr, ibit_pyAnd, ibit_ones, high_bits_u _ _ (h i) b hb]
        have : ¬ b < (ctx.shape i).width := by omega
        simp [this]
      · have : t.set i (pyOr (t.get i) (pyAnd m (pyShl 1 (ctx.shape i).width - 1))) = t := by
          apply List.set_eq_of_length_le; omega
        rw [this]; exact h i
    · rw [get_set_other t j i _ hij]; exact h i
  | op1 o a ih => intro m t h; cases o <;> first | exact h | (simp only [lhsMask]; exact ih m t h)
  | op2 o a b _ _ => intro m t h; exact h
  | slice a s e ih => intro m t h; simp only [lhsMask]; exact ih _ t h
  | part a off w st ih _ => intro m t h; simp only [lhsMask]; exact ih _ t h
  | cat lo hi ihlo ihhi => intro m t h; simp only [lhsMask]; exact ihhi _ _ (ihlo _ _ h)
  | ite test pats thn els _ ihthn ihels => intro m t h; simp only [lhsMask]; exact ihels _ _ (ihthn _ _ h)

theorem stmtMask_ok (ctx : Ctx) : ∀ (s : Stmt) (t : MaskTab), MaskOk ctx t → MaskOk ctx (stmtMask ctx s t) := by
  intro s
  induction s with
  | skip => intro t h; exact h
  | seq a b iha ihb => intro t h; exact ihb _ (iha _ h)
  | assign l r => intro t h; exact lhsMask_ok ctx l _ t h
  | ite c p thn els ih1 ih2 => intro t h; exact ih2 _ (ih1 _ h)

theorem stmtMask_length (ctx : Ctx) : ∀ (s : Stmt) (t : MaskTab), (stmtMask ctx s t).length = t.length := by
  intro s
  induction s with
  | skip => intro t; rfl
  | seq a b iha ihb => intro t; simp only [stmtMask]; rw [ihb, iha]
  | assign l r => intro t; exact lhsMask_length ctx l _ t
  | ite c p thn els ih1 ih2 => intro t; simp only [stmtMask]; rw [ih2, ih1]

theorem stmtMask_mono (ctx : Ctx) (i b : Nat) : ∀ (s : Stmt) (t : MaskTab),
    ibit (t.get i) b = true → ibit ((stmtMask ctx s t).get i) b = true := by
  intro s
  induction s with
  | skip => intro t h; exact h
  | seq a b' iha ihb => intro t h; exact ihb _ (iha _ h)
  | assign l r => intro t h; exact lhsMask_mono ctx i b l _ t h
  | ite c p thn els ih1 ih2 => intro t h; exact ih2 _ (ih1 _ h)

/-- every location a target in the statements can address is covered by the process's masks -/
theorem stmtMask_covers (ctx : Ctx) (cur : Env) (i b : Nat) : ∀ (s : Stmt) (t : MaskTab) (e : Expr) (k : Nat),
    e ∈ stmtTargets s → (∀ e ∈ stmtTargets s, e.twf ctx = true) → t.length = ctx.length →
    (lbits ctx cur e).getD k none = some (i, b) → ibit ((stmtMask ctx s t).get i) b = true := by
  intro s
  induction s with
  | skip => intro t e k h; simp [stmtTargets] at h
  | seq a b' iha ihb =>
    intro t e k h htw hlen hk
    simp only [stmtTargets, List.mem_append] at h htw
    simp only [stmtMask]
    rcases h with h | h
    · exact stmtMask_mono ctx i b b' _ (iha t e k h (fun x hx => htw x (Or.inl hx)) hlen hk)
    · exact ihb _ e k h (fun x hx => htw x (Or.inr hx)) (by rw [stmtMask_length]; exact hlen) hk
  | assign l r =>
    intro t e k h htw hlen hk
    simp only [stmtTargets, List.mem_singleton] at h htw
    subst h
    exact lhsMask_covers ctx cur i b e (htw e rfl) (-1) t k hlen hk (ibit_neg_one _)
  | ite c p thn els ih1 ih2 =>
    intro t e k h htw hlen hk
    simp only [stmtTargets, List.mem_append] at h htw
    simp only [stmtMask]
    rcases h with h | h
    · exact stmtMask_mono ctx i b els _ (ih1 t e k h (fun x hx => htw x (Or.inl hx)) hlen hk)
    · exact ih2 _ e k h (fun x hx => htw x (Or.inr hx)) (by rw [stmtMask_length]; exact hlen) hk

/-- a bit some active write addresses is a masked bit -/
theorem wbit_masked (ctx : Ctx) (cur : Env) (body : Stmt) (htw : ∀ e ∈ stmtTargets body, e.twf ctx = true)
    (t : MaskTab) (hlen : t.length = ctx.length) (i b : Nat) :
    ∀ (ws : List (Expr × Int)), (∀ w ∈ ws, w.1 ∈ stmtTargets body) → ∀ x, wbit ctx cur ws i b = some x →
    ibit ((stmtMask ctx body t).get i) b = true := by
  intro ws
  induction ws with
  | nil => intro _ x h; simp [wbit] at h
  | cons w ws ih =>
    intro hws x h
    obtain ⟨l, v⟩ := w
    simp only [wbit] at h
    cases hw : wbit ctx cur ws i b with
    | some y => exact ih (fun w hw' => hws w (List.mem_cons_of_mem _ hw')) y hw
    | none =>
      rw [hw] at h
      simp only at h
      cases hl : lastWrite (lbits ctx cur l) 0 i b with
      | none => rw [hl] at h; cases h
      | some k =>
        obtain ⟨_, _, h3⟩ := lastWrite_bound _ 0 i b k hl
        simp only [Nat.sub_zero] at h3
        exact stmtMask_covers ctx cur i b body t l k (hws (l, v) (List.mem_cons_self ..)) htw hlen h3

/-! ## The process -/

section
variable (ctx : Ctx) (cur : Env) (hok : EnvOk ctx cur)

include hok in
/-- **What a compiled process does.** The statements run on `start` (reading `cur`), the result is committed into
`acc` through the static masks. Afterwards every bit written by an active assignment holds the last value written to
it; every other masked bit holds its value in `start`; every unmasked bit is as it was in `acc`. -/
theorem process_bits (body : Stmt) (start acc : Env) (hS : EnvN ctx start) (hA : EnvN ctx acc)
    (htg : ∀ e ∈ stmtTargets body, e.twf ctx = true ∧ e.noAlias ctx cur) :
    EnvN ctx (commitInto ctx body (execRtl ctx cur body start) acc) ∧
    ∀ i b, i < ctx.length → b < (ctx.shape i).width →
      bitAt (commitInto ctx body (execRtl ctx cur body start) acc) i b =
        match wbit ctx cur (stmtWrites ctx cur body) i b with
        | some x => x
        | none =>
          if ibit ((stmtMask ctx body (List.replicate ctx.length 0)).get i) b then bitAt start i b else bitAt acc i b := by
  have htw : ∀ e ∈ stmtTargets body, e.twf ctx = true := fun e he => (htg e he).1
  have hws : ∀ w ∈ stmtWrites ctx cur body, w.1.twf ctx = true ∧ w.1.noAlias ctx cur :=
    fun w hw => htg _ (stmtWrites_targets ctx cur body w hw)
  rw [execRtl_eq_writes, (applyWritesRtl_eq_spec ctx cur hok _ hws start hS).1]
  obtain ⟨hN, hbits⟩ := applyWrites_bits ctx cur (stmtWrites ctx cur body) start hS (fun w hw => (hws w hw).1)
  set nxt := applyWrites ctx cur (stmtWrites ctx cur body) start with hnxt
  set tab := stmtMask ctx body (List.replicate ctx.length 0) with htab
  have hz : MaskOk ctx (List.replicate ctx.length 0) := by
    intro i; rw [replicate_get, Shape.contains_u]; exact ⟨Int.le_refl _, two_pow_pos' _⟩
  have htabok : MaskOk ctx tab := stmtMask_ok ctx body _ hz
  have hval : ∀ i, i < ctx.length → (commitInto ctx body nxt acc).val i =
      commitMask (ctx.shape i) (acc.val i) (nxt.val i) (tab.get i) := by
    intro i hi; unfold commitInto; simp only; rw [val_map_range _ _ _ hi]
  have hcm := fun i (hi : i < ctx.length) =>
    commitMask_bits (ctx.shape i) (hA.ok i hi).1 (acc.val i) (nxt.val i) (tab.get i) (hA.ok i hi).2 (hN.ok i hi).2 (htabok i)
  refine ⟨⟨by unfold commitInto; simp, fun i hi => ?_⟩, fun i b hi hb => ?_⟩
  · rw [hval i hi]; exact ⟨(hA.ok i hi).1, (hcm i hi).1⟩
  · unfold bitAt at *
    rw [hval i hi, (hcm i hi).2 b hb, hbits i b hi hb]
    cases hw : wbit ctx cur (stmtWrites ctx cur body) i b with
    | some x =>
      have hm := wbit_masked ctx cur body htw (List.replicate ctx.length 0) (by simp) i b _
        (stmtWrites_targets ctx cur body) x hw
      rw [← htab] at hm
      simp [hm]
    | none => simp

include hok in
/-- **A synchronous process changes the shared state by exactly its active writes**: started from the current
values, committed into a state that still agrees with them on the bits this process drives (no other process
drives them — C06), the result is the Spec's `applyWrites` of the active assignments on that state. -/
theorem sync_process_effect (body : Stmt) (acc : Env) (hC : EnvN ctx cur) (hA : EnvN ctx acc)
    (htg : ∀ e ∈ stmtTargets body, e.twf ctx = true ∧ e.noAlias ctx cur)
    (hown : ∀ i b, i < ctx.length → b < (ctx.shape i).width →
      ibit ((stmtMask ctx body (List.replicate ctx.length 0)).get i) b = true → bitAt acc i b = bitAt cur i b) :
    commitInto ctx body (execRtl ctx cur body cur) acc = applyWrites ctx cur (stmtWrites ctx cur body) acc := by
  obtain ⟨h1, h2⟩ := process_bits ctx cur hok body cur acc hC hA htg
  obtain ⟨h3, h4⟩ := applyWrites_bits ctx cur (stmtWrites ctx cur body) acc hA
    (fun w hw => (htg _ (stmtWrites_targets ctx cur body w hw)).1)
  apply env_ext h1 h3
  intro i b hi hb
  rw [h2 i b hi hb, h4 i b hi hb]
  cases wbit ctx cur (stmtWrites ctx cur body) i b with
  | some x => rfl
  | none =>
    simp only [Option.getD_none]
    split
    · rename_i hm; exact (hown i b hi hb hm).symm
    · rfl

include hok in
/-- **The active edge with the domain's reset asserted.** Every driven bit (masked bit) of a resettable signal the
process drives takes its initial value; reset-less signals behave as without reset (`process_bits`); unmasked bits
keep what the other processes left. -/
theorem sync_reset_bits (inits : Env) (hI : EnvN ctx inits) (rl : List Bool) (r : Int) (hr : (pyAnd 1 r != 0) = true)
    (body : Stmt) (acc : Env) (hC : EnvN ctx cur) (hA : EnvN ctx acc)
    (htg : ∀ e ∈ stmtTargets body, e.twf ctx = true ∧ e.noAlias ctx cur)
    (i b : Nat) (hi : i < ctx.length) (hb : b < (ctx.shape i).width) :
    bitAt (commitInto ctx body (syncNext ctx inits rl (some r) body cur) acc) i b =
      if (stmtSigs body).contains i && !(rl.getD i false) then
        (if ibit ((stmtMask ctx body (List.replicate ctx.length 0)).get i) b then bitAt inits i b else bitAt acc i b)
      else bitAt (commitInto ctx body (execRtl ctx cur body cur) acc) i b := by
  have hz : MaskOk ctx (List.replicate ctx.length 0) := by
    intro j; rw [replicate_get, Shape.contains_u]; exact ⟨Int.le_refl _, two_pow_pos' _⟩
  have htabok := stmtMask_ok ctx body _ hz
  have hval : ∀ nxt : Env, (commitInto ctx body nxt acc).val i =
      commitMask (ctx.shape i) (acc.val i) (nxt.val i) ((stmtMask ctx body (List.replicate ctx.length 0)).get i) := by
    intro nxt; unfold commitInto; simp only; rw [val_map_range _ _ _ hi]
  have hnext : (syncNext ctx inits rl (some r) body cur).val i =
      if (stmtSigs body).contains i && !(rl.getD i false) then inits.val i else (execRtl ctx cur body cur).val i := by
    unfold syncNext
    simp only [hr, if_true]
    exact val_map_range _ _ _ hi
  unfold bitAt
  rw [hval, hnext]
  by_cases hres : ((stmtSigs body).contains i && !(rl.getD i false)) = true
  · simp only [hres, if_true]
    exact (commitMask_bits (ctx.shape i) (hA.ok i hi).1 _ _ _ (hA.ok i hi).2 (hI.ok i hi).2 (htabok i)).2 b hb
  · simp only [hres, Bool.false_eq_true, if_false]
    rw [hval]

include hok in
/-- **A combinational process**: every bit it drives (masked bit) holds the last value an active assignment wrote to
it in this state, or — when no assignment is active for it — the bit's *initial* value (combinational signals have
no memory); bits it does not drive are as the other processes left them. -/
theorem comb_process_bits (inits : Env) (hI : EnvN ctx inits) (body : Stmt) (acc : Env) (hC : EnvN ctx cur)
    (hA : EnvN ctx acc) (htg : ∀ e ∈ stmtTargets body, e.twf ctx = true ∧ e.noAlias ctx cur)
    (i b : Nat) (hi : i < ctx.length) (hb : b < (ctx.shape i).width) :
    bitAt (commitInto ctx body (combNext ctx inits body cur) acc) i b =
      match wbit ctx cur (stmtWrites ctx cur body) i b with
      | some x => x
      | none =>
        if ibit ((stmtMask ctx body (List.replicate ctx.length 0)).get i) b then bitAt inits i b else bitAt acc i b := by
  unfold combNext
  simp only
  set start : Env := (List.range ctx.length).map fun j =>
    if (stmtSigs body).contains j then inits.val j else cur.val j with hstart
  have hS : EnvN ctx start := by
    refine ⟨by simp [hstart], fun j hj => ?_⟩
    rw [hstart, val_map_range _ _ _ hj]
    split
    · exact hI.ok j hj
    · exact hC.ok j hj
  rw [(process_bits ctx cur hok body start acc hS hA htg).2 i b hi hb]
  cases wbit ctx cur (stmtWrites ctx cur body) i b with
  | some x => rfl
  | none =>
    simp only
    by_cases hm : ibit ((stmtMask ctx body (List.replicate ctx.length 0)).get i) b = true
    · simp only [hm, if_true]
      have hin : (stmtSigs body).contains i = true := by
        cases hc : (stmtSigs body).contains i with
        | true => rfl
        | false =>
          exfalso
          have hni : i ∉ stmtSigs body := by
            intro hmem; rw [List.contains_iff_mem.mpr hmem] at hc; cases hc
          rw [stmtMask_untouched ctx i body _ hni, replicate_get, ibit_zero'] at hm
          cases hm
      unfold bitAt
      rw [hstart, val_map_range _ _ _ hi, hin]; rfl
    · simp [hm]

end

end Amaranth
