import AmaranthVerif.Proofs.EngineBits

/-!
# One delta cycle is independent of the iteration orders

* `runProcs_eq_parallel`: a process reads `curr` (which no process writes) and its own `Local` (which
  no other process writes), so running the processes one after the other is the same as computing all
  effects in the state at the start of the phase and then applying them one after the other.
* applying the effects of two different processes commutes when their update lists are compatible.
* committing two different slots commutes when the wakers of every owner commute.
-/

namespace Amaranth.Engine
open Amaranth

/-! ## Frames -/

@[simp] theorem applyEffect_curr (s : EState) (p : Nat) (e : Option Effect) : (applyEffect s p e).curr = s.curr := by
  cases e <;> rfl

@[simp] theorem applyEffect_now (s : EState) (p : Nat) (e : Option Effect) : (applyEffect s p e).now = s.now := by
  cases e <;> rfl

theorem applyEffect_locals_ne (s : EState) (p q : Nat) (e : Option Effect) (h : p ≠ q) :
    (applyEffect s p e).locals[q]? = s.locals[q]? := by
  cases e with
  | none => rfl
  | some e => exact List.getElem?_set_ne h

/-- what a process does depends on `curr` and on its own local state only -/
theorem effectOf_congr (ps : List ProcDef) (s z : EState) (p : Nat)
    (hc : z.curr = s.curr) (hl : z.locals[p]? = s.locals[p]?) : effectOf ps z p = effectOf ps s p := by
  unfold effectOf
  rw [hc, hl]

/-- the updates process `p` performs when it is run in state `s` (none if it is not runnable) -/
def updatesOf (ps : List ProcDef) (s : EState) (p : Nat) : List Update :=
  match effectOf ps s p with
  | some e => e.updates
  | none => []

/-- in state `s`, the processes that are runnable write compatible updates -/
def CompatAt (ps : List ProcDef) (s : EState) : Prop :=
  ∀ p q, p ≠ q → ∀ u ∈ updatesOf ps s p, ∀ v ∈ updatesOf ps s q, Compat u v

/-- in state `s`, no two runnable processes write the same bit of the same signal -/
def DisjointWritesAt (ps : List ProcDef) (s : EState) : Prop :=
  ∀ p q, p ≠ q → ∀ u ∈ updatesOf ps s p, ∀ v ∈ updatesOf ps s q, Disjoint u v

theorem DisjointWritesAt.compatAt {ps : List ProcDef} {s : EState} (h : DisjointWritesAt ps s) : CompatAt ps s :=
  fun p q hpq u hu v hv => (h p q hpq u hu v hv).compat

/-- running the processes sequentially = applying the effects computed in the starting state -/
theorem runProcs_eq_parallel (ps : List ProcDef) (s : EState) (order : List Nat) (hn : order.Nodup) :
    runProcs ps order s = order.foldl (fun z p => applyEffect z p (effectOf ps s p)) s := by
  unfold runProcs
  suffices h : ∀ (z : EState), z.curr = s.curr → (∀ p ∈ order, z.locals[p]? = s.locals[p]?) →
      order.foldl (stepProc ps) z = order.foldl (fun z p => applyEffect z p (effectOf ps s p)) z from
    h s rfl (fun _ _ => rfl)
  induction order with
  | nil => intro z _ _; rfl
  | cons p rest ih =>
    intro z hc hl
    rw [List.nodup_cons] at hn
    simp only [List.foldl_cons]
    have e : stepProc ps z p = applyEffect z p (effectOf ps s p) := by
      unfold stepProc
      rw [effectOf_congr ps s z p hc (hl p (List.mem_cons_self ..))]
    rw [e]
    apply ih hn.2
    · simp [hc]
    · intro q hq
      have hpq : p ≠ q := fun h => hn.1 (h ▸ hq)
      rw [applyEffect_locals_ne _ _ _ _ hpq]
      exact hl q (List.mem_cons_of_mem _ hq)

theorem applyEffect_comm (z : EState) (p q : Nat) (ep eq : Option Effect) (hpq : p ≠ q)
    (hc : ∀ a, ep = some a → ∀ b, eq = some b → ∀ u ∈ a.updates, ∀ v ∈ b.updates, Compat u v) :
    applyEffect (applyEffect z p ep) q eq = applyEffect (applyEffect z q eq) p ep := by
  cases ep with
  | none => rfl
  | some a =>
    cases eq with
    | none => rfl
    | some b =>
      simp only [applyEffect]
      have hn : applyAll (applyAll z.next a.updates) b.updates = applyAll (applyAll z.next b.updates) a.updates :=
        applyAll_comm b.updates a.updates z.next (fun v hv u hu => (hc a rfl b rfl u hu v hv).symm)
      have hl : (z.locals.set p a.loc).set q b.loc = (z.locals.set q b.loc).set p a.loc :=
        List.set_comm _ _ hpq
      rw [hn, hl]
      congr 1
      cases a.timer <;> cases b.timer <;> simp only
      exact List.set_comm _ _ hpq

/-- the process phase of a delta does not depend on the order in which the processes are run -/
theorem runProcs_perm (ps : List ProcDef) (s : EState) (o₁ o₂ : List Nat)
    (hc : CompatAt ps s) (hn : o₁.Nodup) (hp : o₁.Perm o₂) :
    runProcs ps o₁ s = runProcs ps o₂ s := by
  rw [runProcs_eq_parallel ps s o₁ hn, runProcs_eq_parallel ps s o₂ (hp.nodup_iff.mp hn)]
  apply List.Perm.foldl_eq' hp
  intro p _ q _ z
  by_cases hpq : p = q
  · subst hpq; rfl
  · apply applyEffect_comm z p q _ _ hpq
    intro a ha b hb u hu v hv
    apply hc p q hpq u _ v _
    · simp only [updatesOf, ha]; exact hu
    · simp only [updatesOf, hb]; exact hv

/-! ## Commit -/

/-- the wakers of one owner on two different slots commute (they set flags) -/
def WakeComm (ps : List ProcDef) : Prop :=
  ∀ d ∈ ps, ∀ (l : Local) (i j : Nat) (oi ni oj nj : Int), i ≠ j →
    d.wake (d.wake l i oi ni) j oj nj = d.wake (d.wake l j oj nj) i oi ni

theorem zipWith_wake_comm (ps : List ProcDef) (hw : WakeComm ps) (ls : List Local) (i j : Nat) (oi ni oj nj : Int)
    (hij : i ≠ j) :
    List.zipWith (fun d l => d.wake l j oj nj) ps (List.zipWith (fun d l => d.wake l i oi ni) ps ls) =
    List.zipWith (fun d l => d.wake l i oi ni) ps (List.zipWith (fun d l => d.wake l j oj nj) ps ls) := by
  induction ps generalizing ls with
  | nil => rfl
  | cons d ps ih =>
    cases ls with
    | nil => rfl
    | cons l ls =>
      simp only [List.zipWith_cons_cons]
      rw [hw d (List.mem_cons_self ..) l i j oi ni oj nj hij]
      rw [ih (fun d' hd' => hw d' (List.mem_cons_of_mem _ hd')) ls]

theorem val_set_ne (e : Env) (i j : Nat) (v : Int) (h : i ≠ j) : Env.val (e.set i v) j = Env.val e j := by
  have e1 : (List.set (e : List Int) i v)[j]? = (e : List Int)[j]? := List.getElem?_set_ne h
  show (List.set (e : List Int) i v).getD j 0 = (e : List Int).getD j 0
  rw [List.getD_eq_getElem?_getD, List.getD_eq_getElem?_getD, e1]

theorem commitSlot_of_eq (ps : List ProcDef) (z : EState) (i : Nat) (h : z.curr.val i = z.next.val i) :
    commitSlot ps z i = z := by
  unfold commitSlot; simp [h]

theorem commitSlot_of_ne (ps : List ProcDef) (z : EState) (i : Nat) (h : z.curr.val i ≠ z.next.val i) :
    commitSlot ps z i = { z with curr := z.curr.set i (z.next.val i),
                                 locals := List.zipWith (fun d l => d.wake l i (z.curr.val i) (z.next.val i)) ps z.locals } := by
  unfold commitSlot; simp [h]

@[simp] theorem commitSlot_next (ps : List ProcDef) (z : EState) (i : Nat) : (commitSlot ps z i).next = z.next := by
  unfold commitSlot; simp only; split <;> rfl

theorem commitSlot_curr_ne (ps : List ProcDef) (z : EState) (i j : Nat) (h : i ≠ j) :
    (commitSlot ps z i).curr.val j = z.curr.val j := by
  unfold commitSlot; simp only; split
  · rfl
  · exact val_set_ne _ _ _ _ h

theorem commitSlot_comm (ps : List ProcDef) (hw : WakeComm ps) (z : EState) (i j : Nat) :
    commitSlot ps (commitSlot ps z i) j = commitSlot ps (commitSlot ps z j) i := by
  by_cases hij : i = j
  · subst hij; rfl
  · have hji : j ≠ i := fun h => hij h.symm
    by_cases hi : z.curr.val i = z.next.val i
    · rw [commitSlot_of_eq ps z i hi]
      rw [commitSlot_of_eq ps (commitSlot ps z j) i (by rw [commitSlot_curr_ne _ _ _ _ hji, commitSlot_next]; exact hi)]
    · by_cases hj : z.curr.val j = z.next.val j
      · rw [commitSlot_of_eq ps z j hj]
        rw [commitSlot_of_eq ps (commitSlot ps z i) j (by rw [commitSlot_curr_ne _ _ _ _ hij, commitSlot_next]; exact hj)]
      · have hj' : (commitSlot ps z i).curr.val j ≠ (commitSlot ps z i).next.val j := by
          rw [commitSlot_curr_ne _ _ _ _ hij, commitSlot_next]; exact hj
        have hi' : (commitSlot ps z j).curr.val i ≠ (commitSlot ps z j).next.val i := by
          rw [commitSlot_curr_ne _ _ _ _ hji, commitSlot_next]; exact hi
        rw [commitSlot_of_ne ps _ j hj', commitSlot_of_ne ps _ i hi']
        rw [commitSlot_curr_ne _ _ _ _ hij, commitSlot_curr_ne _ _ _ _ hji]
        simp only [commitSlot_next]
        rw [commitSlot_of_ne ps z i hi, commitSlot_of_ne ps z j hj]
        simp only
        congr 1
        · exact List.set_comm _ _ hij
        · exact zipWith_wake_comm ps hw z.locals i j _ _ _ _ hij

/-- the pending set may be committed in any order -/
theorem commit_perm (ps : List ProcDef) (hw : WakeComm ps) (s : EState) (o₁ o₂ : List Nat) (hp : o₁.Perm o₂) :
    commit ps o₁ s = commit ps o₂ s := by
  unfold commit
  exact List.Perm.foldl_eq' hp (fun i _ j _ z => commitSlot_comm ps hw z i j) s

theorem anyChange_perm (s : EState) (o₁ o₂ : List Nat) (hp : o₁.Perm o₂) : anyChange o₁ s = anyChange o₂ s :=
  hp.any_eq

/-! ## The delta -/

/-- two pairs of orders are permutations of each other -/
def Orders.Equiv (a b : Orders) : Prop := a.procs.Perm b.procs ∧ a.slots.Perm b.slots

theorem delta_perm_at (ps : List ProcDef) (hw : WakeComm ps) (s : EState) (a b : Orders)
    (hc : CompatAt ps (trigPhase ps s)) (hn : a.procs.Nodup) (h : a.Equiv b) :
    delta ps a s = delta ps b s := by
  unfold delta
  simp only
  rw [runProcs_perm ps (trigPhase ps s) a.procs b.procs hc hn h.1]
  rw [commit_perm ps hw _ a.slots b.slots h.2, anyChange_perm _ a.slots b.slots h.2]

end Amaranth.Engine
