import AmaranthVerif.Proofs.ProcessSpec
import AmaranthVerif.Proofs.DomainLemmas

/-!
# The reset assignments of `ResetInserter`, bit by bit

`ResetInserter` appends, per non-reset-less signal the statements drive, `sig[chunk] := init[chunk]` for every
contiguous run of driven bits (`LHSMaskCollector.chunks`). `maskChunks_spec`: the runs cover exactly the set bits of
the mask. `resetStmts_bits`: executing the reset assignments loads the initial value into exactly the driven bits
of the resettable signals and leaves every other bit of every signal as it was.
-/

namespace Amaranth

/-- bit `b` lies in one of the chunks -/
def covered (cs : List (Nat × Nat)) (b : Nat) : Prop := ∃ c ∈ cs, c.1 ≤ b ∧ b < c.2

/-- the same, decidably -/
def covB (cs : List (Nat × Nat)) (b : Nat) : Bool := cs.any fun c => decide (c.1 ≤ b) && decide (b < c.2)

theorem covB_iff (cs : List (Nat × Nat)) (b : Nat) : covB cs b = true ↔ covered cs b := by
  unfold covB covered
  simp [List.any_eq_true]

theorem covered_append (xs ys : List (Nat × Nat)) (b : Nat) : covered (xs ++ ys) b ↔ covered xs b ∨ covered ys b := by
  unfold covered
  constructor
  · rintro ⟨c, hc, h⟩
    rcases List.mem_append.mp hc with h1 | h1
    · exact Or.inl ⟨c, h1, h⟩
    · exact Or.inr ⟨c, h1, h⟩
  · rintro (⟨c, hc, h⟩ | ⟨c, hc, h⟩)
    · exact ⟨c, List.mem_append.mpr (Or.inl hc), h⟩
    · exact ⟨c, List.mem_append.mpr (Or.inr hc), h⟩

theorem covered_single (s e b : Nat) : covered [(s, e)] b ↔ s ≤ b ∧ b < e := by
  unfold covered; simp

theorem bit_test (m : Int) (k : Nat) : (pyAnd (pyShr m k) 1 != 0) = ibit m k := by
  have h1 : ibit (pyAnd (pyShr m k) 1) 0 = ibit m k := by
    rw [ibit_pyAnd, ibit_pyShr, Nat.zero_add]
    have : ibit (1 : Int) 0 = true := by decide
    rw [this, Bool.and_true]
  have hr : (Shape.mk 1 false).contains (pyAnd (pyShr m k) 1) := by
    apply contains_u_of_bits
    intro b hb
    rw [ibit_pyAnd]
    have : ibit (1 : Int) b = false := by
      have e : (1 : Int) = 2 ^ 0 := by simp
      rw [e, ibit_two_pow]; simp; omega
    rw [this, Bool.and_false]
  rw [Shape.contains_u] at hr
  by_cases hz : pyAnd (pyShr m k) 1 = 0
  · rw [hz] at h1; rw [← h1, hz]; simp [ibit_zero']
  · have : pyAnd (pyShr m k) 1 = 1 := by omega
    rw [this] at h1
    rw [← h1, this]; decide

/-- the loop of `maskChunks`: what is covered at the end -/
theorem maskChunks_go (m : Int) (w : Nat) : ∀ (fuel start : Nat) (rs : Option Nat) (acc : List (Nat × Nat)),
    start + fuel = w → (∀ s0, rs = some s0 → s0 ≤ start) → ∀ b,
    covered (maskChunks.go m fuel start rs acc) b ↔
      covered acc b ∨ (∃ s0, rs = some s0 ∧ s0 ≤ b ∧ b < start) ∨ (start ≤ b ∧ b < w ∧ ibit m b = true) := by
  intro fuel
  induction fuel with
  | zero =>
    intro start rs acc h _ b
    simp only [maskChunks.go]
    cases rs with
    | none => simp; omega
    | some s0 =>
      simp only [covered_append, covered_single]
      constructor
      · rintro (h1 | h1)
        · exact Or.inl h1
        · exact Or.inr (Or.inl ⟨s0, rfl, h1⟩)
      · rintro (h1 | ⟨s, hs, h1⟩ | h1)
        · exact Or.inl h1
        · simp only [Option.some.injEq] at hs; subst hs; exact Or.inr h1
        · omega
  | succ fuel ih =>
    intro start rs acc h hrs b
    simp only [maskChunks.go, bit_test]
    have hb1 : ∀ x : Nat, (start ≤ x ∧ x < w ∧ ibit m x = true) ↔
        ((x = start ∧ ibit m start = true) ∨ (start + 1 ≤ x ∧ x < w ∧ ibit m x = true)) := by
      intro x
      constructor
      · rintro ⟨h1, h2, h3⟩
        by_cases hx : x = start
        · subst hx; exact Or.inl ⟨rfl, h3⟩
        · exact Or.inr ⟨by omega, h2, h3⟩
      · rintro (⟨rfl, h3⟩ | ⟨h1, h2, h3⟩)
        · exact ⟨Nat.le_refl _, by omega, h3⟩
        · exact ⟨by omega, h2, h3⟩
    cases rs with
    | none =>
      cases hbit : ibit m start with
      | true =>
        simp only
        rw [ih (start + 1) (some start) acc (by omega) (by intro s0 hs; cases hs; omega) b, hb1 b, hbit]
        constructor
        · rintro (h1 | ⟨s0, hs, h2, h3⟩ | h1)
          · exact Or.inl h1
          · simp only [Option.some.injEq] at hs; subst hs
            exact Or.inr (Or.inr (Or.inl ⟨by omega, rfl⟩))
          · exact Or.inr (Or.inr (Or.inr h1))
        · rintro (h1 | ⟨s0, hs, _⟩ | ⟨rfl, _⟩ | h1)
          · exact Or.inl h1
          · cases hs
          · exact Or.inr (Or.inl ⟨b, rfl, Nat.le_refl _, by omega⟩)
          · exact Or.inr (Or.inr h1)
      | false =>
        simp only
        rw [ih (start + 1) none acc (by omega) (by intro s0 hs; cases hs) b, hb1 b, hbit]
        simp
    | some s =>
      cases hbit : ibit m start with
      | true =>
        simp only
        rw [ih (start + 1) (some s) acc (by omega) (by intro s0 hs; cases hs; have := hrs s rfl; omega) b, hb1 b, hbit]
        constructor
        · rintro (h1 | ⟨s0, hs, h2, h3⟩ | h1)
          · exact Or.inl h1
          · simp only [Option.some.injEq] at hs
            by_cases hx : b = start
            · exact Or.inr (Or.inr (Or.inl ⟨hx, rfl⟩))
            · exact Or.inr (Or.inl ⟨s0, by rw [hs], h2, by omega⟩)
          · exact Or.inr (Or.inr (Or.inr h1))
        · rintro (h1 | ⟨s0, hs, h2, h3⟩ | ⟨rfl, _⟩ | h1)
          · exact Or.inl h1
          · exact Or.inr (Or.inl ⟨s0, hs, h2, by omega⟩)
          · exact Or.inr (Or.inl ⟨s, rfl, hrs s rfl, by omega⟩)
          · exact Or.inr (Or.inr h1)
      | false =>
        simp only
        rw [ih (start + 1) none (acc ++ [(s, start)]) (by omega) (by intro s0 hs; cases hs) b, hb1 b, hbit, covered_append, covered_single]
        constructor
        · rintro ((h1 | h1) | ⟨s0, hs, _⟩ | h1)
          · exact Or.inl h1
          · exact Or.inr (Or.inl ⟨s, rfl, h1⟩)
          · cases hs
          · exact Or.inr (Or.inr (Or.inr h1))
        · rintro (h1 | ⟨s0, hs, h2, h3⟩ | ⟨_, hf⟩ | h1)
          · exact Or.inl (Or.inl h1)
          · simp only [Option.some.injEq] at hs; subst hs; exact Or.inl (Or.inr ⟨h2, h3⟩)
          · cases hf
          · exact Or.inr (Or.inr h1)

/-- `LHSMaskCollector.chunks`: the runs cover exactly the set bits of the mask below the width -/
theorem maskChunks_spec (m : Int) (w b : Nat) : covered (maskChunks m w) b ↔ b < w ∧ ibit m b = true := by
  unfold maskChunks
  rw [maskChunks_go m w w 0 none [] (by omega) (by intro s0 hs; cases hs) b]
  unfold covered
  simp

/-- every run is a non-empty interval below the width -/
theorem maskChunks_go_bounds (m : Int) (w : Nat) : ∀ (fuel start : Nat) (rs : Option Nat) (acc : List (Nat × Nat)),
    start + fuel = w → (∀ s0, rs = some s0 → s0 < start) → (∀ c ∈ acc, c.1 < c.2 ∧ c.2 ≤ w) →
    ∀ c ∈ maskChunks.go m fuel start rs acc, c.1 < c.2 ∧ c.2 ≤ w := by
  intro fuel
  induction fuel with
  | zero =>
    intro start rs acc h hrs hacc c hc
    simp only [maskChunks.go] at hc
    cases rs with
    | none => exact hacc c hc
    | some s0 =>
      rcases List.mem_append.mp hc with h1 | h1
      · exact hacc c h1
      · simp only [List.mem_singleton] at h1; subst h1
        have := hrs s0 rfl
        exact ⟨this, by omega⟩
  | succ fuel ih =>
    intro start rs acc h hrs hacc c hc
    simp only [maskChunks.go] at hc
    cases rs with
    | none =>
      cases hbit : (pyAnd (pyShr m start) 1 != 0) with
      | true =>
        rw [hbit] at hc
        exact ih (start + 1) (some start) acc (by omega) (by intro s0 hs; cases hs; omega) hacc c hc
      | false =>
        rw [hbit] at hc
        exact ih (start + 1) none acc (by omega) (by intro s0 hs; cases hs) hacc c hc
    | some s =>
      have hs := hrs s rfl
      cases hbit : (pyAnd (pyShr m start) 1 != 0) with
      | true =>
        rw [hbit] at hc
        exact ih (start + 1) (some s) acc (by omega) (by intro s0 h0; cases h0; omega) hacc c hc
      | false =>
        rw [hbit] at hc
        refine ih (start + 1) none (acc ++ [(s, start)]) (by omega) (by intro s0 h0; cases h0) ?_ c hc
        intro c' hc'
        rcases List.mem_append.mp hc' with h1 | h1
        · exact hacc c' h1
        · simp only [List.mem_singleton] at h1; subst h1; exact ⟨hs, by omega⟩

theorem maskChunks_bounds (m : Int) (w : Nat) : ∀ c ∈ maskChunks m w, c.1 < c.2 ∧ c.2 ≤ w := by
  unfold maskChunks
  exact maskChunks_go_bounds m w w 0 none [] (by omega) (by intro s0 hs; cases hs) (by intro c hc; cases hc)

/-! ## Executing the reset assignments -/

section
variable (ctx : Ctx) (cur : Env) (hok : EnvOk ctx cur)

/-- where the last write of a window of one signal lands -/
theorem lastWrite_sig_slice (j lo hi i b : Nat) (hb : b < (ctx.shape i).width) :
    lastWrite (lbits ctx cur (.slice (.sig j) lo hi)) 0 i b =
      if i = j ∧ lo ≤ b ∧ b < lo + (hi - lo) then some (b - lo) else none := by
  show lastWrite (((lbits ctx cur (.sig j)).drop lo).take (hi - lo)) 0 i b = _
  rw [lastWrite_window (sig_lbits_nodup ctx cur j)]
  by_cases hij : i = j
  · subst hij
    rw [lastWrite_of_getD (sig_lbits_nodup ctx cur i) (sig_lbits_getD ctx cur i b hb)]
    simp
  · have : lastWrite (lbits ctx cur (.sig j)) 0 i b = none := by
      rw [lastWrite_none_iff]
      simp only [lbits, List.mem_map, List.mem_range, Option.some.injEq, Prod.mk.injEq, not_exists, not_and]
      intro x _ hx; exact fun _ => hij hx.symm
    rw [this]; simp [hij]

include hok in
/-- one reset assignment `sig[lo:hi] := init[lo:hi]` -/
theorem chunk_assign_bits (j lo hi : Nat) (hj : j < ctx.length) (hlo : lo ≤ hi) (hhi : hi ≤ (ctx.shape j).width)
    (v : Int) (hv : (ctx.shape j).contains v) (nxt : Env) (hE : EnvN ctx nxt) :
    EnvN ctx (execRtl ctx cur (.assign (.slice (.sig j) lo hi) (.slice (.const v (ctx.shape j)) lo hi)) nxt) ∧
    ∀ i b, i < ctx.length → b < (ctx.shape i).width →
      bitAt (execRtl ctx cur (.assign (.slice (.sig j) lo hi) (.slice (.const v (ctx.shape j)) lo hi)) nxt) i b =
        if i = j ∧ lo ≤ b ∧ b < hi then ibit v b else bitAt nxt i b := by
  have htw : (Expr.slice (.sig j) lo hi).twf ctx = true := by
    simp [Expr.twf, hj, hlo, widthOf, shapeOf, hhi]
  have hna : (Expr.slice (.sig j) lo hi).noAlias ctx cur := ⟨sig_lbits_nodup ctx cur j, trivial⟩
  simp only [execRtl]
  obtain ⟨h1, h2⟩ := assign_rtl_bits ctx cur hok _ htw hna
    (rtlValue ctx cur (.slice (.const v (ctx.shape j)) lo hi)) nxt hE
  refine ⟨h1, fun i b hi' hb => ?_⟩
  rw [h2 i b hi' hb, lastWrite_sig_slice ctx cur j lo hi i b hb]
  by_cases hc : i = j ∧ lo ≤ b ∧ b < lo + (hi - lo)
  · have hc' : i = j ∧ lo ≤ b ∧ b < hi := ⟨hc.1, hc.2.1, by omega⟩
    simp only [hc, hc', and_self, if_true]
    unfold rtlValue
    simp only [shapeOf, evalRtl, evalRtlG]
    rw [ibit_norm_lt _ _ _ (by show b - lo < hi - lo; omega), ibit_mask, ibit_pyShr]
    have : b - lo < hi - lo := by omega
    simp only [this, decide_true, Bool.true_and]
    congr 1; omega
  · have hc' : ¬ (i = j ∧ lo ≤ b ∧ b < hi) := by intro h; exact hc ⟨h.1, h.2.1, by omega⟩
    simp only [hc, hc', if_false]

include hok in
/-- a run of chunk assignments on one signal -/
theorem chunks_bits (j : Nat) (hj : j < ctx.length) (v : Int) (hv : (ctx.shape j).contains v) :
    ∀ (cs : List (Nat × Nat)) (tail : Stmt) (nxt : Env), EnvN ctx nxt →
    (∀ c ∈ cs, c.1 < c.2 ∧ c.2 ≤ (ctx.shape j).width) →
    ∃ mid, EnvN ctx mid ∧
      execRtl ctx cur (cs.foldr (fun (ch : Nat × Nat) acc' =>
        Stmt.seq (.assign (.slice (.sig j) ch.1 ch.2) (.slice (.const v (ctx.shape j)) ch.1 ch.2)) acc') tail) nxt =
        execRtl ctx cur tail mid ∧
      ∀ i b, i < ctx.length → b < (ctx.shape i).width →
        bitAt mid i b = if i = j ∧ covB cs b = true then ibit v b else bitAt nxt i b := by
  intro cs
  induction cs with
  | nil =>
    intro tail nxt hE _
    exact ⟨nxt, hE, rfl, fun i b _ _ => by simp [covB]⟩
  | cons c cs ih =>
    intro tail nxt hE hb
    have hc := hb c (List.mem_cons_self ..)
    obtain ⟨h1, h2⟩ := chunk_assign_bits ctx cur hok j c.1 c.2 hj (by omega) hc.2 v hv nxt hE
    obtain ⟨mid, hm1, hm2, hm3⟩ := ih tail _ h1 (fun x hx => hb x (List.mem_cons_of_mem _ hx))
    refine ⟨mid, hm1, ?_, ?_⟩
    · simp only [List.foldr_cons, execRtl] at hm2 ⊢
      exact hm2
    · intro i b hi hbw
      rw [hm3 i b hi hbw, h2 i b hi hbw]
      by_cases hij : i = j
      · subst hij
        have hcov : covB (c :: cs) b = (decide (c.1 ≤ b) && decide (b < c.2) || covB cs b) := by
          simp [covB]
        rw [hcov]
        by_cases h3 : covB cs b = true
        · simp [h3]
        · have h3' : covB cs b = false := by simpa using h3
          by_cases h4 : c.1 ≤ b ∧ b < c.2
          · simp [h3', h4]
          · have : (decide (c.1 ≤ b) && decide (b < c.2)) = false := by
              simp only [Bool.and_eq_false_iff, decide_eq_false_iff_not]; omega
            simp [h3', this, h4]
      · simp [hij]

include hok in
/-- the whole-signal reset assignment `sig := init` -/
theorem sig_assign_bits (j : Nat) (hj : j < ctx.length) (v : Int) (hv : (ctx.shape j).contains v) (nxt : Env)
    (hE : EnvN ctx nxt) :
    EnvN ctx (execRtl ctx cur (.assign (.sig j) (.const v (ctx.shape j))) nxt) ∧
    ∀ i b, i < ctx.length → b < (ctx.shape i).width →
      bitAt (execRtl ctx cur (.assign (.sig j) (.const v (ctx.shape j))) nxt) i b =
        if i = j then ibit v b else bitAt nxt i b := by
  have htw : (Expr.sig j).twf ctx = true := by simp [Expr.twf, hj]
  simp only [execRtl]
  obtain ⟨h1, h2⟩ := assign_rtl_bits ctx cur hok _ htw trivial (rtlValue ctx cur (.const v (ctx.shape j))) nxt hE
  refine ⟨h1, fun i b hi hb => ?_⟩
  rw [h2 i b hi hb]
  by_cases hij : i = j
  · subst hij
    rw [lastWrite_of_getD (sig_lbits_nodup ctx cur i) (sig_lbits_getD ctx cur i b hb)]
    simp only [if_true]
    unfold rtlValue
    simp only [shapeOf, evalRtl, evalRtlG]
    rw [ibit_norm_lt _ _ _ hb]
  · have : lastWrite (lbits ctx cur (.sig j)) 0 i b = none := by
      rw [lastWrite_none_iff]
      simp only [lbits, List.mem_map, List.mem_range, Option.some.injEq, Prod.mk.injEq, not_exists, not_and]
      intro x _ hx; exact fun _ => hij hx.symm
    rw [this]; simp [hij]

/-- the reset statements built over a list of signals, followed by `tail` -/
def resetFrom (inits : Env) (resetLess : List Bool) (tab : MaskTab) (sigs : List Nat) (tail : Stmt) : Stmt :=
  sigs.foldr (fun i acc =>
    if resetLess.getD i false then acc
    else
      let s := ctx.shape i
      let m := tab.get i
      let full : Int := pyShl 1 s.width - 1
      let c : Expr := .const (inits.val i) s
      if m == full then Stmt.seq (.assign (.sig i) c) acc
      else (maskChunks m s.width).foldr (fun (ch : Nat × Nat) acc' =>
        Stmt.seq (.assign (.slice (.sig i) ch.1 ch.2) (.slice c ch.1 ch.2)) acc') acc) tail

theorem resetStmts_eq (inits : Env) (resetLess : List Bool) (body : Stmt) :
    resetStmts ctx inits resetLess body =
      resetFrom ctx inits resetLess (stmtMask ctx body (List.replicate ctx.length 0)) (stmtSigs body).eraseDups .skip := rfl

include hok in
theorem resetFrom_bits (inits : Env) (hI : EnvN ctx inits) (resetLess : List Bool) (tab : MaskTab) (htab : MaskOk ctx tab) :
    ∀ (sigs : List Nat) (tail : Stmt) (nxt : Env), EnvN ctx nxt → (∀ i ∈ sigs, i < ctx.length) →
    ∃ mid, EnvN ctx mid ∧
      execRtl ctx cur (resetFrom ctx inits resetLess tab sigs tail) nxt = execRtl ctx cur tail mid ∧
      ∀ i b, i < ctx.length → b < (ctx.shape i).width →
        bitAt mid i b =
          if sigs.contains i && !(resetLess.getD i false) && ibit (tab.get i) b then bitAt inits i b else bitAt nxt i b := by
  intro sigs
  induction sigs with
  | nil => intro tail nxt hE _; exact ⟨nxt, hE, rfl, fun i b _ _ => by simp⟩
  | cons j sigs ih =>
    intro tail nxt hE hs
    have hj := hs j (List.mem_cons_self ..)
    have hrest : ∀ i ∈ sigs, i < ctx.length := fun i hi => hs i (List.mem_cons_of_mem _ hi)
    have hv := (hI.ok j hj).2
    -- the block of signal `j`, then the rest (which is the `tail` of the block)
    have hunf : ∀ tl, resetFrom ctx inits resetLess tab (j :: sigs) tl =
        (if resetLess.getD j false then resetFrom ctx inits resetLess tab sigs tl
         else if tab.get j == pyShl 1 (ctx.shape j).width - 1 then
           Stmt.seq (.assign (.sig j) (.const (inits.val j) (ctx.shape j))) (resetFrom ctx inits resetLess tab sigs tl)
         else (maskChunks (tab.get j) (ctx.shape j).width).foldr (fun (ch : Nat × Nat) acc' =>
           Stmt.seq (.assign (.slice (.sig j) ch.1 ch.2) (.slice (.const (inits.val j) (ctx.shape j)) ch.1 ch.2)) acc')
           (resetFrom ctx inits resetLess tab sigs tl)) := fun tl => rfl
    have hstep : ∃ E', EnvN ctx E' ∧
        execRtl ctx cur (resetFrom ctx inits resetLess tab (j :: sigs) tail) nxt =
          execRtl ctx cur (resetFrom ctx inits resetLess tab sigs tail) E' ∧
        ∀ i b, i < ctx.length → b < (ctx.shape i).width →
          bitAt E' i b = if decide (i = j) && !(resetLess.getD j false) && ibit (tab.get j) b then bitAt inits j b
                         else bitAt nxt i b := by
      rw [hunf]
      cases hrl : resetLess.getD j false with
      | true =>
        refine ⟨nxt, hE, by simp only [if_true], fun i b _ _ => ?_⟩
        simp only [Bool.not_true, Bool.and_false, Bool.false_and, Bool.false_eq_true, if_false]
      | false =>
        simp only [Bool.false_eq_true, if_false, Bool.not_false, Bool.and_true]
        cases hfull : (tab.get j == pyShl 1 (ctx.shape j).width - 1) with
        | true =>
          obtain ⟨h1, h2⟩ := sig_assign_bits ctx cur hok j hj (inits.val j) hv nxt hE
          refine ⟨_, h1, by simp only [if_true, execRtl], ?_⟩
          intro i b hi hb
          rw [h2 i b hi hb]
          by_cases hij : i = j
          · subst hij
            have hm : ibit (tab.get i) b = true := by
              rw [beq_iff_eq.mp hfull, ibit_ones]; simp [hb]
            simp only [if_true, decide_true, Bool.true_and, hm, bitAt]
          · simp only [hij, if_false, decide_false, Bool.false_and, Bool.false_eq_true]
        | false =>
          obtain ⟨mid, hm1, hm2, hm3⟩ := chunks_bits ctx cur hok j hj (inits.val j) hv
            (maskChunks (tab.get j) (ctx.shape j).width) (resetFrom ctx inits resetLess tab sigs tail) nxt hE
            (maskChunks_bounds _ _)
          refine ⟨mid, hm1, by simp only [Bool.false_eq_true, if_false]; exact hm2, ?_⟩
          intro i b hi hb
          rw [hm3 i b hi hb]
          by_cases hij : i = j
          · subst hij
            have hc : covB (maskChunks (tab.get i) (ctx.shape i).width) b = ibit (tab.get i) b := by
              cases hbb : ibit (tab.get i) b with
              | true => exact (covB_iff _ _).mpr ((maskChunks_spec _ _ _).mpr ⟨hb, hbb⟩)
              | false =>
                cases hcc : covB (maskChunks (tab.get i) (ctx.shape i).width) b with
                | false => rfl
                | true =>
                  have := (maskChunks_spec _ _ _).mp ((covB_iff _ _).mp hcc)
                  rw [hbb] at this; cases this.2
            simp only [true_and, hc, decide_true, Bool.true_and, bitAt]
          · simp only [hij, false_and, if_false, decide_false, Bool.false_and, Bool.false_eq_true]
    obtain ⟨E', hE', hx1, hx2⟩ := hstep
    obtain ⟨mid, hm1, hm2, hm3⟩ := ih tail E' hE' hrest
    refine ⟨mid, hm1, by rw [hx1, hm2], ?_⟩
    intro i b hi hb
    rw [hm3 i b hi hb, hx2 i b hi hb]
    by_cases hij : i = j
    · subst hij
      have hcont : (i :: sigs).contains i = true := by simp
      rw [hcont]
      cases hr : resetLess.getD i false <;> cases hm : ibit (tab.get i) b <;> cases hs' : sigs.contains i <;>
        simp [hr, hm, hs']
    · have : ((j :: sigs).contains i) = sigs.contains i := by
        simp [List.contains_cons, hij]
      rw [this]
      simp only [hij, decide_false, Bool.false_and, Bool.false_eq_true, if_false]

theorem lhsSigs_lt : ∀ (e : Expr), e.twf ctx = true → ∀ i ∈ lhsSigs e, i < ctx.length := by
  intro e
  induction e with
  | const v s => intro _ i hi; simp [lhsSigs] at hi
  | sig j => intro h i hi; simp only [lhsSigs, List.mem_singleton] at hi; subst hi; simpa [Expr.twf] using h
  | op1 o a ih =>
    intro h i hi
    cases o <;> simp only [Expr.twf, Bool.false_eq_true] at h <;> (simp only [lhsSigs] at hi; exact ih h i hi)
  | op2 o a b _ _ => intro h; simp [Expr.twf] at h
  | slice a s e ih =>
    intro h i hi
    simp only [Expr.twf, Bool.and_eq_true] at h
    simp only [lhsSigs] at hi; exact ih h.1.1 i hi
  | part a off w st ih _ =>
    intro h i hi
    simp only [Expr.twf, Bool.and_eq_true] at h
    simp only [lhsSigs] at hi; exact ih h.1.1.1 i hi
  | cat lo hi ihlo ihhi =>
    intro h i hi'
    simp only [Expr.twf, Bool.and_eq_true] at h
    simp only [lhsSigs, List.mem_append] at hi'
    exact hi'.elim (ihlo h.1 i) (ihhi h.2 i)
  | ite t p thn els _ ihthn ihels =>
    intro h i hi
    simp only [Expr.twf, Bool.and_eq_true] at h
    simp only [lhsSigs, List.mem_append] at hi
    exact hi.elim (ihthn h.1.1.2 i) (ihels h.1.2 i)

theorem stmtSigs_lt : ∀ (s : Stmt), (∀ e ∈ stmtTargets s, e.twf ctx = true) → ∀ i ∈ stmtSigs s, i < ctx.length := by
  intro s
  induction s with
  | skip => intro _ i hi; simp [stmtSigs] at hi
  | seq a b iha ihb =>
    intro h i hi
    simp only [stmtTargets, List.mem_append] at h
    simp only [stmtSigs, List.mem_append] at hi
    exact hi.elim (iha (fun e he => h e (Or.inl he)) i) (ihb (fun e he => h e (Or.inr he)) i)
  | assign l r =>
    intro h i hi
    simp only [stmtSigs] at hi
    exact lhsSigs_lt ctx l (h l (by simp [stmtTargets])) i hi
  | ite c p thn els ih1 ih2 =>
    intro h i hi
    simp only [stmtTargets, List.mem_append] at h
    simp only [stmtSigs, List.mem_append] at hi
    exact hi.elim (ih1 (fun e he => h e (Or.inl he)) i) (ih2 (fun e he => h e (Or.inr he)) i)

include hok in
/-- **The reset assignments load exactly the driven bits.** Executing the statements `ResetInserter` appends for a
process body puts the initial value into every driven (masked) bit of every non-reset-less signal the body drives,
and changes nothing else. -/
theorem resetStmts_bits (inits : Env) (hI : EnvN ctx inits) (resetLess : List Bool) (body : Stmt)
    (htw : ∀ e ∈ stmtTargets body, e.twf ctx = true) (nxt : Env) (hE : EnvN ctx nxt) :
    EnvN ctx (execRtl ctx cur (resetStmts ctx inits resetLess body) nxt) ∧
    ∀ i b, i < ctx.length → b < (ctx.shape i).width →
      bitAt (execRtl ctx cur (resetStmts ctx inits resetLess body) nxt) i b =
        if (stmtSigs body).contains i && !(resetLess.getD i false) &&
            ibit ((stmtMask ctx body (List.replicate ctx.length 0)).get i) b
        then bitAt inits i b else bitAt nxt i b := by
  have hz : MaskOk ctx (List.replicate ctx.length 0) := by
    intro j; rw [replicate_get, Shape.contains_u]; exact ⟨Int.le_refl _, two_pow_pos' _⟩
  obtain ⟨mid, h1, h2, h3⟩ := resetFrom_bits ctx cur hok inits hI resetLess _ (stmtMask_ok ctx body _ hz)
    (stmtSigs body).eraseDups .skip nxt hE
    (fun i hi => stmtSigs_lt ctx body htw i (List.mem_eraseDups.mp hi))
  rw [resetStmts_eq, h2]
  simp only [execRtl]
  refine ⟨h1, fun i b hi hb => ?_⟩
  rw [h3 i b hi hb]
  have : (stmtSigs body).eraseDups.contains i = (stmtSigs body).contains i := by
    cases h : (stmtSigs body).contains i with
    | true => exact List.contains_iff_mem.mpr (List.mem_eraseDups.mpr (List.contains_iff_mem.mp h))
    | false =>
      cases h' : (stmtSigs body).eraseDups.contains i with
      | false => rfl
      | true =>
        have := List.contains_iff_mem.mpr (List.mem_eraseDups.mp (List.contains_iff_mem.mp h'))
        rw [h] at this; cases this
  rw [this]

/-! ## Wrapping a body in `ResetInserter` does not change what it drives -/

/-- a mask that only names bits the table already has is absorbed -/
theorem lhsMask_sig_absorb (j : Nat) (m : Int) (t : MaskTab) (hj : j < t.length) (ht : MaskOk ctx t)
    (h : ∀ b, b < (ctx.shape j).width → ibit m b = true → ibit (t.get j) b = true) :
    lhsMask ctx (.sig j) m t = t := by
  simp only [lhsMask]
  have hv : pyOr (t.get j) (pyAnd m (pyShl 1 (ctx.shape j).width - 1)) = t.get j := by
    apply eq_of_ibits ⟨(ctx.shape j).width, false⟩ (by intro h'; cases h')
    · apply contains_u_of_bits
      intro b hb
      rw [ibit_pyOr, ibit_pyAnd, ibit_ones, high_bits_u _ _ (ht j) b hb]
      have : ¬ b < (ctx.shape j).width := by omega
      simp [this]
    · exact ht j
    · intro b hb
      rw [ibit_pyOr, ibit_pyAnd, ibit_ones]
      cases hm : ibit m b with
      | false => simp
      | true => rw [h b hb hm]; simp
  rw [hv]
  unfold MaskTab.get
  rw [List.getD_eq_getElem?_getD, List.getElem?_eq_getElem hj, Option.getD_some]
  exact List.set_getElem_self hj

theorem resetFrom_mask_absorb (inits : Env) (resetLess : List Bool) (T : MaskTab) (hT : MaskOk ctx T)
    (hlen : T.length = ctx.length) :
    ∀ (sigs : List Nat) (tail : Stmt), (∀ i ∈ sigs, i < ctx.length) →
    stmtMask ctx (resetFrom ctx inits resetLess T sigs tail) T = stmtMask ctx tail T := by
  intro sigs
  induction sigs with
  | nil => intro tail _; rfl
  | cons j sigs ih =>
    intro tail hs
    have hj := hs j (List.mem_cons_self ..)
    have hrest : ∀ i ∈ sigs, i < ctx.length := fun i hi => hs i (List.mem_cons_of_mem _ hi)
    have hunf : resetFrom ctx inits resetLess T (j :: sigs) tail =
        (if resetLess.getD j false then resetFrom ctx inits resetLess T sigs tail
         else if T.get j == pyShl 1 (ctx.shape j).width - 1 then
           Stmt.seq (.assign (.sig j) (.const (inits.val j) (ctx.shape j))) (resetFrom ctx inits resetLess T sigs tail)
         else (maskChunks (T.get j) (ctx.shape j).width).foldr (fun (ch : Nat × Nat) acc' =>
           Stmt.seq (.assign (.slice (.sig j) ch.1 ch.2) (.slice (.const (inits.val j) (ctx.shape j)) ch.1 ch.2)) acc')
           (resetFrom ctx inits resetLess T sigs tail)) := rfl
    rw [hunf]
    cases hrl : resetLess.getD j false with
    | true => simp only [if_true]; exact ih tail hrest
    | false =>
      simp only [Bool.false_eq_true, if_false]
      cases hfull : (T.get j == pyShl 1 (ctx.shape j).width - 1) with
      | true =>
        simp only [if_true, stmtMask]
        rw [lhsMask_sig_absorb ctx j (-1) T (by omega) hT (by
          intro b hb _
          rw [beq_iff_eq.mp hfull, ibit_ones]; simp [hb])]
        exact ih tail hrest
      | false =>
        simp only [Bool.false_eq_true, if_false]
        -- every chunk only names bits of the mask
        have hch : ∀ (cs : List (Nat × Nat)), (∀ c ∈ cs, ∀ b, c.1 ≤ b → b < c.2 → ibit (T.get j) b = true) →
            (∀ c ∈ cs, c.1 < c.2 ∧ c.2 ≤ (ctx.shape j).width) → ∀ rest,
            stmtMask ctx (cs.foldr (fun (ch : Nat × Nat) acc' =>
              Stmt.seq (.assign (.slice (.sig j) ch.1 ch.2) (.slice (.const (inits.val j) (ctx.shape j)) ch.1 ch.2)) acc')
              rest) T = stmtMask ctx rest T := by
          intro cs
          induction cs with
          | nil => intro _ _ rest; rfl
          | cons c cs ihc =>
            intro hcov hbd rest
            simp only [List.foldr_cons, stmtMask, lhsMask]
            have hc := hbd c (List.mem_cons_self ..)
            have := lhsMask_sig_absorb ctx j (pyAnd (pyShl (-1) c.1) (pyShl 1 c.2 - pyShl 1 c.1)) T (by omega) hT (by
              intro b _ hm
              rw [ibit_pyAnd, ibit_window_mask _ _ _ (by omega)] at hm
              simp only [Bool.and_eq_true, decide_eq_true_eq] at hm
              exact hcov c (List.mem_cons_self ..) b hm.2.1 hm.2.2)
            simp only [lhsMask] at this
            rw [this]
            exact ihc (fun c' hc' => hcov c' (List.mem_cons_of_mem _ hc')) (fun c' hc' => hbd c' (List.mem_cons_of_mem _ hc')) rest
        rw [hch _ (by
          intro c hc b h1 h2
          exact ((maskChunks_spec (T.get j) (ctx.shape j).width b).mp ⟨c, hc, h1, h2⟩).2) (maskChunks_bounds _ _)]
        exact ih tail hrest

theorem resetFrom_sigs (inits : Env) (resetLess : List Bool) (T : MaskTab) :
    ∀ (sigs : List Nat) (tail : Stmt) (i : Nat), i ∈ stmtSigs (resetFrom ctx inits resetLess T sigs tail) →
    i ∈ sigs ∨ i ∈ stmtSigs tail := by
  intro sigs
  induction sigs with
  | nil => intro tail i h; exact Or.inr h
  | cons j sigs ih =>
    intro tail i h
    have hunf : resetFrom ctx inits resetLess T (j :: sigs) tail =
        (if resetLess.getD j false then resetFrom ctx inits resetLess T sigs tail
         else if T.get j == pyShl 1 (ctx.shape j).width - 1 then
           Stmt.seq (.assign (.sig j) (.const (inits.val j) (ctx.shape j))) (resetFrom ctx inits resetLess T sigs tail)
         else (maskChunks (T.get j) (ctx.shape j).width).foldr (fun (ch : Nat × Nat) acc' =>
           Stmt.seq (.assign (.slice (.sig j) ch.1 ch.2) (.slice (.const (inits.val j) (ctx.shape j)) ch.1 ch.2)) acc')
           (resetFrom ctx inits resetLess T sigs tail)) := rfl
    rw [hunf] at h
    have hrec : i ∈ stmtSigs (resetFrom ctx inits resetLess T sigs tail) → i ∈ j :: sigs ∨ i ∈ stmtSigs tail := by
      intro h'
      rcases ih tail i h' with h1 | h1
      · exact Or.inl (List.mem_cons_of_mem _ h1)
      · exact Or.inr h1
    split at h
    · exact hrec h
    · split at h
      · simp only [stmtSigs, lhsSigs, List.mem_append, List.mem_singleton] at h
        rcases h with rfl | h
        · exact Or.inl (List.mem_cons_self ..)
        · exact hrec h
      · have hch : ∀ (cs : List (Nat × Nat)) rest, i ∈ stmtSigs (cs.foldr (fun (ch : Nat × Nat) acc' =>
            Stmt.seq (.assign (.slice (.sig j) ch.1 ch.2) (.slice (.const (inits.val j) (ctx.shape j)) ch.1 ch.2)) acc')
            rest) → i = j ∨ i ∈ stmtSigs rest := by
          intro cs
          induction cs with
          | nil => intro rest h'; exact Or.inr h'
          | cons c cs ihc =>
            intro rest h'
            simp only [List.foldr_cons, stmtSigs, lhsSigs, List.mem_append, List.mem_singleton] at h'
            rcases h' with rfl | h'
            · exact Or.inl rfl
            · exact ihc rest h'
        rcases hch _ _ h with rfl | h'
        · exact Or.inl (List.mem_cons_self ..)
        · exact hrec h'

theorem resetFrom_targets_twf (inits : Env) (resetLess : List Bool) (T : MaskTab) :
    ∀ (sigs : List Nat) (tail : Stmt), (∀ i ∈ sigs, i < ctx.length) → (∀ e ∈ stmtTargets tail, e.twf ctx = true) →
    ∀ e ∈ stmtTargets (resetFrom ctx inits resetLess T sigs tail), e.twf ctx = true := by
  intro sigs
  induction sigs with
  | nil => intro tail _ ht e he; exact ht e he
  | cons j sigs ih =>
    intro tail hs ht e he
    have hj := hs j (List.mem_cons_self ..)
    have hrest : ∀ i ∈ sigs, i < ctx.length := fun i hi => hs i (List.mem_cons_of_mem _ hi)
    have hunf : resetFrom ctx inits resetLess T (j :: sigs) tail =
        (if resetLess.getD j false then resetFrom ctx inits resetLess T sigs tail
         else if T.get j == pyShl 1 (ctx.shape j).width - 1 then
           Stmt.seq (.assign (.sig j) (.const (inits.val j) (ctx.shape j))) (resetFrom ctx inits resetLess T sigs tail)
         else (maskChunks (T.get j) (ctx.shape j).width).foldr (fun (ch : Nat × Nat) acc' =>
           Stmt.seq (.assign (.slice (.sig j) ch.1 ch.2) (.slice (.const (inits.val j) (ctx.shape j)) ch.1 ch.2)) acc')
           (resetFrom ctx inits resetLess T sigs tail)) := rfl
    rw [hunf] at he
    split at he
    · exact ih tail hrest ht e he
    · split at he
      · simp only [stmtTargets, List.mem_append, List.mem_singleton] at he
        rcases he with rfl | he
        · simp [Expr.twf, hj]
        · exact ih tail hrest ht e he
      · have hch : ∀ (cs : List (Nat × Nat)), (∀ c ∈ cs, c.1 < c.2 ∧ c.2 ≤ (ctx.shape j).width) → ∀ rest,
            e ∈ stmtTargets (cs.foldr (fun (ch : Nat × Nat) acc' =>
              Stmt.seq (.assign (.slice (.sig j) ch.1 ch.2) (.slice (.const (inits.val j) (ctx.shape j)) ch.1 ch.2)) acc')
              rest) → e.twf ctx = true ∨ e ∈ stmtTargets rest := by
          intro cs
          induction cs with
          | nil => intro _ rest h'; exact Or.inr h'
          | cons c cs ihc =>
            intro hbd rest h'
            simp only [List.foldr_cons, stmtTargets, List.mem_append, List.mem_singleton] at h'
            rcases h' with rfl | h'
            · have hc := hbd c (List.mem_cons_self ..)
              left
              have h1 : c.1 ≤ c.2 := by omega
              simp [Expr.twf, hj, widthOf, shapeOf, h1, hc.2]
            · exact ihc (fun c' hc' => hbd c' (List.mem_cons_of_mem _ hc')) rest h'
        rcases hch _ (maskChunks_bounds _ _) _ he with h' | h'
        · exact h'
        · exact ih tail hrest ht e h'

/-- the body `ResetInserter` builds drives exactly what the wrapped body drives -/
theorem reset_wrap_keeps_drive (inits : Env) (resetLess : List Bool) (ctl : Expr) (pats : List Pat) (body : Stmt)
    (htw : ∀ e ∈ stmtTargets body, e.twf ctx = true) :
    let body' := Stmt.seq body (.ite ctl pats (resetStmts ctx inits resetLess body) .skip)
    stmtMask ctx body' (List.replicate ctx.length 0) = stmtMask ctx body (List.replicate ctx.length 0) ∧
    (∀ i, (stmtSigs body').contains i = (stmtSigs body).contains i) ∧
    (∀ e ∈ stmtTargets body', e.twf ctx = true) := by
  intro body'
  have hz : MaskOk ctx (List.replicate ctx.length 0) := by
    intro j; rw [replicate_get, Shape.contains_u]; exact ⟨Int.le_refl _, two_pow_pos' _⟩
  have hT := stmtMask_ok ctx body _ hz
  have hlen : (stmtMask ctx body (List.replicate ctx.length 0)).length = ctx.length := by
    rw [stmtMask_length]; simp
  have hsl : ∀ i ∈ (stmtSigs body).eraseDups, i < ctx.length :=
    fun i hi => stmtSigs_lt ctx body htw i (List.mem_eraseDups.mp hi)
  refine ⟨?_, ?_, ?_⟩
  · show stmtMask ctx .skip (stmtMask ctx (resetStmts ctx inits resetLess body) (stmtMask ctx body _)) = _
    rw [resetStmts_eq, resetFrom_mask_absorb ctx inits resetLess _ hT hlen _ .skip hsl]
    rfl
  · intro i
    show (stmtSigs body ++ (stmtSigs (resetStmts ctx inits resetLess body) ++ [])).contains i = _
    cases h : (stmtSigs body).contains i with
    | true =>
      exact List.contains_iff_mem.mpr (List.mem_append.mpr (Or.inl (List.contains_iff_mem.mp h)))
    | false =>
      cases h' : (stmtSigs body ++ (stmtSigs (resetStmts ctx inits resetLess body) ++ [])).contains i with
      | false => rfl
      | true =>
        exfalso
        have hm := List.contains_iff_mem.mp h'
        simp only [List.append_nil, List.mem_append] at hm
        rcases hm with hm | hm
        · rw [List.contains_iff_mem.mpr hm] at h; cases h
        · rw [resetStmts_eq] at hm
          rcases resetFrom_sigs ctx inits resetLess _ _ .skip i hm with h1 | h1
          · rw [List.contains_iff_mem.mpr (List.mem_eraseDups.mp h1)] at h; cases h
          · simp [stmtSigs] at h1
  · intro e he
    simp only [body', stmtTargets, List.mem_append, List.append_nil] at he
    rcases he with he | he
    · exact htw e he
    · rw [resetStmts_eq] at he
      exact resetFrom_targets_twf ctx inits resetLess _ _ .skip hsl (by intro e he; simp [stmtTargets] at he) e he

end

end Amaranth
