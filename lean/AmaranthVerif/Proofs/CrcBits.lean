import AmaranthVerif.Model.Crc

/-! # Bit-level lemmas for C16 (core Lean only): bit lists, reflection, assembled signals -/

namespace Amaranth.Crc
open Amaranth.Williams

theorem testBit_ofLsbFirst (bs : List Bool) (i : Nat) : (ofLsbFirst bs).testBit i = bs[i]?.getD false := by
  induction bs generalizing i with
  | nil => simp [ofLsbFirst]
  | cons b bs ih =>
    cases i with
    | zero =>
      simp only [ofLsbFirst, Nat.testBit_zero, List.getElem?_cons_zero, Option.getD_some]
      cases b <;> simp <;> omega
    | succ i =>
      simp only [ofLsbFirst, Nat.testBit_succ, List.getElem?_cons_succ]
      have : (b.toNat + 2 * ofLsbFirst bs) / 2 = ofLsbFirst bs := by cases b <;> simp <;> omega
      rw [this, ih]

@[simp] theorem length_msbFirst (n x : Nat) : (msbFirst n x).length = n := by
  induction n with
  | zero => rfl
  | succ n ih => simp [msbFirst, ih]

theorem getElem_msbFirst (n x i : Nat) (h : i < (msbFirst n x).length) : (msbFirst n x)[i] = x.testBit (n - 1 - i) := by
  induction n generalizing i with
  | zero => simp at h
  | succ n ih =>
    cases i with
    | zero => simp [msbFirst]
    | succ i =>
      simp only [msbFirst, List.getElem_cons_succ]
      rw [ih]
      congr 1; omega

theorem getElem?_msbFirst (n x i : Nat) :
    (msbFirst n x)[i]? = if i < n then some (x.testBit (n - 1 - i)) else none := by
  split
  · next h => rw [List.getElem?_eq_getElem (by simpa using h), getElem_msbFirst]
  · next h => rw [List.getElem?_eq_none (by simpa using h)]

theorem testBit_reflect (x n i : Nat) : (reflect x n).testBit i = (decide (i < n) && x.testBit (n - 1 - i)) := by
  simp only [reflect, testBit_ofLsbFirst, getElem?_msbFirst]
  split <;> simp [*]

theorem testBit_ofFn (n : Nat) (f : Nat → Bool) (i : Nat) : (ofFn n f).testBit i = (decide (i < n) && f i) := by
  induction n with
  | zero => simp [ofFn]
  | succ n ih =>
    simp only [ofFn, Nat.testBit_xor, ih]
    by_cases hi : i = n
    · subst hi; cases h : f i <;> simp
    · have h1 : (if f n then 2 ^ n else 0).testBit i = false := by
        split
        · simp [Nat.testBit_two_pow]; omega
        · simp
      rw [h1]
      by_cases h2 : i < n
      · have : i < n + 1 := by omega
        simp [h2, this]
      · have : ¬ i < n + 1 := by omega
        simp [h2, this]

theorem rev_eq_reflect (x n : Nat) : rev x n = reflect x n := by
  apply Nat.eq_of_testBit_eq; intro i
  simp [rev, testBit_ofFn, testBit_reflect]

theorem testBit_of_lt {x n i : Nat} (h : x < 2 ^ n) (hi : n ≤ i) : x.testBit i = false :=
  Nat.testBit_lt_two_pow (Nat.lt_of_lt_of_le h (Nat.pow_le_pow_right (by omega) hi))

theorem reflect_lt (x n : Nat) : reflect x n < 2 ^ n := by
  apply Nat.lt_pow_two_of_testBit; intro i hi
  have : ¬ i < n := by omega
  simp [testBit_reflect, this]

theorem ofFn_lt (n : Nat) (f : Nat → Bool) : ofFn n f < 2 ^ n := by
  apply Nat.lt_pow_two_of_testBit; intro i hi
  have : ¬ i < n := by omega
  simp [testBit_ofFn, this]

theorem reflect_reflect {x n : Nat} (h : x < 2 ^ n) : reflect (reflect x n) n = x := by
  apply Nat.eq_of_testBit_eq; intro i
  simp only [testBit_reflect]
  by_cases hi : i < n
  · have h1 : n - 1 - i < n := by omega
    have h2 : n - 1 - (n - 1 - i) = i := by omega
    simp [hi, h1, h2]
  · simp [hi, testBit_of_lt h (by omega : n ≤ i)]

theorem reflect_xor (a b n : Nat) : reflect (a ^^^ b) n = reflect a n ^^^ reflect b n := by
  apply Nat.eq_of_testBit_eq; intro i
  simp only [testBit_reflect, Nat.testBit_xor]
  cases decide (i < n) <;> simp

theorem reflect_inj {a b n : Nat} (ha : a < 2 ^ n) (hb : b < 2 ^ n) (h : reflect a n = reflect b n) : a = b := by
  rw [← reflect_reflect ha, ← reflect_reflect hb, h]

theorem msbFirst_congr {n x y : Nat} (h : ∀ i, i < n → x.testBit i = y.testBit i) : msbFirst n x = msbFirst n y := by
  induction n with
  | zero => rfl
  | succ n ih =>
    simp only [msbFirst]
    rw [h n (by omega), ih (fun i hi => h i (by omega))]

theorem msbFirst_mod (n x : Nat) : msbFirst n (x % 2 ^ n) = msbFirst n x :=
  msbFirst_congr (fun i hi => by simp [Nat.testBit_mod_two_pow, hi])

theorem msbFirst_reflect (n x : Nat) : msbFirst n (reflect x n) = lsbFirst n x := by
  apply List.ext_getElem
  · simp [lsbFirst]
  · intro i h1 h2
    have hi : i < n := by simpa using h1
    rw [getElem_msbFirst]
    simp only [lsbFirst, List.getElem_reverse, getElem_msbFirst, length_msbFirst, testBit_reflect]
    have h3 : n - 1 - i < n := by omega
    have h4 : n - 1 - (n - 1 - i) = i := by omega
    have h5 : n - 1 - (n - 1 - i) = n - 1 - (n - 1 - i) := rfl
    simp [h3, h4]

theorem lsbFirst_reflect (n x : Nat) : lsbFirst n (reflect x n) = msbFirst n x := by
  rw [lsbFirst, msbFirst_reflect, lsbFirst, List.reverse_reverse]

theorem msbFirst_zero (n : Nat) : msbFirst n 0 = List.replicate n false := by
  induction n with
  | zero => rfl
  | succ n ih => simp [msbFirst, ih, List.replicate_succ]

theorem msbFirst_xor (n x y : Nat) :
    msbFirst n (x ^^^ y) = List.zipWith (fun a b => a ^^ b) (msbFirst n x) (msbFirst n y) := by
  induction n with
  | zero => rfl
  | succ n ih => simp [msbFirst, ih, Nat.testBit_xor]

theorem msbFirst_add (a b v : Nat) : msbFirst (a + b) v = msbFirst a (v >>> b) ++ msbFirst b v := by
  induction a with
  | zero => simp [msbFirst]
  | succ a ih =>
    have : a + 1 + b = (a + b) + 1 := by omega
    rw [this]
    simp only [msbFirst, ih, Nat.testBit_shiftRight, List.cons_append]
    rw [Nat.add_comm b a]

/-- the value of a bit list read most significant bit first -/
def ofMsbFirst : List Bool → Nat
  | [] => 0
  | b :: bs => (if b then 2 ^ bs.length else 0) ^^^ ofMsbFirst bs

theorem ofMsbFirst_lt (bs : List Bool) : ofMsbFirst bs < 2 ^ bs.length := by
  induction bs with
  | nil => simp [ofMsbFirst]
  | cons b bs ih =>
    simp only [ofMsbFirst, List.length_cons]
    apply Nat.xor_lt_two_pow
    · split
      · exact Nat.pow_lt_pow_right (by omega) (by omega)
      · exact Nat.two_pow_pos _
    · exact Nat.lt_of_lt_of_le ih (Nat.pow_le_pow_right (by omega) (by omega))

theorem msbFirst_ofMsbFirst (bs : List Bool) : msbFirst bs.length (ofMsbFirst bs) = bs := by
  induction bs with
  | nil => rfl
  | cons b bs ih =>
    simp only [List.length_cons, msbFirst, ofMsbFirst, Nat.testBit_xor]
    congr 1
    · rw [Nat.testBit_lt_two_pow (ofMsbFirst_lt bs)]
      cases b <;> simp
    · refine Eq.trans (msbFirst_congr ?_) ih
      intro i hi
      simp only [Nat.testBit_xor]
      have : (if b = true then 2 ^ bs.length else 0).testBit i = false := by
        split
        · simp [Nat.testBit_two_pow]; omega
        · simp
      simp [this]

theorem msbFirst_inj {n x y : Nat} (hx : x < 2 ^ n) (hy : y < 2 ^ n) (h : msbFirst n x = msbFirst n y) : x = y := by
  apply Nat.eq_of_testBit_eq; intro i
  by_cases hi : i < n
  · have h3 : n - 1 - i < n := by omega
    have h1 := getElem_msbFirst n x (n - 1 - i) (by simpa using h3)
    have h2 := getElem_msbFirst n y (n - 1 - i) (by simpa using h3)
    have h4 : n - 1 - (n - 1 - i) = i := by omega
    rw [h4] at h1 h2
    rw [← h1, ← h2]
    simp [h]
  · rw [testBit_of_lt hx (by omega), testBit_of_lt hy (by omega)]

end Amaranth.Crc
