import AmaranthVerif.Proofs.TbLemmas
import AmaranthVerif.Proofs.DslLemmas

/-!
# Bit-level characterisation of Python's integer operators

`ibit v k` is bit `k` of the two's-complement integer `v`. These lemmas say that `pyAnd`, `pyOr`,
`pyXor`, `pyNot`, `pyShl`, `pyShr` act bit by bit as Python's `& | ^ ~ << >>` do on unbounded
integers — they are the specification of those model functions — and give bit extensionality.
-/

namespace Amaranth

theorem ibit_negSucc (n k : Nat) : ibit (Int.negSucc n) k = !n.testBit k := by
  unfold ibit
  have hp := two_pow_pos' k
  rw [Int.negSucc_ediv n hp]
  have e : (n : Int).ediv (2 ^ k) = ((n / 2 ^ k : Nat) : Int) := by
    show (n : Int) / 2 ^ k = _
    push_cast; rfl
  rw [e, Nat.testBit_eq_decide_div_mod_eq]
  generalize n / 2 ^ k = q
  have : (-(((q : Nat) : Int) + 1)) % 2 = if q % 2 = 1 then 0 else 1 := by
    split <;> omega
  rw [this]
  by_cases h : q % 2 = 1 <;> simp [h]

theorem ibit_ofNat' (n k : Nat) : ibit (Int.ofNat n) k = n.testBit k := ibit_ofNat n k

theorem ibit_pyAnd (x y : Int) (k : Nat) : ibit (pyAnd x y) k = (ibit x k && ibit y k) := by
  cases x with
  | ofNat m =>
    cases y with
    | ofNat n =>
      show ibit ((m &&& n : Nat) : Int) k = _
      rw [ibit_ofNat, ibit_ofNat', ibit_ofNat', Nat.testBit_and]
    | negSucc n =>
      show ibit ((m - (m &&& n) : Nat) : Int) k = _
      rw [ibit_ofNat, ibit_ofNat', ibit_negSucc, testBit_sub_and]
  | negSucc m =>
    cases y with
    | ofNat n =>
      show ibit ((n - (n &&& m) : Nat) : Int) k = _
      rw [ibit_ofNat, ibit_ofNat', ibit_negSucc, testBit_sub_and, Bool.and_comm]
    | negSucc n =>
      show ibit (Int.negSucc (m ||| n)) k = _
      rw [ibit_negSucc, ibit_negSucc, ibit_negSucc, Nat.testBit_or]
      cases m.testBit k <;> cases n.testBit k <;> rfl

theorem ibit_pyOr (x y : Int) (k : Nat) : ibit (pyOr x y) k = (ibit x k || ibit y k) := by
  cases x with
  | ofNat m =>
    cases y with
    | ofNat n =>
      show ibit ((m ||| n : Nat) : Int) k = _
      rw [ibit_ofNat, ibit_ofNat', ibit_ofNat', Nat.testBit_or]
    | negSucc n =>
      show ibit (Int.negSucc (n - (n &&& m))) k = _
      rw [ibit_negSucc, ibit_ofNat', ibit_negSucc, testBit_sub_and]
      cases m.testBit k <;> cases n.testBit k <;> rfl
  | negSucc m =>
    cases y with
    | ofNat n =>
      show ibit (Int.negSucc (m - (m &&& n))) k = _
      rw [ibit_negSucc, ibit_ofNat', ibit_negSucc, testBit_sub_and]
      cases m.testBit k <;> cases n.testBit k <;> rfl
    | negSucc n =>
      show ibit (Int.negSucc (m &&& n)) k = _
      rw [ibit_negSucc, ibit_negSucc, ibit_negSucc, Nat.testBit_and]
      cases m.testBit k <;> cases n.testBit k <;> rfl

theorem ibit_pyXor (x y : Int) (k : Nat) : ibit (pyXor x y) k = (ibit x k ^^ ibit y k) := by
  cases x with
  | ofNat m =>
    cases y with
    | ofNat n =>
      show ibit ((m ^^^ n : Nat) : Int) k = _
      rw [ibit_ofNat, ibit_ofNat', ibit_ofNat', Nat.testBit_xor]
    | negSucc n =>
      show ibit (Int.negSucc (m ^^^ n)) k = _
      rw [ibit_negSucc, ibit_ofNat', ibit_negSucc, Nat.testBit_xor]
      cases m.testBit k <;> cases n.testBit k <;> rfl
  | negSucc m =>
    cases y with
    | ofNat n =>
      show ibit (Int.negSucc (m ^^^ n)) k = _
      rw [ibit_negSucc, ibit_ofNat', ibit_negSucc, Nat.testBit_xor]
      cases m.testBit k <;> cases n.testBit k <;> rfl
    | negSucc n =>
      show ibit ((m ^^^ n : Nat) : Int) k = _
      rw [ibit_ofNat, ibit_negSucc, ibit_negSucc, Nat.testBit_xor]
      cases m.testBit k <;> cases n.testBit k <;> rfl

theorem ibit_pyNot (x : Int) (k : Nat) : ibit (pyNot x) k = !ibit x k := by
  unfold pyNot
  cases x with
  | ofNat m =>
    have : -(Int.ofNat m) - 1 = Int.negSucc m := by simp [Int.negSucc_eq]; omega
    rw [this, ibit_negSucc, ibit_ofNat']
  | negSucc m =>
    have : -(Int.negSucc m) - 1 = Int.ofNat m := by simp [Int.negSucc_eq]
    rw [this, ibit_negSucc, ibit_ofNat']; simp

/-- floor shift right moves bit `k + n` to bit `k` -/
theorem ibit_pyShr (x : Int) (n k : Nat) : ibit (pyShr x n) k = ibit x (k + n) := by
  unfold pyShr ibit
  rw [Int.ediv_ediv_of_nonneg (Int.le_of_lt (two_pow_pos' n)), ← two_pow_add', Nat.add_comm]

/-- shift left moves bit `k` to bit `k + n`, zeros below -/
theorem ibit_pyShl (x : Int) (n k : Nat) : ibit (pyShl x n) k = (decide (n ≤ k) && ibit x (k - n)) := by
  unfold pyShl ibit
  by_cases h : n ≤ k
  · have e : (2 : Int) ^ k = 2 ^ n * 2 ^ (k - n) := by rw [← two_pow_add']; congr 1; omega
    rw [e, Int.mul_comm x, Int.mul_ediv_mul_of_pos _ _ (two_pow_pos' n)]
    simp [h]
  · have hk : k < n := by omega
    have e : (2 : Int) ^ n = 2 ^ k * (2 * 2 ^ (n - k - 1)) := by
      rw [← two_pow_succ', ← two_pow_add']; congr 1; omega
    rw [e, ← Int.mul_assoc, Int.mul_comm x, Int.mul_assoc, Int.mul_ediv_cancel_left _ (Int.ne_of_gt (two_pow_pos' k))]
    have : x * (2 * 2 ^ (n - k - 1)) % 2 = 0 := by
      rw [← Int.mul_assoc, Int.mul_comm x 2, Int.mul_assoc]; omega
    rw [this]; simp [h]

theorem ibit_neg_one (k : Nat) : ibit (-1) k = true := by
  have : (-1 : Int) = Int.negSucc 0 := rfl
  rw [this, ibit_negSucc]; simp

theorem ibit_zero' (k : Nat) : ibit 0 k = false := by
  have : (0 : Int) = Int.ofNat 0 := rfl
  rw [this, ibit_ofNat']; simp

/-- `(1 << n) - 1`: ones below `n` -/
theorem ibit_ones (n k : Nat) : ibit (pyShl 1 n - 1) k = decide (k < n) := by
  have e : pyShl 1 n - 1 = ((2 ^ n - 1 : Nat) : Int) := by
    unfold pyShl
    have := Nat.two_pow_pos n
    push_cast [Nat.cast_sub this]; omega
  rw [e, ibit_ofNat, Nat.testBit_two_pow_sub_one]

/-- bits below the width survive `mask` and `norm` -/
theorem ibit_mask (w : Nat) (v : Int) (k : Nat) : ibit (mask w v) k = (decide (k < w) && ibit v k) := by
  by_cases h : k < w
  · unfold mask; rw [ibit_emod v h]; simp [h]
  · obtain ⟨T, hT⟩ := Int.eq_ofNat_of_zero_le (mask_nonneg w v)
    have hlt : T < 2 ^ w := by
      have := mask_lt w v; rw [hT] at this; exact_mod_cast this
    rw [hT, ibit_ofNat, Nat.testBit_lt_two_pow (Nat.lt_of_lt_of_le hlt (Nat.pow_le_pow_right (by decide) (by omega)))]
    simp [h]

theorem ibit_norm_lt (s : Shape) (v : Int) (k : Nat) (h : k < s.width) : ibit (norm s v) k = ibit v k := by
  rw [← ibit_emod (norm s v) h, norm_emod, ibit_emod v h]

/-- two values inside one shape with the same bits below the width are equal -/
theorem eq_of_ibits (s : Shape) (hs : s.WF) {a b : Int} (ha : s.contains a) (hb : s.contains b)
    (h : ∀ k, k < s.width → ibit a k = ibit b k) : a = b := by
  have e : a % 2 ^ s.width = b % 2 ^ s.width := by
    obtain ⟨A, hA⟩ := Int.eq_ofNat_of_zero_le (Int.emod_nonneg a (Int.ne_of_gt (two_pow_pos' s.width)))
    obtain ⟨B, hB⟩ := Int.eq_ofNat_of_zero_le (Int.emod_nonneg b (Int.ne_of_gt (two_pow_pos' s.width)))
    have hAl : A < 2 ^ s.width := by
      have := Int.emod_lt_of_pos a (two_pow_pos' s.width); rw [hA] at this; exact_mod_cast this
    have hBl : B < 2 ^ s.width := by
      have := Int.emod_lt_of_pos b (two_pow_pos' s.width); rw [hB] at this; exact_mod_cast this
    rw [hA, hB]
    congr 1
    apply Nat.eq_of_testBit_eq
    intro i
    by_cases hi : i < s.width
    · have := h i hi
      rw [← ibit_emod a hi, ← ibit_emod b hi, hA, hB, ibit_ofNat, ibit_ofNat] at this
      exact this
    · rw [Nat.testBit_lt_two_pow (Nat.lt_of_lt_of_le hAl (Nat.pow_le_pow_right (by decide) (by omega))),
          Nat.testBit_lt_two_pow (Nat.lt_of_lt_of_le hBl (Nat.pow_le_pow_right (by decide) (by omega)))]
  have := norm_eq_of_congr s hs hb e
  rw [norm_of_contains s hs ha] at this
  exact this

end Amaranth
