import AmaranthVerif.Proofs.FormatProc
import AmaranthVerif.Model.FormatDsl

/-!
# Prints / Properties under the Module DSL: the lowered statements execute exactly the statements
that the program as written calls active

Same induction as `Proofs/Lowering.lean` (C02), over `PProg` / `PStmt` and `collect`.
-/

namespace Amaranth
namespace Fmt

mutual
/-- what the DSL accepts -/
def PProg.ok (ctx : Ctx) : PProg → Bool
  | .assign _ _ => true
  | .fx l => l.ok ctx
  | .ifs branches els => PProg.ifOk ctx branches && PProg.listOk ctx els
  | .switch test cases => test.wf ctx && PProg.casesOk ctx (widthOf ctx test) cases
def PProg.listOk (ctx : Ctx) : List PProg → Bool
  | [] => true
  | p :: ps => PProg.ok ctx p && PProg.listOk ctx ps
def PProg.ifOk (ctx : Ctx) : List (Expr × List PProg) → Bool
  | [] => true
  | (c, body) :: rest => c.wf ctx && PProg.listOk ctx body && PProg.ifOk ctx rest
def PProg.casesOk (ctx : Ctx) (w : Nat) : List (Option (List UPat) × List PProg) → Bool
  | [] => true
  | (none, body) :: rest => PProg.listOk ctx body && PProg.casesOk ctx w rest
  | (some pats, body) :: rest => pats.all (UPat.ok w) && PProg.listOk ctx body && PProg.casesOk ctx w rest
end

/-- the tests of an If chain, without the bodies -/
def stripBodies (branches : List (Expr × List PProg)) : List (Expr × List Prog) :=
  branches.map fun b => (b.1, [])

theorem ifTestsP_eq (ctx : Ctx) (branches : List (Expr × List PProg)) :
    ifTestsP ctx branches = ifTests ctx (stripBodies branches) := by
  induction branches with
  | nil => rfl
  | cons b rest ih =>
    obtain ⟨c, body⟩ := b
    simp only [ifTestsP, stripBodies, List.map_cons, ifTests] at ih ⊢
    rw [ih]

theorem ifOk_strip (ctx : Ctx) (branches : List (Expr × List PProg)) (h : PProg.ifOk ctx branches = true) :
    Prog.ifOk ctx (stripBodies branches) = true := by
  induction branches with
  | nil => rfl
  | cons b rest ih =>
    obtain ⟨c, body⟩ := b
    simp only [PProg.ifOk, Bool.and_eq_true] at h
    simp only [stripBodies, List.map_cons, Prog.ifOk, Prog.listOk, Bool.and_true, Bool.and_eq_true] at ih ⊢
    exact ⟨h.1.1, ih h.2⟩

section
variable (ctx : Ctx) (cur : Env) (hok : EnvOk ctx cur)

include hok in
mutual
theorem lowerP_sound_prog : ∀ (p : PProg), PProg.ok ctx p = true →
    collect ctx cur (lowerP ctx p) = PProg.active ctx cur p
  | .assign _ _, _ => by simp only [lowerP, collect, PProg.active]
  | .fx l, _ => by simp only [lowerP, collect, PProg.active]
  | .ifs branches els, h => by
    simp only [PProg.ok, Bool.and_eq_true] at h
    obtain ⟨hwf, hw, hb⟩ := ifTests_props ctx cur hok (stripBodies branches) (ifOk_strip ctx branches h.1)
    rw [← ifTestsP_eq] at hwf hw hb
    have hlen : (stripBodies branches).length = branches.length := by simp [stripBodies]
    rw [hlen] at hw hb
    have hm : (stripBodies branches).map (fun b => decide (denote ctx cur b.1 ≠ 0)) =
        branches.map (fun b => decide (denote ctx cur b.1 ≠ 0)) := by
      simp [stripBodies, List.map_map, Function.comp_def]
    rw [hm] at hb
    simp only [lowerP, PProg.active]
    have key := lowerP_sound_if branches h.1 (catList (ifTestsP ctx branches)) branches.length hwf hw 0
      (lowerListP ctx els) (by omega) (by
        intro k hk
        rw [Nat.zero_add]
        simp only [List.length_map] at hk
        exact hb k hk)
    rw [key]
    cases hi : PProg.ifActive ctx cur branches with
    | some ls => rfl
    | none => exact lowerP_sound_list els h.2
  | .switch test cases, h => by
    simp only [PProg.ok, Bool.and_eq_true] at h
    simp only [lowerP, PProg.active]
    exact lowerP_sound_cases test h.1 cases h.2
theorem lowerP_sound_list : ∀ (ps : List PProg), PProg.listOk ctx ps = true →
    collect ctx cur (lowerListP ctx ps) = PProg.listActive ctx cur ps
  | [], _ => rfl
  | p :: ps, h => by
    simp only [PProg.listOk, Bool.and_eq_true] at h
    simp only [lowerListP, collect, PProg.listActive]
    rw [lowerP_sound_prog p h.1, lowerP_sound_list ps h.2]
theorem lowerP_sound_if : ∀ (rest : List (Expr × List PProg)), PProg.ifOk ctx rest = true →
    ∀ (t : Expr) (n : Nat), t.wf ctx = true → widthOf ctx t = n → ∀ (i : Nat) (tail : PStmt),
    i + rest.length = n →
    BitsAt (denote ctx cur t) i (rest.map (fun b => decide (denote ctx cur b.1 ≠ 0))) →
    collect ctx cur (lowerIfP ctx t n i rest tail) =
      match PProg.ifActive ctx cur rest with
      | some ls => ls
      | none => collect ctx cur tail
  | [], _, t, n, ht, hw, i, tail, _, _ => by
    simp only [lowerIfP, collect, PProg.ifActive]
    have hp : [Pat.dontCare n].all (fun p => p.length == widthOf ctx t) = true := by
      simp [Pat.dontCare, hw]
    rw [switch_test_eq ctx cur hok t ht _ hp]
    simp [matchesSpec_dontCare]
  | (c, body) :: rest, h, t, n, ht, hw, i, tail, hlen, hbits => by
    simp only [PProg.ifOk, Bool.and_eq_true] at h
    simp only [List.length_cons] at hlen
    have hin : i < n := by omega
    simp only [lowerIfP, collect, PProg.ifActive]
    have hp : [ifPattern n i].all (fun p => p.length == widthOf ctx t) = true := by
      simp [ifPattern_length n i hin, hw]
    rw [switch_test_eq ctx cur hok t ht _ hp]
    simp only [List.any_cons, List.any_nil, Bool.or_false, matchesSpec_ifPattern n i hin]
    have hb0 := hbits 0 (by simp)
    simp only [Nat.add_zero, List.map_cons, List.getD_cons_zero] at hb0
    rw [hb0]
    by_cases hc : denote ctx cur c = 0
    · have : ¬ denote ctx cur c ≠ 0 := fun h => h hc
      simp only [hc, ne_eq, not_true_eq_false, decide_false, Bool.false_eq_true, if_false]
      exact lowerP_sound_if rest h.2 t n ht hw (i + 1) tail (by omega)
        (by
          intro k hk
          have := hbits (k + 1) (by simp only [List.length_map, List.length_cons] at hk ⊢; omega)
          simp only [List.map_cons, List.getD_cons_succ] at this
          rw [← this]; congr 1; omega)
    · simp only [ne_eq, hc, not_false_eq_true, decide_true, if_true]
      exact lowerP_sound_list body h.1.2
theorem lowerP_sound_cases : ∀ (test : Expr), test.wf ctx = true →
    ∀ (cases : List (Option (List UPat) × List PProg)), PProg.casesOk ctx (widthOf ctx test) cases = true →
    collect ctx cur (lowerCasesP ctx test cases) =
      PProg.caseActive ctx cur (shapeOf ctx test) (denote ctx cur test) cases
  | _, _, [], _ => rfl
  | test, ht, (none, body) :: rest, h => by
    simp only [PProg.casesOk, Bool.and_eq_true] at h
    simp only [lowerCasesP, collect, PProg.caseActive]
    have hp : [Pat.dontCare (widthOf ctx test)].all (fun p => p.length == widthOf ctx test) = true := by
      simp [Pat.dontCare]
    rw [switch_test_eq ctx cur hok test ht _ hp]
    simp only [List.any_cons, matchesSpec_dontCare, Bool.true_or, if_true]
    exact lowerP_sound_list body h.1
  | test, ht, (some pats, body) :: rest, h => by
    simp only [PProg.casesOk, Bool.and_eq_true] at h
    simp only [lowerCasesP, collect, PProg.caseActive]
    have hs := sound ctx cur hok test ht
    rw [switch_test_eq ctx cur hok test ht _ (normUPats_lengths (shapeOf ctx test) pats h.1.1),
        normUPats_any (shapeOf ctx test) hs.swf _ hs.rng pats h.1.1]
    split
    · exact lowerP_sound_list body h.1.2
    · exact lowerP_sound_cases test ht rest h.2
end

end

end Fmt
end Amaranth
