import AmaranthVerif.Proofs.EmitFront3

/-!
# `emit_rhs`: binary operators (helper lemmas for `C04.emit_expr_correct`), part 4
-/

namespace Amaranth.Rtlil
open Amaranth

theorem emitOp2_wires (o : Op2) (ra rb : Res) : ∃ ws, (emitOp2 o ra rb).wires = (ra.wires ++ rb.wires) ++ ws := by
  cases o <;> exact ⟨_, rfl⟩

theorem mask_b2i' (b : Bool) : b2i b = mask 1 (b2i b) := (mask_b2i b).symm

theorem ofInt_cast_mask (w : Nat) (x : Int) : ((ofInt w x : Nat) : Int) = mask w x := ofInt_cast w x

theorem beq_int_decide (x y : Int) : (x == y) = decide (x = y) := by
  by_cases h : x = y <;> simp [h]

theorem bne_int_decide (x y : Int) : (x != y) = decide (x ≠ y) := by
  by_cases h : x = y <;> simp [h]

/-- truncation of a result that is already reduced modulo a larger power of two -/
theorem take_mod (w w' : Nat) (z : Int) (h : w ≤ w') : ((ofInt w' z % 2 ^ w : Nat) : Int) = mask w z := by
  push_cast
  rw [ofInt_cast]
  exact Int.emod_emod_of_dvd _ (pow_dvd_pow_int h)

theorem WidthsOk.after {c : Ctx} {ws : List (String × Nat)} {ns : List Node} {e : Emitted} {sg : Bool}
    (h : WidthsOk c (Res.after ws ns e sg).wires) : WidthsOk c e.wires := WidthsOk.right (a := ws) h

theorem eq_ofInt_of_toInt {s : Bool} {w n : Nat} {x : Int} (h : toInt s w n = x) (hn : n < 2 ^ w) : n = ofInt w x :=
  eq_ofInt hn (h ▸ (toInt_modEq s w n).symm)

theorem unify_signed (a b : Shape) : (Shape.unify a b).signed = (a.signed || b.signed) := by
  unfold Shape.unify; split <;> simp_all

/-- the conditional second extension of `//` -/
theorem ext_if (env : Env) (v : Val) (s : Bool) (n w : Nat) (hn : v.length = n) (hs : s = true → v ≠ []) :
    (if n < w then extendV v s w else v).length = max n w ∧
    toInt s (max n w) (valOf env (if n < w then extendV v s w else v)) = sval s env v ∧
    (∀ k, v.old k → (if n < w then extendV v s w else v).old k) := by
  by_cases h : n < w
  · simp only [h, if_true]
    have hm : max n w = w := by omega
    rw [hm]
    exact ⟨extendV_length _ _ _ (by omega), toInt_ext env v s w (by omega) hs, fun k hk => old_extendV hk _ _⟩
  · simp only [h, if_false]
    have hm : max n w = n := by omega
    rw [hm]
    exact ⟨hn, by unfold sval; rw [hn], fun k hk => hk⟩

theorem natCast_div_pow (a b : Nat) : ((a / 2 ^ b : Nat) : Int) = (a : Int) / 2 ^ b := by
  push_cast; rfl

section
variable (c : Ctx) (m : Mems) (ctx : Amaranth.Ctx) (env : Amaranth.Env)

theorem emitsOk_op2 (o : Op2) (a b : Expr) (hwa : (shapeOf ctx a).WF) (hwb : (shapeOf ctx b).WF)
    (hsh : (o = .shl ∨ o = .shr) → (shapeOf ctx b).signed = false)
    (iha : EmitsOk c m ctx env a) (ihb : EmitsOk c m ctx env b) : EmitsOk c m ctx env (.op2 o a b) := by
  intro k renv hse hw
  have hE : emitE ctx (.op2 o a b) k = emitOp2 o (emitE ctx a k) (emitE ctx b (emitE ctx a k).next) := rfl
  rw [hE] at hw ⊢
  generalize hra : emitE ctx a k = ra at hw ⊢
  generalize hrb : emitE ctx b ra.next = rb at hw ⊢
  obtain ⟨ws, hws⟩ := emitOp2_wires o ra rb
  have hw0 : WidthsOk c (ra.wires ++ rb.wires) := by rw [hws] at hw; exact hw.left
  obtain ⟨renv2, hrun, hfr, hk, oa, ob, la, lb, sga, sgb, xa, xb, nea, neb⟩ :=
    op2_operands c m ctx env a b hwa hwb iha ihb k renv hse ra rb hra.symm hrb.symm hw0
  clear hws ws hw0 hra hrb
  -- the unified operands
  obtain ⟨hu1, hu2, hu3, hxa, hxb, hle1, hle2, hpos⟩ := unify_facts renv2 ra.val rb.val ra.signed rb.signed nea neb
  have hU : Shape.unify ⟨ra.val.length, ra.signed⟩ ⟨rb.val.length, rb.signed⟩ = Shape.unify (shapeOf ctx a) (shapeOf ctx b) := by
    rw [la, lb, sga, sgb]; rfl
  rw [hU] at hu1 hu2 hu3 hxa hxb hle1 hle2 hpos
  rw [xa] at hxa
  rw [xb] at hxb
  obtain ⟨oua, oub⟩ := old_unify oa ob ra.signed rb.signed
  generalize hUdef : Shape.unify (shapeOf ctx a) (shapeOf ctx b) = U at *
  generalize hx : norm (shapeOf ctx a) (evalRtl ctx env a) = x at *
  generalize hy : norm (shapeOf ctx b) (evalRtl ctx env b) = y at *
  have hneU1 : U.signed = true → (unifyVals ra.val ra.signed rb.val rb.signed).1 ≠ [] :=
    fun h => ne_nil_of_len hu1 (hpos h)
  have hneU2 : U.signed = true → (unifyVals ra.val ra.signed rb.val rb.signed).2.1 ≠ [] :=
    fun h => ne_nil_of_len hu2 (hpos h)
  have hA : toInt U.signed U.width (valOf renv2 (unifyVals ra.val ra.signed rb.val rb.signed).1) = x := by
    rw [← hxa]; unfold sval; rw [hu1]
  have hB : toInt U.signed U.width (valOf renv2 (unifyVals ra.val ra.signed rb.val rb.signed).2.1) = y := by
    rw [← hxb]; unfold sval; rw [hu2]
  have hev : evalRtl ctx env (.op2 o a b) = binop o x y := by rw [← hx, ← hy]; rfl
  cases o with
  | add =>
    have hw' : WidthsOk c ((ra.wires ++ rb.wires) ++ (emitBinary .add
        (extendV (unifyVals ra.val ra.signed rb.val rb.signed).1 (unifyVals ra.val ra.signed rb.val rb.signed).2.2.signed
          ((unifyVals ra.val ra.signed rb.val rb.signed).1.length + 1))
        (extendV (unifyVals ra.val ra.signed rb.val rb.signed).2.1 (unifyVals ra.val ra.signed rb.val rb.signed).2.2.signed
          ((unifyVals ra.val ra.signed rb.val rb.signed).1.length + 1)) rb.next).wires) := hw
    show ResSound c m ctx env (.op2 .add a b) k renv (Res.after (ra.wires ++ rb.wires) (ra.nodes ++ rb.nodes) (emitBinary .add
        (extendV (unifyVals ra.val ra.signed rb.val rb.signed).1 (unifyVals ra.val ra.signed rb.val rb.signed).2.2.signed
          ((unifyVals ra.val ra.signed rb.val rb.signed).1.length + 1))
        (extendV (unifyVals ra.val ra.signed rb.val rb.signed).2.1 (unifyVals ra.val ra.signed rb.val rb.signed).2.2.signed
          ((unifyVals ra.val ra.signed rb.val rb.signed).1.length + 1)) rb.next) (unifyVals ra.val ra.signed rb.val rb.signed).2.2.signed)
    rw [hu3, hu1] at hw' ⊢
    have l1 := extendV_length (unifyVals ra.val ra.signed rb.val rb.signed).1 U.signed (U.width + 1) (by omega)
    have l2 := extendV_length (unifyVals ra.val ra.signed rb.val rb.signed).2.1 U.signed (U.width + 1) (by omega)
    refine resSound_after c m ctx env (.op2 .add a b) _ hrun hfr hk
      (emitBinary_sound c m _ _ rb.next renv2 .add (Or.inr (by rw [l1, l2])) (old_extendV oua _ _) (old_extendV oub _ _) hw'.right)
      _ (by rw [← hUdef]; rfl) ?_ ?_
    · show (wireBits _ 0 _).length = _
      rw [wireBits_length, l1, ← hUdef]; rfl
    · intro out hout
      have h2 := hout U.signed
      rw [l1, toInt_ext _ _ _ _ (by omega) hneU1, toInt_ext _ _ _ _ (by omega) hneU2, hxa, hxb] at h2
      rw [h2, ofInt_cast_mask, hev, ← hUdef]
      rfl
  | sub =>
    simp only [emitOp2] at hw ⊢
    rw [hu3, hu1] at hw ⊢
    have l1 := extendV_length (unifyVals ra.val ra.signed rb.val rb.signed).1 U.signed (U.width + 1) (by omega)
    have l2 := extendV_length (unifyVals ra.val ra.signed rb.val rb.signed).2.1 U.signed (U.width + 1) (by omega)
    refine resSound_after c m ctx env (.op2 .sub a b) _ hrun hfr hk
      (emitBinary_sound c m _ _ rb.next renv2 .sub (Or.inr (by rw [l1, l2])) (old_extendV oua _ _) (old_extendV oub _ _) hw.after)
      _ rfl ?_ ?_
    · show (wireBits _ 0 _).length = _
      rw [wireBits_length, l1, ← hUdef]; rfl
    · intro out hout
      have h2 := hout U.signed
      rw [l1, toInt_ext _ _ _ _ (by omega) hneU1, toInt_ext _ _ _ _ (by omega) hneU2, hxa, hxb] at h2
      rw [h2, ofInt_cast_mask, hev, ← hUdef]
      rfl
  | mul =>
    simp only [emitOp2] at hw ⊢
    have l1 := extendV_length ra.val ra.signed (ra.val.length + rb.val.length) (by omega)
    have l2 := extendV_length rb.val rb.signed (ra.val.length + rb.val.length) (by omega)
    refine resSound_after c m ctx env (.op2 .mul a b) _ hrun hfr hk
      (emitBinary_sound c m _ _ rb.next renv2 .mul (Or.inr (by rw [l1, l2])) (old_extendV oa _ _) (old_extendV ob _ _) hw.after)
      _ (by rw [sga, sgb]; rfl) ?_ ?_
    · show (wireBits _ 0 _).length = _
      rw [wireBits_length, l1, la, lb]; rfl
    · intro out hout
      have h2 := hout false
      rw [l1] at h2
      have e1 := toInt_ext renv2 ra.val ra.signed (ra.val.length + rb.val.length) (by omega) nea
      have e2 := toInt_ext renv2 rb.val rb.signed (ra.val.length + rb.val.length) (by omega) neb
      rw [xa] at e1
      rw [xb] at e2
      have hcA : toInt false (ra.val.length + rb.val.length)
          (valOf renv2 (extendV ra.val ra.signed (ra.val.length + rb.val.length))) ≡ x [ZMOD 2 ^ (ra.val.length + rb.val.length)] := by
        rw [← e1]; exact toInt_congr_sign false ra.signed _ _
      have hcB : toInt false (ra.val.length + rb.val.length)
          (valOf renv2 (extendV rb.val rb.signed (ra.val.length + rb.val.length))) ≡ y [ZMOD 2 ^ (ra.val.length + rb.val.length)] := by
        rw [← e2]; exact toInt_congr_sign false rb.signed _ _
      have hc := hcA.mul hcB
      rw [h2, ofInt_congr hc, ofInt_cast_mask, hev, la, lb]
      rfl
  | and =>
    simp only [emitOp2] at hw ⊢
    rw [hu3] at hw ⊢
    refine resSound_after c m ctx env (.op2 .and a b) _ hrun hfr hk
      (emitBinary_sound c m _ _ rb.next renv2 .and (Or.inr (by rw [hu1, hu2])) oua oub hw.after) _ (by rw [← hUdef]; rfl) ?_ ?_
    · show (wireBits _ 0 _).length = _
      rw [wireBits_length, hu1, ← hUdef]; rfl
    · intro out hout
      have h2 : out = _ &&& _ := hout
      have ltA := valOf_lt renv2 (unifyVals ra.val ra.signed rb.val rb.signed).1
      have ltB := valOf_lt renv2 (unifyVals ra.val ra.signed rb.val rb.signed).2.1
      rw [hu1] at ltA
      rw [hu2] at ltB
      rw [h2, eq_ofInt_of_toInt hA ltA, eq_ofInt_of_toInt hB ltB, and_ofInt, ofInt_cast_mask, hev, ← hUdef]
      rfl
  | or =>
    simp only [emitOp2] at hw ⊢
    rw [hu3] at hw ⊢
    refine resSound_after c m ctx env (.op2 .or a b) _ hrun hfr hk
      (emitBinary_sound c m _ _ rb.next renv2 .or (Or.inr (by rw [hu1, hu2])) oua oub hw.after) _ (by rw [← hUdef]; rfl) ?_ ?_
    · show (wireBits _ 0 _).length = _
      rw [wireBits_length, hu1, ← hUdef]; rfl
    · intro out hout
      have h2 : out = _ ||| _ := hout
      have ltA := valOf_lt renv2 (unifyVals ra.val ra.signed rb.val rb.signed).1
      have ltB := valOf_lt renv2 (unifyVals ra.val ra.signed rb.val rb.signed).2.1
      rw [hu1] at ltA
      rw [hu2] at ltB
      rw [h2, eq_ofInt_of_toInt hA ltA, eq_ofInt_of_toInt hB ltB, or_ofInt, ofInt_cast_mask, hev, ← hUdef]
      rfl
  | xor =>
    simp only [emitOp2] at hw ⊢
    rw [hu3] at hw ⊢
    refine resSound_after c m ctx env (.op2 .xor a b) _ hrun hfr hk
      (emitBinary_sound c m _ _ rb.next renv2 .xor (Or.inr (by rw [hu1, hu2])) oua oub hw.after) _ (by rw [← hUdef]; rfl) ?_ ?_
    · show (wireBits _ 0 _).length = _
      rw [wireBits_length, hu1, ← hUdef]; rfl
    · intro out hout
      have h2 : out = _ ^^^ _ := hout
      have ltA := valOf_lt renv2 (unifyVals ra.val ra.signed rb.val rb.signed).1
      have ltB := valOf_lt renv2 (unifyVals ra.val ra.signed rb.val rb.signed).2.1
      rw [hu1] at ltA
      rw [hu2] at ltB
      rw [h2, eq_ofInt_of_toInt hA ltA, eq_ofInt_of_toInt hB ltB, xor_ofInt, ofInt_cast_mask, hev, ← hUdef]
      rfl
  | eq =>
    simp only [emitOp2] at hw ⊢
    refine resSound_after c m ctx env (.op2 .eq a b) _ hrun hfr hk
      (emitBinary_sound c m _ _ rb.next renv2 .eq (Or.inr (by rw [hu1, hu2])) oua oub hw.after) _ rfl ?_ ?_
    · show (wireBits _ 0 _).length = _
      rw [wireBits_length]; rfl
    · intro out hout
      have h2 := hout U.signed
      rw [hu1, hA, hB] at h2
      rw [h2, b2n_cast, hev]
      show _ = mask 1 (b2i (x == y))
      rw [mask_b2i, beq_int_decide]
  | ne =>
    simp only [emitOp2] at hw ⊢
    refine resSound_after c m ctx env (.op2 .ne a b) _ hrun hfr hk
      (emitBinary_sound c m _ _ rb.next renv2 .ne (Or.inr (by rw [hu1, hu2])) oua oub hw.after) _ rfl ?_ ?_
    · show (wireBits _ 0 _).length = _
      rw [wireBits_length]; rfl
    · intro out hout
      have h2 := hout U.signed
      rw [hu1, hA, hB] at h2
      rw [h2, b2n_cast, hev]
      show _ = mask 1 (b2i (x != y))
      rw [mask_b2i, bne_int_decide]
  | lt =>
    simp only [emitOp2] at hw ⊢
    rw [hu3] at hw ⊢
    obtain ⟨W, S⟩ := U
    cases S with
    | false =>
      simp only [Bool.false_eq_true, if_false] at hw ⊢
      refine resSound_after c m ctx env (.op2 .lt a b) _ hrun hfr hk
        (emitBinary_sound c m _ _ rb.next renv2 .ult (Or.inr (by rw [hu1, hu2])) oua oub hw.after) _ rfl ?_ ?_
      · show (wireBits _ 0 _).length = _
        rw [wireBits_length]; rfl
      · intro out hout
        have h2 : out = b2n (decide _) := hout
        rw [hu1, hA, hB] at h2
        rw [h2, b2n_cast, hev]
        show _ = mask 1 (b2i (decide _))
        rw [mask_b2i]
    | true =>
      simp only [if_true] at hw ⊢
      refine resSound_after c m ctx env (.op2 .lt a b) _ hrun hfr hk
        (emitBinary_sound c m _ _ rb.next renv2 .slt (Or.inr (by rw [hu1, hu2])) oua oub hw.after) _ rfl ?_ ?_
      · show (wireBits _ 0 _).length = _
        rw [wireBits_length]; rfl
      · intro out hout
        have h2 : out = b2n (decide _) := hout
        rw [hu1, hA, hB] at h2
        rw [h2, b2n_cast, hev]
        show _ = mask 1 (b2i (decide _))
        rw [mask_b2i]
  | le =>
    simp only [emitOp2] at hw ⊢
    rw [hu3] at hw ⊢
    obtain ⟨W, S⟩ := U
    cases S with
    | false =>
      simp only [Bool.false_eq_true, if_false] at hw ⊢
      refine resSound_after c m ctx env (.op2 .le a b) _ hrun hfr hk
        (emitBinary_sound c m _ _ rb.next renv2 .ule (Or.inr (by rw [hu1, hu2])) oua oub hw.after) _ rfl ?_ ?_
      · show (wireBits _ 0 _).length = _
        rw [wireBits_length]; rfl
      · intro out hout
        have h2 : out = b2n (decide _) := hout
        rw [hu1, hA, hB] at h2
        rw [h2, b2n_cast, hev]
        show _ = mask 1 (b2i (decide _))
        rw [mask_b2i]
    | true =>
      simp only [if_true] at hw ⊢
      refine resSound_after c m ctx env (.op2 .le a b) _ hrun hfr hk
        (emitBinary_sound c m _ _ rb.next renv2 .sle (Or.inr (by rw [hu1, hu2])) oua oub hw.after) _ rfl ?_ ?_
      · show (wireBits _ 0 _).length = _
        rw [wireBits_length]; rfl
      · intro out hout
        have h2 : out = b2n (decide _) := hout
        rw [hu1, hA, hB] at h2
        rw [h2, b2n_cast, hev]
        show _ = mask 1 (b2i (decide _))
        rw [mask_b2i]
  | gt =>
    simp only [emitOp2] at hw ⊢
    rw [hu3] at hw ⊢
    obtain ⟨W, S⟩ := U
    cases S with
    | false =>
      simp only [Bool.false_eq_true, if_false] at hw ⊢
      refine resSound_after c m ctx env (.op2 .gt a b) _ hrun hfr hk
        (emitBinary_sound c m _ _ rb.next renv2 .ugt (Or.inr (by rw [hu1, hu2])) oua oub hw.after) _ rfl ?_ ?_
      · show (wireBits _ 0 _).length = _
        rw [wireBits_length]; rfl
      · intro out hout
        have h2 : out = b2n (decide _) := hout
        rw [hu1, hA, hB] at h2
        rw [h2, b2n_cast, hev]
        show _ = mask 1 (b2i (decide _))
        rw [mask_b2i]
    | true =>
      simp only [if_true] at hw ⊢
      refine resSound_after c m ctx env (.op2 .gt a b) _ hrun hfr hk
        (emitBinary_sound c m _ _ rb.next renv2 .sgt (Or.inr (by rw [hu1, hu2])) oua oub hw.after) _ rfl ?_ ?_
      · show (wireBits _ 0 _).length = _
        rw [wireBits_length]; rfl
      · intro out hout
        have h2 : out = b2n (decide _) := hout
        rw [hu1, hA, hB] at h2
        rw [h2, b2n_cast, hev]
        show _ = mask 1 (b2i (decide _))
        rw [mask_b2i]
  | ge =>
    simp only [emitOp2] at hw ⊢
    rw [hu3] at hw ⊢
    obtain ⟨W, S⟩ := U
    cases S with
    | false =>
      simp only [Bool.false_eq_true, if_false] at hw ⊢
      refine resSound_after c m ctx env (.op2 .ge a b) _ hrun hfr hk
        (emitBinary_sound c m _ _ rb.next renv2 .uge (Or.inr (by rw [hu1, hu2])) oua oub hw.after) _ rfl ?_ ?_
      · show (wireBits _ 0 _).length = _
        rw [wireBits_length]; rfl
      · intro out hout
        have h2 : out = b2n (decide _) := hout
        rw [hu1, hA, hB] at h2
        rw [h2, b2n_cast, hev]
        show _ = mask 1 (b2i (decide _))
        rw [mask_b2i]
    | true =>
      simp only [if_true] at hw ⊢
      refine resSound_after c m ctx env (.op2 .ge a b) _ hrun hfr hk
        (emitBinary_sound c m _ _ rb.next renv2 .sge (Or.inr (by rw [hu1, hu2])) oua oub hw.after) _ rfl ?_ ?_
      · show (wireBits _ 0 _).length = _
        rw [wireBits_length]; rfl
      · intro out hout
        have h2 : out = b2n (decide _) := hout
        rw [hu1, hA, hB] at h2
        rw [h2, b2n_cast, hev]
        show _ = mask 1 (b2i (decide _))
        rw [mask_b2i]
  | fdiv =>
    simp only [emitOp2] at hw ⊢
    rw [hu3, hu1] at hw ⊢
    obtain ⟨lA, tA, oA⟩ := ext_if renv2 (unifyVals ra.val ra.signed rb.val rb.signed).1 U.signed U.width
      (ra.val.length + if rb.signed = true then 1 else 0) hu1 hneU1
    obtain ⟨lB, tB, oB⟩ := ext_if renv2 (unifyVals ra.val ra.signed rb.val rb.signed).2.1 U.signed U.width
      (ra.val.length + if rb.signed = true then 1 else 0) hu2 hneU2
    rw [hxa] at tA
    rw [hxb] at tB
    have hsg : U.signed = (shapeOf ctx (.op2 .fdiv a b)).signed := by rw [← hUdef, unify_signed]; rfl
    have hwle : (ra.val.length + if rb.signed = true then 1 else 0)
        ≤ max U.width (ra.val.length + if rb.signed = true then 1 else 0) := Nat.le_max_right _ _
    have hwid : (ra.val.length + if rb.signed = true then 1 else 0) = widthOf ctx (.op2 .fdiv a b) := by
      rw [la, sgb]; rfl
    obtain ⟨W, S⟩ := U
    cases S with
    | false =>
      simp only [Bool.false_eq_true, if_false] at hw ⊢
      refine resSound_after c m ctx env (.op2 .fdiv a b) _ hrun hfr hk
        ((emitBinary_sound c m _ _ rb.next renv2 .udiv (Or.inr (by rw [lA, lB])) (oA _ oua) (oB _ oub) hw.after).take _) _ hsg ?_ ?_
      · show ((wireBits _ 0 _).take _).length = _
        rw [List.length_take, wireBits_length, lA, ← hwid]
        exact Nat.min_eq_left hwle
      · intro out hout
        obtain ⟨o', ho', hout⟩ := hout
        have h2 : o' = ofInt _ (zdiv _ _) := ho'
        rw [lA, tA, tB] at h2
        rw [hout, h2, take_mod _ _ _ hwle, hev, hwid]
        rfl
    | true =>
      simp only [if_true] at hw ⊢
      refine resSound_after c m ctx env (.op2 .fdiv a b) _ hrun hfr hk
        ((emitBinary_sound c m _ _ rb.next renv2 .sdiv (Or.inr (by rw [lA, lB])) (oA _ oua) (oB _ oub) hw.after).take _) _ hsg ?_ ?_
      · show ((wireBits _ 0 _).take _).length = _
        rw [List.length_take, wireBits_length, lA, ← hwid]
        exact Nat.min_eq_left hwle
      · intro out hout
        obtain ⟨o', ho', hout⟩ := hout
        have h2 : o' = ofInt _ (zdiv _ _) := ho'
        rw [lA, tA, tB] at h2
        rw [hout, h2, take_mod _ _ _ hwle, hev, hwid]
        rfl
  | mod =>
    simp only [emitOp2] at hw ⊢
    rw [hu3] at hw ⊢
    have hwid : rb.val.length = widthOf ctx (.op2 .mod a b) := by rw [lb]; rfl
    obtain ⟨W, S⟩ := U
    cases S with
    | false =>
      simp only [Bool.false_eq_true, if_false] at hw ⊢
      refine resSound_after c m ctx env (.op2 .mod a b) _ hrun hfr hk
        ((emitBinary_sound c m _ _ rb.next renv2 .umod (Or.inr (by rw [hu1, hu2])) oua oub hw.after).take _) _ sgb ?_ ?_
      · show ((wireBits _ 0 _).take _).length = _
        rw [List.length_take, wireBits_length, hu1, ← hwid]
        exact Nat.min_eq_left hle2
      · intro out hout
        obtain ⟨o', ho', hout⟩ := hout
        have h2 : o' = ofInt _ (zmod _ _) := ho'
        rw [hu1, hA, hB] at h2
        rw [hout, h2, take_mod _ _ _ hle2, hev, hwid]
        rfl
    | true =>
      simp only [if_true] at hw ⊢
      refine resSound_after c m ctx env (.op2 .mod a b) _ hrun hfr hk
        ((emitBinary_sound c m _ _ rb.next renv2 .smod (Or.inr (by rw [hu1, hu2])) oua oub hw.after).take _) _ sgb ?_ ?_
      · show ((wireBits _ 0 _).take _).length = _
        rw [List.length_take, wireBits_length, hu1, ← hwid]
        exact Nat.min_eq_left hle2
      · intro out hout
        obtain ⟨o', ho', hout⟩ := hout
        have h2 : o' = ofInt _ (zmod _ _) := ho'
        rw [hu1, hA, hB] at h2
        rw [hout, h2, take_mod _ _ _ hle2, hev, hwid]
        rfl
  | shl =>
    simp only [emitOp2] at hw ⊢
    have hbs : rb.signed = false := by rw [sgb]; exact hsh (Or.inl rfl)
    have hp := Nat.one_le_two_pow (n := rb.val.length)
    have l1 := extendV_length ra.val ra.signed (ra.val.length + 2 ^ rb.val.length - 1) (by omega)
    have hyv : y.toNat = valOf renv2 rb.val := by
      have : (valOf renv2 rb.val : Int) = y := by
        rw [← xb, hbs]; simp [sval, toInt]
      omega
    refine resSound_after c m ctx env (.op2 .shl a b) _ hrun hfr hk
      (emitBinary_sound c m _ _ rb.next renv2 .shl (Or.inl rfl) (old_extendV oa _ _) ob hw.after) _ sga ?_ ?_
    · show (wireBits _ 0 _).length = _
      rw [wireBits_length, l1, la, lb]; rfl
    · intro out hout
      have h2 := hout ra.signed
      rw [l1, toInt_ext _ _ _ _ (by omega) nea, xa] at h2
      rw [h2, ofInt_cast_mask, hev, la, lb]
      show mask _ (x * 2 ^ valOf renv2 rb.val) = mask _ (pyShl x y.toNat)
      rw [hyv]; rfl
  | shr =>
    simp only [emitOp2] at hw ⊢
    have hbs : rb.signed = false := by rw [sgb]; exact hsh (Or.inr rfl)
    have hyv : y.toNat = valOf renv2 rb.val := by
      have : (valOf renv2 rb.val : Int) = y := by
        rw [← xb, hbs]; simp [sval, toInt]
      omega
    have hwid : ra.val.length = widthOf ctx (.op2 .shr a b) := by rw [la]; rfl
    cases hsa : ra.signed with
    | false =>
      rw [hsa] at hw xa sga
      simp only [Bool.false_eq_true, if_false] at hw ⊢
      refine resSound_after c m ctx env (.op2 .shr a b) _ hrun hfr hk
        (emitBinary_sound c m _ _ rb.next renv2 .ushr (Or.inl rfl) oa ob hw.after) _ sga ?_ ?_
      · show (wireBits _ 0 _).length = _
        rw [wireBits_length]; exact hwid
      · intro out hout
        have h2 : out = valOf renv2 ra.val / 2 ^ valOf renv2 rb.val := hout
        have hxv : (valOf renv2 ra.val : Int) = x := by rw [← xa]; simp [sval, toInt]
        have hlt := valOf_lt renv2 ra.val
        rw [h2, natCast_div_pow, hxv, hev, ← hwid]
        show _ = mask _ (pyShr x y.toNat)
        rw [hyv]
        unfold mask pyShr
        have h0 : 0 ≤ x := by rw [← hxv]; positivity
        have hltI : x < 2 ^ ra.val.length := by rw [← hxv]; exact_mod_cast hlt
        have hd0 : 0 ≤ x / 2 ^ valOf renv2 rb.val := Int.ediv_nonneg h0 (by positivity)
        have hd1 : x / 2 ^ valOf renv2 rb.val ≤ x := Int.ediv_le_self _ h0
        exact (Int.emod_eq_of_lt hd0 (by omega)).symm
    | true =>
      rw [hsa] at hw xa sga
      simp only [if_true] at hw ⊢
      refine resSound_after c m ctx env (.op2 .shr a b) _ hrun hfr hk
        (emitBinary_sound c m _ _ rb.next renv2 .sshr (Or.inl rfl) oa ob hw.after) _ sga ?_ ?_
      · show (wireBits _ 0 _).length = _
        rw [wireBits_length]; exact hwid
      · intro out hout
        have h2 : out = ofInt ra.val.length (toInt true ra.val.length (valOf renv2 ra.val) / 2 ^ valOf renv2 rb.val) := hout
        have hxv : toInt true ra.val.length (valOf renv2 ra.val) = x := xa
        rw [h2, hxv, ofInt_cast_mask, hev, ← hwid]
        show _ = mask _ (pyShr x y.toNat)
        rw [hyv]; rfl

end

end Amaranth.Rtlil
