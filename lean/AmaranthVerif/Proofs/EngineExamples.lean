import AmaranthVerif.Proofs.EngineAppended2

/-!
# Concrete simulations used as non-vacuity instances by `Properties/C08.lean`

Small designs with real compiled circuit processes, so that the hypotheses of the schedule
independence theorems are shown to hold (by `decide`) on something that contains a circuit.
-/

namespace Amaranth.Engine.Ex
open Amaranth Amaranth.Engine

/-- signals: `0` clk, `1` count (4 bits, init 5), `2` out (4 bits).
`sync`: `count := count + 1`; `comb`: `out := count ^ 3`. -/
def counterD : Design :=
  { ctx := [Shape.u 1, Shape.u 4, Shape.u 4], inits := [0, 5, 0], resetLess := [false, false, false],
    doms := [{ clk := 0 }],
    procs := [{ dom := some 0, body := .assign (.sig 1) (.op2 .add (.sig 1) (.const 1 (Shape.u 1))) },
              { dom := none, body := .assign (.sig 2) (.op2 .xor (.sig 1) (.const 3 (Shape.u 4))) }] }

/-- an added clock: phase 2 fs, period 4 fs -/
def counterExtra : List ProcKind := [.clock 0 2 4]

/-- the owners: `[sync, comb, clock]` -/
def counterKinds : List ProcKind := circuitKinds counterD ++ counterExtra

def counterScripts : List (List TbOp) :=
  [[.tick 0 [.sig 1, .sig 2], .get (.sig 2), .tick 0 [.sig 1], .get (.sig 1)]]

/-- signals: `0` clk, `1` rst, `2` count (init 5), `3` out; the domain has an asynchronous reset.
The compiler creates `[arst, sync, comb]`: the first two share their masks. -/
def arstD : Design :=
  { ctx := [Shape.u 1, Shape.u 1, Shape.u 4, Shape.u 4], inits := [0, 0, 5, 0],
    resetLess := [false, false, false, false],
    doms := [{ clk := 0, rst := some 1, async := true }],
    procs := [{ dom := some 0, body := .assign (.sig 2) (.op2 .add (.sig 2) (.const 1 (Shape.u 1))) },
              { dom := none, body := .assign (.sig 3) (.op2 .xor (.sig 2) (.const 3 (Shape.u 4))) }] }

def arstKinds : List ProcKind := circuitKinds arstD ++ []

/-- the testbench drives the clock by hand; `set(Cat(clk, rst), 3)` makes the clock edge and the rising
reset coincide: the reset-only process and the synchronous process run in the same delta -/
def arstScripts : List (List TbOp) :=
  [[.set (.sig 0) 1, .get (.sig 2), .set (.sig 0) 0, .set (.cat (.sig 0) (.sig 1)) 3, .get (.sig 2), .get (.sig 3),
    .set (.cat (.sig 0) (.sig 1)) 0, .set (.sig 0) 1, .get (.sig 2), .set (.sig 1) 1, .get (.sig 2)]]

/-- an unreachable state of `arstD`: the reset-only process and the synchronous process are both
runnable while the reset is `0` -/
def arstBadState : EState :=
  { curr := [0, 0, 5, 6], next := [0, 0, 5, 6],
    locals := [{ runnable := true }, { runnable := true }, {}], timers := [none, none, none] }

/-- the counter simulation under the identity schedule, and its state after the first `advance()`:
the clock is due at 2 fs, the testbench is suspended on its first tick -/
def counterSim : Sim := mkSim counterD counterKinds counterScripts (identitySched 3 3) 50
def counterS1 : EState := advanceN counterSim 1 (initState counterD counterKinds counterScripts)

/-- a design without logic and a testbench that waits for a delay -/
def delayD : Design := { ctx := [Shape.u 1], inits := [0], resetLess := [false], doms := [], procs := [] }
def delayScripts : List (List TbOp) := [[.wait [.delay 5, .sample (.sig 0)], .get (.sig 0)]]
def delaySim : Sim := mkSim delayD [] delayScripts (identitySched 0 1) 9

/-- `out := in ^ 3` and two testbenches: the first writes `in`, the second reads `out` -/
def orderD : Design :=
  { ctx := [Shape.u 4, Shape.u 4], inits := [0, 0], resetLess := [false, false], doms := [],
    procs := [{ dom := none, body := .assign (.sig 1) (.op2 .xor (.sig 0) (.const 3 (Shape.u 4))) }] }
def orderScripts : List (List TbOp) := [[.set (.sig 0) 7], [.get (.sig 1)]]
def orderSim : Sim := mkSim orderD (circuitKinds orderD) orderScripts (identitySched 1 2) 20
/-- the state in which the first pass over the testbenches starts -/
def orderS0 : EState := orderSim.step (initState orderD (circuitKinds orderD) orderScripts)

/-! ### a circuit replaced by a process -/

/-- signals: `0` in (4 bits), `1` out (4 bits), `2` a free-running 1-bit clock signal; no compiled logic besides
the replaced assignment `out := in ^ 3` -/
def replCombD : Design :=
  { ctx := [Shape.u 4, Shape.u 4, Shape.u 1], inits := [0, 0, 0], resetLess := [false, false, false],
    doms := [], procs := [] }
def replCombE : Expr := .op2 .xor (.sig 0) (.const 3 (Shape.u 4))
/-- a clock process before the replaced one: the replaced owner has index 1 -/
def replCombPre : List ProcKind := [.clock 2 2 4]
def replCombScripts : List (List TbOp) :=
  [[.get (.sig 1), .set (.sig 0) 7, .get (.sig 1), .wait [.delay 3, .sample (.sig 2)], .setFrom (.sig 0) (.sig 1),
    .get (.sig 1)]]

/-- signals: `0` clk, `1` rst (synchronous), `2` count (init 5), `3` out; the replaced register is
`count := count + 1`; after it a compiled `out := count ^ 3` and the clock -/
def replSyncD : Design :=
  { ctx := [Shape.u 1, Shape.u 1, Shape.u 4, Shape.u 4], inits := [0, 0, 5, 0],
    resetLess := [false, false, false, false], doms := [{ clk := 0, rst := some 1 }], procs := [] }
def replSyncE : Expr := .op2 .add (.sig 2) (.const 1 (Shape.u 1))
def replSyncPost : List ProcKind :=
  [.comb (.assign (.sig 3) (.op2 .xor (.sig 2) (.const 3 (Shape.u 4)))), .clock 0 2 4]
def replSyncScripts : List (List TbOp) :=
  [[.tick 0 [.sig 2, .sig 3], .get (.sig 2), .set (.sig 1) 1, .tick 0 [.sig 2], .get (.sig 2), .set (.sig 1) 0,
    .tick 0 [], .get (.sig 3)]]

/-! ### the compiled process removed, the user process appended -/

/-- `out := in ^ 3` first, then the clock process: after the replacement the process list is `[clock, userComb]` -/
def replCombPost : List ProcKind := [.clock 2 2 4]

/-- the register `count := count + 1` of `arstD` (asynchronous reset): the compiler's `[arst, sync]` pair, followed
by the compiled `out := count ^ 3` -/
def replAsyncE : Expr := .op2 .add (.sig 2) (.const 1 (Shape.u 1))
def replAsyncPost : List ProcKind := [.comb (.assign (.sig 3) (.op2 .xor (.sig 2) (.const 3 (Shape.u 4))))]
/-- the process list after the replacement: `[comb, userSync]` -/
def replAsyncB : List ProcKind := [] ++ replAsyncPost ++ [ProcKind.userSync 0 (exprSigs replAsyncE) 2 replAsyncE]

end Amaranth.Engine.Ex
