import AmaranthVerif.Model.IoBuf
import AmaranthVerif.Spec.IoBuf

/-! # Bit-level lemmas for `Buffer` / `FFBuffer` (helper file of C18) -/

namespace Amaranth.IoBuf
open Spec (toBits ofBits)

theorem testBit_ofBits (l : List Bool) (k : Nat) : (ofBits l).testBit k = l.getD k false := by
  induction l generalizing k with
  | nil => simp [ofBits]
  | cons b bs ih =>
    cases k with
    | zero =>
      simp only [ofBits, Nat.testBit_zero, List.getD_cons_zero]
      cases b <;> simp <;> omega
    | succ k =>
      simp only [ofBits, Nat.testBit_succ, List.getD_cons_succ]
      have : (b.toNat + 2 * ofBits bs) / 2 = ofBits bs := by cases b <;> simp <;> omega
      rw [this, ih]

theorem ofBits_lt (l : List Bool) : ofBits l < 2 ^ l.length := by
  induction l with
  | nil => simp [ofBits]
  | cons b bs ih =>
    simp only [ofBits, List.length_cons, Nat.pow_succ]
    cases b <;> simp <;> omega

theorem invertMaskFrom_eq (idx : Nat) (l : List Bool) : invertMaskFrom idx l = 2 ^ idx * ofBits l := by
  induction l generalizing idx with
  | nil => simp [invertMaskFrom, ofBits]
  | cons b bs ih =>
    simp only [invertMaskFrom, ofBits, ih, Nat.shiftLeft_eq, Nat.pow_succ]
    rw [Nat.mul_add, Nat.mul_comm b.toNat, Nat.mul_assoc]

theorem invertMask_eq (l : List Bool) : invertMask l = ofBits l := by
  simp [invertMask, invertMaskFrom_eq]

theorem testBit_invertMask (inv : List Bool) (k : Nat) : (invertMask inv).testBit k = inv.getD k false := by
  rw [invertMask_eq, testBit_ofBits]

theorem invertMask_lt (inv : List Bool) : invertMask inv < 2 ^ inv.length := by
  rw [invertMask_eq]; exact ofBits_lt inv

/-! ## `toBits` -/

@[simp] theorem toBits_length (w v : Nat) : (toBits w v).length = w := by simp [toBits]

theorem getElem_toBits {w v k : Nat} (h : k < (toBits w v).length) : (toBits w v)[k] = v.testBit k := by
  simp [toBits]

theorem toBits_ext {w a : Nat} {l : List Bool} (hl : l.length = w)
    (h : ∀ k (hk : k < l.length), a.testBit k = l[k]) : toBits w a = l := by
  apply List.ext_getElem (by simp [hl])
  intro k h1 h2
  rw [getElem_toBits, h k h2]

theorem toBits_zero (w : Nat) : toBits w 0 = List.replicate w false := by
  apply toBits_ext (by simp)
  intro k hk
  simp

/-- the inversion step of `Buffer.elaborate`: XOR with the mask, skipped when the mask is zero -/
theorem testBit_xorInv (inv : List Bool) (v k : Nat) (hk : k < inv.length) :
    (if invertMask inv ≠ 0 then trunc inv.length (v ^^^ invertMask inv) else v).testBit k
      = (v.testBit k ^^ inv.getD k false) := by
  split
  · simp [trunc, Nat.testBit_mod_two_pow, hk, Nat.testBit_xor, testBit_invertMask]
  · rename_i h0
    have h0 : invertMask inv = 0 := by omega
    have : inv.getD k false = false := by rw [← testBit_invertMask, h0]; simp
    rw [this]; simp

theorem toBits_xorInv (inv : List Bool) (v : Nat) :
    toBits inv.length (if invertMask inv ≠ 0 then trunc inv.length (v ^^^ invertMask inv) else v)
      = List.zipWith xor (toBits inv.length v) inv := by
  apply toBits_ext (by simp)
  intro k hk
  have hk' : k < inv.length := by simpa using hk
  rw [testBit_xorInv inv v k hk']
  simp [List.getElem_zipWith, getElem_toBits, List.getD_eq_getElem?_getD, List.getElem?_eq_getElem hk']

theorem xorInv_lt (inv : List Bool) (v : Nat) (hv : v < 2 ^ inv.length) :
    (if invertMask inv ≠ 0 then trunc inv.length (v ^^^ invertMask inv) else v) < 2 ^ inv.length := by
  split
  · exact Nat.mod_lt _ (Nat.two_pow_pos _)
  · exact hv

theorem toBits_replicateBit (b : Bool) (w : Nat) : toBits w (replicateBit b w) = List.replicate w b := by
  apply toBits_ext (by simp)
  intro k hk
  have hk' : k < w := by simpa using hk
  cases b <;> simp [replicateBit, Nat.testBit_two_pow_sub_one, hk']

theorem replicateBit_lt (b : Bool) (w : Nat) : replicateBit b w < 2 ^ w := by
  have := Nat.two_pow_pos w
  cases b <;> simp [replicateBit] <;> omega

theorem muxBits_lt (w sel a b : Nat) : muxBits w sel a b < 2 ^ w := by
  induction w with
  | zero => simp [muxBits]
  | succ w ih =>
    simp only [muxBits, Nat.shiftLeft_eq, Nat.pow_succ]
    have : (if sel.testBit w then a.testBit w else b.testBit w).toNat ≤ 1 := by
      cases (if sel.testBit w then a.testBit w else b.testBit w) <;> simp
    have h2 : (if sel.testBit w then a.testBit w else b.testBit w).toNat * 2 ^ w ≤ 1 * 2 ^ w :=
      Nat.mul_le_mul_right _ this
    omega

theorem testBit_muxBits (w sel a b k : Nat) :
    (muxBits w sel a b).testBit k =
      (decide (k < w) && (if sel.testBit k then a.testBit k else b.testBit k)) := by
  induction w with
  | zero => simp [muxBits]
  | succ w ih =>
    simp only [muxBits, Nat.shiftLeft_eq]
    rw [Nat.add_comm, Nat.mul_comm, Nat.testBit_two_pow_mul_add _ (muxBits_lt w sel a b)]
    by_cases hk : k < w
    · simp [hk, ih, show k < w + 1 by omega]
    · simp only [hk, if_false]
      by_cases hkw : k = w
      · subst hkw
        cases (if sel.testBit k then a.testBit k else b.testBit k) <;> simp
      · have : ¬ k < w + 1 := by omega
        have h1 : k - w = (k - w - 1) + 1 := by omega
        simp only [this, decide_false, Bool.false_and]
        rw [h1, Nat.testBit_succ]
        cases (if sel.testBit w then a.testBit w else b.testBit w) <;> simp

end Amaranth.IoBuf

namespace Amaranth.IoBuf
open Spec (toBits ofBits)

theorem toBits_notBits (w x : Nat) : toBits w (notBits w x) = (toBits w x).map not := by
  apply toBits_ext (by simp)
  intro k hk
  have hk' : k < w := by simpa using hk
  have hlt : x % 2 ^ w < 2 ^ w := Nat.mod_lt _ (Nat.two_pow_pos _)
  have : notBits w x = 2 ^ w - (x % 2 ^ w + 1) := by simp only [notBits]; omega
  rw [this, Nat.testBit_two_pow_sub_succ hlt]
  simp [hk', Nat.testBit_mod_two_pow, getElem_toBits]

end Amaranth.IoBuf
