import AmaranthVerif.Proofs.EmitVal

/-!
# Signed readings, extension, operand shortening, frames (helper lemmas for `C04.emit_expr_correct`)
-/

namespace Amaranth.Rtlil
open Amaranth

/-- the number the nets denote under a signedness -/
def sval (s : Bool) (env : Env) (v : Val) : Int := toInt s v.length (valOf env v)

theorem ofInt_congr {w : Nat} {x y : Int} (h : x ≡ y [ZMOD 2 ^ w]) : ofInt w x = ofInt w y := by
  unfold ofInt; rw [h]

theorem ofInt_natCast_of_lt {w n : Nat} (h : n < 2 ^ w) : ofInt w (n : Int) = n :=
  (eq_ofInt h (Int.ModEq.refl _)).symm

theorem ofInt_cast (w : Nat) (x : Int) : ((ofInt w x : Nat) : Int) = x % 2 ^ w := by
  unfold ofInt
  exact Int.toNat_of_nonneg (Int.emod_nonneg _ (by positivity))

theorem ofInt_modEq (w : Nat) (x : Int) : ((ofInt w x : Nat) : Int) ≡ x [ZMOD 2 ^ w] := by
  rw [ofInt_cast]; exact Int.mod_modEq _ _

/-- the window of `toInt s w` -/
def lo (s : Bool) (w : Nat) : Int := if s && decide (0 < w) then -(2 : Int) ^ (w - 1) else 0
def hi (s : Bool) (w : Nat) : Int := if s && decide (0 < w) then (2 : Int) ^ (w - 1) else 2 ^ w

theorem hi_eq (s : Bool) (w : Nat) : hi s w = lo s w + 2 ^ w := by
  unfold hi lo
  split
  · rename_i h
    simp only [Bool.and_eq_true, decide_eq_true_eq] at h
    have : (2 : Int) ^ w = 2 * 2 ^ (w - 1) := by
      conv_lhs => rw [show w = (w - 1) + 1 by omega]
      rw [pow_succ]; ring
    omega
  · simp

theorem toInt_window (s : Bool) (w a : Nat) (ha : a < 2 ^ w) : lo s w ≤ toInt s w a ∧ toInt s w a < hi s w :=
  toInt_range s w a ha

/-- reading back a number of the window -/
theorem toInt_ofInt (s : Bool) (w : Nat) (x : Int) (h1 : lo s w ≤ x) (h2 : x < hi s w) : toInt s w (ofInt w x) = x := by
  have hw := toInt_window s w (ofInt w x) (ofInt_lt w x)
  have hc : toInt s w (ofInt w x) ≡ x [ZMOD 2 ^ w] := (toInt_modEq s w _).trans (ofInt_modEq w x)
  rw [hi_eq] at hw h2
  exact eq_of_modEq_of_range (by positivity) hc hw ⟨h1, h2⟩

theorem lo_mono (s : Bool) {w w' : Nat} (h : w ≤ w') : lo s w' ≤ lo s w := by
  unfold lo
  by_cases hs : s = true
  · subst hs
    by_cases h0 : 0 < w
    · have h0' : 0 < w' := by omega
      have := pow_le_pow_int (show w - 1 ≤ w' - 1 by omega)
      simp only [Bool.true_and, h0, h0', decide_true, if_true]
      omega
    · have : (0 : Int) < 2 ^ (w' - 1) := by positivity
      simp only [Bool.true_and, h0, decide_false, Bool.false_eq_true, if_false]
      split <;> omega
  · simp [hs]

theorem hi_mono (s : Bool) {w w' : Nat} (h : w ≤ w') : hi s w ≤ hi s w' := by
  unfold hi
  by_cases hs : s = true
  · subst hs
    by_cases h0 : 0 < w
    · have h0' : 0 < w' := by omega
      have := pow_le_pow_int (show w - 1 ≤ w' - 1 by omega)
      simp only [Bool.true_and, h0, h0', decide_true, if_true]
      omega
    · have hw : w = 0 := by omega
      subst hw
      by_cases h0' : 0 < w'
      · have : (0 : Int) < 2 ^ (w' - 1) := two_pow_pos_int _
        simp [h0']
        omega
      · have : w' = 0 := by omega
        subst this; simp
  · have := pow_le_pow_int h
    simp [hs]
    exact this

theorem sval_window (s : Bool) (env : Env) (v : Val) : lo s v.length ≤ sval s env v ∧ sval s env v < hi s v.length :=
  toInt_window s v.length _ (valOf_lt env v)

theorem sval_modEq (s : Bool) (env : Env) (v : Val) : sval s env v ≡ (valOf env v : Int) [ZMOD 2 ^ v.length] :=
  toInt_modEq s v.length _

/-! ## extension -/

theorem extendV_length (v : Val) (s : Bool) (w : Nat) (h : v.length ≤ w) : (extendV v s w).length = w := by
  simp [extendV]; omega

theorem valOf_getLast (env : Env) (v : Val) (hne : v ≠ []) :
    netVal env (v.getLast?.getD (.const false)) = valOf env v / 2 ^ (v.length - 1) := by
  have hsplit : v = v.dropLast ++ [v.getLast hne] := (List.dropLast_concat_getLast hne).symm
  have hl : v.getLast?.getD (.const false) = v.getLast hne := by
    rw [List.getLast?_eq_some_getLast hne]; rfl
  rw [hl]
  have hlen : v.dropLast.length = v.length - 1 := List.length_dropLast
  have hv : valOf env v = valOf env v.dropLast + 2 ^ (v.length - 1) * netVal env (v.getLast hne) := by
    conv_lhs => rw [hsplit]
    rw [valOf_append, hlen]
    simp [valOf]
  have hlt := valOf_lt env v.dropLast
  rw [hlen] at hlt
  rw [hv, Nat.add_mul_div_left _ _ (Nat.two_pow_pos _), Nat.div_eq_of_lt hlt, Nat.zero_add]

/-- `NetlistEmitter.extend` is the cell library's extension of the vector -/
theorem valOf_extendV (env : Env) (v : Val) (s : Bool) (w : Nat) (hw : v.length ≤ w) (hs : s = true → v ≠ []) :
    valOf env (extendV v s w) = extend s v.length w (valOf env v) := by
  have hlt := valOf_lt env v
  unfold extendV extend
  rw [valOf_append]
  by_cases hEq : w ≤ v.length
  · have : w = v.length := by omega
    subst this
    simp [valOf, Nat.mod_eq_of_lt hlt]
  · simp only [hEq, if_false]
    cases s with
    | false => simp [valOf_replicate_zero]
    | true =>
      have hne := hs rfl
      have hpos : 0 < v.length := List.length_pos_iff.mpr hne
      simp only [if_true, valOf_replicate, valOf_getLast env v hne, Bool.true_and, hpos, decide_true]
      have hsplit : 2 ^ v.length = 2 * 2 ^ (v.length - 1) := by
        conv_lhs => rw [show v.length = (v.length - 1) + 1 by omega]
        rw [Nat.pow_succ, Nat.mul_comm]
      have hpw : 2 ^ w = 2 ^ v.length * 2 ^ (w - v.length) := by
        rw [← Nat.pow_add]; congr 1; omega
      have hq : valOf env v / 2 ^ (v.length - 1) = if 2 ^ (v.length - 1) ≤ valOf env v then 1 else 0 := by
        split
        · rename_i h
          have : valOf env v / 2 ^ (v.length - 1) < 2 := by
            apply Nat.div_lt_of_lt_mul; omega
          have : 0 < valOf env v / 2 ^ (v.length - 1) := Nat.div_pos h (Nat.two_pow_pos _)
          omega
        · rename_i h
          exact Nat.div_eq_of_lt (by omega)
      by_cases hsb : 2 ^ (v.length - 1) ≤ valOf env v
      · rw [hq]
        simp only [hsb, if_true, decide_true, Nat.one_mul]
        rw [Nat.mul_sub, Nat.mul_one, ← hpw]
      · rw [hq]
        simp [hsb]

theorem valOf_extendV_ofInt (env : Env) (v : Val) (s : Bool) (w : Nat) (hw : v.length ≤ w) (hs : s = true → v ≠ []) :
    valOf env (extendV v s w) = ofInt w (sval s env v) := by
  rw [valOf_extendV env v s w hw hs]
  exact eq_ofInt (extend_lt s _ w _ (valOf_lt env v)) (extend_modEq s _ w _)

/-- extension keeps the number, read under a signedness `s'` whose window at the new width contains it -/
theorem sval_extendV (env : Env) (v : Val) (s s' : Bool) (w : Nat) (hw : v.length ≤ w) (hs : s = true → v ≠ [])
    (h1 : lo s' w ≤ sval s env v) (h2 : sval s env v < hi s' w) :
    sval s' env (extendV v s w) = sval s env v := by
  unfold sval
  rw [extendV_length v s w hw, valOf_extendV_ofInt env v s w hw hs]
  exact toInt_ofInt s' w _ h1 h2

theorem sval_extendV_same (env : Env) (v : Val) (s : Bool) (w : Nat) (hw : v.length ≤ w) (hs : s = true → v ≠ []) :
    sval s env (extendV v s w) = sval s env v := by
  have h := sval_window s env v
  exact sval_extendV env v s s w hw hs (le_trans (lo_mono s hw) h.1) (lt_of_lt_of_le h.2 (hi_mono s hw))

/-- an unsigned value one bit wider reads the same as a signed one -/
theorem sval_extendV_u_s (env : Env) (v : Val) (w : Nat) (hw : v.length < w) :
    sval true env (extendV v false w) = sval false env v := by
  have h := sval_window false env v
  apply sval_extendV env v false true w (by omega) (by simp)
  · have h0 : 0 < w := by omega
    have : (0 : Int) < 2 ^ (w - 1) := by positivity
    simp only [lo, Bool.true_and, h0, decide_true, if_true]
    simp only [lo, Bool.false_and, Bool.false_eq_true, if_false] at h
    omega
  · have h0 : 0 < w := by omega
    simp only [hi, Bool.true_and, h0, decide_true, if_true]
    simp only [hi, Bool.false_and, Bool.false_eq_true, if_false] at h
    have := pow_le_pow_int (show v.length ≤ w - 1 by omega)
    omega

/-! ## shortening -/

theorem shortenUR_val (env : Env) : ∀ l : List Net, valOf env (shortenUR l).reverse = valOf env l.reverse
  | [] => rfl
  | .const false :: rest => by
    rw [shortenUR, shortenUR_val env rest]
    simp [valOf_append, valOf, netVal, b2n]
  | .const true :: rest => by simp [shortenUR]
  | .wire _ _ :: rest => by simp [shortenUR]

theorem shortenUR_length : ∀ l : List Net, (shortenUR l).length ≤ l.length
  | [] => by simp [shortenUR]
  | .const false :: rest => by
    have := shortenUR_length rest
    rw [shortenUR]; simp; omega
  | .const true :: rest => by simp [shortenUR]
  | .wire _ _ :: rest => by simp [shortenUR]

theorem shortenUR_mem : ∀ (l : List Net) (n : Net), n ∈ shortenUR l → n ∈ l
  | [], n, h => by simpa [shortenUR] using h
  | .const false :: rest, n, h => by
    rw [shortenUR] at h
    exact List.mem_cons_of_mem _ (shortenUR_mem rest n h)
  | .const true :: rest, n, h => by simpa [shortenUR] using h
  | .wire _ _ :: rest, n, h => by simpa [shortenUR] using h

theorem shortenSR_length : ∀ l : List Net, (shortenSR l).length ≤ l.length
  | [] => by simp [shortenSR]
  | [a] => by simp [shortenSR]
  | a :: b :: rest => by
    have := shortenSR_length (b :: rest)
    rw [shortenSR]
    split
    · simp at this ⊢; omega
    · simp

theorem shortenSR_mem : ∀ (l : List Net) (n : Net), n ∈ shortenSR l → n ∈ l
  | [], n, h => by simpa [shortenSR] using h
  | [a], n, h => by simpa [shortenSR] using h
  | a :: b :: rest, n, h => by
    rw [shortenSR] at h
    split at h
    · exact List.mem_cons_of_mem _ (shortenSR_mem (b :: rest) n h)
    · exact h

theorem shortenSR_ne_nil : ∀ l : List Net, l ≠ [] → shortenSR l ≠ []
  | [], h => absurd rfl h
  | [a], _ => by simp [shortenSR]
  | a :: b :: rest, _ => by
    rw [shortenSR]
    split
    · exact shortenSR_ne_nil (b :: rest) (by simp)
    · simp

/-- dropping a repeated top net keeps the signed reading -/
theorem sval_dup_top (env : Env) (b : Net) (rest : List Net) :
    sval true env (b :: b :: rest).reverse = sval true env (b :: rest).reverse := by
  have hne : (b :: rest).reverse ≠ [] := by simp
  have hx : (b :: b :: rest).reverse = extendV (b :: rest).reverse true ((b :: rest).reverse.length + 1) := by
    simp [extendV]
  rw [hx]
  exact sval_extendV_same env _ true _ (by omega) (fun _ => hne)

theorem shortenSR_val (env : Env) : ∀ l : List Net, sval true env (shortenSR l).reverse = sval true env l.reverse
  | [] => rfl
  | [a] => by simp [shortenSR]
  | a :: b :: rest => by
    rw [shortenSR]
    split
    · rename_i h
      subst h
      rw [shortenSR_val env (a :: rest), sval_dup_top]
    · rfl

/-- **`shorten_operand` keeps the number the operand denotes under the signedness it was shortened with.** -/
theorem sval_shorten (s : Bool) (env : Env) (v : Val) : sval s env (shorten s v) = sval s env v := by
  cases s with
  | true =>
    have := shortenSR_val env v.reverse
    simpa [shorten] using this
  | false =>
    have := shortenUR_val env v.reverse
    simp only [List.reverse_reverse] at this
    have hl := shortenUR_length v.reverse
    simp only [sval, shorten, Bool.false_eq_true, if_false, toInt, Bool.false_and]
    rw [this]

theorem shorten_length (s : Bool) (v : Val) : (shorten s v).length ≤ v.length := by
  cases s with
  | true => have := shortenSR_length v.reverse; simpa [shorten] using this
  | false => have := shortenUR_length v.reverse; simpa [shorten] using this

theorem shorten_mem (s : Bool) (v : Val) (n : Net) (h : n ∈ shorten s v) : n ∈ v := by
  cases s with
  | true =>
    simp only [shorten, if_true, List.mem_reverse] at h
    simpa using shortenSR_mem _ n h
  | false =>
    simp only [shorten, Bool.false_eq_true, if_false, List.mem_reverse] at h
    simpa using shortenUR_mem _ n h

theorem valOf_shorten_false (env : Env) (v : Val) : valOf env (shorten false v) = valOf env v := by
  have := shortenUR_val env v.reverse
  simpa [shorten] using this

/-! ## frames: what a later write cannot change -/

/-- the name is not a generated name with index `≥ k` -/
def OldName (k : Nat) (n : String) : Prop := ∀ j, k ≤ j → n ≠ autoName j

def Net.old (k : Nat) : Net → Prop
  | .const _ => True
  | .wire n _ => OldName k n

/-- all nets of the value are constants, signal bits, or bits of generated wires with index `< k` -/
def Val.old (k : Nat) (v : Val) : Prop := ∀ n ∈ v, n.old k

/-- `env'` agrees with `env` on every name that is not a generated name with index `≥ k` -/
def Frame (k : Nat) (env env' : Env) : Prop := ∀ n, OldName k n → env'.getD n 0 = env.getD n 0

theorem OldName.mono {k k' : Nat} {n : String} (h : OldName k n) (hk : k ≤ k') : OldName k' n :=
  fun j hj => h j (le_trans hk hj)

theorem oldName_auto {j k : Nat} (h : j < k) : OldName k (autoName j) :=
  fun i hi e => by have := autoName_inj e; omega

theorem oldName_sig (i k : Nat) : OldName k (sigName i) := fun j _ => sigName_ne_autoName i j

theorem Net.old.mono {k k' : Nat} {n : Net} (h : n.old k) (hk : k ≤ k') : n.old k' := by
  cases n with
  | const _ => trivial
  | wire n i => exact OldName.mono h hk

theorem Val.old.mono {k k' : Nat} {v : Val} (h : v.old k) (hk : k ≤ k') : v.old k' :=
  fun n hn => (h n hn).mono hk

theorem Frame.refl (k : Nat) (env : Env) : Frame k env env := fun _ _ => rfl

theorem Frame.trans {k k' : Nat} {e1 e2 e3 : Env} (h12 : Frame k e1 e2) (h23 : Frame k' e2 e3) (hk : k ≤ k') :
    Frame k e1 e3 := fun n hn => by rw [h23 n (hn.mono hk), h12 n hn]

theorem Frame.mono {k k' : Nat} {e1 e2 : Env} (h : Frame k' e1 e2) (hk : k ≤ k') : Frame k e1 e2 :=
  fun n hn => h n (hn.mono hk)

theorem getD_insert_ne (env : Env) (y n : String) (x : Nat) (h : n ≠ y) : (env.insert y x).getD n 0 = env.getD n 0 := by
  rw [Std.HashMap.getD_insert]
  have : (y == n) = false := by simp [beq_eq_false_iff_ne, Ne.symm h]
  simp [this]

theorem Frame.insert (k j : Nat) (env : Env) (x : Nat) (h : k ≤ j) : Frame k env (env.insert (autoName j) x) :=
  fun n hn => getD_insert_ne env _ n x (hn j h)

theorem netVal_frame {k : Nat} {env env' : Env} (hf : Frame k env env') {n : Net} (hn : n.old k) :
    netVal env' n = netVal env n := by
  cases n with
  | const _ => rfl
  | wire w i => simp only [netVal, hf w hn]

theorem valOf_frame {k : Nat} {env env' : Env} (hf : Frame k env env') : ∀ {v : Val}, v.old k → valOf env' v = valOf env v
  | [], _ => rfl
  | n :: r, h => by
    simp only [valOf]
    rw [netVal_frame hf (h n List.mem_cons_self), valOf_frame hf (fun m hm => h m (List.mem_cons_of_mem _ hm))]

theorem sval_frame {k : Nat} {env env' : Env} (hf : Frame k env env') {v : Val} (h : v.old k) (s : Bool) :
    sval s env' v = sval s env v := by
  unfold sval; rw [valOf_frame hf h]

theorem old_constBits (k : Nat) (v : Int) : ∀ w, (constBits v w).old k
  | 0 => fun _ h => by simp [constBits] at h
  | w + 1 => fun n h => by
    simp only [constBits, List.mem_cons] at h
    rcases h with rfl | h
    · trivial
    · exact old_constBits k (v / 2) w n h

theorem old_wireBits {k : Nat} {name : String} (hn : OldName k name) : ∀ (w s : Nat), (wireBits name s w).old k
  | 0, _ => fun _ h => by simp [wireBits] at h
  | w + 1, s => fun n h => by
    simp only [wireBits, List.mem_cons] at h
    rcases h with rfl | h
    · exact hn
    · exact old_wireBits hn w (s + 1) n h

theorem old_append {k : Nat} {a b : Val} (ha : a.old k) (hb : b.old k) : Val.old k (a ++ b) :=
  fun n hn => by
    rcases List.mem_append.mp hn with h | h
    · exact ha n h
    · exact hb n h

theorem old_extendV {k : Nat} {v : Val} (h : v.old k) (s : Bool) (w : Nat) : (extendV v s w).old k := by
  apply old_append h
  intro n hn
  have := List.eq_of_mem_replicate hn
  subst this
  cases s with
  | false => trivial
  | true =>
    simp only [if_true]
    cases hl : v.getLast? with
    | none => trivial
    | some x => exact h x (List.mem_of_getLast? hl)

theorem old_shorten {k : Nat} {v : Val} (h : v.old k) (s : Bool) : (shorten s v).old k :=
  fun n hn => h n (shorten_mem s v n hn)

theorem old_take {k : Nat} {v : Val} (h : v.old k) (j : Nat) : Val.old k (v.take j) :=
  fun n hn => h n (List.mem_of_mem_take hn)

theorem old_drop {k : Nat} {v : Val} (h : v.old k) (j : Nat) : Val.old k (v.drop j) :=
  fun n hn => h n (List.mem_of_mem_drop hn)

end Amaranth.Rtlil
