import AmaranthVerif.Proofs.EngineEquivAsync5

/-!
# The compiled process(es) removed, the user process appended: the three replacements

`comb_equiv_appended`, `sync_equiv_appended`, `async_equiv_appended`: the original simulation under a
schedule `a`, and the simulation in which the compiled process (for an `async_reset` domain: the
reset-only process and the synchronous process) is removed and the documented process form appended
at the end of the process list, under any schedule `b'` that iterates, at every delta, a permutation
of the corresponding owners and of the same slots.
-/

namespace Amaranth.Engine
open Amaranth

theorem SameObs.refl (a : EState) : SameObs a a := ⟨rfl, rfl, rfl, rfl⟩

theorem nodup_filterMap_embed {σ : Nat → Nat} {τ : Nat → Option Nat} (h : Embed σ τ) :
    ∀ l : List Nat, l.Nodup → (l.filterMap τ).Nodup := by
  intro l
  induction l with
  | nil => intro _; exact List.nodup_nil
  | cons j l ih =>
    intro hn
    obtain ⟨hj, hl⟩ := List.nodup_cons.mp hn
    simp only [List.filterMap_cons]
    cases hτ : τ j with
    | none => exact ih hl
    | some q =>
      simp only
      refine List.nodup_cons.mpr ⟨?_, ih hl⟩
      intro hq
      obtain ⟨j', hj', hτ'⟩ := List.mem_filterMap.mp hq
      have e1 := h.right j q hτ
      have e2 := h.right j' q hτ'
      exact hj (by rw [← e1, e2]; exact hj')

/-- the schedule after the inert placeholder has been dropped -/
theorem dropSched_nodup (p : Nat) (a : Sched) (h : SchedNodup a) : SchedNodup (mapSched (dropτ p) a) :=
  fun k => nodup_filterMap_embed (drop_embed p) _ (h k)

theorem dropSched_lists (p n : Nat) (a : Sched) (h : SchedLists a (n + 1)) : SchedLists (mapSched (dropτ p) a) n := by
  intro k q hq
  simp only [mapSched, List.mem_filterMap]
  refine ⟨dropσ p q, h k _ ?_, (drop_embed p).left q⟩
  unfold dropσ; split <;> omega

section
variable (D : Design) (pre post : List ProcKind) (scripts : List (List TbOp)) (out : Nat) (e : Expr)

/-- **`comb (out := e)` removed, the process form appended.** -/
theorem comb_equiv_appended (a b' : Sched) (fuel : Nat)
    (H : ReplHyp D pre post out) (hwf : e.wf D.ctx = true) (hinit : EnvN D.ctx D.inits)
    (hsc : ∀ sc ∈ scripts, ScriptWrites (writeOk D.ctx out) sc)
    (hnd : SchedNodup a) (hl : SchedLists a (pre.length + 1 + post.length))
    (hpair : (pre ++ post ++ [ProcKind.userComb (exprSigs e) out e]).Pairwise (PairOK D))
    (harst : arstWf D (pre ++ post ++ [ProcKind.userComb (exprSigs e) out e]) = true)
    (he : SchedEquiv (moveSched pre.length (pre.length + 1 + post.length) a) b') (n : Nat) :
    SameObs (advanceN (mkSim D (combKindsA pre post out e) scripts a fuel) n (initState D (combKindsA pre post out e) scripts))
      (advanceN (mkSim D (pre ++ post ++ [ProcKind.userComb (exprSigs e) out e]) scripts b' fuel) n
        (initState D (pre ++ post ++ [ProcKind.userComb (exprSigs e) out e]) scripts)) ∧
    SameObs (run (mkSim D (combKindsA pre post out e) scripts a fuel) n (initState D (combKindsA pre post out e) scripts))
      (run (mkSim D (pre ++ post ++ [ProcKind.userComb (exprSigs e) out e]) scripts b' fuel) n
        (initState D (pre ++ post ++ [ProcKind.userComb (exprSigs e) out e]) scripts)) ∧
    ∀ dl, SameObs (runUntil (mkSim D (combKindsA pre post out e) scripts a fuel) dl n (initState D (combKindsA pre post out e) scripts))
      (runUntil (mkSim D (pre ++ post ++ [ProcKind.userComb (exprSigs e) out e]) scripts b' fuel) dl n
        (initState D (pre ++ post ++ [ProcKind.userComb (exprSigs e) out e]) scripts)) :=
  appended_chain D pre post _ _ scripts a b' fuel
    (fun m => comb_equiv_runs D pre post scripts out e a fuel H hwf hinit hsc hnd
      (fun k => hl k _ (by omega)) m) hnd hl hpair harst he n

/-- **`sync d (out := e)` removed (domain without asynchronous reset), the process form appended.** -/
theorem sync_equiv_appended (d : Nat) (a b' : Sched) (fuel : Nat)
    (H : ReplHyp D pre post out) (HS : SyncHyp D d out) (hwf : e.wf D.ctx = true)
    (hsc : ∀ sc ∈ scripts, ScriptWrites (fun tgt => tgt.twf D.ctx = true) sc)
    (hnd : SchedNodup a) (hl : SchedLists a (pre.length + 1 + post.length))
    (hpair : (pre ++ post ++ [ProcKind.userSync d (exprSigs e) out e]).Pairwise (PairOK D))
    (harst : arstWf D (pre ++ post ++ [ProcKind.userSync d (exprSigs e) out e]) = true)
    (he : SchedEquiv (moveSched pre.length (pre.length + 1 + post.length) a) b') (n : Nat) :
    SameObs (advanceN (mkSim D (syncKindsA pre post d out e) scripts a fuel) n (initState D (syncKindsA pre post d out e) scripts))
      (advanceN (mkSim D (pre ++ post ++ [ProcKind.userSync d (exprSigs e) out e]) scripts b' fuel) n
        (initState D (pre ++ post ++ [ProcKind.userSync d (exprSigs e) out e]) scripts)) ∧
    SameObs (run (mkSim D (syncKindsA pre post d out e) scripts a fuel) n (initState D (syncKindsA pre post d out e) scripts))
      (run (mkSim D (pre ++ post ++ [ProcKind.userSync d (exprSigs e) out e]) scripts b' fuel) n
        (initState D (pre ++ post ++ [ProcKind.userSync d (exprSigs e) out e]) scripts)) ∧
    ∀ dl, SameObs (runUntil (mkSim D (syncKindsA pre post d out e) scripts a fuel) dl n (initState D (syncKindsA pre post d out e) scripts))
      (runUntil (mkSim D (pre ++ post ++ [ProcKind.userSync d (exprSigs e) out e]) scripts b' fuel) dl n
        (initState D (pre ++ post ++ [ProcKind.userSync d (exprSigs e) out e]) scripts)) :=
  appended_chain D pre post _ _ scripts a b' fuel
    (fun m => sync_equiv_runs D pre post scripts d out e a fuel H HS hwf hsc hnd
      (fun k => hl k _ (by omega)) m) hnd hl hpair harst he n

/-- the schedule of the final simulation that corresponds to a schedule `a` of the original one: the
reset-only process' index is dropped, the synchronous process' index becomes the last one -/
def asyncSched (p n : Nat) (a : Sched) : Sched := moveSched p n (mapSched (dropτ p) a)

/-- **`arst d (out := e)` and `sync d (out := e)` removed (domain with an asynchronous reset), the
process form appended.** -/
theorem async_equiv_appended (d r : Nat) (a b' : Sched) (fuel : Nat)
    (H : ReplHyp D pre post out) (HA : AsyncHyp D d out r) (hwf : e.wf D.ctx = true)
    (hsc : ∀ sc ∈ scripts, ScriptWrites (fun tgt => tgt.twf D.ctx = true) sc)
    (hnd : SchedNodup a) (hl : SchedLists a (pre.length + 1 + post.length + 1))
    (hpair : (pre ++ post ++ [ProcKind.userSync d (exprSigs e) out e]).Pairwise (PairOK D))
    (harst : arstWf D (pre ++ post ++ [ProcKind.userSync d (exprSigs e) out e]) = true)
    (he : SchedEquiv (asyncSched pre.length (pre.length + 1 + post.length) a) b') (n : Nat) :
    SameObs (advanceN (mkSim D (asyncKindsA pre post d out e) scripts a fuel) n (initState D (asyncKindsA pre post d out e) scripts))
      (advanceN (mkSim D (pre ++ post ++ [ProcKind.userSync d (exprSigs e) out e]) scripts b' fuel) n
        (initState D (pre ++ post ++ [ProcKind.userSync d (exprSigs e) out e]) scripts)) ∧
    SameObs (run (mkSim D (asyncKindsA pre post d out e) scripts a fuel) n (initState D (asyncKindsA pre post d out e) scripts))
      (run (mkSim D (pre ++ post ++ [ProcKind.userSync d (exprSigs e) out e]) scripts b' fuel) n
        (initState D (pre ++ post ++ [ProcKind.userSync d (exprSigs e) out e]) scripts)) ∧
    ∀ dl, SameObs (runUntil (mkSim D (asyncKindsA pre post d out e) scripts a fuel) dl n (initState D (asyncKindsA pre post d out e) scripts))
      (runUntil (mkSim D (pre ++ post ++ [ProcKind.userSync d (exprSigs e) out e]) scripts b' fuel) dl n
        (initState D (pre ++ post ++ [ProcKind.userSync d (exprSigs e) out e]) scripts)) := by
  obtain ⟨s1, s2, s3⟩ := async_equiv_runs D pre post scripts d out r e a fuel H HA hwf hsc hnd
    (fun k => ⟨hl k _ (by omega), hl k _ (by omega)⟩) n
  obtain ⟨r1, r2, r3⟩ := reindex_sameobs D (dropσ pre.length) (dropτ pre.length) (asyncKindsB pre post d out e)
    (pre ++ ProcKind.userSync d (exprSigs e) out e :: post)
    (drop_kinds D pre (ProcKind.userSync d (exprSigs e) out e :: post) (ProcKind.comb .skip) (inert_comb_skip D))
    scripts a fuel n
  obtain ⟨t1, t2, t3⟩ := appended_chain D pre post (ProcKind.userSync d (exprSigs e) out e)
    (ProcKind.userSync d (exprSigs e) out e) scripts (mapSched (dropτ pre.length) a) b' fuel
    (fun _ => ⟨SameObs.refl _, SameObs.refl _, fun _ => SameObs.refl _⟩)
    (dropSched_nodup _ a hnd) (dropSched_lists _ _ a hl) hpair harst he n
  exact ⟨(s1.trans r1).trans t1, (s2.trans r2).trans t2, fun dl => ((s3 dl).trans (r3 dl)).trans (t3 dl)⟩

end

/-! ## Decidable forms, and the register replacement for every kind of domain -/

/-- the decidable form of `AsyncHyp` (apart from the initial values) -/
def asyncOk (D : Design) (d out r : Nat) : Bool :=
  let cfg := D.doms.getD d default
  cfg.async && decide (cfg.rst = some r) && decide (D.ctx.shape cfg.clk = Shape.u 1) && decide (cfg.clk < D.ctx.length) &&
  decide (D.ctx.shape r = Shape.u 1) && decide (r < D.ctx.length) && !(D.resetLess.getD out false)

theorem asyncOk_sound {D : Design} {d out r : Nat} (hinit : EnvN D.ctx D.inits) (h : asyncOk D d out r = true) :
    AsyncHyp D d out r := by
  unfold asyncOk at h
  simp only [Bool.and_eq_true, Bool.not_eq_true', decide_eq_true_eq] at h
  obtain ⟨⟨⟨⟨⟨⟨h1, h2⟩, h3⟩, h4⟩, h5⟩, h6⟩, h7⟩ := h
  exact ⟨h1, h2, h3, h4, h5, h6, h7, hinit⟩

theorem pairOK_of_staticDisjoint {D : Design} {kinds : List ProcKind} (h : StaticDisjoint D kinds) :
    kinds.Pairwise (PairOK D) := List.Pairwise.imp (fun h => Or.inl h) h

/-- the processes the compiler creates for the register `out := e` of domain `d` -/
def regKinds (D : Design) (d out : Nat) (e : Expr) : List ProcKind :=
  procKinds D { dom := some d, body := .assign (.sig out) e }

/-- the schedule of the final simulation corresponding to a schedule of the original one -/
def regSched (D : Design) (d p n : Nat) (a : Sched) : Sched :=
  if (D.doms.getD d default).async && (D.doms.getD d default).rst.isSome then asyncSched p n a else moveSched p n a

/-- **A register replaced by the documented process form, for every kind of domain**: no reset, a
synchronous reset, or an asynchronous reset (then the compiler's reset-only companion process is removed
together with the synchronous process). -/
theorem reg_equiv_appended (D : Design) (pre post : List ProcKind) (scripts : List (List TbOp)) (d out : Nat) (e : Expr)
    (a b' : Sched) (fuel : Nat) (H : ReplHyp D pre post out)
    (HD : SyncHyp D d out ∨ ∃ r, AsyncHyp D d out r) (hwf : e.wf D.ctx = true)
    (hsc : ∀ sc ∈ scripts, ScriptWrites (fun tgt => tgt.twf D.ctx = true) sc)
    (hnd : SchedNodup a) (hl : SchedLists a (pre ++ regKinds D d out e ++ post).length)
    (hpair : (pre ++ post ++ [ProcKind.userSync d (exprSigs e) out e]).Pairwise (PairOK D))
    (harst : arstWf D (pre ++ post ++ [ProcKind.userSync d (exprSigs e) out e]) = true)
    (he : SchedEquiv (regSched D d pre.length (pre.length + 1 + post.length) a) b') (n : Nat) :
    SameObs (advanceN (mkSim D (pre ++ regKinds D d out e ++ post) scripts a fuel) n
        (initState D (pre ++ regKinds D d out e ++ post) scripts))
      (advanceN (mkSim D (pre ++ post ++ [ProcKind.userSync d (exprSigs e) out e]) scripts b' fuel) n
        (initState D (pre ++ post ++ [ProcKind.userSync d (exprSigs e) out e]) scripts)) ∧
    SameObs (run (mkSim D (pre ++ regKinds D d out e ++ post) scripts a fuel) n
        (initState D (pre ++ regKinds D d out e ++ post) scripts))
      (run (mkSim D (pre ++ post ++ [ProcKind.userSync d (exprSigs e) out e]) scripts b' fuel) n
        (initState D (pre ++ post ++ [ProcKind.userSync d (exprSigs e) out e]) scripts)) ∧
    ∀ dl, SameObs (runUntil (mkSim D (pre ++ regKinds D d out e ++ post) scripts a fuel) dl n
        (initState D (pre ++ regKinds D d out e ++ post) scripts))
      (runUntil (mkSim D (pre ++ post ++ [ProcKind.userSync d (exprSigs e) out e]) scripts b' fuel) dl n
        (initState D (pre ++ post ++ [ProcKind.userSync d (exprSigs e) out e]) scripts)) := by
  rcases HD with HS | ⟨r, HA⟩
  · have hk : regKinds D d out e = [ProcKind.sync d (.assign (.sig out) e)] := by
      show (if ((D.doms.getD d default).async && (D.doms.getD d default).rst.isSome) = true then _ else _) = _
      rw [HS.noArst]; simp only [Bool.false_eq_true, if_false]
    have hA : pre ++ regKinds D d out e ++ post = syncKindsA pre post d out e := by
      rw [hk]; simp [syncKindsA]
    have hs : regSched D d pre.length (pre.length + 1 + post.length) a = moveSched pre.length (pre.length + 1 + post.length) a := by
      unfold regSched; rw [HS.noArst]; simp only [Bool.false_eq_true, if_false]
    rw [hA] at hl ⊢
    rw [hs] at he
    exact sync_equiv_appended D pre post scripts out e d a b' fuel H HS hwf hsc hnd
      (by rw [syncKindsA_length] at hl; exact hl) hpair harst he n
  · have hc : ((D.doms.getD d default).async && (D.doms.getD d default).rst.isSome) = true := by
      rw [HA.async, HA.rst]; rfl
    have hk : regKinds D d out e = [ProcKind.arst d (.assign (.sig out) e), ProcKind.sync d (.assign (.sig out) e)] := by
      show (if ((D.doms.getD d default).async && (D.doms.getD d default).rst.isSome) = true then _ else _) = _
      rw [hc]; simp only [if_true]
    have hA : pre ++ regKinds D d out e ++ post = asyncKindsA pre post d out e := by
      rw [hk]; simp [asyncKindsA]
    have hs : regSched D d pre.length (pre.length + 1 + post.length) a = asyncSched pre.length (pre.length + 1 + post.length) a := by
      unfold regSched; rw [hc]; simp only [if_true]
    rw [hA] at hl ⊢
    rw [hs] at he
    exact async_equiv_appended D pre post scripts out e d r a b' fuel H HA hwf hsc hnd
      (by
        have : (asyncKindsA pre post d out e).length = pre.length + 1 + post.length + 1 := by
          simp [asyncKindsA]; omega
        rw [this] at hl; exact hl) hpair harst he n

end Amaranth.Engine
