import AmaranthVerif.Proofs.RtlilCells2
import AmaranthVerif.Proofs.RtlilEmit
import AmaranthVerif.Model.Rtlil.EmitExpr

/-!
# Values of netlist values under an RTLIL environment (helper lemmas for `C04.emit_expr_correct`)

`valOf env v`: the number the nets of `v` (least significant first) denote when every wire holds what `env` says.
* `specVal_emitSpec`: the evaluator's reading of the sigspec printed for `v` is `valOf env v` (whatever the declared
  widths: `sigspec()` never prints a bare wire name);
* values of constants, wire bits, slices, concatenations, extensions, shortened operands;
* generated names are distinct from each other and from signal names; a write to a wire does not change the value of
  nets that do not mention it.
-/

namespace Amaranth.Rtlil
open Amaranth Std

/-! ## names -/

theorem toString_nat_inj {a b : Nat} (h : toString a = toString b) : a = b := by
  have h1 : (Nat.repr a).toList = (Nat.repr b).toList := by
    simp only [Nat.toString_eq_repr] at h
    rw [h]
  rw [Nat.toList_repr, Nat.toList_repr] at h1
  have := congrArg (fun l => Nat.ofDigitChars 10 l 0) h1
  simpa using this

theorem autoName_inj {a b : Nat} (h : autoName a = autoName b) : a = b := by
  unfold autoName at h
  exact toString_nat_inj ((String.append_right_inj _).mp h)

theorem sigName_inj {a b : Nat} (h : sigName a = sigName b) : a = b := by
  unfold sigName at h
  exact toString_nat_inj ((String.append_right_inj _).mp h)

theorem sigName_ne_autoName (i k : Nat) : sigName i ≠ autoName k := by
  unfold sigName autoName
  intro h
  have := congrArg String.toList h
  simp only [String.toList_append] at this
  have h0 := congrArg List.head? this
  simp at h0

/-! ## the value of nets -/

def netVal (env : Env) : Net → Nat
  | .const b => b2n b
  | .wire n i => (env.getD n 0 / 2 ^ i) % 2

def valOf (env : Env) : Val → Nat
  | [] => 0
  | n :: r => netVal env n + 2 * valOf env r

theorem netVal_le (env : Env) (n : Net) : netVal env n ≤ 1 := by
  cases n with
  | const b => cases b <;> simp [netVal, b2n]
  | wire n i => simp only [netVal]; omega

theorem valOf_lt (env : Env) : ∀ v : Val, valOf env v < 2 ^ v.length
  | [] => by simp [valOf]
  | n :: r => by
    have := valOf_lt env r
    have := netVal_le env n
    simp only [valOf, List.length_cons, Nat.pow_succ]
    omega

theorem valOf_append (env : Env) : ∀ a b : Val, valOf env (a ++ b) = valOf env a + 2 ^ a.length * valOf env b
  | [], b => by simp [valOf]
  | n :: r, b => by
    simp only [List.cons_append, valOf, List.length_cons, Nat.pow_succ, valOf_append env r b]
    rw [Nat.mul_add, Nat.add_assoc, Nat.mul_comm (2 ^ r.length) 2, Nat.mul_assoc]

theorem valOf_take (env : Env) : ∀ (v : Val) (k : Nat), valOf env (v.take k) = valOf env v % 2 ^ k
  | [], k => by simp [valOf]
  | n :: r, 0 => by simp [valOf, Nat.mod_one]
  | n :: r, k + 1 => by
    have := netVal_le env n
    simp only [List.take_succ_cons, valOf, valOf_take env r k, Nat.pow_succ]
    have h : (netVal env n + 2 * valOf env r) % (2 ^ k * 2) = netVal env n + 2 * (valOf env r % 2 ^ k) := by
      rw [Nat.mul_comm (2 ^ k) 2, Nat.mod_mul]
      have h1 : (netVal env n + 2 * valOf env r) % 2 = netVal env n := by omega
      have h2 : (netVal env n + 2 * valOf env r) / 2 = valOf env r := by omega
      rw [h1, h2]
    rw [h]

theorem valOf_drop (env : Env) : ∀ (v : Val) (k : Nat), valOf env (v.drop k) = valOf env v / 2 ^ k
  | [], k => by simp [valOf]
  | n :: r, 0 => by simp
  | n :: r, k + 1 => by
    have := netVal_le env n
    simp only [List.drop_succ_cons, valOf, valOf_drop env r k, Nat.pow_succ]
    rw [Nat.mul_comm (2 ^ k) 2, ← Nat.div_div_eq_div_mul]
    have h2 : (netVal env n + 2 * valOf env r) / 2 = valOf env r := by omega
    rw [h2]

theorem constBits_length (v : Int) : ∀ w, (constBits v w).length = w
  | 0 => rfl
  | w + 1 => by simp [constBits, constBits_length (v / 2) w]

theorem wireBits_length (n : String) : ∀ (s w : Nat), (wireBits n s w).length = w
  | _, 0 => rfl
  | s, w + 1 => by simp [wireBits, wireBits_length n (s + 1) w]

theorem int_emod_two_mul (v P : Int) (hP : 0 < P) : v % (2 * P) = v % 2 + 2 * ((v / 2) % P) := by
  have e1 := Int.emod_add_mul_ediv v 2
  have e2 := Int.emod_add_mul_ediv (v / 2) P
  have b1 := Int.emod_nonneg v (show (2 : Int) ≠ 0 by norm_num)
  have b2 := Int.emod_lt_of_pos v (show (0 : Int) < 2 by norm_num)
  have b3 := Int.emod_nonneg (v / 2) (ne_of_gt hP)
  have b4 := Int.emod_lt_of_pos (v / 2) hP
  have h1 : v = (v % 2 + 2 * ((v / 2) % P)) + (2 * P) * ((v / 2) / P) := by linarith
  conv_lhs => rw [h1]
  rw [Int.add_mul_emod_self_left]
  exact Int.emod_eq_of_lt (by omega) (by omega)

theorem valOf_constBits (env : Env) : ∀ (w : Nat) (v : Int), (valOf env (constBits v w) : Int) = v % 2 ^ w
  | 0, v => by simp [constBits, valOf, Int.emod_one]
  | w + 1, v => by
    simp only [constBits, valOf, netVal, Nat.cast_add, Nat.cast_mul, Nat.cast_ofNat]
    rw [valOf_constBits env w (v / 2)]
    have h2 : (2 : Int) ^ (w + 1) = 2 * 2 ^ w := by rw [pow_succ]; ring
    rw [h2, int_emod_two_mul v _ (by positivity)]
    have hb : ((b2n (v % 2 == 1) : Nat) : Int) = v % 2 := by
      have h0 := Int.emod_nonneg v (show (2 : Int) ≠ 0 by norm_num)
      have h1 := Int.emod_lt_of_pos v (show (0 : Int) < 2 by norm_num)
      by_cases h : v % 2 = 1
      · simp [h, b2n]
      · have : v % 2 = 0 := by omega
        simp [this, b2n]
    rw [hb]

theorem valOf_constBits_nat (env : Env) (w : Nat) (v : Int) : valOf env (constBits v w) = (v % 2 ^ w).toNat := by
  have := valOf_constBits env w v
  omega

theorem valOf_wireBits (env : Env) (n : String) : ∀ (w s : Nat),
    valOf env (wireBits n s w) = (env.getD n 0 / 2 ^ s) % 2 ^ w
  | 0, s => by simp [wireBits, valOf, Nat.mod_one]
  | w + 1, s => by
    simp only [wireBits, valOf, netVal]
    rw [valOf_wireBits env n w (s + 1), show (2 : Nat) ^ (w + 1) = 2 * 2 ^ w by rw [Nat.pow_succ, Nat.mul_comm],
      Nat.mod_mul, Nat.pow_succ, ← Nat.div_div_eq_div_mul]

theorem valOf_replicate_zero (env : Env) : ∀ k, valOf env (List.replicate k (Net.const false)) = 0
  | 0 => rfl
  | k + 1 => by simp [List.replicate_succ, valOf, netVal, b2n, valOf_replicate_zero env k]

theorem valOf_replicate (env : Env) (n : Net) : ∀ k, valOf env (List.replicate k n) = netVal env n * (2 ^ k - 1)
  | 0 => by simp [valOf]
  | k + 1 => by
    have hp := Nat.two_pow_pos k
    have hb := netVal_le env n
    simp only [List.replicate_succ, valOf, valOf_replicate env n k, Nat.pow_succ]
    generalize 2 ^ k = p at hp ⊢
    have : netVal env n = 0 ∨ netVal env n = 1 := by omega
    rcases this with h | h <;> rw [h] <;> omega

theorem bitsVal_bools (xres : Bool) : ∀ bs : List Bool, ∀ env : Env,
    bitsVal xres (bs.map (fun b => if b then Bit.b1 else Bit.b0)).reverse = valOf env (bs.map Net.const)
  | [], _ => rfl
  | b :: rest, env => by
    have ih := bitsVal_bools xres rest env
    simp only [bitsVal] at ih
    simp only [List.map_cons, List.reverse_cons, bitsVal, List.foldl_append, List.foldl_cons, List.foldl_nil, valOf, netVal]
    rw [ih]
    cases b <;> simp [b2n] <;> omega

/-! ## sigspecs -/

theorem chunkVal_run (c : Ctx) (env : Env) (r : Run) (h : r.ok) :
    chunkVal c env r.chunk = valOf env r.nets ∧ chunkWidthE c r.chunk = r.nets.length := by
  cases r with
  | const bs =>
    simp only [Run.chunk, chunkVal, chunkWidthE, Run.nets, List.length_reverse, List.length_map, and_true]
    exact bitsVal_bools c.xres bs env
  | wire w s k =>
    have hk : 0 < k := h
    have hnets : (Run.wire w s k).nets = wireBits w s k := by
      simp only [Run.nets]
      clear h hk
      induction k generalizing s with
      | zero => rfl
      | succ k ih =>
        rw [range_succ_map_shift, wireBits, ih (s + 1)]
    rw [hnets, valOf_wireBits, wireBits_length]
    simp only [Run.chunk]
    by_cases h1 : k = 1
    · subst h1
      simp [chunkVal, chunkWidthE]
    · simp only [h1, if_false, chunkVal, chunkWidthE]
      have : s + k - 1 + 1 - s = k := by omega
      rw [this]
      exact ⟨rfl, rfl⟩

theorem specVal_runs (c : Ctx) (env : Env) : ∀ rs : List Run, (∀ r ∈ rs, r.ok) →
    (rs.reverse.map Run.chunk).foldl (fun acc ch => acc * 2 ^ chunkWidthE c ch + chunkVal c env ch) 0
      = valOf env (rs.flatMap Run.nets)
  | [], _ => rfl
  | r :: rest, h => by
    obtain ⟨h1, h2⟩ := chunkVal_run c env r (h r List.mem_cons_self)
    simp only [List.reverse_cons, List.map_append, List.map_cons, List.map_nil, List.foldl_append, List.foldl_cons,
      List.foldl_nil, List.flatMap_cons, valOf_append]
    rw [specVal_runs c env rest (fun r' hr => h r' (List.mem_cons_of_mem _ hr)), h1, h2]
    rw [Nat.add_comm, Nat.mul_comm]

/-- **The evaluator reads the printed sigspec of a value as the value of its nets.** -/
theorem specVal_emitSpec (c : Ctx) (env : Env) (v : Val) : specVal c env (emitSpec v) = valOf env v := by
  obtain ⟨h1, h2⟩ := runs_spec v
  have key := specVal_runs c env (runs v) h2
  rw [h1] at key
  unfold emitSpec specVal
  split
  · rename_i r hr
    rw [hr] at key
    simpa [SigSpec.chunks] using key
  · simpa [SigSpec.chunks] using key

theorem specWidth_emitSpec (c : Ctx) (v : Val) : specWidthE c (emitSpec v) = v.length := by
  obtain ⟨h1, h2⟩ := runs_spec v
  have key : ∀ rs : List Run, (∀ r ∈ rs, r.ok) → ∀ acc,
      ((rs.reverse.map Run.chunk).map (chunkWidthE c)).foldl (· + ·) acc = acc + (rs.flatMap Run.nets).length := by
    intro rs
    induction rs with
    | nil => intro _ acc; simp
    | cons r rest ih =>
      intro h acc
      simp only [List.reverse_cons, List.map_append, List.map_cons, List.map_nil, List.foldl_append, List.foldl_cons,
        List.foldl_nil, List.flatMap_cons, List.length_append]
      rw [ih (fun r' hr => h r' (List.mem_cons_of_mem _ hr)), (chunkVal_run c {} r (h r List.mem_cons_self)).2]
      omega
  have k2 := key (runs v) h2 0
  rw [h1] at k2
  unfold emitSpec specWidthE
  split
  · rename_i r hr
    rw [hr] at k2
    simpa [SigSpec.chunks] using k2
  · simpa [SigSpec.chunks] using k2

end Amaranth.Rtlil
