import AmaranthVerif.Model.Dsl
import AmaranthVerif.Proofs.Exact
import AmaranthVerif.Proofs.TbLemmas

/-! # Lemmas about the If-chain patterns, normalised integer patterns and concatenated tests -/

namespace Amaranth

theorem ibit_zero_eq (v : Int) : ibit v 0 = decide (v % 2 = 1) := by
  unfold ibit; simp only [Int.pow_zero, Int.ediv_one]; by_cases h : v % 2 = 1 <;> simp [h]

theorem ibit_succ (v : Int) (j : Nat) : ibit v (j + 1) = ibit (v / 2) j := by
  unfold ibit
  rw [two_pow_succ', Int.ediv_ediv_of_nonneg (by omega : (0 : Int) ≤ 2)]

theorem ibit_add_two_mul_zero (a b : Int) (h0 : 0 ≤ a) (h1 : a < 2) : ibit (a + 2 * b) 0 = decide (a = 1) := by
  rw [ibit_zero_eq]
  have : (a + 2 * b) % 2 = a := by omega
  rw [this]

theorem ibit_add_two_mul_succ (a b : Int) (j : Nat) (h0 : 0 ≤ a) (h1 : a < 2) :
    ibit (a + 2 * b) (j + 1) = ibit b j := by
  rw [ibit_succ]
  have : (a + 2 * b) / 2 = b := by omega
  rw [this]

/-- every pattern position is don't-care: it matches everything -/
theorem matchesSpec_dontCare (n : Nat) (v : Int) : (Pat.dontCare n).matchesSpec v = true := by
  unfold Pat.matchesSpec Pat.dontCare
  rw [List.all_eq_true]
  intro i _
  have : (List.replicate n PatBit.any).reverse.getD i .any = .any := by
    rw [List.reverse_replicate, List.getD_eq_getElem?_getD]
    by_cases h : i < n
    · simp [List.getElem?_replicate, h]
    · simp [List.getElem?_replicate, h]
  rw [this]

theorem ifPattern_length (n i : Nat) (h : i < n) : (ifPattern n i).length = n := by
  unfold ifPattern; simp; omega

theorem ifPattern_reverse_getD (n i j : Nat) (h : i < n) :
    (ifPattern n i).reverse.getD j .any = if j = i then .one else .any := by
  unfold ifPattern
  simp only [List.reverse_append, List.reverse_replicate, List.reverse_cons, List.reverse_nil, List.nil_append]
  rw [List.getD_eq_getElem?_getD]
  by_cases h1 : j < i
  · have : ¬ j = i := by omega
    simp [List.getElem?_append_left, h1, this, List.getElem?_replicate]
  · by_cases h2 : j = i
    · subst h2
      simp [List.getElem?_append_right]
    · have h3 : i < j := by omega
      simp only [h2, if_false]
      rw [List.getElem?_append_right (by simp; omega)]
      simp only [List.length_replicate]
      rw [List.getElem?_append_right (by simp; omega)]
      simp only [List.getElem?_replicate]
      split <;> rfl

/-- the `i`-th If pattern tests exactly bit `i` of the concatenated tests -/
theorem matchesSpec_ifPattern (n i : Nat) (h : i < n) (v : Int) :
    (ifPattern n i).matchesSpec v = ibit v i := by
  unfold Pat.matchesSpec
  rw [ifPattern_length n i h]
  rw [Bool.eq_iff_iff, List.all_eq_true]
  constructor
  · intro hall
    have := hall i (List.mem_range.mpr h)
    rw [ifPattern_reverse_getD n i i h] at this
    simpa using this
  · intro hb j _
    rw [ifPattern_reverse_getD n i j h]
    by_cases hj : j = i
    · subst hj; simpa using hb
    · simp [hj]

theorem toBinary_length (v w : Nat) : (toBinary v w).length = w := by
  induction w with
  | zero => rfl
  | succ w ih => simp [toBinary, ih]

theorem toBinary_reverse_getD (v w j : Nat) (h : j < w) :
    (toBinary v w).reverse.getD j .any = if v.testBit j then .one else .zero := by
  induction w with
  | zero => omega
  | succ w ih =>
    simp only [toBinary, List.reverse_cons]
    rw [List.getD_eq_getElem?_getD]
    by_cases hj : j < w
    · rw [List.getElem?_append_left (by simp [toBinary_length]; exact hj)]
      rw [← List.getD_eq_getElem?_getD]; exact ih hj
    · have : j = w := by omega
      subst this
      rw [List.getElem?_append_right (by simp [toBinary_length])]
      simp [toBinary_length]

/-- a binary literal pattern matches exactly the values congruent to it -/
theorem matchesSpec_toBinary (k : Nat) (w : Nat) (hk : k < 2 ^ w) (v : Int) :
    (toBinary k w).matchesSpec v = decide (v % 2 ^ w = (k : Int)) := by
  have h0 : 0 ≤ v % 2 ^ w := Int.emod_nonneg _ (Int.ne_of_gt (two_pow_pos' w))
  obtain ⟨T, hT⟩ := Int.eq_ofNat_of_zero_le h0
  have hTlt : T < 2 ^ w := by
    have := Int.emod_lt_of_pos v (two_pow_pos' w); rw [hT] at this; exact_mod_cast this
  unfold Pat.matchesSpec
  rw [toBinary_length, hT, Bool.eq_iff_iff, List.all_eq_true]
  simp only [decide_eq_true_eq]
  constructor
  · intro hall
    have : T = k := by
      apply Nat.eq_of_testBit_eq
      intro i
      by_cases hi : i < w
      · have := hall i (List.mem_range.mpr hi)
        rw [toBinary_reverse_getD k w i hi, ← ibit_emod v hi, hT, ibit_ofNat] at this
        cases hb : k.testBit i <;> simp [hb] at this ⊢ <;> exact this
      · have e1 : T.testBit i = false :=
          Nat.testBit_lt_two_pow (Nat.lt_of_lt_of_le hTlt (Nat.pow_le_pow_right (by decide) (by omega)))
        have e2 : k.testBit i = false :=
          Nat.testBit_lt_two_pow (Nat.lt_of_lt_of_le hk (Nat.pow_le_pow_right (by decide) (by omega)))
        rw [e1, e2]
    exact_mod_cast this
  · intro heq i hi
    have hi' := List.mem_range.mp hi
    have : T = k := by exact_mod_cast heq
    rw [toBinary_reverse_getD k w i hi', ← ibit_emod v hi', hT, ibit_ofNat, this]
    cases k.testBit i <;> simp

end Amaranth
