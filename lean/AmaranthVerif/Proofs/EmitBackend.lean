import AmaranthVerif.Proofs.EmitRun

/-!
# The RTLIL cells of one netlist cell compute the netlist operator (helper lemmas for `C04.emit_expr_correct`)

For every netlist `Operator` the cells `emit_operator` prints — with shortened operands, the signedness flags it picks,
the guard around division — compute, on the output wire, the operator's meaning on the *unshortened* operands
(`nir1`, `nir2`, `nirMux`), whatever the environment holds for the operands' nets.
-/

namespace Amaranth.Rtlil
open Amaranth

/-- what is known after emitting one netlist cell from name counter `k` in environment `env`: the counter grew, the
output nets are old with respect to the new counter, running the emitted nodes succeeds, changes generated names `≥ k`
only, and the output value satisfies `P` -/
structure EmSound (c : Ctx) (m : Mems) (k : Nat) (env : Env) (e : Emitted) (P : Nat → Prop) : Prop where
  next_le : k ≤ e.next
  old : e.val.old e.next
  run : ∃ env', evalNodes c m e.nodes env = .ok env' ∧ Frame k env env' ∧ P (valOf env' e.val)

/-! ## meanings of the netlist operators (operands as bit vectors `< 2^w`) -/

/-- unary operators on a `w`-bit operand -/
def nir1 (o : NOp1) (w a out : Nat) : Prop :=
  match o with
  | .neg => ∀ s, out = ofInt w (-(toInt s w a))
  | .not => out = 2 ^ w - 1 - a
  | .bool | .rany => out = b2n (a != 0)
  | .rall => out = b2n (a == 2 ^ w - 1)
  | .rxor => out = parity w a

/-- binary operators; `w` is the width of the first operand (and of the second, except for shifts) -/
def nir2 (o : NOp2) (w a b out : Nat) : Prop :=
  match o with
  | .add => ∀ s, out = ofInt w (toInt s w a + toInt s w b)
  | .sub => ∀ s, out = ofInt w (toInt s w a - toInt s w b)
  | .mul => ∀ s, out = ofInt w (toInt s w a * toInt s w b)
  | .udiv => out = ofInt w (zdiv (toInt false w a) (toInt false w b))
  | .sdiv => out = ofInt w (zdiv (toInt true w a) (toInt true w b))
  | .umod => out = ofInt w (zmod (toInt false w a) (toInt false w b))
  | .smod => out = ofInt w (zmod (toInt true w a) (toInt true w b))
  | .shl => ∀ s, out = ofInt w (toInt s w a * 2 ^ b)
  | .ushr => out = a / 2 ^ b
  | .sshr => out = ofInt w (toInt true w a / 2 ^ b)
  | .and => out = a &&& b
  | .or => out = a ||| b
  | .xor => out = a ^^^ b
  | .eq => ∀ s, out = b2n (decide (toInt s w a = toInt s w b))
  | .ne => ∀ s, out = b2n (decide (toInt s w a ≠ toInt s w b))
  | .ult => out = b2n (decide (toInt false w a < toInt false w b))
  | .ugt => out = b2n (decide (toInt false w b < toInt false w a))
  | .ule => out = b2n (decide (toInt false w a ≤ toInt false w b))
  | .uge => out = b2n (decide (toInt false w b ≤ toInt false w a))
  | .slt => out = b2n (decide (toInt true w a < toInt true w b))
  | .sgt => out = b2n (decide (toInt true w b < toInt true w a))
  | .sle => out = b2n (decide (toInt true w a ≤ toInt true w b))
  | .sge => out = b2n (decide (toInt true w b ≤ toInt true w a))

/-! ## small facts -/

theorem b2n_lt_two (b : Bool) : b2n b < 2 := by cases b <;> simp [b2n]

theorem b2n_mod (b : Bool) : b2n b % 2 ^ 1 = b2n b := by cases b <;> simp [b2n]

theorem parity_lt_two : ∀ w n, parity w n < 2
  | 0, _ => by simp [parity]
  | w + 1, n => by simp only [parity]; omega

theorem toInt_congr_sign (s s' : Bool) (w a : Nat) : toInt s w a ≡ toInt s' w a [ZMOD 2 ^ w] :=
  (toInt_modEq s w a).trans (toInt_modEq s' w a).symm

theorem toInt_inj (s : Bool) (w : Nat) {a b : Nat} (ha : a < 2 ^ w) (hb : b < 2 ^ w) :
    toInt s w a = toInt s w b ↔ a = b := by
  constructor
  · intro h
    have hc : (a : Int) ≡ (b : Int) [ZMOD 2 ^ w] := (toInt_modEq s w a).symm.trans (h ▸ toInt_modEq s w b)
    rw [eq_ofInt ha hc, ← eq_ofInt hb (Int.ModEq.refl _)]
  · intro h; rw [h]

theorem sval_eq_toInt (s : Bool) (env : Env) (v : Val) : sval s env v = toInt s v.length (valOf env v) := rfl

theorem pick_shorten (a : Val) (cnd : Prop) [Decidable cnd] :
    (if cnd then shorten true a else shorten false a) = shorten (decide cnd) a := by
  by_cases h : cnd <;> simp [h]

/-- a single emitted cell driving the fresh wire `$k` -/
theorem emSound_cell (c : Ctx) (m : Mems) (k : Nat) (env : Env) (cell : Cell) (yw r : Nat) (P : Nat → Prop)
    (hy : cell.conn? "\\Y" = some (.one (.wire (autoName k)))) (hr : evalCombCell c env cell = .ok r)
    (hw : c.width (autoName k) = yw) (hlt : r < 2 ^ yw) (hP : P r) :
    EmSound c m k env ⟨wireBits (autoName k) 0 yw, k + 2, [(autoName k, yw)], [.cell cell]⟩ P := by
  obtain ⟨h1, h2, h3⟩ := run_cell c m env cell k yw r k hy hr hw hlt (Nat.le_refl k)
  exact ⟨Nat.le_add_right k 2, old_wireBits (oldName_auto (Nat.lt_add_of_pos_right (by norm_num))) _ _, ⟨_, h1, h2, by rw [h3]; exact hP⟩⟩

/-! ## unary operators -/

theorem emitUnary_sound (c : Ctx) (m : Mems) (o : NOp1) (a : Val) (k : Nat) (env : Env)
    (hw : WidthsOk c (emitUnary o a k).wires) :
    EmSound c m k env (emitUnary o a k) (nir1 o a.length (valOf env a)) := by
  have ha := valOf_lt env a
  have hwid : c.width (autoName k) = o.width a.length := hw (autoName k, o.width a.length) (by simp [emitUnary])
  cases o with
  | neg =>
    simp only [emitUnary, NOp1.width, NOp1.cellType, beq_self_eq_true, Bool.true_and, if_true, pick_shorten] at hwid ⊢
    generalize hsg : decide ((shorten true a).length < (shorten false a).length) = sg
    refine emSound_cell c m k env _ _ _ _ (conn_unary _ _ _ _ _ _) (eval_neg c env _ _ sg _ _) hwid ?_ ?_
    · rw [cellNeg_exact _ _ _ _ (valOf_lt env _)]; exact ofInt_lt _ _
    · intro s
      rw [cellNeg_exact _ _ _ _ (valOf_lt env _), ← sval_eq_toInt, sval_shorten]
      apply ofInt_congr
      exact (toInt_congr_sign sg s a.length _).neg
  | not =>
    simp only [emitUnary, NOp1.width, NOp1.cellType, (by decide : (NOp1.not == NOp1.neg) = false), Bool.false_and,
      Bool.false_eq_true, if_false] at hwid ⊢
    refine emSound_cell c m k env _ _ _ _ (conn_unary _ _ _ _ _ _) (eval_not c env _ _ _ _) hwid ?_ ?_
    · simp only [cellNot]; have := Nat.two_pow_pos a.length; omega
    · simp only [nir1, cellNot, extend, Nat.le_refl, if_true, Nat.mod_eq_of_lt ha]
  | bool =>
    simp only [emitUnary, NOp1.width, NOp1.cellType, (by decide : (NOp1.bool == NOp1.neg) = false), Bool.false_and,
      Bool.false_eq_true, if_false] at hwid ⊢
    refine emSound_cell c m k env _ _ _ _ (conn_unary _ _ _ _ _ _) (eval_reduce_bool c env _ _ _ _) hwid ?_ ?_
    · simp only [cellReduceOr]; exact Nat.mod_lt _ (by norm_num)
    · simp only [nir1, cellReduceOr, Nat.mod_eq_of_lt ha, b2n_mod]
  | rany =>
    simp only [emitUnary, NOp1.width, NOp1.cellType, (by decide : (NOp1.rany == NOp1.neg) = false), Bool.false_and,
      Bool.false_eq_true, if_false] at hwid ⊢
    refine emSound_cell c m k env _ _ _ _ (conn_unary _ _ _ _ _ _) (eval_reduce_or c env _ _ _ _) hwid ?_ ?_
    · simp only [cellReduceOr]; exact Nat.mod_lt _ (by norm_num)
    · simp only [nir1, cellReduceOr, Nat.mod_eq_of_lt ha, b2n_mod]
  | rall =>
    simp only [emitUnary, NOp1.width, NOp1.cellType, (by decide : (NOp1.rall == NOp1.neg) = false), Bool.false_and,
      Bool.false_eq_true, if_false] at hwid ⊢
    refine emSound_cell c m k env _ _ _ _ (conn_unary _ _ _ _ _ _) (eval_reduce_and c env _ _ _ _) hwid ?_ ?_
    · simp only [cellReduceAnd]; exact Nat.mod_lt _ (by norm_num)
    · simp only [nir1, cellReduceAnd, Nat.mod_eq_of_lt ha, b2n_mod]
  | rxor =>
    simp only [emitUnary, NOp1.width, NOp1.cellType, (by decide : (NOp1.rxor == NOp1.neg) = false), Bool.false_and,
      Bool.false_eq_true, if_false] at hwid ⊢
    refine emSound_cell c m k env _ _ _ _ (conn_unary _ _ _ _ _ _) (eval_reduce_xor c env _ _ _ _) hwid ?_ ?_
    · simp only [cellReduceXor]; exact Nat.mod_lt _ (by norm_num)
    · simp only [nir1, cellReduceXor]
      exact Nat.mod_eq_of_lt (parity_lt_two _ _)

end Amaranth.Rtlil
