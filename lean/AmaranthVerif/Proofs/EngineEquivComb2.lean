import AmaranthVerif.Proofs.EngineEquivComb
import AmaranthVerif.Proofs.EngineEquivWrite

/-!
# `comb (out := e)` and `userComb (exprSigs e) out e`: one delta, `step_design()`, whole runs
-/

namespace Amaranth.Engine
open Amaranth

/-- the process list with the compiled combinational assignment -/
def combKindsA (pre post : List ProcKind) (out : Nat) (e : Expr) : List ProcKind :=
  pre ++ ProcKind.comb (.assign (.sig out) e) :: post

/-- the process list with the documented process form instead -/
def combKindsB (pre post : List ProcKind) (out : Nat) (e : Expr) : List ProcKind :=
  pre ++ ProcKind.userComb (exprSigs e) out e :: post

theorem CombQ1_congr (D : Design) (out : Nat) (e : Expr) (lA lB : Local) (cur nxt nxt' : Env)
    (h : nxt'.val out = nxt.val out) (hq : CombQ1 D out e lA lB cur nxt) : CombQ1 D out e lA lB cur nxt' := by
  rcases hq with hq | ⟨h1, h2, h3⟩
  · exact Or.inl hq
  · exact Or.inr ⟨h1, h2, by rw [h]; exact h3⟩

theorem comb_sameOff (D : Design) (pre post : List ProcKind) (scripts : List (List TbOp)) (out : Nat) (e : Expr) :
    SameOff pre.length (simDefs D (combKindsA pre post out e) scripts) (simDefs D (combKindsB pre post out e) scripts) :=
  simDefs_replace D pre post scripts _ _

theorem comb_atA (D : Design) (pre post : List ProcKind) (scripts : List (List TbOp)) (out : Nat) (e : Expr) :
    (simDefs D (combKindsA pre post out e) scripts)[pre.length]? = some (combDef D (.assign (.sig out) e)) :=
  simDefs_at D pre post scripts _

theorem comb_atB (D : Design) (pre post : List ProcKind) (scripts : List (List TbOp)) (out : Nat) (e : Expr) :
    (simDefs D (combKindsB pre post out e) scripts)[pre.length]? = some (userCombDef D.ctx (exprSigs e) out e) :=
  simDefs_at D pre post scripts _

section
variable {D : Design} {pre post : List ProcKind} {scripts : List (List TbOp)} {out : Nat} {e : Expr}

/-- the process phase of a delta, on both sides -/
theorem comb_run (H : ReplHyp D pre post out) (hwf : e.wf D.ctx = true)
    (a1 b1 : EState) (hm : Mid pre.length a1 b1) (hcur : EnvN D.ctx a1.curr) (hn : EnvN D.ctx a1.next)
    (lA1 lB1 : Local) (hlA : a1.locals[pre.length]? = some lA1) (hlB : b1.locals[pre.length]? = some lB1)
    (hq : CombQ1 D out e lA1 lB1 a1.curr a1.next)
    (order : List Nat) (hnd : order.Nodup) (hp : pre.length ∈ order) :
    Mid pre.length (runProcs (simDefs D (combKindsA pre post out e) scripts) order a1)
      (runProcs (simDefs D (combKindsB pre post out e) scripts) order b1) ∧
    EnvN D.ctx (runProcs (simDefs D (combKindsA pre post out e) scripts) order a1).next ∧
    (runProcs (simDefs D (combKindsA pre post out e) scripts) order a1).next.val out = combV D out e a1.curr ∧
    (∃ lA2, (runProcs (simDefs D (combKindsA pre post out e) scripts) order a1).locals[pre.length]? = some lA2) ∧
    (∃ lB2, (runProcs (simDefs D (combKindsB pre post out e) scripts) order b1).locals[pre.length]? = some lB2 ∧
      BIdle e lB2 ∧ lB2.active = false) := by
  have hps := comb_sameOff D pre post scripts out e
  rw [runProcs_eq_parallel _ a1 order hnd, runProcs_eq_parallel _ b1 order hnd]
  obtain ⟨s1, s2, rfl⟩ := List.append_of_mem hp
  have hp1 : pre.length ∉ s1 := by
    intro h
    have := (List.nodup_append.mp hnd).2.2 _ h _ (List.mem_cons_self ..)
    exact this rfl
  have hp2 : pre.length ∉ s2 := (List.nodup_cons.mp (List.nodup_append.mp hnd).2.1).1
  have hsame : ∀ q, q ≠ pre.length →
      effectOf (simDefs D (combKindsB pre post out e) scripts) b1 q =
      effectOf (simDefs D (combKindsA pre post out e) scripts) a1 q := fun q hq => effectOf_off hps hm q hq
  have hsafe := fun q (hq : q ≠ pre.length) eff he =>
    other_effect D pre post scripts (ProcKind.comb (.assign (.sig out) e)) out H a1 hcur q hq eff he
  simp only [List.foldl_append, List.foldl_cons]
  obtain ⟨m1, n1, v1, lA', lB', c1⟩ := others_fold D.ctx out pre.length _ _ hsame hsafe s1 hp1 a1 b1 hm hn
  have hdA := comb_atA D pre post scripts out e
  have hdB := comb_atB D pre post scripts out e
  obtain ⟨m2, n2, v2, ⟨lA2, hA2⟩, ⟨lB2, hB2, hidle, hact⟩⟩ :=
    comb_pstep H.hout hwf pre.length _ _ hdA hdB a1 b1 hm.curr lA1 lB1 hlA hlB hcur _ _ m1 n1
      (by rw [lA']; exact hlA) (by rw [lB']; exact hlB) (CombQ1_congr D out e _ _ _ _ _ v1 hq)
  obtain ⟨m3, n3, v3, lA3, lB3, _⟩ := others_fold D.ctx out pre.length _ _ hsame hsafe s2 hp2 _ _ m2 n2
  exact ⟨m3, n3, v3.trans v2, ⟨lA2, lA3.trans hA2⟩, ⟨lB2, lB3.trans hB2, hidle, hact⟩⟩

/-! ## The commit -/

theorem comb_wake_spec (l : Local) (slot : Nat) (old new : Int) :
    (l.runnable = true → ((combDef D (.assign (.sig out) e)).wake l slot old new).runnable = true) ∧
    (slot ∈ exprSigs e → ((combDef D (.assign (.sig out) e)).wake l slot old new).runnable = true) := by
  constructor
  · intro h
    by_cases hc : (stmtReads (Stmt.assign (Expr.sig out) e)).contains slot = true
    · simp only [combDef, hc, if_true]
    · simp only [combDef, hc]; exact h
  · intro h
    have hc : (stmtReads (Stmt.assign (Expr.sig out) e)).contains slot = true := by
      simp [stmtReads, exprSigs, h]
    simp only [combDef, hc, if_true]

theorem changedWake_spec (ctx : Ctx) (ins : List Nat) (o : Nat) (ex : Expr) (l : Local) (hw : l.waiting = true)
    (hlen : l.hits.length = ins.length) (slot : Nat) (old new : Int) :
    ((userCombDef ctx ins o ex).wake l slot old new).runnable = l.runnable ∧
    ((userCombDef ctx ins o ex).wake l slot old new).initial = l.initial ∧
    ((userCombDef ctx ins o ex).wake l slot old new).waiting = true ∧
    ((userCombDef ctx ins o ex).wake l slot old new).hits.length = ins.length ∧
    (((userCombDef ctx ins o ex).wake l slot old new).active = true ↔ (l.active = true ∨ slot ∈ ins)) := by
  simp only [userCombDef, trigWake, hw, if_true]
  refine ⟨by first | trivial | rfl, by first | trivial | rfl, by first | trivial | rfl, ?_, ?_⟩
  · simp only [List.length_zipWith, List.length_map, hlen]; omega
  · simp only [List.any_map, Bool.or_eq_true, List.any_eq_true, Function.comp]
    constructor
    · rintro (h | ⟨x, hx, h⟩)
      · exact Or.inl h
      · simp only [TrigElem.firesOn, beq_iff_eq] at h
        exact Or.inr (h ▸ hx)
    · rintro (h | h)
      · exact Or.inl h
      · exact Or.inr ⟨slot, h, by simp [TrigElem.firesOn]⟩

/-- what the commit keeps about the replaced owner: the user process stays suspended; if its trigger
is activated the compiled process has been woken too; if not, no input has changed -/
def CombC (e : Expr) (c0 : Env) (lA lB : Local) (cur : Env) : Prop :=
  BIdle e lB ∧ (lB.active = true → lA.runnable = true) ∧ (lB.active = false → ∀ i ∈ exprSigs e, cur.val i = c0.val i)

theorem comb_commitSlot (c0 : Env) (za zb : EState) (i : Nat) (hm : Mid pre.length za zb)
    (hcur : EnvN D.ctx za.curr) (hn : EnvN D.ctx za.next) (lA lB : Local)
    (hlA : za.locals[pre.length]? = some lA) (hlB : zb.locals[pre.length]? = some lB)
    (hc : CombC e c0 lA lB za.curr) :
    Mid pre.length (commitSlot (simDefs D (combKindsA pre post out e) scripts) za i)
      (commitSlot (simDefs D (combKindsB pre post out e) scripts) zb i) ∧
    EnvN D.ctx (commitSlot (simDefs D (combKindsA pre post out e) scripts) za i).curr ∧
    ∃ lA' lB', (commitSlot (simDefs D (combKindsA pre post out e) scripts) za i).locals[pre.length]? = some lA' ∧
      (commitSlot (simDefs D (combKindsB pre post out e) scripts) zb i).locals[pre.length]? = some lB' ∧
      CombC e c0 lA' lB' (commitSlot (simDefs D (combKindsA pre post out e) scripts) za i).curr := by
  have hps := comb_sameOff D pre post scripts out e
  have hdA := comb_atA D pre post scripts out e
  have hdB := comb_atB D pre post scripts out e
  refine ⟨commitSlot_mid hps hm i, ?_, ?_⟩
  · by_cases hi : za.curr.val i = za.next.val i
    · rw [commitSlot_of_eq _ za i hi]; exact hcur
    · rw [commitSlot_of_ne _ za i hi]
      show EnvN D.ctx (za.curr.put i (za.next.val i))
      exact hcur.put i _ (fun hlt => (hn.ok i hlt).2)
  · have eA := commitSlot_at (simDefs D (combKindsA pre post out e) scripts) za i pre.length _ lA hdA hlA
    have eB := commitSlot_at (simDefs D (combKindsB pre post out e) scripts) zb i pre.length _ lB hdB hlB
    rw [hm.curr, hm.next] at eB
    by_cases hi : za.curr.val i = za.next.val i
    · simp only [hi, if_true] at eA eB
      refine ⟨lA, lB, eA, eB, ?_⟩
      rw [commitSlot_of_eq _ za i hi]; exact hc
    · simp only [hi, if_false] at eA eB
      refine ⟨_, _, eA, eB, ?_⟩
      obtain ⟨⟨hr, hini, hw, hl⟩, hact, hin⟩ := hc
      obtain ⟨w1, w2, w3, w4, w5⟩ := changedWake_spec D.ctx (exprSigs e) out e lB hw hl i (za.curr.val i) (za.next.val i)
      obtain ⟨c1, c2⟩ := comb_wake_spec (D := D) (out := out) (e := e) lA i (za.curr.val i) (za.next.val i)
      refine ⟨⟨w1.trans hr, w2.trans hini, w3, w4⟩, ?_, ?_⟩
      · intro ha
        rcases w5.mp ha with h | h
        · exact c1 (hact h)
        · exact c2 h
      · intro ha j hj
        have hnot : ¬ (lB.active = true ∨ i ∈ exprSigs e) := fun h => by
          have t := w5.mpr h
          rw [ha] at t; cases t
        have hb : lB.active = false := by
          cases hb : lB.active with
          | false => rfl
          | true => exact absurd (Or.inl hb) hnot
        have hij : i ≠ j := fun h => hnot (Or.inr (h ▸ hj))
        rw [commitSlot_curr_ne _ _ _ _ hij]
        exact hin hb j hj

theorem comb_commit (c0 : Env) (order : List Nat) : ∀ (za zb : EState), Mid pre.length za zb →
    EnvN D.ctx za.curr → EnvN D.ctx za.next → ∀ (lA lB : Local),
    za.locals[pre.length]? = some lA → zb.locals[pre.length]? = some lB → CombC e c0 lA lB za.curr →
    Mid pre.length (commit (simDefs D (combKindsA pre post out e) scripts) order za)
      (commit (simDefs D (combKindsB pre post out e) scripts) order zb) ∧
    EnvN D.ctx (commit (simDefs D (combKindsA pre post out e) scripts) order za).curr ∧
    (commit (simDefs D (combKindsA pre post out e) scripts) order za).next = za.next ∧
    ∃ lA' lB', (commit (simDefs D (combKindsA pre post out e) scripts) order za).locals[pre.length]? = some lA' ∧
      (commit (simDefs D (combKindsB pre post out e) scripts) order zb).locals[pre.length]? = some lB' ∧
      CombC e c0 lA' lB' (commit (simDefs D (combKindsA pre post out e) scripts) order za).curr := by
  unfold commit
  induction order with
  | nil => intro za zb hm hc _ lA lB h1 h2 h3; exact ⟨hm, hc, rfl, lA, lB, h1, h2, h3⟩
  | cons i rest ih =>
    intro za zb hm hc hn lA lB h1 h2 h3
    simp only [List.foldl_cons]
    obtain ⟨m1, c1, lA', lB', a1, b1, q1⟩ := comb_commitSlot (D := D) (pre := pre) (post := post) (scripts := scripts)
      (out := out) c0 za zb i hm hc hn lA lB h1 h2 h3
    have hn1 : EnvN D.ctx (commitSlot (simDefs D (combKindsA pre post out e) scripts) za i).next := by
      rw [commitSlot_next]; exact hn
    obtain ⟨r1, r2, r3, r4⟩ := ih _ _ m1 c1 hn1 lA' lB' a1 b1 q1
    exact ⟨r1, r2, by rw [r3, commitSlot_next], r4⟩

/-! ## One delta -/

/-- the two simulations, state by state -/
def CombRel (D : Design) (pre : List ProcKind) (out : Nat) (e : Expr) (a b : EState) : Prop :=
  Mid pre.length a b ∧ ∃ lA lB, a.locals[pre.length]? = some lA ∧ b.locals[pre.length]? = some lB ∧
    CombQ D out e lA lB a.curr a.next

theorem comb_delta (H : ReplHyp D pre post out) (hwf : e.wf D.ctx = true) (o : Orders)
    (hnd : o.procs.Nodup) (hp : pre.length ∈ o.procs) (a b : EState) (hr : CombRel D pre out e a b) :
    CombRel D pre out e (delta (simDefs D (combKindsA pre post out e) scripts) o a).1
      (delta (simDefs D (combKindsB pre post out e) scripts) o b).1 ∧
    (delta (simDefs D (combKindsB pre post out e) scripts) o b).2 =
      (delta (simDefs D (combKindsA pre post out e) scripts) o a).2 := by
  obtain ⟨hm, lA, lB, hlA, hlB, hq⟩ := hr
  have hps := comb_sameOff D pre post scripts out e
  have hdA := comb_atA D pre post scripts out e
  have hdB := comb_atB D pre post scripts out e
  have hcur := hq.1
  have hn := hq.2.1
  -- phase 1a
  have m1 := trigPhase_mid hps hm
  have tA := trigPhase_at _ a pre.length _ lA hdA hlA
  have tB := trigPhase_at _ b pre.length _ lB hdB hlB
  rw [hm.curr] at tB
  have q1 := comb_trig D out e lA lB a.curr a.next hq
  -- phase 1b
  obtain ⟨m2, n2, v2, ⟨lA2, hA2⟩, ⟨lB2, hB2, hidle, hact⟩⟩ :=
    comb_run (scripts := scripts) H hwf _ _ m1 hcur hn _ _ tA tB q1 o.procs hnd hp
  have c2 : (runProcs (simDefs D (combKindsA pre post out e) scripts) o.procs
      (trigPhase (simDefs D (combKindsA pre post out e) scripts) a)).curr = a.curr := by
    rw [runProcs_curr, trigPhase_curr]
  -- commit
  have hc2 : CombC e a.curr lA2 lB2 (runProcs (simDefs D (combKindsA pre post out e) scripts) o.procs
      (trigPhase (simDefs D (combKindsA pre post out e) scripts) a)).curr :=
    ⟨hidle, (fun h => by rw [hact] at h; cases h), (fun _ i _ => by rw [c2])⟩
  obtain ⟨m3, cu3, nx3, lA3, lB3, hA3, hB3, ⟨hidle3, hact3, hin3⟩⟩ :=
    comb_commit (D := D) (pre := pre) (post := post) (scripts := scripts) (out := out) (e := e) a.curr o.slots _ _ m2
      (by rw [c2]; exact hcur) n2 lA2 lB2 hA2 hB2 hc2
  unfold delta
  refine ⟨⟨⟨m3.curr, m3.next, m3.timers, m3.now, by simp only [m3.deltas], m3.obs, m3.len, m3.off⟩,
    lA3, lB3, hA3, hB3, cu3, by rw [nx3]; exact n2, ?_⟩, ?_⟩
  · by_cases hb : lB3.active = true
    · exact Or.inr (Or.inl ⟨hact3 hb, hidle3, hb⟩)
    · have hb : lB3.active = false := by simpa using hb
      refine Or.inr (Or.inr ⟨hidle3, hb, ?_⟩)
      show (commit _ o.slots _).next.val out = combV D out e (commit _ o.slots _).curr
      rw [nx3, v2, trigPhase_curr]
      unfold combV
      rw [evalTb_congr D.ctx _ a.curr e (fun i hi => hin3 hb i hi)]
  · simp only [anyChange_mid hps m2]

theorem comb_settle (H : ReplHyp D pre post out) (hwf : e.wf D.ctx = true) (sched : Sched)
    (hnd : SchedNodup sched) (hl : ∀ k, pre.length ∈ (sched k).procs) (fuel : Nat) (a b : EState)
    (hr : CombRel D pre out e a b) :
    CombRel D pre out e (settle (simDefs D (combKindsA pre post out e) scripts) sched fuel a).1
      (settle (simDefs D (combKindsB pre post out e) scripts) sched fuel b).1 := by
  induction fuel generalizing a b with
  | zero => exact hr
  | succ n ih =>
    simp only [settle]
    rw [hr.1.deltas]
    obtain ⟨h1, h2⟩ := comb_delta (scripts := scripts) H hwf (sched a.deltas) (hnd _) (hl _) a b hr
    rw [h2]
    split
    · exact h1
    · exact ih _ _ h1

end

end Amaranth.Engine
