import AmaranthVerif.Proofs.EngineConcrete

/-!
# The clock process: toggle `k` happens at `phase + k * (period / 2)`

The clock owner `c` is followed through every primitive of the engine by three predicates on what the
engine holds about it (its `Local`, its timeline entry, `now`):

* `Fresh`   : never run; runnable; `now = 0`;
* `Sleep k` : `k` toggles done, not runnable, timeline entry `phase + k * half`, `now ≤` that;
* `Due k`   : `k` toggles done, woken by the timeline, `now = phase + k * half` — toggle `k` is executed
              by the next delta, at this instant.
-/

namespace Amaranth.Engine
open Amaranth

structure ClockCfg where
  c : Nat
  slot : Nat
  phase : Nat
  period : Nat

def ClockCfg.half (K : ClockCfg) : Nat := K.period / 2
def ClockCfg.at (K : ClockCfg) (k : Nat) : Nat := K.phase + k * K.half

def Fresh (K : ClockCfg) (s : EState) : Prop :=
  ∃ l, s.locals[K.c]? = some l ∧ l.initial = true ∧ l.runnable = true ∧ l.pc = 0 ∧
    s.timers[K.c]? = some none ∧ s.now = 0

def Sleep (K : ClockCfg) (k : Nat) (s : EState) : Prop :=
  ∃ l, s.locals[K.c]? = some l ∧ l.initial = false ∧ l.runnable = false ∧ l.pc = k ∧
    s.timers[K.c]? = some (some (K.at k)) ∧ s.now ≤ K.at k

def Due (K : ClockCfg) (k : Nat) (s : EState) : Prop :=
  ∃ l, s.locals[K.c]? = some l ∧ l.initial = false ∧ l.runnable = true ∧ l.pc = k ∧
    s.timers[K.c]? = some none ∧ s.now = K.at k

/-- two states hold the same about the clock -/
def SameClock (K : ClockCfg) (s s' : EState) : Prop :=
  s'.locals[K.c]? = s.locals[K.c]? ∧ s'.timers[K.c]? = s.timers[K.c]? ∧ s'.now = s.now

theorem SameClock.fresh {K : ClockCfg} {s s' : EState} (h : SameClock K s s') (hf : Fresh K s) : Fresh K s' := by
  obtain ⟨l, h1, h2⟩ := hf
  exact ⟨l, by rw [h.1]; exact h1, by rw [h.2.1, h.2.2]; exact h2⟩

theorem SameClock.sleep {K : ClockCfg} {s s' : EState} {k : Nat} (h : SameClock K s s') (hf : Sleep K k s) : Sleep K k s' := by
  obtain ⟨l, h1, h2⟩ := hf
  exact ⟨l, by rw [h.1]; exact h1, by rw [h.2.1, h.2.2]; exact h2⟩

theorem SameClock.due {K : ClockCfg} {s s' : EState} {k : Nat} (h : SameClock K s s') (hf : Due K k s) : Due K k s' := by
  obtain ⟨l, h1, h2⟩ := hf
  exact ⟨l, by rw [h.1]; exact h1, by rw [h.2.1, h.2.2]; exact h2⟩

theorem SameClock.refl (K : ClockCfg) (s : EState) : SameClock K s s := ⟨rfl, rfl, rfl⟩

theorem SameClock.trans {K : ClockCfg} {a b c : EState} (h1 : SameClock K a b) (h2 : SameClock K b c) : SameClock K a c :=
  ⟨h2.1.trans h1.1, h2.2.1.trans h1.2.1, h2.2.2.trans h1.2.2⟩

/-- owner `K.c` of `ps` is the clock process -/
def IsClock (ps : List ProcDef) (K : ClockCfg) : Prop := ps[K.c]? = some (clockDef K.slot K.phase K.period)

/-! ## Primitives -/

theorem stepProc_other (ps : List ProcDef) (K : ClockCfg) (s : EState) (p : Nat) (hp : p ≠ K.c) :
    SameClock K s (stepProc ps s p) := by
  unfold stepProc
  cases he : effectOf ps s p with
  | none => exact SameClock.refl K s
  | some e =>
    refine ⟨List.getElem?_set_ne hp, ?_, rfl⟩
    simp only [applyEffect]
    cases e.timer with
    | none => rfl
    | some n => exact List.getElem?_set_ne hp

theorem stepProc_sleep (ps : List ProcDef) (K : ClockCfg) (s : EState) (k : Nat) (h : Sleep K k s) :
    stepProc ps s K.c = s := by
  obtain ⟨l, hl, _, hr, _⟩ := h
  apply stepProc_of_not_runnable
  intro l' hl'; rw [hl] at hl'; cases hl'; exact hr

theorem stepProc_fresh (ps : List ProcDef) (K : ClockCfg) (hK : IsClock ps K) (s : EState) (h : Fresh K s) :
    Sleep K 0 (stepProc ps s K.c) := by
  obtain ⟨l, hl, hi, hr, hpc, ht, hn⟩ := h
  have hc : K.c < s.locals.length := by
    rcases Nat.lt_or_ge K.c s.locals.length with h | h
    · exact h
    · rw [List.getElem?_eq_none h] at hl; cases hl
  have hct : K.c < s.timers.length := by
    rcases Nat.lt_or_ge K.c s.timers.length with h | h
    · exact h
    · rw [List.getElem?_eq_none h] at ht; cases ht
  unfold IsClock at hK
  unfold stepProc effectOf
  simp only [hK, hl, hr, if_true, clockDef, hi, applyEffect]
  refine ⟨_, List.getElem?_set_self hc, rfl, rfl, hpc, ?_, ?_⟩
  · rw [List.getElem?_set_self hct, hn]; simp [ClockCfg.at]
  · simp [hn, ClockCfg.at]

theorem stepProc_due (ps : List ProcDef) (K : ClockCfg) (hK : IsClock ps K) (s : EState) (k : Nat) (h : Due K k s) :
    Sleep K (k + 1) (stepProc ps s K.c) := by
  obtain ⟨l, hl, hi, hr, hpc, ht, hn⟩ := h
  have hc : K.c < s.locals.length := by
    rcases Nat.lt_or_ge K.c s.locals.length with h | h
    · exact h
    · rw [List.getElem?_eq_none h] at hl; cases hl
  have hct : K.c < s.timers.length := by
    rcases Nat.lt_or_ge K.c s.timers.length with h | h
    · exact h
    · rw [List.getElem?_eq_none h] at ht; cases ht
  unfold IsClock at hK
  unfold stepProc effectOf
  simp only [hK, hl, hr, if_true, clockDef, hi, applyEffect, Bool.false_eq_true, if_false]
  refine ⟨_, List.getElem?_set_self hc, rfl, rfl, by simp [hpc], ?_, ?_⟩
  · rw [List.getElem?_set_self hct, hn]
    simp only [ClockCfg.at, ClockCfg.half, Nat.add_mul, Nat.one_mul, Nat.add_assoc]
  · simp only [hn, ClockCfg.at, Nat.add_mul, Nat.one_mul]; omega

theorem trigPhase_clock (ps : List ProcDef) (K : ClockCfg) (hK : IsClock ps K) (s : EState) :
    (∀ l, s.locals[K.c]? = some l → ∃ l', (trigPhase ps s).locals[K.c]? = some l' ∧
      l'.initial = l.initial ∧ l'.runnable = l.runnable ∧ l'.pc = l.pc) ∧
    (trigPhase ps s).timers = s.timers ∧ (trigPhase ps s).now = s.now := by
  refine ⟨?_, rfl, rfl⟩
  intro l hl
  unfold IsClock at hK
  unfold trigPhase
  simp only [List.getElem?_zipWith, hK, hl]
  by_cases ha : l.active = true
  · exact ⟨(clockDef K.slot K.phase K.period).trig l s.curr, by simp only [ha, if_true], rfl, rfl, rfl⟩
  · exact ⟨l, by simp [ha], rfl, rfl, rfl⟩

theorem trigPhase_fresh (ps : List ProcDef) (K : ClockCfg) (hK : IsClock ps K) (s : EState) (h : Fresh K s) :
    Fresh K (trigPhase ps s) := by
  obtain ⟨l, hl, hi, hr, hpc, ht, hn⟩ := h
  obtain ⟨hloc, htm, hnow⟩ := trigPhase_clock ps K hK s
  obtain ⟨l', hl', e1, e2, e3⟩ := hloc l hl
  exact ⟨l', hl', by rw [e1]; exact hi, by rw [e2]; exact hr, by rw [e3]; exact hpc, by rw [htm]; exact ht, by rw [hnow]; exact hn⟩

theorem trigPhase_sleep (ps : List ProcDef) (K : ClockCfg) (hK : IsClock ps K) (s : EState) (k : Nat) (h : Sleep K k s) :
    Sleep K k (trigPhase ps s) := by
  obtain ⟨l, hl, hi, hr, hpc, ht, hn⟩ := h
  obtain ⟨hloc, htm, hnow⟩ := trigPhase_clock ps K hK s
  obtain ⟨l', hl', e1, e2, e3⟩ := hloc l hl
  exact ⟨l', hl', by rw [e1]; exact hi, by rw [e2]; exact hr, by rw [e3]; exact hpc, by rw [htm]; exact ht, by rw [hnow]; exact hn⟩

theorem trigPhase_due (ps : List ProcDef) (K : ClockCfg) (hK : IsClock ps K) (s : EState) (k : Nat) (h : Due K k s) :
    Due K k (trigPhase ps s) := by
  obtain ⟨l, hl, hi, hr, hpc, ht, hn⟩ := h
  obtain ⟨hloc, htm, hnow⟩ := trigPhase_clock ps K hK s
  obtain ⟨l', hl', e1, e2, e3⟩ := hloc l hl
  exact ⟨l', hl', by rw [e1]; exact hi, by rw [e2]; exact hr, by rw [e3]; exact hpc, by rw [htm]; exact ht, by rw [hnow]; exact hn⟩

theorem commitSlot_clock (ps : List ProcDef) (K : ClockCfg) (hK : IsClock ps K) (s : EState) (i : Nat) :
    SameClock K s (commitSlot ps s i) := by
  unfold commitSlot
  simp only
  split
  · exact SameClock.refl K s
  · refine ⟨?_, rfl, rfl⟩
    unfold IsClock at hK
    simp only [List.getElem?_zipWith, hK]
    cases s.locals[K.c]? <;> rfl

theorem commit_clock (ps : List ProcDef) (K : ClockCfg) (hK : IsClock ps K) (order : List Nat) (s : EState) :
    SameClock K s (commit ps order s) := by
  unfold commit
  induction order generalizing s with
  | nil => exact SameClock.refl K s
  | cons i rest ih => exact (commitSlot_clock ps K hK s i).trans (ih _)

/-! ## One delta, `step_design()` -/

theorem runProcs_sleep (ps : List ProcDef) (K : ClockCfg) (order : List Nat) (s : EState) (k : Nat)
    (h : Sleep K k s) : Sleep K k (runProcs ps order s) := by
  unfold runProcs
  induction order generalizing s with
  | nil => exact h
  | cons p rest ih =>
    simp only [List.foldl_cons]
    apply ih
    by_cases hp : p = K.c
    · subst hp; rw [stepProc_sleep ps K s k h]; exact h
    · exact (stepProc_other ps K s p hp).sleep h

theorem runProcs_fresh (ps : List ProcDef) (K : ClockCfg) (hK : IsClock ps K) (order : List Nat) (s : EState)
    (hm : K.c ∈ order) (h : Fresh K s) : Sleep K 0 (runProcs ps order s) := by
  unfold runProcs
  induction order generalizing s with
  | nil => cases hm
  | cons p rest ih =>
    simp only [List.foldl_cons]
    by_cases hp : p = K.c
    · subst hp
      exact runProcs_sleep ps K rest _ 0 (stepProc_fresh ps K hK s h)
    · have : K.c ∈ rest := by
        rcases List.mem_cons.mp hm with h' | h'
        · exact absurd h'.symm hp
        · exact h'
      exact ih _ this ((stepProc_other ps K s p hp).fresh h)

theorem runProcs_due (ps : List ProcDef) (K : ClockCfg) (hK : IsClock ps K) (order : List Nat) (s : EState) (k : Nat)
    (hm : K.c ∈ order) (h : Due K k s) : Sleep K (k + 1) (runProcs ps order s) := by
  unfold runProcs
  induction order generalizing s with
  | nil => cases hm
  | cons p rest ih =>
    simp only [List.foldl_cons]
    by_cases hp : p = K.c
    · subst hp
      exact runProcs_sleep ps K rest _ (k + 1) (stepProc_due ps K hK s k h)
    · have : K.c ∈ rest := by
        rcases List.mem_cons.mp hm with h' | h'
        · exact absurd h'.symm hp
        · exact h'
      exact ih _ this ((stepProc_other ps K s p hp).due h)

theorem bump_sleep (K : ClockCfg) (k : Nat) (s : EState) (h : Sleep K k s) :
    Sleep K k { s with deltas := s.deltas + 1 } := h

theorem delta_sleep (ps : List ProcDef) (K : ClockCfg) (hK : IsClock ps K) (o : Orders) (s : EState) (k : Nat)
    (h : Sleep K k s) : Sleep K k (delta ps o s).1 := by
  unfold delta
  exact bump_sleep K k _ ((commit_clock ps K hK o.slots _).sleep
    (runProcs_sleep ps K o.procs _ k (trigPhase_sleep ps K hK s k h)))

theorem delta_fresh (ps : List ProcDef) (K : ClockCfg) (hK : IsClock ps K) (o : Orders) (s : EState)
    (hm : K.c ∈ o.procs) (h : Fresh K s) : Sleep K 0 (delta ps o s).1 := by
  unfold delta
  exact bump_sleep K 0 _ ((commit_clock ps K hK o.slots _).sleep
    (runProcs_fresh ps K hK o.procs _ hm (trigPhase_fresh ps K hK s h)))

theorem delta_due (ps : List ProcDef) (K : ClockCfg) (hK : IsClock ps K) (o : Orders) (s : EState) (k : Nat)
    (hm : K.c ∈ o.procs) (h : Due K k s) : Sleep K (k + 1) (delta ps o s).1 := by
  unfold delta
  exact bump_sleep K (k + 1) _ ((commit_clock ps K hK o.slots _).sleep
    (runProcs_due ps K hK o.procs _ k hm (trigPhase_due ps K hK s k h)))

theorem settle_sleep (ps : List ProcDef) (K : ClockCfg) (hK : IsClock ps K) (sched : Sched) (fuel : Nat) (s : EState) (k : Nat)
    (h : Sleep K k s) : Sleep K k (settle ps sched fuel s).1 := by
  induction fuel generalizing s with
  | zero => exact h
  | succ n ih =>
    simp only [settle]
    split
    · exact delta_sleep ps K hK _ s k h
    · exact ih _ (delta_sleep ps K hK _ s k h)

theorem settle_fresh (ps : List ProcDef) (K : ClockCfg) (hK : IsClock ps K) (sched : Sched) (fuel : Nat) (s : EState)
    (hm : ∀ n, K.c ∈ (sched n).procs) (h : Fresh K s) : Sleep K 0 (settle ps sched (fuel + 1) s).1 := by
  simp only [settle]
  split
  · exact delta_fresh ps K hK _ s (hm _) h
  · exact settle_sleep ps K hK sched fuel _ 0 (delta_fresh ps K hK _ s (hm _) h)

theorem settle_due (ps : List ProcDef) (K : ClockCfg) (hK : IsClock ps K) (sched : Sched) (fuel : Nat) (s : EState) (k : Nat)
    (hm : ∀ n, K.c ∈ (sched n).procs) (h : Due K k s) : Sleep K (k + 1) (settle ps sched (fuel + 1) s).1 := by
  simp only [settle]
  split
  · exact delta_due ps K hK _ s k (hm _) h
  · exact settle_sleep ps K hK sched fuel _ (k + 1) (delta_due ps K hK _ s k (hm _) h)

/-! ## Testbenches and the timeline -/

theorem setLoc_same (K : ClockCfg) (s : EState) (o : Nat) (l : Local) (ho : o ≠ K.c) : SameClock K s (setLoc s o l) :=
  ⟨List.getElem?_set_ne ho, rfl, rfl⟩

theorem tbExec_sleep (S : Sim) (K : ClockCfg) (k : Nat) (hstep : ∀ s, Sleep K k s → Sleep K k (S.step s))
    (hc : K.c < S.nproc) (t : Nat) (script : List TbOp) :
    ∀ fuel s, Sleep K k s → Sleep K k (tbExec S t script fuel s) := by
  intro fuel
  induction fuel with
  | zero => intro s h; exact h
  | succ n ih =>
    intro s h
    have ho : S.nproc + t ≠ K.c := by omega
    simp only [tbExec]
    split
    · exact (setLoc_same K s _ _ ho).sleep h
    · split
      · apply ih
        exact (setLoc_same K _ _ _ ho).sleep h
      · split
        · apply ih
          apply (setLoc_same K _ _ _ ho).sleep
          apply hstep
          exact h
        · apply ih
          apply (setLoc_same K _ _ _ ho).sleep
          apply hstep
          exact h
        · apply ih
          exact (setLoc_same K _ _ _ ho).sleep h
        · split
          · obtain ⟨l, hl, h2, h3, h4, h5, h6⟩ := h
            refine ⟨l, ?_, h2, h3, h4, ?_, h6⟩
            · simp only [setLoc]; rw [List.getElem?_set_ne ho]; exact hl
            · simp only [setLoc]; rw [List.getElem?_set_ne ho]; exact h5
          · exact (setLoc_same K s _ _ ho).sleep h

theorem tbPass_sleep (S : Sim) (K : ClockCfg) (k : Nat) (hstep : ∀ s, Sleep K k s → Sleep K k (S.step s))
    (hc : K.c < S.nproc) (s : EState) (h : Sleep K k s) : Sleep K k (tbPass S s).1 := by
  unfold tbPass
  generalize List.range S.scripts.length = ts
  suffices hh : ∀ (acc : EState × Bool), Sleep K k acc.1 →
      Sleep K k (ts.foldl (fun (acc : EState × Bool) t =>
        if (getLoc acc.1 (S.nproc + t)).runnable then
          (tbExec S t (S.scripts.getD t []) (2 * (S.scripts.getD t []).length + 2)
            (setLoc acc.1 (S.nproc + t) { getLoc acc.1 (S.nproc + t) with runnable := false }), true)
        else acc) acc).1 from hh (s, false) h
  induction ts with
  | nil => intro acc h; exact h
  | cons t rest ih =>
    intro acc h
    simp only [List.foldl_cons]
    apply ih
    split
    · apply tbExec_sleep S K k hstep hc
      exact (setLoc_same K _ _ _ (by omega)).sleep h
    · exact h

theorem tbLoop_sleep (S : Sim) (K : ClockCfg) (k : Nat) (hstep : ∀ s, Sleep K k s → Sleep K k (S.step s))
    (hc : K.c < S.nproc) (fuel : Nat) (s : EState) (h : Sleep K k s) : Sleep K k (tbLoop S fuel s) := by
  induction fuel generalizing s with
  | zero => exact h
  | succ n ih =>
    simp only [tbLoop]
    split
    · exact ih _ (tbPass_sleep S K k hstep hc s h)
    · exact tbPass_sleep S K k hstep hc s h

/-- the timeline step wakes the sleeping clock exactly when `now` reaches its deadline -/
theorem advanceTime_sleep (ps : List ProcDef) (K : ClockCfg) (hK : IsClock ps K) (s : EState) (k : Nat)
    (h : Sleep K k s) : Sleep K k (advanceTime ps s).1 ∨ Due K k (advanceTime ps s).1 := by
  obtain ⟨l, hl, hi, hr, hpc, ht, hn⟩ := h
  rcases advanceTime_spec ps s with ⟨_, hnone⟩ | ⟨d, _, hmin, _, hnow, htm, hloc, _⟩
  · exact absurd ht (hnone K.c _)
  · have hd : d ≤ K.at k := hmin K.c _ ht
    by_cases hdk : d = K.at k
    · right
      subst hdk
      refine ⟨(ps.getD K.c default).fire l, ?_, ?_, ?_, ?_, ?_, hnow⟩
      · rw [hloc K.c]; simp [ht, hl]
      · unfold IsClock at hK; simp [List.getD_eq_getElem?_getD, hK, clockDef, hi]
      · unfold IsClock at hK; simp [List.getD_eq_getElem?_getD, hK, clockDef]
      · unfold IsClock at hK; simp [List.getD_eq_getElem?_getD, hK, clockDef, hpc]
      · rw [htm K.c]; simp [ht]
    · left
      have hne : s.timers[K.c]? ≠ some (some d) := by
        rw [ht]; intro h; injection h with h; injection h with h; exact hdk h.symm
      refine ⟨l, ?_, hi, hr, hpc, ?_, ?_⟩
      · rw [hloc K.c, if_neg hne]; exact hl
      · rw [htm K.c, if_neg hne]; exact ht
      · rw [hnow]; exact hd

/-- what the engine holds about the clock between two calls of `advance` -/
def ClockInv (K : ClockCfg) (s : EState) : Prop := Fresh K s ∨ ∃ k, Sleep K k s ∨ Due K k s

/-- number of toggles performed so far -/
def toggles (K : ClockCfg) (s : EState) : Nat := (getLoc s K.c).pc

theorem toggles_sleep {K : ClockCfg} {s : EState} {k : Nat} (h : Sleep K k s) : toggles K s = k := by
  obtain ⟨l, hl, _, _, hpc, _⟩ := h
  simp [toggles, getLoc, List.getD_eq_getElem?_getD, hl, hpc]

theorem toggles_due {K : ClockCfg} {s : EState} {k : Nat} (h : Due K k s) : toggles K s = k := by
  obtain ⟨l, hl, _, _, hpc, _⟩ := h
  simp [toggles, getLoc, List.getD_eq_getElem?_getD, hl, hpc]

theorem toggles_fresh {K : ClockCfg} {s : EState} (h : Fresh K s) : toggles K s = 0 := by
  obtain ⟨l, hl, _, _, hpc, _⟩ := h
  simp [toggles, getLoc, List.getD_eq_getElem?_getD, hl, hpc]

/-- a simulation whose `step_design()` is `settle` over a schedule that lists the clock in every delta -/
structure ClockedSim (S : Sim) (K : ClockCfg) (sched : Sched) (fuel : Nat) : Prop where
  isClock : IsClock S.defs K
  isProc : K.c < S.nproc
  listed : ∀ n, K.c ∈ (sched n).procs
  step_eq : ∀ s, S.step s = (settle S.defs sched (fuel + 1) s).1

theorem advance_after_sleep (S : Sim) (K : ClockCfg) {sched : Sched} {fuel : Nat} (hS : ClockedSim S K sched fuel) (k : Nat) (s : EState)
    (h : Sleep K k (S.step s)) : Sleep K k (advance S s).1 ∨ Due K k (advance S s).1 := by
  unfold advance
  simp only
  have hstep : ∀ z, Sleep K k z → Sleep K k (S.step z) := by
    intro z hz; rw [hS.step_eq]; exact settle_sleep S.defs K hS.isClock _ _ z k hz
  exact advanceTime_sleep S.defs K hS.isClock _ k (tbLoop_sleep S K k hstep hS.isProc _ _ h)

/-- one `advance()`: the clock's state machine. From `Due k` the toggle `k` is executed — by the first
delta of this `advance`, whose whole design-and-testbench phase runs at `now = phase + k * half` -/
theorem advance_clock (S : Sim) (K : ClockCfg) {sched : Sched} {fuel : Nat} (hS : ClockedSim S K sched fuel) (s : EState) :
    (Fresh K s → Sleep K 0 (advance S s).1 ∨ Due K 0 (advance S s).1) ∧
    (∀ k, Sleep K k s → Sleep K k (advance S s).1 ∨ Due K k (advance S s).1) ∧
    (∀ k, Due K k s → Sleep K (k + 1) (advance S s).1 ∨ Due K (k + 1) (advance S s).1) := by
  refine ⟨fun h => ?_, fun k h => ?_, fun k h => ?_⟩
  · apply advance_after_sleep S K hS
    rw [hS.step_eq]; exact settle_fresh S.defs K hS.isClock _ _ s hS.listed h
  · apply advance_after_sleep S K hS
    rw [hS.step_eq]; exact settle_sleep S.defs K hS.isClock _ _ s k h
  · apply advance_after_sleep S K hS
    rw [hS.step_eq]; exact settle_due S.defs K hS.isClock _ _ s k hS.listed h

/-- the state after `n` calls of `advance()` -/
def advanceN (S : Sim) : Nat → EState → EState
  | 0, s => s
  | n + 1, s => (advance S (advanceN S n s)).1

theorem clockInv_advance (S : Sim) (K : ClockCfg) {sched : Sched} {fuel : Nat} (hS : ClockedSim S K sched fuel) (s : EState) (h : ClockInv K s) :
    ClockInv K (advance S s).1 := by
  obtain ⟨h1, h2, h3⟩ := advance_clock S K hS s
  rcases h with h | ⟨k, h | h⟩
  · rcases h1 h with h | h
    · exact Or.inr ⟨0, Or.inl h⟩
    · exact Or.inr ⟨0, Or.inr h⟩
  · rcases h2 k h with h | h
    · exact Or.inr ⟨k, Or.inl h⟩
    · exact Or.inr ⟨k, Or.inr h⟩
  · rcases h3 k h with h | h
    · exact Or.inr ⟨k + 1, Or.inl h⟩
    · exact Or.inr ⟨k + 1, Or.inr h⟩

theorem clockInv_advanceN (S : Sim) (K : ClockCfg) {sched : Sched} {fuel : Nat} (hS : ClockedSim S K sched fuel) (s : EState) (h : Fresh K s) (n : Nat) :
    ClockInv K (advanceN S n s) := by
  induction n with
  | zero => exact Or.inl h
  | succ n ih => exact clockInv_advance S K hS _ ih

/-- whenever an `advance()` performs a toggle, it is toggle number `toggles s` and the `advance()`
runs at the instant `phase + toggles s * half`; no `advance()` performs more than one toggle -/
theorem toggle_instant (S : Sim) (K : ClockCfg) {sched : Sched} {fuel : Nat} (hS : ClockedSim S K sched fuel) (s : EState) (h : ClockInv K s) :
    toggles K (advance S s).1 = toggles K s ∨
    (toggles K (advance S s).1 = toggles K s + 1 ∧ s.now = K.phase + toggles K s * (K.period / 2)) := by
  obtain ⟨h1, h2, h3⟩ := advance_clock S K hS s
  rcases h with h | ⟨k, h | h⟩
  · left
    rw [toggles_fresh h]
    rcases h1 h with h' | h'
    · exact toggles_sleep h'
    · exact toggles_due h'
  · left
    rw [toggles_sleep h]
    rcases h2 k h with h' | h'
    · exact toggles_sleep h'
    · exact toggles_due h'
  · right
    rw [toggles_due h]
    refine ⟨?_, ?_⟩
    · rcases h3 k h with h' | h'
      · exact toggles_sleep h'
      · exact toggles_due h'
    · obtain ⟨_, _, _, _, _, _, hn⟩ := h
      exact hn

end Amaranth.Engine
