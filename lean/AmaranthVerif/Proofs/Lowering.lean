import AmaranthVerif.Proofs.DslLemmas

/-!
# The DSL lowering preserves "the active assignments, in program order"

For every program (any nesting of If/Elif/Else and Switch/Case/Default), executing the lowered
`Switch` statements the way the compiled simulator does performs exactly the assignments that the
direct reading of the program (`Prog.writes`: first true condition, first matching case) calls
active, in program order, each with the exact value of its right-hand side.
-/

namespace Amaranth

/-- perform the given assignments in order, the way the compiled simulator performs one assignment -/
def applyWritesRtl (ctx : Ctx) (cur : Env) : List (Expr × Int) → Env → Env
  | [], nxt => nxt
  | (l, v) :: ws, nxt => applyWritesRtl ctx cur ws (assignRtlG ctx cur l v nxt)

theorem applyWritesRtl_append (ctx : Ctx) (cur : Env) (a b : List (Expr × Int)) (nxt : Env) :
    applyWritesRtl ctx cur (a ++ b) nxt = applyWritesRtl ctx cur b (applyWritesRtl ctx cur a nxt) := by
  induction a generalizing nxt with
  | nil => rfl
  | cons x xs ih => obtain ⟨l, v⟩ := x; simp only [List.cons_append, applyWritesRtl, ih]

def UPat.ok (w : Nat) : UPat → Bool
  | .bits p => p.length == w
  | .int _ => true

mutual
/-- what the DSL accepts: well-formed conditions, tests and right-hand sides; string patterns as
wide as the test -/
def Prog.ok (ctx : Ctx) : Prog → Bool
  | .assign _ r => r.wf ctx
  | .ifs branches els => Prog.ifOk ctx branches && Prog.listOk ctx els
  | .switch test cases => test.wf ctx && Prog.casesOk ctx (widthOf ctx test) cases
def Prog.listOk (ctx : Ctx) : List Prog → Bool
  | [] => true
  | p :: ps => Prog.ok ctx p && Prog.listOk ctx ps
def Prog.ifOk (ctx : Ctx) : List (Expr × List Prog) → Bool
  | [] => true
  | (c, body) :: rest => c.wf ctx && Prog.listOk ctx body && Prog.ifOk ctx rest
def Prog.casesOk (ctx : Ctx) (w : Nat) : List (Option (List UPat) × List Prog) → Bool
  | [] => true
  | (none, body) :: rest => Prog.listOk ctx body && Prog.casesOk ctx w rest
  | (some pats, body) :: rest => pats.all (UPat.ok w) && Prog.listOk ctx body && Prog.casesOk ctx w rest
end

/-! ## the concatenated tests of an If chain -/

theorem boolify_props (ctx : Ctx) (env : Env) (hok : EnvOk ctx env) (c : Expr) (hc : c.wf ctx = true) :
    (boolify ctx c).wf ctx = true ∧ widthOf ctx (boolify ctx c) = 1 ∧
    (denote ctx env (boolify ctx c) % 2 = 1 ↔ denote ctx env c ≠ 0) := by
  unfold boolify
  by_cases h : widthOf ctx c = 1
  · simp only [h, if_true]
    refine ⟨hc, trivial, ?_⟩
    have hs := sound ctx env hok c hc
    have hz := contains_emod_zero _ hs.swf hs.rng
    unfold widthOf at h
    rw [h] at hz
    have : (2 : Int) ^ 1 = 2 := by decide
    rw [this] at hz
    constructor
    · intro h1 h0; rw [h0] at h1; simp at h1
    · intro h0
      have : ¬ denote ctx env c % 2 = 0 := fun hh => h0 (hz.mp hh)
      omega
  · simp only [h, if_false]
    refine ⟨by simp [Expr.wf, hc], by simp [widthOf, shapeOf], ?_⟩
    simp only [denote]
    by_cases h0 : denote ctx env c = 0 <;> simp [h0]

theorem ifTests_props (ctx : Ctx) (env : Env) (hok : EnvOk ctx env) :
    ∀ (branches : List (Expr × List Prog)), Prog.ifOk ctx branches = true →
      (catList (ifTests ctx branches)).wf ctx = true ∧
      widthOf ctx (catList (ifTests ctx branches)) = branches.length ∧
      ∀ k, k < branches.length →
        ibit (denote ctx env (catList (ifTests ctx branches))) k =
          (branches.map (fun b => decide (denote ctx env b.1 ≠ 0))).getD k false := by
  intro branches
  induction branches with
  | nil =>
    intro _
    refine ⟨by simp [ifTests, catList, Expr.nil, Expr.wf, Shape.u, Shape.WF, Shape.contains, Shape.lo, Shape.hi], rfl, ?_⟩
    intro k hk; simp at hk
  | cons b rest ih =>
    obtain ⟨c, body⟩ := b
    intro hokb
    simp only [Prog.ifOk, Bool.and_eq_true] at hokb
    obtain ⟨hwf, hw, hb⟩ := boolify_props ctx env hok c hokb.1.1
    obtain ⟨ihwf, ihw, ihb⟩ := ih hokb.2
    simp only [ifTests, catList]
    refine ⟨by simp [Expr.wf, hwf, ihwf], ?_, ?_⟩
    · simp only [widthOf, shapeOf, List.length_cons] at *; omega
    · intro k hk
      simp only [denote, hw]
      have e1 : (2 : Int) ^ 1 = 2 := by decide
      rw [e1]
      have ha0 : 0 ≤ denote ctx env (boolify ctx c) % 2 := by omega
      have ha1 : denote ctx env (boolify ctx c) % 2 < 2 := by omega
      cases k with
      | zero =>
        rw [ibit_add_two_mul_zero _ _ ha0 ha1]
        simp only [List.map_cons, List.getD_cons_zero]
        by_cases h0 : denote ctx env c = 0
        · have : ¬ denote ctx env (boolify ctx c) % 2 = 1 := fun h => (hb.mp h) h0
          simp [h0, this]
        · have := hb.mpr h0
          simp [h0, this]
      | succ j =>
        rw [ibit_add_two_mul_succ _ _ _ ha0 ha1]
        simp only [List.length_cons] at hk
        have hj : j < rest.length := by omega
        rw [ibit_emod _ (by rw [ihw]; exact hj)]
        simp only [List.map_cons, List.getD_cons_succ]
        exact ihb j hj

/-! ## integer patterns -/

theorem normUPat_matches (s : Shape) (hs : s.WF) (v : Int) (hv : s.contains v) (p : UPat)
    (hp : p.ok s.width = true) :
    (match normUPat s p with | some q => q.matchesSpec v | none => false) = p.matchesV s v := by
  cases p with
  | bits b => rfl
  | int k =>
    simp only [normUPat, UPat.matchesV]
    by_cases hk : s.contains k
    · simp only [hk, if_true, decide_true, Bool.true_and]
      have h0 : 0 ≤ k % 2 ^ s.width := Int.emod_nonneg _ (Int.ne_of_gt (two_pow_pos' _))
      have hlt : (k % 2 ^ s.width).toNat < 2 ^ s.width := by
        have : ((k % 2 ^ s.width).toNat : Int) < 2 ^ s.width := by
          rw [Int.toNat_of_nonneg h0]; exact Int.emod_lt_of_pos _ (two_pow_pos' _)
        exact_mod_cast this
      rw [matchesSpec_toBinary _ _ hlt, Int.toNat_of_nonneg h0]
      congr 1
      apply propext
      constructor
      · intro h
        have e1 := norm_eq_of_congr s hs hv (r := k) h.symm
        have e2 := norm_of_contains s hs hk
        omega
      · intro h; rw [h]
    · simp [hk]

theorem normUPats_lengths (s : Shape) (pats : List UPat) (h : pats.all (UPat.ok s.width) = true) :
    (normUPats s pats).all (fun p => p.length == s.width) = true := by
  induction pats with
  | nil => rfl
  | cons p ps ih =>
    simp only [List.all_cons, Bool.and_eq_true] at h
    unfold normUPats
    simp only [List.filterMap_cons]
    cases hp : normUPat s p with
    | none => exact ih h.2
    | some q =>
      simp only [List.all_cons, Bool.and_eq_true]
      refine ⟨?_, ih h.2⟩
      cases p with
      | bits b => simp only [normUPat, Option.some.injEq] at hp; subst hp; exact h.1
      | int k =>
        simp only [normUPat] at hp
        split at hp
        · simp only [Option.some.injEq] at hp; subst hp; simp [toBinary_length]
        · simp at hp

theorem normUPats_any (s : Shape) (hs : s.WF) (v : Int) (hv : s.contains v) (pats : List UPat)
    (h : pats.all (UPat.ok s.width) = true) :
    (normUPats s pats).any (fun p => p.matchesSpec v) = pats.any (fun p => p.matchesV s v) := by
  induction pats with
  | nil => rfl
  | cons p ps ih =>
    simp only [List.all_cons, Bool.and_eq_true] at h
    have hm := normUPat_matches s hs v hv p h.1
    unfold normUPats at *
    simp only [List.filterMap_cons, List.any_cons]
    cases hp : normUPat s p with
    | none => rw [hp] at hm; simp only at hm; rw [← hm, ih h.2]; simp
    | some q => rw [hp] at hm; simp only at hm; simp only [List.any_cons]; rw [hm, ih h.2]

/-! ## the main theorem, by recursion over the nested program structure -/

section
variable (ctx : Ctx) (cur : Env) (hok : EnvOk ctx cur)

/-- all tests below position `i` are false and the remaining ones are the listed bits -/
def BitsAt (V : Int) (i : Nat) (bs : List Bool) : Prop := ∀ k, k < bs.length → ibit V (i + k) = bs.getD k false

include hok in
theorem switch_test_eq (t : Expr) (ht : t.wf ctx = true) (pats : List Pat)
    (hp : pats.all (fun p => p.length == widthOf ctx t) = true) :
    matchesAny pats (mask (widthOf ctx t) (evalRtl ctx cur t)) = pats.any (fun p => p.matchesSpec (denote ctx cur t)) :=
  matchesAny_eq pats (widthOf ctx t) hp _ _ (sound ctx cur hok t ht).cong

include hok in
mutual
theorem lower_sound_prog : ∀ (p : Prog), Prog.ok ctx p = true → ∀ nxt,
    execRtl ctx cur (lower ctx p) nxt = applyWritesRtl ctx cur (Prog.writes ctx cur p) nxt
  | .assign l r, h, nxt => by
    simp only [Prog.ok] at h
    simp only [lower, execRtl, Prog.writes, applyWritesRtl]
    unfold rtlValue; rw [(sound ctx cur hok r h).sgn]
  | .ifs branches els, h, nxt => by
    simp only [Prog.ok, Bool.and_eq_true] at h
    obtain ⟨hwf, hw, hb⟩ := ifTests_props ctx cur hok branches h.1
    simp only [lower, Prog.writes]
    have key := lower_sound_if branches h.1 (catList (ifTests ctx branches)) branches.length hwf hw 0
      (lowerList ctx els) (by omega) (by intro k hk; rw [Nat.zero_add]; simp only [List.length_map] at hk; exact hb k hk) nxt
    rw [key]
    cases hi : Prog.ifWrites ctx cur branches with
    | some ws => rfl
    | none => exact lower_sound_list els h.2 nxt
  | .switch test cases, h, nxt => by
    simp only [Prog.ok, Bool.and_eq_true] at h
    simp only [lower, Prog.writes]
    exact lower_sound_cases test h.1 cases h.2 nxt
theorem lower_sound_list : ∀ (ps : List Prog), Prog.listOk ctx ps = true → ∀ nxt,
    execRtl ctx cur (lowerList ctx ps) nxt = applyWritesRtl ctx cur (Prog.listWrites ctx cur ps) nxt
  | [], _, nxt => rfl
  | p :: ps, h, nxt => by
    simp only [Prog.listOk, Bool.and_eq_true] at h
    simp only [lowerList, execRtl, Prog.listWrites, applyWritesRtl_append]
    rw [lower_sound_prog p h.1 nxt, lower_sound_list ps h.2]
theorem lower_sound_if : ∀ (rest : List (Expr × List Prog)), Prog.ifOk ctx rest = true →
    ∀ (t : Expr) (n : Nat), t.wf ctx = true → widthOf ctx t = n → ∀ (i : Nat) (tail : Stmt),
    i + rest.length = n →
    BitsAt (denote ctx cur t) i (rest.map (fun b => decide (denote ctx cur b.1 ≠ 0))) → ∀ nxt,
    execRtl ctx cur (lowerIf ctx t n i rest tail) nxt =
      match Prog.ifWrites ctx cur rest with
      | some ws => applyWritesRtl ctx cur ws nxt
      | none => execRtl ctx cur tail nxt
  | [], _, t, n, ht, hw, i, tail, _, _, nxt => by
    simp only [lowerIf, execRtl, Prog.ifWrites]
    have hp : [Pat.dontCare n].all (fun p => p.length == widthOf ctx t) = true := by
      simp [Pat.dontCare, hw]
    rw [switch_test_eq ctx cur hok t ht _ hp]
    simp [matchesSpec_dontCare]
  | (c, body) :: rest, h, t, n, ht, hw, i, tail, hlen, hbits, nxt => by
    simp only [Prog.ifOk, Bool.and_eq_true] at h
    simp only [List.length_cons] at hlen
    have hin : i < n := by omega
    simp only [lowerIf, execRtl, Prog.ifWrites]
    have hp : [ifPattern n i].all (fun p => p.length == widthOf ctx t) = true := by
      simp [ifPattern_length n i hin, hw]
    rw [switch_test_eq ctx cur hok t ht _ hp]
    simp only [List.any_cons, List.any_nil, Bool.or_false, matchesSpec_ifPattern n i hin]
    have hb0 := hbits 0 (by simp)
    simp only [Nat.add_zero, List.map_cons, List.getD_cons_zero] at hb0
    rw [hb0]
    by_cases hc : denote ctx cur c = 0
    · have : ¬ denote ctx cur c ≠ 0 := fun h => h hc
      simp only [hc, ne_eq, not_true_eq_false, decide_false, Bool.false_eq_true, if_false]
      exact lower_sound_if rest h.2 t n ht hw (i + 1) tail (by omega)
        (by
          intro k hk
          have := hbits (k + 1) (by simp only [List.length_map, List.length_cons] at hk ⊢; omega)
          simp only [List.map_cons, List.getD_cons_succ] at this
          rw [← this]; congr 1; omega) nxt
    · simp only [ne_eq, hc, not_false_eq_true, decide_true, if_true]
      exact lower_sound_list body h.1.2 nxt
theorem lower_sound_cases : ∀ (test : Expr), test.wf ctx = true →
    ∀ (cases : List (Option (List UPat) × List Prog)), Prog.casesOk ctx (widthOf ctx test) cases = true → ∀ nxt,
    execRtl ctx cur (lowerCases ctx test cases) nxt =
      applyWritesRtl ctx cur (Prog.caseWrites ctx cur (shapeOf ctx test) (denote ctx cur test) cases) nxt
  | _, _, [], _, nxt => rfl
  | test, ht, (none, body) :: rest, h, nxt => by
    simp only [Prog.casesOk, Bool.and_eq_true] at h
    simp only [lowerCases, execRtl, Prog.caseWrites]
    have hp : [Pat.dontCare (widthOf ctx test)].all (fun p => p.length == widthOf ctx test) = true := by
      simp [Pat.dontCare]
    rw [switch_test_eq ctx cur hok test ht _ hp]
    simp only [List.any_cons, matchesSpec_dontCare, Bool.true_or, if_true]
    exact lower_sound_list body h.1 nxt
  | test, ht, (some pats, body) :: rest, h, nxt => by
    simp only [Prog.casesOk, Bool.and_eq_true] at h
    simp only [lowerCases, execRtl, Prog.caseWrites]
    have hs := sound ctx cur hok test ht
    rw [switch_test_eq ctx cur hok test ht _ (normUPats_lengths (shapeOf ctx test) pats h.1.1),
        normUPats_any (shapeOf ctx test) hs.swf _ hs.rng pats h.1.1]
    split
    · exact lower_sound_list body h.1.2 nxt
    · exact lower_sound_cases test ht rest h.2 nxt
end

end

end Amaranth
