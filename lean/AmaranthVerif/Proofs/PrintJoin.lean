import AmaranthVerif.Model.PrintJoin
import AmaranthVerif.Spec.Format

/-! Helper lemmas for the `Print(*args, sep, end)` theorems of C20. -/

namespace Amaranth
namespace Fmt

/-- text of a concatenation of messages -/
def appE (a b : Except PyErr PyStr) : Except PyErr PyStr :=
  match a with
  | .ok x => prependE x b
  | .error e => .error e

theorem prependE_prependE (a b : PyStr) (r : Except PyErr PyStr) :
    prependE a (prependE b r) = prependE (a ++ b) r := by
  cases r <;> simp [prependE]

theorem prependE_appE (a : PyStr) (x y : Except PyErr PyStr) :
    prependE a (appE x y) = appE (prependE a x) y := by
  cases x with
  | error e => simp [appE, prependE]
  | ok t => cases y <;> simp [appE, prependE]

theorem specText_append (ctx : Ctx) (env : Env) (a b : List Chunk) :
    specText ctx env (a ++ b) = appE (specText ctx env a) (specText ctx env b) := by
  induction a with
  | nil => cases h : specText ctx env b <;> simp [specText, appE, prependE, h]
  | cons c rest ih =>
    cases c with
    | lit s => simp only [List.cons_append, specText, ih, prependE_appE]
    | val e sp =>
      simp only [List.cons_append, specText]
      cases pythonText (denote ctx env e) sp with
      | error e => simp [appE]
      | ok t => simp only [ih, prependE_appE]

theorem specText_lit (ctx : Ctx) (env : Env) (s : PyStr) : specText ctx env [.lit s] = .ok s := by
  simp [specText, prependE]

/-- one step of the cleaning loop leaves the text as it is -/
theorem specText_cleanStep (ctx : Ctx) (env : Env) (acc : List Chunk) (c : Chunk) :
    specText ctx env (cleanStep acc c).reverse = specText ctx env (acc.reverse ++ [c]) := by
  cases c with
  | val e sp => simp [cleanStep]
  | lit s =>
    unfold cleanStep
    by_cases hs : s = []
    · subst hs
      simp only [if_true]
      rw [specText_append, specText_lit]
      cases specText ctx env acc.reverse <;> simp [appE, prependE]
    · simp only [hs, if_false]
      cases acc with
      | nil => simp
      | cons h r =>
        cases h with
        | val e sp => simp
        | lit t =>
          simp only [List.reverse_cons, List.append_assoc]
          rw [specText_append, specText_append, specText_lit]
          have : specText ctx env ([Chunk.lit t] ++ [Chunk.lit s]) = .ok (t ++ s) := by
            simp [specText, prependE]
          rw [this]

theorem specText_foldl_clean (ctx : Ctx) (env : Env) (cs acc : List Chunk) :
    specText ctx env (cs.foldl cleanStep acc).reverse = specText ctx env (acc.reverse ++ cs) := by
  induction cs generalizing acc with
  | nil => simp
  | cons c rest ih =>
    simp only [List.foldl_cons]
    rw [ih, specText_append, specText_cleanStep, ← specText_append]
    simp

theorem specText_cleanChunks (ctx : Ctx) (env : Env) (cs : List Chunk) :
    specText ctx env (cleanChunks cs) = specText ctx env cs := by
  unfold cleanChunks
  rw [specText_foldl_clean]; simp

/-! ### the cleaned form -/

/-- `cleanForm` read from the newest-first accumulator -/
def cleanFormRev : List Chunk → Bool
  | [] => true
  | .lit s :: rest =>
    s != [] && (match rest with | .lit _ :: _ => false | _ => true) && cleanFormRev rest
  | .val _ _ :: rest => cleanFormRev rest

theorem cleanFormRev_step (acc : List Chunk) (c : Chunk) (h : cleanFormRev acc = true) :
    cleanFormRev (cleanStep acc c) = true := by
  cases c with
  | val e sp => simpa [cleanStep, cleanFormRev] using h
  | lit s =>
    unfold cleanStep
    by_cases hs : s = []
    · simpa [hs] using h
    · simp only [hs, if_false]
      cases acc with
      | nil => simp [cleanFormRev, hs]
      | cons a r =>
        cases a with
        | val e sp => simpa [cleanFormRev, hs] using h
        | lit t =>
          simp only [cleanFormRev, Bool.and_eq_true, bne_iff_ne, ne_eq] at h ⊢
          refine ⟨⟨?_, h.1.2⟩, h.2⟩
          intro h0
          exact hs (List.append_eq_nil_iff.mp h0).2

theorem cleanFormRev_foldl (cs acc : List Chunk) (h : cleanFormRev acc = true) :
    cleanFormRev (cs.foldl cleanStep acc) = true := by
  induction cs generalizing acc with
  | nil => simpa using h
  | cons c rest ih => exact ih _ (cleanFormRev_step acc c h)

/-- adjacency and emptiness do not depend on the direction of reading -/
theorem cleanForm_append_single (l : List Chunk) (c : Chunk) :
    cleanForm (l ++ [c]) =
      (cleanForm l && (match c with | .lit s => s != [] | .val _ _ => true) &&
        (match l.getLast?, c with | some (.lit _), .lit _ => false | _, _ => true)) := by
  induction l with
  | nil => cases c <;> simp [cleanForm]
  | cons a r ih =>
    cases a with
    | val e sp =>
      simp only [List.cons_append, cleanForm, ih]
      cases r with
      | nil => cases c <;> simp [cleanForm]
      | cons b r' => simp [List.getLast?_cons_cons]
    | lit s =>
      simp only [List.cons_append, cleanForm, ih]
      cases r with
      | nil => cases c <;> simp [cleanForm] <;> (try cases (s != []) <;> simp)
      | cons b r' =>
        simp only [List.cons_append, List.getLast?_cons_cons]
        cases b <;> simp [Bool.and_assoc, Bool.and_comm, Bool.and_left_comm]

theorem cleanForm_reverse (l : List Chunk) : cleanForm l.reverse = cleanFormRev l := by
  induction l with
  | nil => rfl
  | cons a r ih =>
    rw [List.reverse_cons, cleanForm_append_single, ih]
    cases a with
    | val e sp => cases r <;> simp [cleanFormRev]
    | lit s =>
      cases r with
      | nil => simp [cleanFormRev]
      | cons b r' =>
        cases b <;> simp [cleanFormRev, List.getLast?_reverse, Bool.and_assoc, Bool.and_comm, Bool.and_left_comm]

theorem cleanChunks_cleanForm (cs : List Chunk) : cleanForm (cleanChunks cs) = true := by
  unfold cleanChunks
  rw [cleanForm_reverse]
  exact cleanFormRev_foldl cs [] rfl

/-- a list already in the cleaned form is left as it is -/
theorem foldl_clean_of_cleanForm (cs acc : List Chunk) (h : cleanForm (acc.reverse ++ cs) = true) :
    (cs.foldl cleanStep acc).reverse = acc.reverse ++ cs := by
  induction cs generalizing acc with
  | nil => simp
  | cons c rest ih =>
    simp only [List.foldl_cons]
    have hstep : cleanStep acc c = c :: acc := by
      have h' : cleanForm ((acc.reverse ++ [c]) ++ rest) = true := by simpa using h
      cases c with
      | val e sp => rfl
      | lit s =>
        -- the prefix `acc.reverse ++ [lit s]` is in cleaned form
        have hp : cleanForm (acc.reverse ++ [Chunk.lit s]) = true := by
          clear ih
          generalize acc.reverse ++ [Chunk.lit s] = p at h'
          induction p with
          | nil => rfl
          | cons a r ihp =>
            cases a with
            | val e sp => simp only [List.cons_append, cleanForm] at h' ⊢; exact ihp h'
            | lit t =>
              simp only [List.cons_append, cleanForm, Bool.and_eq_true] at h' ⊢
              refine ⟨⟨h'.1.1, ?_⟩, ihp h'.2⟩
              cases r with
              | nil => rfl
              | cons b r' => cases b <;> simp_all
        rw [cleanForm_append_single] at hp
        simp only [Bool.and_eq_true, bne_iff_ne, ne_eq] at hp
        unfold cleanStep
        simp only [hp.1.2, if_false]
        cases acc with
        | nil => rfl
        | cons a r =>
          cases a with
          | val e sp => rfl
          | lit t => simp [List.getLast?_reverse] at hp
    rw [hstep, ih]
    · simp
    · simpa using h

theorem cleanChunks_of_cleanForm (cs : List Chunk) (h : cleanForm cs = true) : cleanChunks cs = cs := by
  unfold cleanChunks
  simpa using foldl_clean_of_cleanForm cs [] (by simpa using h)

/-! ### joining -/

/-- every argument has a text -/
inductive TextsOf (ctx : Ctx) (env : Env) : List (List Chunk) → List PyStr → Prop
  | nil : TextsOf ctx env [] []
  | cons {a : List Chunk} {t : PyStr} {as : List (List Chunk)} {ts : List PyStr} :
      specText ctx env a = .ok t → TextsOf ctx env as ts → TextsOf ctx env (a :: as) (t :: ts)

/-- `sep` before every text -/
def sepAll (sep : PyStr) : List PyStr → PyStr
  | [] => []
  | t :: r => sep ++ t ++ sepAll sep r

/-- Python's `sep.join(texts)` -/
def joinTexts (sep : PyStr) : List PyStr → PyStr
  | [] => []
  | t :: r => t ++ sepAll sep r

theorem specText_printRaw_false (ctx : Ctx) (env : Env) (sep : PyStr) (args : List (List Chunk))
    (ts : List PyStr) (h : TextsOf ctx env args ts) :
    specText ctx env (printRaw sep false args) = .ok (sepAll sep ts) := by
  induction h with
  | nil => rfl
  | cons ha _ ih =>
    simp only [printRaw, Bool.not_false, Bool.true_and]
    rw [specText_append, specText_append, ha, ih]
    by_cases hs : sep = []
    · simp [hs, specText, appE, prependE, sepAll]
    · simp [hs, specText, appE, prependE, sepAll]

theorem specText_printRaw_true (ctx : Ctx) (env : Env) (sep : PyStr) (args : List (List Chunk))
    (ts : List PyStr) (h : TextsOf ctx env args ts) :
    specText ctx env (printRaw sep true args) = .ok (joinTexts sep ts) := by
  cases h with
  | nil => rfl
  | cons ha hr =>
    simp only [printRaw, Bool.not_true, Bool.false_and]
    rw [specText_append, specText_append, ha, specText_printRaw_false ctx env sep _ _ hr]
    simp [specText, appE, prependE, joinTexts]

/-- the first argument whose text is an error decides the whole message -/
theorem specText_printRaw_error (ctx : Ctx) (env : Env) (sep : PyStr) (first : Bool)
    (pre : List (List Chunk)) (ts : List PyStr) (bad : List Chunk) (post : List (List Chunk)) (e : PyErr)
    (h : TextsOf ctx env pre ts)
    (hb : specText ctx env bad = .error e) :
    specText ctx env (printRaw sep first (pre ++ bad :: post)) = .error e := by
  induction h generalizing first with
  | nil =>
    simp only [List.nil_append, printRaw]
    rw [specText_append, specText_append, hb]
    cases first <;> by_cases hs : sep = [] <;> simp [hs, specText, appE, prependE]
  | cons ha _ ih =>
    simp only [List.cons_append, printRaw]
    rw [specText_append, specText_append, ha, ih false]
    cases first <;> by_cases hs : sep = [] <;> simp [hs, specText, appE, prependE]

theorem joinTexts_eq_intercalate (sep : PyStr) (ts : List PyStr) :
    joinTexts sep ts = List.intercalate sep ts := by
  cases ts with
  | nil => rfl
  | cons t r =>
    induction r generalizing t with
    | nil => simp [joinTexts, sepAll, List.intercalate]
    | cons u r ih =>
      have := ih u
      simp only [joinTexts, sepAll, List.intercalate, List.intersperse, List.flatten_cons] at this ⊢
      simp [this, List.append_assoc]

end Fmt
end Amaranth
