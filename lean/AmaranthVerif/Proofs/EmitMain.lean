import AmaranthVerif.Proofs.EmitFront8

/-!
# `emit_rhs`: the induction over expressions (helper lemmas for `C04.emit_expr_correct`)
-/

namespace Amaranth.Rtlil
open Amaranth

theorem emitSwitch_wires_mem (rt : Res) (cases : List (List Pat × (Nat → Res))) (p : String × Nat) (hp : p ∈ rt.wires) :
    p ∈ (emitSwitch rt cases).wires := by
  unfold emitSwitch emitSwitchMux emitSwitchGeneral
  split <;> (try split) <;> (try split) <;> simp [Res.after, hp]

theorem mask_toNat (w : Nat) (x : Int) : ((mask w x).toNat : Int) = mask w x ∧ (mask w x).toNat < 2 ^ w := by
  have h0 := mask_nonneg w x
  have h1 := mask_lt w x
  refine ⟨Int.toNat_of_nonneg h0, ?_⟩
  have : (((mask w x).toNat : Nat) : Int) < ((2 ^ w : Nat) : Int) := by
    rw [Int.toNat_of_nonneg h0]; exact_mod_cast h1
  exact_mod_cast this

section
variable (c : Ctx) (m : Mems) (ctx : Amaranth.Ctx) (env : Amaranth.Env)

/-- the `SwitchValue` case of the induction -/
theorem emitsOk_ite (test : Expr) (pats : List Pat) (thn els : Expr)
    (hwf : (Expr.ite test pats thn els).wf ctx = true) (hsame : els.sameTest test = true)
    (iht : EmitsOk c m ctx env test)
    (hL : ∀ pe ∈ chainOf (Expr.ite test pats thn els), EmitsOk c m ctx env pe.2 ∧ (shapeOf ctx pe.2).WF) :
    EmitsOk c m ctx env (.ite test pats thn els) := by
  intro k renv hse hw
  have hsameE : (Expr.ite test pats thn els).sameTest test = true := by
    unfold Expr.sameTest; simp [hsame]
  have hshape := shapeOf_tail ctx (.ite test pats thn els) rfl hwf
  have hval := evalRtl_tail ctx env test (.ite test pats thn els) rfl hwf hsameE
  have hpats := chainPats_tail ctx test (.ite test pats thn els) hwf hsameE
  have hE : emitE ctx (.ite test pats thn els) k
      = emitSwitch (emitE ctx test k) ((chainOf (.ite test pats thn els)).map (fun pe => (pe.1, emitE ctx pe.2))) := by
    show emitSwitch (emitE ctx test k) ((pats, (emitX ctx thn).1) :: (emitX ctx els).2) = _
    rw [emitX_chain]; rfl
  rw [hE] at hw ⊢
  generalize hLdef : chainOf (Expr.ite test pats thn els) = L at hL hshape hval hpats hw ⊢
  -- the width of the emitted test
  have hwt : WidthsOk c (emitE ctx test k).wires := fun p hp => hw p (emitSwitch_wires_mem _ _ p hp)
  have hlen := (iht k renv hse hwt).len
  clear hwt
  -- which form?
  have hgen : (emitSwitch (emitE ctx test k) (L.map (fun pe => (pe.1, emitE ctx pe.2)))
        = emitSwitchGeneral (emitE ctx test k) (L.map (fun pe => (pe.1, emitE ctx pe.2)))) →
      ResSound c m ctx env (.ite test pats thn els) k renv
        (emitSwitch (emitE ctx test k) (L.map (fun pe => (pe.1, emitE ctx pe.2)))) := by
    intro h
    rw [h] at hw ⊢
    exact switchGeneral_sound c m ctx env test _ L hshape hval hpats iht hL k renv hse hw
  match L, hL, hshape, hval, hpats, hw, hgen with
  | [], _, _, _, _, _, hgen => exact hgen rfl
  | [_], _, _, _, _, _, hgen => exact hgen rfl
  | _ :: _ :: _ :: _, _, _, _, _, _, hgen => exact hgen rfl
  | [(p0, e0), (p1, e1)], hL, hshape, hval, _, hw, hgen =>
    by_cases hc : p0 = [Pat.zeros (emitE ctx test k).val.length] ∧ p1 = [Pat.dontCare (emitE ctx test k).val.length]
    · have hS : emitSwitch (emitE ctx test k) ([(p0, e0), (p1, e1)].map (fun pe => (pe.1, emitE ctx pe.2)))
          = emitSwitchMux (emitE ctx test k) (emitE ctx e0) (emitE ctx e1) := by
        simp only [emitSwitch, List.map, hc, and_self, if_true]
      rw [hS] at hw ⊢
      obtain ⟨h0, h1⟩ := hc
      rw [hlen] at h0 h1
      subst h0 h1
      obtain ⟨ih0, wf0⟩ := hL ([Pat.zeros (widthOf ctx test)], e0) (by simp)
      obtain ⟨ih1, wf1⟩ := hL ([Pat.dontCare (widthOf ctx test)], e1) (by simp)
      refine switchMux_sound c m ctx env test _ e0 e1 ?_ ?_ iht ih0 ih1 wf0 wf1 k renv hse hw
      · rw [hshape]
        show Shape.unify (shapeOf ctx e0) (Shape.unify (shapeOf ctx e1) (Shape.u 0)) = _
        rw [unify_u0 _ wf1, unify_comm]
      · rw [hval]
        obtain ⟨hTc, hTlt⟩ := mask_toNat (widthOf ctx test) (evalRtl ctx env test)
        rw [← hTc]
        simp only [chainVal, matchesAny_zeros _ _ hTlt, matchesAny_dontCare, if_true, decide_eq_true_eq]
        by_cases hz : (mask (widthOf ctx test) (evalRtl ctx env test)).toNat = 0
        · have : (((mask (widthOf ctx test) (evalRtl ctx env test)).toNat : Nat) : Int) = 0 := by exact_mod_cast hz
          rw [if_pos hz, if_pos this]
        · have : ¬ (((mask (widthOf ctx test) (evalRtl ctx env test)).toNat : Nat) : Int) = 0 := by exact_mod_cast hz
          rw [if_neg hz, if_neg this]
    · apply hgen
      simp only [emitSwitch, List.map, hc, if_false]

/-- **The induction.**  For a well-formed expression whose chains of cases repeat one test and whose part-selects of
signed values stay inside the operand: `emit_rhs` is sound (and so is the emission of every case value of the chain
the expression may continue). -/
theorem emitE_sound (hok : EnvOk ctx env) (hsa : c.shiftArith = false) : ∀ e : Expr,
    e.wf ctx = true → e.chainsOk = true → e.partsInside ctx = true →
    EmitsOk c m ctx env e ∧ ∀ pe ∈ chainOf e, EmitsOk c m ctx env pe.2 ∧ (shapeOf ctx pe.2).WF := by
  intro e
  induction e with
  | const v s => intro _ _ _; exact ⟨emitsOk_const c m ctx env v s, fun pe h => by simp [chainOf] at h⟩
  | sig i =>
    intro hwf _ _
    have hi : i < ctx.length := by simpa [Expr.wf] using hwf
    exact ⟨emitsOk_sig c m ctx env i hi, fun pe h => by simp [chainOf] at h⟩
  | op1 o a iha =>
    intro hwf hch hpi
    simp only [Expr.wf, Bool.and_eq_true] at hwf
    have hswf := (sound ctx env hok a hwf.1).swf
    refine ⟨emitsOk_op1 c m ctx env o a hswf ?_ (iha hwf.1 hch hpi).1, fun pe h => by simp [chainOf] at h⟩
    intro ho; subst ho
    simpa using hwf.2
  | op2 o a b iha ihb =>
    intro hwf hch hpi
    simp only [Expr.wf, Bool.and_eq_true] at hwf
    simp only [Expr.chainsOk, Bool.and_eq_true] at hch
    simp only [Expr.partsInside, Bool.and_eq_true] at hpi
    have hwa := (sound ctx env hok a hwf.1.1).swf
    have hwb := (sound ctx env hok b hwf.1.2).swf
    refine ⟨emitsOk_op2 c m ctx env o a b hwa hwb ?_ (iha hwf.1.1 hch.1 hpi.1).1 (ihb hwf.1.2 hch.2 hpi.2).1,
      fun pe h => by simp [chainOf] at h⟩
    intro ho
    rcases ho with rfl | rfl <;> simpa using hwf.2
  | slice a start stop iha =>
    intro hwf hch hpi
    simp only [Expr.wf, Bool.and_eq_true, decide_eq_true_eq] at hwf
    exact ⟨emitsOk_slice c m ctx env a start stop hwf.1.2 hwf.2 (iha hwf.1.1 hch hpi).1, fun pe h => by simp [chainOf] at h⟩
  | part a off width stride iha iho =>
    intro hwf hch hpi
    simp only [Expr.wf, Bool.and_eq_true, decide_eq_true_eq, Bool.not_eq_true'] at hwf
    simp only [Expr.chainsOk, Bool.and_eq_true] at hch
    simp only [Expr.partsInside, Bool.and_eq_true, Bool.or_eq_true, Bool.not_eq_true', decide_eq_true_eq] at hpi
    have hwa := (sound ctx env hok a hwf.1.1.1).swf
    have hwo := (sound ctx env hok off hwf.1.1.2).swf
    refine ⟨emitsOk_part c m ctx env a off width stride hsa hwa hwo hwf.1.2 hwf.2 ?_ (iha hwf.1.1.1 hch.1 hpi.1.1).1
      (iho hwf.1.1.2 hch.2 hpi.1.2).1, fun pe h => by simp [chainOf] at h⟩
    intro hs
    rcases hpi.2 with h | h
    · rw [hs] at h; cases h
    · exact h
  | cat lo hi ihl ihh =>
    intro hwf hch hpi
    simp only [Expr.wf, Bool.and_eq_true] at hwf
    simp only [Expr.chainsOk, Bool.and_eq_true] at hch
    simp only [Expr.partsInside, Bool.and_eq_true] at hpi
    exact ⟨emitsOk_cat c m ctx env lo hi (ihl hwf.1 hch.1 hpi.1).1 (ihh hwf.2 hch.2 hpi.2).1, fun pe h => by simp [chainOf] at h⟩
  | ite test pats thn els iht ihthn ihels =>
    intro hwf hch hpi
    obtain ⟨wt, wthn, wels, _, _⟩ := wf_ite hwf
    simp only [Expr.chainsOk, Bool.and_eq_true] at hch
    simp only [Expr.partsInside, Bool.and_eq_true] at hpi
    have hL : ∀ pe ∈ chainOf (Expr.ite test pats thn els), EmitsOk c m ctx env pe.2 ∧ (shapeOf ctx pe.2).WF := by
      intro pe hpe
      simp only [chainOf, List.mem_cons] at hpe
      rcases hpe with rfl | hpe
      · exact ⟨(ihthn wthn hch.1.1.2 hpi.1.2).1, (sound ctx env hok thn wthn).swf⟩
      · exact (ihels wels hch.1.2 hpi.2).2 pe hpe
    exact ⟨emitsOk_ite c m ctx env test pats thn els hwf hch.2 (iht wt hch.1.1.1 hpi.1.1).1 hL, hL⟩

end

end Amaranth.Rtlil
