import AmaranthVerif.Proofs.MemoryBits
import AmaranthVerif.Model.Engine

/-!
# Masked updates, bit by bit

`applyUpdate u x = (x & ~mask) | (value & mask)` on unbounded two's-complement integers (negative
values and sign-extended masks included): bit `i` of the result is bit `i` of `value` where the mask
has a one, and bit `i` of `x` elsewhere. Two integers with the same bits are equal.
-/

namespace Amaranth.Engine
open Amaranth Amaranth.Mem

/-- bit extensionality on all integers -/
theorem int_eq_of_ibit {a b : Int} (h : ∀ i, Mem.ibit a i = Mem.ibit b i) : a = b := by
  cases a with
  | ofNat m =>
    cases b with
    | ofNat n =>
      have : m = n := Nat.eq_of_testBit_eq (fun i => by simpa [Mem.ibit] using h i)
      rw [this]
    | negSucc n =>
      exfalso
      have hm : m < 2 ^ (m + n) := Nat.lt_of_lt_of_le Nat.lt_two_pow_self (Nat.pow_le_pow_right (by decide) (by omega))
      have hn : n < 2 ^ (m + n) := Nat.lt_of_lt_of_le Nat.lt_two_pow_self (Nat.pow_le_pow_right (by decide) (by omega))
      have := h (m + n)
      simp [Mem.ibit, Nat.testBit_lt_two_pow hm, Nat.testBit_lt_two_pow hn] at this
  | negSucc m =>
    cases b with
    | ofNat n =>
      exfalso
      have hm : m < 2 ^ (m + n) := Nat.lt_of_lt_of_le Nat.lt_two_pow_self (Nat.pow_le_pow_right (by decide) (by omega))
      have hn : n < 2 ^ (m + n) := Nat.lt_of_lt_of_le Nat.lt_two_pow_self (Nat.pow_le_pow_right (by decide) (by omega))
      have := h (m + n)
      simp [Mem.ibit, Nat.testBit_lt_two_pow hm, Nat.testBit_lt_two_pow hn] at this
    | negSucc n =>
      have : m = n := Nat.eq_of_testBit_eq (fun i => by
        have := h i
        simp only [Mem.ibit] at this
        cases hm : m.testBit i <;> cases hn : n.testBit i <;> simp_all)
      rw [this]

theorem ibit_zero (i : Nat) : Mem.ibit 0 i = false := by
  show Mem.ibit (Int.ofNat 0) i = false
  simp [Mem.ibit]

/-- bit `i` of `update(value, mask)` applied to `x` -/
theorem ibit_applyUpdate (u : Update) (x : Int) (i : Nat) :
    Mem.ibit (applyUpdate u x) i = if Mem.ibit u.mask i then Mem.ibit u.value i else Mem.ibit x i := by
  simp only [applyUpdate, ibit_pyOr, ibit_pyAnd, ibit_pyNot]
  cases Mem.ibit u.mask i <;> simp

/-- two updates are *compatible* when, wherever both masks have a one, they write the same bit -/
def Compat (u v : Update) : Prop :=
  u.slot ≠ v.slot ∨ ∀ i, Mem.ibit u.mask i = true → Mem.ibit v.mask i = true → Mem.ibit u.value i = Mem.ibit v.value i

/-- disjoint masks: `m₁ & m₂ = 0` -/
def Disjoint (u v : Update) : Prop := u.slot ≠ v.slot ∨ pyAnd u.mask v.mask = 0

theorem Disjoint.compat {u v : Update} (h : Disjoint u v) : Compat u v := by
  rcases h with h | h
  · exact Or.inl h
  · refine Or.inr (fun i hu hv => ?_)
    have := ibit_pyAnd u.mask v.mask i
    rw [h, ibit_zero, hu, hv] at this
    simp at this

theorem Compat.symm {u v : Update} (h : Compat u v) : Compat v u := by
  rcases h with h | h
  · exact Or.inl (Ne.symm h)
  · exact Or.inr (fun i hv hu => (h i hu hv).symm)

theorem Disjoint.symm {u v : Update} (h : Disjoint u v) : Disjoint v u := by
  rcases h with h | h
  · exact Or.inl (Ne.symm h)
  · refine Or.inr ?_
    apply int_eq_of_ibit; intro i
    have := congrArg (fun z => Mem.ibit z i) h
    simp only [ibit_pyAnd] at this ⊢
    rw [Bool.and_comm]; exact this

/-- updates of the same value commute when they agree on the overlap of their masks -/
theorem applyUpdate_comm_of_bits (u v : Update) (x : Int)
    (h : ∀ i, Mem.ibit u.mask i = true → Mem.ibit v.mask i = true → Mem.ibit u.value i = Mem.ibit v.value i) :
    applyUpdate u (applyUpdate v x) = applyUpdate v (applyUpdate u x) := by
  apply int_eq_of_ibit; intro i
  simp only [ibit_applyUpdate]
  cases hu : Mem.ibit u.mask i <;> cases hv : Mem.ibit v.mask i <;> simp
  exact h i hu hv

/-! ## Updates of the pending environment -/

theorem modAt_length (l : List Int) (i : Nat) (f : Int → Int) : (modAt l i f).length = l.length := by
  unfold modAt; split <;> simp

theorem modAt_getElem? (l : List Int) (i j : Nat) (f : Int → Int) :
    (modAt l i f)[j]? = if i = j then l[j]?.map f else l[j]? := by
  unfold modAt
  split
  · next x hx =>
    by_cases hij : i = j
    · subst hij
      have hlt : i < l.length := by
        rcases Nat.lt_or_ge i l.length with h | h
        · exact h
        · rw [List.getElem?_eq_none h] at hx; cases hx
      simp [hx, List.getElem?_set_self hlt]
    · simp [hij, List.getElem?_set_ne hij]
  · next hx =>
    by_cases hij : i = j
    · subst hij; simp [hx]
    · simp [hij]

theorem modAt_comm (l : List Int) (i j : Nat) (f g : Int → Int)
    (h : i = j → ∀ x, f (g x) = g (f x)) :
    modAt (modAt l j g) i f = modAt (modAt l i f) j g := by
  apply List.ext_getElem?
  intro k
  simp only [modAt_getElem?]
  by_cases hi : i = k <;> by_cases hj : j = k
  · subst hi; subst hj
    simp only [if_true, Option.map_map]
    congr 1
    funext x
    simp only [Function.comp_apply]
    exact h rfl x
  · simp [hi, hj]
  · simp [hi, hj]
  · simp [hi, hj]

theorem applyTo_comm (next : Env) (u v : Update) (h : Compat u v) :
    applyTo (applyTo next v) u = applyTo (applyTo next u) v := by
  unfold applyTo
  apply modAt_comm
  intro hs x
  rcases h with h | h
  · exact absurd hs h
  · exact applyUpdate_comm_of_bits u v x h

/-- a whole list of updates commutes with one compatible update -/
theorem applyAll_applyTo_comm (us : List Update) (v : Update) (next : Env)
    (h : ∀ u ∈ us, Compat u v) :
    applyAll (applyTo next v) us = applyTo (applyAll next us) v := by
  induction us generalizing next with
  | nil => rfl
  | cons u us ih =>
    simp only [applyAll, List.foldl_cons] at ih ⊢
    rw [applyTo_comm next u v (h u (List.mem_cons_self ..))]
    exact ih (applyTo next u) (fun w hw => h w (List.mem_cons_of_mem _ hw))

/-- the update lists of two processes commute when they are pairwise compatible -/
theorem applyAll_comm (us vs : List Update) (next : Env)
    (h : ∀ u ∈ us, ∀ v ∈ vs, Compat u v) :
    applyAll (applyAll next vs) us = applyAll (applyAll next us) vs := by
  induction vs generalizing next with
  | nil => rfl
  | cons v vs ih =>
    have e : ∀ n, applyAll n (v :: vs) = applyAll (applyTo n v) vs := fun _ => rfl
    rw [e, e, ih (applyTo next v) (fun u hu w hw => h u hu w (List.mem_cons_of_mem _ hw))]
    congr 1
    exact applyAll_applyTo_comm us v next (fun u hu => h u hu v (List.mem_cons_self ..))

theorem applyAll_length (us : List Update) (next : Env) : (applyAll next us).length = next.length := by
  induction us generalizing next with
  | nil => rfl
  | cons u us ih =>
    show (applyAll (applyTo next u) us).length = _
    rw [ih]; exact modAt_length ..

end Amaranth.Engine
