import AmaranthVerif.Proofs.AssignBits1

/-! # The Spec's `applyBits`, characterised bit by bit: the last write to a location wins -/

namespace Amaranth

/-- the position (counting from `k0`) of the last occurrence of location `(i, b)` in `locs` -/
def lastWrite : List Loc → Nat → Nat → Nat → Option Nat
  | [], _, _, _ => none
  | l :: ls, k0, i, b =>
    match lastWrite ls (k0 + 1) i b with
    | some k => some k
    | none => if l = some (i, b) then some k0 else none

/-- every location names an existing bit of an existing signal -/
def LocsOk (ctx : Ctx) (locs : List Loc) : Prop :=
  ∀ i b, some (i, b) ∈ locs → i < ctx.length ∧ b < (ctx.shape i).width

theorem LocsOk.tail {ctx : Ctx} {l : Loc} {ls : List Loc} (h : LocsOk ctx (l :: ls)) : LocsOk ctx ls :=
  fun i b hm => h i b (List.mem_cons_of_mem _ hm)

theorem applyBits_spec (ctx : Ctx) (v : Int) : ∀ (locs : List Loc) (k0 : Nat) (E : Env),
    EnvN ctx E → LocsOk ctx locs →
    EnvN ctx (applyBits ctx locs k0 v E) ∧
    ∀ i b, i < ctx.length → b < (ctx.shape i).width →
      bitAt (applyBits ctx locs k0 v E) i b =
        match lastWrite locs k0 i b with
        | some k => ibit v k
        | none => bitAt E i b := by
  intro locs
  induction locs with
  | nil => intro k0 E hE _; exact ⟨hE, fun i b _ _ => rfl⟩
  | cons l ls ih =>
    intro k0 E hE hok
    cases l with
    | none =>
      simp only [applyBits]
      obtain ⟨h1, h2⟩ := ih (k0 + 1) E hE hok.tail
      refine ⟨h1, fun i b hi hb => ?_⟩
      rw [h2 i b hi hb]
      simp only [lastWrite]
      cases lastWrite ls (k0 + 1) i b <;> simp
    | some ib =>
      obtain ⟨i0, b0⟩ := ib
      simp only [applyBits]
      obtain ⟨hi0, hb0⟩ := hok i0 b0 (List.mem_cons_self ..)
      have hE' : EnvN ctx (E.set i0 (norm (ctx.shape i0) (setBit (E.val i0) b0 (ibit v k0)))) := by
        rw [set_eq_put]
        exact hE.put i0 _ (fun _ => norm_contains _ (hE.ok i0 hi0).1 _)
      obtain ⟨h1, h2⟩ := ih (k0 + 1) _ hE' hok.tail
      refine ⟨h1, fun i b hi hb => ?_⟩
      rw [h2 i b hi hb]
      simp only [lastWrite]
      cases hl : lastWrite ls (k0 + 1) i b with
      | some k => rfl
      | none =>
        simp only
        unfold bitAt
        rw [set_eq_put]
        by_cases hii : i = i0
        · subst hii
          rw [val_put_eq E i _ (by rw [hE.len]; exact hi), ibit_norm_lt _ _ _ hb, ibit_setBit]
          by_cases hbb : b = b0
          · subst hbb; simp
          · have : ¬ (some (i, b0) : Loc) = some (i, b) := by
              intro e; simp at e; exact hbb e.symm
            simp [hbb, this]
        · rw [val_put_ne E i0 i _ hii]
          have : ¬ (some (i0, b0) : Loc) = some (i, b) := by
            intro e; simp at e; exact hii e.1.symm
          simp [this]

/-- Spec, restated: after `target := v` every in-range bit holds the bit of `v` at the last position of
the target that addresses it, and its old value if no position does. -/
theorem assignSpec_bits (ctx : Ctx) (env : Env) (target : Expr) (v : Int) (hE : EnvN ctx env)
    (hok : LocsOk ctx (lbits ctx env target)) :
    EnvN ctx (assignSpec ctx env target v) ∧
    ∀ i b, i < ctx.length → b < (ctx.shape i).width →
      bitAt (assignSpec ctx env target v) i b =
        match lastWrite (lbits ctx env target) 0 i b with
        | some k => ibit v k
        | none => bitAt env i b :=
  applyBits_spec ctx v _ 0 env hE hok

end Amaranth
