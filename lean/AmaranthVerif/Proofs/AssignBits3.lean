import AmaranthVerif.Proofs.AssignBits2
import AmaranthVerif.Proofs.Lowering

/-! # Targets: their locations are well-formed, and reading a target back gives the bits stored there -/

namespace Amaranth

/-- an assignable target, or the end marker of a concatenation / choice chain -/
def Expr.tgt (e : Expr) : Bool := e.assignable || e.isNilConst

theorem padTo_length (n : Nat) (l : List Loc) : (padTo n l).length = n := by
  unfold padTo; simp; omega

theorem padTo_getD_lt (n : Nat) (l : List Loc) (k : Nat) (h : k < l.length) (hk : k < n) :
    (padTo n l).getD k none = l.getD k none := by
  unfold padTo
  simp only [List.getD_eq_getElem?_getD]
  rw [List.getElem?_append_left (by simp; omega)]
  simp [List.getElem?_take, hk]

theorem padTo_getD_ge (n : Nat) (l : List Loc) (k : Nat) (h : l.length ≤ k) : (padTo n l).getD k none = none := by
  unfold padTo
  simp only [List.getD_eq_getElem?_getD]
  by_cases hk : k < n
  · rw [List.getElem?_append_right (by simp; omega)]
    simp only [List.getElem?_replicate]
    split <;> rfl
  · have : (List.take n l ++ List.replicate (n - l.length) none).length ≤ k := by simp; omega
    rw [List.getElem?_eq_none this]; rfl

theorem mem_padTo {n : Nat} {l : List Loc} {x : Nat × Nat} (h : some x ∈ padTo n l) : some x ∈ l := by
  unfold padTo at h
  rw [List.mem_append] at h
  rcases h with h | h
  · exact List.mem_of_mem_take h
  · have := List.eq_of_mem_replicate h; cases this

section
variable (ctx : Ctx) (cur : Env) (hok : EnvOk ctx cur)

include hok in
/-- the offset the compiled code computes is the offset of the Spec -/
theorem part_offset_eq (off : Expr) (hw : off.wf ctx = true) (hu : (shapeOf ctx off).signed = false) (stride : Nat) :
    stride * (mask (widthOf ctx off) (evalRtl ctx cur off)).toNat = (denote ctx cur off).toNat * stride := by
  have hs := sound ctx cur hok off hw
  have h1 := hs.msk
  have h2 := hs.rng
  unfold widthOf
  generalize hso : shapeOf ctx off = so at *
  obtain ⟨ow, osg⟩ := so
  simp only at hu; subst hu
  rw [Shape.contains_u] at h2
  simp only at h1
  rw [h1, Int.emod_eq_of_lt h2.1 h2.2, Nat.mul_comm]

/-- well-formed assignable targets (what `Assign` accepts on its left) -/
def Expr.twf (ctx : Ctx) : Expr → Bool
  | .sig i => decide (i < ctx.length)
  | .op1 .u a => a.twf ctx
  | .op1 .s a => a.twf ctx
  | .slice a s e => a.twf ctx && decide (s ≤ e) && decide (e ≤ widthOf ctx a)
  | .part a off _ stride => a.twf ctx && off.wf ctx && !(shapeOf ctx off).signed && decide (0 < stride)
  | .cat lo hi => lo.twf ctx && hi.twf ctx
  | .ite test pats thn els => test.wf ctx && thn.twf ctx && els.twf ctx &&
      pats.all (fun p => p.length == widthOf ctx test)
  | .const 0 ⟨0, false⟩ => true
  | _ => false

theorem lbits_length : ∀ (e : Expr), e.twf ctx = true → (lbits ctx cur e).length = widthOf ctx e := by
  intro e
  induction e with
  | const v s =>
    intro h
    unfold Expr.twf at h
    split at h <;> simp_all [lbits, widthOf, shapeOf]
  | sig i => intro _; simp [lbits, widthOf, shapeOf]
  | op1 o a ih =>
    intro h
    cases o <;> simp only [Expr.twf, Bool.false_eq_true] at h <;> (simp only [lbits, widthOf, shapeOf]; exact ih h)
  | op2 o a b _ _ => intro h; simp [Expr.twf] at h
  | slice a s e ih =>
    intro h
    simp only [Expr.twf, Bool.and_eq_true, decide_eq_true_eq] at h
    have := ih h.1.1
    simp only [lbits, widthOf, shapeOf, List.length_take, List.length_drop] at *
    omega
  | part a off w st _ _ => intro _; simp only [lbits, widthOf, shapeOf]; exact padTo_length _ _
  | cat lo hi ihlo ihhi =>
    intro h
    simp only [Expr.twf, Bool.and_eq_true] at h
    simp only [lbits, widthOf, shapeOf, List.length_append] at *
    rw [ihlo h.1, ihhi h.2]
  | ite t p thn els _ _ _ => intro _; simp only [lbits]; exact padTo_length _ _

theorem lbits_ok : ∀ (e : Expr), e.twf ctx = true → LocsOk ctx (lbits ctx cur e) := by
  intro e
  induction e with
  | const v s => intro _ i b hm; simp [lbits] at hm
  | sig j =>
    intro h i b hm
    simp only [Expr.twf, decide_eq_true_eq] at h
    simp only [lbits, List.mem_map, List.mem_range] at hm
    obtain ⟨x, hx, he⟩ := hm
    simp only [Option.some.injEq, Prod.mk.injEq] at he
    obtain ⟨rfl, rfl⟩ := he
    exact ⟨h, hx⟩
  | op1 o a ih =>
    intro h
    cases o <;> simp only [Expr.twf, Bool.false_eq_true] at h <;> (simp only [lbits]; exact ih h)
  | op2 o a b _ _ => intro h; simp [Expr.twf] at h
  | slice a s e ih =>
    intro h i b hm
    simp only [Expr.twf, Bool.and_eq_true] at h
    simp only [lbits] at hm
    exact ih h.1.1 i b (List.mem_of_mem_drop (List.mem_of_mem_take hm))
  | part a off w st ih _ =>
    intro h i b hm
    simp only [Expr.twf, Bool.and_eq_true] at h
    simp only [lbits] at hm
    exact ih h.1.1.1 i b (List.mem_of_mem_drop (mem_padTo hm))
  | cat lo hi ihlo ihhi =>
    intro h i b hm
    simp only [Expr.twf, Bool.and_eq_true] at h
    simp only [lbits, List.mem_append] at hm
    rcases hm with hm | hm
    · exact ihlo h.1 i b hm
    · exact ihhi h.2 i b hm
  | ite t p thn els _ ihthn ihels =>
    intro h i b hm
    simp only [Expr.twf, Bool.and_eq_true] at h
    simp only [lbits] at hm
    have hm' := mem_padTo hm
    split at hm'
    · exact ihthn h.1.1.2 i b hm'
    · exact ihels h.1.2 i b hm'

include hok in
/-- **Read-back.** Evaluating a target in "next" mode reads, at every position that addresses a
signal bit, the bit currently stored there. -/
theorem evalLrhs_bits (nxt : Env) : ∀ (e : Expr), e.twf ctx = true → ∀ k i b,
    (lbits ctx cur e).getD k none = some (i, b) → ibit (evalLrhs ctx cur nxt e) k = bitAt nxt i b := by
  intro e
  induction e with
  | const v s => intro _ k i b hk; simp [lbits] at hk
  | sig j =>
    intro h k i b hk
    simp only [lbits, List.getD_eq_getElem?_getD, List.getElem?_map, List.getElem?_range] at hk
    by_cases hkw : k < (ctx.shape j).width
    · simp [hkw] at hk
      obtain ⟨rfl, rfl⟩ := hk
      rfl
    · simp [hkw] at hk
  | op1 o a ih =>
    intro h
    cases o <;> simp only [Expr.twf, Bool.false_eq_true] at h <;> (simp only [lbits, evalLrhs]; exact ih h)
  | op2 o a b _ _ => intro h; simp [Expr.twf] at h
  | slice a s e ih =>
    intro h k i b hk
    simp only [Expr.twf, Bool.and_eq_true, decide_eq_true_eq] at h
    simp only [lbits, List.getD_eq_getElem?_getD, List.getElem?_take, List.getElem?_drop] at hk
    by_cases hke : k < e - s
    · simp only [hke, if_true] at hk
      simp only [evalLrhs]
      rw [ibit_mask, ibit_pyShr]
      simp only [hke, decide_true, Bool.true_and]
      apply ih h.1.1 (k + s) i b
      rw [List.getD_eq_getElem?_getD, Nat.add_comm]; exact hk
    · simp [hke] at hk
  | part a off w st iha _ =>
    intro h k i b hk
    simp only [Expr.twf, Bool.and_eq_true, decide_eq_true_eq, Bool.not_eq_true'] at h
    simp only [lbits] at hk
    have hoff := part_offset_eq ctx cur hok off h.1.1.2 h.1.2 st
    set o := (denote ctx cur off).toNat * st with ho
    by_cases hkl : k < ((lbits ctx cur a).drop o).length
    · by_cases hkw : k < w
      · rw [padTo_getD_lt _ _ _ hkl hkw] at hk
        simp only [List.getD_eq_getElem?_getD, List.getElem?_drop] at hk
        simp only [evalLrhs]
        rw [hoff, ibit_mask, ibit_pyShr]
        simp only [hkw, decide_true, Bool.true_and]
        have hlen := lbits_length ctx cur a h.1.1.1
        have hin : k + o < (shapeOf ctx a).width := by
          simp only [List.length_drop] at hkl; unfold widthOf at hlen; omega
        rw [ibit_norm_lt _ _ _ hin]
        apply iha h.1.1.1 (k + o) i b
        rw [List.getD_eq_getElem?_getD, Nat.add_comm]; exact hk
      · have : (padTo w ((lbits ctx cur a).drop o)).getD k none = none := by
          unfold padTo
          rw [List.getD_eq_getElem?_getD, List.getElem?_eq_none (by simp; omega)]; rfl
        rw [this] at hk; cases hk
    · rw [padTo_getD_ge _ _ _ (by omega)] at hk; cases hk
  | cat lo hi ihlo ihhi =>
    intro h k i b hk
    simp only [Expr.twf, Bool.and_eq_true] at h
    have hl := lbits_length ctx cur lo h.1
    simp only [lbits, List.getD_eq_getElem?_getD] at hk
    simp only [evalLrhs]
    rw [ibit_pyOr, ibit_pyShl, ibit_pyShl, ibit_mask, ibit_mask]
    by_cases hkl : k < widthOf ctx lo
    · rw [List.getElem?_append_left (by rw [hl]; exact hkl)] at hk
      have : ¬ widthOf ctx lo ≤ k := by omega
      simp only [Nat.zero_le, decide_true, Nat.sub_zero, hkl, Bool.true_and, this, decide_false, Bool.false_and,
        Bool.or_false]
      exact ihlo h.1 k i b (by rw [List.getD_eq_getElem?_getD]; exact hk)
    · rw [List.getElem?_append_right (by rw [hl]; omega), hl] at hk
      have hge : widthOf ctx lo ≤ k := by omega
      have hhi := lbits_length ctx cur hi h.2
      have hin : k - widthOf ctx lo < widthOf ctx hi := by
        by_contra hc
        rw [List.getElem?_eq_none (by rw [hhi]; omega)] at hk
        cases hk
      simp only [Nat.zero_le, decide_true, Nat.sub_zero, hkl, decide_false, Bool.false_and, Bool.true_and, hge, hin,
        Bool.false_or]
      exact ihhi h.2 (k - widthOf ctx lo) i b (by rw [List.getD_eq_getElem?_getD]; exact hk)
  | ite t p thn els _ ihthn ihels =>
    intro h k i b hk
    simp only [Expr.twf, Bool.and_eq_true] at h
    simp only [lbits] at hk
    simp only [evalLrhs]
    rw [switch_test_eq ctx cur hok t h.1.1.1 p h.2]
    by_cases hm : p.any (fun q => q.matchesSpec (denote ctx cur t)) = true
    · simp only [hm, if_true] at hk ⊢
      have hlen := lbits_length ctx cur thn h.1.1.2
      by_cases hkl : k < (lbits ctx cur thn).length
      · by_cases hkw : k < widthOf ctx (.ite t p thn els)
        · rw [padTo_getD_lt _ _ _ hkl hkw] at hk
          rw [ibit_norm_lt _ _ _ (by unfold widthOf at hlen; omega)]
          exact ihthn h.1.1.2 k i b hk
        · have : (padTo (widthOf ctx (.ite t p thn els)) (lbits ctx cur thn)).getD k none = none := by
            unfold padTo
            rw [List.getD_eq_getElem?_getD, List.getElem?_eq_none (by simp; omega)]; rfl
          rw [this] at hk; cases hk
      · rw [padTo_getD_ge _ _ _ (by omega)] at hk; cases hk
    · simp only [hm, Bool.false_eq_true, if_false] at hk ⊢
      by_cases hkl : k < (lbits ctx cur els).length
      · by_cases hkw : k < widthOf ctx (.ite t p thn els)
        · rw [padTo_getD_lt _ _ _ hkl hkw] at hk
          exact ihels h.1.2 k i b hk
        · have : (padTo (widthOf ctx (.ite t p thn els)) (lbits ctx cur els)).getD k none = none := by
            unfold padTo
            rw [List.getD_eq_getElem?_getD, List.getElem?_eq_none (by simp; omega)]; rfl
          rw [this] at hk; cases hk
      · rw [padTo_getD_ge _ _ _ (by omega)] at hk; cases hk

end
end Amaranth
