import AmaranthVerif.Spec.Format

/-!
# `str.format` un-escapes what `emit_format` escapes; padding, sign and digit lemmas of `pyFormat`
-/

namespace Amaranth
namespace Fmt

/-! ## escaping -/

theorem prependE_nil (r : Except PyErr PyStr) : prependE [] r = r := by
  cases r <;> rfl

theorem prependE_append (a b : PyStr) (r : Except PyErr PyStr) :
    prependE (a ++ b) r = prependE a (prependE b r) := by
  cases r <;> simp [prependE]

theorem prependE_ok (a b : PyStr) : prependE a (.ok b) = .ok (a ++ b) := rfl

theorem replaceChar_append (c : Char) (rep a b : List Char) :
    replaceChar c rep (a ++ b) = replaceChar c rep a ++ replaceChar c rep b := by
  induction a with
  | nil => rfl
  | cons x xs ih => simp [replaceChar, ih]

/-- what one character becomes -/
def escChar (c : Char) : List Char :=
  if c = '{' then ['{', '{'] else if c = '}' then ['}', '}'] else [c]

theorem escape_cons (c : Char) (l : List Char) : escape (c :: l) = escChar c ++ escape l := by
  unfold escape escChar
  simp only [replaceChar]
  rw [replaceChar_append]
  congr 1
  by_cases h1 : c = '{'
  · subst h1; decide
  · by_cases h2 : c = '}'
    · subst h2; decide
    · simp [h1, h2, replaceChar]

theorem escape_nil : escape [] = [] := rfl

theorem escape_append (a b : List Char) : escape (a ++ b) = escape a ++ escape b := by
  unfold escape; rw [replaceChar_append, replaceChar_append]

/-- the parser of `str.format`, in literal-text state, turns an escaped literal back into itself -/
theorem strFormatGo_escape (args : List Arg) (l rest : List Char) :
    strFormatGo .lit args (escape l ++ rest) = prependE l (strFormatGo .lit args rest) := by
  induction l with
  | nil => simp [escape_nil, prependE_nil]
  | cons c cs ih =>
    rw [escape_cons, List.append_assoc]
    have hcons : c :: cs = [c] ++ cs := rfl
    rw [hcons, prependE_append, ← ih]
    unfold escChar
    by_cases h1 : c = '{'
    · subst h1
      simp [strFormatGo]
    · by_cases h2 : c = '}'
      · subst h2
        simp [strFormatGo]
      · simp [h1, h2, strFormatGo]

/-- a `{}` field consumes the next argument; a pre-formatted string argument is copied -/
theorem strFormatGo_field_str (t : PyStr) (args : List Arg) (rest : List Char) :
    strFormatGo .lit (.str t :: args) ('{' :: '}' :: rest) = prependE t (strFormatGo .lit args rest) := by
  have h : formatArg (.str t) [] = .ok t := by
    simp [formatArg, parseSpecL, parseTail, optHead, flag, takeWidth, pyFormatStr, Spec.alignStr, padNumber,
      Spec.widthN, Spec.fillChar]
  simp [strFormatGo, fieldText, h]
  rfl

end Fmt
end Amaranth
