import AmaranthVerif.Proofs.EmitFront4
import AmaranthVerif.Proofs.EmitBackend3

/-!
# `emit_rhs`: part-selects (helper lemmas for `C04.emit_expr_correct`), part 5
-/

namespace Amaranth.Rtlil
open Amaranth

theorem partOf_cast (v : Int) (off width : Nat) : ((partOf v off width : Nat) : Int) = mask width (pyShr v off) := by
  unfold partOf mask pyShr
  exact Int.toNat_of_nonneg (Int.emod_nonneg _ (by positivity))

section
variable (c : Ctx) (m : Mems) (ctx : Amaranth.Ctx) (env : Amaranth.Env)

theorem emitsOk_part (a off : Expr) (width stride : Nat) (hsa : c.shiftArith = false)
    (hwa : (shapeOf ctx a).WF) (hwo : (shapeOf ctx off).WF) (hou : (shapeOf ctx off).signed = false) (hst : 0 < stride)
    (hin : (shapeOf ctx a).signed = true → (2 ^ widthOf ctx off - 1) * stride + width ≤ max (widthOf ctx a) width)
    (iha : EmitsOk c m ctx env a) (iho : EmitsOk c m ctx env off) : EmitsOk c m ctx env (.part a off width stride) := by
  intro k renv hse hw
  have hE : emitE ctx (.part a off width stride) k
      = Res.after ((emitE ctx a k).wires ++ (emitE ctx off (emitE ctx a k).next).wires)
          ((emitE ctx a k).nodes ++ (emitE ctx off (emitE ctx a k).next).nodes)
          (emitPart (emitE ctx a k).val (emitE ctx a k).signed (emitE ctx off (emitE ctx a k).next).val width stride
            (emitE ctx off (emitE ctx a k).next).next) false := rfl
  rw [hE] at hw ⊢
  generalize hra : emitE ctx a k = ra at hw ⊢
  generalize hro : emitE ctx off ra.next = ro at hw ⊢
  have hw0 : WidthsOk c (ra.wires ++ ro.wires) := WidthsOk.left (b := (emitPart ra.val ra.signed ro.val width stride ro.next).wires) hw
  obtain ⟨renv2, hrun, hfr, hk, oa, oo, la, lo, sga, sgo, xa, xo, _, _⟩ :=
    op2_operands c m ctx env a off hwa hwo iha iho k renv hse ra ro hra.symm hro.symm hw0
  have hos : ro.signed = false := by rw [sgo]; exact hou
  have hyv : (valOf renv2 ro.val : Int) = norm (shapeOf ctx off) (evalRtl ctx env off) := by
    rw [← xo, hos]; simp [sval, toInt]
  have hyn : norm (shapeOf ctx off) (evalRtl ctx env off) = mask (widthOf ctx off) (evalRtl ctx env off) := by
    unfold norm; rw [hou]; rfl
  have hoff : (mask (widthOf ctx off) (evalRtl ctx env off)).toNat = valOf renv2 ro.val := by
    rw [← hyn, ← hyv]; simp
  have hev : evalRtl ctx env (.part a off width stride)
      = mask width (pyShr (norm (shapeOf ctx a) (evalRtl ctx env a)) (stride * valOf renv2 ro.val)) := by
    rw [← hoff]; rfl
  refine resSound_after c m ctx env (.part a off width stride) _ hrun hfr hk
    (emitPart_sound c m _ _ _ _ _ ro.next renv2 hsa hst oa hw.after) false rfl ?_ ?_
  · show (emitPart ra.val ra.signed ro.val width stride ro.next).val.length = width
    unfold emitPart; split <;> exact wireBits_length _ _ _
  · intro out hout
    have hlt := valOf_lt renv2 ra.val
    rw [hout, hev]
    show _ = mask width (mask width _)
    rw [mask_mask, Nat.mul_comm stride]
    cases hs : ra.signed with
    | false =>
      rw [hs] at xa
      have hx : (valOf renv2 ra.val : Int) = norm (shapeOf ctx a) (evalRtl ctx env a) := by
        rw [← xa]; simp [sval, toInt]
      rw [shift_unsigned _ _ _ _ hlt, partOf_cast, hx]
    | true =>
      rw [hs] at xa sga
      have hx : toInt true ra.val.length (valOf renv2 ra.val) = norm (shapeOf ctx a) (evalRtl ctx env a) := xa
      have hwin : valOf renv2 ro.val * stride + width ≤ max ra.val.length width := by
        have h1 := hin sga.symm
        have h2 := valOf_lt renv2 ro.val
        rw [lo] at h2
        have h3 : valOf renv2 ro.val * stride ≤ (2 ^ widthOf ctx off - 1) * stride := Nat.mul_le_mul_right _ (by omega)
        rw [la]; omega
      rw [shift_signed_within _ _ _ _ hlt hwin, partOf_cast, hx]

end

end Amaranth.Rtlil
