import AmaranthVerif.Proofs.EmitFront7

/-!
# `emit_rhs`: `SwitchValue` (helper lemmas for `C04.emit_expr_correct`), part 8 — the `Mux` form
-/

namespace Amaranth.Rtlil
open Amaranth

section
variable (c : Ctx) (m : Mems) (ctx : Amaranth.Ctx) (env : Amaranth.Env)

/-- the `Mux` form: `test ? e1 : e0` through an `m` operator -/
theorem switchMux_sound (test e e0 e1 : Expr)
    (hshape : shapeOf ctx e = Shape.unify (shapeOf ctx e1) (shapeOf ctx e0))
    (hval : evalRtl ctx env e = if mask (widthOf ctx test) (evalRtl ctx env test) = 0
      then norm (shapeOf ctx e0) (evalRtl ctx env e0) else norm (shapeOf ctx e1) (evalRtl ctx env e1))
    (iht : EmitsOk c m ctx env test) (ih0 : EmitsOk c m ctx env e0) (ih1 : EmitsOk c m ctx env e1)
    (hwf0 : (shapeOf ctx e0).WF) (hwf1 : (shapeOf ctx e1).WF) (k : Nat) (renv : Env) (hse : SigEnv ctx env renv)
    (hw : WidthsOk c (emitSwitchMux (emitE ctx test k) (emitE ctx e0) (emitE ctx e1)).wires) :
    ResSound c m ctx env e k renv (emitSwitchMux (emitE ctx test k) (emitE ctx e0) (emitE ctx e1)) := by
  generalize hrt : emitE ctx test k = rt at hw ⊢
  generalize hra : emitE ctx e1 rt.next = ra at hw ⊢
  generalize hrb : emitE ctx e0 ra.next = rb at hw ⊢
  have hws : ∃ ws, (emitSwitchMux rt (emitE ctx e0) (emitE ctx e1)).wires = (rt.wires ++ ra.wires ++ rb.wires) ++ ws := by
    unfold emitSwitchMux
    simp only [hra, hrb]
    split
    · exact ⟨_, rfl⟩
    · exact ⟨(emitUnary NOp1.bool rt.val rb.next).wires ++ (emitMux (emitUnary NOp1.bool rt.val rb.next).val
          (unifyVals ra.val ra.signed rb.val rb.signed).1 (unifyVals ra.val ra.signed rb.val rb.signed).2.1
          (emitUnary NOp1.bool rt.val rb.next).next).wires, by simp only [Res.after, List.append_assoc]⟩
  have hw0 : WidthsOk c (rt.wires ++ ra.wires ++ rb.wires) := by
    obtain ⟨ws, h⟩ := hws; rw [h] at hw; exact hw.left
  have hwt : WidthsOk c rt.wires := hw0.left.left
  have hwab : WidthsOk c (ra.wires ++ rb.wires) := by
    intro p hp; apply hw0 p
    rw [List.append_assoc]; exact List.mem_append_right _ hp
  have st : ResSound c m ctx env test k renv rt := by rw [← hrt]; exact iht k renv hse (by rw [hrt]; exact hwt)
  obtain ⟨renv1, run1, f1, v1⟩ := st.run
  obtain ⟨renv2, hrun, hfr, hk, oa, ob, la, lb, sga, sgb, xa, xb, nea, neb⟩ :=
    op2_operands c m ctx env e1 e0 hwf1 hwf0 ih1 ih0 rt.next renv1 (hse.frame f1) ra rb hra.symm hrb.symm hwab
  obtain ⟨hu1, hu2, hu3, hxa, hxb, _, _, _⟩ := unify_facts renv2 ra.val rb.val ra.signed rb.signed nea neb
  have hU : Shape.unify ⟨ra.val.length, ra.signed⟩ ⟨rb.val.length, rb.signed⟩ = shapeOf ctx e := by
    rw [la, lb, sga, sgb, hshape]; rfl
  rw [hU] at hu1 hu2 hu3 hxa hxb
  rw [xa] at hxa
  rw [xb] at hxb
  obtain ⟨oua, oub⟩ := old_unify oa ob ra.signed rb.signed
  have ltA := valOf_lt renv2 (unifyVals ra.val ra.signed rb.val rb.signed).1
  have ltB := valOf_lt renv2 (unifyVals ra.val ra.signed rb.val rb.signed).2.1
  rw [hu1] at ltA
  rw [hu2] at ltB
  have hA : valOf renv2 (unifyVals ra.val ra.signed rb.val rb.signed).1
      = ofInt (shapeOf ctx e).width (norm (shapeOf ctx e1) (evalRtl ctx env e1)) := by
    apply eq_ofInt_of_toInt (s := (shapeOf ctx e).signed) _ ltA
    rw [← hxa]; unfold sval; rw [hu1]
  have hB : valOf renv2 (unifyVals ra.val ra.signed rb.val rb.signed).2.1
      = ofInt (shapeOf ctx e).width (norm (shapeOf ctx e0) (evalRtl ctx env e0)) := by
    apply eq_ofInt_of_toInt (s := (shapeOf ctx e).signed) _ ltB
    rw [← hxb]; unfold sval; rw [hu2]
  have vt2 : (valOf renv2 rt.val : Int) = mask (widthOf ctx test) (evalRtl ctx env test) := by
    rw [valOf_frame hfr st.old]; exact v1
  have hrun2 : evalNodes c m (rt.nodes ++ ra.nodes ++ rb.nodes) renv = .ok renv2 := by
    rw [List.append_assoc]; exact evalNodes_append_ok c m run1 hrun
  have hfr2 : Frame k renv renv2 := f1.trans hfr st.next_le
  have hk2 : k ≤ rb.next := le_trans st.next_le hk
  -- the value the multiplexer must produce
  have hfin : ∀ out : Nat, (out = if valOf renv2 rt.val = 0 then valOf renv2 (unifyVals ra.val ra.signed rb.val rb.signed).2.1
        else valOf renv2 (unifyVals ra.val ra.signed rb.val rb.signed).1) →
      (out : Int) = mask (widthOf ctx e) (evalRtl ctx env e) := by
    intro out hout
    rw [hval, ← vt2, hout]
    by_cases hz : valOf renv2 rt.val = 0
    · have hz' : ((valOf renv2 rt.val : Nat) : Int) = 0 := by exact_mod_cast hz
      simp only [hz, hz', if_true]
      rw [hB, ofInt_cast_mask]; rfl
    · have hz' : ¬ ((valOf renv2 rt.val : Nat) : Int) = 0 := by exact_mod_cast hz
      simp only [hz, hz', if_false]
      rw [hA, ofInt_cast_mask]; rfl
  unfold emitSwitchMux at hw ⊢
  simp only [hra, hrb] at hw ⊢
  by_cases htw : rt.val.length = 1
  · simp only [htw, if_true] at hw ⊢
    rw [hu3] at hw ⊢
    refine resSound_after c m ctx env e _ hrun2 hfr2 hk2
      (emitMux_sound c m _ _ _ rb.next renv2 (by rw [hu1, hu2]) hw.after) _ rfl ?_ ?_
    · show (wireBits _ 0 _).length = _
      rw [wireBits_length, hu1]; rfl
    · intro out hout
      apply hfin
      have hT := valOf_lt renv2 rt.val
      rw [htw] at hT
      have h2 : out = if valOf renv2 rt.val % 2 = 1 then _ else _ := hout
      rw [h2]
      have : valOf renv2 rt.val = 0 ∨ valOf renv2 rt.val = 1 := by omega
      rcases this with h | h <;> simp [h]
  · simp only [htw, if_false] at hw ⊢
    rw [hu3] at hw ⊢
    have hwtb : WidthsOk c (emitUnary .bool rt.val rb.next).wires := by
      have h1 : WidthsOk c ((rt.wires ++ ra.wires ++ rb.wires) ++ (emitUnary .bool rt.val rb.next).wires) := WidthsOk.left hw
      exact h1.right
    obtain ⟨hk3, otb, renv3, run3, fr3, p3⟩ := after_run c m hrun2 hfr2 hk2 (emitUnary_sound c m .bool rt.val rb.next renv2 hwtb)
    have hfb : Frame rb.next renv2 renv3 := by
      obtain ⟨_, _, e3, r3, f3, _⟩ := (emitUnary_sound c m .bool rt.val rb.next renv2 hwtb)
      -- the same run: `evalNodes` is a function
      obtain ⟨e3', r3', f3', _⟩ := (emitUnary_sound c m .bool rt.val rb.next renv2 hwtb).run
      have hcomb := evalNodes_append_ok c m hrun2 r3'
      rw [run3] at hcomb
      cases hcomb
      exact f3'
    have hb3 : valOf renv3 (emitUnary .bool rt.val rb.next).val = b2n (valOf renv2 rt.val != 0) := p3
    have va3 := valOf_frame hfb oua
    have vb3 := valOf_frame hfb oub
    have hnext : rb.next ≤ (emitUnary .bool rt.val rb.next).next := (emitUnary_sound c m .bool rt.val rb.next renv2 hwtb).next_le
    refine resSound_after c m ctx env e _ run3 fr3 hk3
      (emitMux_sound c m _ _ _ (emitUnary .bool rt.val rb.next).next renv3 (by rw [hu1, hu2]) hw.after) _ rfl ?_ ?_
    · show (wireBits _ 0 _).length = _
      rw [wireBits_length, hu1]; rfl
    · intro out hout
      apply hfin
      have h2 : out = if valOf renv3 (emitUnary .bool rt.val rb.next).val % 2 = 1 then _ else _ := hout
      rw [h2, hb3, va3, vb3]
      by_cases hz : valOf renv2 rt.val = 0 <;> simp [hz, b2n]

end

end Amaranth.Rtlil
