import AmaranthVerif.Proofs.EmitVal2

/-!
# Running emitted cells in the RTLIL evaluator (helper lemmas for `C04.emit_expr_correct`)

* `evalNodes` over an append; one cell whose `\Y` is a fresh wire: the environment gets that wire, nothing else changes;
* the evaluator's reading of every cell constructor of `Model/Rtlil/EmitExpr.lean` (by computation: the cell type, the
  parameter and the port names are literals).
-/

namespace Amaranth.Rtlil
open Amaranth

theorem evalNodes_append (c : Ctx) (m : Mems) : ∀ (a b : List Node) (env : Env),
    evalNodes c m (a ++ b) env = (evalNodes c m a env).bind (fun e => evalNodes c m b e)
  | [], b, env => rfl
  | n :: a, b, env => by
    simp only [List.cons_append, evalNodes]
    cases h : evalNode c m env n with
    | error e => rfl
    | ok e => simp only [bind, Except.bind]; exact evalNodes_append c m a b e

theorem evalNodes_append_ok (c : Ctx) (m : Mems) {a b : List Node} {env e1 e2 : Env}
    (h1 : evalNodes c m a env = .ok e1) (h2 : evalNodes c m b e1 = .ok e2) : evalNodes c m (a ++ b) env = .ok e2 := by
  rw [evalNodes_append, h1]; exact h2

theorem evalNodes_single (c : Ctx) (m : Mems) (n : Node) (env e : Env) (h : evalNode c m env n = .ok e) :
    evalNodes c m [n] env = .ok e := by
  simp only [evalNodes, h]; rfl

/-- every declared wire has its width in the evaluator's context -/
def WidthsOk (c : Ctx) (wires : List (String × Nat)) : Prop := ∀ p ∈ wires, c.width p.1 = p.2

theorem WidthsOk.left {c : Ctx} {a b : List (String × Nat)} (h : WidthsOk c (a ++ b)) : WidthsOk c a :=
  fun p hp => h p (List.mem_append_left _ hp)

theorem WidthsOk.right {c : Ctx} {a b : List (String × Nat)} (h : WidthsOk c (a ++ b)) : WidthsOk c b :=
  fun p hp => h p (List.mem_append_right _ hp)

theorem evalNode_cell (c : Ctx) (m : Mems) (env : Env) (cell : Cell) (y : String) (r : Nat)
    (hy : cell.conn? "\\Y" = some (.one (.wire y))) (hr : evalCombCell c env cell = .ok r) :
    evalNode c m env (.cell cell) = .ok (env.insert y (r % 2 ^ c.width y % 2 ^ c.width y)) := by
  simp only [evalNode, hy, hr]
  rfl

/-- one cell driving the fresh wire `$j` of declared width `yw` with a value `r < 2^yw` -/
theorem run_cell (c : Ctx) (m : Mems) (env : Env) (cell : Cell) (j yw r k : Nat)
    (hy : cell.conn? "\\Y" = some (.one (.wire (autoName j)))) (hr : evalCombCell c env cell = .ok r)
    (hw : c.width (autoName j) = yw) (hlt : r < 2 ^ yw) (hk : k ≤ j) :
    evalNodes c m [.cell cell] env = .ok (env.insert (autoName j) r) ∧ Frame k env (env.insert (autoName j) r) ∧
      valOf (env.insert (autoName j) r) (wireBits (autoName j) 0 yw) = r := by
  refine ⟨?_, Frame.insert k j env r hk, ?_⟩
  · apply evalNodes_single
    rw [evalNode_cell c m env cell _ r hy hr, hw, Nat.mod_eq_of_lt hlt, Nat.mod_eq_of_lt hlt]
  · rw [valOf_wireBits, Std.HashMap.getD_insert_self, Nat.pow_zero, Nat.div_one, Nat.mod_eq_of_lt hlt]

/-! ## the evaluator on the emitted cell forms -/

section cells
variable (c : Ctx) (env : Env) (name y : String)

theorem conn_unary (ty : String) (sa : Bool) (a : Val) (yw : Nat) :
    (unaryCell ty name sa a yw y).conn? "\\Y" = some (.one (.wire y)) := rfl
theorem conn_binaryS (ty : String) (sa sb : Bool) (a : Val) (b : SigSpec) (bw yw : Nat) :
    (binaryCellS ty name sa sb a b bw yw y).conn? "\\Y" = some (.one (.wire y)) := rfl
theorem conn_binary (ty : String) (sa sb : Bool) (a b : Val) (yw : Nat) :
    (binaryCell ty name sa sb a b yw y).conn? "\\Y" = some (.one (.wire y)) := rfl
theorem conn_mux (s a b : SigSpec) (w : Nat) : (muxCell name s a b w y).conn? "\\Y" = some (.one (.wire y)) := rfl

theorem eval_neg (sa : Bool) (a : Val) (yw : Nat) :
    evalCombCell c env (unaryCell "$neg" name sa a yw y) = .ok (cellNeg sa a.length yw (valOf env a)) := by
  rw [← specVal_emitSpec c env a]; cases sa <;> rfl
theorem eval_not (a : Val) (yw : Nat) :
    evalCombCell c env (unaryCell "$not" name false a yw y) = .ok (cellNot false a.length yw (valOf env a)) := by
  rw [← specVal_emitSpec c env a]; rfl
theorem eval_reduce_bool (a : Val) (yw : Nat) :
    evalCombCell c env (unaryCell "$reduce_bool" name false a yw y) = .ok (cellReduceOr a.length yw (valOf env a)) := by
  rw [← specVal_emitSpec c env a]; rfl
theorem eval_reduce_or (a : Val) (yw : Nat) :
    evalCombCell c env (unaryCell "$reduce_or" name false a yw y) = .ok (cellReduceOr a.length yw (valOf env a)) := by
  rw [← specVal_emitSpec c env a]; rfl
theorem eval_reduce_and (a : Val) (yw : Nat) :
    evalCombCell c env (unaryCell "$reduce_and" name false a yw y) = .ok (cellReduceAnd a.length yw (valOf env a)) := by
  rw [← specVal_emitSpec c env a]; rfl
theorem eval_reduce_xor (a : Val) (yw : Nat) :
    evalCombCell c env (unaryCell "$reduce_xor" name false a yw y) = .ok (cellReduceXor a.length yw (valOf env a)) := by
  rw [← specVal_emitSpec c env a]; rfl

theorem eval_add (s : Bool) (a b : Val) (yw : Nat) :
    evalCombCell c env (binaryCell "$add" name s s a b yw y)
      = .ok (cellAdd s s a.length b.length yw (valOf env a) (valOf env b)) := by
  rw [← specVal_emitSpec c env a, ← specVal_emitSpec c env b]; cases s <;> rfl
theorem eval_sub (s : Bool) (a b : Val) (yw : Nat) :
    evalCombCell c env (binaryCell "$sub" name s s a b yw y)
      = .ok (cellSub s s a.length b.length yw (valOf env a) (valOf env b)) := by
  rw [← specVal_emitSpec c env a, ← specVal_emitSpec c env b]; cases s <;> rfl
theorem eval_mul (s : Bool) (a b : Val) (yw : Nat) :
    evalCombCell c env (binaryCell "$mul" name s s a b yw y)
      = .ok (cellMul s s a.length b.length yw (valOf env a) (valOf env b)) := by
  rw [← specVal_emitSpec c env a, ← specVal_emitSpec c env b]; cases s <;> rfl
theorem eval_and (a b : Val) (yw : Nat) :
    evalCombCell c env (binaryCell "$and" name false false a b yw y)
      = .ok (cellAnd false false a.length b.length yw (valOf env a) (valOf env b)) := by
  rw [← specVal_emitSpec c env a, ← specVal_emitSpec c env b]; rfl
theorem eval_or (a b : Val) (yw : Nat) :
    evalCombCell c env (binaryCell "$or" name false false a b yw y)
      = .ok (cellOr false false a.length b.length yw (valOf env a) (valOf env b)) := by
  rw [← specVal_emitSpec c env a, ← specVal_emitSpec c env b]; rfl
theorem eval_xor (a b : Val) (yw : Nat) :
    evalCombCell c env (binaryCell "$xor" name false false a b yw y)
      = .ok (cellXor false false a.length b.length yw (valOf env a) (valOf env b)) := by
  rw [← specVal_emitSpec c env a, ← specVal_emitSpec c env b]; rfl
theorem eval_eq (s : Bool) (a b : Val) (yw : Nat) :
    evalCombCell c env (binaryCell "$eq" name s s a b yw y)
      = .ok (cellEq s s a.length b.length yw (valOf env a) (valOf env b)) := by
  rw [← specVal_emitSpec c env a, ← specVal_emitSpec c env b]; cases s <;> rfl
theorem eval_ne (s : Bool) (a b : Val) (yw : Nat) :
    evalCombCell c env (binaryCell "$ne" name s s a b yw y)
      = .ok (cellNe s s a.length b.length yw (valOf env a) (valOf env b)) := by
  rw [← specVal_emitSpec c env a, ← specVal_emitSpec c env b]; cases s <;> rfl
theorem eval_lt (s : Bool) (a b : Val) (yw : Nat) :
    evalCombCell c env (binaryCell "$lt" name s s a b yw y)
      = .ok (cellLt s s a.length b.length yw (valOf env a) (valOf env b)) := by
  rw [← specVal_emitSpec c env a, ← specVal_emitSpec c env b]; cases s <;> rfl
theorem eval_le (s : Bool) (a b : Val) (yw : Nat) :
    evalCombCell c env (binaryCell "$le" name s s a b yw y)
      = .ok (cellLe s s a.length b.length yw (valOf env a) (valOf env b)) := by
  rw [← specVal_emitSpec c env a, ← specVal_emitSpec c env b]; cases s <;> rfl
theorem eval_gt (s : Bool) (a b : Val) (yw : Nat) :
    evalCombCell c env (binaryCell "$gt" name s s a b yw y)
      = .ok (cellGt s s a.length b.length yw (valOf env a) (valOf env b)) := by
  rw [← specVal_emitSpec c env a, ← specVal_emitSpec c env b]; cases s <;> rfl
theorem eval_ge (s : Bool) (a b : Val) (yw : Nat) :
    evalCombCell c env (binaryCell "$ge" name s s a b yw y)
      = .ok (cellGe s s a.length b.length yw (valOf env a) (valOf env b)) := by
  rw [← specVal_emitSpec c env a, ← specVal_emitSpec c env b]; cases s <;> rfl
theorem eval_divfloor (s : Bool) (a b : Val) (yw : Nat) :
    evalCombCell c env (binaryCell "$divfloor" name s s a b yw y)
      = .ok (cellDivFloor s s a.length b.length yw (valOf env a) (valOf env b) (undefVal c.xres yw)) := by
  rw [← specVal_emitSpec c env a, ← specVal_emitSpec c env b]; cases s <;> rfl
theorem eval_modfloor (s : Bool) (a b : Val) (yw : Nat) :
    evalCombCell c env (binaryCell "$modfloor" name s s a b yw y)
      = .ok (cellModFloor s s a.length b.length yw (valOf env a) (valOf env b) (undefVal c.xres yw)) := by
  rw [← specVal_emitSpec c env a, ← specVal_emitSpec c env b]; cases s <;> rfl
theorem eval_shl (sa : Bool) (a b : Val) (yw : Nat) :
    evalCombCell c env (binaryCell "$shl" name sa false a b yw y)
      = .ok (cellShl sa a.length yw (valOf env a) (valOf env b)) := by
  rw [← specVal_emitSpec c env a, ← specVal_emitSpec c env b]; cases sa <;> rfl
theorem eval_shr (a b : Val) (yw : Nat) :
    evalCombCell c env (binaryCell "$shr" name false false a b yw y)
      = .ok (cellShr false a.length yw (valOf env a) (valOf env b)) := by
  rw [← specVal_emitSpec c env a, ← specVal_emitSpec c env b]; rfl
theorem eval_sshr (a b : Val) (yw : Nat) :
    evalCombCell c env (binaryCell "$sshr" name true false a b yw y)
      = .ok (cellSshr true a.length yw (valOf env a) (valOf env b)) := by
  rw [← specVal_emitSpec c env a, ← specVal_emitSpec c env b]; rfl
/-- `$shift` as the evaluator reads it without the F27 attribution switch -/
theorem eval_shift (hsa : c.shiftArith = false) (sa : Bool) (a : Val) (b : SigSpec) (bw yw : Nat) :
    evalCombCell c env (binaryCellS "$shift" name sa false a b bw yw y)
      = .ok (cellShift sa a.length yw (valOf env a) (toInt false bw (specVal c env b))) := by
  rw [← specVal_emitSpec c env a]
  cases sa <;> simp [evalCombCell, binaryCellS, hsa, Cell.conn?, Cell.natParam?, Cell.flagParam?, Cell.param?, pNat, pFlag,
    unaryTypes] <;> rfl
theorem eval_mux (s a b : SigSpec) (w : Nat) :
    evalCombCell c env (muxCell name s a b w y) = .ok (cellMux w (specVal c env a) (specVal c env b) (specVal c env s)) := rfl

end cells

end Amaranth.Rtlil
