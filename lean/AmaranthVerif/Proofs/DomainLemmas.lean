import AmaranthVerif.Model.Domain
import AmaranthVerif.Proofs.Lowering

/-! # Lemmas for C03: control inserters at statement level, quiet events, commit masks -/

namespace Amaranth

/-- `Switch(ctl, [(1, …)])` selects its case exactly when the control's value is the integer 1 -/
theorem onePattern_matches (ctx : Ctx) (cur : Env) (hok : EnvOk ctx cur) (ctl : Expr) (h : ctl.wf ctx = true) :
    matchesAny (onePattern ctx ctl) (mask (widthOf ctx ctl) (evalRtl ctx cur ctl)) =
      (decide ((shapeOf ctx ctl).contains 1) && decide (denote ctx cur ctl = 1)) := by
  have hs := sound ctx cur hok ctl h
  unfold onePattern
  have hl : [UPat.int 1].all (UPat.ok (shapeOf ctx ctl).width) = true := rfl
  rw [switch_test_eq ctx cur hok ctl h _ (normUPats_lengths (shapeOf ctx ctl) _ hl),
      normUPats_any (shapeOf ctx ctl) hs.swf _ hs.rng _ hl]
  simp [UPat.matchesV]

/-! ## Python bit operators against 0 and −1 -/

theorem pyAnd_neg_one (x : Int) : pyAnd x (-1) = x := by
  cases x with
  | ofNat m => show ((m - (m &&& 0) : Nat) : Int) = _; simp
  | negSucc m => show Int.negSucc (m ||| 0) = _; simp

theorem pyAnd_zero (x : Int) : pyAnd x 0 = 0 := by
  cases x with
  | ofNat m => show ((m &&& 0 : Nat) : Int) = 0; simp
  | negSucc m => show ((0 - (0 &&& m) : Nat) : Int) = 0; simp

theorem pyOr_zero (x : Int) : pyOr x 0 = x := by
  cases x with
  | ofNat m => show ((m ||| 0 : Nat) : Int) = _; simp
  | negSucc m => show Int.negSucc (m - (m &&& 0)) = _; simp

/-- committing through an empty mask changes nothing -/
theorem commitMask_zero (s : Shape) (old new : Int) : commitMask s old new 0 = old := by
  unfold commitMask
  have h0 : pyAnd 0 (pyShl 1 (s.width - 1)) = 0 := by
    cases h : pyShl 1 (s.width - 1) with
    | ofNat m => show ((0 &&& m : Nat) : Int) = 0; simp
    | negSucc m => show ((0 - (0 &&& m) : Nat) : Int) = 0; simp
  simp only [h0]
  have : ((0 : Int) != 0) = false := rfl
  rw [this, Bool.and_false]
  simp only [Bool.false_eq_true, if_false]
  have hn : pyNot 0 = -1 := rfl
  rw [hn, pyAnd_neg_one, pyAnd_zero, pyOr_zero]

end Amaranth
