import AmaranthVerif.Proofs.IoBufSelect

/-! # Facts about `slice.indices` / `range` as modelled in `Model/IoBuf.lean` (helper file of C18) -/

namespace Amaranth.IoBuf
namespace Py

theorem clip_bounds {n : Nat} {lower upper x : Int} (hl : lower ≤ upper) (hu : (n : Int) - 1 ≤ upper) (hl' : lower ≤ 0) :
    lower ≤ clip n lower upper x ∧ clip n lower upper x ≤ upper := by
  unfold clip
  split <;> split <;> omega

theorem sliceIndices_ok {n : Nat} {s e st : Option Int} {a b c : Int}
    (h : sliceIndices n s e st = .ok (a, b, c)) :
    c = st.getD 1 ∧ c ≠ 0 ∧
      (0 < c → 0 ≤ a ∧ a ≤ n ∧ 0 ≤ b ∧ b ≤ n) ∧
      (c < 0 → -1 ≤ a ∧ a ≤ (n : Int) - 1 ∧ -1 ≤ b ∧ b ≤ (n : Int) - 1) := by
  unfold sliceIndices at h
  simp only [] at h
  split at h
  · cases h
  · rename_i hst
    simp only [pure, Except.pure, Except.ok.injEq, Prod.mk.injEq] at h
    obtain ⟨ha, hb, hc⟩ := h
    subst hc
    refine ⟨rfl, hst, ?_, ?_⟩
    · intro hpos
      have hneg : ¬ (st.getD 1 < 0) := by omega
      simp only [hneg, if_false] at ha hb
      have cb := fun x => @clip_bounds n 0 n x (by omega) (by omega) (by omega)
      constructor
      · cases s <;> simp only [] at ha <;> subst ha
        · omega
        · exact (cb _).1
      constructor
      · cases s <;> simp only [] at ha <;> subst ha
        · omega
        · exact (cb _).2
      constructor
      · cases e <;> simp only [] at hb <;> subst hb
        · omega
        · exact (cb _).1
      · cases e <;> simp only [] at hb <;> subst hb
        · omega
        · exact (cb _).2
    · intro hneg
      simp only [hneg, if_true] at ha hb
      have cb := fun x => @clip_bounds n (-1) ((n : Int) - 1) x (by omega) (by omega) (by omega)
      constructor
      · cases s <;> simp only [] at ha <;> subst ha
        · omega
        · exact (cb _).1
      constructor
      · cases s <;> simp only [] at ha <;> subst ha
        · omega
        · exact (cb _).2
      constructor
      · cases e <;> simp only [] at hb <;> subst hb
        · omega
        · exact (cb _).1
      · cases e <;> simp only [] at hb <;> subst hb
        · omega
        · exact (cb _).2

theorem sliceIndices_error {n : Nat} {s e st : Option Int} {err : Err}
    (h : sliceIndices n s e st = .error err) : err = .valueError := by
  unfold sliceIndices at h
  simp only [] at h
  split at h
  · cases h; rfl
  · cases h

/-- every element of `range(a, b, c)` lies between the bounds -/
theorem mem_range {a b c i : Int} (h : i ∈ range a b c) :
    (0 < c → a ≤ i ∧ i < b) ∧ (c < 0 → b < i ∧ i ≤ a) := by
  unfold range at h
  rw [List.mem_map] at h
  obtain ⟨k, hk, rfl⟩ := h
  rw [List.mem_range] at hk
  unfold rangeLen at hk
  constructor
  · intro hc
    simp only [hc, if_true] at hk
    split at hk
    · rename_i hab
      have h1 : (k : Int) ≤ (b - a - 1) / c := by omega
      have h2 : (k : Int) * c ≤ (b - a - 1) / c * c := Int.mul_le_mul_of_nonneg_right h1 (by omega)
      have h3 : (b - a - 1) / c * c ≤ b - a - 1 := Int.ediv_mul_le _ (by omega)
      have h4 : 0 ≤ (k : Int) * c := Int.mul_nonneg (by omega) (by omega)
      omega
    · omega
  · intro hc
    have hnp : ¬ (0 < c) := by omega
    simp only [hnp, if_false, hc, if_true] at hk
    split at hk
    · rename_i hab
      have h1 : (k : Int) ≤ (a - b - 1) / (-c) := by omega
      have h2 : (k : Int) * (-c) ≤ (a - b - 1) / (-c) * (-c) := Int.mul_le_mul_of_nonneg_right h1 (by omega)
      have h3 : (a - b - 1) / (-c) * (-c) ≤ a - b - 1 := Int.ediv_mul_le _ (by omega)
      have h4 : 0 ≤ (k : Int) * (-c) := Int.mul_nonneg (by omega) (by omega)
      have h5 : (k : Int) * c = - ((k : Int) * (-c)) := by rw [Int.mul_neg]; omega
      omega
    · omega

/-- a unit-step range is a run of consecutive integers -/
theorem range_one {a b : Int} (ha : 0 ≤ a) (hab : a ≤ b) :
    (range a b 1).map Int.toNat = List.range' a.toNat (b - a).toNat := by
  unfold range rangeLen
  simp only [List.map_map, List.range'_eq_map_range]
  have hlen : (if (0 : Int) < 1 then (if a < b then ((b - a - 1) / 1 + 1).toNat else 0)
      else if (1 : Int) < 0 then (if b < a then ((a - b - 1) / (-1) + 1).toNat else 0) else 0) = (b - a).toNat := by
    simp only [show (0 : Int) < 1 by omega, if_true, Int.ediv_one]
    split <;> omega
  rw [hlen]
  apply List.map_congr_left
  intro k _
  simp only [Function.comp]
  omega

end Py
end Amaranth.IoBuf
