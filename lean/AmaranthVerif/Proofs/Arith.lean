import AmaranthVerif.Proofs.ShapeLemmas

/-! # Arithmetic helper lemmas: slices of congruent values, concatenation, popcount -/

namespace Amaranth

/-- bits `[s, s+n)` only depend on the value modulo `2^w` when `s + n ≤ w` -/
theorem slice_congr {a b : Int} {w s n : Nat} (h : a % 2 ^ w = b % 2 ^ w) (hle : s + n ≤ w) :
    (a / 2 ^ s) % 2 ^ n = (b / 2 ^ s) % 2 ^ n := by
  have hps := two_pow_pos' s
  have hpn := two_pow_pos' n
  -- a = b + k * 2^w
  have ha := Int.emod_add_mul_ediv a (2 ^ w)
  have hb := Int.emod_add_mul_ediv b (2 ^ w)
  have e : (2 : Int) ^ w = 2 ^ s * (2 ^ n * 2 ^ (w - s - n)) := by
    rw [← two_pow_add', ← two_pow_add']; congr 1; omega
  have hab : a = b + 2 ^ s * ((2 ^ n * 2 ^ (w - s - n)) * (a / 2 ^ w - b / 2 ^ w)) := by
    rw [← Int.mul_assoc, ← e, Int.mul_sub]; omega
  rw [hab, Int.add_mul_ediv_left _ _ (Int.ne_of_gt hps)]
  rw [Int.mul_assoc, Int.add_mul_emod_self_left]

theorem emod_emod_pow (v : Int) (w : Nat) : v % 2 ^ w % 2 ^ w = v % 2 ^ w :=
  Int.emod_emod_of_dvd _ (Int.dvd_refl _)

/-- `x | (y << k)` is `x + y * 2^k` when `x < 2^k` -/
theorem pyOr_shl (x y : Nat) (k : Nat) (hx : x < 2 ^ k) :
    pyOr (x : Int) (pyShl (y : Int) k) = (x : Int) + 2 ^ k * (y : Int) := by
  have e : pyShl (y : Int) k = ((y * 2 ^ k : Nat) : Int) := by
    unfold pyShl; push_cast; rfl
  rw [e]
  show ((x ||| y * 2 ^ k : Nat) : Int) = _
  have h := Nat.shiftLeft_add_eq_or_of_lt hx y
  rw [Nat.shiftLeft_eq] at h
  rw [Nat.or_comm, ← h]
  push_cast
  rw [Int.mul_comm]; omega

theorem pyShl_zero (x : Int) : pyShl x 0 = x := by
  unfold pyShl; simp

theorem pyOr_zero_left (x : Nat) : pyOr 0 (x : Int) = (x : Int) := by
  show ((0 ||| x : Nat) : Int) = _
  rw [Nat.zero_or]

/-- the concatenation of two masked parts -/
theorem cat_value (ra rb : Int) (wa wb : Nat) :
    pyOr (pyShl (mask wa ra) 0) (pyShl (mask wb rb) wa) = mask wa ra + 2 ^ wa * mask wb rb := by
  obtain ⟨A, hA⟩ := Int.eq_ofNat_of_zero_le (mask_nonneg wa ra)
  obtain ⟨B, hB⟩ := Int.eq_ofNat_of_zero_le (mask_nonneg wb rb)
  have hlt : A < 2 ^ wa := by
    have := mask_lt wa ra; rw [hA] at this; exact_mod_cast this
  rw [pyShl_zero, hA, hB]
  exact pyOr_shl A B wa hlt

theorem cat_lt (x y : Int) (wa wb : Nat) (hx0 : 0 ≤ x) (hx : x < 2 ^ wa) (hy0 : 0 ≤ y) (hy : y < 2 ^ wb) :
    0 ≤ x + 2 ^ wa * y ∧ x + 2 ^ wa * y < 2 ^ (wa + wb) := by
  have pa := two_pow_pos' wa
  rw [two_pow_add']
  constructor
  · have := Int.mul_nonneg (Int.le_of_lt pa) hy0; omega
  · have : 2 ^ wa * y ≤ 2 ^ wa * (2 ^ wb - 1) := Int.mul_le_mul_of_nonneg_left (by omega) (Int.le_of_lt pa)
    rw [Int.mul_sub, Int.mul_one] at this
    omega

end Amaranth
