import AmaranthVerif.Proofs.EngineTick

/-!
# A tick wait inside `advance()`

`settle_tick` follows the waiting testbench through `step_design()`. Here the rest of
`PySimEngine.advance()` is added: the testbenches that take their turn before it do not disturb it,
its own turn records what the wait returned, and nothing that follows removes an observation.
-/

namespace Amaranth.Engine
open Amaranth

/-! ## `now` and the observations through `step_design()` -/

theorem commit_now (ps : List ProcDef) (order : List Nat) (s : EState) : (commit ps order s).now = s.now := by
  unfold commit
  induction order generalizing s with
  | nil => rfl
  | cons i rest ih =>
    simp only [List.foldl_cons]; rw [ih]
    unfold commitSlot; simp only; split <;> rfl

theorem runProcs_now (ps : List ProcDef) (order : List Nat) (s : EState) : (runProcs ps order s).now = s.now := by
  unfold runProcs
  induction order generalizing s with
  | nil => rfl
  | cons i rest ih =>
    simp only [List.foldl_cons]; rw [ih]
    unfold stepProc; exact applyEffect_now _ _ _

theorem delta_now (ps : List ProcDef) (o : Orders) (s : EState) : (delta ps o s).1.now = s.now := by
  unfold delta
  show (commit ps o.slots (runProcs ps o.procs (trigPhase ps s))).now = s.now
  rw [commit_now, runProcs_now, trigPhase_now]

theorem settle_now (ps : List ProcDef) (sched : Sched) (fuel : Nat) (s : EState) :
    (settle ps sched fuel s).1.now = s.now := by
  induction fuel generalizing s with
  | zero => rfl
  | succ n ih =>
    simp only [settle]
    split
    · exact delta_now ps _ s
    · rw [ih]; exact delta_now ps _ s

theorem settle_obs (ps : List ProcDef) (sched : Sched) (fuel : Nat) (s : EState) :
    (settle ps sched fuel s).1.obs = s.obs := by
  induction fuel generalizing s with
  | zero => rfl
  | succ n ih =>
    simp only [settle]
    split
    · exact delta_obs ps _ s
    · rw [ih]; exact delta_obs ps _ s

/-! ## What a testbench's run may change -/

/-- Every step of `tbExec` for testbench `t` is either `step_design()` or a change that keeps `curr`,
`now` and every other owner's state and only adds observations: any reflexive, transitive relation
containing those steps relates the state before to the state after. -/
theorem tbExec_rel (S : Sim) (t : Nat) (R : EState → EState → Prop)
    (hrefl : ∀ s, R s s) (htrans : ∀ {a b c}, R a b → R b c → R a c)
    (hprim : ∀ s s' : EState, s'.curr = s.curr → s'.now = s.now →
      (∀ p, p ≠ S.nproc + t → s'.locals[p]? = s.locals[p]?) → (∃ r, s'.obs = r ++ s.obs) → R s s')
    (hstep : ∀ s, R s (S.step s)) (script : List TbOp) :
    ∀ fuel s, R s (tbExec S t script fuel s) := by
  intro fuel
  induction fuel with
  | zero => intro s; exact hrefl s
  | succ n ih =>
    intro s
    have hset : ∀ (z : EState) (l : Local), R z (setLoc z (S.nproc + t) l) := fun z l =>
      hprim z _ rfl rfl (fun p hp => List.getElem?_set_ne (Ne.symm hp)) ⟨[], rfl⟩
    cases hop : script[(getLoc s (S.nproc + t)).pc]? with
    | none =>
      simp only [tbExec, hop]
      exact hset _ _
    | some op =>
      by_cases hrep : (getLoc s (S.nproc + t)).report = true
      · simp only [tbExec, hop, hrep, if_true]
        refine htrans (htrans ?_ (hset _ _)) (ih _)
        exact hprim s _ rfl rfl (fun _ _ => rfl) ⟨[_], rfl⟩
      · have hrep : (getLoc s (S.nproc + t)).report = false := by simpa using hrep
        cases op with
        | set tgt v =>
          simp only [tbExec, hop, hrep, Bool.false_eq_true, if_false]
          refine htrans (htrans (htrans ?_ (hstep _)) (hset _ _)) (ih _)
          exact hprim s _ rfl rfl (fun _ _ => rfl) ⟨[], rfl⟩
        | setFrom tgt e =>
          simp only [tbExec, hop, hrep, Bool.false_eq_true, if_false]
          refine htrans (htrans (htrans ?_ (hstep _)) (hset _ _)) (ih _)
          exact hprim s _ rfl rfl (fun _ _ => rfl) ⟨[], rfl⟩
        | get e =>
          simp only [tbExec, hop, hrep, Bool.false_eq_true, if_false]
          refine htrans (htrans ?_ (hset _ _)) (ih _)
          exact hprim s _ rfl rfl (fun _ _ => rfl) ⟨[_], rfl⟩
        | tick d es =>
          simp only [tbExec, hop, hrep, Bool.false_eq_true, if_false]
          split
          · exact hprim s _ rfl rfl (fun p hp => List.getElem?_set_ne (Ne.symm hp)) ⟨[], rfl⟩
          · exact hset _ _
        | wait tr =>
          simp only [tbExec, hop, hrep, Bool.false_eq_true, if_false]
          split
          · exact hprim s _ rfl rfl (fun p hp => List.getElem?_set_ne (Ne.symm hp)) ⟨[], rfl⟩
          · exact hset _ _

theorem tbTurn_rel (S : Sim) (t : Nat) (R : EState → EState → Prop)
    (hrefl : ∀ s, R s s) (htrans : ∀ {a b c}, R a b → R b c → R a c)
    (hprim : ∀ s s' : EState, s'.curr = s.curr → s'.now = s.now →
      (∀ p, p ≠ S.nproc + t → s'.locals[p]? = s.locals[p]?) → (∃ r, s'.obs = r ++ s.obs) → R s s')
    (hstep : ∀ s, R s (S.step s)) (acc : EState × Bool) : R acc.1 (tbTurn S acc t).1 := by
  unfold tbTurn
  simp only
  split
  · refine htrans ?_ (tbExec_rel S t R hrefl htrans hprim hstep _ _ _)
    exact hprim _ _ rfl rfl (fun p hp => List.getElem?_set_ne (Ne.symm hp)) ⟨[], rfl⟩
  · exact hrefl _

/-- observations are only ever added -/
def ObsExt (s s' : EState) : Prop := ∃ r, s'.obs = r ++ s.obs

theorem ObsExt.refl (s : EState) : ObsExt s s := ⟨[], rfl⟩

theorem ObsExt.trans {a b c : EState} (h1 : ObsExt a b) (h2 : ObsExt b c) : ObsExt a c := by
  obtain ⟨r1, e1⟩ := h1
  obtain ⟨r2, e2⟩ := h2
  exact ⟨r2 ++ r1, by rw [e2, e1, List.append_assoc]⟩

theorem ObsExt.mem {a b : EState} (h : ObsExt a b) {x : Obs} (hx : x ∈ a.obs) : x ∈ b.obs := by
  obtain ⟨r, e⟩ := h
  rw [e]; exact List.mem_append_right _ hx

theorem tbTurns_obsExt (S : Sim) (hstep : ∀ s, (S.step s).obs = s.obs) (ts : List Nat) (acc : EState × Bool) :
    ObsExt acc.1 (ts.foldl (tbTurn S) acc).1 := by
  induction ts generalizing acc with
  | nil => exact ObsExt.refl _
  | cons t rest ih =>
    simp only [List.foldl_cons]
    refine ObsExt.trans ?_ (ih _)
    exact tbTurn_rel S t ObsExt ObsExt.refl ObsExt.trans (fun _ _ _ _ _ h => h)
      (fun s => ⟨[], by rw [hstep]; rfl⟩) acc

theorem tbLoop_obsExt (S : Sim) (hstep : ∀ s, (S.step s).obs = s.obs) (fuel : Nat) (s : EState) :
    ObsExt s (tbLoop S fuel s) := by
  induction fuel generalizing s with
  | zero => exact ObsExt.refl s
  | succ n ih =>
    simp only [tbLoop]
    have h1 : ObsExt s (tbPass S s).1 := by
      rw [tbPass_eq]; exact tbTurns_obsExt S hstep _ (s, false)
    split
    · exact h1.trans (ih _)
    · exact h1

theorem tbLoop_succ (S : Sim) (n : Nat) (s : EState) :
    tbLoop S (n + 1) s = if (tbPass S s).2 then tbLoop S n (tbPass S s).1 else (tbPass S s).1 := rfl

/-! ## The testbench's own turn -/

/-- an idle testbench `o` is left alone by the turns of the other testbenches, which also keep `now` -/
def KeepsIdle (o : Nat) (l' : Local) (s s' : EState) : Prop :=
  (s.locals[o]? = some l' → s'.locals[o]? = some l') ∧ s'.now = s.now ∧ ObsExt s s'

theorem KeepsIdle.refl (o : Nat) (l' : Local) (s : EState) : KeepsIdle o l' s s := ⟨id, rfl, ObsExt.refl s⟩

theorem KeepsIdle.trans {o : Nat} {l' : Local} {a b c : EState} (h1 : KeepsIdle o l' a b) (h2 : KeepsIdle o l' b c) :
    KeepsIdle o l' a c :=
  ⟨fun h => h2.1 (h1.1 h), h2.2.1.trans h1.2.1, h1.2.2.trans h2.2.2⟩

/-- In a pass over the testbenches `ts` that contains `t`: if testbench `t` is runnable and has to report
the result of the wait at `pc`, and the earlier testbenches leave it alone, the pass records
`(t, now, shown result)`. -/
theorem tbTurns_reports (S : Sim) (t : Nat) (script : List TbOp) (hsc : S.scripts.getD t [] = script)
    (l' : Local) (op : TbOp) (hop : script[l'.pc]? = some op)
    (hrun : l'.runnable = true) (hrep : l'.report = true)
    (hobs : ∀ s, (S.step s).obs = s.obs) (hnow : ∀ s, (S.step s).now = s.now)
    (hidle : ∀ s, s.locals[S.nproc + t]? = some l' → (S.step s).locals[S.nproc + t]? = some l')
    (ts : List Nat) (hm : t ∈ ts) (acc : EState × Bool) (hl : acc.1.locals[S.nproc + t]? = some l') :
    (t, acc.1.now, op.shown l'.result) ∈ (ts.foldl (tbTurn S) acc).1.obs := by
  induction ts generalizing acc with
  | nil => cases hm
  | cons t' rest ih =>
    simp only [List.foldl_cons]
    by_cases ht : t' = t
    · subst ht
      refine (tbTurns_obsExt S hobs rest _).mem ?_
      have hg : getLoc acc.1 (S.nproc + t') = l' := by
        simp [getLoc, List.getD_eq_getElem?_getD, hl]
      have hlt : S.nproc + t' < acc.1.locals.length := (List.getElem?_eq_some_iff.mp hl).1
      unfold tbTurn
      simp only [hg, hrun, if_true, hsc]
      have hg2 : getLoc (setLoc acc.1 (S.nproc + t') { l' with runnable := false }) (S.nproc + t') =
          { l' with runnable := false } := by
        simp [getLoc, setLoc, List.getD_eq_getElem?_getD, List.getElem?_set_self hlt]
      rw [show 2 * script.length + 2 = (2 * script.length + 1) + 1 from rfl]
      rw [tbExec_report S t' script _ _ op (by rw [hg2]; exact hop) (by rw [hg2]; exact hrep)]
      refine (tbExec_rel S t' ObsExt ObsExt.refl ObsExt.trans (fun _ _ _ _ _ h => h)
        (fun s => ⟨[], by rw [hobs]; rfl⟩) script _ _).mem ?_
      rw [hg2]
      exact List.mem_cons_self ..
    · have hm' : t ∈ rest := by
        rcases List.mem_cons.mp hm with h | h
        · exact absurd h.symm ht
        · exact h
      have hne : S.nproc + t' ≠ S.nproc + t := by omega
      have hk : KeepsIdle (S.nproc + t) l' acc.1 (tbTurn S acc t').1 := by
        apply tbTurn_rel S t' (KeepsIdle (S.nproc + t) l') (KeepsIdle.refl _ _) KeepsIdle.trans
        · intro s s' _ hn hloc hobs'
          exact ⟨fun h => by rw [hloc _ (Ne.symm hne)]; exact h, hn, hobs'⟩
        · intro s
          exact ⟨hidle s, hnow s, ⟨[], by rw [hobs]; rfl⟩⟩
      have := ih hm' (tbTurn S acc t') (hk.1 hl)
      rw [hk.2.1] at this
      exact this

/-! ## `advance()` -/

theorem simDefs_tbDef (D : Design) (kinds : List ProcKind) (scripts : List (List TbOp)) (t : Nat) (script : List TbOp)
    (h : scripts[t]? = some script) :
    (simDefs D kinds scripts)[kinds.length + t]? = some (tbDef D.ctx D.doms script) := by
  unfold simDefs
  rw [List.getElem?_append_right (by simp), List.getElem?_map]
  simp [h]

/-- **Tick sampling, end to end on `advance()`.** Let `s` be a state in which testbench `t` of a
simulation is suspended on `await ctx.tick(d).sample(*es)`, and let the first delta of this
`advance()` commit the active clock edge of domain `d` (a clock process is due, or a testbench has
just written the clock). Then this `advance()` records, for testbench `t` and at the current time,
the observation `(1, rst, *es evaluated in c₁)` where `c₁` is `curr` right after the commit of the
edge's delta; and every signal that is not pending at that commit — the registers clocked by the
edge — has in `c₁` the value it had before the edge. -/
theorem advance_tick (D : Design) (kinds : List ProcKind) (scripts : List (List TbOp)) (sched : Sched) (f : Nat)
    (t : Nat) (script : List TbOp) (hsc : scripts[t]? = some script)
    (d : Nat) (es : List Expr) (s : EState) (l : Local)
    (hl : s.locals[kinds.length + t]? = some l) (hop : script[l.pc]? = some (.tick d es)) (hw : l.waiting = true)
    (ha : l.active = false) (hrep : l.report = true)
    (hlen : l.hits.length = (tickTrigger (D.doms.getD d default) es).length)
    (hno : ∀ k, ∀ p ∈ (sched k).procs, p < kinds.length)
    (hclk : (D.doms.getD d default).clk ∈ (sched s.deltas).slots)
    (hedge : (bitOf (s.curr.val (D.doms.getD d default).clk) 0 !=
                bitOf ((runProcs (simDefs D kinds scripts) (sched s.deltas).procs
                  (trigPhase (simDefs D kinds scripts) s)).next.val (D.doms.getD d default).clk) 0 &&
              bitOf ((runProcs (simDefs D kinds scripts) (sched s.deltas).procs
                  (trigPhase (simDefs D kinds scripts) s)).next.val (D.doms.getD d default).clk) 0 ==
                (D.doms.getD d default).posedge) = true) :
    let c₁ := (delta (simDefs D kinds scripts) (sched s.deltas) s).1.curr
    (∃ rst, (t, s.now, 1 :: rst :: es.map (evalTb D.ctx c₁)) ∈ (advance (mkSim D kinds scripts sched (f + 2)) s).1.obs) ∧
    (∀ i, (runProcs (simDefs D kinds scripts) (sched s.deltas).procs
        (trigPhase (simDefs D kinds scripts) s)).next.val i = s.curr.val i → c₁.val i = s.curr.val i) := by
  intro c₁
  have hdef := simDefs_tbDef D kinds scripts t script hsc
  have hno' : ∀ k, kinds.length + t ∉ (sched k).procs := fun k hm => by have := hno k _ hm; omega
  obtain ⟨⟨l', rst, hl', hrun', hw', ha', hrep', hpc', hres⟩, hpre⟩ :=
    settle_tick (simDefs D kinds scripts) D.ctx D.doms script (kinds.length + t) hdef d es s l hl hop hw ha hlen
      sched hno' hclk hedge f
  refine ⟨⟨rst, ?_⟩, hpre⟩
  have hobs : ∀ z, ((mkSim D kinds scripts sched (f + 2)).step z).obs = z.obs := fun z => settle_obs _ _ _ z
  have hnow : ∀ z, ((mkSim D kinds scripts sched (f + 2)).step z).now = z.now := fun z => settle_now _ _ _ z
  have hidle : ∀ z, z.locals[kinds.length + t]? = some l' →
      ((mkSim D kinds scripts sched (f + 2)).step z).locals[kinds.length + t]? = some l' := fun z hz =>
    settle_tb_idle _ D.ctx D.doms script _ hdef sched hno' _ z l' hz hw' ha'
  have ht : t < scripts.length := (List.getElem?_eq_some_iff.mp hsc).1
  have hscD : (mkSim D kinds scripts sched (f + 2)).scripts.getD t [] = script := by
    show scripts.getD t [] = script
    rw [List.getD_eq_getElem?_getD, hsc]; rfl
  -- the first pass over the testbenches records the observation
  have hpass := tbTurns_reports (mkSim D kinds scripts sched (f + 2)) t script hscD l' (.tick d es)
    (by rw [hpc']; exact hop) hrun' (by rw [hrep']; exact hrep) hobs hnow hidle
    (List.range scripts.length) (List.mem_range.mpr ht)
    ((settle (simDefs D kinds scripts) sched (f + 2) s).1, false) hl'
  rw [hres] at hpass
  have hnow1 : (settle (simDefs D kinds scripts) sched (f + 2) s).1.now = s.now := settle_now _ _ _ s
  simp only [hnow1] at hpass
  -- nothing that follows removes it
  unfold advance
  simp only
  show _ ∈ (advanceTime _ (tbLoop _ (f + 2) _)).1.obs
  have hkeep : ∀ z, (advanceTime (mkSim D kinds scripts sched (f + 2)).defs z).1.obs = z.obs := by
    intro z
    rcases advanceTime_spec (mkSim D kinds scripts sched (f + 2)).defs z with ⟨e, _⟩ | ⟨_, _, _, _, _, _, _, _, _, h, _⟩
    · rw [e]
    · exact h
  rw [hkeep]
  rw [show f + 2 = (f + 1) + 1 from rfl, tbLoop_succ]
  split
  · exact (tbLoop_obsExt _ hobs _ _).mem hpass
  · exact hpass

/-! ## Pre-edge values -/

/-- the testbench-side value of an expression depends only on the signals it mentions -/
theorem evalTb_congr (ctx : Ctx) (env env' : Env) (e : Expr)
    (h : ∀ i ∈ exprSigs e, env.val i = env'.val i) : evalTb ctx env e = evalTb ctx env' e := by
  induction e with
  | const v s => rfl
  | sig i => exact h i (by simp [exprSigs])
  | op1 o a ih =>
    simp only [evalTb]
    rw [ih (fun i hi => h i (by simpa [exprSigs] using hi))]
  | op2 o a b iha ihb =>
    simp only [evalTb]
    rw [iha (fun i hi => h i (by simp [exprSigs, hi])), ihb (fun i hi => h i (by simp [exprSigs, hi]))]
  | slice a s t ih =>
    simp only [evalTb]
    rw [ih (fun i hi => h i (by simpa [exprSigs] using hi))]
  | part a off w st iha ihb =>
    simp only [evalTb]
    rw [iha (fun i hi => h i (by simp [exprSigs, hi])), ihb (fun i hi => h i (by simp [exprSigs, hi]))]
  | cat lo hi iha ihb =>
    simp only [evalTb]
    rw [iha (fun i hi => h i (by simp [exprSigs, hi])), ihb (fun i hi => h i (by simp [exprSigs, hi]))]
  | ite t pats a b iht iha ihb =>
    simp only [evalTb]
    rw [iht (fun i hi => h i (by simp [exprSigs, hi])), iha (fun i hi => h i (by simp [exprSigs, hi])),
      ihb (fun i hi => h i (by simp [exprSigs, hi]))]

/-- `advance_tick` when no signal of the sampled expressions is pending at the edge's commit (registers
of the domain, and everything computed from them: their processes have not run yet): the tick returns
the values the expressions had *before* the edge -/
theorem advance_tick_pre_edge (D : Design) (kinds : List ProcKind) (scripts : List (List TbOp)) (sched : Sched) (f : Nat)
    (t : Nat) (script : List TbOp) (hsc : scripts[t]? = some script)
    (d : Nat) (es : List Expr) (s : EState) (l : Local)
    (hl : s.locals[kinds.length + t]? = some l) (hop : script[l.pc]? = some (.tick d es)) (hw : l.waiting = true)
    (ha : l.active = false) (hrep : l.report = true)
    (hlen : l.hits.length = (tickTrigger (D.doms.getD d default) es).length)
    (hno : ∀ k, ∀ p ∈ (sched k).procs, p < kinds.length)
    (hclk : (D.doms.getD d default).clk ∈ (sched s.deltas).slots)
    (hedge : (bitOf (s.curr.val (D.doms.getD d default).clk) 0 !=
                bitOf ((runProcs (simDefs D kinds scripts) (sched s.deltas).procs
                  (trigPhase (simDefs D kinds scripts) s)).next.val (D.doms.getD d default).clk) 0 &&
              bitOf ((runProcs (simDefs D kinds scripts) (sched s.deltas).procs
                  (trigPhase (simDefs D kinds scripts) s)).next.val (D.doms.getD d default).clk) 0 ==
                (D.doms.getD d default).posedge) = true)
    (hquiet : ∀ e ∈ es, ∀ i ∈ exprSigs e, (runProcs (simDefs D kinds scripts) (sched s.deltas).procs
        (trigPhase (simDefs D kinds scripts) s)).next.val i = s.curr.val i) :
    ∃ rst, (t, s.now, 1 :: rst :: es.map (evalTb D.ctx s.curr)) ∈ (advance (mkSim D kinds scripts sched (f + 2)) s).1.obs := by
  obtain ⟨⟨rst, h⟩, hpre⟩ := advance_tick D kinds scripts sched f t script hsc d es s l hl hop hw ha hrep hlen hno hclk hedge
  refine ⟨rst, ?_⟩
  have e : es.map (evalTb D.ctx (delta (simDefs D kinds scripts) (sched s.deltas) s).1.curr) = es.map (evalTb D.ctx s.curr) := by
    apply List.map_congr_left
    intro x hx
    exact evalTb_congr D.ctx _ _ x (fun i hi => hpre i (hquiet x hx i hi))
  rw [e] at h
  exact h

end Amaranth.Engine
