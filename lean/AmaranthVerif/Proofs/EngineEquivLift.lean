import AmaranthVerif.Proofs.EngineEquivBase

/-!
# Two simulations related state by state

`SimRel SA SB R W`: a relation `R` between the states of two simulations that (i) forces equal
`curr`, `next`, `now`, `obs`, `timers` and equal testbench owners, (ii) is kept by everything a
testbench's run does on both sides at once (writes through targets satisfying `W`), by
`step_design()` and by the timeline step. Then it is kept by `tbExec`, a pass, `advance()`, `run()`
and `run_until()`: the two simulations make the same observations and end with the same values.
-/

namespace Amaranth.Engine
open Amaranth

/-! ## `tbExec`, one operation at a time -/

theorem tbExec_setFrom (S : Sim) (t : Nat) (script : List TbOp) (n : Nat) (s : EState) (tgt : Expr) (e : Expr)
    (hop : script[(getLoc s (S.nproc + t)).pc]? = some (.setFrom tgt e)) (hrep : (getLoc s (S.nproc + t)).report = false) :
    tbExec S t script (n + 1) s =
      tbExec S t script n
        (setLoc (S.step { s with next := assignTbG true S.ctx s.curr tgt 0 (evalTb S.ctx s.curr e) (widthOf S.ctx tgt) s.next })
          (S.nproc + t)
          { getLoc (S.step { s with next := assignTbG true S.ctx s.curr tgt 0 (evalTb S.ctx s.curr e) (widthOf S.ctx tgt) s.next })
              (S.nproc + t)
            with pc := (getLoc s (S.nproc + t)).pc + 1 }) := by
  simp only [tbExec, hop, hrep, Bool.false_eq_true, if_false]

/-- the local state of a testbench that has just awaited trigger `tr` -/
def awaitLoc (l : Local) (tr : Trigger) : Local :=
  { l with waiting := true, report := true, active := false, hits := List.replicate tr.length false }

/-- the state in which a testbench is suspended on trigger `tr` -/
def awaitState (S : Sim) (t : Nat) (s : EState) (tr : Trigger) : EState :=
  match tr.delay? with
  | some n =>
    { (setLoc s (S.nproc + t) (awaitLoc (getLoc s (S.nproc + t)) tr)) with
      timers := s.timers.set (S.nproc + t) (some (s.now + n)) }
  | none => setLoc s (S.nproc + t) (awaitLoc (getLoc s (S.nproc + t)) tr)

theorem tbExec_tick (S : Sim) (t : Nat) (script : List TbOp) (n : Nat) (s : EState) (d : Nat) (es : List Expr)
    (hop : script[(getLoc s (S.nproc + t)).pc]? = some (.tick d es)) (hrep : (getLoc s (S.nproc + t)).report = false) :
    tbExec S t script (n + 1) s = awaitState S t s (((TbOp.tick d es).trigger S.doms).getD []) := by
  simp only [tbExec, hop, hrep, Bool.false_eq_true, if_false, awaitState, awaitLoc]
  cases ((TbOp.trigger S.doms (TbOp.tick d es)).getD []).delay? <;> rfl

theorem tbExec_wait (S : Sim) (t : Nat) (script : List TbOp) (n : Nat) (s : EState) (tr : Trigger)
    (hop : script[(getLoc s (S.nproc + t)).pc]? = some (.wait tr)) (hrep : (getLoc s (S.nproc + t)).report = false) :
    tbExec S t script (n + 1) s = awaitState S t s (((TbOp.wait tr).trigger S.doms).getD []) := by
  simp only [tbExec, hop, hrep, Bool.false_eq_true, if_false, awaitState, awaitLoc]
  cases ((TbOp.trigger S.doms (TbOp.wait tr)).getD []).delay? <;> rfl

/-! ## Related simulations -/

/-- the targets of the writes in a script satisfy `W` -/
def ScriptWrites (W : Expr → Prop) (script : List TbOp) : Prop :=
  ∀ op ∈ script, match op with
    | .set tgt _ => W tgt
    | .setFrom tgt _ => W tgt
    | _ => True

structure SimRel (SA SB : Sim) (R : EState → EState → Prop) (W : Expr → Prop) : Prop where
  ctx : SB.ctx = SA.ctx
  doms : SB.doms = SA.doms
  scripts : SB.scripts = SA.scripts
  fuel : SB.fuel = SA.fuel
  curr : ∀ a b, R a b → b.curr = a.curr
  next : ∀ a b, R a b → b.next = a.next
  now : ∀ a b, R a b → b.now = a.now
  obs : ∀ a b, R a b → b.obs = a.obs
  loc : ∀ a b t, R a b → getLoc b (SB.nproc + t) = getLoc a (SA.nproc + t)
  setLoc : ∀ a b t l, R a b → R (setLoc a (SA.nproc + t) l) (setLoc b (SB.nproc + t) l)
  addObs : ∀ a b x, R a b → R { a with obs := x :: a.obs } { b with obs := x :: b.obs }
  setTimer : ∀ a b t x, R a b →
    R { a with timers := a.timers.set (SA.nproc + t) x } { b with timers := b.timers.set (SB.nproc + t) x }
  write : ∀ a b tgt v, R a b → W tgt →
    R { a with next := assignTbG true SA.ctx a.curr tgt 0 v (widthOf SA.ctx tgt) a.next }
      { b with next := assignTbG true SA.ctx a.curr tgt 0 v (widthOf SA.ctx tgt) b.next }
  step : ∀ a b, R a b → R (SA.step a) (SB.step b)
  time : ∀ a b, R a b → R (advanceTime SA.defs a).1 (advanceTime SB.defs b).1
  scriptsOk : ∀ sc ∈ SA.scripts, ScriptWrites W sc

section lift
variable {SA SB : Sim} {R : EState → EState → Prop} {W : Expr → Prop} (h : SimRel SA SB R W)
include h

theorem tbExec_rel2 (t : Nat) (script : List TbOp) (hsc : ScriptWrites W script) :
    ∀ fuel a b, R a b → R (tbExec SA t script fuel a) (tbExec SB t script fuel b) := by
  intro fuel
  induction fuel with
  | zero => intro a b hr; exact hr
  | succ n ih =>
    intro a b hr
    have hl : getLoc b (SB.nproc + t) = getLoc a (SA.nproc + t) := h.loc a b t hr
    have hcurr := h.curr a b hr
    have hnow := h.now a b hr
    cases hop : script[(getLoc a (SA.nproc + t)).pc]? with
    | none =>
      rw [tbExec_end SA t script n a hop, tbExec_end SB t script n b (by rw [hl]; exact hop), hl]
      exact h.setLoc a b t _ hr
    | some op =>
      have hmem : op ∈ script := List.mem_of_getElem? hop
      by_cases hrep : (getLoc a (SA.nproc + t)).report = true
      · rw [tbExec_report SA t script n a op hop hrep,
          tbExec_report SB t script n b op (by rw [hl]; exact hop) (by rw [hl]; exact hrep), hl]
        have hx : (t, b.now, op.shown (getLoc a (SA.nproc + t)).result) = (t, a.now, op.shown (getLoc a (SA.nproc + t)).result) := by
          rw [hnow]
        rw [hx]
        apply ih
        apply h.setLoc
        exact h.addObs a b _ hr
      · have hrep : (getLoc a (SA.nproc + t)).report = false := by simpa using hrep
        cases op with
        | set tgt v =>
          have hW : W tgt := hsc _ hmem
          rw [tbExec_set SA t script n a tgt v hop hrep,
            tbExec_set SB t script n b tgt v (by rw [hl]; exact hop) (by rw [hl]; exact hrep), hl, h.ctx]
          have hx : assignTbG true SA.ctx b.curr tgt 0 v (widthOf SA.ctx tgt) =
              assignTbG true SA.ctx a.curr tgt 0 v (widthOf SA.ctx tgt) := by rw [hcurr]
          rw [hx]
          have h1 := h.step _ _ (h.write a b tgt v hr hW)
          have hl2 := h.loc _ _ t h1
          rw [hl2]
          apply ih
          exact h.setLoc _ _ t _ h1
        | setFrom tgt e =>
          have hW : W tgt := hsc _ hmem
          rw [tbExec_setFrom SA t script n a tgt e hop hrep,
            tbExec_setFrom SB t script n b tgt e (by rw [hl]; exact hop) (by rw [hl]; exact hrep), hl, h.ctx]
          have hx : assignTbG true SA.ctx b.curr tgt 0 (evalTb SA.ctx b.curr e) (widthOf SA.ctx tgt) =
              assignTbG true SA.ctx a.curr tgt 0 (evalTb SA.ctx a.curr e) (widthOf SA.ctx tgt) := by rw [hcurr]
          rw [hx]
          have h1 := h.step _ _ (h.write a b tgt (evalTb SA.ctx a.curr e) hr hW)
          have hl2 := h.loc _ _ t h1
          rw [hl2]
          apply ih
          exact h.setLoc _ _ t _ h1
        | get e =>
          rw [tbExec_get SA t script n a e hop hrep,
            tbExec_get SB t script n b e (by rw [hl]; exact hop) (by rw [hl]; exact hrep), hl, h.ctx]
          have hx : (t, b.now, [evalTb SA.ctx b.curr e]) = (t, a.now, [evalTb SA.ctx a.curr e]) := by rw [hnow, hcurr]
          rw [hx]
          apply ih
          apply h.setLoc
          exact h.addObs a b _ hr
        | tick d es =>
          rw [tbExec_tick SA t script n a d es hop hrep,
            tbExec_tick SB t script n b d es (by rw [hl]; exact hop) (by rw [hl]; exact hrep), h.doms]
          unfold awaitState
          rw [hl]
          split
          · next m _ =>
            have hx : some (b.now + m) = some (a.now + m) := by rw [hnow]
            rw [hx]
            exact h.setTimer _ _ t (some (a.now + m)) (h.setLoc a b t _ hr)
          · exact h.setLoc a b t _ hr
        | wait tr =>
          rw [tbExec_wait SA t script n a tr hop hrep,
            tbExec_wait SB t script n b tr (by rw [hl]; exact hop) (by rw [hl]; exact hrep), h.doms]
          unfold awaitState
          rw [hl]
          split
          · next m _ =>
            have hx : some (b.now + m) = some (a.now + m) := by rw [hnow]
            rw [hx]
            exact h.setTimer _ _ t (some (a.now + m)) (h.setLoc a b t _ hr)
          · exact h.setLoc a b t _ hr

theorem getD_scriptsOk (t : Nat) : ScriptWrites W (SA.scripts.getD t []) := by
  rw [List.getD_eq_getElem?_getD]
  cases hs : SA.scripts[t]? with
  | none => intro op hop; simp at hop
  | some sc => exact h.scriptsOk sc (List.mem_of_getElem? hs)

theorem tbTurn_rel2 (t : Nat) (acc acc' : EState × Bool) (hr : R acc.1 acc'.1) (hf : acc'.2 = acc.2) :
    R (tbTurn SA acc t).1 (tbTurn SB acc' t).1 ∧ (tbTurn SB acc' t).2 = (tbTurn SA acc t).2 := by
  unfold tbTurn
  have hl : getLoc acc'.1 (SB.nproc + t) = getLoc acc.1 (SA.nproc + t) := h.loc _ _ t hr
  simp only [h.scripts]
  rw [hl]
  by_cases hrun : (getLoc acc.1 (SA.nproc + t)).runnable = true
  · simp only [hrun, if_true]
    refine ⟨?_, trivial⟩
    apply tbExec_rel2 h t _ (getD_scriptsOk h t)
    exact h.setLoc _ _ t _ hr
  · simp only [hrun]
    exact ⟨hr, hf⟩

theorem tbPass_rel2 (a b : EState) (hr : R a b) :
    R (tbPass SA a).1 (tbPass SB b).1 ∧ (tbPass SB b).2 = (tbPass SA a).2 := by
  rw [tbPass_eq, tbPass_eq, h.scripts]
  generalize List.range SA.scripts.length = ts
  suffices hh : ∀ (acc acc' : EState × Bool), R acc.1 acc'.1 → acc'.2 = acc.2 →
      R (ts.foldl (tbTurn SA) acc).1 (ts.foldl (tbTurn SB) acc').1 ∧
      (ts.foldl (tbTurn SB) acc').2 = (ts.foldl (tbTurn SA) acc).2 from hh (a, false) (b, false) hr rfl
  induction ts with
  | nil => intro acc acc' hr hf; exact ⟨hr, hf⟩
  | cons t rest ih =>
    intro acc acc' hr hf
    simp only [List.foldl_cons]
    obtain ⟨h1, h2⟩ := tbTurn_rel2 h t acc acc' hr hf
    exact ih _ _ h1 h2

theorem tbLoop_rel2 (fuel : Nat) (a b : EState) (hr : R a b) : R (tbLoop SA fuel a) (tbLoop SB fuel b) := by
  induction fuel generalizing a b with
  | zero => exact hr
  | succ n ih =>
    rw [tbLoop_succ, tbLoop_succ]
    obtain ⟨h1, h2⟩ := tbPass_rel2 h a b hr
    rw [h2]
    split
    · exact ih _ _ h1
    · exact h1

theorem anyCritical_rel2 (a b : EState) (hr : R a b) : anyCritical SB b = anyCritical SA a := by
  unfold anyCritical
  rw [h.scripts]
  congr 1
  funext t
  rw [h.loc a b t hr]

theorem advance_rel2 (a b : EState) (hr : R a b) :
    R (advance SA a).1 (advance SB b).1 ∧ (advance SB b).2 = (advance SA a).2 := by
  unfold advance
  simp only
  have h1 := h.time _ _ (tbLoop_rel2 h SA.fuel _ _ (h.step a b hr))
  rw [h.fuel]
  exact ⟨h1, anyCritical_rel2 h _ _ h1⟩

theorem advanceN_rel2 (n : Nat) (a b : EState) (hr : R a b) : R (advanceN SA n a) (advanceN SB n b) := by
  induction n with
  | zero => exact hr
  | succ n ih => exact (advance_rel2 h _ _ ih).1

theorem run_rel2 (n : Nat) (a b : EState) (hr : R a b) : R (run SA n a) (run SB n b) := by
  induction n generalizing a b with
  | zero => exact hr
  | succ n ih =>
    simp only [run]
    obtain ⟨h1, h2⟩ := advance_rel2 h a b hr
    rw [h2]
    split
    · exact ih _ _ h1
    · exact h1

theorem runUntil_rel2 (deadline n : Nat) (a b : EState) (hr : R a b) :
    R (runUntil SA deadline n a) (runUntil SB deadline n b) := by
  induction n generalizing a b with
  | zero => exact hr
  | succ n ih =>
    simp only [runUntil]
    rw [h.now a b hr]
    split
    · exact ih _ _ (advance_rel2 h a b hr).1
    · exact hr

end lift

end Amaranth.Engine
