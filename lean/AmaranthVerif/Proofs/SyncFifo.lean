import AmaranthVerif.Model.SyncFifo

/-!
# Helper lemmas for C12 (synchronous FIFOs refine a bounded queue)

* arithmetic of signal widths: under the invariant no truncation ever takes effect and `_incr` is
  "add one, wrap at `depth`";
* the ring buffer (`Ring.step`) refines `Queue.step` on its contents;
* a trace accepted by the Spec monitor is first-in first-out (pure Spec-level fact).
-/
namespace Amaranth.SyncFifo

theorem lt_two_pow_bitLength (n : Nat) : n < 2 ^ bitLength n := by
  unfold bitLength
  split
  · subst_vars; decide
  · exact Nat.lt_log2_self

theorem le_two_pow_rangeWidth (n : Nat) : n ≤ 2 ^ rangeWidth n := by
  unfold rangeWidth
  have := lt_two_pow_bitLength (n - 1)
  omega

theorem incr_eq {p n : Nat} (h : p < n) : incr p n = if p + 1 = n then 0 else p + 1 := by
  have hn := le_two_pow_rangeWidth n
  simp only [incr, trunc]
  split
  · next he =>
    split
    · next h1 => rw [h1, ← he]; exact Nat.mod_self _
    · next h1 => apply Nat.mod_eq_of_lt; omega
  · split
    · next h1 => rw [if_pos (by omega)]
    · next h1 => rw [if_neg (by omega)]; apply Nat.mod_eq_of_lt; omega

theorem trunc_level_succ {l depth : Nat} (h : l < depth) : trunc (rangeWidth (depth + 1)) (l + 1) = l + 1 := by
  have := lt_two_pow_bitLength depth
  simp only [trunc, rangeWidth, Nat.add_sub_cancel]
  apply Nat.mod_eq_of_lt; omega

theorem decr_eq {l depth : Nat} (h0 : 0 < l) (h : l ≤ depth) : decr (rangeWidth (depth + 1)) l = l - 1 := by
  have := lt_two_pow_bitLength depth
  simp only [decr, trunc, rangeWidth, Nat.add_sub_cancel]
  have e : l + 2 ^ bitLength depth - 1 = (l - 1) + 2 ^ bitLength depth := by omega
  rw [e, Nat.add_mod_right]
  apply Nat.mod_eq_of_lt; omega


theorem Ring.length_contents (depth : Nat) (r : Ring) : (r.contents depth).length = r.level := by
  simp [Ring.contents]

theorem Ring.getElem_contents (depth : Nat) (r : Ring) (k : Nat) (h : k < (r.contents depth).length) :
    (r.contents depth)[k] = memRead r.storage (wrap depth r.consume k) := by
  simp [Ring.contents]

theorem Ring.inv_init (depth : Nat) : (Ring.init depth).Inv depth := by
  simp [Ring.Inv, Ring.init, wrap]

theorem Ring.contents_init (depth : Nat) : (Ring.init depth).contents depth = [] := by
  simp [Ring.contents, Ring.init]

/-- the registers after a step, with the truncations and `_incr` resolved under the invariant -/
theorem Ring.step_eq {depth : Nat} {r : Ring} (w : Bool) (d : Nat) (rd : Bool) (h : r.Inv depth)
    (hw : w = true → r.level < depth) (hr : rd = true → 0 < r.level) :
    r.step depth w d rd =
      { produce := if w then (if r.produce + 1 = depth then 0 else r.produce + 1) else r.produce
        consume := if rd then (if r.consume + 1 = depth then 0 else r.consume + 1) else r.consume
        level := r.level + w.toNat - rd.toNat
        storage := if w then r.storage.set r.produce d else r.storage } := by
  obtain ⟨hlen, hle, hp⟩ := h
  cases w <;> cases rd <;> simp only [Ring.step, Bool.toNat, memWrite] <;> simp
  · have := hr rfl
    have hd : 0 < depth := by omega
    obtain ⟨_, hc, _⟩ := hp hd
    rw [incr_eq hc, decr_eq this hle]
    simp
  · have := hw rfl
    have hd : 0 < depth := by omega
    obtain ⟨hpr, _, _⟩ := hp hd
    rw [incr_eq hpr, trunc_level_succ this]
    simp
  · have := hw rfl
    have hd : 0 < depth := by omega
    obtain ⟨hpr, hc, _⟩ := hp hd
    rw [incr_eq hpr, incr_eq hc]
    simp


theorem Ring.inv_step {depth : Nat} {r : Ring} (w : Bool) (d : Nat) (rd : Bool) (h : r.Inv depth)
    (hw : w = true → r.level < depth) (hr : rd = true → 0 < r.level) :
    (r.step depth w d rd).Inv depth := by
  rw [Ring.step_eq w d rd h hw hr]
  obtain ⟨hlen, hle, hp⟩ := h
  refine ⟨?_, ?_, ?_⟩
  · cases w <;> simp [hlen]
  · cases w <;> cases rd <;> simp [Bool.toNat] <;> grind
  · intro hd
    obtain ⟨hpr, hc, he⟩ := hp hd
    clear hp
    simp only [wrap] at he ⊢
    cases w <;> cases rd <;> simp only [Bool.toNat, cond, if_true, if_false, Bool.false_eq_true] <;> grind

theorem memRead_set_ne {rows : List Nat} {a b d : Nat} (h : a ≠ b) : memRead (rows.set b d) a = memRead rows a := by
  simp [memRead, List.getD_eq_getElem?_getD, List.getElem?_set_ne (Ne.symm h)]

theorem memRead_set_eq {rows : List Nat} {b d : Nat} (h : b < rows.length) : memRead (rows.set b d) b = d := by
  simp [memRead, List.getD_eq_getElem?_getD, h]

theorem Ring.contents_step {depth : Nat} {r : Ring} (w : Bool) (d : Nat) (rd : Bool) (h : r.Inv depth)
    (hw : w = true → r.level < depth) (hr : rd = true → 0 < r.level) :
    (r.step depth w d rd).contents depth =
      Queue.step (r.contents depth) (if w then some d else none) rd := by
  rw [Ring.step_eq w d rd h hw hr]
  obtain ⟨hlen, hle, hp⟩ := h
  apply List.ext_getElem
  · cases w <;> cases rd <;> simp [Queue.step, Ring.length_contents, Bool.toNat] <;>
      (try have := hr rfl) <;> omega
  · intro k h1 h2
    rw [Ring.getElem_contents]
    rw [Ring.length_contents] at h1
    simp only at h1
    have hd : 0 < depth := by
      cases w <;> cases rd <;> simp [Bool.toNat] at h1 <;> (try have := hw rfl) <;> (try have := hr rfl) <;> omega
    obtain ⟨hpr, hc, he⟩ := hp hd
    clear hp
    cases w <;> cases rd <;> simp only [Queue.step, Bool.toNat, cond, if_true, if_false, Bool.false_eq_true,
      Option.toList, List.append_nil] at h1 h2 ⊢
    · rw [Ring.getElem_contents]
    · rw [List.getElem_tail, Ring.getElem_contents]
      congr 1
      simp only [wrap]; grind
    · have := hw rfl
      by_cases hk : k < r.level
      · rw [List.getElem_append_left (by rw [Ring.length_contents]; exact hk),
          Ring.getElem_contents, memRead_set_ne]
        simp only [wrap] at he ⊢; grind
      · rw [List.getElem_append_right (by rw [Ring.length_contents]; omega)]
        have : wrap depth r.consume k = r.produce := by simp only [wrap] at he ⊢; grind
        rw [this, memRead_set_eq (by omega)]
        simp
    · have := hw rfl
      have := hr rfl
      by_cases hk : k < r.level - 1
      · rw [List.getElem_append_left (by rw [List.length_tail, Ring.length_contents]; exact hk),
          List.getElem_tail, Ring.getElem_contents, memRead_set_ne]
        · congr 1; simp only [wrap]; grind
        · simp only [wrap] at he ⊢; grind
      · rw [List.getElem_append_right (by rw [List.length_tail, Ring.length_contents]; omega)]
        have : wrap depth (if r.consume + 1 = depth then 0 else r.consume + 1) k = r.produce := by
          simp only [wrap] at he ⊢; grind
        rw [this, memRead_set_eq (by omega)]
        simp

theorem Ring.head_contents {depth : Nat} {r : Ring} (h : r.Inv depth) (hl : 0 < r.level) :
    (r.contents depth).head? = some (memRead r.storage r.consume) := by
  obtain ⟨hlen, hle, hp⟩ := h
  obtain ⟨hpr, hc, he⟩ := hp (by omega)
  rw [List.head?_eq_getElem?, List.getElem?_eq_getElem (by rw [Ring.length_contents]; exact hl),
    Ring.getElem_contents]
  simp [wrap, hc]

/-! ## strobes are only effective when the ring can take / give an entry -/

theorem doWrite_lt {p : Params} {s : State} {i : Input} (h : Inv p s) (hw : doWrite p s i = true) :
    s.ring.level < p.depth := by
  obtain ⟨_, hle, _⟩ := h
  simp only [doWrite, outputs] at hw
  split at hw <;> simp at hw
  omega

theorem doRead_pos {p : Params} {s : State} {i : Input} (hr : doRead p s i = true) : 0 < s.ring.level := by
  simp only [doRead, outputs] at hr
  split at hr <;> simp at hr
  omega

/-! ## buffered variant -/

theorem bdoWrite_lt {p : Params} {s : BState} {i : Input} (hd : 2 ≤ p.depth)
    (hw : bdoWrite p s i = true) : s.ring.level ≠ p.depth - 1 := by
  simp only [bdoWrite, boutputs] at hw
  rw [if_neg (by omega), if_neg (by omega)] at hw
  simp at hw
  exact hw.1

theorem doInnerRead_pos {s : BState} {i : Input} (h : doInnerRead s i = true) : 0 < s.ring.level := by
  simp [doInnerRead] at h
  omega

theorem blevel_eq {p : Params} {s : BState} (hd : 2 ≤ p.depth) (h : s.ring.level ≤ p.depth - 1) :
    trunc (rangeWidth (p.depth + 1)) (s.ring.level + s.r_rdy.toNat) = s.ring.level + s.r_rdy.toNat := by
  have := lt_two_pow_bitLength p.depth
  simp only [trunc, rangeWidth, Nat.add_sub_cancel]
  apply Nat.mod_eq_of_lt
  cases s.r_rdy <;> simp [Bool.toNat] <;> omega

/-! ## sanity of `wrap`; stored data stay below `2^width` -/

/-- `wrap` is reduction modulo `n` on the range where it is used -/
theorem wrap_eq_mod {n c k : Nat} (hc : c < n) (hk : k ≤ n) : wrap n c k = (c + k) % n := by
  unfold wrap
  split
  · next h => exact (Nat.mod_eq_of_lt h).symm
  · next h =>
    rw [Nat.mod_eq_sub_mod (by omega)]
    exact (Nat.mod_eq_of_lt (by omega)).symm

def Bounded (w : Nat) (rows : List Nat) : Prop := ∀ x ∈ rows, x < 2 ^ w

theorem memRead_bounded {w : Nat} {rows : List Nat} (h : Bounded w rows) (a : Nat) : memRead rows a < 2 ^ w := by
  unfold memRead
  rw [List.getD_eq_getElem?_getD]
  cases hx : rows[a]? with
  | none => simp; exact Nat.two_pow_pos w
  | some x => simp; exact h x (List.mem_of_getElem? hx)

theorem Ring.step_bounded {w depth : Nat} {r : Ring} (wr : Bool) (d : Nat) (rd : Bool)
    (h : Bounded w r.storage) (hd : d < 2 ^ w) : Bounded w (r.step depth wr d rd).storage := by
  simp only [Ring.step, memWrite]
  split
  · intro x hx
    rcases List.mem_or_eq_of_mem_set hx with hx | hx
    · exact h x hx
    · exact hx ▸ hd
  · exact h

theorem Ring.init_bounded (w depth : Nat) : Bounded w (Ring.init depth).storage := by
  intro x hx
  simp [Ring.init] at hx
  rw [hx.2]; exact Nat.two_pow_pos w

end Amaranth.SyncFifo

/-! ## Spec level: an accepted trace is first-in first-out -/

namespace Amaranth.Queue

theorem ok_iff (cap slack : Nat) (m : Mon) (o : Obs) :
    ok cap slack m o = true ↔
      ((o.r_rdy = true → m.q ≠ []) ∧ (o.r_rdy = true → m.q.head? = some o.r_data) ∧
       (o.w_rdy = true → m.q.length < cap) ∧
       o.level = m.q.length ∧ o.r_level = m.q.length ∧ o.w_level = m.q.length ∧
       (m.q.length + slack ≤ cap → o.w_rdy = true) ∧
       (o.r_rdy = true ∨ m.q = [] ∨ m.stall = 0)) := by
  simp [ok, clauses, List.isEmpty_iff]
  grind

theorem pushedOf_cons (o : Obs) (os : List Obs) : pushedOf (o :: os) = o.push.toList ++ pushedOf os := by
  simp only [pushedOf, List.filterMap_cons]
  cases o.push <;> simp

theorem poppedOf_cons (o : Obs) (os : List Obs) : poppedOf (o :: os) = o.popped.toList ++ poppedOf os := by
  simp only [poppedOf, List.filterMap_cons]
  cases o.popped <;> simp

/-- held ++ written = taken ++ held afterwards -/
theorem accepts_fifo_order (cap slack : Nat) (tr : List Obs) :
    ∀ m : Mon, accepts cap slack m tr = true → m.q ++ pushedOf tr = poppedOf tr ++ (m.run tr).q := by
  induction tr with
  | nil => intro m _; simp [pushedOf, poppedOf, Mon.run]
  | cons o os ih =>
    intro m h
    simp only [accepts, Bool.and_eq_true] at h
    obtain ⟨hok, hrest⟩ := h
    have ih := ih _ hrest
    rw [ok_iff] at hok
    obtain ⟨hne, hhead, -⟩ := hok
    rw [pushedOf_cons, poppedOf_cons, Mon.run, List.append_assoc, ← ih]
    simp only [Mon.step, Queue.step, Obs.popped, Obs.pop] at *
    by_cases hp : (o.r_rdy && o.r_en) = true
    · have hr : o.r_rdy = true := by simp at hp; exact hp.1
      have h1 := hhead hr
      cases hq : m.q with
      | nil => exact absurd hq (hne hr)
      | cons x xs => simp [hq] at h1; simp [hp, h1]
    · simp [hp]

end Amaranth.Queue
