import AmaranthVerif.Model.AsyncFifo

/-! # Arithmetic behind the AsyncFIFO: Gray code, counters modulo `2^n`, depth rounding -/

namespace Amaranth.AsyncFifo

/-! ## Gray code, arbitrary width -/

theorem gray_testBit (x i : Nat) : (gray x).testBit i = (x.testBit i != x.testBit (i + 1)) := by
  simp [gray, Nat.testBit_xor, Nat.testBit_shiftRight, Nat.add_comm]

theorem gray_xor (x y : Nat) : gray (x ^^^ y) = gray x ^^^ gray y := by
  apply Nat.eq_of_testBit_eq
  intro i
  simp only [gray_testBit, Nat.testBit_xor]
  cases x.testBit i <;> cases y.testBit i <;> cases x.testBit (i + 1) <;> cases y.testBit (i + 1) <;> rfl

theorem gray_zero : gray 0 = 0 := by simp [gray]

theorem gray_lt {n x : Nat} (hx : x < 2 ^ n) : gray x < 2 ^ n := by
  unfold gray
  apply Nat.xor_lt_two_pow hx
  exact Nat.lt_of_le_of_lt (Nat.shiftRight_le x 1) hx

theorem gray_zero_of_lt (n : Nat) (x : Nat) (hx : x < 2 ^ n) (h : gray x = 0) : x = 0 := by
  apply Nat.eq_of_testBit_eq
  intro i
  simp only [Nat.zero_testBit]
  have hb : ∀ k, x.testBit (n + k) = false := by
    intro k
    apply Nat.testBit_lt_two_pow
    calc x < 2 ^ n := hx
      _ ≤ 2 ^ (n + k) := Nat.pow_le_pow_right (by decide) (Nat.le_add_right n k)
  have heq : ∀ i, x.testBit i = x.testBit (i + 1) := by
    intro i
    have := gray_testBit x i
    rw [h] at this
    simp only [Nat.zero_testBit] at this
    revert this
    cases x.testBit i <;> cases x.testBit (i + 1) <;> simp
  have hshift : ∀ m, x.testBit i = x.testBit (i + m) := by
    intro m
    induction m with
    | zero => rfl
    | succ m ih => rw [ih, heq (i + m)]; rfl
  rw [hshift n, Nat.add_comm]
  exact hb i

/-- the Gray code is injective on `n`-bit numbers -/
theorem gray_inj {n x y : Nat} (hx : x < 2 ^ n) (hy : y < 2 ^ n) (h : gray x = gray y) : x = y := by
  have hxy : x ^^^ y < 2 ^ n := Nat.xor_lt_two_pow hx hy
  have : gray (x ^^^ y) = 0 := by rw [gray_xor, h, Nat.xor_self]
  have := gray_zero_of_lt n _ hxy this
  have h2 : (x ^^^ y) ^^^ y = y := by rw [this]; simp
  rw [Nat.xor_assoc, Nat.xor_self, Nat.xor_zero] at h2
  exact h2

theorem gray_shiftRight (x : Nat) : gray x >>> 1 = gray (x >>> 1) := by
  simp [gray, Nat.shiftRight_xor_distrib]

/-- `_gray_decode` inverts `_gray_encode` on `n`-bit numbers -/
theorem grayDecode_gray : ∀ (n x : Nat), x < 2 ^ n → grayDecode n (gray x) = x := by
  intro n
  induction n with
  | zero => intro x hx; simp at hx; subst hx; rfl
  | succ k ih =>
    intro x hx
    have hx' : x >>> 1 < 2 ^ k := by
      rw [Nat.shiftRight_eq_div_pow]; simp only [Nat.pow_one]; rw [Nat.pow_succ] at hx; omega
    simp only [grayDecode]
    rw [gray_shiftRight, ih _ hx']
    show (x ^^^ x >>> 1) ^^^ x >>> 1 = x
    rw [Nat.xor_assoc, Nat.xor_self, Nat.xor_zero]

/-! ### one bit changes per increment -/

theorem xor_succ_ones : ∀ x : Nat, ∃ k, x ^^^ (x + 1) = 2 ^ (k + 1) - 1 := by
  intro x
  induction x using Nat.strongRecOn with
  | _ x ih =>
    rcases Nat.mod_two_eq_zero_or_one x with h0 | h1
    · refine ⟨0, ?_⟩
      apply Nat.eq_of_testBit_eq
      intro i
      rw [Nat.testBit_two_pow_sub_one, Nat.testBit_xor]
      cases i with
      | zero => simp [Nat.testBit_zero]; omega
      | succ i =>
        rw [Nat.testBit_succ, Nat.testBit_succ]
        have : (x + 1) / 2 = x / 2 := by omega
        rw [this]; simp
    · obtain ⟨k, hk⟩ := ih (x / 2) (by omega)
      refine ⟨k + 1, ?_⟩
      apply Nat.eq_of_testBit_eq
      intro i
      rw [Nat.testBit_two_pow_sub_one, Nat.testBit_xor]
      cases i with
      | zero => simp [Nat.testBit_zero]; omega
      | succ i =>
        rw [Nat.testBit_succ, Nat.testBit_succ]
        have : (x + 1) / 2 = x / 2 + 1 := by omega
        rw [this, ← Nat.testBit_xor, hk, Nat.testBit_two_pow_sub_one]
        simp

theorem gray_ones (k : Nat) : gray (2 ^ (k + 1) - 1) = 2 ^ k := by
  apply Nat.eq_of_testBit_eq
  intro i
  rw [gray_testBit, Nat.testBit_two_pow_sub_one, Nat.testBit_two_pow_sub_one, Nat.testBit_two_pow]
  by_cases h : i < k
  · have a : i < k + 1 := by omega
    have b : i + 1 < k + 1 := by omega
    have c : ¬ k = i := by omega
    simp [a, b, c]
  · by_cases h2 : i = k
    · subst h2; simp
    · have a : ¬ i < k + 1 := by omega
      have b : ¬ i + 1 < k + 1 := by omega
      have c : ¬ k = i := by omega
      simp [a, b, c]

/-- successive counter values have Gray codes that differ in exactly one bit -/
theorem gray_succ_one_bit (x : Nat) : ∃ k, gray x ^^^ gray (x + 1) = 2 ^ k := by
  obtain ⟨k, hk⟩ := xor_succ_ones x
  exact ⟨k, by rw [← gray_xor, hk, gray_ones]⟩

/-! ## Counters modulo `M`, seen through unbounded ghost counters -/

theorem mod_window_eq {M a b : Nat} (hab : a ≤ b) (hw : b < a + M) (h : a % M = b % M) : a = b := by
  have ha := Nat.div_add_mod a M
  have hb := Nat.div_add_mod b M
  rcases Nat.lt_or_ge (a / M) (b / M) with hlt | hge
  · have : M * (a / M + 1) ≤ M * (b / M) := Nat.mul_le_mul_left M hlt
    rw [Nat.mul_add, Nat.mul_one] at this
    have := Nat.mod_lt a (show M > 0 by omega)
    omega
  · have : M * (b / M) ≤ M * (a / M) := Nat.mul_le_mul_left M hge
    omega

theorem mod_window_iff {M a b : Nat} (hab : a ≤ b) (hw : b < a + M) : a % M = b % M ↔ a = b :=
  ⟨mod_window_eq hab hw, fun h => by rw [h]⟩

/-- a level computed as `(p - c)` truncated to the counter width is the true difference -/
theorem level_eq {M a b : Nat} (hM : 0 < M) (hba : b ≤ a) (hw : a - b < M) :
    (a % M + M - b % M) % M = a - b := by
  have hb := Nat.mod_lt b hM
  have e : (a % M + M - b % M) + b = a % M + (M - b % M + b) := by omega
  have h1 : ((a % M + M - b % M) + b) % M = a % M := by
    have h2 : (M - b % M + b) % M = 0 := by
      have := Nat.div_add_mod b M
      have e2 : M - b % M + b = M * (b / M + 1) := by rw [Nat.mul_add]; omega
      rw [e2]; exact Nat.mul_mod_right M _
    rw [e, Nat.add_mod, h2, Nat.add_zero, Nat.mod_mod, Nat.mod_mod]
  -- so (x + b) ≡ a with x = lhs-before-mod; x % M + b ≡ a, both in a window
  have h3 : ((a % M + M - b % M) % M + b) % M = a % M := by rw [Nat.mod_add_mod]; exact h1
  have hx := Nat.mod_lt (a % M + M - b % M) hM
  have h4 : (a - b + b) % M = a % M := by rw [Nat.sub_add_cancel hba]
  have h5 : ((a % M + M - b % M) % M + b) % M = (a - b + b) % M := by rw [h3, h4]
  rcases Nat.le_total ((a % M + M - b % M) % M) (a - b) with hle | hle
  · have := mod_window_eq (M := M) (a := (a % M + M - b % M) % M + b) (b := a - b + b) (by omega) (by omega) h5
    omega
  · have := mod_window_eq (M := M) (a := a - b + b) (b := (a % M + M - b % M) % M + b) (by omega) (by omega) h5.symm
    omega

theorem mod_succ_mod (M a k : Nat) : (a % M + k) % M = (a + k) % M := Nat.mod_add_mod a M k

/-- distinct live entries occupy distinct storage rows -/
theorem slot_ne {D k p : Nat} (hk : k < p) (hw : p < k + D) : k % D ≠ p % D :=
  fun h => by have := mod_window_eq (Nat.le_of_lt hk) hw h; omega

theorem mod_mod_depth (n x : Nat) (hn : 1 ≤ n) : x % 2 ^ n % 2 ^ (n - 1) = x % 2 ^ (n - 1) :=
  Nat.mod_mod_of_dvd x (Nat.pow_dvd_pow 2 (by omega))

theorem two_depth (n : Nat) (hn : 1 ≤ n) : 2 ^ n = 2 * 2 ^ (n - 1) := by
  obtain ⟨k, rfl⟩ : ∃ k, n = k + 1 := ⟨n - 1, by omega⟩
  simp [Nat.pow_succ, Nat.mul_comm]

/-! ## The full test -/

/-- flipping the top bit of an `n`-bit number adds half the modulus -/
theorem xor_top (n y : Nat) (hn : 1 ≤ n) (hy : y < 2 ^ n) : y ^^^ 2 ^ (n - 1) = (y + 2 ^ (n - 1)) % 2 ^ n := by
  apply Nat.eq_of_testBit_eq
  intro j
  rw [Nat.testBit_xor, Nat.testBit_two_pow, Nat.testBit_mod_two_pow, Nat.add_comm y]
  rcases Nat.lt_trichotomy j (n - 1) with h | h | h
  · rw [Nat.testBit_two_pow_add_gt h]
    have : ¬ n - 1 = j := by omega
    simp [this]; omega
  · subst h
    rw [Nat.testBit_two_pow_add_eq]
    have : n - 1 < n := by omega
    simp [this]
  · have hj : n ≤ j := by omega
    have : y.testBit j = false := Nat.testBit_lt_two_pow (Nat.lt_of_lt_of_le hy (Nat.pow_le_pow_right (by decide) hj))
    have h1 : ¬ n - 1 = j := by omega
    have h2 : ¬ j < n := by omega
    simp [this, h1, h2]

/-- with the reader's pointer at most `depth` behind the writer's, the counters differ in exactly
the top bit iff `depth` entries are in flight -/
theorem xor_eq_depth_iff {n a b : Nat} (hn : 1 ≤ n) (hba : b ≤ a) (hw : a ≤ b + 2 ^ (n - 1)) :
    (a % 2 ^ n) ^^^ (b % 2 ^ n) = 2 ^ (n - 1) ↔ a = b + 2 ^ (n - 1) := by
  have hM : 0 < 2 ^ n := Nat.two_pow_pos n
  have h2 := two_depth n hn
  have hD : 0 < 2 ^ (n - 1) := Nat.two_pow_pos _
  constructor
  · intro h
    have h' : a % 2 ^ n = (b % 2 ^ n) ^^^ 2 ^ (n - 1) := by
      rw [← h, Nat.xor_comm (a % 2 ^ n), ← Nat.xor_assoc, Nat.xor_self, Nat.zero_xor]
    rw [xor_top n _ hn (Nat.mod_lt _ hM), Nat.mod_add_mod] at h'
    exact mod_window_eq (M := 2 ^ n) (a := a) (b := b + 2 ^ (n - 1)) hw (by omega) h'
  · intro h
    subst h
    rw [← Nat.mod_add_mod, ← xor_top n _ hn (Nat.mod_lt _ hM), Nat.xor_comm, ← Nat.xor_assoc, Nat.xor_self,
      Nat.zero_xor]


theorem gray_top_testBit (n j : Nat) :
    (gray (2 ^ (n - 1))).testBit j = (decide (n - 1 = j) != decide (n - 1 = j + 1)) := by
  rw [gray_testBit, Nat.testBit_two_pow, Nat.testBit_two_pow]

theorem full_pattern (n z : Nat) (hn : 2 ≤ n) (hz : z < 2 ^ n) :
    (z.testBit (n - 1) = true ∧ z.testBit (n - 2) = true ∧ z % 2 ^ (n - 2) = 0) ↔ z = gray (2 ^ (n - 1)) := by
  constructor
  · rintro ⟨h1, h2, h3⟩
    apply Nat.eq_of_testBit_eq
    intro j
    rw [gray_top_testBit]
    rcases Nat.lt_or_ge j (n - 2) with hj | hj
    · have : (z % 2 ^ (n - 2)).testBit j = z.testBit j := by rw [Nat.testBit_mod_two_pow]; simp [hj]
      rw [← this, h3, Nat.zero_testBit]
      have a : ¬ n - 1 = j := by omega
      have b : ¬ n - 1 = j + 1 := by omega
      simp [a, b]
    · rcases Nat.lt_or_ge j n with hj2 | hj2
      · have : j = n - 2 ∨ j = n - 1 := by omega
        rcases this with rfl | rfl
        · rw [h2]
          have a : ¬ n - 1 = n - 2 := by omega
          have b : n - 1 = n - 2 + 1 := by omega
          simp [a, b]
        · rw [h1]
          have b : ¬ n - 1 = n - 1 + 1 := by omega
          simp [b]
      · rw [Nat.testBit_lt_two_pow (Nat.lt_of_lt_of_le hz (Nat.pow_le_pow_right (by decide) hj2))]
        have a : ¬ n - 1 = j := by omega
        have b : ¬ n - 1 = j + 1 := by omega
        simp [a, b]
  · intro h
    subst h
    refine ⟨?_, ?_, ?_⟩
    · rw [gray_top_testBit]
      have b : ¬ n - 1 = n - 1 + 1 := by omega
      simp [b]
    · rw [gray_top_testBit]
      have a : ¬ n - 1 = n - 2 := by omega
      have b : n - 1 = n - 2 + 1 := by omega
      simp [a, b]
    · apply Nat.eq_of_testBit_eq
      intro j
      rw [Nat.testBit_mod_two_pow, gray_top_testBit, Nat.zero_testBit]
      by_cases hj : j < n - 2
      · have a : ¬ n - 1 = j := by omega
        have b : ¬ n - 1 = j + 1 := by omega
        simp [a, b]
      · simp [hj]

theorem mod_eq_iff_xor_mod (g h k : Nat) : g % 2 ^ k = h % 2 ^ k ↔ (g ^^^ h) % 2 ^ k = 0 := by
  rw [Nat.xor_mod_two_pow]
  constructor
  · intro e; rw [e, Nat.xor_self]
  · intro e
    have : (g % 2 ^ k ^^^ h % 2 ^ k) ^^^ h % 2 ^ k = h % 2 ^ k := by rw [e, Nat.zero_xor]
    rwa [Nat.xor_assoc, Nat.xor_self, Nat.xor_zero] at this

/-- **The full test.**  On `n`-bit Gray codes the comparison made by `w_full` (top two bits differ,
the rest agree; for 1-bit counters: the codes differ) holds iff the codes differ by the code of
`2^(n-1) = depth`. -/
theorem wFull_iff_xor (n g h : Nat) (hn : 1 ≤ n) (hg : g < 2 ^ n) (hh : h < 2 ^ n) :
    wFull n g h = true ↔ g ^^^ h = gray (2 ^ (n - 1)) := by
  unfold wFull
  by_cases h2 : n < 2
  · have : n = 1 := by omega
    subst this
    simp only [show (1:Nat) < 2 by decide, if_true]
    have hg' : g = 0 ∨ g = 1 := by simp at hg; omega
    have hh' : h = 0 ∨ h = 1 := by simp at hh; omega
    rcases hg' with rfl | rfl <;> rcases hh' with rfl | rfl <;> decide
  · simp only [h2, if_false]
    rw [← full_pattern n (g ^^^ h) (by omega) (Nat.xor_lt_two_pow hg hh)]
    simp only [Bool.and_eq_true, bne_iff_ne, ne_eq, beq_iff_eq, Nat.testBit_xor, mod_eq_iff_xor_mod]
    have e : ∀ a b : Bool, (¬ a = b) ↔ (a ^^ b) = true := by decide
    rw [e, e]
    constructor
    · rintro ⟨⟨a, b⟩, c⟩; exact ⟨a, b, c⟩
    · rintro ⟨a, b, c⟩; exact ⟨⟨a, b⟩, c⟩

/-- The full test in terms of the counters: with the synchronised reader pointer `b` at most
`depth = 2^(n-1)` behind the writer pointer `a`, `w_full` holds iff exactly `depth` entries separate them. -/
theorem wFull_iff (n a b : Nat) (hn : 1 ≤ n) (hba : b ≤ a) (hw : a ≤ b + 2 ^ (n - 1)) :
    wFull n (gray (a % 2 ^ n)) (gray (b % 2 ^ n)) = true ↔ a = b + 2 ^ (n - 1) := by
  have hM : 0 < 2 ^ n := Nat.two_pow_pos n
  have ha := Nat.mod_lt a hM
  have hb := Nat.mod_lt b hM
  rw [wFull_iff_xor n _ _ hn (gray_lt ha) (gray_lt hb), ← gray_xor, ← xor_eq_depth_iff hn hba hw]
  constructor
  · intro h
    exact gray_inj (Nat.xor_lt_two_pow ha hb) (Nat.pow_lt_pow_right (by decide) (by omega)) h
  · intro h; rw [h]

/-- the empty test: Gray codes of two counters in a window shorter than the modulus agree iff the counters do -/
theorem rEmpty_iff (n a b : Nat) (hab : a ≤ b) (hw : b < a + 2 ^ n) :
    gray (a % 2 ^ n) = gray (b % 2 ^ n) ↔ a = b := by
  have hM : 0 < 2 ^ n := Nat.two_pow_pos n
  constructor
  · intro h
    exact mod_window_eq hab hw (gray_inj (Nat.mod_lt a hM) (Nat.mod_lt b hM) h)
  · intro h; rw [h]

end Amaranth.AsyncFifo
