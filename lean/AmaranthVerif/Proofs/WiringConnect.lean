import AmaranthVerif.Proofs.Wiring

/-! # Helper lemmas for C14: `connect` refines the declarative description -/

namespace Amaranth.Wiring
open WiringSpec

def okP {ε α} (e : Except ε α) : Prop := ∃ r, e = .ok r

/-! ## small monadic helpers -/

theorem concatM_ok {α β ε} {f : α → Except ε (List β)} {l : List α} (h : ∀ x ∈ l, okP (f x)) :
    okP (concatM f l) := by
  induction l with
  | nil => exact ⟨[], rfl⟩
  | cons x xs ih =>
    obtain ⟨r, hr⟩ := h x (by simp)
    obtain ⟨rs, hrs⟩ := ih (fun y hy => h y (by simp [hy]))
    exact ⟨r ++ rs, by simp [concatM, hr, hrs]⟩

theorem concatM_spec {α β ε} {f : α → Except ε (List β)} {l : List α} {r : List β}
    (h : concatM f l = .ok r) :
    (∀ x ∈ l, okP (f x)) ∧ ∀ c, c ∈ r ↔ ∃ x ∈ l, ∃ rx, f x = .ok rx ∧ c ∈ rx := by
  induction l generalizing r with
  | nil => simp [concatM] at h; subst h; simp
  | cons x xs ih =>
    simp only [concatM] at h
    split at h
    · simp at h
    · rename_i rx hrx
      split at h
      · simp at h
      · rename_i rs hrs
        simp only [Except.ok.injEq] at h
        subst h
        obtain ⟨ih1, ih2⟩ := ih hrs
        refine ⟨?_, ?_⟩
        · intro y hy
          simp only [List.mem_cons] at hy
          rcases hy with rfl | hy
          · exact ⟨rx, hrx⟩
          · exact ih1 y hy
        · intro c
          simp only [List.mem_append, ih2 c, List.mem_cons]
          constructor
          · rintro (hc | ⟨y, hy, ry, hry, hc⟩)
            · exact ⟨x, Or.inl rfl, rx, hrx, hc⟩
            · exact ⟨y, Or.inr hy, ry, hry, hc⟩
          · rintro ⟨y, rfl | hy, ry, hry, hc⟩
            · rw [hrx] at hry; cases hry; exact Or.inl hc
            · exact Or.inr ⟨y, hy, ry, hry, hc⟩

theorem checkShapes_ok_iff (f : RowItem) (l : List RowItem) :
    checkShapes f l = .ok () ↔ ∀ x ∈ l, widthE f = widthE x ∧ initE f = initE x := by
  induction l with
  | nil => simp [checkShapes]
  | cons x xs ih =>
    simp only [checkShapes, List.mem_cons, forall_eq_or_imp]
    by_cases hw : widthE f = widthE x
    · by_cases hi : initE f = initE x
      · simp [hw, hi, ih]
      · simp [hw, hi]
    · simp [hw]

theorem checkShapesAll_ok_iff (l : List RowItem) :
    checkShapesAll l = .ok () ↔
      (∀ x ∈ l, ∀ y ∈ l, widthE x = widthE y) ∧ (∀ x ∈ l, ∀ y ∈ l, initE x = initE y) := by
  cases l with
  | nil => simp [checkShapesAll]
  | cons f rest =>
    simp only [checkShapesAll, checkShapes_ok_iff]
    constructor
    · intro h
      have hf : ∀ x ∈ f :: rest, widthE f = widthE x ∧ initE f = initE x := by
        intro x hx
        simp only [List.mem_cons] at hx
        rcases hx with rfl | hx
        · exact ⟨rfl, rfl⟩
        · exact h x hx
      exact ⟨fun x hx y hy => (hf x hx).1.symm.trans (hf y hy).1,
             fun x hx y hy => (hf x hx).2.symm.trans (hf y hy).2⟩
    · rintro ⟨hw, hi⟩ x hx
      exact ⟨hw f (by simp) x (by simp [hx]), hi f (by simp) x (by simp [hx])⟩

theorem checkShapesAll_cases (l : List RowItem) : checkShapesAll l = .ok () ∨ ∃ e, checkShapesAll l = .error e := by
  cases h : checkShapesAll l with
  | ok u => exact Or.inl rfl
  | error e => exact Or.inr ⟨e, rfl⟩

/-! ## one pair of leaves -/

def ValueOk (i o : Part) (p : Path) : Prop := i.constAt p = none ∨ o.constAt p = i.constAt p

theorem connectValue_spec (i o : Part) (p : Path) :
    (okP (connectValue i o p) ↔ ValueOk i o p) ∧
    ∀ r, connectValue i o p = .ok r →
      ∀ c, c ∈ r ↔ (i.constAt p = none ∧ c = ((i.handle, p), (o.handle, p))) := by
  unfold connectValue ValueOk okP
  cases hi : i.constAt p with
  | none => simp
  | some ci =>
    cases ho : o.constAt p with
    | none => simp
    | some co =>
      by_cases h : ci = co
      · simp [h]
      · have : co ≠ ci := fun e => h e.symm
        simp [h, this]

/-- the connections made at one member row -/
def RowConn (row : List RowItem) (c : Conn) : Prop :=
  ∃ i ∈ row, ∃ o ∈ row, isInE i = true ∧ isOutE o = true ∧
    ∃ p ∈ expand o.2.segs, i.1.constAt p = none ∧ c = ((i.1.handle, p), (o.1.handle, p))

theorem connectIn_spec (o i : RowItem) :
    (okP (connectIn o i) ↔ (i.2.segs = o.2.segs ∧ ∀ p ∈ expand o.2.segs, ValueOk i.1 o.1 p)) ∧
    ∀ r, connectIn o i = .ok r →
      ∀ c, c ∈ r ↔ ∃ p ∈ expand o.2.segs, i.1.constAt p = none ∧ c = ((i.1.handle, p), (o.1.handle, p)) := by
  unfold connectIn
  by_cases hs : i.2.segs = o.2.segs
  · simp only [hs, bne_self_eq_false, Bool.false_eq_true, if_false, true_and]
    constructor
    · constructor
      · rintro ⟨r, hr⟩ p hp
        exact ((connectValue_spec i.1 o.1 p).1).1 ((concatM_spec hr).1 p hp)
      · intro h
        exact concatM_ok (fun p hp => ((connectValue_spec i.1 o.1 p).1).2 (h p hp))
    · intro r hr c
      rw [(concatM_spec hr).2 c]
      constructor
      · rintro ⟨p, hp, rx, hrx, hc⟩
        exact ⟨p, hp, ((connectValue_spec i.1 o.1 p).2 rx hrx c).1 hc⟩
      · rintro ⟨p, hp, hc⟩
        obtain ⟨rx, hrx⟩ := (concatM_spec hr).1 p hp
        exact ⟨p, hp, rx, hrx, ((connectValue_spec i.1 o.1 p).2 rx hrx c).2 hc⟩
  · have : (i.2.segs != o.2.segs) = true := by simpa using hs
    simp [this, hs, okP]


/-! ## one member row -/

theorem kind_tri (x : RowItem) :
    (isIfaceE x = true ∧ isInE x = false ∧ isOutE x = false) ∨
    (isIfaceE x = false ∧ isInE x = true ∧ isOutE x = false) ∨
    (isIfaceE x = false ∧ isInE x = false ∧ isOutE x = true) := by
  obtain ⟨a, e⟩ := x
  obtain ⟨segs, v⟩ := e
  cases v with
  | iface => simp [isIfaceE, isInE, isOutE]
  | port f p => cases f <;> simp [isIfaceE, isInE, isOutE]

theorem widthE_iface {x : RowItem} (h : isIfaceE x = true) : widthE x = 0 ∧ initE x = 0 := by
  obtain ⟨a, ⟨segs, v⟩⟩ := x
  cases v <;> simp_all [isIfaceE, widthE, initE]

theorem mem_ins_outs {row : List RowItem} {x : RowItem} :
    x ∈ row.filter isInE ++ row.filter isOutE ↔ x ∈ row ∧ isIfaceE x = false := by
  simp only [List.mem_append, List.mem_filter]
  rcases kind_tri x with ⟨h1, h2, h3⟩ | ⟨h1, h2, h3⟩ | ⟨h1, h2, h3⟩ <;> simp [h1, h2, h3]

theorem processRow_spec (row : List RowItem) :
    (okP (processRow row) ↔ RowOk row) ∧
    ∀ cs i o, processRow row = .ok (cs, i, o) →
      (∀ c, c ∈ cs ↔ RowConn row c) ∧ (i = true ↔ ∃ x ∈ row, isInE x = true) ∧
      (o = true ↔ ∃ x ∈ row, isOutE x = true) := by
  by_cases hs : row.filter isIfaceE = []
  · -- only ports
    have hall : ∀ x ∈ row, isIfaceE x = false := by
      intro x hx
      have := List.filter_eq_nil_iff.1 hs x hx
      simpa using this
    have hmem : ∀ x, x ∈ row.filter isInE ++ row.filter isOutE ↔ x ∈ row := by
      intro x; rw [mem_ins_outs]; exact ⟨fun h => h.1, fun h => ⟨h, hall x h⟩⟩
    have hkinds : KindsAgree row := Or.inr hall
    have hshape : checkShapesAll (row.filter isInE ++ row.filter isOutE) = .ok () ↔
        WidthsAgree row ∧ InitsAgree row := by
      rw [checkShapesAll_ok_iff]
      simp only [hmem, WidthsAgree, InitsAgree]
    have hin : (!(row.filter isInE).isEmpty) = true ↔ ∃ x ∈ row, isInE x = true := by
      cases h : row.filter isInE with
      | nil =>
        have := List.filter_eq_nil_iff.1 h
        simp only [List.isEmpty_nil, Bool.not_true, Bool.false_eq_true, false_iff, not_exists, not_and]
        exact fun x hx => this x hx
      | cons y ys =>
        have hy : y ∈ row.filter isInE := by simp [h]
        simp only [List.isEmpty_cons, Bool.not_false, true_iff]
        exact ⟨y, (List.mem_filter.1 hy).1, (List.mem_filter.1 hy).2⟩
    rcases checkShapesAll_cases (row.filter isInE ++ row.filter isOutE) with hcs | ⟨e, hcs⟩
    · obtain ⟨hw, hi⟩ := hshape.1 hcs
      have hcs' := hcs
      cases hout : row.filter isOutE with
      | nil =>
        rw [hout, List.append_nil] at hcs'
        have hno : ∀ x ∈ row, isOutE x = false := by
          intro x hx
          have := List.filter_eq_nil_iff.1 hout x hx
          simpa using this
        have hpr : processRow row = .ok ([], !(row.filter isInE).isEmpty, false) := by
          simp [processRow, hs, hout, hcs']
        refine ⟨⟨fun _ => ⟨hkinds, hw, hi, by simp [OneOutput, hout], ?_, ?_⟩, fun _ => ⟨_, hpr⟩⟩, ?_⟩
        · intro i _ o ho _ h; simp [hno o ho] at h
        · intro i _ o ho _ h; simp [hno o ho] at h
        · intro cs i o h
          rw [hpr] at h
          simp only [Except.ok.injEq, Prod.mk.injEq] at h
          obtain ⟨rfl, rfl, rfl⟩ := h
          refine ⟨?_, hin, ?_⟩
          · intro c
            simp only [List.not_mem_nil, false_iff]
            rintro ⟨i, _, o, ho, _, h, _⟩
            simp [hno o ho] at h
          · simp only [Bool.false_eq_true, false_iff, not_exists, not_and]
            intro x hx; simp [hno x hx]
      | cons o0 rest =>
        cases rest with
        | nil =>
          rw [hout] at hcs'
          have ho0 : o0 ∈ row ∧ isOutE o0 = true := by
            have : o0 ∈ row.filter isOutE := by simp [hout]
            exact List.mem_filter.1 this
          have hone : ∀ o ∈ row, isOutE o = true → o = o0 := by
            intro o ho h
            have : o ∈ row.filter isOutE := List.mem_filter.2 ⟨ho, h⟩
            simpa [hout] using this
          have hprocE : ∀ e, concatM (connectIn o0) (row.filter isInE) = .error e → processRow row = .error e := by
            intro e he; simp [processRow, hs, hout, hcs', he]
          have hprocO : ∀ cs, concatM (connectIn o0) (row.filter isInE) = .ok cs →
              processRow row = .ok (cs, !(row.filter isInE).isEmpty, true) := by
            intro cs he; simp [processRow, hs, hout, hcs', he]
          have hinsok : okP (concatM (connectIn o0) (row.filter isInE)) ↔
              (DimsAgree row ∧ ConstsAgree row) := by
            constructor
            · rintro ⟨r, hr⟩
              have h1 := (concatM_spec hr).1
              constructor
              · intro i hi o ho hii hoo
                rw [hone o ho hoo]
                exact (((connectIn_spec o0 i).1).1 (h1 i (List.mem_filter.2 ⟨hi, hii⟩))).1
              · intro i hi o ho hii hoo p hp
                rw [hone o ho hoo] at hp ⊢
                exact (((connectIn_spec o0 i).1).1 (h1 i (List.mem_filter.2 ⟨hi, hii⟩))).2 p hp
            · rintro ⟨hd, hc⟩
              apply concatM_ok
              intro i hi
              obtain ⟨hi1, hi2⟩ := List.mem_filter.1 hi
              exact ((connectIn_spec o0 i).1).2 ⟨hd i hi1 o0 ho0.1 hi2 ho0.2, fun p hp => hc i hi1 o0 ho0.1 hi2 ho0.2 p hp⟩
          refine ⟨⟨?_, ?_⟩, ?_⟩
          · rintro ⟨r, hr⟩
            cases hcm : concatM (connectIn o0) (row.filter isInE) with
            | error e => rw [hprocE e hcm] at hr; cases hr
            | ok cs =>
              obtain ⟨hd, hc⟩ := hinsok.1 ⟨cs, hcm⟩
              exact ⟨hkinds, hw, hi, by simp [OneOutput, hout], hd, hc⟩
          · rintro ⟨_, _, _, _, hd, hc⟩
            obtain ⟨cs, hcm⟩ := hinsok.2 ⟨hd, hc⟩
            exact ⟨_, hprocO cs hcm⟩
          · intro cs i o h
            cases hcm : concatM (connectIn o0) (row.filter isInE) with
            | error e => rw [hprocE e hcm] at h; cases h
            | ok cs' =>
              rw [hprocO cs' hcm] at h
              simp only [Except.ok.injEq, Prod.mk.injEq] at h
              obtain ⟨rfl, rfl, rfl⟩ := h
              refine ⟨?_, hin, by simp; exact ⟨_, _, ho0.1, ho0.2⟩⟩
              intro c
              rw [(concatM_spec hcm).2 c]
              constructor
              · rintro ⟨i, hi, rx, hrx, hc⟩
                obtain ⟨hi1, hi2⟩ := List.mem_filter.1 hi
                obtain ⟨p, hp, hc'⟩ := ((connectIn_spec o0 i).2 rx hrx c).1 hc
                exact ⟨i, hi1, o0, ho0.1, hi2, ho0.2, p, hp, hc'⟩
              · rintro ⟨i, hi1, o, ho, hi2, ho2, p, hp, hc'⟩
                rw [hone o ho ho2] at hp hc'
                have hi : i ∈ row.filter isInE := List.mem_filter.2 ⟨hi1, hi2⟩
                obtain ⟨rx, hrx⟩ := (concatM_spec hcm).1 i hi
                exact ⟨i, hi, rx, hrx, ((connectIn_spec o0 i).2 rx hrx c).2 ⟨p, hp, hc'⟩⟩
        | cons o1 rest' =>
          rw [hout] at hcs'
          have hpr : processRow row = .error .several := by
            simp [processRow, hs, hout, hcs']
          refine ⟨⟨fun ⟨r, hr⟩ => (by rw [hpr] at hr; cases hr), fun h => ?_⟩, fun cs i o h => (by rw [hpr] at h; cases h)⟩
          have := h.2.2.2.1
          simp [OneOutput, hout] at this
    · have hpr : processRow row = .error e := by
        simp [processRow, hs, hcs]
      refine ⟨⟨fun ⟨r, hr⟩ => (by rw [hpr] at hr; cases hr), fun h => ?_⟩, fun cs i o h => (by rw [hpr] at h; cases h)⟩
      have := hshape.2 ⟨h.2.1, h.2.2.1⟩
      rw [hcs] at this; cases this
  · -- some interface member
    obtain ⟨y, hy⟩ := List.exists_mem_of_ne_nil _ hs
    obtain ⟨hy1, hy2⟩ := List.mem_filter.1 hy
    have hse : (row.filter isIfaceE).isEmpty = false := by
      cases h : row.filter isIfaceE with
      | nil => exact absurd h hs
      | cons _ _ => rfl
    by_cases hp : row.filter isInE ++ row.filter isOutE = []
    · have hall : ∀ x ∈ row, isIfaceE x = true := by
        intro x hx
        by_cases hxi : isIfaceE x = true
        · exact hxi
        · have : x ∈ row.filter isInE ++ row.filter isOutE := mem_ins_outs.2 ⟨hx, by simpa using hxi⟩
          rw [hp] at this; cases this
      have hnin : ∀ x ∈ row, isInE x = false := by
        intro x hx
        rcases kind_tri x with ⟨_, h2, _⟩ | ⟨h1, _, _⟩ | ⟨h1, _, _⟩
        · exact h2
        · rw [hall x hx] at h1; cases h1
        · rw [hall x hx] at h1; cases h1
      have hnout : ∀ x ∈ row, isOutE x = false := by
        intro x hx
        rcases kind_tri x with ⟨_, _, h3⟩ | ⟨h1, _, _⟩ | ⟨h1, _, _⟩
        · exact h3
        · rw [hall x hx] at h1; cases h1
        · rw [hall x hx] at h1; cases h1
      have hpr : processRow row = .ok ([], false, false) := by
        simp [processRow, hse, hp]
      refine ⟨⟨fun _ => ⟨Or.inl hall, ?_, ?_, ?_, ?_, ?_⟩, fun _ => ⟨_, hpr⟩⟩, ?_⟩
      · intro x hx y hy; rw [(widthE_iface (hall x hx)).1, (widthE_iface (hall y hy)).1]
      · intro x hx y hy; rw [(widthE_iface (hall x hx)).2, (widthE_iface (hall y hy)).2]
      · have : row.filter isOutE = [] := List.filter_eq_nil_iff.2 (fun x hx => by simp [hnout x hx])
        simp [OneOutput, this]
      · intro i hi o _ h; rw [hnin i hi] at h; cases h
      · intro i hi o _ h; rw [hnin i hi] at h; cases h
      · intro cs i o h
        rw [hpr] at h
        simp only [Except.ok.injEq, Prod.mk.injEq] at h
        obtain ⟨rfl, rfl, rfl⟩ := h
        refine ⟨?_, ?_, ?_⟩
        · intro c
          simp only [List.not_mem_nil, false_iff]
          rintro ⟨i, hi, _, _, h, _⟩
          rw [hnin i hi] at h; cases h
        · simp only [Bool.false_eq_true, false_iff, not_exists, not_and]
          intro x hx; simp [hnin x hx]
        · simp only [Bool.false_eq_true, false_iff, not_exists, not_and]
          intro x hx; simp [hnout x hx]
    · have hpe : (row.filter isInE ++ row.filter isOutE).isEmpty = false := by
        cases h : row.filter isInE ++ row.filter isOutE with
        | nil => exact absurd h hp
        | cons _ _ => rfl
      have hpr : processRow row = .error .kind := by
        simp only [processRow, hse, hpe]; rfl
      refine ⟨⟨fun ⟨r, hr⟩ => (by rw [hpr] at hr; cases hr), fun h => ?_⟩, fun cs i o h => (by rw [hpr] at h; cases h)⟩
      obtain ⟨z, hz⟩ := List.exists_mem_of_ne_nil _ hp
      obtain ⟨hz1, hz2⟩ := mem_ins_outs.1 hz
      rcases h.1 with hk | hk
      · rw [hk z hz1] at hz2; cases hz2
      · rw [hk y hy1] at hy2; cases hy2


/-! ## the lock-step walk -/

abbrev Cursor := Part × List Entry

def headItems (cs : List Cursor) : List RowItem := cs.map fun c => (c.1, c.2.headD default)
def tailsOf (cs : List Cursor) : List Cursor := cs.map fun c => (c.1, c.2.tail)
def HeadsAt (path : List String) (cs : List Cursor) : Prop :=
  ∀ c ∈ cs, ∃ e l', c.2 = e :: l' ∧ e.path = path

theorem popHeads_ok {path : List String} {cs : List Cursor} (h : HeadsAt path cs) :
    popHeads path cs = .ok (headItems cs, tailsOf cs) := by
  induction cs with
  | nil => rfl
  | cons c cs ih =>
    obtain ⟨a, l⟩ := c
    obtain ⟨e, l', hl, he⟩ := h (a, l) (by simp)
    simp only at hl
    subst hl
    have := ih (fun c hc => h c (by simp [hc]))
    simp [popHeads, he, this, headItems, tailsOf]

theorem popHeads_err {path : List String} {cs : List Cursor} (h : ¬ HeadsAt path cs) :
    popHeads path cs = .error .missing := by
  induction cs with
  | nil => exact absurd (fun c hc => by cases hc) h
  | cons c cs ih =>
    obtain ⟨a, l⟩ := c
    cases l with
    | nil => simp [popHeads]
    | cons e l' =>
      by_cases he : e.path = path
      · have hrest : ¬ HeadsAt path cs := by
          intro hr
          apply h
          intro c hc
          simp only [List.mem_cons] at hc
          rcases hc with rfl | hc
          · exact ⟨e, l', rfl, he⟩
          · exact hr c hc
        simp [popHeads, he, ih hrest]
      · simp [popHeads, he]

def rowsOf (a0 : Part) : List Entry → List Cursor → List (List RowItem)
  | [], _ => []
  | e :: es, cs => ((a0, e) :: headItems cs) :: rowsOf a0 es (tailsOf cs)

def Aligned (l0 : List Entry) (cs : List Cursor) : Prop :=
  ∀ c ∈ cs, c.2.map Entry.path = l0.map Entry.path

theorem aligned_nil (cs : List Cursor) : Aligned [] cs ↔ cs.all (·.2.isEmpty) = true := by
  simp [Aligned, List.all_eq_true, List.isEmpty_iff]

theorem aligned_cons (e : Entry) (es : List Entry) (cs : List Cursor) :
    Aligned (e :: es) cs ↔ HeadsAt e.path cs ∧ Aligned es (tailsOf cs) := by
  constructor
  · intro h
    refine ⟨?_, ?_⟩
    · intro c hc
      have := h c hc
      cases hl : c.2 with
      | nil => rw [hl] at this; simp at this
      | cons e' l' =>
        rw [hl] at this
        simp only [List.map_cons, List.cons.injEq] at this
        exact ⟨e', l', rfl, this.1⟩
    · intro c hc
      simp only [tailsOf, List.mem_map] at hc
      obtain ⟨c0, hc0, rfl⟩ := hc
      have := h c0 hc0
      cases hl : c0.2 with
      | nil => rw [hl] at this; simp at this
      | cons e' l' =>
        rw [hl] at this
        simp only [List.map_cons, List.cons.injEq] at this
        simpa using this.2
  · rintro ⟨hh, ht⟩ c hc
    obtain ⟨e', l', hl, he⟩ := hh c hc
    have := ht (c.1, c.2.tail) (by simp only [tailsOf, List.mem_map]; exact ⟨c, hc, rfl⟩)
    rw [hl] at this ⊢
    simp only [List.tail_cons] at this
    simp [he, this]

theorem walk_spec (a0 : Part) : ∀ (l0 : List Entry) (cs : List Cursor) (st : St),
    (okP (walk a0 l0 cs st) ↔ (Aligned l0 cs ∧ ∀ row ∈ rowsOf a0 l0 cs, RowOk row)) ∧
    ∀ st', walk a0 l0 cs st = .ok st' →
      (∀ c, c ∈ st'.conns ↔ (c ∈ st.conns ∨ ∃ row ∈ rowsOf a0 l0 cs, RowConn row c)) ∧
      (st'.anyIn = true ↔ (st.anyIn = true ∨ ∃ row ∈ rowsOf a0 l0 cs, ∃ x ∈ row, isInE x = true)) ∧
      (st'.anyOut = true ↔ (st.anyOut = true ∨ ∃ row ∈ rowsOf a0 l0 cs, ∃ x ∈ row, isOutE x = true))
  | [], cs, st => by
    simp only [walk, rowsOf, List.not_mem_nil, false_imp_iff, implies_true, and_true, aligned_nil,
      false_and, exists_false, or_false]
    by_cases h : cs.all (·.2.isEmpty) = true
    · simp only [h, if_true]
      refine ⟨⟨fun _ => trivial, fun _ => ⟨st, rfl⟩⟩, ?_⟩
      intro st' hst
      cases hst
      simp
    · simp only [h]
      refine ⟨⟨fun ⟨r, hr⟩ => (by simp at hr), fun hh => absurd hh (by simp)⟩, ?_⟩
      intro st' hst
      simp at hst
  | e :: es, cs, st => by
    by_cases hh : HeadsAt e.path cs
    · have hpop := popHeads_ok hh
      have hrow := processRow_spec ((a0, e) :: headItems cs)
      cases hpr : processRow ((a0, e) :: headItems cs) with
      | error err =>
        have hw : walk a0 (e :: es) cs st = .error err := by simp [walk, hpop, hpr]
        have hnot : ¬ RowOk ((a0, e) :: headItems cs) := fun hok => by
          obtain ⟨r, hr⟩ := hrow.1.2 hok
          rw [hpr] at hr; cases hr
        refine ⟨⟨fun ⟨r, hr⟩ => (by rw [hw] at hr; cases hr), fun h => ?_⟩, fun st' h => (by rw [hw] at h; cases h)⟩
        exact absurd (h.2 _ (by simp [rowsOf])) hnot
      | ok res =>
        obtain ⟨csr, i, o⟩ := res
        have hok : RowOk ((a0, e) :: headItems cs) := hrow.1.1 ⟨_, hpr⟩
        obtain ⟨hc, hi, ho⟩ := hrow.2 csr i o hpr
        have ih := walk_spec a0 es (tailsOf cs) ⟨st.conns ++ csr, st.anyIn || i, st.anyOut || o⟩
        have hw : walk a0 (e :: es) cs st =
            walk a0 es (tailsOf cs) ⟨st.conns ++ csr, st.anyIn || i, st.anyOut || o⟩ := by
          simp [walk, hpop, hpr]
        rw [hw]
        refine ⟨?_, ?_⟩
        · rw [ih.1, aligned_cons]
          simp only [rowsOf, List.mem_cons, forall_eq_or_imp]
          exact ⟨fun h => ⟨⟨hh, h.1⟩, hok, h.2⟩, fun h => ⟨h.1.2, h.2.2⟩⟩
        · intro st' hst
          obtain ⟨h1, h2, h3⟩ := ih.2 st' hst
          have hex : ∀ P : List RowItem → Prop, (∃ row ∈ rowsOf a0 (e :: es) cs, P row) ↔
              (P ((a0, e) :: headItems cs) ∨ ∃ row ∈ rowsOf a0 es (tailsOf cs), P row) := by
            intro P; simp only [rowsOf, List.mem_cons, exists_eq_or_imp]
          refine ⟨?_, ?_, ?_⟩
          · intro c
            rw [h1 c, hex, List.mem_append, hc c]
            simp only [or_assoc]
          · rw [h2, hex]
            simp only [Bool.or_eq_true, hi, or_assoc]
          · rw [h3, hex]
            simp only [Bool.or_eq_true, ho, or_assoc]
    · have hw : walk a0 (e :: es) cs st = .error .missing := by simp [walk, popHeads_err hh]
      refine ⟨⟨fun ⟨r, hr⟩ => (by rw [hw] at hr; cases hr), fun h => ?_⟩, fun st' h => (by rw [hw] at h; cases h)⟩
      exact absurd ((aligned_cons e es cs).1 h.1).1 hh


/-! ## sorted member lists -/

theorem pathLe_trans {a b c : List String} :
    (compare a b).isLE = true → (compare b c).isLE = true → (compare a c).isLE = true :=
  Std.TransOrd.isLE_trans

theorem pathLe_total (a b : List String) : (compare a b).isLE = true ∨ (compare b a).isLE = true := by
  by_cases h : (compare a b).isLE = true
  · exact Or.inl h
  · have := Std.OrientedCmp.lt_of_not_isLE (cmp := (compare : List String → List String → Ordering)) h
    exact Or.inr (by rw [this]; rfl)

theorem pathLe_antisymm {a b : List String} (h1 : (compare a b).isLE = true) (h2 : (compare b a).isLE = true) :
    a = b :=
  Std.LawfulEqOrd.eq_of_compare (Std.OrientedCmp.isLE_antisymm h1 h2)

theorem sortEntries_perm (l : List Entry) : (sortEntries l).Perm l := List.mergeSort_perm l entryLe

theorem sortEntries_pairwise (l : List Entry) : (sortEntries l).Pairwise (fun a b => entryLe a b = true) := by
  unfold sortEntries
  apply List.pairwise_mergeSort (le := entryLe)
  · intro a b c h1 h2; exact pathLe_trans (a := a.path) (b := b.path) (c := c.path) h1 h2
  · intro a b
    rcases pathLe_total a.path b.path with h | h
    · simp only [entryLe, h, Bool.true_or]
    · simp only [entryLe, h, Bool.or_true]

def PathsNodup (p : Part) : Prop := (p.members.map Entry.path).Nodup

theorem sortedPaths_eq {l l' : List Entry} (h : (l.map Entry.path).Perm (l'.map Entry.path)) :
    (sortEntries l).map Entry.path = (sortEntries l').map Entry.path := by
  apply List.Perm.eq_of_pairwise (le := fun a b => (compare a b).isLE = true)
  · intro a b _ _ h1 h2; exact pathLe_antisymm h1 h2
  · rw [List.pairwise_map]; exact sortEntries_pairwise l
  · rw [List.pairwise_map]; exact sortEntries_pairwise l'
  · exact ((sortEntries_perm l).map _).trans (h.trans ((sortEntries_perm l').map _).symm)

/-- with unique paths, sorting does not change which member is found at a path -/
theorem filter_path_sort {l : List Entry} (hn : (l.map Entry.path).Nodup) (np : List String) :
    (sortEntries l).filter (fun e => e.path = np) = l.filter (fun e => e.path = np) := by
  have hp : ((sortEntries l).filter (fun e => e.path = np)).Perm (l.filter (fun e => e.path = np)) :=
    (sortEntries_perm l).filter _
  match hf : l.filter (fun e => e.path = np) with
  | [] => rw [hf] at hp; exact hp.eq_nil.trans hf.symm
  | [x] => rw [hf] at hp; exact (List.perm_singleton.1 hp).trans hf.symm
  | x :: y :: rest =>
    exfalso
    have hsub : (x :: y :: rest).Sublist l := hf ▸ List.filter_sublist
    have hnd := (hsub.map Entry.path).nodup hn
    have hx : x ∈ l.filter (fun e => e.path = np) := by simp [hf]
    have hy : y ∈ l.filter (fun e => e.path = np) := by simp [hf]
    have hxp : x.path = np := by simpa using (List.mem_filter.1 hx).2
    have hyp : y.path = np := by simpa using (List.mem_filter.1 hy).2
    simp [hxp, hyp] at hnd

theorem sameMembers_iff_aligned (a0 : Part) (others : List Part)
    (hn : ∀ p ∈ a0 :: others, PathsNodup p) :
    SameMembers (a0 :: others) ↔
      Aligned (sortEntries a0.members) (others.map fun a => (a, sortEntries a.members)) := by
  constructor
  · intro h c hc
    simp only [List.mem_map] at hc
    obtain ⟨a, ha, rfl⟩ := hc
    apply sortedPaths_eq
    rw [List.perm_ext_iff_of_nodup (hn a (by simp [ha])) (hn a0 (by simp))]
    intro np
    simp only [List.mem_map]
    constructor
    · rintro ⟨e, he, rfl⟩
      obtain ⟨e', he', hp⟩ := h a (by simp [ha]) a0 (by simp) e he
      exact ⟨e', he', hp⟩
    · rintro ⟨e, he, rfl⟩
      obtain ⟨e', he', hp⟩ := h a0 (by simp) a (by simp [ha]) e he
      exact ⟨e', he', hp⟩
  · intro h
    have key : ∀ a ∈ a0 :: others, ∀ np, np ∈ a.members.map Entry.path ↔ np ∈ a0.members.map Entry.path := by
      intro a ha np
      simp only [List.mem_cons] at ha
      rcases ha with rfl | ha
      · rfl
      · have := h (a, sortEntries a.members) (by simp only [List.mem_map]; exact ⟨a, ha, rfl⟩)
        simp only at this
        rw [← ((sortEntries_perm a.members).map Entry.path).mem_iff,
            ← ((sortEntries_perm a0.members).map Entry.path).mem_iff, this]
    intro a ha b hb e he
    have h1 : e.path ∈ a0.members.map Entry.path := (key a ha e.path).1 (List.mem_map.2 ⟨e, he, rfl⟩)
    have h2 := (key b hb e.path).2 h1
    obtain ⟨e', he', hp⟩ := List.mem_map.1 h2
    exact ⟨e', he', hp⟩


/-! ## the rows of the walk are the members found at each path -/

def rowAtC (a0 : Part) (l0 : List Entry) (cs : List Cursor) (np : List String) : List RowItem :=
  (l0.filter (fun e => e.path = np)).map (fun e => (a0, e)) ++
    cs.flatMap fun c => (c.2.filter (fun e => e.path = np)).map fun e => (c.1, e)

theorem flatMap_congr' {α β} {f g : α → List β} {l : List α} (h : ∀ x ∈ l, f x = g x) :
    l.flatMap f = l.flatMap g := by
  induction l with
  | nil => rfl
  | cons x xs ih =>
    simp only [List.flatMap_cons, h x (by simp), ih (fun y hy => h y (by simp [hy]))]

theorem flatMap_singleton' {α β} {f : α → List β} {g : α → β} {l : List α} (h : ∀ x ∈ l, f x = [g x]) :
    l.flatMap f = l.map g := by
  induction l with
  | nil => rfl
  | cons x xs ih =>
    simp only [List.flatMap_cons, List.map_cons, h x (by simp), ih (fun y hy => h y (by simp [hy]))]
    rfl

theorem filter_path_nil {l : List Entry} {np : List String} (h : ∀ x ∈ l, x.path ≠ np) :
    l.filter (fun e => e.path = np) = [] :=
  List.filter_eq_nil_iff.2 (fun x hx => by simpa using h x hx)

theorem rowsOf_eq (a0 : Part) : ∀ (l0 : List Entry) (cs : List Cursor),
    (l0.map Entry.path).Nodup → Aligned l0 cs →
    rowsOf a0 l0 cs = l0.map (fun e => rowAtC a0 l0 cs e.path)
  | [], _, _, _ => rfl
  | e :: es, cs, hn, ha => by
    obtain ⟨hh, ht⟩ := (aligned_cons e es cs).1 ha
    simp only [List.map_cons, List.nodup_cons, List.mem_map, not_exists, not_and] at hn
    obtain ⟨hne, hn'⟩ := hn
    have htail : ∀ c ∈ cs, ∀ x ∈ c.2.tail, x.path ∈ es.map Entry.path := by
      intro c hc x hx
      have := ht (c.1, c.2.tail) (by simp only [tailsOf, List.mem_map]; exact ⟨c, hc, rfl⟩)
      simp only at this
      rw [← this]
      exact List.mem_map.2 ⟨x, hx, rfl⟩
    simp only [rowsOf, List.map_cons, List.cons.injEq]
    constructor
    · -- the head row
      simp only [rowAtC, List.filter_cons, decide_true, if_true]
      rw [filter_path_nil (fun x hx => hne x hx)]
      simp only [List.map_cons, List.map_nil, List.singleton_append, List.cons.injEq, true_and]
      rw [headItems]
      apply (flatMap_singleton' _).symm
      intro c hc
      obtain ⟨ec, l', hl, hec⟩ := hh c hc
      have hl' : ∀ x ∈ l', x.path ≠ e.path := by
        intro x hx hxe
        have := htail c hc x (by rw [hl]; exact hx)
        obtain ⟨y, hy, hyp⟩ := List.mem_map.1 this
        exact hne y hy (hyp.trans hxe)
      rw [hl]
      simp [List.filter_cons, hec, filter_path_nil hl']
    · rw [rowsOf_eq a0 es (tailsOf cs) hn' ht]
      apply List.map_congr_left
      intro e' he'
      have hne' : e.path ≠ e'.path := fun h => hne e' he' h.symm
      simp only [rowAtC, List.filter_cons, hne', decide_false, Bool.false_eq_true, if_false]
      congr 1
      rw [tailsOf, List.flatMap_map]
      apply flatMap_congr'
      intro c hc
      obtain ⟨ec, l', hl, hec⟩ := hh c hc
      rw [hl]
      simp [List.filter_cons, hec, hne']

theorem rowAtC_sorted (a0 : Part) (others : List Part) (hn : ∀ p ∈ a0 :: others, PathsNodup p)
    (np : List String) :
    rowAtC a0 (sortEntries a0.members) (others.map fun a => (a, sortEntries a.members)) np =
      rowAt (a0 :: others) np := by
  simp only [rowAtC, rowAt, List.flatMap_cons, List.flatMap_map]
  rw [filter_path_sort (hn a0 (by simp))]
  congr 1
  apply flatMap_congr'
  intro a ha
  rw [filter_path_sort (hn a (by simp [ha]))]


/-! ## `connectParts` against the declarative description -/

theorem mem_rowAt {parts : List Part} {np : List String} {x : RowItem} :
    x ∈ rowAt parts np ↔ x.1 ∈ parts ∧ x.2 ∈ x.1.members ∧ x.2.path = np := by
  obtain ⟨a, e⟩ := x
  simp only [rowAt, List.mem_flatMap, List.mem_map, List.mem_filter, decide_eq_true_eq, Prod.mk.injEq]
  constructor
  · rintro ⟨p, hp, e', ⟨he', hpath⟩, rfl, rfl⟩
    exact ⟨hp, he', hpath⟩
  · rintro ⟨hp, he, hpath⟩
    exact ⟨a, hp, e, ⟨he, hpath⟩, rfl, rfl⟩

theorem isConn_iff (parts : List Part) (c : Conn) :
    IsConn parts c ↔ ∃ np, RowConn (rowAt parts np) c := by
  constructor
  · rintro ⟨i, hi, o, ho, ei, hei, eo, heo, hpath, hin, hout, p, hp, hc, rfl⟩
    exact ⟨eo.path, (i, ei), mem_rowAt.2 ⟨hi, hei, hpath⟩, (o, eo), mem_rowAt.2 ⟨ho, heo, rfl⟩,
      hin, hout, p, hp, hc, rfl⟩
  · rintro ⟨np, ⟨i, ei⟩, hi, ⟨o, eo⟩, ho, hin, hout, p, hp, hc, rfl⟩
    obtain ⟨hi1, hi2, hi3⟩ := mem_rowAt.1 hi
    obtain ⟨ho1, ho2, ho3⟩ := mem_rowAt.1 ho
    exact ⟨i, hi1, o, ho1, ei, hi2, eo, ho2, hi3.trans ho3.symm, hin, hout, p, hp, hc, rfl⟩

theorem mem_conns (parts : List Part) (c : Conn) : c ∈ WiringSpec.conns parts ↔ IsConn parts c := by
  simp only [WiringSpec.conns, List.mem_flatMap, IsConn]
  constructor
  · rintro ⟨i, hi, o, ho, ei, hei, eo, heo, h⟩
    split at h
    · rename_i hc
      simp only [List.mem_filterMap] at h
      obtain ⟨p, hp, hpc⟩ := h
      split at hpc
      · rename_i hcn
        simp only [Option.some.injEq] at hpc
        exact ⟨i, hi, o, ho, ei, hei, eo, heo, hc.1, hc.2.1, hc.2.2, p, hp, hcn, hpc.symm⟩
      · cases hpc
    · cases h
  · rintro ⟨i, hi, o, ho, ei, hei, eo, heo, h1, h2, h3, p, hp, hcn, rfl⟩
    refine ⟨i, hi, o, ho, ei, hei, eo, heo, ?_⟩
    rw [if_pos ⟨h1, h2, h3⟩]
    simp only [List.mem_filterMap]
    exact ⟨p, hp, by simp [hcn]⟩

theorem anyIn_iff (parts : List Part) : AnyIn parts ↔ ∃ np, ∃ x ∈ rowAt parts np, isInE x = true := by
  constructor
  · rintro ⟨p, hp, e, he, h⟩
    exact ⟨e.path, (p, e), mem_rowAt.2 ⟨hp, he, rfl⟩, h⟩
  · rintro ⟨np, ⟨p, e⟩, hx, h⟩
    obtain ⟨h1, h2, _⟩ := mem_rowAt.1 hx
    exact ⟨p, h1, e, h2, h⟩

theorem anyOut_iff (parts : List Part) : AnyOut parts ↔ ∃ np, ∃ x ∈ rowAt parts np, isOutE x = true := by
  constructor
  · rintro ⟨p, hp, e, he, h⟩
    exact ⟨e.path, (p, e), mem_rowAt.2 ⟨hp, he, rfl⟩, h⟩
  · rintro ⟨np, ⟨p, e⟩, hx, h⟩
    obtain ⟨h1, h2, _⟩ := mem_rowAt.1 hx
    exact ⟨p, h1, e, h2, h⟩

/-- the walk of two or more participants, in terms of the rows found at the first one's paths -/
theorem walk_parts (a0 : Part) (others : List Part) (hn : ∀ p ∈ a0 :: others, PathsNodup p) (st : St) :
    let parts := a0 :: others
    let w := walk a0 (sortEntries a0.members) (others.map fun a => (a, sortEntries a.members)) st
    (okP w ↔ (SameMembers parts ∧ ∀ np ∈ allPaths parts, RowOk (rowAt parts np))) ∧
    ∀ st', w = .ok st' →
      (∀ c, c ∈ st'.conns ↔ (c ∈ st.conns ∨ IsConn parts c)) ∧
      (st'.anyIn = true ↔ (st.anyIn = true ∨ AnyIn parts)) ∧
      (st'.anyOut = true ↔ (st.anyOut = true ∨ AnyOut parts)) := by
  intro parts w
  have hws := walk_spec a0 (sortEntries a0.members) (others.map fun a => (a, sortEntries a.members)) st
  have hsm := sameMembers_iff_aligned a0 others hn
  have hnd : ((sortEntries a0.members).map Entry.path).Nodup :=
    (((sortEntries_perm a0.members).map Entry.path).nodup_iff).2 (hn a0 (by simp))
  -- under alignment, the rows
  have hrows : Aligned (sortEntries a0.members) (others.map fun a => (a, sortEntries a.members)) →
      ∀ P : List RowItem → Prop,
        ((∃ row ∈ rowsOf a0 (sortEntries a0.members) (others.map fun a => (a, sortEntries a.members)), P row) ↔
          ∃ e ∈ a0.members, P (rowAt parts e.path)) ∧
        ((∀ row ∈ rowsOf a0 (sortEntries a0.members) (others.map fun a => (a, sortEntries a.members)), P row) ↔
          ∀ e ∈ a0.members, P (rowAt parts e.path)) := by
    intro ha P
    rw [rowsOf_eq a0 _ _ hnd ha]
    simp only [List.mem_map, rowAtC_sorted a0 others hn]
    constructor
    · constructor
      · rintro ⟨row, ⟨e, he, rfl⟩, hP⟩
        exact ⟨e, (sortEntries_perm a0.members).mem_iff.1 he, hP⟩
      · rintro ⟨e, he, hP⟩
        exact ⟨_, ⟨e, (sortEntries_perm a0.members).mem_iff.2 he, rfl⟩, hP⟩
    · constructor
      · intro h e he
        exact h _ ⟨e, (sortEntries_perm a0.members).mem_iff.2 he, rfl⟩
      · rintro h row ⟨e, he, rfl⟩
        exact h e ((sortEntries_perm a0.members).mem_iff.1 he)
  -- under SameMembers every path is a path of the first participant
  have hfirst : SameMembers parts → ∀ np, (∃ x, x ∈ rowAt parts np) → ∃ e ∈ a0.members, e.path = np := by
    intro hs np ⟨x, hx⟩
    obtain ⟨h1, h2, h3⟩ := mem_rowAt.1 hx
    obtain ⟨e', he', hp⟩ := hs x.1 h1 a0 (by simp [parts]) x.2 h2
    exact ⟨e', he', hp.trans h3⟩
  refine ⟨?_, ?_⟩
  · rw [hws.1, ← hsm]
    constructor
    · rintro ⟨hs, hr⟩
      refine ⟨hs, ?_⟩
      intro np hnp
      simp only [allPaths, List.mem_flatMap, List.mem_map] at hnp
      obtain ⟨p, hp, e, he, rfl⟩ := hnp
      obtain ⟨e0, he0, hpe⟩ := hfirst hs e.path ⟨(p, e), mem_rowAt.2 ⟨hp, he, rfl⟩⟩
      rw [← hpe]
      exact ((hrows (hsm.1 hs) RowOk).2).1 hr e0 he0
    · rintro ⟨hs, hr⟩
      refine ⟨hs, ((hrows (hsm.1 hs) RowOk).2).2 ?_⟩
      intro e he
      apply hr
      simp only [allPaths, List.mem_flatMap, List.mem_map]
      exact ⟨a0, by simp [parts], e, he, rfl⟩
  · intro st' hst
    have hal : Aligned (sortEntries a0.members) (others.map fun a => (a, sortEntries a.members)) :=
      (hws.1.1 ⟨st', hst⟩).1
    have hs : SameMembers parts := hsm.2 hal
    obtain ⟨h1, h2, h3⟩ := hws.2 st' hst
    have hex : ∀ P : List RowItem → Prop, (∀ np, P (rowAt parts np) → ∃ x, x ∈ rowAt parts np) →
        ((∃ e ∈ a0.members, P (rowAt parts e.path)) ↔ ∃ np, P (rowAt parts np)) := by
      intro P hP
      constructor
      · rintro ⟨e, _, h⟩; exact ⟨_, h⟩
      · rintro ⟨np, h⟩
        obtain ⟨e, he, rfl⟩ := hfirst hs np (hP np h)
        exact ⟨e, he, h⟩
    refine ⟨?_, ?_, ?_⟩
    · intro c
      rw [h1 c, ((hrows hal (fun row => RowConn row c)).1), isConn_iff,
        hex (fun row => RowConn row c) (fun np ⟨i, hi, _⟩ => ⟨i, hi⟩)]
    · rw [h2, ((hrows hal (fun row => ∃ x ∈ row, isInE x = true)).1), anyIn_iff,
        hex (fun row => ∃ x ∈ row, isInE x = true) (fun np ⟨i, hi, _⟩ => ⟨i, hi⟩)]
    · rw [h3, ((hrows hal (fun row => ∃ x ∈ row, isOutE x = true)).1), anyOut_iff,
        hex (fun row => ∃ x ∈ row, isOutE x = true) (fun np ⟨i, hi, _⟩ => ⟨i, hi⟩)]


theorem conns_nil_iff (parts : List Part) : WiringSpec.conns parts = [] ↔ ∀ c, ¬ IsConn parts c := by
  constructor
  · intro h c hc
    have := (mem_conns parts c).2 hc
    rw [h] at this; cases this
  · intro h
    cases hc : WiringSpec.conns parts with
    | nil => rfl
    | cons c cs => exact absurd ((mem_conns parts c).1 (by simp [hc])) (h c)

theorem connectParts_spec (parts : List Part) (hn : ∀ p ∈ parts, PathsNodup p) :
    (okP (connectParts parts) ↔ Accepts parts) ∧
    ∀ r, connectParts parts = .ok r → ∀ c, c ∈ r ↔ (2 ≤ parts.length ∧ IsConn parts c) := by
  match parts, hn with
  | [], _ => simp [connectParts, Accepts, okP]
  | [a], _ => simp [connectParts, Accepts, okP]
  | a0 :: b :: rest, hn =>
    have hwp := walk_parts a0 (b :: rest) hn ⟨[], false, false⟩
    simp only at hwp
    obtain ⟨hok, hres⟩ := hwp
    have hlen : ¬ (a0 :: b :: rest).length ≤ 1 := by simp
    cases hw : walk a0 (sortEntries a0.members) ((b :: rest).map fun a => (a, sortEntries a.members)) ⟨[], false, false⟩ with
    | error e =>
      have hcp : connectParts (a0 :: b :: rest) = .error e := by
        simp only [connectParts]; rw [hw]
      have hno : ¬ (SameMembers (a0 :: b :: rest) ∧ ∀ np ∈ allPaths (a0 :: b :: rest), RowOk (rowAt (a0 :: b :: rest) np)) := by
        intro h
        obtain ⟨r, hr⟩ := hok.2 h
        rw [hw] at hr; cases hr
      refine ⟨⟨fun ⟨r, hr⟩ => (by rw [hcp] at hr; cases hr), fun h => ?_⟩, fun r hr => (by rw [hcp] at hr; cases hr)⟩
      rcases h with h | h
      · exact absurd h hlen
      · exact absurd ⟨h.1, h.2.1⟩ hno
    | ok st =>
      obtain ⟨h1, h2, h3⟩ := hres st hw
      obtain ⟨hsm, hrows⟩ := hok.1 ⟨st, hw⟩
      have hempty : st.conns.isEmpty = true ↔ WiringSpec.conns (a0 :: b :: rest) = [] := by
        rw [conns_nil_iff, List.isEmpty_iff]
        constructor
        · intro h c hc
          have := (h1 c).2 (Or.inr hc)
          rw [h] at this; cases this
        · intro h
          cases hc : st.conns with
          | nil => rfl
          | cons c cs =>
            rcases (h1 c).1 (by simp [hc]) with h' | h'
            · cases h'
            · exact absurd h' (h c)
      have hin : st.anyIn = true ↔ AnyIn (a0 :: b :: rest) := by rw [h2]; simp
      have hout : st.anyOut = true ↔ AnyOut (a0 :: b :: rest) := by rw [h3]; simp
      by_cases hoi : (st.conns.isEmpty && st.anyIn && !st.anyOut) = true
      · have hcp : connectParts (a0 :: b :: rest) = .error .onlyInputs := by
          simp only [connectParts]; rw [hw]; simp only [hoi, if_true]
        simp only [Bool.and_eq_true, Bool.not_eq_true'] at hoi
        refine ⟨⟨fun ⟨r, hr⟩ => (by rw [hcp] at hr; cases hr), fun h => ?_⟩, fun r hr => (by rw [hcp] at hr; cases hr)⟩
        rcases h with h | h
        · exact absurd h hlen
        · exfalso
          apply h.2.2
          refine ⟨hempty.1 hoi.1.1, hin.1 hoi.1.2, fun ho => ?_⟩
          rw [hout.2 ho] at hoi; cases hoi.2
      · have hcp : connectParts (a0 :: b :: rest) = .ok st.conns := by
          simp only [connectParts]; rw [hw]; simp only [hoi]; rfl
        refine ⟨⟨fun _ => Or.inr ⟨hsm, hrows, ?_⟩, fun _ => ⟨_, hcp⟩⟩, ?_⟩
        · rintro ⟨he, hi, ho⟩
          apply hoi
          have hout' : st.anyOut = false := by
            cases hso : st.anyOut with
            | false => rfl
            | true => exact absurd (hout.1 hso) ho
          simp [hempty.2 he, hin.2 hi, hout']
        · intro r hr c
          rw [hcp] at hr
          cases hr
          rw [h1 c]
          simp

/-! ## the description does not depend on the order of the participants -/

theorem rowAt_perm {p1 p2 : List Part} (h : p1.Perm p2) (np : List String) :
    (rowAt p1 np).Perm (rowAt p2 np) := by
  unfold rowAt
  exact h.flatMap_right _

theorem rowOk_perm {r1 r2 : List RowItem} (h : r1.Perm r2) : RowOk r1 → RowOk r2 := by
  rintro ⟨hk, hw, hi, ho, hd, hc⟩
  have hm : ∀ x, x ∈ r2 → x ∈ r1 := fun x hx => h.mem_iff.2 hx
  refine ⟨?_, ?_, ?_, ?_, ?_, ?_⟩
  · rcases hk with hk | hk
    · exact Or.inl fun x hx => hk x (hm x hx)
    · exact Or.inr fun x hx => hk x (hm x hx)
  · exact fun x hx y hy => hw x (hm x hx) y (hm y hy)
  · exact fun x hx y hy => hi x (hm x hx) y (hm y hy)
  · unfold OneOutput at ho ⊢
    rw [← (h.filter isOutE).length_eq]; exact ho
  · exact fun i hi' o ho' => hd i (hm i hi') o (hm o ho')
  · exact fun i hi' o ho' => hc i (hm i hi') o (hm o ho')

theorem isConn_perm {p1 p2 : List Part} (h : p1.Perm p2) (c : Conn) : IsConn p1 c → IsConn p2 c := by
  rintro ⟨i, hi, o, ho, rest⟩
  exact ⟨i, h.mem_iff.1 hi, o, h.mem_iff.1 ho, rest⟩

theorem accepts_perm {p1 p2 : List Part} (h : p1.Perm p2) : Accepts p1 → Accepts p2 := by
  rintro (hl | ⟨hs, hr, ho⟩)
  · exact Or.inl (h.length_eq ▸ hl)
  · refine Or.inr ⟨?_, ?_, ?_⟩
    · exact fun a ha b hb => hs a (h.mem_iff.2 ha) b (h.mem_iff.2 hb)
    · intro np hnp
      have hnp' : np ∈ allPaths p1 := by
        simp only [allPaths, List.mem_flatMap] at hnp ⊢
        obtain ⟨p, hp, hx⟩ := hnp
        exact ⟨p, h.mem_iff.2 hp, hx⟩
      exact rowOk_perm (rowAt_perm h np) (hr np hnp')
    · rintro ⟨he, hi, hout⟩
      apply ho
      refine ⟨?_, ?_, ?_⟩
      · rw [conns_nil_iff] at he ⊢
        exact fun c hc => he c (isConn_perm h c hc)
      · obtain ⟨p, hp, rest⟩ := hi
        exact ⟨p, h.mem_iff.2 hp, rest⟩
      · rintro ⟨p, hp, rest⟩
        exact hout ⟨p, h.mem_iff.1 hp, rest⟩

/-! ## the members of a well-formed signature have distinct paths -/

mutual
theorem Sig.entries_prefix (fl : Bool) (pre : List Seg) : (s : Sig) → ∀ e ∈ Sig.entries fl pre s,
    ∃ n rest, n ∈ s.names ∧ e.path = pre.map (·.1) ++ n :: rest
  | .nil, e, h => by simp [Sig.entries] at h
  | .cons n m r, e, h => by
    simp only [Sig.entries, List.mem_append] at h
    rcases h with h | h
    · obtain ⟨rest, hr⟩ := Member.entries_prefix fl _ m e h
      exact ⟨n, rest, by simp [Sig.names], by simp [hr]⟩
    · obtain ⟨n', rest, hn, hr⟩ := Sig.entries_prefix fl pre r e h
      exact ⟨n', rest, by simp [Sig.names, hn], hr⟩
theorem Member.entries_prefix (fl : Bool) (segs : List Seg) : (m : Member) → ∀ e ∈ Member.entries fl segs m,
    ∃ rest, e.path = segs.map (·.1) ++ rest
  | .port f p d, e, h => by
    simp only [Member.entries, List.mem_singleton] at h
    exact ⟨[], by simp [h, Entry.path]⟩
  | .iface f df s d, e, h => by
    simp only [Member.entries, List.mem_cons] at h
    rcases h with h | h
    · exact ⟨[], by simp [h, Entry.path]⟩
    · obtain ⟨n, rest, _, hr⟩ := Sig.entries_prefix _ segs s e h
      exact ⟨n :: rest, hr⟩
end

mutual
theorem Sig.entries_nodup (fl : Bool) (pre : List Seg) : (s : Sig) → s.wf = true →
    (Sig.entries fl pre s).Pairwise (fun a b => a.path ≠ b.path)
  | .nil, _ => by simp [Sig.entries]
  | .cons n m r, hwf => by
    simp only [Sig.wf, Bool.and_eq_true, Bool.not_eq_true', List.contains_eq_mem, decide_eq_false_iff_not] at hwf
    obtain ⟨⟨hn, hm⟩, hr⟩ := hwf
    simp only [Sig.entries, List.pairwise_append]
    refine ⟨Member.entries_nodup fl _ m hm, Sig.entries_nodup fl pre r hr, ?_⟩
    intro a ha b hb heq
    obtain ⟨rest, hq⟩ := Member.entries_prefix fl _ m a ha
    obtain ⟨n', rest', hn', hq'⟩ := Sig.entries_prefix fl pre r b hb
    rw [hq, hq'] at heq
    simp at heq
    exact hn (heq.1 ▸ hn')
theorem Member.entries_nodup (fl : Bool) (segs : List Seg) : (m : Member) → m.wf = true →
    (Member.entries fl segs m).Pairwise (fun a b => a.path ≠ b.path)
  | .port f p d, _ => by simp [Member.entries]
  | .iface f df s d, hwf => by
    simp only [Member.wf] at hwf
    simp only [Member.entries, List.pairwise_cons]
    refine ⟨?_, Sig.entries_nodup _ segs s hwf⟩
    intro b hb heq
    obtain ⟨n, rest, _, hq⟩ := Sig.entries_prefix _ segs s b hb
    rw [hq] at heq
    have := congrArg List.length heq
    simp [Entry.path] at this
end

theorem Arg.pathsNodup (a : Arg) (h : a.sv.2.wf = true) : PathsNodup a.toPart := by
  unfold PathsNodup Arg.toPart Arg.view
  rw [List.nodup_iff_pairwise_ne, List.pairwise_map]
  exact Sig.entries_nodup a.sv.1 [] a.sv.2 h


mutual
theorem Sig.entries_segs (fl : Bool) (pre : List Seg) : (s : Sig) → ∀ e ∈ Sig.entries fl pre s,
    ∃ t, e.segs = pre ++ t
  | .nil, e, h => by simp [Sig.entries] at h
  | .cons n m r, e, h => by
    simp only [Sig.entries, List.mem_append] at h
    rcases h with h | h
    · obtain ⟨t, ht⟩ := Member.entries_segs fl _ m e h
      exact ⟨(n, m.dims) :: t, by simp [ht]⟩
    · exact Sig.entries_segs fl pre r e h
theorem Member.entries_segs (fl : Bool) (segs : List Seg) : (m : Member) → ∀ e ∈ Member.entries fl segs m,
    ∃ t, e.segs = segs ++ t
  | .port f p d, e, h => by
    simp only [Member.entries, List.mem_singleton] at h
    exact ⟨[], by simp [h]⟩
  | .iface f df s d, e, h => by
    simp only [Member.entries, List.mem_cons] at h
    rcases h with h | h
    · exact ⟨[], by simp [h]⟩
    · exact Sig.entries_segs _ segs s e h
end

/-! ## leaves (`Signature.flatten`) and members (`SignatureMembers.flatten`) -/

theorem mem_expand_cons {n : String} {d : List Nat} {rest : List Seg} {p : Path} :
    p ∈ expand ((n, d) :: rest) ↔ ∃ ix ∈ indices d, ∃ q ∈ expand rest, p = Item.name n :: idxPath ix ++ q := by
  simp only [expand, List.mem_flatMap, List.mem_map]
  constructor
  · rintro ⟨ix, hix, q, hq, rfl⟩; exact ⟨ix, hix, q, hq, rfl⟩
  · rintro ⟨ix, hix, q, hq, rfl⟩; exact ⟨ix, hix, q, hq, rfl⟩

def IsPortLeaf (e : Entry) (l : Leaf) : Prop := e.view = .port l.flow l.port

mutual
theorem Sig.leaves_entries (fl : Bool) (pre : Path) (preS : List Seg) : (s : Sig) → ∀ p l,
    (p, l) ∈ Sig.leavesAux fl pre s ↔
      ∃ e ∈ Sig.entries fl preS s, IsPortLeaf e l ∧ ∃ tail, e.segs = preS ++ tail ∧ ∃ q ∈ expand tail, p = pre ++ q
  | .nil, p, l => by simp [Sig.leavesAux, Sig.entries]
  | .cons n m r, p, l => by
    simp only [Sig.leavesAux, Sig.entries, List.mem_append, Member.leaves_entries fl pre preS n m p l,
      Sig.leaves_entries fl pre preS r p l]
    constructor
    · rintro (⟨e, he, h⟩ | ⟨e, he, h⟩)
      · exact ⟨e, Or.inl he, h⟩
      · exact ⟨e, Or.inr he, h⟩
    · rintro ⟨e, he | he, h⟩
      · exact Or.inl ⟨e, he, h⟩
      · exact Or.inr ⟨e, he, h⟩
theorem Member.leaves_entries (fl : Bool) (pre : Path) (preS : List Seg) (n : String) : (m : Member) → ∀ p l,
    (p, l) ∈ Member.leavesAux fl (pre ++ [.name n]) m ↔
      ∃ e ∈ Member.entries fl (preS ++ [(n, m.dims)]) m, IsPortLeaf e l ∧
        ∃ tail, e.segs = preS ++ tail ∧ ∃ q ∈ expand tail, p = pre ++ q
  | .port f pd d, p, l => by
    simp only [Member.leavesAux, Member.entries, Member.dims, List.mem_map, List.mem_singleton,
      exists_eq_left, IsPortLeaf, Prod.mk.injEq]
    constructor
    · rintro ⟨ix, hix, rfl, rfl⟩
      refine ⟨rfl, [(n, d)], rfl, ?_⟩
      exact ⟨.name n :: idxPath ix, mem_expand_cons.2 ⟨ix, hix, [], by simp [expand], by simp⟩, by simp⟩
    · rintro ⟨hv, tail, ht, q, hq, rfl⟩
      have : tail = [(n, d)] := (List.append_cancel_left ht).symm
      subst this
      obtain ⟨ix, hix, q', hq', rfl⟩ := mem_expand_cons.1 hq
      simp only [expand, List.mem_singleton] at hq'
      subst hq'
      simp only [MView.port.injEq] at hv
      refine ⟨ix, hix, by simp, ?_⟩
      cases l
      simp_all
  | .iface f df s d, p, l => by
    simp only [Member.leavesAux, Member.entries, Member.dims, List.mem_flatMap, List.mem_cons]
    constructor
    · rintro ⟨ix, hix, hmem⟩
      obtain ⟨e, he, hv, tail, ht, q, hq, rfl⟩ :=
        (Sig.leaves_entries (subFlag fl f df) (pre ++ [.name n] ++ idxPath ix) (preS ++ [(n, d)]) s p l).1 hmem
      refine ⟨e, Or.inr he, hv, (n, d) :: tail, by simp [ht], ?_⟩
      exact ⟨.name n :: idxPath ix ++ q, mem_expand_cons.2 ⟨ix, hix, q, hq, rfl⟩, by simp⟩
    · rintro ⟨e, he | he, hv, tail, ht, q, hq, rfl⟩
      · subst he; simp [IsPortLeaf] at hv
      · obtain ⟨tail', ht'⟩ := Sig.entries_segs (subFlag fl f df) (preS ++ [(n, d)]) s e he
        have htail : tail = (n, d) :: tail' := by
          rw [ht'] at ht
          simp only [List.append_assoc, List.singleton_append] at ht
          exact (List.append_cancel_left ht).symm
        subst htail
        obtain ⟨ix, hix, q', hq', rfl⟩ := mem_expand_cons.1 hq
        refine ⟨ix, hix, ?_⟩
        exact (Sig.leaves_entries (subFlag fl f df) (pre ++ [.name n] ++ idxPath ix) (preS ++ [(n, d)]) s
          (pre ++ (Item.name n :: idxPath ix ++ q')) l).2 ⟨e, he, hv, tail', ht', q', hq', by simp⟩
end


/-! ## an indexed path determines the member path -/

def pathNames (p : Path) : List String := p.filterMap fun | .name s => some s | .idx _ => none

theorem pathNames_idxPath (ix : List Nat) : pathNames (idxPath ix) = [] := by
  induction ix with
  | nil => rfl
  | cons a as ih => simpa [pathNames, idxPath] using ih

theorem pathNames_append (p q : Path) : pathNames (p ++ q) = pathNames p ++ pathNames q := by
  simp [pathNames, List.filterMap_append]

theorem expand_names : ∀ (segs : List Seg) (p : Path), p ∈ expand segs → pathNames p = segs.map (·.1)
  | [], p, h => by simp [expand] at h; simp [h, pathNames]
  | (n, d) :: rest, p, h => by
    obtain ⟨ix, _, q, hq, rfl⟩ := mem_expand_cons.1 h
    have := expand_names rest q hq
    have h1 : pathNames (Item.name n :: idxPath ix ++ q) = n :: pathNames (idxPath ix ++ q) := by
      simp [pathNames]
    rw [h1, pathNames_append, pathNames_idxPath, this]
    simp

theorem expand_path_eq {e1 e2 : Entry} {p : Path} (h1 : p ∈ expand e1.segs) (h2 : p ∈ expand e2.segs) :
    e1.path = e2.path := by
  unfold Entry.path
  rw [← expand_names _ p h1, ← expand_names _ p h2]


/-! ## the assertion about array dimensions can only fail when dimensions differ -/

theorem concatM_error {α β ε} {f : α → Except ε (List β)} {l : List α} {e : ε}
    (h : concatM f l = .error e) : ∃ x ∈ l, f x = .error e := by
  induction l with
  | nil => simp [concatM] at h
  | cons x xs ih =>
    simp only [concatM] at h
    split at h
    · rename_i e' he'
      simp only [Except.error.injEq] at h
      exact ⟨x, by simp, h ▸ he'⟩
    · split at h
      · rename_i e' he'
        simp only [Except.error.injEq] at h
        obtain ⟨y, hy, hfy⟩ := ih (h ▸ he')
        exact ⟨y, by simp [hy], hfy⟩
      · cases h

theorem connectValue_not_dims (i o : Part) (p : Path) : connectValue i o p ≠ .error .dims := by
  unfold connectValue
  cases i.constAt p with
  | none => simp
  | some ci =>
    cases o.constAt p with
    | none => simp
    | some co => by_cases h : ci = co <;> simp [h]

theorem connectIn_dims {o i : RowItem} (h : connectIn o i = .error .dims) : i.2.segs ≠ o.2.segs := by
  intro hs
  unfold connectIn at h
  simp only [hs, bne_self_eq_false, Bool.false_eq_true, if_false] at h
  obtain ⟨p, _, hp⟩ := concatM_error h
  exact connectValue_not_dims _ _ _ hp

theorem checkShapes_not_dims (f : RowItem) (l : List RowItem) : checkShapes f l ≠ .error .dims := by
  induction l with
  | nil => simp [checkShapes]
  | cons x xs ih =>
    simp only [checkShapes]
    split
    · simp
    · split
      · simp
      · exact ih

theorem checkShapesAll_not_dims (l : List RowItem) : checkShapesAll l ≠ .error .dims := by
  cases l with
  | nil => simp [checkShapesAll]
  | cons f rest => exact checkShapes_not_dims f rest

theorem processRow_dims {row : List RowItem} (h : processRow row = .error .dims) :
    ∃ i ∈ row, ∃ o ∈ row, i.2.segs ≠ o.2.segs := by
  unfold processRow at h
  simp only at h
  split at h
  · cases h
  · split at h
    · cases h
    · split at h
      · rename_i e he
        simp only [Except.error.injEq] at h
        exact absurd (h ▸ he) (checkShapesAll_not_dims _)
      · split at h
        · cases h
        · rename_i o ho
          split at h
          · rename_i e he
            simp only [Except.error.injEq] at h
            obtain ⟨i, hi, hci⟩ := concatM_error (h ▸ he)
            have ho' : o ∈ row.filter isOutE := by rw [ho]; simp
            exact ⟨i, (List.mem_filter.1 hi).1, o, (List.mem_filter.1 ho').1, connectIn_dims hci⟩
          · cases h
        · cases h

/-- where a row item of the walk comes from -/
def Src (a0 : Part) (l0 : List Entry) (cs : List Cursor) (x : RowItem) : Prop :=
  (x.1 = a0 ∧ x.2 ∈ l0) ∨ ∃ c ∈ cs, x.1 = c.1 ∧ x.2 ∈ c.2

theorem walk_dims (a0 : Part) : ∀ (l0 : List Entry) (cs : List Cursor) (st : St),
    walk a0 l0 cs st = .error .dims →
    ∃ x y, Src a0 l0 cs x ∧ Src a0 l0 cs y ∧ x.2.path = y.2.path ∧ x.2.segs ≠ y.2.segs
  | [], cs, st, h => by
    simp only [walk] at h
    split at h <;> cases h
  | e :: es, cs, st, h => by
    by_cases hh : HeadsAt e.path cs
    · have hpop := popHeads_ok hh
      have hsrc : ∀ x ∈ (a0, e) :: headItems cs, Src a0 (e :: es) cs x ∧ x.2.path = e.path := by
        intro x hx
        simp only [List.mem_cons] at hx
        rcases hx with rfl | hx
        · exact ⟨Or.inl ⟨rfl, by simp⟩, rfl⟩
        · simp only [headItems, List.mem_map] at hx
          obtain ⟨c, hc, rfl⟩ := hx
          obtain ⟨e', l', hl, he'⟩ := hh c hc
          refine ⟨Or.inr ⟨c, hc, rfl, ?_⟩, ?_⟩
          · simp [hl]
          · simp [hl, he']
      cases hpr : processRow ((a0, e) :: headItems cs) with
      | error err =>
        have hw : walk a0 (e :: es) cs st = .error err := by simp [walk, hpop, hpr]
        rw [hw] at h
        simp only [Except.error.injEq] at h
        subst h
        obtain ⟨i, hi, o, ho, hne⟩ := processRow_dims hpr
        exact ⟨i, o, (hsrc i hi).1, (hsrc o ho).1, (hsrc i hi).2.trans (hsrc o ho).2.symm, hne⟩
      | ok res =>
        obtain ⟨csr, i, o⟩ := res
        have hw : walk a0 (e :: es) cs st =
            walk a0 es (tailsOf cs) ⟨st.conns ++ csr, st.anyIn || i, st.anyOut || o⟩ := by
          simp [walk, hpop, hpr]
        rw [hw] at h
        obtain ⟨x, y, hx, hy, hp, hne⟩ := walk_dims a0 es (tailsOf cs) _ h
        have lift : ∀ z, Src a0 es (tailsOf cs) z → Src a0 (e :: es) cs z := by
          rintro z (⟨h1, h2⟩ | ⟨c, hc, h1, h2⟩)
          · exact Or.inl ⟨h1, by simp [h2]⟩
          · simp only [tailsOf, List.mem_map] at hc
            obtain ⟨c0, hc0, rfl⟩ := hc
            exact Or.inr ⟨c0, hc0, h1, List.mem_of_mem_tail h2⟩
        exact ⟨x, y, lift x hx, lift y hy, hp, hne⟩
    · have hw : walk a0 (e :: es) cs st = .error .missing := by simp [walk, popHeads_err hh]
      rw [hw] at h; cases h

/-- with equal array dimensions, `connect` never fails its assertion (`AssertionError`): every
refusal is a `ConnectionError` -/
theorem connectParts_not_dims (parts : List Part) (hd : EqualDims parts) :
    connectParts parts ≠ .error .dims := by
  intro h
  match parts, hd, h with
  | [], _, h => simp [connectParts] at h
  | [a], _, h => simp [connectParts] at h
  | a0 :: b :: rest, hd, h =>
    simp only [connectParts] at h
    split at h
    · rename_i e he
      simp only [Except.error.injEq] at h
      subst h
      obtain ⟨x, y, hx, hy, hp, hne⟩ := walk_dims a0 _ _ _ he
      have mem : ∀ z, Src a0 (sortEntries a0.members) ((b :: rest).map fun a => (a, sortEntries a.members)) z →
          z.1 ∈ a0 :: b :: rest ∧ z.2 ∈ z.1.members := by
        rintro z (⟨h1, h2⟩ | ⟨c, hc, h1, h2⟩)
        · rw [h1]; exact ⟨by simp, (sortEntries_perm a0.members).mem_iff.1 h2⟩
        · simp only [List.mem_map] at hc
          obtain ⟨a, ha, rfl⟩ := hc
          simp only at h1 h2
          rw [h1]; exact ⟨by simp [List.mem_cons] at ha ⊢; exact Or.inr ha, (sortEntries_perm a.members).mem_iff.1 h2⟩
      obtain ⟨hx1, hx2⟩ := mem x hx
      obtain ⟨hy1, hy2⟩ := mem y hy
      exact hne (hd x.1 hx1 y.1 hy1 x.2 hx2 y.2 hy2 hp)
    · split at h <;> cases h

/-! ## glue used by `Properties/C14.lean` -/

theorem parts_nodup (args : List Arg) (hwf : ∀ a ∈ args, a.sv.2.wf = true) :
    ∀ p ∈ args.map Arg.toPart, PathsNodup p := by
  intro p hp
  obtain ⟨a, ha, rfl⟩ := List.mem_map.1 hp
  exact Arg.pathsNodup a (hwf a ha)

theorem isInE_iff {a : Part} {e : Entry} : isInE (a, e) = true ↔ ∃ pd, e.view = .port .in pd := by
  obtain ⟨segs, v⟩ := e
  cases v with
  | iface => simp [isInE]
  | port f p => cases f <;> simp [isInE]

theorem isOutE_iff {a : Part} {e : Entry} : isOutE (a, e) = true ↔ ∃ pd, e.view = .port .out pd := by
  obtain ⟨segs, v⟩ := e
  cases v with
  | iface => simp [isOutE]
  | port f p => cases f <;> simp [isOutE]

theorem mem_flatten_iff (a : Arg) (p : Path) (l : Leaf) :
    (p, l) ∈ a.sv.flatten ↔ ∃ e ∈ a.view, e.view = .port l.flow l.port ∧ p ∈ expand e.segs := by
  have := Sig.leaves_entries a.sv.1 [] [] a.sv.2 p l
  simp only [List.nil_append, IsPortLeaf] at this
  unfold SigV.flatten Arg.view
  rw [this]
  constructor
  · rintro ⟨e, he, hv, tail, rfl, q, hq, rfl⟩; exact ⟨e, he, hv, hq⟩
  · rintro ⟨e, he, hv, hq⟩; exact ⟨e, he, hv, e.segs, rfl, p, hq, rfl⟩

end Amaranth.Wiring
