import AmaranthVerif.Proofs.Res

/-! # The un-repaired allocator (`requestLeaky`) still never grants a pin twice -/

namespace Amaranth.Res

/-- `b` extends `a`: `a` is still there, only new entries were appended -/
def Extends (a b : List String) : Prop := ∃ added, b = a ++ added

theorem Extends.refl (a : List String) : Extends a a := ⟨[], by simp⟩
theorem Extends.trans {a b c : List String} (h1 : Extends a b) (h2 : Extends b c) : Extends a c := by
  obtain ⟨x, rfl⟩ := h1
  obtain ⟨y, rfl⟩ := h2
  exact ⟨x ++ y, by simp⟩
theorem Extends.mem {a b : List String} (h : Extends a b) {x : String} (hx : x ∈ a) : x ∈ b := by
  obtain ⟨y, rfl⟩ := h
  exact List.mem_append_left _ hx

theorem recordPinsL_keeps (path : List String) : ∀ (xs : List String) (reqd : List (String × List String)),
    Extends (reqd.map (·.1)) ((recordPinsL path reqd xs).1.map (·.1)) ∧
    ((reqd.map (·.1)).Nodup → ((recordPinsL path reqd xs).1.map (·.1)).Nodup)
  | [], reqd => by simp [recordPinsL, Extends.refl]
  | x :: xs, reqd => by
    by_cases hx : x ∈ reqd.map (·.1)
    · rw [recordPinsL, if_pos hx]
      exact ⟨Extends.refl _, id⟩
    · rw [recordPinsL, if_neg hx]
      have ih := recordPinsL_keeps path xs (reqd ++ [(x, path)])
      refine ⟨Extends.trans ⟨[x], by simp⟩ ih.1, fun hn => ih.2 ?_⟩
      simp only [List.map_append, List.map_cons, List.map_nil]
      exact List.nodup_append.mpr ⟨hn, by simp, fun a ha b hb hab => by
        simp only [List.mem_singleton] at hb; subst hb; subst hab; exact hx ha⟩

theorem finishLeafL_keeps (s : State) (pl : Planned) (port : PortM) :
    Extends s.physPins (finishLeafL s pl port).1.physPins ∧
    (s.physPins.Nodup → (finishLeafL s pl port).1.physPins.Nodup) := by
  have h := recordPinsL_keeps pl.leaf.path port.pins s.physReqd
  unfold finishLeafL
  rcases hrec : recordPinsL pl.leaf.path s.physReqd port.pins with ⟨reqd, r⟩
  rw [hrec] at h
  cases r with
  | error e => exact h
  | ok u =>
    cases pl.rdir with
    | dash => exact h
    | bad => exact h
    | dir d =>
      simp only
      split <;> exact h

theorem resolveLeafL_keeps (m : List (String × String)) (fuel : Nat) (s : State) (pl : Planned) :
    Extends s.physPins (resolveLeafL m fuel s pl).1.physPins ∧
    (s.physPins.Nodup → (resolveLeafL m fuel s pl).1.physPins.Nodup) := by
  unfold resolveLeafL
  cases plannedPortE m fuel pl with
  | error e => exact ⟨Extends.refl _, id⟩
  | ok port =>
    have h := finishLeafL_keeps (addClock s port.clockName pl.leaf.clock) pl port
    rw [physPins_addClock] at h
    exact h

theorem resolveAllL_keeps (m : List (String × String)) (fuel : Nat) : ∀ (pls : List Planned) (s : State),
    Extends s.physPins (resolveAllL m fuel s pls).1.physPins ∧
    (s.physPins.Nodup → (resolveAllL m fuel s pls).1.physPins.Nodup)
  | [], s => ⟨Extends.refl _, id⟩
  | pl :: pls, s => by
    have h1 := resolveLeafL_keeps m fuel s pl
    unfold resolveAllL
    rcases hl : resolveLeafL m fuel s pl with ⟨s1, r⟩
    rw [hl] at h1
    cases r with
    | error e => exact h1
    | ok g =>
      have h2 := resolveAllL_keeps m fuel pls s1
      simp only
      rcases hr : resolveAllL m fuel s1 pls with ⟨s2, r2⟩
      rw [hr] at h2
      cases r2 with
      | error e => exact ⟨h1.1.trans h2.1, fun hn => h2.2 (h1.2 hn)⟩
      | ok gs => exact ⟨h1.1.trans h2.1, fun hn => h2.2 (h1.2 hn)⟩

theorem requestLeaky_keeps (t : Table) (s : State) (r : Req) :
    Extends s.physPins (requestLeaky t s r).1.physPins ∧
    (s.physPins.Nodup → (requestLeaky t s r).1.physPins.Nodup) := by
  unfold requestLeaky
  cases t.lookup r.key with
  | none => exact ⟨Extends.refl _, id⟩
  | some res =>
    simp only
    split
    · exact ⟨Extends.refl _, id⟩
    · cases res.plan r.dir r.xdr with
      | error e => exact ⟨Extends.refl _, id⟩
      | ok pls =>
        have h := resolveAllL_keeps t.mapping t.fuel pls s
        simp only
        rcases hr : resolveAllL t.mapping t.fuel s pls with ⟨s', o⟩
        rw [hr] at h
        cases o with
        | error e => exact h
        | ok gs => exact h

/-- a request the un-repaired code grants: its pins are distinct and were not recorded before -/
theorem requestLeaky_granted_free (t : Table) (s s' : State) (r : Req) (gs : List LeafGrant)
    (h : requestLeaky t s r = (s', .ok gs)) : Free s.physPins (grantPins gs) ∧
      ∀ x ∈ grantPins gs, x ∈ s'.physPins := by
  have hq : request t s r = .ok (s', gs) := by simp [request, h]
  have g := request_ok t s r s' gs hq
  refine ⟨g.free, fun x hx => ?_⟩
  rw [g.phys]
  exact List.mem_append_right _ hx

theorem runLeaky_disjoint (t : Table) : ∀ (rs : List Req) (s : State), s.physPins.Nodup →
    (outcomePins (runLeaky t s rs).2).Nodup ∧ ∀ x ∈ outcomePins (runLeaky t s rs).2, x ∉ s.physPins
  | [], s, _ => by simp [runLeaky, outcomePins]
  | r :: rs, s, hn => by
    have hk := requestLeaky_keeps t s r
    rcases hq : requestLeaky t s r with ⟨s1, o⟩
    rw [hq] at hk
    have ih := runLeaky_disjoint t rs s1 (hk.2 hn)
    cases o with
    | error e =>
      have hs : stepLeaky t s r = (s1, .refused e) := by simp [stepLeaky, hq]
      simp only [runLeaky, hs, outcomePins, List.flatMap_cons, Outcome.pins, List.nil_append]
      exact ⟨ih.1, fun x hx hxs => ih.2 x hx (hk.1.mem hxs)⟩
    | ok gs =>
      have hs : stepLeaky t s r = (s1, .granted gs) := by simp [stepLeaky, hq]
      have hf := requestLeaky_granted_free t s s1 r gs hq
      simp only [runLeaky, hs, outcomePins, List.flatMap_cons, Outcome.pins]
      refine ⟨List.nodup_append.mpr ⟨hf.1.1, ih.1, fun a ha b hb hab => ?_⟩, fun x hx hxs => ?_⟩
      · subst hab; exact ih.2 a hb (hf.2 a ha)
      · rcases List.mem_append.mp hx with hx | hx
        · exact hf.1.2 x hx hxs
        · exact ih.2 x hx (hk.1.mem hxs)

end Amaranth.Res
