import AmaranthVerif.Proofs.EngineReindex2

/-!
# The compiled process removed, the user process appended

`add_process` appends the user process to the engine's process collection, and the fragment whose
logic it replaces is no longer compiled: the process list is `pre ++ post ++ [user]` instead of
`pre ++ compiled :: post`. Combining the same-position equivalence (`comb_equiv_runs`,
`sync_equiv_runs`), the re-indexing theorem (`reindex_sameobs`) and schedule independence of the
resulting simulation (`mkSim_runs_on`), the two simulations make the same observations under any two
schedules that iterate the same owners and slots at every delta.
-/

namespace Amaranth.Engine
open Amaranth

/-- chain: `A` under `a` ~ same-position `B` under `a` ~ appended `B'` under `a` re-indexed = `B'` under `b'` -/
theorem appended_chain (D : Design) (pre post : List ProcKind) (kA kB : ProcKind) (scripts : List (List TbOp))
    (a b' : Sched) (fuel : Nat)
    (hsame : ∀ n, SameObs (advanceN (mkSim D (pre ++ kA :: post) scripts a fuel) n (initState D (pre ++ kA :: post) scripts))
        (advanceN (mkSim D (pre ++ kB :: post) scripts a fuel) n (initState D (pre ++ kB :: post) scripts)) ∧
      SameObs (run (mkSim D (pre ++ kA :: post) scripts a fuel) n (initState D (pre ++ kA :: post) scripts))
        (run (mkSim D (pre ++ kB :: post) scripts a fuel) n (initState D (pre ++ kB :: post) scripts)) ∧
      ∀ dl, SameObs (runUntil (mkSim D (pre ++ kA :: post) scripts a fuel) dl n (initState D (pre ++ kA :: post) scripts))
        (runUntil (mkSim D (pre ++ kB :: post) scripts a fuel) dl n (initState D (pre ++ kB :: post) scripts)))
    (hnd : SchedNodup a) (hl : SchedLists a (pre.length + 1 + post.length))
    (hpair : (pre ++ post ++ [kB]).Pairwise (PairOK D)) (harst : arstWf D (pre ++ post ++ [kB]) = true)
    (he : SchedEquiv (moveSched pre.length (pre.length + 1 + post.length) a) b') (n : Nat) :
    SameObs (advanceN (mkSim D (pre ++ kA :: post) scripts a fuel) n (initState D (pre ++ kA :: post) scripts))
      (advanceN (mkSim D (pre ++ post ++ [kB]) scripts b' fuel) n (initState D (pre ++ post ++ [kB]) scripts)) ∧
    SameObs (run (mkSim D (pre ++ kA :: post) scripts a fuel) n (initState D (pre ++ kA :: post) scripts))
      (run (mkSim D (pre ++ post ++ [kB]) scripts b' fuel) n (initState D (pre ++ post ++ [kB]) scripts)) ∧
    ∀ dl, SameObs (runUntil (mkSim D (pre ++ kA :: post) scripts a fuel) dl n (initState D (pre ++ kA :: post) scripts))
      (runUntil (mkSim D (pre ++ post ++ [kB]) scripts b' fuel) dl n (initState D (pre ++ post ++ [kB]) scripts)) := by
  have hp : pre.length < pre.length + 1 + post.length := by omega
  have hlen : (pre ++ post ++ [kB]).length = pre.length + 1 + post.length := by simp; omega
  obtain ⟨s1, s2, s3⟩ := hsame n
  obtain ⟨r1, r2, r3⟩ := reindex_sameobs D _ _ _ _ (move_kinds D pre post kB) scripts
    (moveSched pre.length (pre.length + 1 + post.length) a) fuel n
  rw [mapSched_moveSched _ _ hp] at r1 r2 r3
  obtain ⟨p1, p2, p3⟩ := mkSim_runs_on D (pre ++ post ++ [kB]) scripts
    (moveSched pre.length (pre.length + 1 + post.length) a) b' fuel hpair
    (by rw [hlen]; exact moveSched_lists _ _ hp a hl) (moveSched_nodup _ _ hp a hnd) he n _
    (initState_arstInv D _ scripts harst)
  exact ⟨(s1.trans r1.symm).trans (SameObs.of_eq p1.1.symm), (s2.trans r2.symm).trans (SameObs.of_eq p2.1.symm),
    fun dl => ((s3 dl).trans (r3 dl).symm).trans (SameObs.of_eq (p3 dl).1.symm)⟩

end Amaranth.Engine
