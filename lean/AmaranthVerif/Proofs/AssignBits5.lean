import AmaranthVerif.Proofs.AssignBits4

/-!
# One compiled assignment writes exactly the addressed, in-range bits

`assign_rtl_bits`: for every well-formed target in which no signal bit is addressed twice below a
slice or part-select (`noAlias`; false without it: finding F9), the read-modify-write code of
`_LHSValueCompiler` stores bit `k` of the assigned value in the location position `k` of the target
addresses, drops the positions that address nothing, and leaves every other bit of every signal as
it was. Hence the compiled assignment equals the Spec (`assign_rtl_eq_spec`).
-/

namespace Amaranth

/-- the read-modify-write expression of `on_Slice` / `on_Part` -/
theorem rmw_bits (X arg : Int) (s n k : Nat) :
    ibit (pyOr (pyAnd X (pyNot (pyShl (pyShl 1 n - 1) s))) (pyShl (pyAnd (pyShl 1 n - 1) arg) s)) k =
      if s ≤ k ∧ k < s + n then ibit arg (k - s) else ibit X k := by
  rw [ibit_pyOr, ibit_pyAnd, ibit_pyNot, ibit_pyShl, ibit_pyShl, ibit_pyAnd, ibit_ones]
  by_cases h1 : s ≤ k
  · by_cases h2 : k - s < n
    · have hw : s ≤ k ∧ k < s + n := ⟨h1, by omega⟩
      rw [if_pos hw]
      simp only [h1, h2, decide_true, Bool.true_and, Bool.not_true, Bool.and_false, Bool.false_or]
    · have hw : ¬ (s ≤ k ∧ k < s + n) := by omega
      rw [if_neg hw]
      simp only [h1, h2, decide_true, decide_false, Bool.true_and, Bool.false_and, Bool.not_false, Bool.and_true,
        Bool.or_false]
  · have hw : ¬ (s ≤ k ∧ k < s + n) := by omega
    rw [if_neg hw]
    simp only [h1, decide_false, Bool.false_and, Bool.not_false, Bool.and_true, Bool.or_false]

theorem Shape.unify_width_ge (a b : Shape) :
    a.width ≤ (Shape.unify a b).width ∧ b.width ≤ (Shape.unify a b).width := by
  obtain ⟨aw, asg⟩ := a; obtain ⟨bw, bsg⟩ := b
  cases asg <;> cases bsg <;> simp [Shape.unify] <;> omega

section
variable (ctx : Ctx) (cur : Env)

/-- no signal bit is addressed twice by the operand of a slice or part-select -/
def Expr.noAlias : Expr → Prop
  | .op1 .u a => a.noAlias
  | .op1 .s a => a.noAlias
  | .slice a _ _ => (somes (lbits ctx cur a)).Nodup ∧ a.noAlias
  | .part a _ _ _ => (somes (lbits ctx cur a)).Nodup ∧ a.noAlias
  | .cat lo hi => lo.noAlias ∧ hi.noAlias
  | .ite _ _ thn els => thn.noAlias ∧ els.noAlias
  | _ => True

/-- the statement proved by induction over the target -/
def WritesBits (e : Expr) : Prop :=
  ∀ (arg : Int) (nxt : Env), EnvN ctx nxt →
    EnvN ctx (assignRtlG ctx cur e arg nxt) ∧
    ∀ i b, i < ctx.length → b < (ctx.shape i).width →
      bitAt (assignRtlG ctx cur e arg nxt) i b =
        match lastWrite (lbits ctx cur e) 0 i b with
        | some k => ibit arg k
        | none => bitAt nxt i b

variable (hok : EnvOk ctx cur)

theorem sig_lbits_getD (j k : Nat) (h : k < (ctx.shape j).width) :
    (lbits ctx cur (.sig j)).getD k none = some (j, k) := by
  simp [lbits, List.getD_eq_getElem?_getD, h]

theorem sig_lbits_nodup (j : Nat) : (somes (lbits ctx cur (.sig j))).Nodup := by
  unfold somes
  simp only [lbits, List.filterMap_map]
  have : (List.range (ctx.shape j).width).filterMap (id ∘ fun b => some (j, b)) =
      (List.range (ctx.shape j).width).map (fun b => (j, b)) := by
    induction (List.range (ctx.shape j).width) with
    | nil => rfl
    | cons x xs ih => simp [List.filterMap_cons, ih]
  rw [this]
  exact List.Pairwise.map (fun b => (j, b)) (fun a b h e => h (by simpa using e)) List.nodup_range

include hok in
theorem assign_rtl_bits : ∀ (e : Expr), e.twf ctx = true → e.noAlias ctx cur → WritesBits ctx cur e := by
  intro e
  induction e with
  | const v s => intro _ _ arg nxt hE; exact ⟨hE, fun i b _ _ => by simp [assignRtlG, lbits, lastWrite]⟩
  | sig j =>
    intro h _ arg nxt hE
    simp only [Expr.twf, decide_eq_true_eq] at h
    simp only [assignRtlG]
    refine ⟨hE.put j _ (fun _ => norm_contains _ (hE.ok j h).1 _), fun i b hi hb => ?_⟩
    unfold bitAt
    by_cases hij : i = j
    · subst hij
      rw [val_put_eq nxt i _ (by rw [hE.len]; exact hi), ibit_norm_lt _ _ _ hb,
          lastWrite_of_getD (sig_lbits_nodup ctx cur i) (sig_lbits_getD ctx cur i b hb)]
    · rw [val_put_ne nxt j i _ hij]
      have : lastWrite (lbits ctx cur (.sig j)) 0 i b = none := by
        rw [lastWrite_none_iff]
        simp only [lbits, List.mem_map, List.mem_range, Option.some.injEq, Prod.mk.injEq, not_exists, not_and]
        intro x _ hx; exact fun _ => hij hx.symm
      rw [this]
  | op1 o a ih =>
    intro h hn
    cases o <;> simp only [Expr.twf, Bool.false_eq_true] at h <;>
      (intro arg nxt hE; simp only [assignRtlG, lbits]; exact ih h hn arg nxt hE)
  | op2 o a b _ _ => intro h; simp [Expr.twf] at h
  | slice a s e ih =>
    intro h hn arg nxt hE
    simp only [Expr.twf, Bool.and_eq_true, decide_eq_true_eq] at h
    obtain ⟨hnd, hna⟩ := hn
    simp only [assignRtlG, lbits]
    obtain ⟨h1, h2⟩ := ih h.1.1 hna
      (pyOr (pyAnd (evalLrhs ctx cur nxt a) (pyNot (pyShl (pyShl 1 (e - s) - 1) s))) (pyShl (pyAnd (pyShl 1 (e - s) - 1) arg) s)) nxt hE
    refine ⟨h1, fun i b hi hb => ?_⟩
    rw [h2 i b hi hb, lastWrite_window hnd]
    cases hl : lastWrite (lbits ctx cur a) 0 i b with
    | none => rfl
    | some k =>
      simp only
      rw [rmw_bits]
      obtain ⟨_, _, h3⟩ := lastWrite_bound _ 0 i b k hl
      simp only [Nat.sub_zero] at h3
      by_cases hw : s ≤ k ∧ k < s + (e - s)
      · simp [hw]
      · simp only [hw, if_false]
        exact evalLrhs_bits ctx cur hok nxt a h.1.1 k i b h3
  | part a off w st iha _ =>
    intro h hn arg nxt hE
    simp only [Expr.twf, Bool.and_eq_true, decide_eq_true_eq, Bool.not_eq_true'] at h
    obtain ⟨hnd, hna⟩ := hn
    have hoff := part_offset_eq ctx cur hok off h.1.1.2 h.1.2 st
    simp only [assignRtlG, lbits]
    rw [hoff]
    set o := (denote ctx cur off).toNat * st
    obtain ⟨h1, h2⟩ := iha h.1.1.1 hna
      (pyOr (pyAnd (evalLrhs ctx cur nxt a) (pyNot (pyShl (pyShl 1 w - 1) o))) (pyShl (pyAnd (pyShl 1 w - 1) arg) o)) nxt hE
    refine ⟨h1, fun i b hi hb => ?_⟩
    rw [h2 i b hi hb, lastWrite_padTo, lastWrite_window hnd]
    cases hl : lastWrite (lbits ctx cur a) 0 i b with
    | none => rfl
    | some k =>
      simp only
      rw [rmw_bits]
      obtain ⟨_, _, h3⟩ := lastWrite_bound _ 0 i b k hl
      simp only [Nat.sub_zero] at h3
      by_cases hw : o ≤ k ∧ k < o + w
      · simp [hw]
      · simp only [hw, if_false]
        exact evalLrhs_bits ctx cur hok nxt a h.1.1.1 k i b h3
  | cat lo hi ihlo ihhi =>
    intro h hn arg nxt hE
    simp only [Expr.twf, Bool.and_eq_true] at h
    simp only [assignRtlG, lbits]
    obtain ⟨h1, h2⟩ := ihlo h.1 hn.1 (mask (widthOf ctx lo) (pyShr arg 0)) nxt hE
    obtain ⟨h3, h4⟩ := ihhi h.2 hn.2 (mask (widthOf ctx hi) (pyShr arg (widthOf ctx lo))) _ h1
    refine ⟨h3, fun i b hi' hb => ?_⟩
    have e := lastWrite_append (lbits ctx cur lo) (lbits ctx cur hi) i b
    rw [lbits_length ctx cur lo h.1, lastWrite_shift (lbits ctx cur hi) (widthOf ctx lo)] at e
    rw [h4 i b hi' hb, e]
    cases hl : lastWrite (lbits ctx cur hi) 0 i b with
    | some k =>
      obtain ⟨_, hb2, _⟩ := lastWrite_bound _ 0 i b k hl
      rw [lbits_length ctx cur hi h.2] at hb2
      simp only [Option.map_some]
      rw [ibit_mask, ibit_pyShr]
      have : k < widthOf ctx hi := by omega
      simp only [this, decide_true, Bool.true_and]
    | none =>
      simp only [Option.map_none]
      rw [h2 i b hi' hb]
      cases hl2 : lastWrite (lbits ctx cur lo) 0 i b with
      | some k =>
        obtain ⟨_, hb2, _⟩ := lastWrite_bound _ 0 i b k hl2
        rw [lbits_length ctx cur lo h.1] at hb2
        simp only
        rw [ibit_mask, ibit_pyShr]
        have : k < widthOf ctx lo := by omega
        simp only [this, decide_true, Bool.true_and, Nat.add_zero]
      | none => rfl
  | ite t p thn els _ ihthn ihels =>
    intro h hn arg nxt hE
    simp only [Expr.twf, Bool.and_eq_true] at h
    simp only [assignRtlG, lbits]
    rw [switch_test_eq ctx cur hok t h.1.1.1 p h.2]
    simp only [lastWrite_padTo]
    have hW := Shape.unify_width_ge (shapeOf ctx thn) (shapeOf ctx els)
    have hwid : widthOf ctx (.ite t p thn els) = (Shape.unify (shapeOf ctx thn) (shapeOf ctx els)).width := rfl
    by_cases hm : p.any (fun q => q.matchesSpec (denote ctx cur t)) = true
    · simp only [hm, if_true]
      have hlen := lbits_length ctx cur thn h.1.1.2
      rw [List.take_of_length_le (by rw [hlen, hwid]; unfold widthOf; exact hW.1)]
      exact ihthn h.1.1.2 hn.1 arg nxt hE
    · simp only [hm, Bool.false_eq_true, if_false]
      have hlen := lbits_length ctx cur els h.1.2
      rw [List.take_of_length_le (by rw [hlen, hwid]; unfold widthOf; exact hW.2)]
      exact ihels h.1.2 hn.2 arg nxt hE

include hok in
/-- **The compiled assignment is the Spec's assignment**, on any pending state (for targets without
aliasing under a slice or part-select). -/
theorem assign_rtl_eq_applyBits (e : Expr) (he : e.twf ctx = true) (hn : e.noAlias ctx cur) (v : Int)
    (nxt : Env) (hE : EnvN ctx nxt) :
    assignRtlG ctx cur e v nxt = applyBits ctx (lbits ctx cur e) 0 v nxt := by
  obtain ⟨h1, h2⟩ := assign_rtl_bits ctx cur hok e he hn v nxt hE
  obtain ⟨h3, h4⟩ := applyBits_spec ctx v (lbits ctx cur e) 0 nxt hE (lbits_ok ctx cur e he)
  apply env_ext h1 h3
  intro i b hi hb
  exact (h2 i b hi hb).trans (h4 i b hi hb).symm

include hok in
theorem assign_rtl_eq_spec (e : Expr) (he : e.twf ctx = true) (hn : e.noAlias ctx cur) (v : Int)
    (hE : EnvN ctx cur) : assignRtl ctx cur e v = assignSpec ctx cur e v :=
  assign_rtl_eq_applyBits ctx cur hok e he hn v cur hE

include hok in
/-- a sequence of assignments: compiled = Spec, by induction over the list -/
theorem applyWritesRtl_eq_spec : ∀ (ws : List (Expr × Int)),
    (∀ w ∈ ws, w.1.twf ctx = true ∧ w.1.noAlias ctx cur) → ∀ (nxt : Env), EnvN ctx nxt →
    applyWritesRtl ctx cur ws nxt = applyWrites ctx cur ws nxt ∧ EnvN ctx (applyWrites ctx cur ws nxt) := by
  intro ws
  induction ws with
  | nil => intro _ nxt hE; exact ⟨rfl, hE⟩
  | cons w ws ih =>
    intro h nxt hE
    obtain ⟨l, v⟩ := w
    obtain ⟨h1, h2⟩ := h (l, v) (List.mem_cons_self ..)
    simp only [applyWritesRtl, applyWrites]
    rw [assign_rtl_eq_applyBits ctx cur hok l h1 h2 v nxt hE]
    exact ih (fun w hw => h w (List.mem_cons_of_mem _ hw)) _
      (applyBits_spec ctx v _ 0 nxt hE (lbits_ok ctx cur l h1)).1

end
end Amaranth
