import AmaranthVerif.Model.Fsm

/-!
# FSM state encoding: codes are distinct, fit the register, and decode back to the names
-/

namespace Amaranth

theorem addName_mem (order : List String) (s x : String) : x ∈ addName order s ↔ x ∈ order ∨ x = s := by
  unfold addName
  split
  · rename_i h
    constructor
    · exact Or.inl
    · rintro (h1 | h1)
      · exact h1
      · subst h1; exact h
  · simp

theorem addName_nodup (order : List String) (s : String) (h : order.Nodup) : (addName order s).Nodup := by
  unfold addName
  split
  · exact h
  · rename_i hs
    rw [List.nodup_append]
    refine ⟨h, by simp, ?_⟩
    intro a ha b hb
    simp only [List.mem_singleton] at hb
    subst hb
    intro e; subst e; exact hs ha

theorem foldl_addName_mem (ms : List String) : ∀ (acc : List String) (x : String),
    x ∈ ms.foldl addName acc ↔ x ∈ acc ∨ x ∈ ms := by
  induction ms with
  | nil => intro acc x; simp
  | cons m ms ih =>
    intro acc x
    simp only [List.foldl_cons, ih, addName_mem, List.mem_cons]
    constructor
    · rintro ((h | h) | h)
      · exact Or.inl h
      · exact Or.inr (Or.inl h)
      · exact Or.inr (Or.inr h)
    · rintro (h | h | h)
      · exact Or.inl (Or.inl h)
      · exact Or.inl (Or.inr h)
      · exact Or.inr h

theorem foldl_addName_nodup (ms : List String) : ∀ (acc : List String), acc.Nodup → (ms.foldl addName acc).Nodup := by
  induction ms with
  | nil => intro acc h; exact h
  | cons m ms ih => intro acc h; exact ih _ (addName_nodup acc m h)

theorem encOrder_nodup (entries : FsmEntries) : (encOrder entries).Nodup :=
  foldl_addName_nodup _ [] List.nodup_nil

theorem mem_encOrder (entries : FsmEntries) (x : String) : x ∈ encOrder entries ↔ x ∈ entryMentions entries := by
  unfold encOrder
  rw [foldl_addName_mem]
  simp

theorem defined_mem_mentions : ∀ (entries : FsmEntries) (x : String), x ∈ definedStates entries → x ∈ entryMentions entries
  | [], x, h => by simp [definedStates] at h
  | (n, none) :: rest, x, h => by
    simp only [definedStates] at h
    simp only [entryMentions, List.mem_cons]
    exact Or.inr (defined_mem_mentions rest x h)
  | (n, some body) :: rest, x, h => by
    simp only [definedStates, List.mem_cons] at h
    simp only [entryMentions, List.mem_cons, List.mem_append]
    rcases h with h | h
    · exact Or.inl h
    · exact Or.inr (Or.inr (defined_mem_mentions rest x h))

theorem defined_mem_encOrder (entries : FsmEntries) (x : String) (h : x ∈ definedStates entries) : x ∈ encOrder entries :=
  (mem_encOrder entries x).2 (defined_mem_mentions entries x h)

theorem code_lt {order : List String} {s : String} (h : s ∈ order) : code order s < order.length :=
  List.idxOf_lt_length_of_mem h

theorem getElem_code {order : List String} {s : String} (h : s ∈ order) : order[code order s]'(code_lt h) = s :=
  List.getElem_idxOf (code_lt h)

/-- **distinct names, distinct codes** (a name that was never mentioned has the code `len(encoding)`, which no
mentioned name has) -/
theorem code_inj {order : List String} {s t : String} (hs : s ∈ order) (h : code order s = code order t) : s = t := by
  have h1 := getElem_code hs
  have ht : t ∈ order := by
    rw [← List.idxOf_lt_length_iff]
    have := code_lt hs
    unfold code at h this
    omega
  have h2 := getElem_code ht
  rw [← h1, ← h2]
  congr 1

theorem decode_code {order : List String} {s : String} (hs : s ∈ order) :
    decode order (code order s : Int) = some s := by
  unfold decode
  simp only [Int.natCast_nonneg, if_true, Int.toNat_natCast]
  rw [List.getElem?_eq_getElem (code_lt hs), getElem_code hs]

theorem decode_some {order : List String} {v : Int} {s : String} (hn : order.Nodup) (h : decode order v = some s) :
    s ∈ order ∧ v = (code order s : Int) := by
  unfold decode at h
  split at h
  · rename_i hv
    rw [List.getElem?_eq_some_iff] at h
    obtain ⟨hlt, he⟩ := h
    refine ⟨he ▸ List.getElem_mem hlt, ?_⟩
    have := hn.idxOf_getElem v.toNat hlt
    rw [he] at this
    unfold code
    rw [this]
    omega
  · cases h

theorem decode_eq_some_iff {order : List String} (hn : order.Nodup) {v : Int} {s : String} (hs : s ∈ order) :
    decode order v = some s ↔ v = (code order s : Int) :=
  ⟨fun h => (decode_some hn h).2, fun h => h ▸ decode_code hs⟩

/-! ## the register is wide enough -/

theorem bitsFor_nat (m : Nat) : bitsFor (m : Int) false = if m = 0 then 1 else Nat.log2 m + 1 := by
  unfold bitsFor
  by_cases h : m = 0
  · subst h; simp [ceilLog2]
  · have hp : (m : Int) > 0 := by omega
    simp only [hp, if_true, h, if_false, Bool.false_eq_true, Nat.add_zero, Int.toNat_natCast]
    unfold ceilLog2 bitLength
    simp [h]

theorem lt_two_pow_bitsFor (m : Nat) : m < 2 ^ bitsFor (m : Int) false := by
  rw [bitsFor_nat]
  split
  · rename_i h; subst h; decide
  · exact Nat.lt_log2_self

theorem fsmWidth_bound (n : Nat) (hn : 0 < n) : n ≤ 2 ^ fsmWidth n := by
  unfold fsmWidth
  have h0 : n ≠ 0 := by omega
  simp only [h0, if_false]
  have e : ((n : Int) - 1) = ((n - 1 : Nat) : Int) := by omega
  rw [e]
  have := lt_two_pow_bitsFor (n - 1)
  omega

theorem two_pow_cast (k : Nat) : ((2 ^ k : Nat) : Int) = (2 : Int) ^ k := by simp

/-- **every code fits the state register** -/
theorem code_contained {order : List String} {s : String} (hs : s ∈ order) :
    (Shape.mk (fsmWidth order.length) false).contains (code order s : Int) := by
  have h1 := code_lt hs
  have h2 := fsmWidth_bound order.length (by omega)
  have h3 := two_pow_cast (fsmWidth order.length)
  unfold Shape.contains Shape.lo Shape.hi
  simp only [Bool.false_eq_true, if_false]
  constructor
  · omega
  · rw [← h3]; omega

theorem constOf_wf (ctx : Ctx) (k : Nat) : (constOf k).wf ctx = true := by
  have h := lt_two_pow_bitsFor k
  have h3 := two_pow_cast (bitsFor (k : Int) false)
  unfold constOf Expr.wf
  simp only [Bool.and_eq_true, decide_eq_true_eq]
  refine ⟨by simp [Shape.WF], ?_⟩
  unfold Shape.contains Shape.lo Shape.hi
  simp only [Bool.false_eq_true, if_false]
  constructor
  · omega
  · rw [← h3]; omega

end Amaranth
