import AmaranthVerif.Proofs.EngineEquivAsync

/-!
# `arst` + `sync` against a placeholder + `userSync`: one delta, `step_design()`

`asyncKindsA = pre ++ arst d (out := e) :: sync d (out := e) :: post` (what the compiler creates) and
`asyncKindsB = pre ++ comb skip :: userSync d (exprSigs e) out e :: post`: the inert placeholder keeps
the two owner lists position-wise comparable; it is removed, and the user process moved to the end,
by the re-indexing theorems.
-/

namespace Amaranth.Engine
open Amaranth

def asyncKindsA (pre post : List ProcKind) (d out : Nat) (e : Expr) : List ProcKind :=
  pre ++ ProcKind.arst d (.assign (.sig out) e) :: ProcKind.sync d (.assign (.sig out) e) :: post

def asyncKindsB (pre post : List ProcKind) (d out : Nat) (e : Expr) : List ProcKind :=
  pre ++ ProcKind.comb .skip :: ProcKind.userSync d (exprSigs e) out e :: post

/-- the two indices on which the owner lists differ -/
def PP (pre : List ProcKind) (q : Nat) : Prop := q = pre.length ∨ q = pre.length + 1

theorem getElem?_append_cons2_ne {α : Type} (l1 l2 : List α) (x x' y y' : α) (q : Nat)
    (hq : ¬ (q = l1.length ∨ q = l1.length + 1)) :
    (l1 ++ x :: x' :: l2)[q]? = (l1 ++ y :: y' :: l2)[q]? := by
  rcases Nat.lt_or_ge q l1.length with h | h
  · rw [List.getElem?_append_left h, List.getElem?_append_left h]
  · rw [List.getElem?_append_right h, List.getElem?_append_right h]
    obtain ⟨m, hm⟩ : ∃ m, q - l1.length = m + 2 := ⟨q - l1.length - 2, by omega⟩
    rw [hm, List.getElem?_cons_succ, List.getElem?_cons_succ, List.getElem?_cons_succ, List.getElem?_cons_succ]

theorem mem_of_append_cons2_ne {α : Type} (l1 l2 : List α) (x x' k : α) (q : Nat)
    (hq : ¬ (q = l1.length ∨ q = l1.length + 1)) (h : (l1 ++ x :: x' :: l2)[q]? = some k) : k ∈ l1 ++ l2 := by
  rcases Nat.lt_or_ge q l1.length with h' | h'
  · rw [List.getElem?_append_left h'] at h
    exact List.mem_append_left _ (List.mem_of_getElem? h)
  · rw [List.getElem?_append_right h'] at h
    obtain ⟨m, hm⟩ : ∃ m, q - l1.length = m + 2 := ⟨q - l1.length - 2, by omega⟩
    rw [hm, List.getElem?_cons_succ, List.getElem?_cons_succ] at h
    exact List.mem_append_right _ (List.mem_of_getElem? h)

theorem async_sameOff (D : Design) (pre post : List ProcKind) (scripts : List (List TbOp)) (d out : Nat) (e : Expr) :
    SameOffP (PP pre) (simDefs D (asyncKindsA pre post d out e) scripts) (simDefs D (asyncKindsB pre post d out e) scripts) := by
  refine ⟨by simp [simDefs, asyncKindsA, asyncKindsB], fun q hq => ?_⟩
  unfold simDefs asyncKindsA asyncKindsB
  simp only [List.map_append, List.map_cons, List.append_assoc, List.cons_append]
  exact getElem?_append_cons2_ne _ _ _ _ _ _ q (by simpa [PP] using hq)

theorem async_atR (D : Design) (pre post : List ProcKind) (scripts : List (List TbOp)) (d out : Nat) (e : Expr) :
    (simDefs D (asyncKindsA pre post d out e) scripts)[pre.length]? = some (arstDef D d (.assign (.sig out) e)) :=
  simDefs_proc D (asyncKindsA pre post d out e) scripts pre.length (ProcKind.arst d (.assign (.sig out) e)) (by
    unfold asyncKindsA; rw [List.getElem?_append_right (Nat.le_refl _)]; simp)

theorem async_atS (D : Design) (pre post : List ProcKind) (scripts : List (List TbOp)) (d out : Nat) (e : Expr) :
    (simDefs D (asyncKindsA pre post d out e) scripts)[pre.length + 1]? = some (syncDef D d (.assign (.sig out) e)) :=
  simDefs_proc D (asyncKindsA pre post d out e) scripts (pre.length + 1) (ProcKind.sync d (.assign (.sig out) e)) (by
    unfold asyncKindsA; rw [List.getElem?_append_right (by omega)]
    have : pre.length + 1 - pre.length = 1 := by omega
    rw [this]; rfl)

theorem async_atD (D : Design) (pre post : List ProcKind) (scripts : List (List TbOp)) (d out : Nat) (e : Expr) :
    (simDefs D (asyncKindsB pre post d out e) scripts)[pre.length]? = some (combDef D .skip) :=
  simDefs_proc D (asyncKindsB pre post d out e) scripts pre.length (ProcKind.comb .skip) (by
    unfold asyncKindsB; rw [List.getElem?_append_right (Nat.le_refl _)]; simp)

theorem async_atB (D : Design) (pre post : List ProcKind) (scripts : List (List TbOp)) (d out : Nat) (e : Expr) :
    (simDefs D (asyncKindsB pre post d out e) scripts)[pre.length + 1]? = some (syncDefB D d out e) :=
  simDefs_proc D (asyncKindsB pre post d out e) scripts (pre.length + 1) (ProcKind.userSync d (exprSigs e) out e) (by
    unfold asyncKindsB; rw [List.getElem?_append_right (by omega)]
    have : pre.length + 1 - pre.length = 1 := by omega
    rw [this]; rfl)

/-- an owner outside the two positions is one of the other processes or a testbench -/
theorem async_other_effect (D : Design) (pre post : List ProcKind) (scripts : List (List TbOp)) (d out : Nat) (e : Expr)
    (H : ReplHyp D pre post out) (s : EState) (hcur : EnvN D.ctx s.curr) (q : Nat) (hq : ¬ PP pre q)
    (eff : Effect) (he : effectOf (simDefs D (asyncKindsA pre post d out e) scripts) s q = some eff) :
    (∀ u ∈ eff.updates, u.slot ≠ out) ∧
    (∀ u ∈ eff.updates, ∀ x, (D.ctx.shape u.slot).contains x → (D.ctx.shape u.slot).contains (applyUpdate u x)) := by
  obtain ⟨dd, l, hd, rfl⟩ := effectOf_some _ _ _ _ he
  rcases Nat.lt_or_ge q (asyncKindsA pre post d out e).length with h | h
  · have hk : (asyncKindsA pre post d out e)[q]? = some (asyncKindsA pre post d out e)[q] := List.getElem?_eq_getElem h
    rw [simDefs_proc D _ scripts q _ hk] at hd
    have hmem := mem_of_append_cons2_ne pre post _ _ _ q (by simpa [PP] using hq) hk
    cases hd
    exact ⟨fun u hu => H.others_slots _ hmem _ (toDef_run_masks D _ l s.curr u hu),
      fun u hu => H.others_safe _ hmem l s.curr hcur u hu⟩
  · obtain ⟨sc, rfl⟩ := simDefs_tb D _ scripts q dd h hd
    exact ⟨fun u hu => by simp [tbDef] at hu, fun u hu => by simp [tbDef] at hu⟩

/-! ## The relation on the replaced owners -/

section defs
variable (D : Design) (d r : Nat) (e : Expr)

/-- at the start of a delta: at time 0 only the user process is runnable; afterwards its trigger is
activated exactly when one of the two compiled processes is runnable, the recorded edges tell which,
and the reset-only process is runnable only while the reset is 1 -/
def AQ (lR lS lB : Local) (cur nxt : Env) : Prop :=
  EnvN D.ctx cur ∧ EnvN D.ctx nxt ∧
  ((lR.runnable = false ∧ lS.runnable = false ∧ lB.runnable = true ∧ lB.initial = true ∧ lB.active = false ∧
      lB.waiting = false) ∨
   (SIdle D d e lB ∧ lB.active = (lS.runnable || lR.runnable) ∧ lB.hits[0]? = some lS.runnable ∧
      lB.hits[1]? = some lR.runnable ∧ (lR.runnable = true → cur.val r = 1)))

/-- after phase 1a -/
def AQ1 (lR lS lB : Local) (cur : Env) : Prop :=
  (lR.runnable = false ∧ lS.runnable = false ∧ lB.runnable = true ∧ lB.initial = true ∧ lB.active = false) ∨
  ((lS.runnable || lR.runnable) = true ∧ lB.runnable = true ∧ lB.initial = false ∧ lB.active = false ∧
    (tickResult lB.result).getD 0 0 = b2i lS.runnable ∧
    ((tickResult lB.result).getD 1 0 != 0) = (lR.runnable || cur.val r != 0) ∧
    (tickResult lB.result).drop 2 = (exprSigs e).map cur.val ∧ (lR.runnable = true → cur.val r = 1)) ∨
  (lR.runnable = false ∧ lS.runnable = false ∧ SIdle D d e lB ∧ lB.active = false ∧
    lB.hits[0]? = some false ∧ lB.hits[1]? = some false)

/-- what the commit keeps -/
def AC (lR lS lB : Local) (cur nxt : Env) : Prop :=
  SIdle D d e lB ∧ lB.active = (lS.runnable || lR.runnable) ∧ lB.hits[0]? = some lS.runnable ∧
  lB.hits[1]? = some lR.runnable ∧ (lR.runnable = true → cur.val r = 1 ∧ cur.val r = nxt.val r)

end defs

section
variable {D : Design} {pre post : List ProcKind} {scripts : List (List TbOp)} {d out r : Nat} {e : Expr}

theorem async_trig (H : AsyncHyp D d out r) (lR lS lB : Local) (cur nxt : Env) (h : AQ D d r e lR lS lB cur nxt) :
    AQ1 D d r e (if lR.active then (arstDef D d (.assign (.sig out) e)).trig lR cur else lR)
      (if lS.active then (syncDef D d (.assign (.sig out) e)).trig lS cur else lS)
      (if lB.active then (syncDefB D d out e).trig lB cur else lB) cur := by
  have hR : (if lR.active then (arstDef D d (.assign (.sig out) e)).trig lR cur else lR).runnable = lR.runnable := by
    split <;> rfl
  have hS : (if lS.active then (syncDef D d (.assign (.sig out) e)).trig lS cur else lS).runnable = lS.runnable := by
    split <;> rfl
  obtain ⟨_, _, h | h⟩ := h
  · obtain ⟨h1, h2, h3, h4, h5, _⟩ := h
    left
    simp only [h5, Bool.false_eq_true, if_false]
    exact ⟨hR.trans h1, hS.trans h2, h3, h4, by simp [h5]⟩
  · obtain ⟨⟨g1, g2, g3, g4⟩, h2, h3, h4, h5⟩ := h
    by_cases hact : lB.active = true
    · right; left
      simp only [hact, if_true]
      obtain ⟨r1, r2, r3⟩ := async_tickResult D.ctx (D.doms.getD d default) r H.async H.rst (exprSigs e) lB.hits cur g4
        lS.runnable lR.runnable h3 h4
      rw [hR, hS]
      exact ⟨h2.symm.trans hact, rfl, g2, rfl, r1, r2, r3, h5⟩
    · have hact : lB.active = false := by simpa using hact
      right; right
      simp only [hact, Bool.false_eq_true, if_false]
      rw [hR, hS]
      have hb : (lS.runnable || lR.runnable) = false := h2.symm.trans hact
      simp only [Bool.or_eq_false_iff] at hb
      refine ⟨hb.2, hb.1, ⟨g1, g2, g3, g4⟩, by simp [hact], ?_, ?_⟩
      · rw [h3, hb.1]
      · rw [h4, hb.2]

/-- what applying one effect does, field by field -/
theorem applyEffect_desc (z : EState) (i : Nat) (eff : Option Effect) (l : Local) (hl : z.locals[i]? = some l)
    (ht : ∀ e, eff = some e → e.timer = none) :
    (applyEffect z i eff).curr = z.curr ∧ (applyEffect z i eff).timers = z.timers ∧ (applyEffect z i eff).now = z.now ∧
    (applyEffect z i eff).deltas = z.deltas ∧ (applyEffect z i eff).obs = z.obs ∧
    (applyEffect z i eff).locals.length = z.locals.length ∧
    (∀ q, q ≠ i → (applyEffect z i eff).locals[q]? = z.locals[q]?) ∧
    (applyEffect z i eff).locals[i]? = some (eff.elim l (·.loc)) ∧
    (applyEffect z i eff).next = eff.elim z.next (fun e => applyAll z.next e.updates) := by
  cases eff with
  | none => exact ⟨rfl, rfl, rfl, rfl, rfl, rfl, fun _ _ => rfl, hl, rfl⟩
  | some e =>
    have := ht e rfl
    refine ⟨rfl, ?_, rfl, rfl, rfl, ?_, ?_, ?_, rfl⟩
    · simp only [applyEffect, this]
    · simp only [applyEffect, List.length_set]
    · intro q hq
      simp only [applyEffect]
      exact List.getElem?_set_ne (Ne.symm hq)
    · exact applyEffect_at_self z i e l hl

theorem syncT_length (H : AsyncHyp D d out r) : (syncT D d e).length = 3 + (exprSigs e).length := by
  unfold syncT
  rw [tickTrigger_async _ r H.async H.rst]
  simp; omega

/-- the turns of the two replaced owners, taken first, on both sides -/
theorem async_pstep (H : AsyncHyp D d out r) (hout : out < D.ctx.length) (hwf : e.wf D.ctx = true) (p : Nat)
    (psA psB : List ProcDef)
    (hdR : psA[p]? = some (arstDef D d (.assign (.sig out) e)))
    (hdS : psA[p + 1]? = some (syncDef D d (.assign (.sig out) e)))
    (hdD : psB[p]? = some (combDef D .skip)) (hdB : psB[p + 1]? = some (syncDefB D d out e))
    (P : Nat → Prop) (hP : ∀ q, ¬ P q → (q ≠ p ∧ q ≠ p + 1))
    (a1 b1 : EState) (hm : MidP P a1 b1) (lR lS lD lB : Local)
    (hlR : a1.locals[p]? = some lR) (hlS : a1.locals[p + 1]? = some lS)
    (hlD : b1.locals[p]? = some lD) (hlB : b1.locals[p + 1]? = some lB)
    (hcur : EnvN D.ctx a1.curr) (hn : EnvN D.ctx a1.next)
    (hq : AQ1 D d r e lR lS lB a1.curr) :
    MidP P (applyEffect (applyEffect a1 p (effectOf psA a1 p)) (p + 1) (effectOf psA a1 (p + 1)))
      (applyEffect (applyEffect b1 p (effectOf psB b1 p)) (p + 1) (effectOf psB b1 (p + 1))) ∧
    EnvN D.ctx (applyEffect (applyEffect a1 p (effectOf psA a1 p)) (p + 1) (effectOf psA a1 (p + 1))).next ∧
    (∃ lR2, (applyEffect (applyEffect a1 p (effectOf psA a1 p)) (p + 1) (effectOf psA a1 (p + 1))).locals[p]? = some lR2 ∧
      lR2.runnable = false) ∧
    (∃ lS2, (applyEffect (applyEffect a1 p (effectOf psA a1 p)) (p + 1) (effectOf psA a1 (p + 1))).locals[p + 1]? = some lS2 ∧
      lS2.runnable = false) ∧
    (∃ lD2, (applyEffect (applyEffect b1 p (effectOf psB b1 p)) (p + 1) (effectOf psB b1 (p + 1))).locals[p]? = some lD2) ∧
    (∃ lB2, (applyEffect (applyEffect b1 p (effectOf psB b1 p)) (p + 1) (effectOf psB b1 (p + 1))).locals[p + 1]? = some lB2 ∧
      SIdle D d e lB2 ∧ lB2.active = false ∧ lB2.hits[0]? = some false ∧ lB2.hits[1]? = some false) := by
  have hpp : p ≠ p + 1 := by omega
  have eR := effectOf_at psA a1 p _ lR hdR hlR
  have eS := effectOf_at psA a1 (p + 1) _ lS hdS hlS
  have eD := effectOf_at psB b1 p _ lD hdD hlD
  have eB := effectOf_at psB b1 (p + 1) _ lB hdB hlB
  rw [hm.curr] at eD eB
  -- no effect sets a timer
  have tR : ∀ x, effectOf psA a1 p = some x → x.timer = none := by
    intro x hx; rw [eR] at hx; split at hx
    · cases hx; rfl
    · cases hx
  have tS : ∀ x, effectOf psA a1 (p + 1) = some x → x.timer = none := by
    intro x hx; rw [eS] at hx; split at hx
    · cases hx; rfl
    · cases hx
  have tD : ∀ x, effectOf psB b1 p = some x → x.timer = none := by
    intro x hx; rw [eD] at hx; split at hx
    · cases hx; rfl
    · cases hx
  have tB : ∀ x, effectOf psB b1 (p + 1) = some x → x.timer = none := by
    intro x hx; rw [eB] at hx; split at hx
    · cases hx
      simp only [syncDefB, userSyncDef]
      split
      · rfl
      · split
        · rfl
        · split <;> rfl
    · cases hx
  obtain ⟨a_c, a_t, a_n, a_d, a_o, a_l, a_off, a_at, a_nx⟩ := applyEffect_desc a1 p _ lR hlR tR
  obtain ⟨a2_c, a2_t, a2_n, a2_d, a2_o, a2_l, a2_off, a2_at, a2_nx⟩ :=
    applyEffect_desc (applyEffect a1 p (effectOf psA a1 p)) (p + 1) (effectOf psA a1 (p + 1)) lS
      ((a_off (p + 1) (Ne.symm hpp)).trans hlS) tS
  obtain ⟨b_c, b_t, b_n, b_d, b_o, b_l, b_off, b_at, b_nx⟩ := applyEffect_desc b1 p _ lD hlD tD
  obtain ⟨b2_c, b2_t, b2_n, b2_d, b2_o, b2_l, b2_off, b2_at, b2_nx⟩ :=
    applyEffect_desc (applyEffect b1 p (effectOf psB b1 p)) (p + 1) (effectOf psB b1 (p + 1)) lB
      ((b_off (p + 1) (Ne.symm hpp)).trans hlB) tB
  -- the placeholder writes nothing
  have hD : (applyEffect b1 p (effectOf psB b1 p)).next = b1.next := by
    rw [b_nx, eD]
    by_cases hd : lD.runnable = true
    · simp only [hd, if_true, Option.elim_some]
      have hu : ((combDef D .skip).run { lD with runnable := false } a1.curr).updates = [] := (inert_comb_skip D _ _).1
      rw [hu]; rfl
    · have hd' : lD.runnable = false := by simpa using hd
      simp only [hd', Bool.false_eq_true, if_false, Option.elim_none]
  -- the value written
  have hlen3 := syncT_length (e := e) H
  have hrep0 : (List.replicate (syncT D d e).length false)[0]? = some false := by
    rw [List.getElem?_replicate, if_pos (by omega)]
  have hrep1 : (List.replicate (syncT D d e).length false)[1]? = some false := by
    rw [List.getElem?_replicate, if_pos (by omega)]
  have key : (applyEffect (applyEffect a1 p (effectOf psA a1 p)) (p + 1) (effectOf psA a1 (p + 1))).next =
        (applyEffect (applyEffect b1 p (effectOf psB b1 p)) (p + 1) (effectOf psB b1 (p + 1))).next ∧
      EnvN D.ctx (applyEffect (applyEffect a1 p (effectOf psA a1 p)) (p + 1) (effectOf psA a1 (p + 1))).next ∧
      (∃ lR2, (effectOf psA a1 p).elim lR (·.loc) = lR2 ∧ lR2.runnable = false) ∧
      (∃ lS2, (effectOf psA a1 (p + 1)).elim lS (·.loc) = lS2 ∧ lS2.runnable = false) ∧
      (∃ lB2, (effectOf psB b1 (p + 1)).elim lB (·.loc) = lB2 ∧
        SIdle D d e lB2 ∧ lB2.active = false ∧ lB2.hits[0]? = some false ∧ lB2.hits[1]? = some false) := by
    rw [a2_nx, b2_nx, a_nx, hD, eR, eS, eB, hm.next]
    rcases hq with ⟨h1, h2, h3, h4, h5⟩ | ⟨h0, h3, h4, h5, r1, r2, r3, h6⟩ | ⟨h1, h2, ⟨g1, g2, g3, g4⟩, h5, h6, h7⟩
    · -- time 0
      simp only [h1, h2, h3, Bool.false_eq_true, if_false, if_true, Option.elim_some, Option.elim_none]
      have eBl : (syncDefB D d out e).run { lB with runnable := false } a1.curr =
          { loc := { lB with runnable := false, initial := false, waiting := true,
                             hits := List.replicate (syncT D d e).length false } } := by
        simp only [syncDefB, userSyncDef, h4, if_true]; rfl
      rw [eBl]
      exact ⟨rfl, hn, ⟨lR, rfl, h1⟩, ⟨lS, rfl, h2⟩, ⟨_, rfl, ⟨rfl, rfl, rfl, by simp⟩, h5, hrep0, hrep1⟩⟩
    · -- after an edge
      simp only [h3, if_true, Option.elim_some]
      -- the user process' run
      have eBu : ((syncDefB D d out e).run { lB with runnable := false } a1.curr).updates =
          [setUpd D.ctx out (if lR.runnable then D.inits.val out else syncV D d out e a1.curr)] ∧
          ((syncDefB D d out e).run { lB with runnable := false } a1.curr).loc =
            { lB with runnable := false, initial := false, waiting := true,
                      hits := List.replicate (syncT D d e).length false } := by
        simp only [syncDefB, userSyncDef, h4, Bool.false_eq_true, if_false, r2]
        by_cases hr : lR.runnable = true
        · simp only [hr, Bool.true_or, if_true]
          constructor <;> first | rfl | trivial
        · have hr' : lR.runnable = false := by simpa using hr
          have hs : lS.runnable = true := by simpa [hr'] using h0
          simp only [hr', Bool.false_or, Bool.false_eq_true, if_false]
          unfold syncV
          rw [rstOn_async H]
          by_cases hv : (a1.curr.val r != 0) = true
          · simp only [hv, if_true]
            constructor <;> first | rfl | trivial
          · simp only [hv, Bool.false_eq_true, if_false, r1, hs, r3]
            have : (b2i true != 0) = true := by decide
            simp only [this, if_true]
            rw [evalTb_sampleEnv _ _ _ hwf]
            refine ⟨?_, by first | rfl | trivial⟩
            unfold setUpd combV
            rw [norm_idem _ (H.inits.ok out hout).1]
      rw [eBu.1, eBu.2, setUpd_apply]
      have hW : (D.ctx.shape out).contains (if lR.runnable then D.inits.val out else syncV D d out e a1.curr) := by
        split
        · exact (H.inits.ok out hout).2
        · exact syncV_contains_async H hout _
      rw [norm_of_contains _ (H.inits.ok out hout).1 hW]
      have hA : (if lS.runnable = true then some ((syncDef D d (.assign (.sig out) e)).run { lS with runnable := false } a1.curr) else none).elim
            ((if lR.runnable = true then some ((arstDef D d (.assign (.sig out) e)).run { lR with runnable := false } a1.curr) else none).elim
              a1.next (fun y => applyAll a1.next y.updates))
            (fun x => applyAll ((if lR.runnable = true then some ((arstDef D d (.assign (.sig out) e)).run { lR with runnable := false } a1.curr) else none).elim
              a1.next (fun y => applyAll a1.next y.updates)) x.updates) =
          modAt a1.next out (fun _ => if lR.runnable then D.inits.val out else syncV D d out e a1.curr) := by
        by_cases hr : lR.runnable = true <;> by_cases hs : lS.runnable = true
        · simp only [hr, hs, if_true, Option.elim_some]
          rw [arstA_next H hout _ _ _ hn]
          have hn1 := modAt_const_envN D.ctx out (D.inits.val out) a1.next hout hn (H.inits.ok out hout).2
          have := syncA_next_async (e := e) H hout hwf a1.curr _ hcur hn1
          simp only [syncDef] at this ⊢
          rw [this, modAt_const_twice]
          congr 1
          funext _
          unfold syncV
          rw [rstOn_async H, h6 hr]
          simp
        · have hs' : lS.runnable = false := by simpa using hs
          simp only [hr, hs', if_true, Bool.false_eq_true, if_false, Option.elim_some, Option.elim_none]
          exact arstA_next H hout _ _ _ hn
        · have hr' : lR.runnable = false := by simpa using hr
          simp only [hr', hs, if_true, Bool.false_eq_true, if_false, Option.elim_some, Option.elim_none]
          have := syncA_next_async (e := e) H hout hwf a1.curr a1.next hcur hn
          simp only [syncDef] at this ⊢
          exact this
        · have hr' : lR.runnable = false := by simpa using hr
          have hs' : lS.runnable = false := by simpa using hs
          rw [hr', hs'] at h0; cases h0
      refine ⟨hA, by rw [hA]; exact modAt_const_envN _ _ _ _ hout hn hW, ?_, ?_,
        ⟨_, rfl, ⟨rfl, rfl, rfl, by simp⟩, h5, hrep0, hrep1⟩⟩
      · by_cases hr : lR.runnable = true
        · simp only [hr, if_true, Option.elim_some]; exact ⟨_, rfl, rfl⟩
        · have hr' : lR.runnable = false := by simpa using hr
          simp only [hr', Bool.false_eq_true, if_false, Option.elim_none]; exact ⟨lR, rfl, hr'⟩
      · by_cases hs : lS.runnable = true
        · simp only [hs, if_true, Option.elim_some]; exact ⟨_, rfl, rfl⟩
        · have hs' : lS.runnable = false := by simpa using hs
          simp only [hs', Bool.false_eq_true, if_false, Option.elim_none]; exact ⟨lS, rfl, hs'⟩
    · -- nothing to do
      simp only [h1, h2, g1, Bool.false_eq_true, if_false, Option.elim_none]
      exact ⟨by first | rfl | trivial, hn, ⟨lR, rfl, h1⟩, ⟨lS, rfl, h2⟩, ⟨lB, rfl, ⟨g1, g2, g3, g4⟩, h5, h6, h7⟩⟩
  obtain ⟨k1, k2, ⟨lR2, k3, k3'⟩, ⟨lS2, k4, k4'⟩, ⟨lB2, k5, k5'⟩⟩ := key
  refine ⟨⟨?_, k1.symm, ?_, ?_, ?_, ?_, ?_, ?_⟩, k2, ⟨lR2, ?_, k3'⟩, ⟨lS2, ?_, k4'⟩, ⟨_, (b2_off p hpp).trans b_at⟩, ⟨lB2, ?_, k5'⟩⟩
  · rw [b2_c, b_c, a2_c, a_c]; exact hm.curr
  · rw [b2_t, b_t, a2_t, a_t]; exact hm.timers
  · rw [b2_n, b_n, a2_n, a_n]; exact hm.now
  · rw [b2_d, b_d, a2_d, a_d]; exact hm.deltas
  · rw [b2_o, b_o, a2_o, a_o]; exact hm.obs
  · rw [b2_l, b_l, a2_l, a_l]; exact hm.len
  · intro q hq'
    obtain ⟨q1, q2⟩ := hP q hq'
    rw [b2_off q q2, b_off q q1, a2_off q q2, a_off q q1]
    exact hm.off q hq'
  · rw [a2_off p hpp, a_at, k3]
  · rw [a2_at, k4]
  · rw [b2_at, k5]

end

end Amaranth.Engine
