import AmaranthVerif.Proofs.EmitFront2

/-!
# `emit_rhs`: binary operators (helper lemmas for `C04.emit_expr_correct`), part 3
-/

namespace Amaranth.Rtlil
open Amaranth

/-! ## bitwise operations on bit vectors and on Python integers -/

theorem testBit_ofInt (w : Nat) (z : Int) (i : Nat) : (ofInt w z).testBit i = (decide (i < w) && ibit z i) := by
  rw [← ibit_ofNat, ofInt_cast]
  exact ibit_mask w z i

theorem and_ofInt (w : Nat) (x y : Int) : ofInt w x &&& ofInt w y = ofInt w (pyAnd x y) := by
  apply Nat.eq_of_testBit_eq
  intro i
  rw [Nat.testBit_and, testBit_ofInt, testBit_ofInt, testBit_ofInt, ibit_pyAnd]
  cases decide (i < w) <;> cases ibit x i <;> cases ibit y i <;> rfl

theorem or_ofInt (w : Nat) (x y : Int) : ofInt w x ||| ofInt w y = ofInt w (pyOr x y) := by
  apply Nat.eq_of_testBit_eq
  intro i
  rw [Nat.testBit_or, testBit_ofInt, testBit_ofInt, testBit_ofInt, ibit_pyOr]
  cases decide (i < w) <;> cases ibit x i <;> cases ibit y i <;> rfl

theorem xor_ofInt (w : Nat) (x y : Int) : ofInt w x ^^^ ofInt w y = ofInt w (pyXor x y) := by
  apply Nat.eq_of_testBit_eq
  intro i
  rw [Nat.testBit_xor, testBit_ofInt, testBit_ofInt, testBit_ofInt, ibit_pyXor]
  cases decide (i < w) <;> cases ibit x i <;> cases ibit y i <;> rfl

/-! ## extension to the unified shape -/

theorem toInt_ext (env : Env) (v : Val) (s : Bool) (w : Nat) (hw : v.length ≤ w) (hs : s = true → v ≠ []) :
    toInt s w (valOf env (extendV v s w)) = sval s env v := by
  have := sval_extendV_same env v s w hw hs
  unfold sval at this
  rw [extendV_length _ _ _ hw] at this
  exact this

theorem unify_facts (env : Env) (va vb : Val) (sa sb : Bool) (hna : sa = true → va ≠ []) (hnb : sb = true → vb ≠ []) :
    (unifyVals va sa vb sb).1.length = (Shape.unify ⟨va.length, sa⟩ ⟨vb.length, sb⟩).width ∧
    (unifyVals va sa vb sb).2.1.length = (Shape.unify ⟨va.length, sa⟩ ⟨vb.length, sb⟩).width ∧
    (unifyVals va sa vb sb).2.2 = Shape.unify ⟨va.length, sa⟩ ⟨vb.length, sb⟩ ∧
    sval (Shape.unify ⟨va.length, sa⟩ ⟨vb.length, sb⟩).signed env (unifyVals va sa vb sb).1 = sval sa env va ∧
    sval (Shape.unify ⟨va.length, sa⟩ ⟨vb.length, sb⟩).signed env (unifyVals va sa vb sb).2.1 = sval sb env vb ∧
    va.length ≤ (Shape.unify ⟨va.length, sa⟩ ⟨vb.length, sb⟩).width ∧
    vb.length ≤ (Shape.unify ⟨va.length, sa⟩ ⟨vb.length, sb⟩).width ∧
    ((Shape.unify ⟨va.length, sa⟩ ⟨vb.length, sb⟩).signed = true → 0 < (Shape.unify ⟨va.length, sa⟩ ⟨vb.length, sb⟩).width) := by
  have hpa : sa = true → 0 < va.length := fun h => List.length_pos_iff.mpr (hna h)
  have hpb : sb = true → 0 < vb.length := fun h => List.length_pos_iff.mpr (hnb h)
  cases sa <;> cases sb <;> simp only [unifyVals, Shape.unify, Bool.or_self, Bool.or_false, Bool.or_true,
      Bool.false_eq_true, if_false, if_true]
  · have h1 : va.length ≤ max va.length vb.length := Nat.le_max_left _ _
    have h2 : vb.length ≤ max va.length vb.length := Nat.le_max_right _ _
    exact ⟨extendV_length _ _ _ h1, extendV_length _ _ _ h2, trivial, sval_extendV_same env _ _ _ h1 hna,
      sval_extendV_same env _ _ _ h2 hnb, h1, h2, by simp⟩
  · have h1 : va.length < max (va.length + 1) vb.length := by omega
    have h2 : vb.length ≤ max (va.length + 1) vb.length := Nat.le_max_right _ _
    exact ⟨extendV_length _ _ _ (by omega), extendV_length _ _ _ h2, trivial, sval_extendV_u_s env _ _ h1,
      sval_extendV_same env _ _ _ h2 hnb, by omega, h2, fun _ => by omega⟩
  · have h1 : va.length ≤ max va.length (vb.length + 1) := Nat.le_max_left _ _
    have h2 : vb.length < max va.length (vb.length + 1) := by omega
    exact ⟨extendV_length _ _ _ h1, extendV_length _ _ _ (by omega), trivial, sval_extendV_same env _ _ _ h1 hna,
      sval_extendV_u_s env _ _ h2, h1, by omega, fun _ => by omega⟩
  · have h1 : va.length ≤ max va.length vb.length := Nat.le_max_left _ _
    have h2 : vb.length ≤ max va.length vb.length := Nat.le_max_right _ _
    have := hpa rfl
    exact ⟨extendV_length _ _ _ h1, extendV_length _ _ _ h2, trivial, sval_extendV_same env _ _ _ h1 hna,
      sval_extendV_same env _ _ _ h2 hnb, h1, h2, fun _ => by omega⟩

theorem old_unify {k : Nat} {va vb : Val} (ha : va.old k) (hb : vb.old k) (sa sb : Bool) :
    (unifyVals va sa vb sb).1.old k ∧ (unifyVals va sa vb sb).2.1.old k :=
  ⟨old_extendV ha _ _, old_extendV hb _ _⟩

/-- truncating the output of an emitted cell -/
theorem EmSound.take {c : Ctx} {m : Mems} {k : Nat} {env : Env} {e : Emitted} {P : Nat → Prop} (h : EmSound c m k env e P)
    (w : Nat) : EmSound c m k env { e with val := e.val.take w } (fun out => ∃ o, P o ∧ out = o % 2 ^ w) := by
  obtain ⟨env', r, f, p⟩ := h.run
  exact ⟨h.next_le, old_take h.old w, env', r, f, _, p, valOf_take env' e.val w⟩

/-! ## the two operands -/

section
variable (c : Ctx) (m : Mems) (ctx : Amaranth.Ctx) (env : Amaranth.Env)

/-- both operands emitted one after the other: the facts every operator case starts from -/
theorem op2_operands (a b : Expr) (hwa : (shapeOf ctx a).WF) (hwb : (shapeOf ctx b).WF)
    (iha : EmitsOk c m ctx env a) (ihb : EmitsOk c m ctx env b) (k : Nat) (renv : Env) (hse : SigEnv ctx env renv)
    (ra rb : Res) (hra : ra = emitE ctx a k) (hrb : rb = emitE ctx b ra.next)
    (hw : WidthsOk c (ra.wires ++ rb.wires)) :
    ∃ renv2, evalNodes c m (ra.nodes ++ rb.nodes) renv = .ok renv2 ∧ Frame k renv renv2 ∧ k ≤ rb.next ∧
      ra.val.old rb.next ∧ rb.val.old rb.next ∧ ra.val.length = widthOf ctx a ∧ rb.val.length = widthOf ctx b ∧
      ra.signed = (shapeOf ctx a).signed ∧ rb.signed = (shapeOf ctx b).signed ∧
      sval ra.signed renv2 ra.val = norm (shapeOf ctx a) (evalRtl ctx env a) ∧
      sval rb.signed renv2 rb.val = norm (shapeOf ctx b) (evalRtl ctx env b) ∧
      (ra.signed = true → ra.val ≠ []) ∧ (rb.signed = true → rb.val ≠ []) := by
  subst hra
  have sa := iha k renv hse hw.left
  obtain ⟨renv1, r1, f1, v1⟩ := sa.run
  subst hrb
  have sb := ihb (emitE ctx a k).next renv1 (hse.frame f1) hw.right
  obtain ⟨renv2, r2, f2, v2⟩ := sb.run
  have va2 : (valOf renv2 (emitE ctx a k).val : Int) = mask (widthOf ctx a) (evalRtl ctx env a) := by
    rw [valOf_frame f2 sa.old]; exact v1
  refine ⟨renv2, evalNodes_append_ok c m r1 r2, f1.trans f2 sa.next_le, le_trans sa.next_le sb.next_le,
    sa.old.mono sb.next_le, sb.old, sa.len, sb.len, sa.sgn, sb.sgn, sa.sval_eq hwa sa.len sa.sgn va2,
    sb.sval_eq hwb sb.len sb.sgn v2, ?_, ?_⟩
  · intro h; exact ne_nil_of_len sa.len (hwa (by rw [← sa.sgn]; exact h))
  · intro h; exact ne_nil_of_len sb.len (hwb (by rw [← sb.sgn]; exact h))

end

end Amaranth.Rtlil
