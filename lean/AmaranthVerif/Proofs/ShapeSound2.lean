import AmaranthVerif.Proofs.ShapeSound
import Mathlib.Tactic.Linarith

/-! # Range lemmas for `*`, `//`, `%`, `<<`, `>>` and the bitwise operators -/

namespace Amaranth

/-! ## floor division facts -/

theorem fdiv_spec_pos (a : Int) {b : Int} (hb : 0 < b) :
    a = Int.fdiv a b * b + Int.fmod a b ∧ 0 ≤ Int.fmod a b ∧ Int.fmod a b < b := by
  refine ⟨?_, Int.fmod_nonneg_of_pos a hb, Int.fmod_lt_of_pos a hb⟩
  have := Int.fdiv_mul_add_fmod a b
  omega

theorem fdiv_spec_neg (a : Int) {b : Int} (hb : b < 0) :
    a = Int.fdiv a b * b + Int.fmod a b ∧ b < Int.fmod a b ∧ Int.fmod a b ≤ 0 := by
  have h1 := Int.fdiv_mul_add_fmod a b
  have e : Int.fdiv a b = Int.fdiv (-a) (-b) := (Int.neg_fdiv_neg a b).symm
  have hnb : 0 < -b := by omega
  have h2 := fdiv_spec_pos (-a) hnb
  have e2 : Int.fmod a b = -Int.fmod (-a) (-b) := by
    have h3 := Int.fdiv_mul_add_fmod (-a) (-b)
    rw [← e] at h3
    have : Int.fdiv a b * -b = -(Int.fdiv a b * b) := by rw [Int.mul_neg]
    omega
  refine ⟨by omega, ?_, ?_⟩ <;> omega

/-- the four sign cases of a floor quotient -/
theorem fdiv_bounds (x y : Int) (hy : y ≠ 0) :
    (0 < y → 0 ≤ x → 0 ≤ Int.fdiv x y ∧ Int.fdiv x y ≤ x) ∧
    (0 < y → x < 0 → x ≤ Int.fdiv x y ∧ Int.fdiv x y < 0) ∧
    (y < 0 → 0 ≤ x → -x ≤ Int.fdiv x y ∧ Int.fdiv x y ≤ 0) ∧
    (y < 0 → x < 0 → 0 ≤ Int.fdiv x y ∧ Int.fdiv x y ≤ -x) := by
  refine ⟨?_, ?_, ?_, ?_⟩
  · intro hy0 hx
    obtain ⟨h1, h2, h3⟩ := fdiv_spec_pos x hy0
    constructor <;> nlinarith
  · intro hy0 hx
    obtain ⟨h1, h2, h3⟩ := fdiv_spec_pos x hy0
    constructor <;> nlinarith
  · intro hy0 hx
    obtain ⟨h1, h2, h3⟩ := fdiv_spec_neg x hy0
    constructor <;> nlinarith
  · intro hy0 hx
    obtain ⟨h1, h2, h3⟩ := fdiv_spec_neg x hy0
    constructor <;> nlinarith

namespace Shape

theorem mul_contains (a b : Shape) (ha : a.WF) (hb : b.WF) {x y : Int}
    (hx : a.contains x) (hy : b.contains y) :
    (Shape.mk (a.width + b.width) (a.signed || b.signed)).contains (x * y) := by
  obtain ⟨aw, asg⟩ := a; obtain ⟨bw, bsg⟩ := b
  have pa := two_pow_pos' aw; have pb := two_pow_pos' bw
  cases asg <;> cases bsg <;> simp only [Bool.or_false, Bool.or_true, Bool.false_or]
  · rw [contains_u] at *
    rw [two_pow_add']
    constructor <;> nlinarith
  · have hpos : 0 < bw := hb rfl
    rw [contains_u] at hx; rw [contains_s] at hy ⊢
    have e : (2 : Int) ^ (aw + bw - 1) = 2 ^ aw * 2 ^ (bw - 1) := by
      rw [← two_pow_add']; congr 1; omega
    have pb' := two_pow_pos' (bw - 1)
    rw [e]
    constructor <;> nlinarith
  · have hpos : 0 < aw := ha rfl
    rw [contains_u] at hy; rw [contains_s] at hx ⊢
    have e : (2 : Int) ^ (aw + bw - 1) = 2 ^ (aw - 1) * 2 ^ bw := by
      rw [← two_pow_add']; congr 1; omega
    have pa' := two_pow_pos' (aw - 1)
    rw [e]
    constructor <;> nlinarith
  · have hpa : 0 < aw := ha rfl
    have hpb : 0 < bw := hb rfl
    rw [contains_s] at *
    have e : (2 : Int) ^ (aw + bw - 1) = 2 * (2 ^ (aw - 1) * 2 ^ (bw - 1)) := by
      rw [← two_pow_add', ← two_pow_succ']; congr 1; omega
    have pa' := two_pow_pos' (aw - 1)
    have pb' := two_pow_pos' (bw - 1)
    rw [e]
    constructor <;> nlinarith

theorem fdiv_contains (a b : Shape) (ha : a.WF) (hb : b.WF) {x y : Int}
    (hx : a.contains x) (hy : b.contains y) :
    (Shape.mk (a.width + (if b.signed then 1 else 0)) (a.signed || b.signed)).contains
      (if y = 0 then 0 else Int.fdiv x y) := by
  obtain ⟨aw, asg⟩ := a; obtain ⟨bw, bsg⟩ := b
  have pa := two_pow_pos' aw
  by_cases hy0 : y = 0
  · simp only [hy0, if_true]
    cases asg <;> cases bsg <;> simp [contains, lo, hi] <;> (try constructor) <;>
      first | exact two_pow_pos' _ | (have := two_pow_pos' (aw - 1); omega) | (have := two_pow_pos' (aw + 1 - 1); omega) | skip
  · simp only [hy0, if_false]
    obtain ⟨h1, h2, h3, h4⟩ := fdiv_bounds x y hy0
    cases asg <;> cases bsg <;> simp only [Bool.or_false, Bool.or_true, Bool.false_or, if_true, if_false, Bool.false_eq_true]
    · rw [contains_u] at *
      have := h1 (by omega) hx.1
      simp only [Nat.add_zero]; omega
    · rw [contains_u] at hx; rw [contains_s]
      simp only [Nat.add_sub_cancel]
      rcases Int.lt_or_gt_of_ne hy0 with hlt | hgt
      · have := h3 hlt hx.1; omega
      · have := h1 hgt hx.1; omega
    · have hpa : 0 < aw := ha rfl
      rw [contains_u] at hy; rw [contains_s] at hx ⊢
      simp only [Nat.add_zero]
      have hgt : 0 < y := by omega
      rcases Int.lt_or_le x 0 with hneg | hnn
      · have := h2 hgt hneg; omega
      · have := h1 hgt hnn; omega
    · have hpa : 0 < aw := ha rfl
      rw [contains_s] at hx ⊢
      simp only [Nat.add_sub_cancel]
      have e := two_pow_pred aw hpa
      rcases Int.lt_or_gt_of_ne hy0 with hlt | hgt <;> rcases Int.lt_or_le x 0 with hneg | hnn
      · have := h4 hlt hneg; omega
      · have := h3 hlt hnn; omega
      · have := h2 hgt hneg; omega
      · have := h1 hgt hnn; omega

theorem mod_contains (b : Shape) (hb : b.WF) {x y : Int} (hy : b.contains y) :
    b.contains (if y = 0 then 0 else Int.fmod x y) := by
  obtain ⟨bw, bsg⟩ := b
  by_cases hy0 : y = 0
  · simp only [hy0, if_true]
    cases bsg
    · rw [contains_u]; exact ⟨Int.le_refl _, two_pow_pos' _⟩
    · rw [contains_s]; have := two_pow_pos' (bw - 1); omega
  · simp only [hy0, if_false]
    cases bsg
    · rw [contains_u] at *
      have := fdiv_spec_pos x (show 0 < y by omega); omega
    · rw [contains_s] at *
      rcases Int.lt_or_gt_of_ne hy0 with hlt | hgt
      · have := fdiv_spec_neg x hlt; omega
      · have := fdiv_spec_pos x hgt; omega

theorem shl_contains (a : Shape) (ha : a.WF) (bw : Nat) {x : Int} {s : Nat}
    (hx : a.contains x) (hs : s < 2 ^ bw) :
    (Shape.mk (a.width + 2 ^ bw - 1) a.signed).contains (x * 2 ^ s) := by
  obtain ⟨aw, asg⟩ := a
  have ps := two_pow_pos' s
  cases asg
  · rw [contains_u] at *
    have h3 : (2 : Int) ^ aw * 2 ^ s ≤ 2 ^ (aw + 2 ^ bw - 1) := by
      rw [← two_pow_add']; exact two_pow_mono (by omega)
    constructor <;> nlinarith
  · have hpa : 0 < aw := ha rfl
    rw [contains_s] at *
    have h3 : (2 : Int) ^ (aw - 1) * 2 ^ s ≤ 2 ^ (aw + 2 ^ bw - 1 - 1) := by
      rw [← two_pow_add']; exact two_pow_mono (by omega)
    have pa' := two_pow_pos' (aw - 1)
    constructor <;> nlinarith

theorem shr_contains (a : Shape) {x : Int} (s : Nat) (hx : a.contains x) :
    a.contains (x / 2 ^ s) := by
  obtain ⟨aw, asg⟩ := a
  have ps := two_pow_pos' s
  have hq := fdiv_bounds x (2 ^ s) (by omega)
  rw [Int.fdiv_eq_ediv_of_nonneg x (by omega)] at hq
  obtain ⟨h1, h2, -, -⟩ := hq
  cases asg
  · rw [contains_u] at *
    have := h1 ps hx.1; omega
  · rw [contains_s] at *
    rcases Int.lt_or_le x 0 with hneg | hnn
    · have := h2 ps hneg; omega
    · have := h1 ps hnn; omega

end Shape
end Amaranth
