import AmaranthVerif.Proofs.EngineEquivLift

/-!
# Two owner lists that differ in one owner

`psA` and `psB` agree everywhere except at index `p`. `Mid p a b`: the two states agree on everything
except the local state of owner `p`. Every phase of a delta keeps `Mid`; what happens to owner `p` on
each side is described separately.
-/

namespace Amaranth.Engine
open Amaranth

structure Mid (p : Nat) (a b : EState) : Prop where
  curr : b.curr = a.curr
  next : b.next = a.next
  timers : b.timers = a.timers
  now : b.now = a.now
  deltas : b.deltas = a.deltas
  obs : b.obs = a.obs
  len : b.locals.length = a.locals.length
  off : ∀ q, q ≠ p → b.locals[q]? = a.locals[q]?

/-- the two owner lists agree off `p` and have the same length -/
structure SameOff (p : Nat) (psA psB : List ProcDef) : Prop where
  len : psB.length = psA.length
  off : ∀ q, q ≠ p → psB[q]? = psA[q]?

section
variable {p : Nat} {psA psB : List ProcDef} (hps : SameOff p psA psB)
include hps

theorem trigPhase_mid {a b : EState} (h : Mid p a b) : Mid p (trigPhase psA a) (trigPhase psB b) := by
  refine ⟨h.curr, h.next, h.timers, h.now, h.deltas, h.obs, ?_, ?_⟩
  · simp only [trigPhase, List.length_zipWith, hps.len, h.len]
  · intro q hq
    simp only [trigPhase, List.getElem?_zipWith, hps.off q hq, h.off q hq, h.curr]

theorem effectOf_off {a b : EState} (h : Mid p a b) (q : Nat) (hq : q ≠ p) :
    effectOf psB b q = effectOf psA a q := by
  unfold effectOf
  rw [hps.off q hq, h.off q hq, h.curr]

omit hps in
theorem applyEffect_mid {a b : EState} (h : Mid p a b) (q : Nat) (hq : q ≠ p) (eff : Option Effect) :
    Mid p (applyEffect a q eff) (applyEffect b q eff) := by
  cases eff with
  | none => exact h
  | some e =>
    refine ⟨h.curr, ?_, ?_, h.now, h.deltas, h.obs, ?_, ?_⟩
    · simp only [applyEffect, h.next]
    · simp only [applyEffect, h.timers, h.now]
    · simp only [applyEffect, List.length_set, h.len]
    · intro r hr
      simp only [applyEffect, List.getElem?_set, h.len, h.off r hr]

theorem commitSlot_mid {a b : EState} (h : Mid p a b) (i : Nat) :
    Mid p (commitSlot psA a i) (commitSlot psB b i) := by
  unfold commitSlot
  simp only [h.curr, h.next]
  split
  · exact h
  · refine ⟨rfl, rfl, h.timers, h.now, h.deltas, h.obs, ?_, ?_⟩
    · simp only [List.length_zipWith, hps.len, h.len]
    · intro q hq
      simp only [List.getElem?_zipWith, hps.off q hq, h.off q hq]

theorem commit_mid {a b : EState} (h : Mid p a b) (order : List Nat) :
    Mid p (commit psA order a) (commit psB order b) := by
  unfold commit
  induction order generalizing a b with
  | nil => exact h
  | cons i rest ih => exact ih (commitSlot_mid hps h i)

theorem anyChange_mid {a b : EState} (h : Mid p a b) (order : List Nat) : anyChange order b = anyChange order a := by
  unfold anyChange
  rw [h.curr, h.next]

theorem advanceTime_mid {a b : EState} (h : Mid p a b) :
    Mid p (advanceTime psA a).1 (advanceTime psB b).1 ∧
    (∀ lA lB, a.locals[p]? = some lA → b.locals[p]? = some lB →
      (advanceTime psA a).1.locals[p]? = some (if (scanNearest (entriesFrom 0 a.timers)).2.contains p ∧
          (scanNearest (entriesFrom 0 a.timers)).1.isSome then (psA.getD p default).fire lA else lA) ∧
      (advanceTime psB b).1.locals[p]? = some (if (scanNearest (entriesFrom 0 a.timers)).2.contains p ∧
          (scanNearest (entriesFrom 0 a.timers)).1.isSome then (psB.getD p default).fire lB else lB)) := by
  unfold advanceTime
  rw [h.timers]
  cases hs : scanNearest (entriesFrom 0 a.timers) with
  | mk r ws =>
    cases r with
    | none =>
      refine ⟨h, fun lA lB hA hB => ?_⟩
      simp [hA, hB]
    | some d =>
      refine ⟨⟨h.curr, h.next, ?_, rfl, h.deltas, h.obs, ?_, ?_⟩, fun lA lB hA hB => ?_⟩
      · simp only [h.timers]
      · have e : ∀ {α β : Type} (f : Nat → α → β) (k : Nat) (l : List α), (mapIdxFrom f k l).length = l.length := by
          intro α β f k l
          induction l generalizing k with
          | nil => rfl
          | cons x xs ih => simp [mapIdxFrom, ih]
        simp only [e, h.len]
      · intro q hq
        simp only [getElem?_mapIdxFrom, Nat.zero_add, h.off q hq]
        have : psB.getD q default = psA.getD q default := by
          rw [List.getD_eq_getElem?_getD, List.getD_eq_getElem?_getD, hps.off q hq]
        rw [this]
      · simp only [getElem?_mapIdxFrom, Nat.zero_add, hA, hB, Option.map_some, Option.isSome_some, and_true]

end

/-! ## Owner `p` through the phases -/

theorem trigPhase_at (ps : List ProcDef) (s : EState) (p : Nat) (d : ProcDef) (l : Local)
    (hd : ps[p]? = some d) (hl : s.locals[p]? = some l) :
    (trigPhase ps s).locals[p]? = some (if l.active then d.trig l s.curr else l) := by
  simp only [trigPhase, List.getElem?_zipWith, hd, hl]

theorem commitSlot_at (ps : List ProcDef) (z : EState) (i p : Nat) (d : ProcDef) (l : Local)
    (hd : ps[p]? = some d) (hl : z.locals[p]? = some l) :
    (commitSlot ps z i).locals[p]? =
      some (if z.curr.val i = z.next.val i then l else d.wake l i (z.curr.val i) (z.next.val i)) := by
  by_cases hi : z.curr.val i = z.next.val i
  · rw [commitSlot_of_eq ps z i hi]; simp [hi, hl]
  · rw [commitSlot_of_ne ps z i hi]
    simp only [List.getElem?_zipWith, hd, hl, hi, if_false]

theorem applyEffect_at_self (z : EState) (p : Nat) (e : Effect) (l : Local) (hl : z.locals[p]? = some l) :
    (applyEffect z p (some e)).locals[p]? = some e.loc := by
  simp only [applyEffect]
  exact List.getElem?_set_self (List.getElem?_eq_some_iff.mp hl).1

theorem effectOf_at (ps : List ProcDef) (s : EState) (p : Nat) (d : ProcDef) (l : Local)
    (hd : ps[p]? = some d) (hl : s.locals[p]? = some l) :
    effectOf ps s p = if l.runnable then some (d.run { l with runnable := false } s.curr) else none := by
  simp only [effectOf, hd, hl]

/-- an effect of `effectOf` is a run of the owner's definition on `curr` -/
theorem effectOf_some (ps : List ProcDef) (s : EState) (q : Nat) (eff : Effect) (h : effectOf ps s q = some eff) :
    ∃ d l, ps[q]? = some d ∧ eff = d.run l s.curr := by
  unfold effectOf at h
  cases hd : ps[q]? with
  | none => simp [hd] at h
  | some d =>
    cases hl : s.locals[q]? with
    | none => simp [hd, hl] at h
    | some l =>
      simp only [hd, hl] at h
      split at h
      · exact ⟨d, _, rfl, by simpa using h.symm⟩
      · cases h

/-! ## One kind replaced by another -/

theorem getElem?_append_cons_ne {α : Type} (l1 l2 : List α) (x y : α) (q : Nat) (hq : q ≠ l1.length) :
    (l1 ++ x :: l2)[q]? = (l1 ++ y :: l2)[q]? := by
  rcases Nat.lt_or_ge q l1.length with h | h
  · rw [List.getElem?_append_left h, List.getElem?_append_left h]
  · rw [List.getElem?_append_right h, List.getElem?_append_right h]
    obtain ⟨m, hm⟩ : ∃ m, q - l1.length = m + 1 := ⟨q - l1.length - 1, by omega⟩
    rw [hm, List.getElem?_cons_succ, List.getElem?_cons_succ]

theorem simDefs_split (D : Design) (pre post : List ProcKind) (scripts : List (List TbOp)) (k : ProcKind) :
    simDefs D (pre ++ k :: post) scripts =
      pre.map (·.toDef D) ++ k.toDef D :: (post.map (·.toDef D) ++ scripts.map (tbDef D.ctx D.doms)) := by
  simp [simDefs]

theorem simDefs_replace (D : Design) (pre post : List ProcKind) (scripts : List (List TbOp)) (kA kB : ProcKind) :
    SameOff pre.length (simDefs D (pre ++ kA :: post) scripts) (simDefs D (pre ++ kB :: post) scripts) := by
  refine ⟨by simp [simDefs], fun q hq => ?_⟩
  rw [simDefs_split, simDefs_split]
  exact getElem?_append_cons_ne _ _ _ _ q (by simpa using hq)

theorem simDefs_at (D : Design) (pre post : List ProcKind) (scripts : List (List TbOp)) (k : ProcKind) :
    (simDefs D (pre ++ k :: post) scripts)[pre.length]? = some (k.toDef D) :=
  simDefs_proc D _ scripts pre.length k (by simp)

theorem mem_of_append_cons_ne {α : Type} (l1 l2 : List α) (x k : α) (q : Nat) (hq : q ≠ l1.length)
    (h : (l1 ++ x :: l2)[q]? = some k) : k ∈ l1 ++ l2 := by
  rcases Nat.lt_or_ge q l1.length with h' | h'
  · rw [List.getElem?_append_left h'] at h
    exact List.mem_append_left _ (List.mem_of_getElem? h)
  · rw [List.getElem?_append_right h'] at h
    obtain ⟨m, hm⟩ : ∃ m, q - l1.length = m + 1 := ⟨q - l1.length - 1, by omega⟩
    rw [hm, List.getElem?_cons_succ] at h
    exact List.mem_append_right _ (List.mem_of_getElem? h)

/-- an owner other than the replaced one is one of the other processes or a testbench -/
theorem simDefs_other (D : Design) (pre post : List ProcKind) (scripts : List (List TbOp)) (k0 : ProcKind)
    (q : Nat) (d : ProcDef) (hq : q ≠ pre.length) (hd : (simDefs D (pre ++ k0 :: post) scripts)[q]? = some d) :
    (∃ k ∈ pre ++ post, d = k.toDef D) ∨ ∃ sc, d = tbDef D.ctx D.doms sc := by
  rcases Nat.lt_or_ge q (pre ++ k0 :: post).length with h | h
  · left
    have hk : (pre ++ k0 :: post)[q]? = some (pre ++ k0 :: post)[q] := List.getElem?_eq_getElem h
    rw [simDefs_proc D _ scripts q _ hk] at hd
    exact ⟨(pre ++ k0 :: post)[q], mem_of_append_cons_ne pre post k0 _ q hq hk, by simpa using hd.symm⟩
  · right
    exact simDefs_tb D _ scripts q d h hd

end Amaranth.Engine
