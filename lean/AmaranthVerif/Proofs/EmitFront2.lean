import AmaranthVerif.Proofs.EmitFront

/-!
# `emit_rhs`: unary operators (helper lemmas for `C04.emit_expr_correct`), part 2
-/

namespace Amaranth.Rtlil
open Amaranth

theorem resSound_after (c : Ctx) (m : Mems) (ctx : Amaranth.Ctx) (env : Amaranth.Env) (e : Expr) {k k' : Nat}
    {renv renv1 : Env} {nodes : List Node} (wires : List (String × Nat)) {em : Emitted} {P : Nat → Prop}
    (h1 : evalNodes c m nodes renv = .ok renv1) (f1 : Frame k renv renv1) (hk : k ≤ k') (hs : EmSound c m k' renv1 em P)
    (sg : Bool) (hsg : sg = (shapeOf ctx e).signed) (hlen : em.val.length = widthOf ctx e)
    (hP : ∀ out, P out → (out : Int) = mask (widthOf ctx e) (evalRtl ctx env e)) :
    ResSound c m ctx env e k renv (Res.after wires nodes em sg) := by
  obtain ⟨a1, a2, renv2, r2, f2, p2⟩ := after_run c m h1 f1 hk hs
  exact ⟨a1, a2, hlen, hsg, renv2, r2, f2, hP _ p2⟩

theorem shape_eta (s : Shape) : (⟨s.width, s.signed⟩ : Shape) = s := rfl

/-- what the invariant says about the signed reading of an operand, in any later environment -/
theorem ResSound.sval_eq {c : Ctx} {m : Mems} {ctx : Amaranth.Ctx} {env : Amaranth.Env} {e : Expr} {k : Nat} {renv : Env}
    {r : Res} (_h : ResSound c m ctx env e k renv r) (hwf : (shapeOf ctx e).WF) {renv' : Env}
    (hl : r.val.length = widthOf ctx e) (hs : r.signed = (shapeOf ctx e).signed)
    (hv : (valOf renv' r.val : Int) = mask (widthOf ctx e) (evalRtl ctx env e)) :
    sval r.signed renv' r.val = norm (shapeOf ctx e) (evalRtl ctx env e) := by
  have := sval_of_inv renv' r.val r.signed (widthOf ctx e) (evalRtl ctx env e) hl (by rw [hs]; exact hwf) hv
  rw [this, hs]; rfl

theorem parity_eq_popcount : ∀ w n, parity w n = popcount w n % 2
  | 0, _ => rfl
  | w + 1, n => by
    simp only [parity, popcount, parity_eq_popcount w (n / 2)]
    omega

theorem b2n_cast (b : Bool) : ((b2n b : Nat) : Int) = b2i b := by cases b <;> rfl

theorem bne_cast (n : Nat) : (n != 0) = ((n : Int) != 0) := by
  rw [Bool.eq_iff_iff]
  simp only [bne_iff_ne, ne_eq]
  constructor
  · intro hh e; apply hh; exact_mod_cast e
  · intro hh e; apply hh; exact_mod_cast e

theorem bne_cast' (n : Nat) : (n != 0) = ((0 : Int) != (n : Int)) := by
  rw [Bool.eq_iff_iff]
  simp only [bne_iff_ne, ne_eq]
  constructor
  · intro hh e; apply hh; exact_mod_cast e.symm
  · intro hh e; apply hh; exact_mod_cast e.symm

theorem rall_cast (n w : Nat) : (n == 2 ^ w - 1) = ((2 ^ w - 1 : Int) == (n : Int)) := by
  have hp := Nat.one_le_two_pow (n := w)
  have hc : ((2 ^ w - 1 : Nat) : Int) = 2 ^ w - 1 := by rw [Nat.cast_sub hp]; push_cast; ring
  rw [← hc, Bool.eq_iff_iff]
  simp only [beq_iff_eq]
  constructor
  · intro h; rw [h]
  · intro h; exact_mod_cast h.symm

theorem mask_b2i (b : Bool) : mask 1 (b2i b) = b2i b := by cases b <;> rfl

section
variable (c : Ctx) (m : Mems) (ctx : Amaranth.Ctx) (env : Amaranth.Env)

theorem emitsOk_op1 (o : Op1) (a : Expr) (hswf : (shapeOf ctx a).WF) (hs : o = .s → 0 < widthOf ctx a)
    (iha : EmitsOk c m ctx env a) : EmitsOk c m ctx env (.op1 o a) := by
  intro k renv hse hw
  have hE : emitE ctx (.op1 o a) k = emitOp1 o (emitE ctx a k) := rfl
  rw [hE] at hw ⊢
  cases o with
  | u =>
    have ra := iha k renv hse hw
    exact ⟨ra.next_le, ra.old, ra.len, rfl, ra.run⟩
  | s =>
    have ra := iha k renv hse hw
    exact ⟨ra.next_le, ra.old, ra.len, rfl, ra.run⟩
  | neg =>
    have hw' : WidthsOk c ((emitE ctx a k).wires ++
        (emitUnary .neg (extendV (emitE ctx a k).val (emitE ctx a k).signed ((emitE ctx a k).val.length + 1)) (emitE ctx a k).next).wires) := hw
    have ra := iha k renv hse hw'.left
    obtain ⟨renv1, r1, f1, v1⟩ := ra.run
    have hne : (emitE ctx a k).signed = true → (emitE ctx a k).val ≠ [] := fun h =>
      ne_nil_of_len ra.len (hswf (by rw [← ra.sgn]; exact h))
    have hx := ra.sval_eq hswf ra.len ra.sgn v1
    refine resSound_after c m ctx env (.op1 .neg a) _ r1 f1 ra.next_le (emitUnary_sound c m .neg _ _ renv1 hw'.right) true rfl ?_ ?_
    · show (wireBits _ 0 _).length = _
      rw [wireBits_length, extendV_length _ _ _ (by omega), ra.len]; rfl
    · intro out hout
      have h2 := hout (emitE ctx a k).signed
      rw [extendV_length _ _ _ (by omega)] at h2
      have h3 : toInt (emitE ctx a k).signed ((emitE ctx a k).val.length + 1)
          (valOf renv1 (extendV (emitE ctx a k).val (emitE ctx a k).signed ((emitE ctx a k).val.length + 1)))
          = norm (shapeOf ctx a) (evalRtl ctx env a) := by
        rw [← hx, ← sval_extendV_same renv1 _ _ ((emitE ctx a k).val.length + 1) (by omega) hne]
        unfold sval
        rw [extendV_length _ _ _ (by omega)]
      rw [h2, h3, ofInt_cast, ra.len]
      rfl
  | inv =>
    have hw' : WidthsOk c ((emitE ctx a k).wires ++ (emitUnary .not (emitE ctx a k).val (emitE ctx a k).next).wires) := hw
    have ra := iha k renv hse hw'.left
    obtain ⟨renv1, r1, f1, v1⟩ := ra.run
    refine resSound_after c m ctx env (.op1 .inv a) _ r1 f1 ra.next_le (emitUnary_sound c m .not _ _ renv1 hw'.right)
      _ ra.sgn ?_ ?_
    · show (wireBits _ 0 _).length = _
      rw [wireBits_length]; exact ra.len
    · intro out hout
      have hlt := valOf_lt renv1 (emitE ctx a k).val
      have h2 : out = 2 ^ (emitE ctx a k).val.length - 1 - valOf renv1 (emitE ctx a k).val := hout
      have e1 : evalRtl ctx env (.op1 .inv a) = pyNot (mask (widthOf ctx a) (evalRtl ctx env a)) := rfl
      have e2 : widthOf ctx (.op1 .inv a) = widthOf ctx a := rfl
      rw [e1, e2, ← v1, h2, ra.len] at *
      have hp : (0 : Int) < 2 ^ widthOf ctx a := by positivity
      have hltI : ((valOf renv1 (emitE ctx a k).val : Nat) : Int) < 2 ^ widthOf ctx a := by exact_mod_cast hlt
      unfold pyNot mask
      have hc : ((2 ^ widthOf ctx a - 1 - valOf renv1 (emitE ctx a k).val : Nat) : Int)
          = 2 ^ widthOf ctx a - 1 - (valOf renv1 (emitE ctx a k).val : Int) := by
        have : valOf renv1 (emitE ctx a k).val ≤ 2 ^ widthOf ctx a - 1 := by omega
        rw [Nat.cast_sub this, Nat.cast_sub (Nat.one_le_two_pow)]
        push_cast; ring
      rw [hc]
      have : -(valOf renv1 (emitE ctx a k).val : Int) - 1
          = (2 ^ widthOf ctx a - 1 - (valOf renv1 (emitE ctx a k).val : Int)) + 2 ^ widthOf ctx a * (-1) := by ring
      rw [this, Int.add_mul_emod_self_left]
      exact (Int.emod_eq_of_lt (by omega) (by omega)).symm
  | bool =>
    have hw' : WidthsOk c ((emitE ctx a k).wires ++ (emitUnary .bool (emitE ctx a k).val (emitE ctx a k).next).wires) := hw
    have ra := iha k renv hse hw'.left
    obtain ⟨renv1, r1, f1, v1⟩ := ra.run
    refine resSound_after c m ctx env (.op1 .bool a) _ r1 f1 ra.next_le (emitUnary_sound c m .bool _ _ renv1 hw'.right)
      false rfl (by show (wireBits _ 0 _).length = _; rw [wireBits_length]; rfl) ?_
    intro out hout
    have h2 : out = b2n (valOf renv1 (emitE ctx a k).val != 0) := hout
    have e1 : evalRtl ctx env (.op1 .bool a) = b2i (mask (widthOf ctx a) (evalRtl ctx env a) != 0) := rfl
    have e2 : widthOf ctx (.op1 .bool a) = 1 := rfl
    rw [e1, e2, ← v1, h2, mask_b2i, b2n_cast]
    congr 1
    exact bne_cast _
  | rany =>
    have hw' : WidthsOk c ((emitE ctx a k).wires ++ (emitUnary .rany (emitE ctx a k).val (emitE ctx a k).next).wires) := hw
    have ra := iha k renv hse hw'.left
    obtain ⟨renv1, r1, f1, v1⟩ := ra.run
    refine resSound_after c m ctx env (.op1 .rany a) _ r1 f1 ra.next_le (emitUnary_sound c m .rany _ _ renv1 hw'.right)
      false rfl (by show (wireBits _ 0 _).length = _; rw [wireBits_length]; rfl) ?_
    intro out hout
    have h2 : out = b2n (valOf renv1 (emitE ctx a k).val != 0) := hout
    have e1 : evalRtl ctx env (.op1 .rany a) = b2i (0 != mask (widthOf ctx a) (evalRtl ctx env a)) := rfl
    have e2 : widthOf ctx (.op1 .rany a) = 1 := rfl
    rw [e1, e2, ← v1, h2, mask_b2i, b2n_cast]
    congr 1
    exact bne_cast' _
  | rall =>
    have hw' : WidthsOk c ((emitE ctx a k).wires ++ (emitUnary .rall (emitE ctx a k).val (emitE ctx a k).next).wires) := hw
    have ra := iha k renv hse hw'.left
    obtain ⟨renv1, r1, f1, v1⟩ := ra.run
    refine resSound_after c m ctx env (.op1 .rall a) _ r1 f1 ra.next_le (emitUnary_sound c m .rall _ _ renv1 hw'.right)
      false rfl (by show (wireBits _ 0 _).length = _; rw [wireBits_length]; rfl) ?_
    intro out hout
    have h2 : out = b2n (valOf renv1 (emitE ctx a k).val == 2 ^ (emitE ctx a k).val.length - 1) := hout
    have e1 : evalRtl ctx env (.op1 .rall a)
        = b2i ((2 ^ (shapeOf ctx a).width - 1 : Int) == mask (widthOf ctx a) (evalRtl ctx env a)) := rfl
    have e2 : widthOf ctx (.op1 .rall a) = 1 := rfl
    rw [e1, e2, ← v1, h2, mask_b2i, b2n_cast, ra.len]
    congr 1
    exact rall_cast _ _
  | rxor =>
    have hw' : WidthsOk c ((emitE ctx a k).wires ++ (emitUnary .rxor (emitE ctx a k).val (emitE ctx a k).next).wires) := hw
    have ra := iha k renv hse hw'.left
    obtain ⟨renv1, r1, f1, v1⟩ := ra.run
    refine resSound_after c m ctx env (.op1 .rxor a) _ r1 f1 ra.next_le (emitUnary_sound c m .rxor _ _ renv1 hw'.right)
      false rfl (by show (wireBits _ 0 _).length = _; rw [wireBits_length]; rfl) ?_
    intro out hout
    have h2 : out = parity (emitE ctx a k).val.length (valOf renv1 (emitE ctx a k).val) := hout
    have e1 : evalRtl ctx env (.op1 .rxor a)
        = ((popcount (shapeOf ctx a).width (mask (widthOf ctx a) (evalRtl ctx env a)).toNat % 2 : Nat) : Int) := rfl
    have e2 : widthOf ctx (.op1 .rxor a) = 1 := rfl
    rw [e1, e2, ← v1, h2, ra.len, parity_eq_popcount]
    simp only [Int.toNat_natCast]
    show _ = mask 1 _
    unfold mask
    have : popcount (widthOf ctx a) (valOf renv1 (emitE ctx a k).val) % 2 < 2 := Nat.mod_lt _ (by norm_num)
    rw [Int.emod_eq_of_lt (by positivity) (by norm_num; exact_mod_cast this)]
    rfl

end

end Amaranth.Rtlil
