import AmaranthVerif.Model.DerivedBuild
import AmaranthVerif.Proofs.Lowering
import AmaranthVerif.Proofs.ShapeCast
import AmaranthVerif.Proofs.TbLemmas

/-! # The derived operators mean what Python means by them (for all operands) -/

namespace Amaranth

theorem Shape.unify_nil (s : Shape) (h : s.WF) : Shape.unify s ⟨0, false⟩ = s := by
  obtain ⟨w, sg⟩ := s
  cases sg
  · simp [Shape.unify]
  · have : 0 < w := h rfl
    simp [Shape.unify]; omega

theorem unify_width_ge2 (a b : Shape) : b.width ≤ (Shape.unify a b).width := by
  obtain ⟨aw, asg⟩ := a; obtain ⟨bw, bsg⟩ := b
  cases asg <;> cases bsg <;> simp [Shape.unify] <;> omega

theorem toBinary_zero (w : Nat) : toBinary 0 w = List.replicate w .zero := by
  induction w with
  | zero => rfl
  | succ w ih => simp [toBinary, ih, List.replicate_succ]

theorem matchesSpec_zeros (w : Nat) (v : Int) :
    Pat.matchesSpec (List.replicate w PatBit.zero) v = decide (v % 2 ^ w = 0) := by
  rw [← toBinary_zero, matchesSpec_toBinary 0 w (Nat.two_pow_pos w)]; rfl

theorem nil_wf (ctx : Ctx) : Expr.nil.wf ctx = true := by
  simp [Expr.nil, Expr.wf, Shape.u, Shape.WF, Shape.contains, Shape.lo, Shape.hi]

section
variable (ctx : Ctx) (env : Env) (hok : EnvOk ctx env)

include hok in
/-- `Mux(sel, val1, val0)` is `val1` when `sel` is non-zero, else `val0`, in the unified shape. -/
theorem mux_spec (sel v1 v0 : Expr) (hs : sel.wf ctx = true) (h1 : v1.wf ctx = true) (h0 : v0.wf ctx = true) :
    (mkMux ctx sel v1 v0).wf ctx = true ∧
    shapeOf ctx (mkMux ctx sel v1 v0) = Shape.unify (shapeOf ctx v0) (shapeOf ctx v1) ∧
    denote ctx env (mkMux ctx sel v1 v0) = if denote ctx env sel = 0 then denote ctx env v0 else denote ctx env v1 := by
  have ss := sound ctx env hok sel hs
  have s1 := sound ctx env hok v1 h1
  refine ⟨?_, ?_, ?_⟩
  · simp [mkMux, Expr.wf, hs, h1, h0, Expr.isSwTail, Expr.nil, Pat.dontCare, Shape.u, Shape.WF, Shape.contains, Shape.lo, Shape.hi]
  · simp only [mkMux, shapeOf, Expr.nil, Shape.u]
    rw [Shape.unify_nil _ s1.swf]
  · simp only [mkMux, denote, List.any_cons, List.any_nil, Bool.or_false, matchesSpec_zeros, matchesSpec_dontCare]
    have hz := contains_emod_zero _ ss.swf ss.rng
    unfold widthOf
    by_cases h : denote ctx env sel = 0
    · simp [h]
    · have : ¬ denote ctx env sel % 2 ^ (shapeOf ctx sel).width = 0 := fun e => h (hz.mp e)
      simp [h, this]

include hok in
/-- `abs(a)` is `|a|` in `unsigned(len(a))` for signed `a`, and `a` itself otherwise. -/
theorem abs_spec (a : Expr) (ha : a.wf ctx = true) :
    (mkAbs ctx a).wf ctx = true ∧
    shapeOf ctx (mkAbs ctx a) = ⟨widthOf ctx a, false⟩ ∧
    denote ctx env (mkAbs ctx a) = (denote ctx env a).natAbs := by
  have sa := sound ctx env hok a ha
  unfold mkAbs
  by_cases hsg : (shapeOf ctx a).signed = true
  · simp only [hsg, if_true]
    have hge : (Expr.op2 .ge a (.const 0 ⟨1, false⟩)).wf ctx = true := by
      simp [Expr.wf, ha, Shape.WF, Shape.contains, Shape.lo, Shape.hi]
    have hneg : (Expr.op1 .neg a).wf ctx = true := by simp [Expr.wf, ha]
    obtain ⟨m1, m2, m3⟩ := mux_spec ctx env hok _ a (.op1 .neg a) hge ha hneg
    have hw : widthOf ctx a ≤ widthOf ctx (mkMux ctx (.op2 .ge a (.const 0 ⟨1, false⟩)) a (.op1 .neg a)) := by
      unfold widthOf; rw [m2]
      exact unify_width_ge2 _ _
    refine ⟨by simp [Expr.wf, m1, hw], rfl, ?_⟩
    have hr := sa.rng
    have hswf := sa.swf
    have hd : denote ctx env (Expr.op2 .ge a (.const 0 ⟨1, false⟩)) = if 0 ≤ denote ctx env a then 1 else 0 := rfl
    have hdn : denote ctx env (.op1 .neg a) = -denote ctx env a := rfl
    rw [hd, hdn] at m3
    simp only [denote]
    rw [m3]
    unfold widthOf
    generalize denote ctx env a = x at *
    generalize shapeOf ctx a = sh at *
    obtain ⟨w, sg⟩ := sh
    simp only at hsg; subst hsg
    have hpos : 0 < w := hswf rfl
    rw [Shape.contains_s] at hr
    have e2 := two_pow_pred w hpos
    simp only [Int.pow_zero, Int.ediv_one, Nat.sub_zero]
    by_cases hx0 : 0 ≤ x
    · have : (if 0 ≤ x then (1 : Int) else 0) = 1 := by simp [hx0]
      rw [this, if_neg (by omega), Int.emod_eq_of_lt hx0 (by omega)]; omega
    · have : (if 0 ≤ x then (1 : Int) else 0) = 0 := by simp [hx0]
      rw [this, if_pos rfl, Int.emod_eq_of_lt (by omega) (by omega)]; omega
  · simp only [hsg, Bool.false_eq_true, if_false]
    have hr := sa.rng
    generalize hsh : shapeOf ctx a = sh at *
    obtain ⟨w, sg⟩ := sh
    have hsg' : sg = false := by simpa using hsg
    subst hsg'
    rw [Shape.contains_u] at hr
    refine ⟨ha, by simp [widthOf, hsh], by omega⟩

theorem const0_wf (n : Nat) : (Expr.const 0 ⟨n, false⟩).wf ctx = true := by
  have := two_pow_pos' n
  simp [Expr.wf, Shape.WF, Shape.contains, Shape.lo, Shape.hi]

include hok in
/-- `a.shift_left(n)` is `a · 2^n` in a shape `n` bits wider, same signedness. -/
theorem shift_left_spec (a : Expr) (ha : a.wf ctx = true) (n : Nat) :
    (mkShiftLeft ctx a n).wf ctx = true ∧
    shapeOf ctx (mkShiftLeft ctx a n) = ⟨n + widthOf ctx a, (shapeOf ctx a).signed⟩ ∧
    denote ctx env (mkShiftLeft ctx a n) = denote ctx env a * 2 ^ n := by
  have sa := sound ctx env hok a ha
  have hr := sa.rng
  have hswf := sa.swf
  have hcat : (mkCat2 (.const 0 ⟨n, false⟩) a).wf ctx = true := by
    have c0 := const0_wf ctx n
    simp only [Expr.wf] at c0
    simp [mkCat2, Expr.wf, ha, nil_wf, c0]
  have hcs : shapeOf ctx (mkCat2 (.const 0 ⟨n, false⟩) a) = ⟨n + widthOf ctx a, false⟩ := by
    simp [mkCat2, shapeOf, Expr.nil, Shape.u, widthOf]
  have hcd : denote ctx env (mkCat2 (.const 0 ⟨n, false⟩) a) =
      2 ^ n * (denote ctx env a % 2 ^ widthOf ctx a) := by
    simp only [mkCat2, denote, widthOf, shapeOf, Expr.nil, Shape.u, Int.zero_emod, Int.pow_zero, Int.emod_one,
      Int.mul_zero, Int.add_zero, Int.zero_add, Nat.add_zero]
    rw [emod_emod_pow]
  unfold mkShiftLeft widthOf at *
  generalize denote ctx env a = x at *
  generalize shapeOf ctx a = sh at *
  obtain ⟨w, sg⟩ := sh
  have pw := two_pow_pos' w
  have pn := two_pow_pos' n
  cases sg
  · rw [Shape.contains_u] at hr
    simp only [Bool.false_eq_true, if_false]
    refine ⟨hcat, hcs, ?_⟩
    rw [hcd, Int.emod_eq_of_lt hr.1 hr.2, Int.mul_comm]
  · have hpos : 0 < w := hswf rfl
    rw [Shape.contains_s] at hr
    simp only [if_true]
    refine ⟨by simp [Expr.wf, hcat, widthOf, hcs]; omega, by simp [shapeOf, hcs], ?_⟩
    simp only [denote, hcs, hcd]
    -- the unsigned pattern re-read as signed (n + w) bits is x · 2^n
    have hin : (Shape.mk (n + w) true).contains (x * 2 ^ n) := by
      rw [Shape.contains_s]
      have e : (2 : Int) ^ (n + w - 1) = 2 ^ (w - 1) * 2 ^ n := by
        rw [← two_pow_add']; congr 1; omega
      rw [e]
      constructor
      · have := Int.mul_le_mul_of_nonneg_right hr.1 (Int.le_of_lt pn)
        rw [Int.neg_mul] at this; exact this
      · exact Int.mul_lt_mul_of_pos_right hr.2 pn
    apply norm_eq_of_congr ⟨n + w, true⟩ (fun _ => by show 0 < n + w; omega) hin
    simp only
    -- 2^n * (x mod 2^w) ≡ x * 2^n  (mod 2^(n+w))
    have hx := Int.emod_add_mul_ediv x (2 ^ w)
    have : 2 ^ n * (x % 2 ^ w) = x * 2 ^ n + 2 ^ (n + w) * (-(x / 2 ^ w)) := by
      rw [two_pow_add']
      have h1 : x % 2 ^ w = x - 2 ^ w * (x / 2 ^ w) := by omega
      rw [h1, Int.mul_sub, Int.mul_comm (2 ^ n) x, Int.mul_neg, ← Int.mul_assoc]; omega
    rw [this, Int.add_mul_emod_self_left]

include hok in
/-- `a.shift_right(n)` is `⌊a / 2^n⌋`. -/
theorem shift_right_spec (a : Expr) (ha : a.wf ctx = true) (n : Nat) :
    (mkShiftRight ctx a n).wf ctx = true ∧
    shapeOf ctx (mkShiftRight ctx a n) =
      (if (shapeOf ctx a).signed then ⟨max (widthOf ctx a - n) 1, true⟩ else ⟨widthOf ctx a - n, false⟩) ∧
    denote ctx env (mkShiftRight ctx a n) = denote ctx env a / 2 ^ n := by
  have sa := sound ctx env hok a ha
  have hr := sa.rng
  have hswf := sa.swf
  unfold mkShiftRight widthOf
  generalize hx : denote ctx env a = x at *
  generalize hsh : shapeOf ctx a = sh at *
  obtain ⟨w, sg⟩ := sh
  have pw := two_pow_pos' w
  cases sg
  · rw [Shape.contains_u] at hr
    simp only [Bool.false_eq_true, if_false]
    refine ⟨by simp [Expr.wf, ha, widthOf, hsh], by simp [shapeOf]; omega, ?_⟩
    simp only [denote, hx]
    by_cases hn : n ≤ w
    · rw [Nat.min_eq_left hn]
      have e : (2 : Int) ^ w = 2 ^ n * 2 ^ (w - n) := by rw [← two_pow_add']; congr 1; omega
      have pn := two_pow_pos' n
      have h1 : 0 ≤ x / 2 ^ n := Int.ediv_nonneg hr.1 (Int.le_of_lt pn)
      have h2 : x / 2 ^ n < 2 ^ (w - n) := by
        apply Int.ediv_lt_of_lt_mul pn; rw [Int.mul_comm, ← e]; exact hr.2
      exact Int.emod_eq_of_lt h1 h2
    · rw [Nat.min_eq_right (by omega)]
      simp only [Nat.sub_self, Int.pow_zero, Int.emod_one]
      have : x / 2 ^ n = 0 := by
        apply Int.ediv_eq_zero_of_lt hr.1
        exact Int.lt_of_lt_of_le hr.2 (two_pow_mono (by omega))
      rw [this]
  · have hpos : 0 < w := hswf rfl
    rw [Shape.contains_s] at hr
    simp only [if_true]
    set k := min n (w - 1) with hk
    have hkw : k < w := by omega
    refine ⟨by simp [Expr.wf, ha, widthOf, hsh, shapeOf]; omega, by simp [shapeOf]; omega, ?_⟩
    simp only [denote, shapeOf, hx]
    have pk := two_pow_pos' k
    have e : (2 : Int) ^ (w - 1) = 2 ^ k * 2 ^ (w - 1 - k) := by rw [← two_pow_add']; congr 1; omega
    have hin : (Shape.mk (w - k) true).contains (x / 2 ^ k) := by
      rw [Shape.contains_s]
      have e2 : w - k - 1 = w - 1 - k := by omega
      rw [e2]
      constructor
      · have : -(2 ^ (w - 1 - k) : Int) = (-(2 ^ k * 2 ^ (w - 1 - k))) / 2 ^ k := by
          rw [← Int.mul_neg, Int.mul_ediv_cancel_left _ (Int.ne_of_gt pk)]
        rw [this]; apply Int.ediv_le_ediv pk; rw [← e]; exact hr.1
      · apply Int.ediv_lt_of_lt_mul pk; rw [Int.mul_comm, ← e]; exact hr.2
    have hval : norm ⟨w - k, true⟩ (x / 2 ^ k % 2 ^ (w - k)) = x / 2 ^ k := by
      apply norm_eq_of_congr ⟨w - k, true⟩ (fun _ => by show 0 < w - k; omega) hin
      exact emod_emod_pow _ _
    rw [hval]
    -- clamping the amount at w − 1 does not change the floor quotient
    by_cases hn : n ≤ w - 1
    · have : k = n := by omega
      rw [this]
    · have hk' : k = w - 1 := by omega
      rw [hk']
      have pn := two_pow_pos' n
      have h1 : (2 : Int) ^ (w - 1) ≤ 2 ^ n := two_pow_mono (by omega)
      have pw1 := two_pow_pos' (w - 1)
      by_cases hx0 : 0 ≤ x
      · rw [Int.ediv_eq_zero_of_lt hx0 hr.2, Int.ediv_eq_zero_of_lt hx0 (by omega)]
      · have a1 : x / 2 ^ (w - 1) = -1 := by
          have := Int.ediv_emod_unique (a := x) (b := 2 ^ (w - 1)) (q := -1) (r := x + 2 ^ (w - 1)) pw1
          exact (this.mpr ⟨by omega, by omega, by omega⟩).1
        have a2 : x / 2 ^ n = -1 := by
          have := Int.ediv_emod_unique (a := x) (b := 2 ^ n) (q := -1) (r := x + 2 ^ n) pn
          exact (this.mpr ⟨by omega, by omega, by omega⟩).1
        rw [a1, a2]

/-- `x mod (m·k)` divided by `m` is `(x / m) mod k` -/
theorem emod_mul_ediv (x m k : Int) (hm : 0 < m) (hk : 0 < k) : x % (m * k) / m = x / m % k := by
  have hx := Int.emod_add_mul_ediv x m
  have hq := Int.emod_add_mul_ediv (x / m) k
  have r0 := Int.emod_nonneg x (Int.ne_of_gt hm)
  have r1 := Int.emod_lt_of_pos x hm
  have s0 := Int.emod_nonneg (x / m) (Int.ne_of_gt hk)
  have s1 := Int.emod_lt_of_pos (x / m) hk
  generalize x % m = r at *
  generalize x / m % k = s at *
  generalize x / m / k = t at *
  generalize hqq : x / m = q at *
  have hms : m * s + r < m * k := by
    have : m * s ≤ m * (k - 1) := Int.mul_le_mul_of_nonneg_left (by omega) (Int.le_of_lt hm)
    rw [Int.mul_sub, Int.mul_one] at this; omega
  have hms0 : 0 ≤ m * s := Int.mul_nonneg (Int.le_of_lt hm) s0
  have hmk : 0 < m * k := Int.mul_pos hm hk
  have e1 : x = (m * s + r) + (m * k) * t := by
    rw [← hx, ← hq, Int.mul_add, Int.mul_assoc]; omega
  have e2 : x % (m * k) = m * s + r := by
    rw [e1, Int.add_mul_emod_self_left]; exact Int.emod_eq_of_lt (by omega) hms
  rw [e2, Int.add_comm, Int.add_mul_ediv_left _ _ (Int.ne_of_gt hm), Int.ediv_eq_zero_of_lt r0 r1]; omega

theorem rot_arith (x : Int) (w k : Nat) (hk : k ≤ w) :
    (x / 2 ^ (w - k)) % 2 ^ k + 2 ^ k * (x % 2 ^ (w - k)) = rotlK w x k := by
  unfold rotlK ubits
  have e : (2 : Int) ^ w = 2 ^ (w - k) * 2 ^ k := by rw [← two_pow_add']; congr 1; omega
  have pk := two_pow_pos' k
  have pm := two_pow_pos' (w - k)
  have a : x % 2 ^ w / 2 ^ (w - k) = x / 2 ^ (w - k) % 2 ^ k := by
    rw [e]; exact emod_mul_ediv x _ _ pm pk
  have b : x % 2 ^ w * 2 ^ k % 2 ^ w = 2 ^ k * (x % 2 ^ (w - k)) := by
    rw [Int.mul_comm (x % 2 ^ w), e, Int.mul_comm (2 ^ (w - k)) (2 ^ k), Int.mul_emod_mul_of_pos _ _ pk]
    congr 1
    rw [Int.mul_comm]
    exact Int.emod_emod_of_dvd x (Int.dvd_mul_right _ _)
  rw [a, b]; omega

include hok in
/-- `a.rotate_left(n)` / `a.rotate_right(-n)` for any integer `n`: the `w`-bit pattern rotated left by
`n mod w` (`Spec.rotl`), as an unsigned `w`-bit value. -/
theorem rotate_left_spec (a : Expr) (ha : a.wf ctx = true) (n : Int) :
    (mkRotateLeft ctx a (rotAmount (widthOf ctx a) n)).wf ctx = true ∧
    shapeOf ctx (mkRotateLeft ctx a (rotAmount (widthOf ctx a) n)) = ⟨widthOf ctx a, false⟩ ∧
    denote ctx env (mkRotateLeft ctx a (rotAmount (widthOf ctx a) n)) = rotl (widthOf ctx a) (denote ctx env a) n := by
  have sa := sound ctx env hok a ha
  have hr := sa.rng
  have hrot : rotAmount (widthOf ctx a) n ≤ widthOf ctx a := by
    unfold rotAmount; split
    · omega
    · rename_i hw
      have := Int.emod_lt_of_pos n (b := (widthOf ctx a : Int)) (by omega)
      have := Int.emod_nonneg n (b := (widthOf ctx a : Int)) (by omega)
      omega
  have hrot0 : widthOf ctx a ≠ 0 → rotl (widthOf ctx a) (denote ctx env a) n =
      rotlK (widthOf ctx a) (denote ctx env a) (rotAmount (widthOf ctx a) n) := by
    intro hw; simp [rotl, rotAmount, hw, rotlK]
  generalize hk : rotAmount (widthOf ctx a) n = k at *
  unfold mkRotateLeft mkCat2
  by_cases hk0 : k = 0
  · subst hk0
    simp only [if_true]
    refine ⟨by simp [Expr.wf, ha, nil_wf], by simp [shapeOf, Expr.nil, Shape.u, widthOf], ?_⟩
    simp only [denote, widthOf, shapeOf, Expr.nil, Shape.u, Nat.sub_zero, Int.pow_zero, Int.ediv_one, Int.emod_one,
      Nat.sub_self, Int.mul_zero, Int.add_zero, Nat.add_zero, Int.zero_emod]
    by_cases hw : (shapeOf ctx a).width = 0
    · simp [rotl, hw, widthOf]
    · rw [show (shapeOf ctx a).width = widthOf ctx a from rfl] at hw ⊢
      rw [hrot0 hw]; simp [rotlK, ubits, emod_emod_pow]
      exact Int.ediv_eq_zero_of_lt (Int.emod_nonneg _ (Int.ne_of_gt (two_pow_pos' _))) (Int.emod_lt_of_pos _ (two_pow_pos' _))
  · simp only [hk0, if_false]
    have hw : widthOf ctx a ≠ 0 := by omega
    refine ⟨by simp [Expr.wf, ha, nil_wf, widthOf], ?_, ?_⟩
    · simp [shapeOf, Expr.nil, Shape.u, widthOf] at hrot ⊢
    · rw [hrot0 hw, ← rot_arith _ _ _ hrot]
      simp only [denote, widthOf, shapeOf, Expr.nil, Shape.u, Nat.sub_zero, Int.pow_zero, Int.ediv_one, Int.emod_one,
        Int.mul_zero, Int.add_zero, Nat.add_zero, Int.zero_emod]
      have e1 : (shapeOf ctx a).width - ((shapeOf ctx a).width - k) = k := by
        have : k ≤ (shapeOf ctx a).width := hrot
        omega
      rw [e1, emod_emod_pow, emod_emod_pow, emod_emod_pow]

/-- `Σ_{i<k} u·2^{w·i}`: `k` copies of a `w`-bit pattern side by side -/
theorem repSum_succ (u : Int) (w k : Nat) : repSum u w (k + 1) = u + 2 ^ w * repSum u w k := by
  induction k with
  | zero => simp [repSum, List.range_succ]
  | succ k ih =>
    have step : ∀ j, repSum u w (j + 1) = repSum u w j + u * 2 ^ (w * j) := by
      intro j; simp [repSum, List.range_succ, List.foldl_append]
    rw [step (k + 1)]
    conv => rhs; rw [step k]
    rw [ih, Int.mul_add, Nat.mul_succ, two_pow_add']
    have : (2 : Int) ^ w * (u * 2 ^ (w * k)) = u * (2 ^ (w * k) * 2 ^ w) := by
      rw [Int.mul_comm (2 ^ (w * k)) (2 ^ w), ← Int.mul_assoc, ← Int.mul_assoc, Int.mul_comm (2 ^ w) u]
    rw [this]; omega

include hok in
theorem replicate_spec (a : Expr) (ha : a.wf ctx = true) (k : Nat) :
    (mkReplicate a k).wf ctx = true ∧ shapeOf ctx (mkReplicate a k) = ⟨widthOf ctx a * k, false⟩ ∧
    denote ctx env (mkReplicate a k) = repSum (ubits (widthOf ctx a) (denote ctx env a)) (widthOf ctx a) k := by
  induction k with
  | zero => exact ⟨nil_wf ctx, by simp [mkReplicate, Expr.nil, shapeOf, Shape.u], by simp [mkReplicate, Expr.nil, denote, repSum]⟩
  | succ k ih =>
    obtain ⟨h1, h2, h3⟩ := ih
    have sr := (sound ctx env hok _ h1).rng
    rw [h2, Shape.contains_u] at sr
    refine ⟨by simp [mkReplicate, Expr.wf, ha, h1], by simp [mkReplicate, shapeOf, h2, widthOf, Nat.mul_succ, Nat.add_comm], ?_⟩
    have hw : widthOf ctx (mkReplicate a k) = widthOf ctx a * k := by simp [widthOf, h2]
    rw [repSum_succ]
    simp only [mkReplicate, denote, hw, ubits]
    rw [Int.emod_eq_of_lt sr.1 sr.2, h3]; rfl

/-! ### `matches` -/

theorem pyAnd_comm (x y : Int) : pyAnd x y = pyAnd y x := by
  cases x <;> cases y <;> simp only [pyAnd, Nat.and_comm, Nat.or_comm]

theorem constExpr_wf (n : Int) : (Expr.const n (constShape n)).wf ctx = true := by
  simp only [Expr.wf, Bool.and_eq_true, decide_eq_true_eq]
  exact ⟨constShape_WF n, constShape_contains n⟩

/-- does the value match one (normalised) pattern -/
def matchesM (v : Int) : MPat → Bool
  | .bits b => b.matchesSpec v
  | .int k => decide (v = k)

/-- a normalised pattern: strings have the match value's width -/
def MPat.okFor (s : Shape) : MPat → Prop
  | .bits b => b.length = s.width
  | .int _ => True

theorem normPats_spec (s : Shape) (v : Int) : ∀ (ps ms : List MPat), normPats s ps = some ms →
    (∀ m ∈ ms, m.okFor s) ∧
    ps.any (fun p => match p with
      | .bits b => b.matchesSpec v
      | .int k => decide (s.contains k) && decide (v = k)) = ms.any (matchesM v) := by
  intro ps
  induction ps with
  | nil => intro ms h; simp only [normPats, Option.some.injEq] at h; subst h; simp
  | cons p ps ih =>
    intro ms h
    cases p with
    | bits b =>
      simp only [normPats] at h
      split at h
      · rename_i hl
        cases hn : normPats s ps with
        | none => rw [hn] at h; simp at h
        | some ms' =>
          rw [hn] at h; simp only [Option.map_some, Option.some.injEq] at h; subst h
          obtain ⟨h1, h2⟩ := ih ms' hn
          refine ⟨?_, ?_⟩
          · intro m hm
            rcases List.mem_cons.mp hm with rfl | hm
            · exact hl
            · exact h1 m hm
          · simp only [List.any_cons, h2, matchesM]
      · simp at h
    | int k =>
      simp only [normPats] at h
      split at h
      · rename_i hc
        cases hn : normPats s ps with
        | none => rw [hn] at h; simp at h
        | some ms' =>
          rw [hn] at h; simp only [Option.map_some, Option.some.injEq] at h; subst h
          obtain ⟨h1, h2⟩ := ih ms' hn
          refine ⟨?_, ?_⟩
          · intro m hm
            rcases List.mem_cons.mp hm with rfl | hm
            · trivial
            · exact h1 m hm
          · simp only [List.any_cons, h2, matchesM, hc, decide_true, Bool.true_and]
      · rename_i hc
        obtain ⟨h1, h2⟩ := ih ms h
        exact ⟨h1, by simp only [List.any_cons, h2, hc, decide_false, Bool.false_and, Bool.false_or]⟩

include hok in
theorem match1_spec (a : Expr) (ha : a.wf ctx = true) (m : MPat) (hm : m.okFor (shapeOf ctx a)) :
    (mkMatch1 a m).wf ctx = true ∧ shapeOf ctx (mkMatch1 a m) = ⟨1, false⟩ ∧
    denote ctx env (mkMatch1 a m) = if matchesM (denote ctx env a) m then 1 else 0 := by
  cases m with
  | int k =>
    have c1 := constExpr_wf ctx k
    simp only [Expr.wf] at c1
    refine ⟨by simp only [mkMatch1, Expr.wf, ha, c1, Bool.and_true, Bool.true_and], by simp [mkMatch1, shapeOf], ?_⟩
    simp only [mkMatch1, denote, matchesM, decide_eq_true_eq]
    by_cases h : denote ctx env a = k <;> simp [h]
  | bits b =>
    have hl : b.length = widthOf ctx a := hm
    have c1 := constExpr_wf ctx (b.maskNat : Int)
    have c2 := constExpr_wf ctx (b.valueNat : Int)
    simp only [Expr.wf] at c1 c2
    refine ⟨by simp only [mkMatch1, Expr.wf, ha, c1, c2, Bool.and_true, Bool.true_and], by simp [mkMatch1, shapeOf], ?_⟩
    simp only [mkMatch1, denote, matchesM]
    have hp : [b].all (fun p => p.length == widthOf ctx a) = true := by simp [hl]
    have e := matchesAny_emod [b] (widthOf ctx a) hp (denote ctx env a)
    rw [matchesAny_eq [b] (widthOf ctx a) hp (denote ctx env a) (denote ctx env a) rfl] at e
    simp only [matchesAny, List.any_cons, List.any_nil, Bool.or_false] at e
    have hc := pyAnd_comm (denote ctx env a) (↑b.maskNat)
    by_cases h : pyAnd (↑b.maskNat) (denote ctx env a) = ↑b.valueNat
    · have hb : b.matchesSpec (denote ctx env a) = true := by rw [← e]; simp [h]
      simp [hc, h, hb]
    · have hb : b.matchesSpec (denote ctx env a) = false := by
        rw [← e]; simp; exact fun h' => h h'.symm
      simp [hc, h, hb]

include hok in
/-- a concatenation is zero exactly when all its parts (read as bit patterns) are -/
theorem catList_zero : ∀ (es : List Expr), (∀ e ∈ es, e.wf ctx = true) →
    (catList es).wf ctx = true ∧
    (denote ctx env (catList es) = 0 ↔ ∀ e ∈ es, denote ctx env e % 2 ^ widthOf ctx e = 0) := by
  intro es
  induction es with
  | nil => intro _; exact ⟨nil_wf ctx, by simp [catList, Expr.nil, denote]⟩
  | cons e es ih =>
    intro h
    have he := h e (List.mem_cons_self ..)
    obtain ⟨hwf, hz⟩ := ih (fun x hx => h x (List.mem_cons_of_mem _ hx))
    refine ⟨by simp [catList, Expr.wf, he, hwf], ?_⟩
    have sr := sound ctx env hok _ hwf
    have hr := sr.rng
    have hsh : shapeOf ctx (catList es) = ⟨widthOf ctx (catList es), false⟩ := by
      cases es <;> simp [catList, Expr.nil, shapeOf, widthOf, Shape.u]
    rw [hsh, Shape.contains_u] at hr
    simp only [catList, denote, List.mem_cons, forall_eq_or_imp]
    rw [Int.emod_eq_of_lt hr.1 hr.2, ← hz]
    have p1 := two_pow_pos' (widthOf ctx e)
    have a0 := Int.emod_nonneg (denote ctx env e) (Int.ne_of_gt p1)
    have m0 : 0 ≤ 2 ^ widthOf ctx e * denote ctx env (catList es) := Int.mul_nonneg (Int.le_of_lt p1) hr.1
    constructor
    · intro hs
      have h1 : denote ctx env e % 2 ^ widthOf ctx e = 0 := by omega
      have h2 : 2 ^ widthOf ctx e * denote ctx env (catList es) = 0 := by omega
      rcases Int.mul_eq_zero.mp h2 with h3 | h3
      · omega
      · exact ⟨h1, h3⟩
    · rintro ⟨h1, h2⟩
      rw [h1, h2]; simp

include hok in
theorem matches_spec (a : Expr) (ha : a.wf ctx = true) (ps : List MPat) (e : Expr)
    (h : mkMatches ctx a ps = some e) :
    e.wf ctx = true ∧ shapeOf ctx e = ⟨1, false⟩ ∧
    denote ctx env e = if ps.any (fun p => match p with
      | .bits b => b.matchesSpec (denote ctx env a)
      | .int k => decide ((shapeOf ctx a).contains k) && decide (denote ctx env a = k)) then 1 else 0 := by
  unfold mkMatches at h
  cases hn : normPats (shapeOf ctx a) ps with
  | none => rw [hn] at h; simp at h
  | some ms =>
    rw [hn] at h
    simp only [Option.map_some, Option.some.injEq] at h
    obtain ⟨hok', hany⟩ := normPats_spec (shapeOf ctx a) (denote ctx env a) ps ms hn
    rw [hany]
    match ms, h, hok' with
    | [], h, _ =>
      subst h
      exact ⟨by simp [Expr.wf, Shape.WF, Shape.contains, Shape.lo, Shape.hi], rfl, by simp [denote]⟩
    | [m], h, hok' =>
      subst h
      obtain ⟨h1, h2, h3⟩ := match1_spec ctx env hok a ha m (hok' m (by simp))
      exact ⟨h1, h2, by rw [h3]; simp⟩
    | m1 :: m2 :: ms, h, hok' =>
      subst h
      have hall : ∀ x ∈ (m1 :: m2 :: ms).map (mkMatch1 a), x.wf ctx = true := by
        intro x hx
        obtain ⟨m, hm, rfl⟩ := List.mem_map.mp hx
        exact (match1_spec ctx env hok a ha m (hok' m hm)).1
      obtain ⟨hwf, hz⟩ := catList_zero ctx env hok _ hall
      refine ⟨by simp only [Expr.wf, hwf, Bool.and_true], by simp [shapeOf], ?_⟩
      simp only [denote]
      by_cases hany' : (m1 :: m2 :: ms).any (matchesM (denote ctx env a)) = true
      · rw [if_pos hany', if_neg]
        intro hzero
        obtain ⟨m, hm, hmm⟩ := List.any_eq_true.mp hany'
        have := (hz.mp hzero) (mkMatch1 a m) (List.mem_map.mpr ⟨m, hm, rfl⟩)
        obtain ⟨_, h2, h3⟩ := match1_spec ctx env hok a ha m (hok' m hm)
        rw [h3, hmm] at this
        simp [widthOf, h2] at this
      · rw [if_neg hany', if_pos]
        apply hz.mpr
        intro x hx
        obtain ⟨m, hm, rfl⟩ := List.mem_map.mp hx
        obtain ⟨_, h2, h3⟩ := match1_spec ctx env hok a ha m (hok' m hm)
        have hf : matchesM (denote ctx env a) m = false := by
          cases hv : matchesM (denote ctx env a) m with
          | false => rfl
          | true => exact absurd (List.any_eq_true.mpr ⟨m, hm, hv⟩) hany'
        rw [h3, hf]; simp

/-! ### Integer subscripts and stepped slices -/

include hok in
theorem index_spec (a : Expr) (ha : a.wf ctx = true) (i : Int) (e : Expr) (h : mkIndex ctx a i = some e) :
    e.wf ctx = true ∧
    derived (.index i) [(shapeOf ctx a, denote ctx env a)] = some (shapeOf ctx e, denote ctx env e) := by
  unfold mkIndex at h
  unfold widthOf at h
  simp only at h
  split at h
  · rename_i hr
    simp only [Option.some.injEq] at h
    have hk : (if i < 0 then i + ↑(shapeOf ctx a).width else i).toNat < (shapeOf ctx a).width := by split <;> omega
    simp only [derived, hr, and_self, if_true]
    generalize (if i < 0 then i + ↑(shapeOf ctx a).width else i).toNat = k at h hk ⊢
    subst h
    have hk' : k < widthOf ctx a := hk
    refine ⟨by simp [Expr.wf, ha]; omega, ?_⟩
    simp only [shapeOf, denote, ubits, Nat.add_sub_cancel_left]
  · cases h

/-- `Σ_{j<n} f j · 2^j` -/
def bitSum (f : Nat → Int) (n : Nat) : Int := (List.range n).foldl (fun acc j => acc + f j * 2 ^ j) 0

theorem bitSum_succ_end (f : Nat → Int) (n : Nat) : bitSum f (n + 1) = bitSum f n + f n * 2 ^ n := by
  simp [bitSum, List.range_succ, List.foldl_append]

theorem bitSum_succ_front (f : Nat → Int) (n : Nat) : bitSum f (n + 1) = f 0 + 2 * bitSum (fun j => f (j + 1)) n := by
  induction n with
  | zero => simp [bitSum, List.range_succ, List.range_zero]
  | succ n ih =>
    rw [bitSum_succ_end, ih, bitSum_succ_end (fun j => f (j + 1)), Int.mul_add, two_pow_succ' n]
    have : 2 * (f (n + 1) * 2 ^ n) = f (n + 1) * (2 * 2 ^ n) := by
      rw [← Int.mul_assoc, Int.mul_comm 2, Int.mul_assoc]
    rw [this]; omega

/-- the low `n` bits of a value, bit by bit -/
theorem emod_two_pow_bits (y : Int) (n : Nat) : y % 2 ^ n = bitSum (fun j => y / 2 ^ j % 2) n := by
  induction n generalizing y with
  | zero => simp [bitSum, Int.emod_one]
  | succ n ih =>
    rw [bitSum_succ_front]
    simp only [Int.pow_zero, Int.ediv_one]
    have hshift : (fun j => y / 2 ^ (j + 1) % 2) = (fun j => y / 2 / 2 ^ j % 2) := by
      funext j
      rw [two_pow_succ', Int.ediv_ediv_of_nonneg (by decide)]
    rw [hshift, ← ih (y / 2), two_pow_succ']
    have h1 := emod_mul_ediv y 2 (2 ^ n) (by decide) (two_pow_pos' n)
    have h2 : y % (2 * 2 ^ n) % 2 = y % 2 := Int.emod_emod_of_dvd y (Int.dvd_mul_right _ _)
    have h3 := Int.emod_add_mul_ediv (y % (2 * 2 ^ n)) 2
    omega

/-- the value of `Cat(a[p] for p in ps)`: bit `j` is bit `ps[j]` of `a` -/
def posSum (x : Int) : List Nat → Int
  | [] => 0
  | p :: ps => x / 2 ^ p % 2 + 2 * posSum x ps

include hok in
theorem catBits_spec (a : Expr) (ha : a.wf ctx = true) : ∀ (ps : List Nat), (∀ p ∈ ps, p < widthOf ctx a) →
    (catList (ps.map fun p => Expr.slice a p (p + 1))).wf ctx = true ∧
    shapeOf ctx (catList (ps.map fun p => Expr.slice a p (p + 1))) = ⟨ps.length, false⟩ ∧
    denote ctx env (catList (ps.map fun p => Expr.slice a p (p + 1))) = posSum (denote ctx env a) ps := by
  intro ps
  induction ps with
  | nil => intro _; exact ⟨nil_wf ctx, by simp [catList, Expr.nil, shapeOf, Shape.u], by simp [catList, Expr.nil, denote, posSum]⟩
  | cons p ps ih =>
    intro h
    obtain ⟨h1, h2, h3⟩ := ih (fun q hq => h q (List.mem_cons_of_mem _ hq))
    have hp := h p (List.mem_cons_self ..)
    have sr := (sound ctx env hok _ h1).rng
    rw [h2, Shape.contains_u] at sr
    refine ⟨by simp [catList, Expr.wf, ha, h1]; omega, by simp [catList, shapeOf, h2]; omega, ?_⟩
    simp only [List.map_cons, catList, denote, posSum, widthOf, shapeOf, h2]
    rw [Int.emod_eq_of_lt sr.1 sr.2, h3]
    have : p + 1 - p = 1 := by omega
    rw [this, emod_emod_pow]; simp

theorem posSum_range (x : Int) (pos : Nat → Nat) (n : Nat) :
    posSum x ((List.range n).map pos) = bitSum (fun j => x / 2 ^ pos j % 2) n := by
  induction n generalizing pos with
  | zero => simp [posSum, bitSum]
  | succ n ih =>
    rw [List.range_succ_eq_map, List.map_cons, List.map_map, bitSum_succ_front]
    simp only [posSum]
    rw [show (pos ∘ Nat.succ) = (fun j => pos (j + 1)) from rfl, ih]

include hok in
theorem sliceStep_spec (a : Expr) (ha : a.wf ctx = true) (start stop step : Int) (e : Expr)
    (h : mkSliceStep ctx a start stop step = some e) :
    e.wf ctx = true ∧
    derived (.sliceStep start stop step) [(shapeOf ctx a, denote ctx env a)] = some (shapeOf ctx e, denote ctx env e) := by
  unfold mkSliceStep at h
  simp only at h
  by_cases h0 : step = 0
  · simp [h0] at h
  · simp only [h0, if_false] at h
    by_cases h1 : step = 1
    · subst h1
      simp only [if_true] at h
      split at h
      · rename_i hr
        simp only [Option.some.injEq] at h; subst h
        refine ⟨by simp [Expr.wf, ha, widthOf] at hr ⊢; omega, ?_⟩
        simp only [derived, Int.reduceEq, if_false, shapeOf, denote, ubits]
        have hn : (if (1 : Int) > 0 then (if stop > start then ((stop - start + 1 - 1) / 1).toNat else 0)
            else (if start > stop then ((start - stop + (-1) - 1) / (-1)).toNat else 0)) = stop.toNat - start.toNat := by
          simp only [show (1 : Int) > 0 by decide, if_true, Int.ediv_one]
          split <;> omega
        rw [hn]
        congr 2
        rw [emod_two_pow_bits]
        unfold bitSum
        congr 1
        funext acc j
        simp only
        have e1 : (start + ↑j * 1).toNat = start.toNat + j := by omega
        rw [e1, two_pow_add', ← Int.ediv_ediv_of_nonneg (Int.le_of_lt (two_pow_pos' _))]
        simp
      · cases h
    · simp only [h1, if_false] at h
      split at h
      · rename_i hall
        simp only [Option.some.injEq] at h; subst h
        simp only [List.all_eq_true, Bool.and_eq_true, decide_eq_true_eq, slicePositions, List.mem_map, List.mem_range,
          forall_exists_index, and_imp, forall_apply_eq_imp_iff₂] at hall
        set n := sliceLen start stop step with hn
        have hmap : (slicePositions start stop step).map (fun p => Expr.slice a p.toNat (p.toNat + 1)) =
            ((List.range n).map fun (j : Nat) => (start + (j : Int) * step).toNat).map (fun p => Expr.slice a p (p + 1)) := by
          simp [slicePositions, List.map_map, Function.comp_def, hn]
        rw [hmap]
        obtain ⟨c1, c2, c3⟩ := catBits_spec ctx env hok a ha ((List.range n).map fun (j : Nat) => (start + (j : Int) * step).toNat)
          (by
            intro p hp
            simp only [List.mem_map, List.mem_range] at hp
            obtain ⟨j, hj, rfl⟩ := hp
            have := hall j hj
            unfold widthOf at *; omega)
        refine ⟨c1, ?_⟩
        simp only [derived, h0, if_false]
        rw [c2, c3, posSum_range, List.length_map, List.length_range]
        have hn' : (if step > 0 then (if stop > start then ((stop - start + step - 1) / step).toNat else 0)
            else (if start > stop then ((start - stop + (-step) - 1) / (-step)).toNat else 0)) = n := by
          rw [hn]; rfl
        rw [hn']
        rfl
      · cases h

theorem Shape.unify_comm (a b : Shape) : Shape.unify a b = Shape.unify b a := by
  obtain ⟨wa, sa⟩ := a; obtain ⟨wb, sb⟩ := b
  cases sa <;> cases sb <;> simp [Shape.unify, Nat.max_comm]

/-! ### `Array(elems)[index]` -/

theorem Shape.unify_assoc (a b c : Shape) : Shape.unify (Shape.unify a b) c = Shape.unify a (Shape.unify b c) := by
  obtain ⟨wa, sa⟩ := a; obtain ⟨wb, sb⟩ := b; obtain ⟨wc, sc⟩ := c
  cases sa <;> cases sb <;> cases sc <;> simp [Shape.unify] <;> omega

theorem nilShape_WF : (Shape.mk 0 false).WF := by intro h; cases h

theorem Shape.nil_unify (s : Shape) (h : s.WF) : Shape.unify ⟨0, false⟩ s = s := by
  rw [Shape.unify_comm]; exact Shape.unify_nil s h

theorem foldr_unify_WF (l : List Shape) (hl : ∀ s ∈ l, s.WF) : (l.foldr Shape.unify ⟨0, false⟩).WF := by
  induction l with
  | nil => exact nilShape_WF
  | cons s l ih =>
    simp only [List.foldr_cons]
    exact Shape.unify_WF _ _ (hl s (List.mem_cons_self ..)) (ih (fun x hx => hl x (List.mem_cons_of_mem _ hx)))

/-- the left fold the Spec uses and the right-nested unification of the `SwitchValue` chain agree -/
theorem foldl_unify (l : List Shape) (hl : ∀ s ∈ l, s.WF) (z : Shape) (hz : z.WF) :
    l.foldl Shape.unify z = Shape.unify z (l.foldr Shape.unify ⟨0, false⟩) := by
  induction l generalizing z with
  | nil => simp only [List.foldl_nil, List.foldr_nil]; exact (Shape.unify_nil z hz).symm
  | cons s l ih =>
    have hs := hl s (List.mem_cons_self ..)
    simp only [List.foldl_cons, List.foldr_cons]
    rw [ih (fun x hx => hl x (List.mem_cons_of_mem _ hx)) _ (Shape.unify_WF z s hz hs), Shape.unify_assoc]

theorem arrayFrom_isSwTail (idx : Expr) (k : Nat) (es : List Expr) : (mkArrayFrom ctx idx k es).isSwTail = true := by
  cases es <;> simp [mkArrayFrom, Expr.isSwTail, Expr.nil, Shape.u]

include hok in
theorem arrayFrom_spec (idx : Expr) (hidx : idx.wf ctx = true) (h0 : 0 ≤ denote ctx env idx) :
    ∀ (es : List Expr) (k : Nat), (∀ e ∈ es, e.wf ctx = true) → k + es.length ≤ 2 ^ widthOf ctx idx →
    (mkArrayFrom ctx idx k es).wf ctx = true ∧
    shapeOf ctx (mkArrayFrom ctx idx k es) = (es.map (shapeOf ctx)).foldr Shape.unify ⟨0, false⟩ ∧
    denote ctx env (mkArrayFrom ctx idx k es) =
      if k ≤ (denote ctx env idx).toNat then (es.map (denote ctx env)).getD ((denote ctx env idx).toNat - k) 0 else 0 := by
  have hr := (sound ctx env hok idx hidx).rng
  have hlt : denote ctx env idx < 2 ^ widthOf ctx idx := by
    unfold widthOf
    generalize shapeOf ctx idx = sh at hr
    obtain ⟨w, sg⟩ := sh
    cases sg
    · rw [Shape.contains_u] at hr; exact hr.2
    · rw [Shape.contains_s] at hr
      exact Int.lt_of_lt_of_le hr.2 (two_pow_mono (by simp))
  intro es
  induction es with
  | nil => intro k _ _; exact ⟨nil_wf ctx, by simp [mkArrayFrom, Expr.nil, shapeOf, Shape.u], by simp [mkArrayFrom, Expr.nil, denote]⟩
  | cons e es ih =>
    intro k hes hk
    simp only [List.length_cons] at hk
    obtain ⟨h1, h2, h3⟩ := ih (k + 1) (fun x hx => hes x (List.mem_cons_of_mem _ hx)) (by omega)
    have he := hes e (List.mem_cons_self ..)
    refine ⟨?_, ?_, ?_⟩
    · by_cases hck : (shapeOf ctx idx).contains (k : Int) <;>
        simp [mkArrayFrom, Expr.wf, hidx, he, h1, arrayFrom_isSwTail, toBinary_length, hck]
    · simp only [mkArrayFrom, shapeOf, h2, List.map_cons, List.foldr_cons]
    · simp only [mkArrayFrom, denote]
      have hany : (if (shapeOf ctx idx).contains (k : Int) then [toBinary k (widthOf ctx idx)] else []).any
          (fun p => p.matchesSpec (denote ctx env idx)) = decide (denote ctx env idx = (k : Int)) := by
        by_cases hck : (shapeOf ctx idx).contains (k : Int)
        · simp only [hck, if_true, List.any_cons, List.any_nil, Bool.or_false]
          rw [matchesSpec_toBinary k _ (by omega), Int.emod_eq_of_lt h0 hlt]
        · simp only [hck, if_false, List.any_nil]
          have : denote ctx env idx ≠ (k : Int) := fun e => hck (e ▸ hr)
          simp [this]
      rw [hany, h3]
      by_cases hk' : denote ctx env idx = (k : Int)
      · have : (denote ctx env idx).toNat = k := by omega
        simp [hk', this]
      · simp only [hk', decide_false, Bool.false_eq_true, if_false]
        by_cases hle : k + 1 ≤ (denote ctx env idx).toNat
        · have : k ≤ (denote ctx env idx).toNat := by omega
          simp only [hle, this, if_true, List.map_cons]
          have e1 : (denote ctx env idx).toNat - k = ((denote ctx env idx).toNat - (k + 1)) + 1 := by omega
          rw [e1, List.getD_cons_succ]
        · have : ¬ k ≤ (denote ctx env idx).toNat := by omega
          simp [hle, this]

include hok in
/-- `Array(elems)[index]` with an index value inside the (reachable part of the) array: the value of the selected
element, in the unification of the reachable elements' shapes. (For an index outside the array the Spec says nothing.) -/
theorem array_spec (idx : Expr) (elems : List Expr) (hidx : idx.wf ctx = true) (hel : ∀ e ∈ elems, e.wf ctx = true)
    (h0 : 0 ≤ denote ctx env idx)
    (hin : (denote ctx env idx).toNat < (elems.take (2 ^ widthOf ctx idx)).length) :
    (mkArray ctx idx elems).wf ctx = true ∧
    derived .arrayIndex ((idx :: elems).map fun a => (shapeOf ctx a, denote ctx env a)) =
      some (shapeOf ctx (mkArray ctx idx elems), denote ctx env (mkArray ctx idx elems)) := by
  set es := elems.take (2 ^ widthOf ctx idx) with hes
  have hes_wf : ∀ e ∈ es, e.wf ctx = true := fun e he => hel e (List.mem_of_mem_take he)
  obtain ⟨h1, h2, h3⟩ := arrayFrom_spec ctx env hok idx hidx h0 es 0 hes_wf
    (by rw [Nat.zero_add, hes, List.length_take]; exact Nat.min_le_left _ _)
  unfold mkArray
  rw [← hes]
  refine ⟨h1, ?_⟩
  simp only [List.map_cons, derived]
  rw [show (shapeOf ctx idx).width = widthOf ctx idx from rfl, ← List.map_take, ← hes]
  simp only [List.length_map, h0, hin, and_self, if_true]
  congr 2
  · rw [h2]
    have hsw : ∀ s ∈ es.map (shapeOf ctx), s.WF := by
      intro s hs; obtain ⟨e, he, rfl⟩ := List.mem_map.mp hs; exact (sound ctx env hok e (hes_wf e he)).swf
    have := foldl_unify (es.map (shapeOf ctx)) hsw ⟨0, false⟩ nilShape_WF
    rw [Shape.nil_unify _ (foldr_unify_WF _ hsw)] at this
    rw [← this]
    simp only [List.foldl_map]
  · rw [h3]
    simp only [Nat.zero_le, if_true, Nat.sub_zero]
    rw [List.getD_eq_getElem?_getD, List.getD_eq_getElem?_getD, List.getElem?_map, List.getElem?_map]
    cases es[(denote ctx env idx).toNat]? <;> rfl

include hok in
/-- **The derived operators mean what Python means by them.** Whatever nodes `mkDerived` builds for a derived
operator (compared structurally with what the Python methods build, on every run) are well formed, and their
shape and exact value are the ones `Spec.derived` gives from the operands' shapes and exact values — for every
operand expression, every integer amount and every environment. -/
theorem derived_build_spec (op : DOp) (hop : op ≠ .arrayIndex) (args : List Expr) (e : Expr)
    (h : mkDerived ctx op args = some e) (hwf : ∀ a ∈ args, a.wf ctx = true) :
    e.wf ctx = true ∧
    derived op (args.map fun a => (shapeOf ctx a, denote ctx env a)) = some (shapeOf ctx e, denote ctx env e) := by
  have shl := fun a ha n => shift_left_spec ctx env hok a ha n
  have shr := fun a ha n => shift_right_spec ctx env hok a ha n
  have rot := fun a ha n => rotate_left_spec ctx env hok a ha n
  cases op <;> simp only [mkDerived] at h
  case abs =>
    match args, h, hwf with
    | [a], h, hwf =>
      simp only [Option.some.injEq] at h; subst h
      obtain ⟨h1, h2, h3⟩ := abs_spec ctx env hok a (hwf a (by simp))
      refine ⟨h1, ?_⟩
      simp only [List.map, derived, h2, h3]
      have hr := (sound ctx env hok a (hwf a (by simp))).rng
      by_cases hsg : (shapeOf ctx a).signed = true
      · simp only [hsg, if_true, widthOf]; congr 2; split <;> omega
      · simp only [hsg]
        have hsg' : (shapeOf ctx a).signed = false := by simpa using hsg
        have : shapeOf ctx a = ⟨widthOf ctx a, false⟩ := by
          cases hs : shapeOf ctx a with
          | mk w sg => simp [widthOf, hs] at hsg' ⊢; exact hsg'
        rw [this, Shape.contains_u] at hr
        simp only [Bool.false_eq_true, if_false]
        congr 2; omega
  case shiftLeft n =>
    match args, h, hwf with
    | [a], h, hwf =>
      simp only [Option.some.injEq] at h; subst h
      have ha := hwf a (by simp)
      simp only [List.map, derived, mkShl]
      by_cases hn : n < 0
      · obtain ⟨h1, h2, h3⟩ := shr a ha (-n).toNat
        simp only [hn, if_true, show ¬ n ≥ 0 by omega, if_false]
        refine ⟨h1, ?_⟩
        rw [h2, h3]; simp only [widthOf]; split <;> rfl
      · obtain ⟨h1, h2, h3⟩ := shl a ha n.toNat
        simp only [hn, if_false, show n ≥ 0 by omega, if_true]
        refine ⟨h1, ?_⟩
        rw [h2, h3]; simp only [widthOf, Nat.add_comm]
  case shiftRight n =>
    match args, h, hwf with
    | [a], h, hwf =>
      simp only [Option.some.injEq] at h; subst h
      have ha := hwf a (by simp)
      simp only [List.map, derived, mkShr]
      by_cases hn : n < 0
      · obtain ⟨h1, h2, h3⟩ := shl a ha (-n).toNat
        simp only [hn, if_true, show ¬ n ≥ 0 by omega, if_false]
        refine ⟨h1, ?_⟩
        rw [h2, h3]; simp only [widthOf, Nat.add_comm]
      · obtain ⟨h1, h2, h3⟩ := shr a ha n.toNat
        simp only [hn, if_false, show n ≥ 0 by omega, if_true]
        refine ⟨h1, ?_⟩
        rw [h2, h3]; simp only [widthOf]; split <;> rfl
  case rotateLeft n =>
    match args, h, hwf with
    | [a], h, hwf =>
      simp only [Option.some.injEq] at h; subst h
      obtain ⟨h1, h2, h3⟩ := rot a (hwf a (by simp)) n
      exact ⟨h1, by simp only [List.map, derived]; exact congrArg some (Prod.ext h2.symm h3.symm)⟩
  case rotateRight n =>
    match args, h, hwf with
    | [a], h, hwf =>
      simp only [Option.some.injEq] at h; subst h
      obtain ⟨h1, h2, h3⟩ := rot a (hwf a (by simp)) (-n)
      exact ⟨h1, by simp only [List.map, derived]; exact congrArg some (Prod.ext h2.symm h3.symm)⟩
  case replicate k =>
    match args, h, hwf with
    | [a], h, hwf =>
      simp only [Option.some.injEq] at h; subst h
      obtain ⟨h1, h2, h3⟩ := replicate_spec ctx env hok a (hwf a (by simp)) k
      exact ⟨h1, by simp only [List.map, derived, h2, h3, widthOf]⟩
  case mux =>
    match args, h, hwf with
    | [sel, v1, v0], h, hwf =>
      simp only [Option.some.injEq] at h; subst h
      obtain ⟨h1, h2, h3⟩ := mux_spec ctx env hok sel v1 v0 (hwf _ (by simp)) (hwf _ (by simp)) (hwf _ (by simp))
      refine ⟨h1, ?_⟩
      simp only [List.map, derived, h2, h3, Shape.unify_comm (shapeOf ctx v0)]
      congr 2; split <;> simp_all
  case «matches» ps =>
    match args, h, hwf with
    | [a], h, hwf =>
      simp only [mkDerived] at h
      obtain ⟨h1, h2, h3⟩ := matches_spec ctx env hok a (hwf a (by simp)) ps e h
      exact ⟨h1, by simp only [List.map, derived]; exact congrArg some (Prod.ext h2.symm h3.symm)⟩
    | [], h, _ => simp [mkDerived] at h
    | _ :: _ :: _, h, _ => simp [mkDerived] at h
  case index i =>
    match args, h, hwf with
    | [a], h, hwf =>
      simp only [mkDerived] at h
      exact index_spec ctx env hok a (hwf a (by simp)) i e h
    | [], h, _ => simp [mkDerived] at h
    | _ :: _ :: _, h, _ => simp [mkDerived] at h
  case sliceStep start stop step =>
    match args, h, hwf with
    | [a], h, hwf =>
      simp only [mkDerived] at h
      exact sliceStep_spec ctx env hok a (hwf a (by simp)) start stop step e h
    | [], h, _ => simp [mkDerived] at h
    | _ :: _ :: _, h, _ => simp [mkDerived] at h
  case arrayIndex => exact absurd rfl hop
  all_goals (exfalso; revert h; cases args <;> simp [mkDerived])

end
end Amaranth
