import AmaranthVerif.Model.Rtlil.Print

/-! # Reader ∘ printer on numbers, constants and sigspecs (helper lemmas for `Properties/C07`) -/

namespace Amaranth.Rtlil

/-! ## digits -/

theorem digit?_digitChar : ∀ d, d < 10 → digit? (digitChar d) = some d := by decide

theorem digitChar_ne (c : Char) (hc : digit? c = none) : ∀ d, d < 10 → digitChar d ≠ c := by
  intro d hd h
  rw [← h, digit?_digitChar d hd] at hc
  cases hc

theorem natGo_snoc (xs : List Char) (c : Char) : ∀ acc,
    natGo (xs ++ [c]) acc = (natGo xs acc).bind (fun v => (digit? c).map (fun d => 10 * v + d)) := by
  induction xs with
  | nil =>
    intro acc
    simp only [List.nil_append, natGo]
    cases digit? c <;> rfl
  | cons x xs ih =>
    intro acc
    simp only [List.cons_append, natGo]
    cases digit? x with
    | none => rfl
    | some d => exact ih _

theorem natGo_natChars (n : Nat) : natGo (natChars n) 0 = some n := by
  induction n using Nat.strongRecOn with
  | _ n ih =>
    unfold natChars
    by_cases h : n < 10
    · simp only [h, dite_true, natGo, digit?_digitChar n h]
      simp
    · simp only [h, dite_false]
      rw [natGo_snoc, ih (n / 10) (by omega), digit?_digitChar _ (Nat.mod_lt _ (by omega))]
      simp only [Option.bind_some, Option.map_some]
      congr 1
      omega

/-- every character of a printed number is a digit -/
theorem natChars_digits (n : Nat) : ∀ c ∈ natChars n, ∃ d, d < 10 ∧ c = digitChar d := by
  induction n using Nat.strongRecOn with
  | _ n ih =>
    unfold natChars
    by_cases h : n < 10
    · simp only [h, dite_true, List.mem_singleton]
      intro c hc
      exact ⟨n, h, hc⟩
    · simp only [h, dite_false, List.mem_append, List.mem_singleton]
      intro c hc
      rcases hc with hc | hc
      · exact ih (n / 10) (by omega) c hc
      · exact ⟨n % 10, Nat.mod_lt _ (by omega), hc⟩

theorem natChars_ne_nil (n : Nat) : natChars n ≠ [] := by
  unfold natChars
  by_cases h : n < 10 <;> simp [h]

theorem parseNat_natChars (n : Nat) : parseNat (natChars n) = some n := by
  unfold parseNat
  have := natChars_ne_nil n
  split
  · contradiction
  · exact natGo_natChars n

/-- a printed number does not contain the non-digit `c` -/
theorem natChars_all_ne (c : Char) (hc : digit? c = none) (n : Nat) : ∀ x ∈ natChars n, (x != c) = true := by
  intro x hx
  obtain ⟨d, hd, rfl⟩ := natChars_digits n x hx
  simpa using digitChar_ne c hc d hd

theorem takeWhile_all {α} (p : α → Bool) : ∀ (xs ys : List α) (y : α), (∀ x ∈ xs, p x = true) → p y = false →
    (xs ++ y :: ys).takeWhile p = xs ∧ (xs ++ y :: ys).dropWhile p = y :: ys
  | [], ys, y, _, hy => by simp [hy]
  | x :: xs, ys, y, hx, hy => by
    have h1 := hx x (List.mem_cons_self)
    have ih := takeWhile_all p xs ys y (fun z hz => hx z (List.mem_cons_of_mem _ hz)) hy
    simp [h1, ih.1, ih.2]

/-! ## bit constants -/

theorem bit?_bitChar (b : Bit) : bit? (bitChar b) = some b := by cases b <;> rfl

theorem mapM_bit? : ∀ bs : List Bit, (bs.map bitChar).mapM bit? = some bs
  | [] => rfl
  | b :: bs => by
    simp only [List.map_cons, List.mapM_cons, bit?_bitChar, mapM_bit? bs]
    rfl

theorem parseBits_chars (bs : List Bit) :
    parseBits (natChars bs.length ++ '\'' :: bs.map bitChar) = some bs := by
  have h := takeWhile_all (· != '\'') (natChars bs.length) (bs.map bitChar) '\''
    (natChars_all_ne '\'' (by decide) bs.length) (by decide)
  unfold parseBits
  simp only [h.1, h.2, parseNat_natChars, mapM_bit?]
  simp

theorem parseBits_bitsWord (bs : List Bit) : parseBits (bitsWord bs).toList = some bs := by
  unfold bitsWord
  rw [String.toList_ofList]
  exact parseBits_chars bs

/-! ## sigspecs -/

/-- an identifier token: it has a sigil and at least one more character (so it is neither a selector,
a brace nor a constant) -/
def IdOk (n : String) : Prop := isId n = true

/-- a chunk the printer renders faithfully -/
def ChunkPrintable : Chunk → Prop
  | .const _ => True
  | .wire n => IdOk n
  | .slice n _ _ => IdOk n
  | .bit n _ => IdOk n

def SpecPrintable (s : SigSpec) : Prop := ∀ c ∈ s.chunks, ChunkPrintable c

instance (c : Chunk) : Decidable (ChunkPrintable c) := by
  cases c <;> unfold ChunkPrintable IdOk <;> exact inferInstance

instance (s : SigSpec) : Decidable (SpecPrintable s) := by unfold SpecPrintable; exact inferInstance

/-- facts about a word `w`, read off its characters -/
structure WordFacts (w : String) (sel lb rb lrb id : Bool) : Prop where
  hsel : isSelWord w = sel
  hlb : (w == "{") = lb
  hrb : (w == "}") = rb
  hlrb : (w == "{}") = lrb
  hid : isId w = id

theorem string_ne_of_toList {a b : String} (h : a.toList ≠ b.toList) : (a == b) = false := by
  apply beq_false_of_ne
  intro hab
  exact h (by rw [hab])

theorem toList_lb : ("{" : String).toList = ['{'] := by decide
theorem toList_rb : ("}" : String).toList = ['}'] := by decide
theorem toList_lrb : ("{}" : String).toList = ['{', '}'] := by decide

theorem id_facts (n : String) (h : isId n = true) : WordFacts n false false false false true := by
  unfold isId at h
  cases hl : n.toList with
  | nil => rw [hl] at h; cases h
  | cons c t =>
    cases t with
    | nil => rw [hl] at h; cases h
    | cons c2 rest =>
      rw [hl] at h
      simp only [Bool.or_eq_true, beq_iff_eq] at h
      have hc : c ≠ '[' ∧ c ≠ '{' ∧ c ≠ '}' := by rcases h with rfl | rfl <;> decide
      refine ⟨?_, ?_, ?_, ?_, ?_⟩
      · unfold isSelWord
        rw [hl]
        simpa using hc.1
      · apply string_ne_of_toList; rw [hl, toList_lb]; simp
      · apply string_ne_of_toList; rw [hl, toList_rb]; simp
      · apply string_ne_of_toList; rw [hl, toList_lrb]; simp [hc.2.1]
      · unfold isId
        rw [hl]
        simpa using h

/-- a word that starts with a digit -/
theorem digit_facts (w : String) (d : Nat) (hd : d < 10) (rest : List Char) (h : w.toList = digitChar d :: rest) :
    WordFacts w false false false false false := by
  have hne : ∀ c : Char, digit? c = none → digitChar d ≠ c := fun c hc => digitChar_ne c hc d hd
  refine ⟨?_, ?_, ?_, ?_, ?_⟩
  · unfold isSelWord
    rw [h]
    simpa using hne '[' (by decide)
  · apply string_ne_of_toList; rw [h, toList_lb]; simp [hne '{' (by decide)]
  · apply string_ne_of_toList; rw [h, toList_rb]; simp [hne '}' (by decide)]
  · apply string_ne_of_toList; rw [h, toList_lrb]; simp [hne '{' (by decide)]
  · unfold isId
    rw [h]
    cases rest with
    | nil => rfl
    | cons c2 r => simp [hne '\\' (by decide), hne '$' (by decide)]

theorem natChars_head (n : Nat) : ∃ d rest, d < 10 ∧ natChars n = digitChar d :: rest := by
  cases h : natChars n with
  | nil => exact absurd h (natChars_ne_nil n)
  | cons c rest =>
    obtain ⟨d, hd, rfl⟩ := natChars_digits n c (by rw [h]; exact List.mem_cons_self)
    exact ⟨d, rest, hd, rfl⟩

theorem bitsWord_facts (bs : List Bit) : WordFacts (bitsWord bs) false false false false false := by
  obtain ⟨d, rest, hd, hr⟩ := natChars_head bs.length
  apply digit_facts (bitsWord bs) d hd (rest ++ '\'' :: bs.map bitChar)
  unfold bitsWord
  rw [String.toList_ofList, hr]
  rfl

theorem constChunk_bitsWord (bs : List Bit) : constChunk (bitsWord bs) = some (.const bs) := by
  unfold constChunk parseConstWord
  have hc : (bitsWord bs).toList.contains '\'' = true := by
    unfold bitsWord
    rw [String.toList_ofList]
    simp
  simp only [hc, if_true, parseBits_bitsWord, Option.map_some]

/-! ### selectors -/

theorem isSelWord_rangeWord (hi lo : Nat) : isSelWord (rangeWord hi lo) = true := by
  unfold isSelWord rangeWord
  rw [String.toList_ofList]
  simp

theorem isSelWord_bitWord (i : Nat) : isSelWord (bitWord i) = true := by
  unfold isSelWord bitWord
  rw [String.toList_ofList]
  simp

theorem contains_colon_natChars (n : Nat) : (natChars n).contains ':' = false := by
  apply Bool.eq_false_iff.mpr
  intro h
  have hm := List.contains_iff_mem.mp h
  have := natChars_all_ne ':' (by decide) n ':' hm
  simp at this

theorem parseSelInner_range (hi lo : Nat) : parseSelInner (natChars hi ++ ':' :: natChars lo) = some (.range hi lo) := by
  have h := takeWhile_all (· != ':') (natChars hi) (natChars lo) ':' (natChars_all_ne ':' (by decide) hi) (by decide)
  have hc : (natChars hi ++ ':' :: natChars lo).contains ':' = true := by simp
  unfold parseSelInner
  simp only [hc, if_true, h.1, h.2, List.drop_succ_cons, List.drop_zero, parseNat_natChars]

theorem parseSelInner_bit (i : Nat) : parseSelInner (natChars i) = some (.bit i) := by
  unfold parseSelInner
  simp only [contains_colon_natChars, Bool.false_eq_true, if_false, parseNat_natChars, Option.map_some]

theorem mkSel_rangeWord (w : String) (hi lo : Nat) : mkSel w (rangeWord hi lo) = some (.slice w hi lo) := by
  unfold mkSel parseSel rangeWord
  rw [String.toList_ofList]
  have hrev : (natChars hi ++ ':' :: (natChars lo ++ [']'])).reverse = ']' :: (natChars hi ++ ':' :: natChars lo).reverse := by
    simp
  simp [hrev, parseSelInner_range]

theorem mkSel_bitWord (w : String) (i : Nat) : mkSel w (bitWord i) = some (.bit w i) := by
  unfold mkSel parseSel bitWord
  rw [String.toList_ofList]
  have hrev : (natChars i ++ [']']).reverse = ']' :: (natChars i).reverse := by simp
  simp [hrev, parseSelInner_bit]

/-! ### tokens of chunks -/

/-- the token the printer writes for a chunk, as the reader classifies it -/
def chunkCToks (cs : List Chunk) : List CTok := cs.map .chunk

theorem chunkGo_word_id (n : String) (hn : isId n = true) (pend : Option String) (rest : List Tok) :
    chunkGo pend (.word n :: rest) =
      (chunkGo (some n) rest).map (fun r => (match pend with | some w => [CTok.chunk (.wire w)] | none => []) ++ r) := by
  obtain ⟨h1, h2, h3, h4, h5⟩ := id_facts n hn
  cases pend <;> simp only [chunkGo, h1, h2, h3, h4, h5, Bool.false_eq_true, if_false, if_true]

theorem chunkGo_word_const (bs : List Bit) (pend : Option String) (rest : List Tok) :
    chunkGo pend (.word (bitsWord bs) :: rest) =
      (chunkGo none rest).map (fun r => (match pend with | some w => [CTok.chunk (.wire w)] | none => []) ++ .chunk (.const bs) :: r) := by
  obtain ⟨h1, h2, h3, h4, h5⟩ := bitsWord_facts bs
  cases pend <;> simp only [chunkGo, h1, h2, h3, h4, h5, Bool.false_eq_true, if_false, constChunk_bitsWord]

/-- reading the tokens of printable chunks followed by `rest`, where `rest` does not start with a selector -/
def NoSelHead : List Tok → Prop
  | .word s :: _ => isSelWord s = false
  | _ => True

theorem chunkGo_some_noSel (w : String) (rest : List Tok) (h : NoSelHead rest) :
    chunkGo (some w) rest = (chunkGo none rest).map (fun r => CTok.chunk (.wire w) :: r) := by
  cases rest with
  | nil => simp [chunkGo]
  | cons t rest =>
    cases t with
    | str s => simp [chunkGo]
    | word s =>
      have hs : isSelWord s = false := h
      rw [chunkGo, chunkGo]
      simp only [hs, Bool.false_eq_true, if_false]
      split <;> (try split) <;> (try split) <;> (try split) <;>
        simp [Option.map_map, Function.comp_def] <;>
        (try (cases constChunk s <;> simp [Option.map_map, Function.comp_def]))

theorem chunkToks_noSel (c : Chunk) (hc : ChunkPrintable c) (rest : List Tok) (h : NoSelHead rest) :
    NoSelHead (chunkToks c ++ rest) := by
  cases c with
  | const bs => exact (bitsWord_facts bs).hsel
  | wire n => exact (id_facts n hc).hsel
  | slice n hi lo => exact (id_facts n hc).hsel
  | bit n i => exact (id_facts n hc).hsel

theorem chunkGo_chunk (c : Chunk) (hc : ChunkPrintable c) (rest : List Tok) (h : NoSelHead rest) :
    chunkGo none (chunkToks c ++ rest) = (chunkGo none rest).map (fun r => CTok.chunk c :: r) := by
  cases c with
  | const bs =>
    simp only [chunkToks, List.cons_append, List.nil_append]
    rw [chunkGo_word_const]
    rfl
  | wire n =>
    simp only [chunkToks, List.cons_append, List.nil_append]
    rw [chunkGo_word_id n hc, chunkGo_some_noSel n rest h]
    simp [Option.map_map, Function.comp_def]
  | slice n hi lo =>
    simp only [chunkToks, List.cons_append, List.nil_append]
    rw [chunkGo_word_id n hc]
    have : chunkGo (some n) (.word (rangeWord hi lo) :: rest) = (chunkGo none rest).map (fun r => CTok.chunk (.slice n hi lo) :: r) := by
      simp only [chunkGo, isSelWord_rangeWord, if_true, mkSel_rangeWord]
    rw [this]
    simp [Option.map_map, Function.comp_def]
  | bit n i =>
    simp only [chunkToks, List.cons_append, List.nil_append]
    rw [chunkGo_word_id n hc]
    have : chunkGo (some n) (.word (bitWord i) :: rest) = (chunkGo none rest).map (fun r => CTok.chunk (.bit n i) :: r) := by
      simp only [chunkGo, isSelWord_bitWord, if_true, mkSel_bitWord]
    rw [this]
    simp [Option.map_map, Function.comp_def]

theorem chunkGo_chunks : ∀ (cs : List Chunk), (∀ c ∈ cs, ChunkPrintable c) → ∀ rest, NoSelHead rest →
    chunkGo none (cs.flatMap chunkToks ++ rest) = (chunkGo none rest).map (fun r => cs.map CTok.chunk ++ r) ∧
      NoSelHead (cs.flatMap chunkToks ++ rest)
  | [], _, rest, h => by
    refine ⟨?_, h⟩
    simp only [List.flatMap_nil, List.nil_append, List.map_nil]
    cases chunkGo none rest <;> rfl
  | c :: cs, hcs, rest, h => by
    have hc := hcs c (List.mem_cons_self)
    obtain ⟨ih1, ih2⟩ := chunkGo_chunks cs (fun c' hc' => hcs c' (List.mem_cons_of_mem _ hc')) rest h
    simp only [List.flatMap_cons, List.append_assoc]
    refine ⟨?_, chunkToks_noSel c hc _ ih2⟩
    rw [chunkGo_chunk c hc _ ih2, ih1]
    simp [Option.map_map, Function.comp_def]

/-- the classified tokens of a printed sigspec -/
def specCToks : SigSpec → List CTok
  | .one c => [.chunk c]
  | .cat cs => .lbrace :: cs.map .chunk ++ [.rbrace]

theorem lbrace_facts : WordFacts "{" false true false false false := ⟨by decide, by decide, by decide, by decide, by decide⟩
theorem rbrace_facts : WordFacts "}" false false true false false := ⟨by decide, by decide, by decide, by decide, by decide⟩

theorem chunkGo_spec (s : SigSpec) (hs : SpecPrintable s) (rest : List Tok) (h : NoSelHead rest) :
    chunkGo none (specToks s ++ rest) = (chunkGo none rest).map (fun r => specCToks s ++ r) ∧
      NoSelHead (specToks s ++ rest) := by
  cases s with
  | one c =>
    have hc : ChunkPrintable c := hs c (by simp [SigSpec.chunks])
    exact ⟨by simpa [specToks, specCToks] using chunkGo_chunk c hc rest h, chunkToks_noSel c hc rest h⟩
  | cat cs =>
    have hcs : ∀ c ∈ cs, ChunkPrintable c := fun c hc => hs c (by simpa [SigSpec.chunks] using hc)
    have hr : NoSelHead (Tok.word "}" :: rest) := by show isSelWord "}" = false; decide
    obtain ⟨h1, _⟩ := chunkGo_chunks cs hcs (Tok.word "}" :: rest) hr
    refine ⟨?_, by show isSelWord "{" = false; decide⟩
    simp only [specToks, List.cons_append, List.append_assoc, List.nil_append]
    simp only [chunkGo, lbrace_facts.hsel, lbrace_facts.hlb, Bool.false_eq_true, if_false, if_true, List.nil_append]
    rw [h1]
    simp only [chunkGo, rbrace_facts.hsel, rbrace_facts.hlb, rbrace_facts.hrb, Bool.false_eq_true, if_false, if_true, List.nil_append]
    simp [Option.map_map, Function.comp_def, specCToks]

theorem chunkify_specs : ∀ (specs : List SigSpec), (∀ s ∈ specs, SpecPrintable s) →
    chunkGo none (specs.flatMap specToks) = some (specs.flatMap specCToks) ∧ NoSelHead (specs.flatMap specToks)
  | [], _ => ⟨by simp [chunkGo], trivial⟩
  | s :: rest, h => by
    obtain ⟨ih1, ih2⟩ := chunkify_specs rest (fun s' hs' => h s' (List.mem_cons_of_mem _ hs'))
    obtain ⟨h1, h2⟩ := chunkGo_spec s (h s (List.mem_cons_self)) _ ih2
    simp only [List.flatMap_cons]
    exact ⟨by rw [h1, ih1]; rfl, h2⟩

theorem specsGo_cat (cs : List Chunk) : ∀ (acc : List Chunk) (rest : List CTok),
    specsGo (some acc) (cs.map CTok.chunk ++ .rbrace :: rest) = (specsGo none rest).map (fun r => SigSpec.cat (acc ++ cs) :: r) := by
  induction cs with
  | nil => intro acc rest; simp [specsGo]
  | cons c cs ih =>
    intro acc rest
    simp only [List.map_cons, List.cons_append, specsGo]
    rw [ih]
    simp

theorem specsGo_specs : ∀ (specs : List SigSpec), specsGo none (specs.flatMap specCToks) = some specs
  | [] => rfl
  | s :: rest => by
    simp only [List.flatMap_cons]
    cases s with
    | one c => simp [specCToks, specsGo, specsGo_specs rest]
    | cat cs =>
      simp only [specCToks, List.cons_append, List.append_assoc, specsGo]
      simp only [List.nil_append]
      rw [specsGo_cat cs [] (rest.flatMap specCToks), specsGo_specs rest]
      rfl

theorem parseSpecs_print (specs : List SigSpec) (h : ∀ s ∈ specs, SpecPrintable s) :
    parseSpecs (specs.flatMap specToks) = some specs := by
  unfold parseSpecs chunkify
  rw [(chunkify_specs specs h).1]
  exact specsGo_specs specs

end Amaranth.Rtlil
