import AmaranthVerif.Proofs.ShapeLemmas

/-! # Per-operator range lemmas: the result shape of every operator contains the exact result -/

namespace Amaranth
namespace Shape

theorem unify_WF (a b : Shape) (ha : a.WF) (hb : b.WF) : (unify a b).WF := by
  obtain ⟨aw, asg⟩ := a; obtain ⟨bw, bsg⟩ := b
  unfold WF at *
  cases asg <;> cases bsg <;> simp [unify] at * <;> omega

/-- a signed shape of width `w` contains everything a narrower-or-equal signed shape contains -/
theorem contains_s_mono {w w' : Nat} {x : Int} (h : w ≤ w') (hx : (Shape.mk w true).contains x) :
    (Shape.mk w' true).contains x := by
  rw [contains_s] at *
  have := two_pow_mono (show w - 1 ≤ w' - 1 by omega)
  omega

theorem contains_u_mono {w w' : Nat} {x : Int} (h : w ≤ w') (hx : (Shape.mk w false).contains x) :
    (Shape.mk w' false).contains x := by
  rw [contains_u] at *
  have := two_pow_mono h
  omega

/-- an unsigned value fits a signed shape one bit wider -/
theorem contains_u_to_s {w w' : Nat} {x : Int} (h : w + 1 ≤ w') (hx : (Shape.mk w false).contains x) :
    (Shape.mk w' true).contains x := by
  rw [contains_u] at hx; rw [contains_s]
  have := two_pow_mono (show w ≤ w' - 1 by omega)
  have := two_pow_pos' (w' - 1)
  omega

theorem unify_contains_left (a b : Shape) {x : Int} (hx : a.contains x) : (unify a b).contains x := by
  obtain ⟨aw, asg⟩ := a; obtain ⟨bw, bsg⟩ := b
  cases asg <;> cases bsg <;> simp only [unify, Bool.or_false, Bool.or_true, Bool.false_eq_true, if_false, if_true]
  · exact contains_u_mono (Nat.le_max_left ..) hx
  · exact contains_u_to_s (Nat.le_max_left ..) hx
  · exact contains_s_mono (Nat.le_max_left ..) hx
  · exact contains_s_mono (Nat.le_max_left ..) hx

theorem unify_contains_right (a b : Shape) {x : Int} (hx : b.contains x) : (unify a b).contains x := by
  obtain ⟨aw, asg⟩ := a; obtain ⟨bw, bsg⟩ := b
  cases asg <;> cases bsg <;> simp only [unify, Bool.or_false, Bool.or_true, Bool.false_eq_true, if_false, if_true]
  · exact contains_u_mono (Nat.le_max_right ..) hx
  · exact contains_s_mono (Nat.le_max_right ..) hx
  · exact contains_u_to_s (Nat.le_max_right ..) hx
  · exact contains_s_mono (Nat.le_max_right ..) hx

/-- bounds of a contained value in a uniform (two-sided) form -/
theorem bounds_of_unify (o : Shape) (ho : o.WF) {x : Int} (hx : o.contains x) :
    (o.signed = false → 0 ≤ x ∧ x < 2 ^ o.width) ∧
    (o.signed = true → -(2 ^ (o.width - 1) : Int) ≤ x ∧ x < 2 ^ (o.width - 1)) := by
  obtain ⟨w, sg⟩ := o
  cases sg <;> simp [contains, lo, hi] at * <;> exact hx

/-- `a + b` : one bit more than the unified shape, same signedness -/
theorem add_contains (a b : Shape) (ha : a.WF) (hb : b.WF) {x y : Int}
    (hx : a.contains x) (hy : b.contains y) :
    (Shape.mk ((unify a b).width + 1) (unify a b).signed).contains (x + y) := by
  have hx' := unify_contains_left a b hx
  have hy' := unify_contains_right a b hy
  have hw := unify_WF a b ha hb
  generalize unify a b = o at *
  obtain ⟨w, sg⟩ := o
  cases sg with
  | false =>
    rw [contains_u] at *
    have := two_pow_succ' w
    simp only; omega
  | true =>
    have hpos : 0 < w := hw rfl
    rw [contains_s] at *
    have := two_pow_pred w hpos
    simp only [Nat.add_sub_cancel]; omega

/-- `a - b` : one bit more than the unified shape, signed -/
theorem sub_contains (a b : Shape) (ha : a.WF) (hb : b.WF) {x y : Int}
    (hx : a.contains x) (hy : b.contains y) :
    (Shape.mk ((unify a b).width + 1) true).contains (x - y) := by
  have hx' := unify_contains_left a b hx
  have hy' := unify_contains_right a b hy
  have hw := unify_WF a b ha hb
  generalize unify a b = o at *
  obtain ⟨w, sg⟩ := o
  cases sg with
  | false =>
    rw [contains_u] at *; rw [contains_s]
    simp only [Nat.add_sub_cancel]; omega
  | true =>
    have hpos : 0 < w := hw rfl
    rw [contains_s] at *
    have := two_pow_pred w hpos
    simp only [Nat.add_sub_cancel]; omega

/-- `-a` -/
theorem neg_contains (a : Shape) (ha : a.WF) {x : Int} (hx : a.contains x) :
    (Shape.mk (a.width + 1) true).contains (-x) := by
  obtain ⟨w, sg⟩ := a
  cases sg with
  | false => rw [contains_u] at hx; rw [contains_s]; simp only [Nat.add_sub_cancel]; omega
  | true =>
    have hpos : 0 < w := ha rfl
    rw [contains_s] at *
    have := two_pow_pred w hpos
    simp only [Nat.add_sub_cancel]; omega

/-- `~a` complements within the operand's shape -/
theorem inv_contains (a : Shape) {x : Int} (hx : a.contains x) :
    a.contains (if a.signed then -x - 1 else (2 ^ a.width - 1 : Int) - x) := by
  obtain ⟨w, sg⟩ := a
  cases sg with
  | false => rw [contains_u] at *; simp; omega
  | true => rw [contains_s] at *; simp; omega

theorem bit_contains {x : Int} (h0 : 0 ≤ x) (h1 : x ≤ 1) : (Shape.mk 1 false).contains x := by
  rw [contains_u]; omega

end Shape
end Amaranth
