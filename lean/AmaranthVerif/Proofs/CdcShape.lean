import AmaranthVerif.Proofs.Cdc

/-!
# Helper lemmas for C17: input/output shapes of `FFSynchronizer`, reset of its output domain
-/

namespace Amaranth.Cdc
open Model

/-! ## assignment to a signal of another shape -/

theorem ext_arith (p A K B : Nat) (hA : 0 < A) (hB : B ≤ A * K) :
    (p + (A * K - B)) % A = (((p : Int) - (B : Int)) % (A : Int)).toNat := by
  have h1 : ((p + (A * K - B) : Nat) : Int) = ((p : Int) - B) + (A : Int) * K := by
    rw [Int.natCast_add, Int.natCast_sub hB, Int.natCast_mul]
    generalize (A : Int) * (K : Int) = t
    omega
  have h2 : (((p + (A * K - B)) % A : Nat) : Int) = ((p : Int) - B) % A := by
    rw [Int.natCast_emod, h1, Int.add_mul_emod_self_left]
  have h3 : 0 ≤ ((p : Int) - B) % A := Int.emod_nonneg _ (by omega)
  omega

/-- extending with copies of the top bit and truncating is reducing the two's-complement value -/
theorem extendTo_eq_delivered (sg : Bool) (w wo p : Nat) :
    extendTo sg w wo p = delivered sg w wo p := by
  unfold extendTo delivered patternOf valueOf
  have hA : 0 < 2 ^ wo := Nat.two_pow_pos wo
  have c1 : ((2 : Int) ^ wo) = ((2 ^ wo : Nat) : Int) := by push_cast; rfl
  have c2 : ((2 : Int) ^ w) = ((2 ^ w : Nat) : Int) := by push_cast; rfl
  by_cases h : (sg && decide (2 ^ w ≤ 2 * p)) = true
  · rw [if_pos h, if_pos h]
    have hM : 2 ^ w ≤ 2 ^ max w wo := Nat.pow_le_pow_right (by omega) (Nat.le_max_left _ _)
    have hd : 2 ^ max w wo = 2 ^ wo * 2 ^ (max w wo - wo) := by
      rw [← Nat.pow_add]; congr 1; omega
    rw [hd] at hM ⊢
    rw [c1, c2]
    exact ext_arith p _ _ _ hA hM
  · rw [if_neg h, if_neg h, c1, ← Int.natCast_emod]
    rfl

/-! ## FFSynchronizer with the reset of its output domain driven -/

/-- the flops hold the `n` most recent samples since the last reset, padded with the initial value -/
def FFRRel (n w : Nat) (init : Int) (s : FFRState) (r : FFRObs) : Prop :=
  s.inp = r.inp ∧ s.rst = r.rst ∧
    s.flops = (r.samples ++ List.replicate n (signalInit w init)).take n

theorem ffrRel_length {n w : Nat} {init : Int} {s : FFRState} {r : FFRObs}
    (h : FFRRel n w init s r) : s.flops.length = n := by
  rw [h.2.2]; simp

theorem ffrRel_load {n w : Nat} {init : Int} {s : FFRState} {r : FFRObs}
    (h : FFRRel n w init s r) : FFRRel n w init (s.load w init) { r with samples := [] } := by
  have hl := ffrRel_length h
  exact ⟨h.1, h.2.1, by simp [FFRState.load, hl]⟩

theorem ffrRel_clock (n w : Nat) (init : Int) (rl : Bool) (s : FFRState) (r : FFRObs)
    (h : FFRRel n w init s r) :
    FFRRel n w init (ffrClock w init rl s)
      (if (!rl && r.rst) = true then { r with samples := [] }
       else { r with samples := r.inp :: r.samples }) := by
  have hload := ffrRel_load h
  obtain ⟨hi, hr, hf⟩ := h
  unfold ffrClock
  rw [hr]
  by_cases hc : (!rl && r.rst) = true
  · have hc' : (r.rst && !rl) = true := by rw [Bool.and_comm]; exact hc
    rw [if_pos hc, if_pos hc']
    exact hload
  · have hc' : ¬ (r.rst && !rl) = true := by rw [Bool.and_comm]; exact hc
    rw [if_neg hc, if_neg hc']
    refine ⟨hi, rfl, ?_⟩
    show shift s.inp s.flops = _
    rw [hf, hi]
    exact shift_take _ _ _ (by simp)

theorem ffrRel_step (n w : Nat) (init : Int) (rl ad : Bool) (s : FFRState) (r : FFRObs) (e : REv)
    (h : FFRRel n w init s r) :
    FFRRel n w init (ffrStep w init rl ad s e) (r.step w (!rl) ad e) := by
  cases e with
  | ev e =>
    cases e with
    | set v => exact ⟨rfl, h.2.1, h.2.2⟩
    | iedge => exact h
    | oedge => exact ffrRel_clock n w init rl s r h
    | both => exact ffrRel_clock n w init rl s r h
  | rst v =>
    have hr := h.2.1
    have h' : FFRRel n w init { s with rst := level v } { r with rst := level v } :=
      ⟨h.1, rfl, h.2.2⟩
    show FFRRel n w init
      (if (ad && !s.rst && level v && !rl) = true then
        FFRState.load w init { s with rst := level v } else { s with rst := level v })
      (if (!rl && ad && !r.rst && level v) = true then
        { r with rst := level v, samples := [] } else { r with rst := level v })
    rw [hr]
    have hcond : (ad && !r.rst && level v && !rl) = (!rl && ad && !r.rst && level v) := by
      cases ad <;> cases r.rst <;> cases level v <;> cases rl <;> rfl
    rw [hcond]
    by_cases hc : (!rl && ad && !r.rst && level v) = true
    · rw [if_pos hc, if_pos hc]
      exact ffrRel_load h'
    · rw [if_neg hc, if_neg hc]
      exact h'

theorem ffrRel_run (n w : Nat) (init : Int) (rl ad : Bool) (i0 : Nat) (evs : List REv) :
    FFRRel n w init (ffrRun n w init rl ad i0 evs) (ffrObserve w (!rl) ad i0 evs) := by
  apply foldl_rel (FFRRel n w init) _ _ (ffrRel_step n w init rl ad)
  exact ⟨rfl, rfl, by simp [ffrInit, FFRObs.start]⟩

theorem ffrRel_last (n w : Nat) (init : Int) (hn : 1 ≤ n) (s : FFRState) (r : FFRObs)
    (h : FFRRel n w init s r) : s.last = r.out n w init := by
  obtain ⟨_, _, hf⟩ := h
  unfold FFRState.last FFRObs.out
  rw [hf, getLast?_take _ _ hn (by simp)]
  unfold initValue signalInit
  rw [List.getD_eq_getElem?_getD]
  by_cases hk : n - 1 < r.samples.length
  · rw [List.getElem?_append_left hk, List.getElem?_eq_getElem hk]
    rfl
  · have h1 : r.samples.length ≤ n - 1 := by omega
    have h2 : r.samples[n - 1]? = none := by simp; omega
    have h3 : n - 1 - r.samples.length < n := by omega
    rw [List.getElem?_append_right h1, h2, List.getElem?_replicate, if_pos h3]
    rfl

theorem ffrClock_resetless (w : Nat) (init : Int) (s : FFRState) :
    ffrClock w init true s = { s with flops := shift s.inp s.flops } := by
  simp [ffrClock]

/-- a reset-less chain goes through a schedule exactly as the plain chain goes through the schedule
with the reset events taken out -/
theorem ffr_resetless_from (w : Nat) (init : Int) (ad : Bool) (evs : List REv) :
    ∀ (s : FFRState) (t : FFState), s.inp = t.inp → s.flops = t.flops →
      (evs.foldl (ffrStep w init true ad) s).flops = ((eraseRst evs).foldl (ffStep w) t).flops := by
  induction evs with
  | nil => intro s t _ hf; exact hf
  | cons e es ih =>
    intro s t hi hf
    cases e with
    | ev e =>
      rw [List.foldl_cons]
      show _ = ((e :: eraseRst es).foldl (ffStep w) t).flops
      rw [List.foldl_cons]
      cases e with
      | set v => exact ih _ _ rfl hf
      | iedge => exact ih _ _ hi hf
      | oedge =>
        show ((es.foldl (ffrStep w init true ad) (ffrClock w init true s)).flops = _)
        rw [ffrClock_resetless]
        exact ih _ _ hi (by show shift s.inp s.flops = shift t.inp t.flops; rw [hi, hf])
      | both =>
        show ((es.foldl (ffrStep w init true ad) (ffrClock w init true s)).flops = _)
        rw [ffrClock_resetless]
        exact ih _ _ hi (by show shift s.inp s.flops = shift t.inp t.flops; rw [hi, hf])
    | rst v =>
      rw [List.foldl_cons]
      show _ = ((eraseRst es).foldl (ffStep w) t).flops
      apply ih
      · simp [ffrStep]; exact hi
      · simp [ffrStep]; exact hf

theorem ffr_resetless_last (n w : Nat) (init : Int) (ad : Bool) (i0 : Nat) (evs : List REv) :
    (ffrRun n w init true ad i0 evs).last = Model.ffOut n w init i0 (eraseRst evs) := by
  unfold FFRState.last Model.ffOut FFState.out ffrRun ffRun
  rw [ffr_resetless_from w init ad evs _ (ffInit n w init i0) rfl rfl]

end Amaranth.Cdc
