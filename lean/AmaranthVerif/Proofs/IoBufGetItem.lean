import AmaranthVerif.Proofs.IoBufPy

/-! # The model's two subscript mechanisms select by position (helper file of C18) -/

namespace Amaranth.IoBuf
open Spec (select positions)

/-- `IOSlice` with normalised bounds `0 ≤ a ≤ b ≤ n` -/
theorem ioSlice_ok (xs : List β) {a b : Int} (ha : 0 ≤ a) (hab : a ≤ b) (hb : b ≤ xs.length) :
    ioSlice xs a b = .ok (select (List.range' a.toNat (b - a).toNat) xs) := by
  unfold ioSlice
  have h1 : ¬ ¬ (-(xs.length : Int) ≤ a ∧ a ≤ xs.length) := by omega
  have h2 : ¬ ¬ (-(xs.length : Int) ≤ b ∧ b ≤ xs.length) := by omega
  have h3 : ¬ a < 0 := by omega
  have h4 : ¬ b < 0 := by omega
  have h5 : ¬ a > b := by omega
  simp only [h1, h2, h3, h4, h5, if_false]
  rw [select_range' xs a.toNat (b - a).toNat (by omega)]
  congr 2
  omega

theorem ioSlice_rev (xs : List β) {a b : Int} (ha : 0 ≤ a) (ha' : a ≤ xs.length) (hb : 0 ≤ b)
    (hb' : b ≤ xs.length) (hab : a > b) : ioSlice xs a b = .error .indexError := by
  unfold ioSlice
  have h1 : ¬ ¬ (-(xs.length : Int) ≤ a ∧ a ≤ xs.length) := by omega
  have h2 : ¬ ¬ (-(xs.length : Int) ≤ b ∧ b ≤ xs.length) := by omega
  have h3 : ¬ a < 0 := by omega
  have h4 : ¬ b < 0 := by omega
  simp only [h1, h2, h3, h4, hab, if_false, if_true]
  rfl

/-- `value[i]` for `0 ≤ i < n` is the one-element list `[xs[i]]` -/
theorem ioIndex_ok (xs : List β) {i : Int} (h0 : 0 ≤ i) (h1 : i < xs.length) :
    ioIndex xs i = .ok (select [i.toNat] xs) := by
  unfold ioIndex
  have hr : ¬ ¬ (-(xs.length : Int) ≤ i ∧ i < xs.length) := by omega
  have hn : ¬ i < 0 := by omega
  simp only [hr, hn, if_false]
  rw [ioSlice_ok xs h0 (by omega) (by omega)]
  have : (i + 1 - i).toNat = 1 := by omega
  rw [this]
  rfl

theorem ioIndex_neg (xs : List β) {i : Int} (h0 : -(xs.length : Int) ≤ i) (h1 : i < 0) :
    ioIndex xs i = .ok (select [(i + xs.length).toNat] xs) := by
  unfold ioIndex
  have hr : ¬ ¬ (-(xs.length : Int) ≤ i ∧ i < xs.length) := by omega
  simp only [hr, h1, if_false, if_true]
  rw [ioSlice_ok xs (by omega) (by omega) (by omega)]
  have : (i + xs.length + 1 - (i + xs.length)).toNat = 1 := by omega
  rw [this]
  rfl

theorem mapM_ioIndex (xs : List β) (is : List Int) (h : ∀ i ∈ is, 0 ≤ i ∧ i < xs.length) :
    is.mapM (ioIndex xs) = (.ok (is.map fun i => select [i.toNat] xs) : R _) := by
  induction is with
  | nil => rfl
  | cons i is ih =>
    have hi := h i (by simp)
    rw [List.mapM_cons, ioIndex_ok xs hi.1 hi.2, ih (fun j hj => h j (by simp [hj]))]
    rfl

theorem flatten_singletons (xs : List β) (is : List Int) :
    (is.map fun i => select [i.toNat] xs).flatten = select (is.map Int.toNat) xs := by
  induction is with
  | nil => rfl
  | cons i is ih =>
    simp only [List.map_cons, List.flatten_cons, ih]
    rw [select_cons (i.toNat) (is.map Int.toNat)]
    rw [select_cons, select_nil]
    cases xs[i.toNat]? <;> rfl

/-- the positions selected by a key lie inside the sequence -/
theorem positions_lt {n : Nat} {key : Key} {ps : List Nat} (h : positions n key = .ok ps) :
    ∀ i ∈ ps, i < n := by
  cases key with
  | idx k =>
    simp only [positions] at h
    split at h
    · rename_i hr
      cases h
      intro i hi
      simp only [List.mem_singleton] at hi
      subst hi
      have hn : (0 : Int) < n := by omega
      have := Int.emod_lt_of_pos k hn
      have := Int.emod_nonneg k (show (n : Int) ≠ 0 by omega)
      omega
    · cases h
  | slc s e st =>
    simp only [positions, bind, Except.bind] at h
    split at h
    · cases h
    · rename_i v hv
      obtain ⟨a, b, c⟩ := v
      have hs := Py.sliceIndices_ok hv
      simp only [] at h
      split at h
      · cases h
      · cases h
        intro i hi
        rw [List.mem_map] at hi
        obtain ⟨j, hj, rfl⟩ := hi
        have hm := Py.mem_range hj
        rcases Int.lt_or_gt_of_ne hs.2.1 with hc | hc
        · have := hm.2 hc
          have := hs.2.2.2 hc
          omega
        · have := hm.1 hc
          have := hs.2.2.1 hc
          omega
  | bad => simp [positions] at h

/-- `IOValue.__getitem__` / `Value.__getitem__` on the flattened wires = selection by position -/
theorem ioGetItem_eq (xs : List β) (key : Key) :
    ioGetItem xs key = (positions xs.length key).map (fun ps => select ps xs) := by
  cases key with
  | idx k =>
    simp only [ioGetItem, positions]
    split
    · rename_i hr
      simp only [Except.map, pure, Except.pure]
      by_cases hk : k < 0
      · rw [ioIndex_neg xs hr.1 hk]
        have h1 : (k + xs.length) % (xs.length : Int) = k + xs.length := Int.emod_eq_of_lt (by omega) (by omega)
        rw [Int.add_emod_right] at h1
        rw [h1]
      · rw [ioIndex_ok xs (by omega) hr.2]
        have h1 : k % (xs.length : Int) = k := Int.emod_eq_of_lt (by omega) hr.2
        rw [h1]
    · rename_i hr
      unfold ioIndex
      simp only [hr, not_false_eq_true, if_true]
      rfl
  | slc s e st =>
    simp only [ioGetItem, positions, bind, Except.bind]
    split
    · rfl
    · rename_i v hv
      obtain ⟨a, b, c⟩ := v
      have hs := Py.sliceIndices_ok hv
      simp only []
      by_cases hc1 : c = 1
      · subst hc1
        have hb := hs.2.2.1 (by omega)
        simp only [ne_eq, not_true_eq_false, if_false, true_and]
        by_cases hab : a > b
        · simp only [hab, if_true]
          rw [ioSlice_rev xs hb.1 hb.2.1 hb.2.2.1 hb.2.2.2 hab]
          rfl
        · simp only [hab, if_false]
          rw [ioSlice_ok xs hb.1 (by omega) hb.2.2.2, Py.range_one hb.1 (by omega)]
          rfl
      · simp only [ne_eq, hc1, not_false_eq_true, if_true, false_and, if_false]
        have hin : ∀ i ∈ Py.range a b c, 0 ≤ i ∧ i < xs.length := by
          intro i hi
          have hm := Py.mem_range hi
          rcases Int.lt_or_gt_of_ne hs.2.1 with hc | hc
          · have := hm.2 hc
            have := hs.2.2.2 hc
            omega
          · have := hm.1 hc
            have := hs.2.2.1 hc
            omega
        rw [mapM_ioIndex xs _ hin]
        simp only [Except.map, pure, Except.pure, flatten_singletons]
  | bad => rfl

end Amaranth.IoBuf

namespace Amaranth.IoBuf
open Spec (select positions)

theorem tupleSlice_eq (xs : List α) (s e st : Option Int) {a b c : Int}
    (h : Py.sliceIndices xs.length s e st = .ok (a, b, c)) :
    Py.tupleSlice xs s e st = .ok (select ((Py.range a b c).map Int.toNat) xs) := by
  unfold Py.tupleSlice
  simp only [bind, Except.bind, h, pure, Except.pure, select, List.filterMap_map]
  rfl

theorem tupleIndex_eq (xs : List α) {k : Int} (hr : -(xs.length : Int) ≤ k ∧ k < xs.length) :
    ∃ x, Py.tupleIndex xs k = .ok x ∧ select [(k % (xs.length : Int)).toNat] xs = [x] := by
  unfold Py.tupleIndex
  simp only [hr, and_self, if_true]
  have hj : (k % (xs.length : Int)).toNat = (if k < 0 then k + xs.length else k).toNat := by
    split
    · have h1 : (k + xs.length) % (xs.length : Int) = k + xs.length := Int.emod_eq_of_lt (by omega) (by omega)
      rw [Int.add_emod_right] at h1
      rw [h1]
    · rw [Int.emod_eq_of_lt (by omega) hr.2]
  rw [← hj]
  have hlt : (k % (xs.length : Int)).toNat < xs.length := by
    rw [hj]; split <;> omega
  refine ⟨xs[(k % (xs.length : Int)).toNat], ?_, select_singleton hlt⟩
  simp [List.getElem?_eq_getElem hlt, pure, Except.pure]

/-- `self._invert[index]` followed by the constructor's normalisation = selection by position,
provided the new port has as many wires as positions were selected -/
theorem invGetItem_norm {inv : List Bool} {key : Key} {ps : List Nat} {m : Nat}
    (h : positions inv.length key = .ok ps) (hm : m = (select ps inv).length) :
    (invGetItem inv key >>= normInvert m) = .ok (select ps inv) := by
  cases key with
  | idx k =>
    simp only [positions] at h
    split at h
    · rename_i hr
      cases h
      obtain ⟨x, hx, hsel⟩ := tupleIndex_eq inv hr
      simp only [invGetItem, bind, Except.bind, hx, pure, Except.pure, normInvert]
      rw [hsel] at hm ⊢
      subst hm
      rfl
    · cases h
  | slc s e st =>
    simp only [positions, bind, Except.bind] at h
    split at h
    · cases h
    · rename_i v hv
      obtain ⟨a, b, c⟩ := v
      simp only [] at h
      split at h
      · cases h
      · cases h
        simp only [invGetItem, bind, Except.bind, tupleSlice_eq inv s e st hv, pure, Except.pure, normInvert]
        simp [hm]
  | bad => simp [positions] at h

/-- `SimulationPort.__getitem__`: `self._invert[key]` for a slice, `(self._invert[key],)` otherwise -/
theorem invGetItem_sim {inv : List Bool} {key : Key} {ps : List Nat}
    (h : positions inv.length key = .ok ps) :
    ∃ a, invGetItem inv key = .ok a ∧ a.toTuple = select ps inv := by
  cases key with
  | idx k =>
    simp only [positions] at h
    split at h
    · rename_i hr
      cases h
      obtain ⟨x, hx, hsel⟩ := tupleIndex_eq inv hr
      refine ⟨.all x, ?_, ?_⟩
      · simp only [invGetItem, bind, Except.bind, hx, pure, Except.pure]
      · simp only [InvArg.toTuple, hsel]
    · cases h
  | slc s e st =>
    simp only [positions, bind, Except.bind] at h
    split at h
    · cases h
    · rename_i v hv
      obtain ⟨a, b, c⟩ := v
      simp only [] at h
      split at h
      · cases h
      · cases h
        refine ⟨.each (select ((Py.range a b c).map Int.toNat) inv), ?_, rfl⟩
        simp only [invGetItem, bind, Except.bind, tupleSlice_eq inv s e st hv, pure, Except.pure]
  | bad => simp [positions] at h

end Amaranth.IoBuf
