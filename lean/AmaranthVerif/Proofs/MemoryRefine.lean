import AmaranthVerif.Proofs.MemoryClosed

/-!
# One event of the simulator model against the array of rows
-/

namespace Amaranth.Mem
open Amaranth.MemRows (Write newBit newRow toBits activeEdge activeWrite writeOf edgeOf absState)

/-! ## Hypotheses -/

/-- what the constructors guarantee about a configuration (`C11.ctor_wf`):
* `gran`   — every write port's enable bits cover the row: `len(en) * granularity ≥ width` (the constructors give
             equality, or width 0);
* `transp` — every entry of a read port's transparency list is a write port of this memory and of the read
             port's own domain (so an asynchronous port has an empty list): `ReadPort.__init__`. -/
structure WF (c : Cfg) : Prop where
  gran : ∀ k < c.wrs.length, c.shape.width ≤ (c.wrs.getD k default).enw * (c.wrs.getD k default).gran
  transp : ∀ k < c.rds.length, ∀ j ∈ (c.rds.getD k default).transp,
    j < c.wrs.length ∧ (c.rds.getD k default).dom = some (c.wrs.getD j default).dom

/-- the state has one row per address and one register per read port -/
structure Inv (c : Cfg) (s : State) : Prop where
  rows : s.rows.length = c.depth
  rdata : s.rdata.length = c.rds.length

/-- address signals are `ceil_log2(depth)` bits wide -/
structure InputsOk (c : Cfg) (inp : Inputs) : Prop where
  wr : ∀ k, (inp.wr.getD k default).addr < 2 ^ c.abits
  rd : ∀ k, (inp.rd.getD k default).addr < 2 ^ c.abits

/-- no two different write ports hit the same bit of the same row at this event -/
def NoCollision (c : Cfg) (clk : List Bool) (inp : Inputs) (e : Event) : Prop :=
  ∀ k1 k2 w1 w2, k1 ≠ k2 → activeWrite c clk inp e k1 = some w1 → activeWrite c clk inp e k2 = some w2 →
    ∀ a i, i < c.shape.width → ¬ (w1.hits a i = true ∧ w2.hits a i = true)

/-- all write ports that have an active clock edge at this event belong to one clock domain (true whenever only
one domain's clock has an active edge). Between ports of one domain the order of the writes is the port order,
in the code as in the model; between ports of different domains at coincident edges the real order is the order
in which the simulator happens to run the two domain processes. -/
def OneDomain (c : Cfg) (clk : List Bool) (inp : Inputs) (e : Event) : Prop :=
  ∀ k1 k2 w1 w2, activeWrite c clk inp e k1 = some w1 → activeWrite c clk inp e k2 = some w2 →
    (c.wrs.getD k1 default).dom = (c.wrs.getD k2 default).dom

/-- every synchronous read port that captures at this event addresses an existing row -/
def ReadsInRange (c : Cfg) (clk : List Bool) (inp : Inputs) (e : Event) : Prop :=
  ∀ k d, (c.rds.getD k default).dom = some d → k < c.rds.length → activeEdge c clk e d = true →
    (inp.rd.getD k default).en = true → (inp.rd.getD k default).addr < c.depth

theorem runs_eq_activeEdge (c : Cfg) (s : State) (e : Event) (d : Nat) :
    runs c s e d = activeEdge c s.clk e d := rfl

/-! ## The model's write values and the Spec's writes describe the same hits -/

theorem match_lt (c : Cfg) (s : State) (inp : Inputs) (e : Event) (hwf : WF c) (hin : InputsOk c inp)
    (a i k : Nat) (hi : i < c.shape.width) (hk : k < c.wrs.length) :
    mHits (wvalOf c s inp e) a i k = sHits (activeWrite c s.clk inp e) a i k ∧
    mData (wvalOf c s inp e) i k = sData (activeWrite c s.clk inp e) i k := by
  unfold mHits mData sHits sData wvalOf activeWrite
  by_cases hact : runs c s e (c.wrs.getD k default).dom = true
  · have hact' : activeEdge c s.clk e (c.wrs.getD k default).dom = true := hact
    simp only [hact, hact', hk, and_self, if_true]
    constructor
    · simp only [wval, writeOf, Write.hits]
      have := hwf.gran k hk
      have h2 : i < (c.wrs.getD k default).enw * (c.wrs.getD k default).gran := by omega
      simp only [Nat.mod_eq_of_lt (hin.wr k), ibit_mask, ibit_ofNat, testBit_replMask, hi, h2, decide_true,
        Bool.true_and]
      congr 1
    · simp only [wval, writeOf]
      rw [toBits_getD _ _ _ hi, ibit_mask]
      simp [hi]
  · have hact' : ¬ activeEdge c s.clk e (c.wrs.getD k default).dom = true := hact
    rw [if_neg hact, if_neg (fun h => hact' h.2)]
    exact ⟨rfl, rfl⟩

theorem wvals_getD (c : Cfg) (s : State) (inp : Inputs) (e : Event) (k : Nat) :
    (wvals c s inp e).getD k none = if k < c.wrs.length then wvalOf c s inp e k else none := by
  unfold wvals
  rw [List.getD_eq_getElem?_getD, List.getElem?_map]
  by_cases hk : k < c.wrs.length
  · rw [if_pos hk, List.getElem?_range hk]; rfl
  · rw [if_neg hk, List.getElem?_eq_none (by simp; omega)]; rfl

theorem match_getD (c : Cfg) (s : State) (inp : Inputs) (e : Event) (hwf : WF c) (hin : InputsOk c inp)
    (a i k : Nat) (hi : i < c.shape.width) :
    mHits (fun k => (wvals c s inp e).getD k none) a i k = sHits (activeWrite c s.clk inp e) a i k ∧
    mData (fun k => (wvals c s inp e).getD k none) i k = sData (activeWrite c s.clk inp e) i k := by
  by_cases hk : k < c.wrs.length
  · have := match_lt c s inp e hwf hin a i k hi hk
    unfold mHits mData at this ⊢
    simp only [wvals_getD, if_pos hk]
    exact this
  · unfold mHits mData sHits sData
    simp only [wvals_getD, if_neg hk]
    have : activeWrite c s.clk inp e k = none := by unfold activeWrite; simp [hk]
    rw [this]
    exact ⟨rfl, rfl⟩

theorem wvalsDom_getD (c : Cfg) (s : State) (inp : Inputs) (e : Event) (d k : Nat) :
    (wvalsDom c s inp e d).getD k none =
      if k < c.wrs.length ∧ (c.wrs.getD k default).dom = d then wvalOf c s inp e k else none := by
  unfold wvalsDom
  rw [List.getD_eq_getElem?_getD, List.getElem?_map]
  by_cases hk : k < c.wrs.length
  · rw [List.getElem?_range hk]
    simp only [Option.map_some, Option.getD_some, hk, true_and]
  · rw [if_neg (fun h => hk h.1), List.getElem?_eq_none (by simp; omega)]; rfl

/-- a write port of domain `d` is found in the `write_vals` of the process of domain `d` -/
theorem match_getD_dom (c : Cfg) (s : State) (inp : Inputs) (e : Event) (hwf : WF c) (hin : InputsOk c inp)
    (a i k d : Nat) (hi : i < c.shape.width) (hk : k < c.wrs.length) (hd : (c.wrs.getD k default).dom = d) :
    mHits (fun k => (wvalsDom c s inp e d).getD k none) a i k = sHits (activeWrite c s.clk inp e) a i k ∧
    mData (fun k => (wvalsDom c s inp e d).getD k none) i k = sData (activeWrite c s.clk inp e) i k := by
  have := match_lt c s inp e hwf hin a i k hi hk
  unfold mHits mData at this ⊢
  simp only [wvalsDom_getD, if_pos (And.intro hk hd)]
  exact this

/-- `NoCollision` makes the hitting ports agree on the data bit -/
theorem compat_of_noCollision (c : Cfg) (clk : List Bool) (inp : Inputs) (e : Event)
    (hnc : NoCollision c clk inp e) (a i : Nat) (hi : i < c.shape.width) (ks : List Nat) :
    Compat (sHits (activeWrite c clk inp e) a i) (sData (activeWrite c clk inp e) i) ks := by
  intro j1 _ j2 _ h1 h2
  by_cases hj : j1 = j2
  · rw [hj]
  · exfalso
    unfold sHits at h1 h2
    rcases hw1 : activeWrite c clk inp e j1 with _ | w1
    · rw [hw1] at h1; cases h1
    rcases hw2 : activeWrite c clk inp e j2 with _ | w2
    · rw [hw2] at h2; cases h2
    rw [hw1] at h1; rw [hw2] at h2
    exact hnc j1 j2 w1 w2 hj hw1 hw2 a i hi ⟨h1, h2⟩

/-! ## Rows -/

theorem step_rows_length (c : Cfg) (s : State) (inp : Inputs) (e : Event) :
    (step c s inp e).rows.length = s.rows.length := by
  unfold step stepG; exact length_commit _ _

/-- bit `i` of row `a` after an event, as the simulator computes it: every hitting port in index order overwrites -/
theorem step_rows_bits (c : Cfg) (s : State) (inp : Inputs) (e : Event) (a i : Nat)
    (ha : a < s.rows.length) (hi : i < c.shape.width) :
    ibit ((step c s inp e).rows.getD a 0) i =
      seqBitI (mHits (wvalOf c s inp e) a i) (mData (wvalOf c s inp e) i) (List.range c.wrs.length)
        (ibit (s.rows.getD a 0) i) := by
  have h1 : (step c s inp e).rows.getD a 0 =
      pending s.rows (enqueue c.shape s.rows (Queue.empty s.rows.length) (wvals c s inp e)) a := by
    unfold step stepG
    simp only
    rw [List.getD_eq_getElem?_getD, List.getElem?_eq_getElem (by rw [length_commit]; exact ha), commit_getElem _ _ _ ha]
    rfl
  rw [h1]
  unfold wvals
  rw [enqueue_bits c.shape s.rows (wvalOf c s inp e) a i ha hi _ _ (by simp [Queue.empty]), pending_empty]

/-- the same, in the Spec's vocabulary -/
theorem step_rows_bits_spec (c : Cfg) (s : State) (inp : Inputs) (e : Event) (hwf : WF c) (hin : InputsOk c inp)
    (a i : Nat) (ha : a < s.rows.length) (hi : i < c.shape.width) :
    ibit ((step c s inp e).rows.getD a 0) i =
      seqBitI (sHits (activeWrite c s.clk inp e) a i) (sData (activeWrite c s.clk inp e) i) (List.range c.wrs.length)
        (ibit (s.rows.getD a 0) i) := by
  rw [step_rows_bits c s inp e a i ha hi]
  exact seqBitI_congr _ _ (fun k hk => match_lt c s inp e hwf hin a i k hi (List.mem_range.1 hk))

theorem refine_rows (c : Cfg) (s : State) (inp : Inputs) (e : Event) (hwf : WF c) (hin : InputsOk c inp)
    (hnc : NoCollision c s.clk inp e) :
    (absState c (step c s inp e)).mem = (MemRows.step (absState c s) (edgeOf c s.clk inp e)).mem := by
  simp only [absState, MemRows.step, edgeOf]
  apply List.ext_getElem
  · simp [step_rows_length]
  · intro a h1 h2
    have ha : a < s.rows.length := by simpa [step_rows_length] using h1
    simp only [List.getElem_map, List.getElem_mapIdx]
    apply newRow_toBits
    intro i hi
    have hx : (step c s inp e).rows[a]'(by rw [step_rows_length]; exact ha) = (step c s inp e).rows.getD a 0 := by
      rw [List.getD_eq_getElem?_getD, List.getElem?_eq_getElem]; rfl
    have hy : s.rows[a] = s.rows.getD a 0 := by
      rw [List.getD_eq_getElem?_getD, List.getElem?_eq_getElem]; rfl
    rw [hx, hy, step_rows_bits_spec c s inp e hwf hin a i ha hi, newBit_filterMap]
    exact seqBitI_eq_newBitI _ _ _ _ (compat_of_noCollision c s.clk inp e hnc a i hi _)

/-! ## Read ports -/

theorem getD_map_toBits (w : Nat) (rows : List Int) (a : Nat) (ha : a < rows.length) :
    (rows.map (toBits w)).getD a [] = toBits w (rows.getD a 0) := by
  simp [List.getD_eq_getElem?_getD, ha]

theorem step_rdata_length (c : Cfg) (s : State) (inp : Inputs) (e : Event) :
    (step c s inp e).rdata.length = c.rds.length := by
  unfold step stepG; exact List.length_mapIdx

/-- what an event does to the `data` signal of read port `k` -/
theorem step_rdata_getD (c : Cfg) (s : State) (inp : Inputs) (e : Event) (k : Nat) (hk : k < c.rds.length) :
    (step c s inp e).rdata.getD k 0 =
      match (c.rds.getD k default).dom with
      | none => s.rdata.getD k 0
      | some d =>
        if runs c s e d = true ∧ (inp.rd.getD k default).en = true then
          capture c s.rows (wvalsDom c s inp e d) (c.rds.getD k default) (inp.rd.getD k default)
        else s.rdata.getD k 0 := by
  have hr : c.rds.getD k default = c.rds[k] := by
    rw [List.getD_eq_getElem?_getD, List.getElem?_eq_getElem hk]; rfl
  unfold step stepG
  simp only [Bool.false_and, Bool.false_eq_true, if_false]
  rw [List.getD_eq_getElem?_getD, List.getElem?_mapIdx, List.getElem?_eq_getElem hk, hr]
  simp only [Option.map_some, Option.getD_some]
  cases c.rds[k].dom with
  | none => rfl
  | some d =>
    simp only
    by_cases h1 : runs c s e d = true
    · by_cases h2 : (inp.rd.getD k default).en = true
      · rw [if_pos h1, if_pos h2, if_pos ⟨h1, h2⟩]
      · rw [if_pos h1, if_neg h2, if_neg (fun h => h2 h.2)]
    · rw [if_neg h1, if_neg (fun h => h1 h.1)]

/-- bit `i` of what an enabled synchronous read port captures (address in range), as the simulator computes it:
the committed row, overwritten by every port of the transparency list that hits the bit, in list order -/
theorem capture_bits (c : Cfg) (rows : List Int) (wvs : List (Option WVal)) (r : RdCfg) (ri : RdIn) (i : Nat)
    (hi : i < c.shape.width) (hin : ri.addr < 2 ^ c.abits) (ha : ri.addr < rows.length) :
    ibit (capture c rows wvs r ri) i =
      seqBitI (mHits (fun k => wvs.getD k none) ri.addr i)
        (mData (fun k => wvs.getD k none) i) r.transp (ibit (rows.getD ri.addr 0) i) := by
  unfold capture
  simp only [Nat.mod_eq_of_lt hin]
  rw [ibit_norm _ _ _ hi, patchAll_bits]
  unfold memRead
  rw [if_pos ha]

/-- the same in the Spec's vocabulary, for a read port of domain `d` whose transparency list names write ports of
domain `d` only (`WF.transp`) -/
theorem capture_bits_spec (c : Cfg) (s : State) (inp : Inputs) (e : Event) (hwf : WF c) (hio : InputsOk c inp)
    (r : RdCfg) (ri : RdIn) (d i : Nat)
    (htr : ∀ j ∈ r.transp, j < c.wrs.length ∧ (c.wrs.getD j default).dom = d)
    (hi : i < c.shape.width) (hin : ri.addr < 2 ^ c.abits) (ha : ri.addr < s.rows.length) :
    ibit (capture c s.rows (wvalsDom c s inp e d) r ri) i =
      seqBitI (sHits (activeWrite c s.clk inp e) ri.addr i) (sData (activeWrite c s.clk inp e) i) r.transp
        (ibit (s.rows.getD ri.addr 0) i) := by
  rw [capture_bits c s.rows _ r ri i hi hin ha]
  exact seqBitI_congr _ _ (fun k hk => match_getD_dom c s inp e hwf hio ri.addr i k d hi (htr k hk).1 (htr k hk).2)

/-- `WF.transp` for read port `k` of domain `d` -/
theorem WF.transp_dom {c : Cfg} (hwf : WF c) (k d : Nat) (hk : k < c.rds.length)
    (hdom : (c.rds.getD k default).dom = some d) :
    ∀ j ∈ (c.rds.getD k default).transp, j < c.wrs.length ∧ (c.wrs.getD j default).dom = d := by
  intro j hj
  have := hwf.transp k hk j hj
  rw [hdom] at this
  exact ⟨this.1, (Option.some.inj this.2).symm⟩

theorem refine_rdata (c : Cfg) (s : State) (inp : Inputs) (e : Event) (hwf : WF c) (hinv : Inv c s)
    (hin : InputsOk c inp) (hnc : NoCollision c s.clk inp e) (hrr : ReadsInRange c s.clk inp e) :
    (absState c (step c s inp e)).rdata = (MemRows.step (absState c s) (edgeOf c s.clk inp e)).rdata := by
  simp only [absState, MemRows.step, edgeOf]
  apply List.ext_getElem
  · simp [step_rdata_length, hinv.rdata]
  · intro k h1 h2
    have hk : k < c.rds.length := by simpa [step_rdata_length] using h1
    have hk' : k < s.rdata.length := by rw [hinv.rdata]; exact hk
    have hr : c.rds.getD k default = c.rds[k] := by
      rw [List.getD_eq_getElem?_getD, List.getElem?_eq_getElem hk]; rfl
    have hx : (step c s inp e).rdata[k]'(by rw [step_rdata_length]; exact hk) = (step c s inp e).rdata.getD k 0 := by
      rw [List.getD_eq_getElem?_getD, List.getElem?_eq_getElem]; rfl
    have hy : s.rdata[k] = s.rdata.getD k 0 := by
      rw [List.getD_eq_getElem?_getD, List.getElem?_eq_getElem]; rfl
    simp only [List.getElem_map, List.getElem_mapIdx]
    rw [hx, step_rdata_getD c s inp e k hk, List.getD_eq_getElem?_getD (l := List.mapIdx _ _), List.getElem?_mapIdx,
      List.getElem?_eq_getElem hk, hr, hy]
    simp only [Option.map_some, Option.getD_some]
    have hrr' := hrr k
    rw [hr] at hrr'
    cases hdom : c.rds[k].dom with
    | none => rfl
    | some d =>
      simp only
      rw [runs_eq_activeEdge]
      by_cases hcap : activeEdge c s.clk e d = true ∧ (inp.rd.getD k default).en = true
      · rw [if_pos hcap, if_pos hcap]
        simp only
        have ha : (inp.rd.getD k default).addr < s.rows.length := by
          rw [hinv.rows]; exact hrr' d hdom hk hcap.1 hcap.2
        have hg := getD_map_toBits c.shape.width s.rows _ ha
        rw [hg]
        apply newRow_toBits
        intro i hi
        have htr := hwf.transp_dom k d hk (by rw [hr]; exact hdom)
        rw [hr] at htr
        rw [capture_bits_spec c s inp e hwf hin _ _ d i htr hi (hin.rd k) ha, newBit_filterMap]
        exact seqBitI_eq_newBitI _ _ _ _ (compat_of_noCollision c s.clk inp e hnc _ i hi _)
      · rw [if_neg hcap, if_neg hcap]

/-- one event of the simulator is one step of the array of rows -/
theorem refine_step (c : Cfg) (s : State) (inp : Inputs) (e : Event) (hwf : WF c) (hinv : Inv c s)
    (hin : InputsOk c inp) (hnc : NoCollision c s.clk inp e) (hrr : ReadsInRange c s.clk inp e) :
    absState c (step c s inp e) = MemRows.step (absState c s) (edgeOf c s.clk inp e) := by
  have h1 := refine_rows c s inp e hwf hin hnc
  have h2 := refine_rdata c s inp e hwf hinv hin hnc hrr
  cases hA : absState c (step c s inp e)
  cases hB : MemRows.step (absState c s) (edgeOf c s.clk inp e)
  rw [hA, hB] at h1 h2
  simp only at h1 h2
  rw [h1, h2]

theorem inv_step (c : Cfg) (s : State) (inp : Inputs) (e : Event) (hinv : Inv c s) : Inv c (step c s inp e) :=
  ⟨by rw [step_rows_length]; exact hinv.rows, step_rdata_length c s inp e⟩

/-- the repaired simulator never consults a reset signal: the rows and the read-port outputs after an event do
not depend on the event's reset levels nor on the previous ones (true by construction of `step`; that the *code*
behaves so is what the check's walks with reset pulses establish) -/
theorem step_ignores_reset (c : Cfg) (s : State) (inp : Inputs) (clk r1 r2 r0 : List Bool) :
    (step c s inp ⟨clk, r1⟩).rows = (step c { s with rst := r0 } inp ⟨clk, r2⟩).rows ∧
    (step c s inp ⟨clk, r1⟩).rdata = (step c { s with rst := r0 } inp ⟨clk, r2⟩).rdata :=
  ⟨rfl, rfl⟩

/-- the initial state of a configuration whose lists have the declared lengths (`C11.inv_init` derives them from
the constructors) -/
theorem inv_init_of_lengths (c : Cfg) (h1 : c.init.length = c.depth) (h2 : c.rdInit.length = c.rds.length) :
    Inv c (init c) := ⟨h1, h2⟩

theorem step_clk (c : Cfg) (s : State) (inp : Inputs) (e : Event) : (step c s inp e).clk = e.clk := rfl

end Amaranth.Mem
