import AmaranthVerif.Proofs.AsyncFifoArith

/-! # The safety invariant of the AsyncFIFO model

Ghost state: the list of all words ever accepted (`written`, so `P = written.length` is the
unbounded write count), the unbounded read count `nread` (`C`), the log of delivered words, and for
every synchroniser stage the unbounded counter value whose Gray code it holds.  The ghost state is
computed from observations only (it never influences the model state). -/

namespace Amaranth.AsyncFifo

structure Ghost where
  /-- every word accepted so far, oldest first -/
  written : List Nat
  /-- number of words delivered so far (`C`) -/
  nread : Nat
  /-- every word delivered so far -/
  readLog : List Nat
  /-- write counts held (Gray coded) in `produce_cdc.stage0`, `stage1` -/
  p0 : Nat
  p1 : Nat
  /-- read counts held in `consume_cdc.stage0`, `stage1` and in `consume_w_bin` -/
  c0 : Nat
  c1 : Nat
  cb : Nat
  /-- read-clock edges since the last accepted write -/
  quiet : Nat

/-- unbounded write count `P` -/
def Ghost.P (g : Ghost) : Nat := g.written.length

def Ghost.init : Ghost := ⟨[], 0, [], 0, 0, 0, 0, 0, 0⟩

/-- a clock event given by which clocks rise: the model's `step`, uniformly -/
def stepG (c : Cfg) (s : State) (i : Inp) (w r : Bool) : State :=
  let t := if w then wEdge c s s i else s
  if r then rEdge c s t i else t

theorem step_eq_stepG (c : Cfg) (s : State) (e : Event) : step c s e = stepG c s e.inp e.isW e.isR := by
  cases e <;> rfl

def gstepG (c : Cfg) (g : Ghost) (s : State) (i : Inp) (w r : Bool) : Ghost :=
  let dw := w && doWrite c s i
  let dr := r && doRead s i
  { written := if dw then g.written ++ [i.wData % 2 ^ c.width] else g.written
    nread := if dr then g.nread + 1 else g.nread
    readLog := if dr then g.readLog ++ [s.rData] else g.readLog
    p0 := if r then g.P else g.p0
    p1 := if r then g.p0 else g.p1
    c0 := if w then g.nread else g.c0
    c1 := if w then g.c0 else g.c1
    cb := if w then g.c1 else g.cb
    quiet := if dw then 0 else if r then g.quiet + 1 else g.quiet }

def gstep (c : Cfg) (g : Ghost) (s : State) (e : Event) : Ghost := gstepG c g s e.inp e.isW e.isR

structure Inv (c : Cfg) (g : Ghost) (s : State) : Prop where
  pbin : s.produceWBin = g.P % c.M
  pgry : s.produceWGry = gray (g.P % c.M)
  cbin : s.consumeRBin = g.nread % c.M
  cgry : s.consumeRGry = gray (g.nread % c.M)
  ps0 : s.pStage0 = gray (g.p0 % c.M)
  ps1 : s.pStage1 = gray (g.p1 % c.M)
  cs0 : s.cStage0 = gray (g.c0 % c.M)
  cs1 : s.cStage1 = gray (g.c1 % c.M)
  cwb : s.consumeWBin = g.cb % c.M
  ord : g.cb ≤ g.c1 ∧ g.c1 ≤ g.c0 ∧ g.c0 ≤ g.nread ∧ g.nread ≤ g.p1 ∧ g.p1 ≤ g.p0 ∧ g.p0 ≤ g.P ∧
        g.P ≤ g.cb + c.depth
  wlev : s.wLevel ≤ c.depth
  mem : ∀ k, g.nread ≤ k → k < g.P → s.mem (k % c.depth) = g.written.getD k 0
  rdata : g.nread < g.p0 → s.rData = g.written.getD g.nread 0
  log : g.readLog = g.written.take g.nread
  rst1 : s.rst1 = true → g.p1 = 0 ∧ g.nread = 0
  rst0 : s.rst0 = true → s.rst1 = true ∧ g.p0 = 0
  q1 : 1 ≤ g.quiet → g.p0 = g.P ∧ s.rst0 = false
  q2 : 2 ≤ g.quiet → g.p1 = g.P ∧ s.rst1 = false

theorem inv_init (c : Cfg) : Inv c Ghost.init init := by
  constructor <;> simp [Ghost.init, init, Ghost.P, gray_zero]

section
variable {c : Cfg} {g : Ghost} {s : State}

theorem Inv.wFull_iff (h : Inv c g s) (hn : 1 ≤ c.ctrBits) : s.wFull c = true ↔ g.P = g.c1 + c.depth := by
  unfold State.wFull
  rw [h.pgry, h.cs1]
  have := h.ord
  exact AsyncFifo.wFull_iff c.ctrBits g.P g.c1 hn (by omega) (by unfold Cfg.depth at this; omega)

theorem Inv.rEmpty_iff (h : Inv c g s) (hn : 1 ≤ c.ctrBits) : s.rEmpty = true ↔ g.nread = g.p1 := by
  unfold State.rEmpty
  have ho := h.ord
  have h2 := two_depth c.ctrBits hn
  have hD : 0 < c.depth := Nat.two_pow_pos _
  rw [Bool.or_eq_true, beq_iff_eq, h.cgry, h.ps1]
  unfold Cfg.M
  rw [AsyncFifo.rEmpty_iff c.ctrBits g.nread g.p1 (by omega) (by unfold Cfg.depth at ho hD; omega)]
  constructor
  · rintro (hr | he)
    · have := h.rst1 hr; omega
    · exact he
  · intro he; exact Or.inr he

theorem Inv.doWrite_lt (h : Inv c g s) (hn : 1 ≤ c.ctrBits) (i : Inp) (hd : doWrite c s i = true) :
    g.P < g.c1 + c.depth := by
  unfold doWrite State.wRdy at hd
  have hf : ¬ s.wFull c = true := by
    intro hf; rw [hf] at hd; simp at hd
  rw [h.wFull_iff hn] at hf
  have := h.ord
  omega

theorem Inv.doRead_lt (h : Inv c g s) (hn : 1 ≤ c.ctrBits) (i : Inp) (hd : doRead s i = true) :
    g.nread < g.p1 := by
  unfold doRead State.rRdy at hd
  have hf : ¬ s.rEmpty = true := by
    intro hf; rw [hf] at hd; simp at hd
  rw [h.rEmpty_iff hn] at hf
  have := h.ord
  omega

end

theorem grayDecode_zero (n : Nat) : grayDecode n 0 = 0 := by
  induction n with
  | zero => rfl
  | succ k ih => simp [grayDecode, ih]

/-! ## list facts -/

theorem getD_snoc_lt (l : List Nat) (x k : Nat) (h : k < l.length) : (l ++ [x]).getD k 0 = l.getD k 0 := by
  simp [List.getD_eq_getElem?_getD, List.getElem?_append_left h]

theorem getD_snoc_len (l : List Nat) (x : Nat) : (l ++ [x]).getD l.length 0 = x := by
  simp [List.getD_eq_getElem?_getD]

theorem take_succ_getD (l : List Nat) (k : Nat) (h : k < l.length) : l.take (k + 1) = l.take k ++ [l.getD k 0] := by
  rw [List.take_succ_eq_append_getElem h]
  simp [List.getD_eq_getElem?_getD, List.getElem?_eq_getElem h]

/-! ## fields of a uniform step -/

section fields
variable (c : Cfg) (s : State) (i : Inp) (w r : Bool)

@[simp] theorem stepG_produceWBin : (stepG c s i w r).produceWBin = if w then produceWNxt c s i else s.produceWBin := by
  cases w <;> cases r <;> rfl
@[simp] theorem stepG_produceWGry : (stepG c s i w r).produceWGry = if w then gray (produceWNxt c s i) else s.produceWGry := by
  cases w <;> cases r <;> rfl
@[simp] theorem stepG_cStage0 : (stepG c s i w r).cStage0 = if w then s.consumeRGry else s.cStage0 := by
  cases w <;> cases r <;> rfl
@[simp] theorem stepG_cStage1 : (stepG c s i w r).cStage1 = if w then s.cStage0 else s.cStage1 := by
  cases w <;> cases r <;> rfl
@[simp] theorem stepG_consumeWBin : (stepG c s i w r).consumeWBin = if w then grayDecode c.ctrBits s.cStage1 else s.consumeWBin := by
  cases w <;> cases r <;> rfl
@[simp] theorem stepG_wLevel : (stepG c s i w r).wLevel = if w then (s.produceWBin + c.M - s.consumeWBin) % c.M else s.wLevel := by
  cases w <;> cases r <;> rfl
@[simp] theorem stepG_mem : (stepG c s i w r).mem =
    if w && doWrite c s i then update s.mem (s.produceWBin % c.depth) (i.wData % 2 ^ c.width) else s.mem := by
  cases w <;> cases r <;> simp [stepG, wEdge, rEdge]
@[simp] theorem stepG_consumeRBin : (stepG c s i w r).consumeRBin =
    if r then (if s.rst1 then grayDecode c.ctrBits s.pStage1 else consumeRNxt c s i) else s.consumeRBin := by
  cases w <;> cases r <;> rfl
@[simp] theorem stepG_consumeRGry : (stepG c s i w r).consumeRGry =
    if r then (if s.rst1 then s.pStage1 else gray (consumeRNxt c s i)) else s.consumeRGry := by
  cases w <;> cases r <;> rfl
@[simp] theorem stepG_pStage0 : (stepG c s i w r).pStage0 = if r then s.produceWGry else s.pStage0 := by
  cases w <;> cases r <;> rfl
@[simp] theorem stepG_pStage1 : (stepG c s i w r).pStage1 = if r then s.pStage0 else s.pStage1 := by
  cases w <;> cases r <;> rfl
@[simp] theorem stepG_rData : (stepG c s i w r).rData = if r then s.mem (consumeRNxt c s i % c.depth) else s.rData := by
  cases w <;> cases r <;> rfl
@[simp] theorem stepG_rst0 : (stepG c s i w r).rst0 = if r then false else s.rst0 := by
  cases w <;> cases r <;> rfl
@[simp] theorem stepG_rst1 : (stepG c s i w r).rst1 = if r then s.rst0 else s.rst1 := by
  cases w <;> cases r <;> rfl
@[simp] theorem stepG_rRst : (stepG c s i w r).rRst = if r then s.rst1 else s.rRst := by
  cases w <;> cases r <;> rfl

end fields

/-! ## preservation -/

theorem Inv.stepG {c : Cfg} {g : Ghost} {s : State} (h : Inv c g s) (hn : 1 ≤ c.ctrBits) (i : Inp) (w r : Bool) :
    Inv c (gstepG c g s i w r) (stepG c s i w r) := by
  have hM : 0 < c.M := Nat.two_pow_pos _
  have hD : 0 < c.depth := Nat.two_pow_pos _
  have h2 : c.M = 2 * c.depth := two_depth c.ctrBits hn
  have ho := h.ord
  -- what the strobes imply
  have hW : (w && doWrite c s i) = true → g.P < g.c1 + c.depth := by
    intro hd; simp only [Bool.and_eq_true] at hd; exact h.doWrite_lt hn i hd.2
  have hR : (r && doRead s i) = true → g.nread < g.p1 := by
    intro hd; simp only [Bool.and_eq_true] at hd; exact h.doRead_lt hn i hd.2
  have hRrst : s.rst1 = true → doRead s i = false := by
    intro hr; simp [doRead, State.rRdy, State.rEmpty, hr]
  -- next-counter values in ghost terms
  have hnw : produceWNxt c s i = (g.P + b2n (doWrite c s i)) % c.M := by
    unfold produceWNxt; rw [h.pbin, mod_succ_mod]
  have hnr : consumeRNxt c s i = (g.nread + b2n (doRead s i)) % c.M := by
    unfold consumeRNxt; rw [h.cbin, mod_succ_mod]
  have hP' : (gstepG c g s i w r).P = g.P + b2n (w && doWrite c s i) := by
    simp only [gstepG, Ghost.P]; split <;> simp [b2n, *]
  have hC' : (gstepG c g s i w r).nread = g.nread + b2n (r && doRead s i) := by
    simp only [gstepG]; split <;> simp [b2n, *]
  have hrst1 : s.rst1 = true → s.pStage1 = 0 ∧ g.nread = 0 ∧ g.p1 = 0 := by
    intro hr; have := h.rst1 hr; refine ⟨?_, this.2, this.1⟩; rw [h.ps1, this.1]; simp [gray_zero]
  have hbw : b2n (w && doWrite c s i) ≤ 1 := by unfold b2n; split <;> omega
  have hbr : b2n (r && doRead s i) ≤ 1 := by unfold b2n; split <;> omega
  have hbw1 : b2n (w && doWrite c s i) = 1 → g.P < g.c1 + c.depth := by
    intro e; apply hW; unfold b2n at e; split at e <;> simp_all
  have hbr1 : b2n (r && doRead s i) = 1 → g.nread < g.p1 := by
    intro e; apply hR; unfold b2n at e; split at e <;> simp_all
  have hbw0 : w = false → b2n (w && doWrite c s i) = 0 := by intro e; simp [e, b2n]
  have hbr0 : r = false → b2n (r && doRead s i) = 0 := by intro e; simp [e, b2n]
  refine { pbin := ?_, pgry := ?_, cbin := ?_, cgry := ?_, ps0 := ?_, ps1 := ?_, cs0 := ?_, cs1 := ?_, cwb := ?_,
           ord := ?_, wlev := ?_, mem := ?_, rdata := ?_, log := ?_, rst1 := ?_, rst0 := ?_, q1 := ?_, q2 := ?_ }
  · -- pbin
    rw [hP', stepG_produceWBin]
    cases w
    · simpa [b2n] using h.pbin
    · simp [hnw]
  · -- pgry
    rw [hP', stepG_produceWGry]
    cases w
    · simpa [b2n] using h.pgry
    · simp [hnw]
  · -- cbin
    rw [hC', stepG_consumeRBin]
    cases r
    · simpa [b2n] using h.cbin
    · simp only [if_true, Bool.true_and]
      split
      · next hr =>
        obtain ⟨e1, e2, _⟩ := hrst1 hr
        rw [e1, hRrst hr, e2]; simp [b2n, grayDecode_zero, Nat.zero_mod]
      · exact hnr
  · -- cgry
    rw [hC', stepG_consumeRGry]
    cases r
    · simpa [b2n] using h.cgry
    · simp only [if_true, Bool.true_and]
      split
      · next hr =>
        obtain ⟨e1, e2, _⟩ := hrst1 hr
        rw [e1, hRrst hr, e2]; simp [b2n, gray_zero, Nat.zero_mod]
      · rw [hnr]
  · -- ps0
    rw [stepG_pStage0]; simp only [gstepG]
    cases r
    · simpa using h.ps0
    · simpa [Ghost.P] using h.pgry
  · -- ps1
    rw [stepG_pStage1]; simp only [gstepG]
    cases r
    · simpa using h.ps1
    · simpa using h.ps0
  · -- cs0
    rw [stepG_cStage0]; simp only [gstepG]
    cases w
    · simpa using h.cs0
    · simpa using h.cgry
  · -- cs1
    rw [stepG_cStage1]; simp only [gstepG]
    cases w
    · simpa using h.cs1
    · simpa using h.cs0
  · -- cwb
    rw [stepG_consumeWBin]; simp only [gstepG]
    cases w
    · simpa using h.cwb
    · simp only [if_true]
      rw [h.cs1]; exact grayDecode_gray _ _ (Nat.mod_lt _ hM)
  · -- ord
    rw [hP', hC']
    simp only [gstepG]
    have e1 := hbw0; have e2 := hbr0
    cases w <;> cases r <;>
      simp only [if_true, if_false, Bool.false_eq_true, forall_const, reduceCtorEq, false_implies] at e1 e2 ⊢ <;>
      simp only [Ghost.P] at ho hbw1 ⊢ <;> omega
  · -- wlev
    rw [stepG_wLevel]
    cases w
    · simpa using h.wlev
    · simp only [if_true]
      rw [h.pbin, h.cwb, level_eq hM (by omega) (by omega)]
      omega
  · -- mem
    intro k hk1 hk2
    rw [hP'] at hk2; rw [hC'] at hk1
    rw [stepG_mem]; simp only [gstepG]
    cases hdw : (w && doWrite c s i)
    · simp only [hdw, b2n, Bool.false_eq_true, if_false] at hk2 ⊢
      exact h.mem k (by omega) (by omega)
    · have hlt := hW hdw
      simp only [hdw, b2n, if_true] at hk2 ⊢
      rw [h.pbin]
      unfold Cfg.M Cfg.depth
      rw [mod_mod_depth _ _ hn]
      unfold update
      by_cases hkP : k = g.P
      · subst hkP; simp only [if_true]; exact (getD_snoc_len _ _).symm
      · have hkl : k < g.P := by omega
        have : k % 2 ^ (c.ctrBits - 1) ≠ g.P % 2 ^ (c.ctrBits - 1) :=
          slot_ne hkl (by unfold Cfg.depth at hlt ho; omega)
        simp only [this, if_false]
        rw [getD_snoc_lt _ _ _ hkl]
        exact h.mem k (by omega) hkl
  · -- rdata
    have hget : ∀ k, k < g.P → (if (w && doWrite c s i) = true then g.written ++ [i.wData % 2 ^ c.width] else g.written).getD k 0
        = g.written.getD k 0 := by
      intro k hk; split
      · exact getD_snoc_lt _ _ _ hk
      · rfl
    rw [hC', stepG_rData]; simp only [gstepG]
    cases r
    · simp only [Bool.false_eq_true, if_false]
      rw [hbr0 rfl]
      intro hlt
      rw [Nat.add_zero] at hlt ⊢
      rw [hget g.nread (by omega)]
      exact h.rdata hlt
    · simp only [if_true, Bool.true_and]
      intro hlt
      rw [hget _ hlt, hnr]
      unfold Cfg.M Cfg.depth
      rw [mod_mod_depth _ _ hn]
      exact h.mem _ (by omega) hlt
  · -- log
    simp only [gstepG]
    have htake : ∀ k, k ≤ g.P → (if (w && doWrite c s i) = true then g.written ++ [i.wData % 2 ^ c.width] else g.written).take k
        = g.written.take k := by
      intro k hk; split
      · exact List.take_append_of_le_length hk
      · rfl
    cases hdr : (r && doRead s i)
    · simp only [Bool.false_eq_true, if_false]
      rw [htake _ (by omega)]; exact h.log
    · have hlt := hR hdr
      simp only [if_true]
      rw [htake _ (by omega), take_succ_getD _ _ (by unfold Ghost.P at ho; omega), h.log, h.rdata (by omega)]
  · -- rst1
    rw [stepG_rst1, hC']; simp only [gstepG]
    cases r
    · simp only [Bool.false_eq_true, if_false]; rw [hbr0 rfl]; exact h.rst1
    · simp only [if_true, Bool.true_and]
      intro hr0
      obtain ⟨hr1, hp0⟩ := h.rst0 hr0
      have := hrst1 hr1
      rw [hRrst hr1]
      simp [b2n, hp0, this.2.1]
  · -- rst0
    rw [stepG_rst0, stepG_rst1]; simp only [gstepG]
    cases r
    · simpa using h.rst0
    · simp
  · -- q1
    rw [hP', stepG_rst0]; simp only [gstepG]
    cases hdw : (w && doWrite c s i)
    · simp only [Bool.false_eq_true, if_false, b2n, Nat.add_zero]
      cases r
      · simpa using h.q1
      · simp [Ghost.P]
    · simp
  · -- q2
    rw [hP', stepG_rst1]; simp only [gstepG]
    cases hdw : (w && doWrite c s i)
    · simp only [Bool.false_eq_true, if_false, b2n, Nat.add_zero]
      cases r
      · simpa using h.q2
      · simp only [if_true]
        intro hq
        exact h.q1 (by omega)
    · simp

end Amaranth.AsyncFifo
